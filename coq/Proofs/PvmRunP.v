(* Lemmas about Model/PvmRun.v: invariants over any number of steps, exactness of out-of-gas,
   independence of the result from surplus gas, reported gas usage. *)
From JamV Require Import Model.PvmRun Proofs.PvmCodeP Proofs.PvmMemP Proofs.PvmAluP Proofs.PvmStepP.
From Coq Require Import ZifyBool ZifyNat ZifyN.
Local Open Scope Z_scope.
Ltac Zify.zify_post_hook ::= Z.div_mod_to_equations.

(* ---- run: well-formedness, counter range, gas never grows ---- *)
Lemma run_wf : forall fuel p pc s e pc' s',
  wf_code p -> code_len p + 25 <= ADDR -> wf_st s -> 0 <= pc < ADDR ->
  run fuel p pc s = Some (e, pc', s') ->
  wf_st s' /\ 0 <= pc' < ADDR /\ gas s' <= gas s.
Proof.
  induction fuel as [|f IH]; intros p pc s e pc' s' Hc Hl Hs Hpc H; cbn [run] in H; [discriminate|].
  destruct (step p pc s) as [[e1 pc1] s1] eqn:St.
  pose proof (step_wf _ _ _ _ _ _ Hc Hs St) as W1.
  pose proof (step_pc _ _ _ _ _ _ Hl Hpc St) as P1.
  pose proof (step_gas_le _ _ _ _ _ _ St) as G1.
  destruct e1; try (inversion H; subst; split; [assumption|split; assumption]).
  destruct (IH _ _ _ _ _ _ Hc Hl W1 P1 H) as (A & B & C). split; [exact A|split; [exact B|lia]].
Qed.

Lemma run_heap : forall fuel p pc s e pc' s',
  wf_code p -> wf_st s -> run fuel p pc s = Some (e, pc', s') ->
  m_hl (mem s') = m_hl (mem s) /\ m_hp (mem s) <= m_hp (mem s') /\ (heap_ok (mem s) -> heap_ok (mem s')).
Proof.
  induction fuel as [|f IH]; intros p pc s e pc' s' Hc Hs H; cbn [run] in H; [discriminate|].
  destruct (step p pc s) as [[e1 pc1] s1] eqn:St.
  pose proof (step_wf _ _ _ _ _ _ Hc Hs St) as W1.
  pose proof (step_heap _ _ _ _ _ _ (proj1 Hs) St) as (A & B & C).
  destruct e1; try (inversion H; subst; split; [assumption|split; assumption]).
  destruct (IH _ _ _ _ _ _ Hc W1 H) as (A' & B' & C'). split; [congruence|split; [lia|auto]].
Qed.

Lemma nsteps_heap : forall n p pc s pc' s',
  wf_code p -> wf_st s -> nsteps n p pc s = Some (pc', s') ->
  m_hl (mem s') = m_hl (mem s) /\ m_hp (mem s) <= m_hp (mem s') /\ (heap_ok (mem s) -> heap_ok (mem s')).
Proof.
  induction n as [|n IH]; intros p pc s pc' s' Hc Hs H; cbn [nsteps] in H.
  - inversion H; subst. split; [reflexivity|split; [lia|auto]].
  - destruct (step p pc s) as [[e1 pc1] s1] eqn:St.
    pose proof (step_wf _ _ _ _ _ _ Hc Hs St) as W1.
    pose proof (step_heap _ _ _ _ _ _ (proj1 Hs) St) as (A & B & C).
    destruct e1; try discriminate.
    destruct (IH _ _ _ _ _ Hc W1 H) as (A' & B' & C'). split; [congruence|split; [lia|auto]].
Qed.

(* [run] returns None only for lack of fuel: gas + 1 units of fuel always suffice *)
Lemma run_terminates : forall fuel p pc s, gas s <= Z.of_nat fuel -> run (S fuel) p pc s <> None.
Proof.
  induction fuel as [|f IH]; intros p pc s H.
  - cbn [run]. rewrite step_oog by lia. discriminate.
  - change (run (S (S f)) p pc s) with
      (let '(e, pc', s') := step p pc s in
       match e with Continue => run (S f) p pc' s' | _ => Some (e, pc', s') end).
    destruct (step p pc s) as [[e1 pc1] s1] eqn:St.
    destruct (step_costs_one _ _ _ _ _ _ St) as [(-> & _)|(NO & G & G')].
    + discriminate.
    + destruct e1; try discriminate. apply IH. lia.
Qed.

(* ---- the result of a step does not depend on how much gas is left, as long as it is >= 1 ---- *)
Lemma step_gas_indep : forall p pc s g e pc' s', 1 <= gas s -> 1 <= g ->
  step p pc s = (e, pc', s') -> step p pc (with_gas s g) = (e, pc', with_gas s' (g - 1)).
Proof.
  intros p pc s g e pc' s' G1 G2 H. unfold step in *. cbn [with_gas gas regs mem].
  destruct (gas s <? 1) eqn:E1; [lia|]. destruct (g <? 1) eqn:E2; [lia|].
  destruct (exec p pc (regs s) (mem s)) as [[[e0 t] r'] m'].
  destruct e0; inversion H; subst; reflexivity.
Qed.

Lemma with_gas_same : forall s, with_gas s (gas s) = s.
Proof. intros []; reflexivity. Qed.

Lemma with_gas_twice : forall s a b, with_gas (with_gas s a) b = with_gas s b.
Proof. intros; reflexivity. Qed.

(* a run that does not end out-of-gas gives the same exit, counter, registers and memory under
   any larger gas supply, and the surplus is handed back untouched *)
Lemma run_more_gas : forall fuel p pc s d e pc' s', 0 <= d ->
  run fuel p pc s = Some (e, pc', s') -> e <> OutOfGas ->
  run fuel p pc (with_gas s (gas s + d)) = Some (e, pc', with_gas s' (gas s' + d)).
Proof.
  induction fuel as [|f IH]; intros p pc s d e pc' s' Hd H NO; cbn [run] in *; [discriminate|].
  destruct (step p pc s) as [[e1 pc1] s1] eqn:St.
  destruct (step_costs_one _ _ _ _ _ _ St) as [(-> & _)|(NO1 & G & G')].
  - inversion H; subst. congruence.
  - rewrite (step_gas_indep p pc s (gas s + d) e1 pc1 s1 G ltac:(lia) St).
    replace (gas s + d - 1) with (gas s1 + d) by lia.
    destruct e1; try (inversion H; subst; reflexivity).
    specialize (IH p pc1 s1 d e pc' s' Hd H NO). exact IH.
Qed.

(* out-of-gas is exact: if the first n steps continue under some supply >= n, then a supply of
   exactly n stops out-of-gas at the (n+1)-th step, in the state after exactly those n steps *)
Lemma oog_exact : forall n p pc s pc' s', Z.of_nat n <= gas s ->
  nsteps n p pc s = Some (pc', s') ->
  forall fuel, (n < fuel)%nat ->
  run fuel p pc (with_gas s (Z.of_nat n)) = Some (OutOfGas, pc', with_gas s' 0).
Proof.
  induction n as [|n IH]; intros p pc s pc' s' G H fuel Hf.
  - cbn [nsteps] in H. inversion H; subst. destruct fuel as [|f]; [lia|]. cbn [run].
    rewrite step_oog by (cbn; lia). reflexivity.
  - cbn [nsteps] in H. destruct (step p pc s) as [[e1 pc1] s1] eqn:St.
    destruct e1; try discriminate.
    destruct (step_costs_one _ _ _ _ _ _ St) as [(E & _)|(_ & G1 & G')]; [discriminate|].
    destruct fuel as [|f]; [lia|]. cbn [run].
    rewrite (step_gas_indep p pc s (Z.of_nat (S n)) Continue pc1 s1 G1 ltac:(lia) St).
    replace (Z.of_nat (S n) - 1) with (Z.of_nat n) by lia.
    apply IH; [lia|assumption|lia].
Qed.

(* conversely, an out-of-gas exit happens only when the supply is used up: exactly [gas s]
   continuing steps were made and the state is the one they lead to, with gas 0 *)
Lemma oog_only_when_exhausted : forall fuel p pc s pc' s', 0 <= gas s ->
  run fuel p pc s = Some (OutOfGas, pc', s') ->
  gas s' = 0 /\ nsteps (Z.to_nat (gas s)) p pc s = Some (pc', s').
Proof.
  induction fuel as [|f IH]; intros p pc s pc' s' G H; cbn [run] in H; [discriminate|].
  destruct (step p pc s) as [[e1 pc1] s1] eqn:St.
  destruct (step_costs_one _ _ _ _ _ _ St) as [(-> & L & -> & ->)|(NO & G1 & G')].
  - inversion H; subst. assert (gas s' = 0) as E by lia. rewrite E. split; reflexivity.
  - destruct e1; try (inversion H; subst; congruence).
    destruct (IH p pc1 s1 pc' s' ltac:(lia) H) as [A B]. split; [assumption|].
    replace (Z.to_nat (gas s)) with (S (Z.to_nat (gas s1))) by lia.
    cbn [nsteps]. rewrite St. exact B.
Qed.

(* ---- host-call loop: gas never grows if the host function never adds gas ---- *)
Definition host_mono (hostf : Z -> st -> hres) : Prop :=
  forall id s, match hostf id s with HCont s' => gas s' <= gas s | HStop _ s' => gas s' <= gas s end.

Lemma run_h_gas_le : forall hostf fuel p pc s log e pc' s' log', host_mono hostf ->
  run_h hostf fuel p pc s log = Some (e, pc', s', log') -> gas s' <= gas s.
Proof.
  intros hostf; induction fuel as [|f IH]; intros p pc s log e pc' s' log' Hm H; cbn [run_h] in H; [discriminate|].
  destruct (step p pc s) as [[e1 pc1] s1] eqn:St.
  pose proof (step_gas_le _ _ _ _ _ _ St) as G1.
  destruct e1; try (inversion H; subst; assumption).
  - specialize (IH _ _ _ _ _ _ _ _ Hm H). lia.
  - pose proof (Hm id s1) as Hs1. destruct (hostf id s1) as [s2|e2 s2].
    + specialize (IH _ _ _ _ _ _ _ _ Hm H). lia.
    + inversion H; subst. lia.
Qed.

Lemma host_tab_mono : forall tab, host_mono (host_tab tab).
Proof.
  intros tab id s. unfold host_tab, host_gas, host_unknown.
  destruct (id =? 0).
  - destruct (gas s - 10 <? 0); cbn [gas with_gas]; lia.
  - destruct ((1 <=? id) && (id <? tab)); [lia|].
    destruct (gas s - 10 <? 0); cbn [gas with_gas]; lia.
Qed.

(* the two modelled host calls cost exactly 10 *)
Lemma host_costs_ten : forall s,
  match host_gas s with HCont s' | HStop _ s' => gas s' = gas s - 10 end /\
  match host_unknown s with HCont s' | HStop _ s' => gas s' = gas s - 10 end.
Proof.
  intros s. unfold host_gas, host_unknown. destruct (gas s - 10 <? 0); cbn [gas with_gas]; auto.
Qed.

(* ---- reported gas usage: between 0 and the limit, for every 64-bit limit ---- *)
Lemma gas_used_range : forall hostf fuel p pc r m limit e pc' s' log used, host_mono hostf ->
  0 <= limit < W64 ->
  invoke hostf fuel p pc r m limit = Some (e, pc', s', log, used) ->
  0 <= used <= limit.
Proof.
  intros hostf fuel p pc r m limit e pc' s' log used Hm Hl H. unfold invoke in H.
  destruct (run_h hostf fuel p pc _ []) as [[[[e1 pc1] s1] log1]|] eqn:R; [|discriminate].
  inversion H; subst. apply run_h_gas_le in R; [|assumption]. cbn [gas] in R.
  unfold gas_used, gas_in, W64 in *.
  destruct (limit <? 9223372036854775808) eqn:E; lia.
Qed.

(* a limit of 2^63 or more is read as a negative supply: nothing is executed, the invocation is
   out of gas at once and the whole limit is reported as used *)
Lemma huge_limit_runs_nothing : forall hostf fuel p pc r m limit, 9223372036854775808 <= limit < W64 ->
  invoke hostf (S fuel) p pc r m limit =
  Some (OutOfGas, pc, {| regs := r; gas := limit - W64; mem := m |}, [], limit).
Proof.
  intros hostf fuel p pc r m limit H. unfold invoke, gas_in.
  destruct (limit <? 9223372036854775808) eqn:E; [lia|]. cbn [run_h].
  rewrite step_oog by (cbn [gas]; unfold W64 in *; lia).
  unfold gas_used. cbn [gas]. f_equal. f_equal. unfold W64 in *. lia.
Qed.
