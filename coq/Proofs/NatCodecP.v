From JamV Require Import Base.Bytes Model.NatCodec Proofs.BytesP.
From Coq Require Import ZifyBool ZifyNat ZifyN.
Local Open Scope N_scope.
Ltac Zify.zify_post_hook ::= Z.div_mod_to_equations.

Lemma pow256_spec l : (l <= 8)%nat -> pow256 l = 256 ^ N.of_nat l.
Proof.
  intros H. do 9 (destruct l as [|l]; [reflexivity|]). lia.
Qed.

Lemma len_class_le8 x : (len_class x <= 8)%nat.
Proof. unfold len_class. repeat (destruct (_ <? _); [lia|]). lia. Qed.

Lemma lead_ones_le8 b : (lead_ones b <= 8)%nat.
Proof. unfold lead_ones. repeat (destruct (_ <? _); [lia|]). lia. Qed.

(* characterisation of the class of x *)
Lemma len_class_spec x l :
  (l <= 8)%nat -> class_lo l <= x -> (l < 8)%nat -> x < class_lo (S l) -> len_class x = l.
Proof.
  intros Hl Hlo Hl8 Hhi. unfold len_class.
  do 8 (destruct l as [|l]; [cbn in Hlo, Hhi;
     repeat (match goal with |- context [?a <? ?b] => destruct (N.ltb_spec a b) end; try lia); reflexivity|]).
  lia.
Qed.

Lemma len_class_8 x : 72057594037927936 <= x -> len_class x = 8%nat.
Proof.
  intros H. unfold len_class.
  repeat (match goal with |- context [?a <? ?b] => destruct (N.ltb_spec a b) end; try lia).
Qed.

Lemma lead_ones_spec b l :
  (l <= 8)%nat -> pre_base l <= b -> (l = 8%nat \/ b < pre_base (S l)) -> b < 256 -> lead_ones b = l.
Proof.
  intros Hl Hlo Hhi Hb. unfold lead_ones.
  do 9 (destruct l as [|l]; [cbn in Hlo, Hhi;
     repeat (match goal with |- context [?a <? ?b] => destruct (N.ltb_spec a b) end; try lia); reflexivity|]).
  lia.
Qed.

(* facts about a class, obtained by finite case split on l <= 8 *)
Lemma class_facts x :
  x < 18446744073709551616 ->
  let l := len_class x in
  class_lo l <= x /\ pre_base l <= pre_base l + x / pow256 l /\
  pre_base l + x / pow256 l < 256 /\
  (l = 8%nat \/ pre_base l + x / pow256 l < pre_base (S l)).
Proof.
  intros Hx. unfold len_class.
  repeat (match goal with |- context [?a <? ?b] => destruct (N.ltb_spec a b) end);
    cbn [class_lo pre_base pow256]; repeat split; try lia; try (right; lia); try (left; reflexivity).
Qed.

Theorem dec_enc x r : x < 18446744073709551616 -> dec_nat (enc_nat x ++ r) = Some (x, r).
Proof.
  intros Hx. pose proof (class_facts x Hx) as F. cbn zeta in F.
  unfold enc_nat. set (l := len_class x) in *.
  destruct F as (Hlo & Hb1 & Hb2 & Hb3).
  assert (Hl8 : (l <= 8)%nat) by apply len_class_le8.
  cbn [app dec_nat].
  rewrite (lead_ones_spec _ l Hl8 Hb1 Hb3 Hb2).
  rewrite app_length, le_enc_length.
  destruct (Nat.ltb_spec (l + length r) l) as [Hbad|_]; [lia|].
  rewrite firstn_app_exact, skipn_app_exact by apply le_enc_length.
  rewrite le_dec_enc, <- pow256_spec by assumption.
  assert (Hp : pow256 l <> 0) by (rewrite pow256_spec by assumption; apply N.pow_nonzero; discriminate).
  rewrite N.mod_mod by assumption.
  replace (pre_base l + x / pow256 l - pre_base l) with (x / pow256 l) by lia.
  assert (E : x / pow256 l * pow256 l + x mod pow256 l = x).
  { rewrite N.mul_comm. symmetry. apply N.div_mod. assumption. }
  rewrite E. destruct (N.leb_spec (class_lo l) x); [reflexivity|lia].
Qed.

(* the prefix byte ranges of each class *)
Lemma lead_ones_facts b :
  b < 256 ->
  let l := lead_ones b in
  pre_base l <= b /\ ((l < 8)%nat -> b < pre_base (S l)) /\
  ((b - pre_base l) * pow256 l + pow256 l <= class_lo (S l) \/ l = 8%nat) /\ (l = 8%nat -> b = 255).
Proof.
  intros Hb. unfold lead_ones.
  repeat (match goal with |- context [?a <? ?b] => destruct (N.ltb_spec a b) end);
    cbn [class_lo pre_base pow256]; repeat split; try lia; try (left; lia); try (right; reflexivity).
Qed.

Theorem dec_canonical bs x r :
  wf_bytes bs = true -> dec_nat bs = Some (x, r) ->
  bs = enc_nat x ++ r /\ x < 18446744073709551616.
Proof.
  intros Hwf Hdec. destruct bs as [|b t]; [discriminate|].
  apply wf_bytes_cons in Hwf. destruct Hwf as [Hb Ht].
  cbn [dec_nat] in Hdec.
  pose proof (lead_ones_facts b Hb) as F. cbn zeta in F.
  pose proof (lead_ones_le8 b) as Hl8.
  set (l := lead_ones b) in *.
  destruct F as (Hlo & Hhi & Hcls & H255). clearbody l.
  destruct (Nat.ltb_spec (length t) l) as [|Hlen]; [discriminate|].
  set (d := le_dec (firstn l t)) in *.
  destruct (N.leb_spec (class_lo l) ((b - pre_base l) * pow256 l + d)) as [Hmin|]; [|discriminate].
  inversion Hdec as [[Hx Hr]]; clear Hdec.
  assert (Hfl : length (firstn l t) = l) by (rewrite firstn_length; lia).
  assert (Hd : d < pow256 l).
  { unfold d. rewrite pow256_spec by assumption. rewrite <- Hfl at 2.
    apply le_dec_lt. now apply wf_bytes_firstn. }
  assert (Hp : pow256 l <> 0) by lia.
  set (hi := b - pre_base l) in *.
  assert (Hdiv : (hi * pow256 l + d) / pow256 l = hi).
  { rewrite N.div_add_l by assumption. rewrite (N.div_small d) by assumption. lia. }
  assert (Hmod : (hi * pow256 l + d) mod pow256 l = d).
  { rewrite N.add_comm, N.mod_add by assumption. now apply N.mod_small. }
  assert (Hcl : len_class (hi * pow256 l + d) = l).
  { destruct Hcls as [Hcls|H8].
    - destruct (Nat.eq_dec l 8) as [E8|NE8].
      + subst l. apply len_class_8. cbn [class_lo] in Hmin. exact Hmin.
      + apply len_class_spec; try lia.
    - subst l. apply len_class_8. cbn [class_lo] in Hmin. exact Hmin. }
  split.
  - unfold enc_nat. rewrite Hcl, Hdiv, Hmod.
    replace (pre_base l + hi) with b by (unfold hi; lia).
    unfold d. rewrite <- Hfl at 1. rewrite le_enc_dec by now apply wf_bytes_firstn.
    cbn [app]. now rewrite firstn_skipn.
  - destruct (Nat.eq_dec l 8) as [E8|NE8].
    + subst l. specialize (H255 eq_refl). subst hi. subst b. cbn [pre_base pow256] in *. lia.
    + destruct Hcls as [Hcls|]; [|contradiction].
      assert (class_lo (S l) <= 72057594037927936).
      { do 8 (destruct l as [|l]; [cbn; lia|]). lia. }
      lia.
Qed.

(* encodings are injective and minimal-length; proper prefixes are rejected *)
Lemma enc_nat_length x : length (enc_nat x) = S (len_class x).
Proof. unfold enc_nat. cbn [length]. now rewrite le_enc_length. Qed.

Lemma enc_nat_wf x : x < 18446744073709551616 -> wf_bytes (enc_nat x) = true.
Proof.
  intros Hx. unfold enc_nat. apply wf_bytes_cons. split; [|apply le_enc_wf].
  pose proof (class_facts x Hx) as F. cbn zeta in F. tauto.
Qed.

Theorem enc_injective x y :
  x < 18446744073709551616 -> y < 18446744073709551616 -> enc_nat x = enc_nat y -> x = y.
Proof.
  intros Hx Hy E.
  pose proof (dec_enc x [] Hx) as Dx. pose proof (dec_enc y [] Hy) as Dy.
  rewrite E in Dx. rewrite Dx in Dy. now inversion Dy.
Qed.

Theorem dec_rejects_truncated x p q :
  x < 18446744073709551616 -> enc_nat x = p ++ q -> q <> [] -> dec_nat p = None.
Proof.
  intros Hx E Hq.
  destruct (dec_nat p) as [[y r]|] eqn:D; [|reflexivity]. exfalso.
  assert (Hwfp : wf_bytes p = true).
  { pose proof (enc_nat_wf x Hx) as W. rewrite E in W. apply wf_bytes_app in W. tauto. }
  destruct (dec_canonical p y r Hwfp D) as [Ep Hy].
  (* enc x = enc y ++ r ++ q ; decode both sides *)
  pose proof (dec_enc x [] Hx) as Dx. rewrite app_nil_r in Dx.
  rewrite E, Ep, <- app_assoc in Dx.
  rewrite (dec_enc y (r ++ q) Hy) in Dx. inversion Dx as [[Exy Erq]].
  destruct r; destruct q; try discriminate. now apply Hq.
Qed.

(* the lenient decoder agrees with the strict one wherever the strict one accepts, and otherwise
   differs exactly by accepting non-minimal forms: used only to name the known deviation. *)
Lemma strict_implies_lenient bs v : dec_nat bs = Some v -> dec_nat_lenient bs = Some v.
Proof.
  destruct bs as [|b t]; [discriminate|]. cbn [dec_nat dec_nat_lenient].
  destruct (Nat.ltb _ _); [discriminate|]. destruct (N.leb _ _); [tauto|discriminate].
Qed.
