From JamV Require Import Base.Bytes Model.AccParallel.
From Coq Require Import Permutation Sorted ZifyBool ZifyNat ZifyN.
Local Open Scope N_scope.

(* ---- sorting: permutations sort to the same list -------------------------------------------------- *)
Lemma insertN_perm x l : Permutation (insertN x l) (x :: l).
Proof.
  induction l as [|y t IH]; cbn [insertN]; [reflexivity|].
  destruct (x <=? y); [reflexivity|]. rewrite IH. apply perm_swap.
Qed.

Lemma sortN_perm l : Permutation (sortN l) l.
Proof.
  induction l as [|x t IH]; cbn [sortN fold_right]; [reflexivity|].
  fold (sortN t). rewrite insertN_perm. now constructor.
Qed.

Lemma insertN_sorted x l : StronglySorted N.le l -> StronglySorted N.le (insertN x l).
Proof.
  induction l as [|y t IH]; intros S; cbn [insertN].
  - repeat constructor.
  - destruct (N.leb_spec x y) as [Hxy|Hxy].
    + constructor; [assumption|]. inversion S as [|? ? St Fa]; subst. constructor; [assumption|].
      eapply Forall_impl; [|exact Fa]. intros z Hz. lia.
    + inversion S as [|? ? St Fa]; subst. constructor; [now apply IH|].
      rewrite (insertN_perm x t). constructor; [lia|assumption].
Qed.

Lemma sortN_sorted l : StronglySorted N.le (sortN l).
Proof.
  induction l as [|x t IH]; cbn [sortN fold_right]; [constructor|]. fold (sortN t). now apply insertN_sorted.
Qed.

Lemma sorted_perm_eq l1 l2 :
  StronglySorted N.le l1 -> StronglySorted N.le l2 -> Permutation l1 l2 -> l1 = l2.
Proof.
  revert l2; induction l1 as [|a t1 IH]; intros l2 S1 S2 P.
  - apply Permutation_nil in P. now subst.
  - destruct l2 as [|b t2]; [apply Permutation_sym, Permutation_nil in P; discriminate|].
    inversion S1 as [|? ? St1 F1]; inversion S2 as [|? ? St2 F2]; subst.
    assert (Hab : a = b).
    { assert (In a (b :: t2)) as Ia by (eapply Permutation_in; [exact P|now left]).
      assert (In b (a :: t1)) as Ib by (eapply Permutation_in; [apply Permutation_sym; exact P|now left]).
      destruct Ia as [->|Ia]; [reflexivity|]. destruct Ib as [->|Ib]; [reflexivity|].
      rewrite Forall_forall in F1, F2. specialize (F1 _ Ib). specialize (F2 _ Ia). lia. }
    subst b. f_equal. apply IH; try assumption. eapply Permutation_cons_inv; exact P.
Qed.

Theorem sortN_perm_eq l1 l2 : Permutation l1 l2 -> sortN l1 = sortN l2.
Proof.
  intros P. apply sorted_perm_eq; try apply sortN_sorted.
  rewrite (sortN_perm l1), (sortN_perm l2). exact P.
Qed.

(* ---- the result cache only ever holds ∆(s) under key s -------------------------------------------- *)
Lemma lookup_upsert {A} k k' (v : A) m :
  lookup k (upsert k' v m) = if k =? k' then Some v else lookup k m.
Proof.
  induction m as [|[k2 v2] t IH]; cbn [upsert lookup].
  - destruct (k =? k'); reflexivity.
  - destruct (N.ltb_spec k' k2).
    + cbn [lookup]. destruct (N.eqb_spec k k'); reflexivity.
    + destruct (N.eqb_spec k' k2).
      * subst k2. cbn [lookup]. destruct (N.eqb_spec k k'); reflexivity.
      * cbn [lookup]. destruct (N.eqb_spec k k2).
        -- subst k2. destruct (N.eqb_spec k k'); [lia|reflexivity].
        -- exact IH.
Qed.

Section ParP.
  Variable D1 : N -> single_out.
  Variable d : list (N * token).
  Variables (m_ v_ r_ : N) (a_ : list N).

  Definition cache_ok (c : list (N * single_out)) : Prop := forall s o, lookup s c = Some o -> o = D1 s.

  Lemma build_cache_ok completion : cache_ok (build_cache D1 completion).
  Proof.
    unfold build_cache.
    assert (G : forall c0, cache_ok c0 -> cache_ok (fold_left (fun c s => upsert s (D1 s) c) completion c0)).
    { induction completion as [|x t IH]; intros c0 H0; cbn [fold_left]; [exact H0|].
      apply IH. intros s o. rewrite lookup_upsert. destruct (N.eqb_spec s x); [intros E; inversion E; now subst|apply H0]. }
    apply G. intros s o; discriminate.
  Qed.

  Lemma delta_ok c s : cache_ok c -> delta D1 c s = D1 s.
  Proof. intros H. unfold delta. destruct (lookup s c) as [o|] eqn:L; [exact (H s o L)|reflexivity]. Qed.

  Lemma collect_ok c order : cache_ok c ->
    collect D1 d m_ v_ r_ a_ c order =
    collect_data d v_ r_ a_ (map (fun s => (s, D1 s)) order) (D1 m_) (D1 v_) (D1 r_) (map D1 a_).
  Proof.
    intros H. unfold collect. rewrite !(delta_ok c) by assumption. f_equal.
    - apply map_ext. intros s. now rewrite delta_ok.
    - apply map_ext. intros s. now apply delta_ok.
  Qed.

  (* the whole statement: whatever order the workers complete in and whatever order the map delivers
     the service set in, ∆* is the reference function of the service set *)
  Theorem par_acc_is_ref completion iteration :
    par_acc D1 d m_ v_ r_ a_ completion iteration = par_ref D1 d m_ v_ r_ a_ iteration.
  Proof. unfold par_acc, par_ref. apply collect_ok, build_cache_ok. Qed.

  Theorem par_order_irrelevant c1 c2 o1 o2 :
    Permutation o1 o2 -> par_acc D1 d m_ v_ r_ a_ c1 o1 = par_acc D1 d m_ v_ r_ a_ c2 o2.
  Proof.
    intros P. rewrite !par_acc_is_ref. unfold par_ref. now rewrite (sortN_perm_eq o1 o2 P).
  Qed.

  (* scheduling alone never matters, even for the unsorted loop *)
  Theorem completion_irrelevant c1 c2 o :
    par_acc_unsorted D1 d m_ v_ r_ a_ c1 o = par_acc_unsorted D1 d m_ v_ r_ a_ c2 o.
  Proof. unfold par_acc_unsorted. now rewrite !collect_ok by apply build_cache_ok. Qed.
End ParP.

(* the loop that follows the map iteration order is NOT order independent *)
Definition ex_D1 (s : N) : single_out :=
  {| so_gas := 10 * s; so_yield := None;
     so_transfers := [{| t_from := s; t_to := 3; t_amt := s; t_memo := []; t_gas := 0 |}];
     so_accounts := [(1, [1]); (2, [2]); (3, [3])]; so_bless := 0; so_assign := []; so_designate := 0; so_createacct := 0;
     so_always := []; so_iota := []; so_queues := [] |}.
Definition ex_d : list (N * token) := [(1, [1]); (2, [2]); (3, [3])].

Theorem unsorted_refuted :
  exists D1 d o1 o2, Permutation o1 o2 /\
    par_acc_unsorted D1 d 0 0 0 [] [] o1 <> par_acc_unsorted D1 d 0 0 0 [] [] o2.
Proof.
  exists ex_D1, ex_d, [1; 2], [2; 1]. split; [apply perm_swap|].
  intros E. apply (f_equal po_u) in E. vm_compute in E. discriminate.
Qed.

(* ---- θ′ is canonical: any delivery order of the pair set gives the same sequence ------------------- *)
Lemma bytes_ltb_irrefl a : bytes_ltb a a = false.
Proof. induction a as [|x a IH]; cbn; [reflexivity|]. rewrite N.ltb_irrefl, N.eqb_refl, IH. reflexivity. Qed.

Lemma bytes_ltb_total_or_eq a b : bytes_ltb a b = true \/ bytes_ltb b a = true \/ a = b.
Proof.
  revert b; induction a as [|x a IH]; intros [|y b]; cbn; auto.
  destruct (N.ltb_spec x y); [auto|]. destruct (N.ltb_spec y x); [auto|].
  assert (x = y) by lia. subst y. rewrite N.eqb_refl. cbn.
  destruct (IH b) as [H1|[H1|H1]]; auto. subst; auto.
Qed.

Lemma bytes_ltb_asym a b : bytes_ltb a b = true -> bytes_ltb b a = false.
Proof.
  revert b; induction a as [|x a IH]; intros [|y b]; cbn; try discriminate; auto.
  intros H. apply orb_true_iff in H. destruct H as [H|H].
  - apply N.ltb_lt in H. destruct (N.ltb_spec y x); [lia|]. destruct (N.eqb_spec y x); [lia|reflexivity].
  - apply andb_true_iff in H. destruct H as [E H]. apply N.eqb_eq in E. subst y.
    rewrite N.ltb_irrefl, N.eqb_refl. cbn. now apply IH.
Qed.

Lemma bytes_ltb_trans a b c : bytes_ltb a b = true -> bytes_ltb b c = true -> bytes_ltb a c = true.
Proof.
  revert b c; induction a as [|x a IH]; intros [|y b] [|z c]; cbn; try discriminate; auto.
  intros H1 H2. apply orb_true_iff in H1. apply orb_true_iff in H2. apply orb_true_iff.
  destruct H1 as [H1|H1], H2 as [H2|H2].
  - left. apply N.ltb_lt in H1, H2. apply N.ltb_lt. lia.
  - apply andb_true_iff in H2. destruct H2 as [E _]. apply N.eqb_eq in E. subst. now left.
  - apply andb_true_iff in H1. destruct H1 as [E _]. apply N.eqb_eq in E. subst. now left.
  - apply andb_true_iff in H1, H2. destruct H1 as [E1 H1], H2 as [E2 H2]. apply N.eqb_eq in E1, E2. subst.
    right. rewrite N.eqb_refl. cbn. eapply IH; eassumption.
Qed.

Definition pair_le (x y : N * bytes) : Prop := pair_leb x y = true.

Lemma pair_leb_total x y : pair_leb x y = true \/ pair_leb y x = true.
Proof.
  unfold pair_leb, bytes_leb. destruct x as [a u], y as [b v]; cbn [fst snd].
  destruct (N.ltb_spec a b); [now left|]. destruct (N.ltb_spec b a); [now right|].
  assert (a = b) by lia. subst b. rewrite N.eqb_refl. cbn.
  destruct (bytes_ltb v u) eqn:E; cbn; [right|now left].
  now rewrite (bytes_ltb_asym _ _ E).
Qed.

Lemma pair_leb_antisym x y : pair_leb x y = true -> pair_leb y x = true -> x = y.
Proof.
  unfold pair_leb, bytes_leb. destruct x as [a u], y as [b v]; cbn [fst snd]. intros H1 H2.
  destruct (N.lt_trichotomy a b) as [L|[E|L]].
  - apply N.ltb_lt in L as L1. assert (b <? a = false) as L2 by (apply N.ltb_ge; lia).
    assert (b =? a = false) as L3 by (apply N.eqb_neq; lia). rewrite L2, L3 in H2. discriminate.
  - subst b. rewrite N.ltb_irrefl, N.eqb_refl in H1, H2. cbn in H1, H2.
    destruct (bytes_ltb_total_or_eq u v) as [H|[H|H]];
      [rewrite H in H2; discriminate|rewrite H in H1; discriminate|now subst].
  - apply N.ltb_lt in L as L1. assert (a <? b = false) as L2 by (apply N.ltb_ge; lia).
    assert (a =? b = false) as L3 by (apply N.eqb_neq; lia). rewrite L2, L3 in H1. discriminate.
Qed.

Lemma pair_leb_trans x y z : pair_leb x y = true -> pair_leb y z = true -> pair_leb x z = true.
Proof.
  unfold pair_leb, bytes_leb. destruct x as [a u], y as [b v], z as [c w]; cbn [fst snd]. intros H1 H2.
  destruct (N.ltb_spec a b), (N.ltb_spec b c); cbn in H1, H2.
  - destruct (N.ltb_spec a c); [reflexivity|lia].
  - destruct (N.eqb_spec b c); [|discriminate]. subst. destruct (N.ltb_spec a c); [reflexivity|lia].
  - destruct (N.eqb_spec a b); [|discriminate]. subst. destruct (N.ltb_spec b c); [reflexivity|lia].
  - destruct (N.eqb_spec a b); [|discriminate]. destruct (N.eqb_spec b c); [|discriminate]. subst.
    rewrite N.ltb_irrefl, N.eqb_refl. cbn in *.
    destruct (bytes_ltb w u) eqn:E; [|reflexivity]. exfalso.
    (* w < u, not v < u, not w < v : by totality u <= v <= w, contradiction with w < u *)
    destruct (bytes_ltb v u) eqn:E1; [discriminate|]. destruct (bytes_ltb w v) eqn:E2; [discriminate|].
    destruct (bytes_ltb_total_or_eq u v) as [A|[A|A]]; [|congruence|].
    + destruct (bytes_ltb_total_or_eq v w) as [B|[B|B]]; [|congruence|].
      * pose proof (bytes_ltb_trans _ _ _ A B) as C. rewrite (bytes_ltb_asym _ _ C) in E. discriminate.
      * subst w. rewrite (bytes_ltb_asym _ _ A) in E. discriminate.
    + subst v. destruct (bytes_ltb_total_or_eq u w) as [B|[B|B]]; [|congruence|].
      * rewrite (bytes_ltb_asym _ _ B) in E. discriminate.
      * subst w. rewrite bytes_ltb_irrefl in E. discriminate.
Qed.

Lemma insertP_perm x l : Permutation (insertP pair_leb x l) (x :: l).
Proof.
  induction l as [|y t IH]; cbn [insertP]; [reflexivity|].
  destruct (pair_leb x y); [reflexivity|]. rewrite IH. apply perm_swap.
Qed.

Lemma sortP_perm l : Permutation (sortP pair_leb l) l.
Proof.
  induction l as [|x t IH]; cbn [sortP fold_right]; [reflexivity|].
  fold (sortP pair_leb t). rewrite insertP_perm. now constructor.
Qed.

Lemma insertP_sorted x l : StronglySorted pair_le l -> StronglySorted pair_le (insertP pair_leb x l).
Proof.
  induction l as [|y t IH]; intros S; cbn [insertP].
  - repeat constructor.
  - destruct (pair_leb x y) eqn:E.
    + constructor; [assumption|]. inversion S as [|? ? St Fa]; subst. constructor; [exact E|].
      eapply Forall_impl; [|exact Fa]. intros z Hz. unfold pair_le in *. eapply pair_leb_trans; eassumption.
    + inversion S as [|? ? St Fa]; subst. constructor; [now apply IH|].
      rewrite (insertP_perm x t). constructor; [|assumption].
      destruct (pair_leb_total x y) as [H|H]; [congruence|exact H].
Qed.

Lemma sortP_sorted l : StronglySorted pair_le (sortP pair_leb l).
Proof.
  induction l as [|x t IH]; cbn [sortP fold_right]; [constructor|]. fold (sortP pair_leb t). now apply insertP_sorted.
Qed.

Lemma sortedP_perm_eq l1 l2 :
  StronglySorted pair_le l1 -> StronglySorted pair_le l2 -> Permutation l1 l2 -> l1 = l2.
Proof.
  revert l2; induction l1 as [|a t1 IH]; intros l2 S1 S2 P.
  - apply Permutation_nil in P. now subst.
  - destruct l2 as [|b t2]; [apply Permutation_sym, Permutation_nil in P; discriminate|].
    inversion S1 as [|? ? St1 F1]; inversion S2 as [|? ? St2 F2]; subst.
    assert (Hab : a = b).
    { assert (In a (b :: t2)) as Ia by (eapply Permutation_in; [exact P|now left]).
      assert (In b (a :: t1)) as Ib by (eapply Permutation_in; [apply Permutation_sym; exact P|now left]).
      destruct Ia as [->|Ia]; [reflexivity|]. destruct Ib as [->|Ib]; [reflexivity|].
      rewrite Forall_forall in F1, F2. apply pair_leb_antisym; [apply F1, Ib|apply F2, Ia]. }
    subst b. f_equal. apply IH; try assumption. eapply Permutation_cons_inv; exact P.
Qed.

Theorem theta_canonical l1 l2 : Permutation l1 l2 -> theta_of l1 = theta_of l2.
Proof.
  intros P. unfold theta_of. apply sortedP_perm_eq; try apply sortP_sorted.
  rewrite (sortP_perm l1), (sortP_perm l2). exact P.
Qed.

(* without the tie-break on the hash the sequence depends on the delivery order *)
Theorem theta_service_only_refuted :
  exists l1 l2, Permutation l1 l2 /\ sortP service_only_leb l1 <> sortP service_only_leb l2.
Proof.
  exists [(7, [1]); (7, [2])], [(7, [2]); (7, [1])]. split; [apply perm_swap|].
  vm_compute. discriminate.
Qed.
