From JamV Require Import Base.Bytes Model.AccParallel.
From Coq Require Import Permutation Sorted ZifyBool ZifyNat ZifyN.
Local Open Scope N_scope.

(* ---- sorting: permutations sort to the same list -------------------------------------------------- *)
Lemma insertN_perm x l : Permutation (insertN x l) (x :: l).
Proof.
  induction l as [|y t IH]; cbn [insertN]; [reflexivity|].
  destruct (x <=? y); [reflexivity|]. rewrite IH. apply perm_swap.
Qed.

Lemma sortN_perm l : Permutation (sortN l) l.
Proof.
  induction l as [|x t IH]; cbn [sortN fold_right]; [reflexivity|].
  fold (sortN t). rewrite insertN_perm. now constructor.
Qed.

Lemma insertN_sorted x l : StronglySorted N.le l -> StronglySorted N.le (insertN x l).
Proof.
  induction l as [|y t IH]; intros S; cbn [insertN].
  - repeat constructor.
  - destruct (N.leb_spec x y) as [Hxy|Hxy].
    + constructor; [assumption|]. inversion S as [|? ? St Fa]; subst. constructor; [assumption|].
      eapply Forall_impl; [|exact Fa]. intros z Hz. lia.
    + inversion S as [|? ? St Fa]; subst. constructor; [now apply IH|].
      rewrite (insertN_perm x t). constructor; [lia|assumption].
Qed.

Lemma sortN_sorted l : StronglySorted N.le (sortN l).
Proof.
  induction l as [|x t IH]; cbn [sortN fold_right]; [constructor|]. fold (sortN t). now apply insertN_sorted.
Qed.

Lemma sorted_perm_eq l1 l2 :
  StronglySorted N.le l1 -> StronglySorted N.le l2 -> Permutation l1 l2 -> l1 = l2.
Proof.
  revert l2; induction l1 as [|a t1 IH]; intros l2 S1 S2 P.
  - apply Permutation_nil in P. now subst.
  - destruct l2 as [|b t2]; [apply Permutation_sym, Permutation_nil in P; discriminate|].
    inversion S1 as [|? ? St1 F1]; inversion S2 as [|? ? St2 F2]; subst.
    assert (Hab : a = b).
    { assert (In a (b :: t2)) as Ia by (eapply Permutation_in; [exact P|now left]).
      assert (In b (a :: t1)) as Ib by (eapply Permutation_in; [apply Permutation_sym; exact P|now left]).
      destruct Ia as [->|Ia]; [reflexivity|]. destruct Ib as [->|Ib]; [reflexivity|].
      rewrite Forall_forall in F1, F2. specialize (F1 _ Ib). specialize (F2 _ Ia). lia. }
    subst b. f_equal. apply IH; try assumption. eapply Permutation_cons_inv; exact P.
Qed.

Theorem sortN_perm_eq l1 l2 : Permutation l1 l2 -> sortN l1 = sortN l2.
Proof.
  intros P. apply sorted_perm_eq; try apply sortN_sorted.
  rewrite (sortN_perm l1), (sortN_perm l2). exact P.
Qed.

(* ---- the result cache only ever holds ∆(s) under key s -------------------------------------------- *)
Lemma lookup_upsert {A} k k' (v : A) m :
  lookup k (upsert k' v m) = if k =? k' then Some v else lookup k m.
Proof.
  induction m as [|[k2 v2] t IH]; cbn [upsert lookup].
  - destruct (k =? k'); reflexivity.
  - destruct (N.ltb_spec k' k2).
    + cbn [lookup]. destruct (N.eqb_spec k k'); reflexivity.
    + destruct (N.eqb_spec k' k2).
      * subst k2. cbn [lookup]. destruct (N.eqb_spec k k'); reflexivity.
      * cbn [lookup]. destruct (N.eqb_spec k k2).
        -- subst k2. destruct (N.eqb_spec k k'); [lia|reflexivity].
        -- exact IH.
Qed.

Section ParP.
  Variable D1 : N -> single_out.
  Variable d : list (N * token).
  Variables (m_ v_ r_ : N) (a_ : list N).

  Definition cache_ok (c : list (N * single_out)) : Prop := forall s o, lookup s c = Some o -> o = D1 s.

  Lemma build_cache_ok completion : cache_ok (build_cache D1 completion).
  Proof.
    unfold build_cache.
    assert (G : forall c0, cache_ok c0 -> cache_ok (fold_left (fun c s => upsert s (D1 s) c) completion c0)).
    { induction completion as [|x t IH]; intros c0 H0; cbn [fold_left]; [exact H0|].
      apply IH. intros s o. rewrite lookup_upsert. destruct (N.eqb_spec s x); [intros E; inversion E; now subst|apply H0]. }
    apply G. intros s o; discriminate.
  Qed.

  Lemma delta_ok c s : cache_ok c -> delta D1 c s = D1 s.
  Proof. intros H. unfold delta. destruct (lookup s c) as [o|] eqn:L; [exact (H s o L)|reflexivity]. Qed.

  Lemma collect_ok c order : cache_ok c ->
    collect D1 d m_ v_ r_ a_ c order =
    collect_data d v_ r_ a_ (map (fun s => (s, D1 s)) order) (D1 m_) (D1 v_) (D1 r_) (map D1 a_).
  Proof.
    intros H. unfold collect. rewrite !(delta_ok c) by assumption. f_equal.
    - apply map_ext. intros s. now rewrite delta_ok.
    - apply map_ext. intros s. now apply delta_ok.
  Qed.

  (* the whole statement: whatever order the workers complete in and whatever order the map delivers
     the service set in, ∆* is the reference function of the service set *)
  Theorem par_acc_is_ref completion iteration :
    par_acc D1 d m_ v_ r_ a_ completion iteration = par_ref D1 d m_ v_ r_ a_ iteration.
  Proof. unfold par_acc, par_ref. apply collect_ok, build_cache_ok. Qed.

  Theorem par_order_irrelevant c1 c2 o1 o2 :
    Permutation o1 o2 -> par_acc D1 d m_ v_ r_ a_ c1 o1 = par_acc D1 d m_ v_ r_ a_ c2 o2.
  Proof.
    intros P. rewrite !par_acc_is_ref. unfold par_ref. now rewrite (sortN_perm_eq o1 o2 P).
  Qed.

  (* scheduling alone never matters, even for the unsorted loop *)
  Theorem completion_irrelevant c1 c2 o :
    par_acc_unsorted D1 d m_ v_ r_ a_ c1 o = par_acc_unsorted D1 d m_ v_ r_ a_ c2 o.
  Proof. unfold par_acc_unsorted. now rewrite !collect_ok by apply build_cache_ok. Qed.
End ParP.

(* the loop that follows the map iteration order is NOT order independent *)
Definition ex_D1 (s : N) : single_out :=
  {| so_gas := 10 * s; so_yield := None;
     so_transfers := [{| t_from := s; t_to := 3; t_amt := s; t_memo := []; t_gas := 0 |}];
     so_accounts := [(1, [1]); (2, [2]); (3, [3])]; so_bless := 0; so_assign := []; so_designate := 0; so_createacct := 0;
     so_always := []; so_iota := []; so_queues := [] |}.
Definition ex_d : list (N * token) := [(1, [1]); (2, [2]); (3, [3])].

Theorem unsorted_refuted :
  exists D1 d o1 o2, Permutation o1 o2 /\
    par_acc_unsorted D1 d 0 0 0 [] [] o1 <> par_acc_unsorted D1 d 0 0 0 [] [] o2.
Proof.
  exists ex_D1, ex_d, [1; 2], [2; 1]. split; [apply perm_swap|].
  intros E. apply (f_equal po_u) in E. vm_compute in E. discriminate.
Qed.
