(* Canonicity of the generic decoder and its corollaries (strictness), well-typed values,
   order-independence of dictionary encoding. *)
From JamV Require Import Base.Bytes Model.NatCodec Model.Codec Proofs.BytesP Proofs.NatCodecP Proofs.CodecOrdP Proofs.CodecP.
From Coq Require Import ZifyBool ZifyNat ZifyN Permutation Sorted.
Local Open Scope N_scope.
Ltac Zify.zify_post_hook ::= Z.div_mod_to_equations.

(* ------------------------------------------------------------------------------------------ *)
(* canonicity: an accepted input is the encoding of the decoded value followed by the rest *)

Definition canon (g : val -> option bytes) (f : decoder) : Prop :=
  forall bs v r, wf_bytes bs = true -> f bs = Some (v, r) -> exists b, g v = Some b /\ bs = b ++ r.

Lemma canon_rest_wf bs b r : wf_bytes bs = true -> bs = b ++ r -> wf_bytes r = true.
Proof. intros W ->. apply wf_bytes_app in W. tauto. Qed.

Lemma rep_canon g f : canon g f ->
  forall k bs vs r, wf_bytes bs = true -> rep f k bs = Some (vs, r) ->
  exists b, enc_all g vs = Some b /\ bs = b ++ r /\ length vs = k.
Proof.
  intros Hc. induction k as [|k IH]; intros bs vs r W H; cbn [rep] in H.
  - some_inv H. exists []. repeat split.
  - destruct (f bs) as [[v r1]|] eqn:F; [|discriminate].
    destruct (rep f k r1) as [[vs' r2]|] eqn:R; [|discriminate]. some_inv H.
    destruct (Hc _ _ _ W F) as (b1 & G1 & E1).
    pose proof (canon_rest_wf _ _ _ W E1) as W1.
    destruct (IH _ _ _ W1 R) as (b2 & G2 & E2 & L2).
    exists (b1 ++ b2). cbn [enc_all length]. rewrite G1, G2. repeat split.
    + rewrite <- app_assoc. now rewrite <- E2.
    + now rewrite L2.
Qed.

Lemma pair_canon g1 g2 f1 f2 : canon g1 f1 -> canon g2 f2 -> canon (pair_enc g1 g2) (pair_dec f1 f2).
Proof.
  intros H1 H2 bs e r W H. unfold pair_dec in H.
  destruct (f1 bs) as [[a r1]|] eqn:F1; [|discriminate].
  destruct (f2 r1) as [[c r2]|] eqn:F2; [|discriminate]. some_inv H.
  destruct (H1 _ _ _ W F1) as (b1 & G1 & E1).
  pose proof (canon_rest_wf _ _ _ W E1) as W1.
  destruct (H2 _ _ _ W1 F2) as (b2 & G2 & E2).
  exists (b1 ++ b2). cbn [pair_enc]. rewrite G1, G2. split; [reflexivity|].
  rewrite <- app_assoc. now rewrite <- E2.
Qed.

Lemma dec_counted_canon g f lim bs vs r :
  canon g f -> wf_bytes bs = true -> dec_counted f lim bs = Some (vs, r) ->
  exists b, enc_all g vs = Some b /\ bs = (enc_nat (N.of_nat (length vs)) ++ b) ++ r /\
            N.of_nat (length vs) <= lim /\ N.of_nat (length vs) < two64.
Proof.
  intros Hc W H. unfold dec_counted in H.
  destruct (dec_nat bs) as [[n r0]|] eqn:D; [|discriminate].
  destruct (N.leb_spec n lim) as [Hl|]; cbn [andb] in H; [|discriminate].
  destruct (count_fits n r0); [|discriminate].
  destruct (dec_canonical _ _ _ W D) as [E0 H64].
  pose proof (canon_rest_wf _ _ _ W E0) as W0.
  destruct (rep_canon g f Hc _ _ _ _ W0 H) as (b & G & E & L).
  exists b. rewrite L, N2Nat.id. repeat split; try assumption.
  rewrite <- app_assoc. now rewrite <- E.
Qed.

Theorem canonical d : wf_desc d = true -> canon (enc d) (dec d).
Proof.
  induction d as [w|bd|n| | |n|lim d IH|n d IH|d IH|alts IH|k v IHk IHv|ds IH] using desc_ind';
    intros Hwf bs val r W H; cbn [enc dec wf_desc] in *.
  - (* DU *)
    destruct (Nat.ltb_spec (length bs) w) as [|Hl]; [discriminate|]. some_inv H.
    exists (firstn w bs). cbn [enc].
    pose proof (le_dec_firstn_lt w bs W Hl) as Hlt.
    destruct (N.ltb_spec (le_dec (firstn w bs)) (256 ^ N.of_nat w)); [|lia].
    rewrite le_enc_dec_firstn by assumption. split; [reflexivity|]. symmetry. apply firstn_skipn.
  - (* DNat *)
    destruct (dec_nat bs) as [[x r0]|] eqn:D; [|discriminate].
    destruct (N.ltb_spec x bd) as [Hb|]; [|discriminate]. some_inv H.
    destruct (dec_canonical _ _ _ W D) as [E0 H64].
    exists (enc_nat x). cbn [enc].
    destruct (N.ltb_spec x bd); [|lia]. destruct (N.ltb_spec x two64); [|rewrite two64_eq in *; lia].
    split; [reflexivity|exact E0].
  - (* DFix *)
    destruct (Nat.ltb_spec (length bs) n) as [|Hl]; [discriminate|]. some_inv H.
    exists (firstn n bs). cbn [enc]. rewrite firstn_length.
    destruct (Nat.eqb_spec (Nat.min n (length bs)) n); [|lia]. rewrite wf_bytes_firstn by assumption.
    split; [reflexivity|]. symmetry. apply firstn_skipn.
  - (* DBlob *)
    destruct (dec_nat bs) as [[n r0]|] eqn:D; [|discriminate].
    unfold count_fits in H. destruct (N.leb_spec n (N.of_nat (length r0))) as [Hf|]; [|discriminate]. some_inv H.
    destruct (dec_canonical _ _ _ W D) as [E0 H64].
    pose proof (canon_rest_wf _ _ _ W E0) as W0.
    exists (enc_nat n ++ firstn (N.to_nat n) r0). cbn [enc].
    assert (L : N.of_nat (length (firstn (N.to_nat n) r0)) = n) by (rewrite firstn_length; lia).
    rewrite L. destruct (N.ltb_spec n two64); [|rewrite two64_eq in *; lia].
    rewrite wf_bytes_firstn by assumption. split; [reflexivity|].
    rewrite <- app_assoc, firstn_skipn. exact E0.
  - (* DBlob2 *)
    destruct (dec_nat bs) as [[n0 r0]|] eqn:D0; [|discriminate].
    destruct (dec_nat r0) as [[n r1]|] eqn:D1; [|discriminate].
    destruct (N.eqb_spec n0 n) as [->|]; cbn [andb] in H; [|discriminate].
    unfold count_fits in H. destruct (N.leb_spec n (N.of_nat (length r1))) as [Hf|]; [|discriminate]. some_inv H.
    destruct (dec_canonical _ _ _ W D0) as [E0 H64].
    pose proof (canon_rest_wf _ _ _ W E0) as W0.
    destruct (dec_canonical _ _ _ W0 D1) as [E1 _].
    pose proof (canon_rest_wf _ _ _ W0 E1) as W1.
    exists (enc_nat n ++ enc_nat n ++ firstn (N.to_nat n) r1). cbn [enc].
    assert (L : N.of_nat (length (firstn (N.to_nat n) r1)) = n) by (rewrite firstn_length; lia).
    rewrite L. destruct (N.ltb_spec n two64); [|rewrite two64_eq in *; lia].
    rewrite wf_bytes_firstn by assumption. split; [reflexivity|].
    rewrite <- !app_assoc, firstn_skipn. rewrite <- E1. exact E0.
  - (* DBits *)
    cbn zeta in H. destruct (Nat.ltb_spec (length bs) (nbytes n)) as [|Hl]; [discriminate|].
    destruct (N.ltb_spec (le_dec (firstn (nbytes n) bs)) (2 ^ N.of_nat n)) as [Hx|]; [|discriminate]. some_inv H.
    exists (firstn (nbytes n) bs). cbn [enc].
    destruct (N.ltb_spec (le_dec (firstn (nbytes n) bs)) (2 ^ N.of_nat n)); [|lia].
    rewrite le_enc_dec_firstn by assumption. split; [reflexivity|]. symmetry. apply firstn_skipn.
  - (* DSeq *)
    apply andb_true_iff in Hwf. destruct Hwf as [Hwf Hd].
    destruct (dec_counted (dec d) lim bs) as [[vs r0]|] eqn:D; [|discriminate]. some_inv H.
    destruct (dec_counted_canon (enc d) _ _ _ _ _ (IH Hd) W D) as (b & G & E & Hl & H64).
    exists (enc_nat (N.of_nat (length vs)) ++ b). cbn [enc]. rewrite G.
    destruct (N.leb_spec (N.of_nat (length vs)) lim); [|lia].
    destruct (N.ltb_spec (N.of_nat (length vs)) two64); [|lia].
    split; [reflexivity|exact E].
  - (* DVec *)
    destruct (rep (dec d) n bs) as [[vs r0]|] eqn:D; [|discriminate]. some_inv H.
    destruct (rep_canon (enc d) _ (IH Hwf) _ _ _ _ W D) as (b & G & E & L).
    exists b. cbn [enc]. rewrite L, Nat.eqb_refl. split; assumption.
  - (* DOpt *)
    destruct bs as [|t r0]; [discriminate|].
    apply wf_bytes_cons in W. destruct W as [Ht W0].
    destruct (N.eqb_spec t 0) as [->|].
    + some_inv H. exists [0]. split; reflexivity.
    + destruct (N.eqb_spec t 1) as [->|]; [|discriminate].
      destruct (dec d r0) as [[a r1]|] eqn:D; [|discriminate]. some_inv H.
      destruct (IH Hwf _ _ _ W0 D) as (b & G & E).
      exists (1 :: b). cbn [enc]. rewrite G. split; [reflexivity|]. cbn [app]. now rewrite <- E.
  - (* DVar *)
    destruct bs as [|t r0]; [discriminate|].
    apply wf_bytes_cons in W. destruct W as [Ht W0].
    rewrite assoc_map in H. destruct (assoc t alts) as [da|] eqn:A; [|discriminate]. cbn [option_map] in H.
    destruct (dec da r0) as [[a r1]|] eqn:D; [|discriminate]. some_inv H.
    pose proof (assoc_In _ _ _ A) as Hin. rewrite Forall_forall in IH. rewrite forallb_forall in Hwf.
    destruct (IH _ Hin (Hwf _ Hin) _ _ _ W0 D) as (b & G & E).
    exists (t :: b). cbn [enc]. destruct (N.ltb_spec t 256); [|lia].
    rewrite assoc_map, A. cbn [option_map]. cbn [snd] in G. rewrite G. split; [reflexivity|].
    cbn [app]. now rewrite <- E.
  - (* DMap *)
    apply andb_true_iff in Hwf. destruct Hwf as [Hwf Hv]. apply andb_true_iff in Hwf. destruct Hwf as [Hm Hk].
    destruct (dec_counted _ unlimited bs) as [[es r0]|] eqn:D; [|discriminate].
    destruct (strict_sorted (map entry_key es)) eqn:Hs; [|discriminate]. some_inv H.
    destruct (dec_counted_canon (pair_enc (enc k) (enc v)) _ _ _ _ _
                (pair_canon _ _ _ _ (IHk Hk) (IHv Hv)) W D) as (b & G & E & Hl & H64).
    exists (enc_nat (N.of_nat (length es)) ++ b). cbn [enc]. rewrite G, Hs.
    destruct (N.ltb_spec (N.of_nat (length es)) two64); [|lia].
    split; [reflexivity|exact E].
  - (* DStruct *)
    destruct (seq_all (map dec ds) bs) as [[vs r0]|] eqn:D; [|discriminate]. some_inv H.
    cbn [enc].
    revert bs vs W D. induction IH as [|d0 ds Hd _ IHds]; intros bs vs W D; cbn [map seq_all enc_zip forallb] in *.
    + some_inv D. exists []. split; reflexivity.
    + apply andb_true_iff in Hwf. destruct Hwf as [Hw0 Hws].
      destruct (dec d0 bs) as [[v0 r1]|] eqn:D0; [|discriminate].
      destruct (seq_all (map dec ds) r1) as [[vs' r2]|] eqn:D1; [|discriminate]. some_inv D.
      destruct (Hd Hw0 _ _ _ W D0) as (b1 & G1 & E1).
      pose proof (canon_rest_wf _ _ _ W E1) as W1.
      destruct (IHds Hws _ _ W1 D1) as (b2 & G2 & E2).
      exists (b1 ++ b2). rewrite G1, G2. split; [reflexivity|].
      rewrite <- app_assoc. now rewrite <- E2.
Qed.

(* ------------------------------------------------------------------------------------------ *)
(* strictness corollaries *)

(* a truncated encoding (any proper prefix) is rejected *)
Theorem rejects_truncated d v b p q :
  wf_desc d = true -> enc d v = Some b -> b = p ++ q -> q <> [] -> dec d p = None.
Proof.
  intros Hwf E Hb Hq.
  destruct (dec d p) as [[v' r]|] eqn:D; [|reflexivity]. exfalso.
  assert (Wp : wf_bytes p = true).
  { pose proof (enc_wf _ _ _ E) as Wb. rewrite Hb in Wb. apply wf_bytes_app in Wb. tauto. }
  destruct (canonical d Hwf _ _ _ Wp D) as (b' & E' & Hp).
  pose proof (roundtrip d Hwf _ _ [] E) as R1. rewrite app_nil_r in R1.
  pose proof (roundtrip d Hwf _ _ (r ++ q) E') as R2.
  rewrite Hb, Hp, <- app_assoc, R2 in R1. apply Some_inj in R1. apply pair_inj in R1.
  destruct R1 as [_ R1]. destruct r; destruct q; try discriminate. now apply Hq.
Qed.

(* an option discriminator other than 0 or 1 is rejected *)
Theorem rejects_bad_option_tag d t r : t <> 0 -> t <> 1 -> dec (DOpt d) (t :: r) = None.
Proof.
  intros H0 H1. cbn [dec]. destruct (N.eqb_spec t 0); [contradiction|].
  destruct (N.eqb_spec t 1); [contradiction|reflexivity].
Qed.

(* a variant discriminator that names no alternative is rejected *)
Theorem rejects_bad_variant_tag alts t r : assoc t alts = None -> dec (DVar alts) (t :: r) = None.
Proof. intros H. cbn [dec]. rewrite assoc_map, H. reflexivity. Qed.

(* any way of writing a natural other than its minimal form is rejected: whatever a lenient
   reader would read as x, the strict decoder accepts only enc_nat x *)
Theorem rejects_nonminimal_int bound bs x r :
  wf_bytes bs = true -> dec_nat_lenient bs = Some (x, r) -> bs <> enc_nat x ++ r -> dec (DNat bound) bs = None.
Proof.
  intros W L Hne. cbn [dec]. destruct (dec_nat bs) as [[x' r']|] eqn:D; [|reflexivity].
  exfalso. pose proof (strict_implies_lenient _ _ D) as L'. rewrite L in L'. some_inv L'.
  destruct (dec_canonical _ _ _ W D) as [E _]. contradiction.
Qed.

(* accepted input re-encodes to exactly the consumed bytes, stated with the consumed prefix *)
Corollary accepted_reencodes d bs v r :
  wf_desc d = true -> wf_bytes bs = true -> dec d bs = Some (v, r) ->
  exists b, enc d v = Some b /\ bs = b ++ r /\ length b = (length bs - length r)%nat.
Proof.
  intros Hwf W D. destruct (canonical d Hwf _ _ _ W D) as (b & E & Hb).
  exists b. repeat split; try assumption. rewrite Hb, app_length. lia.
Qed.

(* encodings of one descriptor are prefix-free and injective *)
Corollary enc_injective_gen d v1 v2 b : wf_desc d = true -> enc d v1 = Some b -> enc d v2 = Some b -> v1 = v2.
Proof.
  intros Hwf E1 E2. pose proof (roundtrip d Hwf _ _ [] E1) as R1. pose proof (roundtrip d Hwf _ _ [] E2) as R2.
  rewrite R1 in R2. apply Some_inj in R2. apply pair_inj in R2. tauto.
Qed.

(* ------------------------------------------------------------------------------------------ *)
(* dictionaries: the encoding does not depend on the order in which the entries are presented *)

Theorem map_order_irrelevant k v (es es' : list val) :
  Permutation es es' -> NoDup (map entry_key es) -> enc_map k v es = enc_map k v es'.
Proof. intros P ND. unfold enc_map. now rewrite (sort_entries_unique es es' P ND). Qed.

(* and sorting makes a list of well-typed entries with distinct keys encodable, the decoder
   returning the sorted list *)
Lemma sort_entries_sorted es : NoDup (map entry_key es) -> strict_sorted (map entry_key (sort_entries es)) = true.
Proof. intros ND. apply Sorted_strict_sorted. now apply sort_sorted. Qed.

(* ------------------------------------------------------------------------------------------ *)
(* well-typed values are exactly the encodable ones *)

Lemma all_ok_enc (g : val -> option bytes) (p : val -> bool) vs :
  (forall v, p v = true <-> exists b, g v = Some b) ->
  (all_ok p vs = true <-> exists b, enc_all g vs = Some b).
Proof.
  intros Hp. induction vs as [|v t IH]; cbn [all_ok enc_all].
  - split; [intros _; now exists []|reflexivity].
  - rewrite andb_true_iff, IH, Hp. split.
    + intros [[a Ga] [b Gb]]. rewrite Ga, Gb. now eexists.
    + intros [b H]. destruct (g v) as [a|]; [|discriminate]. destruct (enc_all g t) as [b'|]; [|discriminate].
      split; now eexists.
Qed.

Lemma pair_ok_enc g1 g2 p1 p2 :
  (forall v, p1 v = true <-> exists b, g1 v = Some b) ->
  (forall v, p2 v = true <-> exists b, g2 v = Some b) ->
  forall e, pair_ok p1 p2 e = true <-> exists b, pair_enc g1 g2 e = Some b.
Proof.
  intros H1 H2 e. destruct e as [| |l| |]; try (cbn; split; [discriminate|intros [? ?]; discriminate]).
  destruct l as [|a [|c [|? ?]]]; try (cbn; split; [discriminate|intros [? ?]; discriminate]).
  cbn [pair_ok pair_enc]. rewrite andb_true_iff, H1, H2. split.
  - intros [[x Gx] [y Gy]]. rewrite Gx, Gy. now eexists.
  - intros [b H]. destruct (g1 a); [|discriminate]. destruct (g2 c); [|discriminate]. split; now eexists.
Qed.

Ltac no_enc := split; [discriminate|intros [? ?]; discriminate].

Theorem val_ok_enc d : forall v, val_ok d v = true <-> exists b, enc d v = Some b.
Proof.
  induction d as [w|bd|n| | |n|lim d IH|n d IH|d IH|alts IH|k v IHk IHv|ds IH] using desc_ind';
    intros val; cbn [enc val_ok].
  - destruct val; try no_enc. destruct (_ <? _); split; try discriminate; try (intros [? ?]; discriminate); eauto.
  - destruct val; try no_enc. destruct (_ && _); split; try discriminate; try (intros [? ?]; discriminate); eauto.
  - destruct val; try no_enc. destruct (_ && _); split; try discriminate; try (intros [? ?]; discriminate); eauto.
  - destruct val; try no_enc. destruct (_ && _); split; try discriminate; try (intros [? ?]; discriminate); eauto.
  - destruct val; try no_enc. destruct (_ && _); split; try discriminate; try (intros [? ?]; discriminate); eauto.
  - destruct val; try no_enc. destruct (_ <? _); split; try discriminate; try (intros [? ?]; discriminate); eauto.
  - destruct val as [| |vs| |]; try no_enc.
    rewrite andb_true_iff, (all_ok_enc (enc d) (val_ok d) vs IH).
    destruct (_ && _).
    + split; [intros [_ [b G]]; rewrite G; now eexists|].
      intros [b H]. destruct (enc_all (enc d) vs); [|discriminate]. split; [reflexivity|now eexists].
    + split; [intros [? _]; discriminate|intros [? ?]; discriminate].
  - destruct val as [| |vs| |]; try no_enc.
    rewrite andb_true_iff, (all_ok_enc (enc d) (val_ok d) vs IH).
    destruct (Nat.eqb _ _).
    + split; [intros [_ H]; exact H|intros H; split; [reflexivity|exact H]].
    + split; [intros [? _]; discriminate|intros [? ?]; discriminate].
  - destruct val as [| | |o|]; try no_enc. destruct o as [a|].
    + rewrite IH. split; intros [b G]; [rewrite G; now eexists|].
      destruct (enc d a); [now eexists|discriminate].
    + split; [now eexists|reflexivity].
  - destruct val; try no_enc. rewrite !assoc_map.
    destruct (_ <? _); cbn [andb]; [|no_enc].
    destruct (assoc tag alts) as [da|] eqn:A; cbn [option_map]; [|no_enc].
    rewrite Forall_forall in IH. rewrite (IH _ (assoc_In _ _ _ A)). cbn [snd].
    split; intros [b G]; [rewrite G; now eexists|]. destruct (enc da val); [now eexists|discriminate].
  - destruct val as [| |es| |]; try no_enc.
    rewrite andb_true_iff,
      (all_ok_enc (pair_enc (enc k) (enc v)) (pair_ok (val_ok k) (val_ok v)) es (pair_ok_enc _ _ _ _ IHk IHv)).
    destruct (_ && _).
    + split; [intros [_ [b G]]; rewrite G; now eexists|].
      intros [b H]. destruct (enc_all _ es); [|discriminate]. split; [reflexivity|now eexists].
    + split; [intros [? _]; discriminate|intros [? ?]; discriminate].
  - destruct val as [| |vs| |]; try no_enc. revert vs.
    induction IH as [|d0 ds Hd _ IHds]; intros vs; cbn [map zip_ok enc_zip].
    + destruct vs; [split; [now eexists|reflexivity]|no_enc].
    + destruct vs as [|v0 vs]; [no_enc|]. rewrite andb_true_iff, Hd, IHds. split.
      * intros [[a Ga] [b Gb]]. rewrite Ga, Gb. now eexists.
      * intros [b H]. destruct (enc d0 v0); [|discriminate]. destruct (enc_zip (map enc ds) vs); [|discriminate].
        split; now eexists.
Qed.

(* the round trip stated on well-typed values *)
Theorem roundtrip_ok d v :
  wf_desc d = true -> val_ok d v = true ->
  exists b, enc d v = Some b /\ forall r, dec d (b ++ r) = Some (v, r).
Proof.
  intros Hwf Hok. apply val_ok_enc in Hok. destruct Hok as [b E].
  exists b. split; [exact E|]. intros r. now apply roundtrip.
Qed.

(* ------------------------------------------------------------------------------------------ *)
(* frames *)

Theorem frame_roundtrip d v f r :
  wf_desc d = true -> enc_frame d v = Some f -> dec_frame d (f ++ r) = Some (v, r).
Proof.
  intros Hwf H. unfold enc_frame in H. destruct (enc d v) as [b|] eqn:E; [|discriminate].
  destruct (N.ltb_spec (N.of_nat (length b)) two32) as [H32|]; [|discriminate]. some_inv H.
  unfold dec_frame. rewrite <- app_assoc, app_length, le_enc_length.
  destruct (Nat.ltb_spec (4 + length (b ++ r)) 4); [lia|].
  rewrite firstn_app_exact, skipn_app_exact by apply le_enc_length.
  rewrite le_dec_enc_small by (change (256 ^ N.of_nat 4) with two32; exact H32).
  unfold count_fits. rewrite app_length.
  destruct (N.leb_spec (N.of_nat (length b)) (N.of_nat (length b + length r))); [|lia].
  rewrite Nat2N.id, firstn_app_exact, skipn_app_exact by reflexivity.
  pose proof (roundtrip d Hwf _ _ [] E) as R. rewrite app_nil_r in R. now rewrite R.
Qed.

Theorem frame_canonical d bs v r :
  wf_desc d = true -> wf_bytes bs = true -> dec_frame d bs = Some (v, r) ->
  exists f, enc_frame d v = Some f /\ bs = f ++ r.
Proof.
  intros Hwf W H. unfold dec_frame in H.
  destruct (Nat.ltb_spec (length bs) 4) as [|Hl]; [discriminate|].
  set (L := le_dec (firstn 4 bs)) in *. set (r0 := skipn 4 bs) in *.
  unfold count_fits in H. destruct (N.leb_spec L (N.of_nat (length r0))) as [Hf|]; [|discriminate].
  destruct (dec d (firstn (N.to_nat L) r0)) as [[v' r']|] eqn:D; [|discriminate].
  destruct r'; [|discriminate]. some_inv H.
  assert (W0 : wf_bytes r0 = true) by (unfold r0; now apply wf_bytes_skipn).
  destruct (canonical d Hwf _ _ _ (wf_bytes_firstn _ _ W0) D) as (b & E & Hb).
  rewrite app_nil_r in Hb.
  assert (Lb : N.of_nat (length b) = L) by (rewrite <- Hb, firstn_length; lia).
  assert (L32 : L < two32).
  { unfold L. change two32 with (256 ^ N.of_nat 4). now apply le_dec_firstn_lt. }
  exists (le_enc 4 L ++ b). unfold enc_frame. rewrite E, Lb.
  destruct (N.ltb_spec L two32); [|lia]. split; [reflexivity|].
  unfold L at 1. rewrite le_enc_dec_firstn by assumption.
  rewrite <- app_assoc, <- Hb, firstn_skipn. unfold r0. symmetry. apply firstn_skipn.
Qed.
