(* Lemmas about Model/PvmCode.v and Model/PvmArgs.v: skip bound, zero extension, operand ranges. *)
From JamV Require Import Model.PvmCode Model.PvmArgs.
From Coq Require Import ZifyBool ZifyNat ZifyN.
Local Open Scope Z_scope.
Ltac Zify.zify_post_hook ::= Z.div_mod_to_equations.

(* ---- skip ---- *)
Lemma skip_from_bounds : forall p i n j, 0 <= j -> j + Z.of_nat n <= 24 ->
  j <= skip_from p i n j <= 24.
Proof.
  intros p i n; induction n as [|n IH]; intros j Hj Hn; cbn [skip_from].
  - lia.
  - destruct (kbit p (i + 1 + j)); [lia|].
    specialize (IH (j + 1)). lia.
Qed.

Lemma skip_le_24 : forall p i, 0 <= skip p i <= 24.
Proof. intros; unfold skip. apply skip_from_bounds; lia. Qed.

(* skip is exact: the bit at i+1+skip is set whenever skip < 24, and no earlier one is *)
Lemma skip_from_spec : forall p i n j, 0 <= j -> j + Z.of_nat n = 24 ->
  (forall j', j <= j' < skip_from p i n j -> kbit p (i + 1 + j') = false) /\
  (skip_from p i n j < 24 -> kbit p (i + 1 + skip_from p i n j) = true).
Proof.
  intros p i n; induction n as [|n IH]; intros j Hj Hn; cbn [skip_from].
  - split; intros; lia.
  - destruct (kbit p (i + 1 + j)) eqn:E.
    + split; intros; [lia|assumption].
    + destruct (IH (j + 1) ltac:(lia) ltac:(lia)) as [A B]. split.
      * intros j' Hj'. destruct (Z.eq_dec j' j) as [->|]; [assumption|]. apply A; lia.
      * exact B.
Qed.

Lemma skip_spec : forall p i,
  (forall j, 0 <= j < skip p i -> kbit p (i + 1 + j) = false) /\
  (skip p i < 24 -> kbit p (i + 1 + skip p i) = true).
Proof.
  intros p i. unfold skip. destruct (skip_from_spec p i 24 0 ltac:(lia) ltac:(lia)) as [A B].
  split; [exact A|exact B].
Qed.

(* ---- extensionality in (zeta, kbit): the decoders see the program only through them ---- *)
Lemma skip_from_ext : forall p p' i n j, (forall x, kbit p x = kbit p' x) ->
  skip_from p i n j = skip_from p' i n j.
Proof.
  intros p p' i n; induction n as [|n IH]; intros j H; cbn [skip_from]; [reflexivity|].
  rewrite H. destruct (kbit p' (i + 1 + j)); [reflexivity|]. apply IH; assumption.
Qed.

Lemma skip_ext : forall p p' i, (forall x, kbit p x = kbit p' x) -> skip p i = skip p' i.
Proof. intros; unfold skip; apply skip_from_ext; assumption. Qed.

Lemma le_read_ext : forall p p' n i, (forall x, zeta p x = zeta p' x) -> le_read p i n = le_read p' i n.
Proof.
  intros p p' n; induction n as [|n IH]; intros i H; cbn [le_read]; [reflexivity|].
  rewrite H, (IH (i + 1) H). reflexivity.
Qed.

Lemma opcode_at_ext : forall p p' i, (forall x, zeta p x = zeta p' x) -> opcode_at p i = opcode_at p' i.
Proof. intros; unfold opcode_at; rewrite H; reflexivity. Qed.

Lemma decode_cat_ext : forall c p p' pc,
  (forall x, zeta p x = zeta p' x) -> (forall x, kbit p x = kbit p' x) ->
  decode_cat c p pc = decode_cat c p' pc.
Proof.
  intros c p p' pc Hz Hk.
  unfold decode_cat, imm_at, off_at.
  rewrite (skip_ext p p' pc Hk).
  rewrite !Hz.
  destruct c; try reflexivity;
    repeat match goal with
           | |- context [le_read p ?i ?n] => rewrite (le_read_ext p p' n i Hz)
           end; reflexivity.
Qed.

Lemma decode_ext : forall p p' pc,
  (forall x, zeta p x = zeta p' x) -> (forall x, kbit p x = kbit p' x) ->
  decode p pc = decode p' pc.
Proof.
  intros. unfold decode. rewrite (opcode_at_ext p p' pc H). apply decode_cat_ext; assumption.
Qed.

(* ---- explicit zero padding changes nothing the decoders look at ---- *)
Definition pad (p : prog) (n : nat) : prog :=
  {| code := code p ++ repeat 0 n; mask := mask p ++ repeat true n;
     jt_count := jt_count p; jt_width := jt_width p; jt_bytes := jt_bytes p |}.

Lemma nth_app_repeat : forall {A} (l : list A) (d : A) n i, nth i (l ++ repeat d n) d = nth i l d.
Proof.
  intros A l d n i. destruct (Nat.lt_ge_cases i (length l)) as [H|H].
  - apply app_nth1; assumption.
  - rewrite app_nth2 by assumption. rewrite (nth_overflow l d H).
    generalize (i - length l)%nat as k. induction n as [|n IH]; intros [|k]; cbn; auto.
Qed.

Lemma zeta_pad : forall p n i, zeta (pad p n) i = zeta p i.
Proof. intros; unfold zeta, pad; cbn [code]. destruct (i <? 0); [reflexivity|]. apply nth_app_repeat. Qed.

Lemma kbit_pad : forall p n i, kbit (pad p n) i = kbit p i.
Proof. intros; unfold kbit, pad; cbn [mask]. destruct (i <? 0); [reflexivity|]. apply nth_app_repeat. Qed.

Lemma zero_extension : forall p n pc,
  opcode_at (pad p n) pc = opcode_at p pc /\ skip (pad p n) pc = skip p pc /\ decode (pad p n) pc = decode p pc.
Proof.
  intros. split; [|split].
  - apply opcode_at_ext; intros; apply zeta_pad.
  - apply skip_ext; intros; apply kbit_pad.
  - apply decode_ext; intros; [apply zeta_pad|apply kbit_pad].
Qed.

(* past the end of the code the byte is 0, i.e. trap *)
Lemma zeta_past_end : forall p i, code_len p <= i -> zeta p i = 0.
Proof.
  intros p i H. unfold zeta, code_len in *. destruct (i <? 0) eqn:E; [reflexivity|].
  apply nth_overflow. lia.
Qed.

(* ---- well-formed code: bytes ---- *)
Definition wf_code (p : prog) : Prop := Forall (fun b => 0 <= b < 256) (code p).

Lemma zeta_byte : forall p i, wf_code p -> 0 <= zeta p i < 256.
Proof.
  intros p i H. unfold zeta. destruct (i <? 0); [lia|].
  destruct (Nat.lt_ge_cases (Z.to_nat i) (length (code p))) as [L|L].
  - unfold wf_code in H. rewrite Forall_forall in H. apply H. apply nth_In; assumption.
  - rewrite nth_overflow by assumption. lia.
Qed.

Lemma le_read_range : forall p n i, wf_code p -> 0 <= le_read p i n < 2 ^ (8 * Z.of_nat n).
Proof.
  intros p n; induction n as [|n IH]; intros i H; cbn [le_read].
  - cbn. lia.
  - pose proof (zeta_byte p i H). specialize (IH (i + 1) H).
    replace (8 * Z.of_nat (S n)) with (8 + 8 * Z.of_nat n) by lia.
    rewrite Z.pow_add_r by lia. change (2 ^ 8) with 256. lia.
Qed.

Lemma sext_range : forall n x, 0 <= n <= 8 -> 0 <= x < 2 ^ (8 * n) -> 0 <= sext n x < W64.
Proof.
  intros n x Hn Hx. unfold sext, W64.
  destruct (n <=? 0) eqn:E.
  - assert (n = 0) by lia. subst. cbn in Hx. lia.
  - assert (2 ^ (8 * n) <= 2 ^ 64) by (apply Z.pow_le_mono_r; lia).
    change (2 ^ 64) with 18446744073709551616 in *.
    destruct (x <? 2 ^ (8 * n - 1)); lia.
Qed.

Lemma imm_at_range : forall p i l, wf_code p -> 0 <= l <= 8 -> 0 <= imm_at p i l < W64.
Proof.
  intros p i l H Hl. unfold imm_at. apply sext_range; [assumption|].
  pose proof (le_read_range p (Z.to_nat l) i H). rewrite Z2Nat.id in H0 by lia. assumption.
Qed.

Lemma reg_lo_le : forall b, (reg_lo b <= 12)%nat.
Proof. intros; unfold reg_lo. lia. Qed.
Lemma reg_hi_le : forall b, (reg_hi b <= 12)%nat.
Proof. intros; unfold reg_hi. lia. Qed.

(* every decoded register index is at most 12, lengths are clamped *)
Lemma decode_cat_regs : forall c p pc,
  (rA (decode_cat c p pc) <= 12)%nat /\ (rB (decode_cat c p pc) <= 12)%nat /\ (rD (decode_cat c p pc) <= 12)%nat.
Proof.
  intros c p pc. destruct c; cbn [decode_cat rA rB rD no_args];
    repeat split; try apply reg_lo_le; try apply reg_hi_le; try lia.
Qed.

Lemma decode_regs : forall p pc,
  (rA (decode p pc) <= 12)%nat /\ (rB (decode p pc) <= 12)%nat /\ (rD (decode p pc) <= 12)%nat.
Proof. intros; apply decode_cat_regs. Qed.

Lemma decode_cat_lens : forall c p pc,
  0 <= lX (decode_cat c p pc) <= 8 /\ 0 <= lY (decode_cat c p pc) <= 4 /\
  (c <> CRegImm64 -> lX (decode_cat c p pc) <= 4).
Proof.
  intros c p pc. pose proof (skip_le_24 p pc).
  destruct c; cbn [decode_cat lX lY no_args]; repeat split; try lia; try congruence.
Qed.

(* immediates (non-offset operands) are register-sized *)
Definition imm_cat (c : cat) : bool :=
  match c with COff | CRegRegOff => false | _ => true end.

Lemma decode_cat_vX : forall c p pc, wf_code p -> imm_cat c = true -> 0 <= vX (decode_cat c p pc) < W64.
Proof.
  intros c p pc H Hc. pose proof (skip_le_24 p pc).
  destruct c; cbn [decode_cat vX no_args]; try discriminate; try (unfold W64; lia);
    try (apply imm_at_range; [assumption|lia]).
  pose proof (le_read_range p 8 (pc + 2) H) as R.
  change (2 ^ (8 * Z.of_nat 8)) with 18446744073709551616 in R. unfold W64. lia.
Qed.

Definition immY_cat (c : cat) : bool :=
  match c with CRegImmOff => false | _ => true end.

Lemma decode_cat_vY : forall c p pc, wf_code p -> immY_cat c = true -> 0 <= vY (decode_cat c p pc) < W64.
Proof.
  intros c p pc H Hc. pose proof (skip_le_24 p pc).
  destruct c; cbn [decode_cat vY no_args]; try discriminate; try (unfold W64; lia);
    try (apply imm_at_range; [assumption|lia]).
Qed.
