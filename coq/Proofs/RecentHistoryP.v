(* C25 proofs: shape of the posterior history, size invariant, untouched entries, fuel of the Merkle node function. *)
From JamV Require Import Base.Bytes Proofs.BytesP Model.StfLists Proofs.StfListsP Model.RecentHistory.
From Coq Require Import ZifyBool ZifyNat ZifyN Sorted Permutation.
Ltac Zify.zify_post_hook ::= Z.div_mod_to_equations.
Local Open Scope N_scope.

(* ---------- generic list facts ---------- *)
Lemma nth_error_skipn' {A} k (l : list A) j : nth_error (skipn k l) j = nth_error l (k + j).
Proof. revert l; induction k as [|k IH]; intros l; [reflexivity|]. destruct l; cbn; [now destruct j|apply IH]. Qed.

Lemma nth_error_lastn {A} n (l : list A) j : nth_error (lastn n l) j = nth_error l ((length l - n) + j).
Proof. unfold lastn. apply nth_error_skipn'. Qed.

Lemma sorted_kle_nodup_strict {A} (key : A -> bytes) (l : list A) :
  StronglySorted (kle key) l -> NoDup (map key l) -> ssorted (map key l).
Proof.
  induction 1 as [|x t Hs IH Hall]; intros Hnd; [constructor|].
  cbn [map] in *. inversion Hnd as [|? ? Hnin Hnd']; subst.
  constructor; [now apply IH|].
  rewrite Forall_forall in *. intros z Hz. apply in_map_iff in Hz as (y & <- & Hy).
  specialize (Hall _ Hy). unfold kle in Hall. unfold blt.
  destruct (bytes_ltb (key x) (key y)) eqn:E; [reflexivity|].
  exfalso. apply Hnin. rewrite (bytes_ltb_total _ _ E Hall). now apply in_map.
Qed.

(* ---------- set_last_sroot ---------- *)
Lemma set_last_sroot_snoc r h0 e : set_last_sroot r (h0 ++ [e]) = h0 ++ [with_sroot e r].
Proof.
  induction h0 as [|x h0 IH]; [reflexivity|].
  cbn [app].
  assert (Hne : h0 ++ [e] <> []) by (intro E; apply app_eq_nil in E as [_ E]; discriminate).
  rewrite <- IH. destruct (h0 ++ [e]); [congruence|reflexivity].
Qed.

Lemma set_last_sroot_length r h : length (set_last_sroot r h) = length h.
Proof.
  destruct h as [|x t] using rev_ind; [reflexivity|].
  now rewrite set_last_sroot_snoc, !app_length.
Qed.

Lemma set_last_sroot_nth_other r h i : (S i < length h)%nat -> nth_error (set_last_sroot r h) i = nth_error h i.
Proof.
  destruct h as [|e h0 _] using rev_ind; [cbn; lia|].
  rewrite set_last_sroot_snoc, app_length. cbn [length]. intros Hi.
  rewrite !nth_error_app1 by lia. reflexivity.
Qed.

Lemma set_last_sroot_nth_last r h0 e :
  nth_error (set_last_sroot r (h0 ++ [e])) (length h0) = Some (with_sroot e r).
Proof. rewrite set_last_sroot_snoc, nth_error_app2 by lia. now rewrite Nat.sub_diag. Qed.

(* ---------- add_item ---------- *)
Lemma add_item_spec H h it : (1 <= H)%nat -> (length h <= H)%nat -> add_item H h it = lastn H (h ++ [it]).
Proof.
  intros H1 Hle. unfold add_item. destruct (Nat.ltb_spec (length h) H) as [Hlt|Hge].
  - symmetry. apply lastn_all. rewrite app_length. cbn. lia.
  - assert (Hl : length h = H) by lia.
    rewrite lastn_app_one_full by lia.
    f_equal. apply firstn_all2. destruct h; cbn in *; lia.
Qed.

Lemma add_item_length_le H h it : (1 <= H)%nat -> (length (add_item H h it) <= H)%nat.
Proof.
  intros H1. unfold add_item. destruct (Nat.ltb_spec (length h) H) as [Hlt|Hge]; rewrite app_length; cbn [length].
  - lia.
  - rewrite firstn_length. lia.
Qed.

Lemma add_item_length H h it : (1 <= H)%nat -> (length h <= H)%nat ->
  length (add_item H h it) = Nat.min (S (length h)) H.
Proof. intros. rewrite add_item_spec, lastn_length, app_length by assumption. cbn [length]. lia. Qed.

Section WithHashes.
  Variable B : bytes -> bytes.
  Variable K : bytes -> bytes.
  Variable accroot : list accout -> bytes.
  Notation step := (rh_step B K accroot).
  Notation run := (rh_run B K accroot).
  Notation nentry := (new_entry B K accroot).

  (* history_spec: the Go-shaped transition equals "replace the newest state root, append, keep the last H" *)
  Lemma history_spec H b blk : (1 <= H)%nat -> (length (b_hist b) <= H)%nat ->
    b_hist (step H b blk) = lastn H (set_last_sroot (hb_parent_sroot blk) (b_hist b) ++ [nentry b blk])
    /\ b_mmr (step H b blk) = mmr_append K (b_mmr b) (accroot (hb_accout blk)).
  Proof.
    intros H1 Hle. split; [|reflexivity]. cbn [step b_hist rh_step].
    apply add_item_spec; [assumption|now rewrite set_last_sroot_length].
  Qed.

  Lemma history_shape H b blk h0 e : (1 <= H)%nat -> b_hist b = h0 ++ [e] -> (length (b_hist b) <= H)%nat ->
    b_hist (step H b blk) = lastn H (h0 ++ [with_sroot e (hb_parent_sroot blk); nentry b blk]).
  Proof.
    intros H1 Hb Hle. destruct (history_spec H b blk H1 Hle) as [-> _].
    rewrite Hb, set_last_sroot_snoc, <- app_assoc. reflexivity.
  Qed.

  Lemma history_shape_empty H b blk : (1 <= H)%nat -> b_hist b = [] -> b_hist (step H b blk) = [nentry b blk].
  Proof.
    intros H1 Hb. cbn [step b_hist rh_step]. rewrite Hb. unfold add_item. cbn [set_last_sroot length].
    destruct (Nat.ltb_spec 0 H); [reflexivity|lia].
  Qed.

  (* not full: nothing dropped; full: exactly the oldest entry dropped *)
  Lemma history_not_full H b blk h0 e : b_hist b = h0 ++ [e] -> (length (b_hist b) < H)%nat ->
    b_hist (step H b blk) = h0 ++ [with_sroot e (hb_parent_sroot blk); nentry b blk].
  Proof.
    intros Hb Hlt. rewrite (history_shape H b blk h0 e) by (assumption || lia).
    apply lastn_all. rewrite Hb in Hlt. rewrite app_length in *. cbn in *. lia.
  Qed.

  Lemma history_full H b blk h0 e : (1 <= H)%nat -> b_hist b = h0 ++ [e] -> length (b_hist b) = H ->
    b_hist (step H b blk) = tl (h0 ++ [with_sroot e (hb_parent_sroot blk)]) ++ [nentry b blk].
  Proof.
    intros H1 Hb Hl. rewrite (history_shape H b blk h0 e) by (assumption || lia).
    replace (h0 ++ [with_sroot e (hb_parent_sroot blk); nentry b blk])
      with ((h0 ++ [with_sroot e (hb_parent_sroot blk)]) ++ [nentry b blk]) by now rewrite <- app_assoc.
    apply lastn_app_one_full; [|lia]. rewrite Hb in Hl. rewrite app_length in *. exact Hl.
  Qed.

  (* the fields of the appended entry *)
  Lemma new_entry_fields b blk :
    e_hh (nentry b blk) = B (hb_header blk)
    /\ e_sroot (nentry b blk) = zeros 32
    /\ e_beefy (nentry b blk) = super_peak K (mmr_append K (b_mmr b) (accroot (hb_accout blk)))
    /\ Permutation (hb_guar blk) (e_reported (nentry b blk))
    /\ StronglySorted (fun x y => bytes_ltb (rp_hash y) (rp_hash x) = false) (e_reported (nentry b blk)).
  Proof.
    repeat split; try reflexivity.
    - apply sort_by_perm.
    - apply (sort_by_sorted rp_hash).
  Qed.

  (* with pairwise distinct package hashes the reported list is strictly increasing by hash *)
  Lemma new_entry_reported_strict b blk : NoDup (map rp_hash (hb_guar blk)) ->
    ssorted (map rp_hash (e_reported (nentry b blk))).
  Proof.
    intros Hnd. cbn [nentry new_entry e_reported].
    apply sorted_kle_nodup_strict; [apply sort_by_sorted|].
    eapply Permutation_NoDup; [|exact Hnd]. apply Permutation_map, sort_by_perm.
  Qed.

  (* ---------- at most H entries ---------- *)
  Lemma step_length_le H b blk : (1 <= H)%nat -> (length (b_hist (step H b blk)) <= H)%nat.
  Proof. intros. cbn [step b_hist rh_step]. now apply add_item_length_le. Qed.

  Lemma step_length H b blk : (1 <= H)%nat -> (length (b_hist b) <= H)%nat ->
    length (b_hist (step H b blk)) = Nat.min (S (length (b_hist b))) H.
  Proof.
    intros. cbn [step b_hist rh_step]. rewrite add_item_length; rewrite ?set_last_sroot_length; auto.
  Qed.

  Lemma run_length_le H b0 blks : (1 <= H)%nat -> (length (b_hist b0) <= H)%nat ->
    (length (b_hist (run H b0 blks)) <= H)%nat.
  Proof.
    intros H1. unfold rh_run. revert b0; induction blks as [|blk blks IH]; intros b0 Hb; cbn; [assumption|].
    apply IH. now apply step_length_le.
  Qed.

  Lemma run_length_le_any H b0 blks : (1 <= H)%nat -> blks <> [] -> (length (b_hist (run H b0 blks)) <= H)%nat.
  Proof.
    intros H1 Hne. destruct blks as [|blk blks]; [congruence|]. unfold rh_run. cbn [fold_left].
    apply (run_length_le H _ blks H1). now apply step_length_le.
  Qed.

  (* the history is full after H blocks and stays full *)
  Lemma run_length H b0 blks : (1 <= H)%nat -> (length (b_hist b0) <= H)%nat ->
    length (b_hist (run H b0 blks)) = Nat.min (length (b_hist b0) + length blks) H.
  Proof.
    intros H1. unfold rh_run. revert b0; induction blks as [|blk blks IH]; intros b0 Hb; cbn [fold_left length].
    - lia.
    - rewrite IH by now apply step_length_le. rewrite step_length by assumption. lia.
  Qed.

  (* ---------- all other entries unchanged ---------- *)
  Definition dropped (H : nat) (b : beta) : nat := if Nat.ltb (length (b_hist b)) H then 0%nat else 1%nat.

  Lemma others_unchanged H b blk i : (1 <= H)%nat -> (length (b_hist b) <= H)%nat ->
    (S i < length (b_hist b))%nat -> (dropped H b <= i)%nat ->
    nth_error (b_hist (step H b blk)) (i - dropped H b) = nth_error (b_hist b) i.
  Proof.
    intros H1 Hle Hi Hd. destruct (history_spec H b blk H1 Hle) as [-> _].
    rewrite nth_error_lastn, app_length, set_last_sroot_length. cbn [length].
    unfold dropped in *. destruct (Nat.ltb_spec (length (b_hist b)) H) as [Hlt|Hge].
    - replace (length (b_hist b) + 1 - H + (i - 0))%nat with i by lia.
      rewrite nth_error_app1 by (rewrite set_last_sroot_length; lia). now apply set_last_sroot_nth_other.
    - replace (length (b_hist b) + 1 - H + (i - 1))%nat with i by lia.
      rewrite nth_error_app1 by (rewrite set_last_sroot_length; lia). now apply set_last_sroot_nth_other.
  Qed.

  (* the previous newest entry: only its state root changes *)
  Lemma previous_newest H b blk h0 e : (2 <= H)%nat -> (length (b_hist b) <= H)%nat -> b_hist b = h0 ++ [e] ->
    nth_error (b_hist (step H b blk)) (length h0 - dropped H b) = Some (with_sroot e (hb_parent_sroot blk))
    /\ e_hh (with_sroot e (hb_parent_sroot blk)) = e_hh e
    /\ e_beefy (with_sroot e (hb_parent_sroot blk)) = e_beefy e
    /\ e_reported (with_sroot e (hb_parent_sroot blk)) = e_reported e
    /\ e_sroot (with_sroot e (hb_parent_sroot blk)) = hb_parent_sroot blk.
  Proof.
    intros H2 Hle Hb. repeat split.
    destruct (history_spec H b blk) as [-> _]; [lia|assumption|].
    rewrite nth_error_lastn, app_length, set_last_sroot_length. cbn [length].
    assert (Hl : length (b_hist b) = S (length h0)) by (rewrite Hb, app_length; cbn; lia).
    unfold dropped. destruct (Nat.ltb_spec (length (b_hist b)) H) as [Hlt|Hge].
    - replace (length (b_hist b) + 1 - H + (length h0 - 0))%nat with (length h0) by lia.
      rewrite nth_error_app1 by (rewrite set_last_sroot_length; lia).
      rewrite Hb. apply set_last_sroot_nth_last.
    - replace (length (b_hist b) + 1 - H + (length h0 - 1))%nat with (length h0) by lia.
      rewrite nth_error_app1 by (rewrite set_last_sroot_length; lia).
      rewrite Hb. apply set_last_sroot_nth_last.
  Qed.

  (* the appended entry is the newest one *)
  Lemma newest_is_new H b blk : (1 <= H)%nat -> (length (b_hist b) <= H)%nat ->
    nth_error (b_hist (step H b blk)) (length (b_hist (step H b blk)) - 1) = Some (nentry b blk).
  Proof.
    intros H1 Hle. rewrite step_length by assumption.
    destruct (history_spec H b blk H1 Hle) as [-> _].
    rewrite nth_error_lastn, app_length, set_last_sroot_length. cbn [length].
    replace (length (b_hist b) + 1 - H + (Nat.min (S (length (b_hist b))) H - 1))%nat with (length (b_hist b)) by lia.
    rewrite nth_error_app2 by (rewrite set_last_sroot_length; lia).
    rewrite set_last_sroot_length, Nat.sub_diag. reflexivity.
  Qed.

End WithHashes.

Section Fuel.
  Variable K : bytes -> bytes.
  (* ---------- the Merkle node function never runs out of the fuel supplied ---------- *)
  Lemma mnode_total fuel v : (length v < fuel)%nat -> mnode K fuel v <> None.
  Proof.
    revert v; induction fuel as [|f IH]; intros v Hlt; [lia|].
    destruct v as [|x [|y t]]; cbn [mnode]; try discriminate.
    set (v := x :: y :: t) in *.
    assert (Hn : (2 <= length v)%nat) by (subst v; cbn; lia).
    set (mid := Nat.div2 (S (length v))).
    assert (Hmid : (1 <= mid /\ mid < length v)%nat).
    { subst mid. rewrite Nat.div2_div. split.
      - apply Nat.div_le_lower_bound; lia.
      - apply Nat.div_lt_upper_bound; lia. }
    assert (H1 : mnode K f (firstn mid v) <> None) by (apply IH; rewrite firstn_length; lia).
    assert (H2 : mnode K f (skipn mid v) <> None) by (apply IH; rewrite skipn_length; lia).
    clearbody v mid.
    destruct (mnode K f (firstn mid v)); [|congruence].
    destruct (mnode K f (skipn mid v)); [discriminate|congruence].
  Qed.

  Lemma acc_root_opt_total outs : acc_root_opt K outs <> None.
  Proof.
    unfold acc_root_opt. destruct (map ser_accout outs) as [|x [|y t]] eqn:E; try discriminate.
    apply mnode_total. lia.
  Qed.

  (* the MMR append keeps every peak hash-sized positions: it never shrinks and grows by at most one position *)
  Lemma mmr_append_length peaks l :
    (length peaks <= length (mmr_append K peaks l) <= S (length peaks))%nat.
  Proof.
    revert l; induction peaks as [|[p|] t IH]; intros l; cbn; try lia.
    specialize (IH (K (p ++ l))). lia.
  Qed.
End Fuel.
