(* C32 — proofs about Model/WorkDigest.v *)
From JamV Require Import Base.Bytes Model.Merkle Model.WorkDigest.
Local Open Scope N_scope.

Section WorkDigestP.
Variable H : bytes -> bytes.

(* GP 14.8 field by field *)
Lemma digest_spec w l u :
  let d := digest_of H w l u in
  dg_service d = wi_service w /\ dg_code_hash d = wi_code_hash w /\ dg_payload_hash d = H (wi_payload w) /\
  dg_acc_gas d = wi_acc_gas w /\ dg_result d = l /\ dg_gas_used d = u /\
  dg_imports d = nlen (wi_imports w) /\ dg_xcount d = nlen (wi_extrinsics w) /\
  dg_xsize d = sum_N (map snd (wi_extrinsics w)) /\ dg_exports d = wi_export_count w.
Proof. cbn. repeat split. Qed.

(* the pre-patch Go function differs from GP 14.8 only in the last three refine-load fields ... *)
Lemma digest_prepatch_same_prefix w l u :
  let d := digest_prepatch H w l u in let s := digest_of H w l u in
  dg_service d = dg_service s /\ dg_code_hash d = dg_code_hash s /\ dg_payload_hash d = dg_payload_hash s /\
  dg_acc_gas d = dg_acc_gas s /\ dg_result d = dg_result s /\ dg_gas_used d = dg_gas_used s /\ dg_imports d = dg_imports s.
Proof. cbn. repeat split. Qed.

(* ... where it is wrong: a work item with 2 extrinsics of 70000 and 5 octets and 3 exports *)
Definition refute_item : work_item := mk_item 7 [1] [2] 10 20 3 [] [([9], 70000); ([8], 5)].
Lemma digest_prepatch_refuted :
  exists w l u, digest_prepatch H w l u <> digest_of H w l u /\
    dg_xcount (digest_prepatch H w l u) = 3 /\ dg_xcount (digest_of H w l u) = 2 /\
    dg_xsize (digest_prepatch H w l u) = 2 /\ dg_xsize (digest_of H w l u) = 70005 /\
    dg_exports (digest_prepatch H w l u) = 4469 /\ dg_exports (digest_of H w l u) = 3.
Proof.
  exists refute_item, (ROk []), 0. split; [|vm_compute; repeat split].
  intros E. apply (f_equal dg_xcount) in E. vm_compute in E. discriminate.
Qed.

(* package specification: the three modelled fields *)
Lemma spec_fields p b ex :
  let s := spec_of H p b ex in
  ps_hash s = p /\ ps_length s = nlen b /\ ps_exports_count s = nlen ex /\
  ps_exports_root s = Nroot H (C H ex).
Proof. cbn. repeat split. Qed.

(* ------------------------------------------------------------------ item outcome and whole packages *)
Lemma zero_segments_length sz n : length (zero_segments sz n) = N.to_nat n.
Proof. unfold zero_segments. apply repeat_length. Qed.

(* whatever refinement returned, exactly wi_export_count segments are handed on for the item *)
Lemma item_outcome_exports W_R sz w z kind r e u :
  nlen (snd (item_outcome W_R sz w z kind r e u)) = wi_export_count w.
Proof.
  unfold item_outcome, nlen.
  destruct (W_R <? N.of_nat (length r) + z); cbn [snd]; [rewrite zero_segments_length; lia|].
  destruct (N.of_nat (length e) =? wi_export_count w) eqn:E; cbn [negb snd]; [|rewrite zero_segments_length; lia].
  apply N.eqb_eq in E. destruct kind; cbn [snd]; [rewrite zero_segments_length; lia | exact E].
Qed.

(* the gas recorded is the gas refinement reported, in every branch *)
Lemma item_outcome_gas W_R sz w z kind r e u : snd (fst (item_outcome W_R sz w z kind r e u)) = u.
Proof.
  unfold item_outcome. destruct (W_R <? nlen r + z); [reflexivity|].
  destruct (negb (nlen e =? wi_export_count w)); [reflexivity|]. destruct kind; reflexivity.
Qed.

(* a blob result is recorded exactly when the output fits, the export count matches and refinement succeeded *)
Lemma item_outcome_ok_iff W_R sz w z kind r e u d :
  fst (fst (item_outcome W_R sz w z kind r e u)) = ROk d <->
  nlen r + z <= W_R /\ nlen e = wi_export_count w /\ kind = None /\ d = r.
Proof.
  unfold item_outcome. destruct (W_R <? nlen r + z) eqn:E1; cbn [fst].
  - apply N.ltb_lt in E1. split; [discriminate | intros [Hl _]; lia].
  - apply N.ltb_ge in E1. destruct (nlen e =? wi_export_count w) eqn:E2; cbn [negb fst].
    + apply N.eqb_eq in E2. destruct kind; cbn [fst].
      * split; [discriminate | intros [_ [_ [Hk _]]]; discriminate].
      * split; [intros E; inversion E; subst; repeat split; auto | intros [_ [_ [_ ->]]]; reflexivity].
    + apply N.eqb_neq in E2. split; [discriminate | intros [_ [He _]]; contradiction].
Qed.

Lemma run_items_lengths W_R sz items : forall z,
  length (fst (run_items H W_R sz z items)) = length items /\
  nlen (snd (run_items H W_R sz z items)) = sum_N (map (fun it => wi_export_count (fst it)) items).
Proof.
  induction items as [|[w [[[kind r] e] u]] t IH]; intros z; [split; reflexivity|].
  cbn [run_items]. pose proof (item_outcome_exports W_R sz w z kind r e u) as Hex.
  destruct (item_outcome W_R sz w z kind r e u) as [[res gas] segs]. cbn [snd] in Hex.
  match goal with |- context [run_items H W_R sz ?z' t] => specialize (IH z') end.
  destruct (run_items H W_R sz _ t) as [ds ex]. cbn [fst snd] in *. destruct IH as [IH1 IH2]. split.
  - cbn. now rewrite IH1.
  - unfold nlen in *. rewrite app_length, Nat2N.inj_add, Hex, IH2. reflexivity.
Qed.

(* every digest of a package is the GP 14.8 digest of its own item: nothing leaks between items *)
Lemma run_items_digests W_R sz items : forall z k d,
  nth_error (fst (run_items H W_R sz z items)) k = Some d ->
  exists w o l, nth_error items k = Some (w, o) /\ d = digest_of H w l (snd o).
Proof.
  induction items as [|[w [[[kind r] e] u]] t IH]; intros z k d; [destruct k; discriminate|].
  cbn [run_items]. pose proof (item_outcome_gas W_R sz w z kind r e u) as Hg.
  destruct (item_outcome W_R sz w z kind r e u) as [[res gas] segs]. cbn [fst snd] in Hg. subst gas.
  match goal with |- context [run_items H W_R sz ?z' t] => specialize (IH z') end.
  destruct (run_items H W_R sz _ t) as [ds ex]. cbn [fst] in *.
  destruct k as [|k]; cbn [nth_error].
  - intros E; inversion E; subst. exists w, (kind, r, e, u), res. split; reflexivity.
  - intros E. destruct (IH k d E) as [w' [o [l [E1 E2]]]]. exists w', o, l. split; assumption.
Qed.

End WorkDigestP.
