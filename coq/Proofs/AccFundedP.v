(* Accounts that hold at least their threshold balance keep doing so (exact arithmetic), given
   consistent footprints. Justifies that the GP rule "a_t > a_b -> FULL" can only fire on mutations
   that raise the threshold (C09). *)
From JamV Require Import Base.Bytes Proofs.BytesP Model.Accounts Proofs.AccountsP Model.AccCalls Proofs.AccCallsP.
From Coq Require Import ZifyBool ZifyNat ZifyN.
Local Open Scope N_scope.

Definition inv (x : ctx) : Prop := all_fp x /\ all_funded x.
Definition inv2 (st : state) : Prop := inv (fst st) /\ inv (snd st).

Lemma thr_exact a : thr ar_exact a = threshold a.
Proof. reflexivity. Qed.

Lemma funded_set_bal a b : threshold a <= b -> funded (set_bal a b).
Proof. unfold funded, threshold. destruct a; cbn. auto. Qed.
Lemma funded_set_code a c g m : funded a -> funded (set_code a c g m).
Proof. unfold funded, threshold. destruct a; cbn. auto. Qed.

Lemma look_present_bounds s h z old :
  fp_ok s -> al_get lk_eqb (h, z) (a_lookups s) = Some old -> 2 <= a_items s /\ look_fp z <= a_octets s.
Proof.
  unfold fp_ok, items_of, octets_of. intros [Hi Ho] G.
  pose proof (al_del_length lk_eqb (h, z) (a_lookups s)). pose proof (look_octets_del (h, z) (a_lookups s)).
  rewrite G in *. cbn [snd] in *. lia.
Qed.

Lemma funded_look_upd s h z ts old p :
  fp_ok s -> funded s -> al_get lk_eqb (h, z) (a_lookups s) = Some old ->
  funded (set_lookups s (a_items s - 2 + 2) (a_octets s - look_fp z + look_fp z) (al_set lk_eqb (h, z) ts (a_lookups s)) p).
Proof.
  intros F Fu G. destruct (look_present_bounds _ _ _ _ F G).
  unfold funded, threshold in *. cbn [set_lookups a_items a_octets a_gratis a_bal].
  replace (a_items s - 2 + 2) with (a_items s) by lia.
  replace (a_octets s - look_fp z + look_fp z) with (a_octets s) by lia. exact Fu.
Qed.

Lemma funded_look_del s z l p :
  funded s -> funded (set_lookups s (a_items s - 2) (a_octets s - look_fp z) l p).
Proof.
  unfold funded, threshold. cbn [set_lookups a_items a_octets a_gratis a_bal]. intros Fu.
  pose proof (threshold_raw_mono (a_items s - 2) (a_octets s - look_fp z) (a_gratis s) (a_items s) (a_octets s)).
  lia.
Qed.

Section Funded.
  Variable e : env.
  Let ar := ar_exact.

  Ltac fin_same := intros [F Fu]; assumption.
  Ltac put_funded := unfold all_funded in *; cbn [c_accts]; apply put_Forall; [intros; cbn [snd] | try assumption].

  Lemma debit_exact_some b amt t nb : debit_exact b amt t = Some nb -> t <= nb /\ nb <= b.
  Proof. unfold debit_exact. destruct (N.ltb_spec b (amt + t)) as [L | L]; intros E; inversion E; lia. Qed.

  Lemma call_new_funded x c l g m f i r x' :
    call_new ar e x c l g m f i = (r, x') -> inv x -> all_funded x'.
  Proof.
    unfold call_new. intros H. set (nxt := check _ _ _) in H; clearbody nxt.
    repeat (break_match_hyp; try inv_pair); try fin_same; intros [F Fu].
    - cbn [ar ar_exact ar_debit_new] in Heqo0. apply debit_exact_some in Heqo0.
      put_funded; [apply funded_set_bal; rewrite thr_exact in Heqo0; lia |].
      apply put_Forall; [intros; cbn [snd]; unfold funded, threshold, new_account; cbn; lia | assumption].
    - cbn [ar ar_exact ar_debit_new] in Heqo0. apply debit_exact_some in Heqo0.
      put_funded; [apply funded_set_bal; rewrite thr_exact in Heqo0; lia |].
      apply put_Forall; [intros; cbn [snd]; unfold funded, threshold, new_account; cbn; lia | assumption].
  Qed.

  Lemma call_upgrade_funded x c g m r x' :
    call_upgrade e x c g m = (r, x') -> inv x -> all_funded x'.
  Proof.
    unfold call_upgrade. intros H. repeat (break_match_hyp; try inv_pair); try fin_same; intros [F Fu].
    put_funded. apply funded_set_code. apply (get_Forall funded _ _ _ Fu Heqo).
  Qed.

  Lemma call_transfer_funded x d amt l memo r x' :
    call_transfer ar e x d amt l memo = (r, x') -> inv x -> all_funded x'.
  Proof.
    unfold call_transfer. intros H. repeat (break_match_hyp; try inv_pair); try fin_same; intros [F Fu].
    cbn [ar ar_exact ar_debit_xfer] in Heqo1. apply debit_exact_some in Heqo1.
    put_funded. apply funded_set_bal. rewrite thr_exact in Heqo1. lia.
  Qed.

  Lemma call_eject_funded x d h r x' :
    call_eject ar e x d h = (r, x') -> inv x -> all_funded x'.
  Proof.
    unfold call_eject. intros H. repeat (break_match_hyp; try inv_pair); try fin_same; intros [F Fu].
    unfold all_funded in *; cbn [c_accts]. apply al_del_Forall.
    apply put_Forall; [intros; cbn [snd] | assumption].
    apply funded_set_bal. pose proof (get_Forall funded _ _ _ Fu Heqo1) as Fs. unfold funded in Fs.
    cbn [ar ar_exact ar_add]. lia.
  Qed.

  Lemma call_write_funded x k v r x' :
    call_write ar e x k v = (r, x') -> inv x -> all_funded x'.
  Proof.
    unfold call_write. intros H.
    destruct (get (e_self e) (c_accts x)) as [s |] eqn:G; [| inv_pair; fin_same].
    cbv zeta in H.
    destruct v as [| v0 vt];
      (match type of H with (if ?c then _ else _) = _ => destruct c eqn:C end; inv_pair; [fin_same |]);
      intros [F Fu]; put_funded; rewrite thr_exact in C; unfold funded; apply N.ltb_ge in C; exact C.
  Qed.

  Lemma call_solicit_funded x h z r x' :
    call_solicit ar e x h z = (r, x') -> inv x -> all_funded x'.
  Proof.
    unfold call_solicit. intros H.
    destruct (get (e_self e) (c_accts x)) as [s |] eqn:G; [| inv_pair; fin_same].
    destruct (al_get lk_eqb (h, z) (a_lookups s)) as [ts |] eqn:L.
    - destruct ts as [| t0 [| t1 [| t2 tr]]]; inv_pair; try fin_same.
      intros [F Fu]. put_funded.
      eapply funded_look_upd; [apply (get_Forall fp_ok _ _ _ F G) | apply (get_Forall funded _ _ _ Fu G) | exact L].
    - cbv zeta in H. match type of H with (if ?c then _ else _) = _ => destruct c eqn:C end; inv_pair; [fin_same |].
      intros [F Fu]. put_funded. rewrite thr_exact in C. unfold funded. apply N.ltb_ge in C. exact C.
  Qed.

  Lemma call_forget_funded x h z r x' :
    call_forget e x h z = (r, x') -> inv x -> all_funded x'.
  Proof.
    unfold call_forget. intros H. cbv beta zeta in H.
    destruct (get (e_self e) (c_accts x)) as [s |] eqn:G; [| inv_pair; fin_same].
    destruct (al_get lk_eqb (h, z) (a_lookups s)) as [ts |] eqn:L; [| inv_pair; fin_same].
    intros [F Fu].
    pose proof (get_Forall fp_ok _ _ _ F G) as Fs. pose proof (get_Forall funded _ _ _ Fu G) as Fus.
    destruct ts as [| t0 [| t1 [| t2 [| t3 tr]]]].
    - inv_pair. put_funded. apply funded_look_del. exact Fus.
    - inv_pair. put_funded. eapply funded_look_upd; eauto.
    - destruct (expired e t1); inv_pair; [| assumption]. put_funded. apply funded_look_del. exact Fus.
    - destruct (expired e t1); inv_pair; [| assumption]. put_funded. eapply funded_look_upd; eauto.
    - inv_pair. assumption.
  Qed.

  Lemma step_inv o st r st' : step ar e o st = (r, st') -> inv2 st -> inv2 st'.
  Proof.
    intros H I. assert (FP : all_fp2 st') by (destruct (step_spec _ _ _ _ _ _ H) as (_ & P & _); apply P; destruct I as [[A _] [B _]]; split; assumption).
    destruct FP as [FPx FPy]. destruct st as [x y]. destruct I as [Ix Iy]. cbn [fst snd] in *.
    unfold step in H. unfold inv2, inv. 
    destruct o.
    - destruct (call_new ar e x c l g m f i) as [r0 x0] eqn:E. inv_pair. cbn [fst snd] in *.
      repeat split; try assumption; try apply Iy. eapply call_new_funded; eauto.
    - destruct (call_upgrade e x c g m) as [r0 x0] eqn:E. inv_pair. cbn [fst snd] in *.
      repeat split; try assumption; try apply Iy. eapply call_upgrade_funded; eauto.
    - destruct (call_transfer ar e x d amt l memo) as [r0 x0] eqn:E. inv_pair. cbn [fst snd] in *.
      repeat split; try assumption; try apply Iy. eapply call_transfer_funded; eauto.
    - destruct (call_eject ar e x d h) as [r0 x0] eqn:E. inv_pair. cbn [fst snd] in *.
      repeat split; try assumption; try apply Iy. eapply call_eject_funded; eauto.
    - inv_pair. cbn [fst snd] in *. repeat split; try assumption; apply Ix.
    - destruct (call_write ar e x k v) as [r0 x0] eqn:E. inv_pair. cbn [fst snd] in *.
      repeat split; try assumption; try apply Iy. eapply call_write_funded; eauto.
    - destruct (call_solicit ar e x h z) as [r0 x0] eqn:E. inv_pair. cbn [fst snd] in *.
      repeat split; try assumption; try apply Iy. eapply call_solicit_funded; eauto.
    - destruct (call_forget e x h z) as [r0 x0] eqn:E. inv_pair. cbn [fst snd] in *.
      repeat split; try assumption; try apply Iy. eapply call_forget_funded; eauto.
    - destruct (call_info ar e x s) as [r0 x0] eqn:E. inv_pair. cbn [fst snd] in *.
      rewrite (call_info_spec _ _ _ _ _ _ E) in *. repeat split; try assumption; try apply Ix; apply Iy.
  Qed.

  Lemma funded_preserved ops : forall st, inv2 st -> inv2 (run ar e ops st).
  Proof.
    unfold run. induction ops as [| o ops IH]; intros st I; cbn [fold_left]; [assumption |].
    apply IH. unfold step_st. destruct (step ar e o st) as [r st'] eqn:E. cbn [snd].
    eapply step_inv; eauto.
  Qed.
End Funded.
