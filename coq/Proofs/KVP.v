(* C27 — proofs about Model/KV.v *)
From JamV Require Import Base.Bytes Proofs.BytesP Model.KV.
From Coq Require Import Sorted.
From Coq Require Import ZifyBool ZifyNat ZifyN.
Local Open Scope N_scope.

(* ---------------------------------------------------------------------------------------------- *)
(* the byte-string order is a strict total order *)
Lemma kv_eqb_refl a : bytes_eqb a a = true.
Proof. apply bytes_eqb_eq; reflexivity. Qed.

Lemma kv_eqb_sym a b : bytes_eqb a b = bytes_eqb b a.
Proof.
  destruct (bytes_eqb a b) eqn:E.
  - apply bytes_eqb_eq in E. subst. symmetry. apply kv_eqb_refl.
  - destruct (bytes_eqb b a) eqn:E2; [|reflexivity].
    apply bytes_eqb_eq in E2. subst. rewrite kv_eqb_refl in E. discriminate.
Qed.

Lemma kv_ltb_irrefl a : bytes_ltb a a = false.
Proof.
  induction a as [|x a IH]; cbn [bytes_ltb]; [reflexivity|].
  rewrite N.ltb_irrefl, N.eqb_refl, IH. reflexivity.
Qed.

Lemma kv_ltb_trans a b c : bytes_ltb a b = true -> bytes_ltb b c = true -> bytes_ltb a c = true.
Proof.
  revert b c; induction a as [|x a IH]; intros [|y b] [|z c]; cbn [bytes_ltb]; try congruence.
  intros H1 H2.
  apply orb_true_iff in H1; apply orb_true_iff in H2. apply orb_true_iff.
  destruct H1 as [H1|H1], H2 as [H2|H2].
  - left. apply N.ltb_lt in H1, H2. apply N.ltb_lt. lia.
  - apply andb_true_iff in H2 as [E _]. apply N.eqb_eq in E. subst. left; assumption.
  - apply andb_true_iff in H1 as [E _]. apply N.eqb_eq in E. subst. left; assumption.
  - apply andb_true_iff in H1 as [E1 L1]. apply andb_true_iff in H2 as [E2 L2].
    apply N.eqb_eq in E1, E2. subst. right. rewrite N.eqb_refl. cbn [andb]. eapply IH; eauto.
Qed.

Lemma kv_ltb_total a b : bytes_ltb a b = false -> bytes_eqb a b = false -> bytes_ltb b a = true.
Proof.
  revert b; induction a as [|x a IH]; intros [|y b]; cbn [bytes_ltb bytes_eqb]; try congruence.
  intros H1 H2. apply orb_false_iff in H1 as [L1 H1]. apply N.ltb_ge in L1.
  destruct (N.eqb_spec x y) as [->|NE].
  - cbn [andb] in H1, H2. rewrite N.ltb_irrefl, N.eqb_refl. cbn [orb andb]. apply IH; assumption.
  - assert (Hyx : (y <? x) = true) by (apply N.ltb_lt; lia). rewrite Hyx. reflexivity.
Qed.

Lemma kv_ltb_neq a b : bytes_ltb a b = true -> bytes_eqb a b = false.
Proof.
  intros H. destruct (bytes_eqb a b) eqn:E; [|reflexivity].
  apply bytes_eqb_eq in E; subst. rewrite kv_ltb_irrefl in H; discriminate.
Qed.

Lemma kv_ltb_asym a b : bytes_ltb a b = true -> bytes_ltb b a = false.
Proof.
  intros H. destruct (bytes_ltb b a) eqn:E; [|reflexivity].
  rewrite <- (kv_ltb_irrefl a). symmetry. eapply kv_ltb_trans; eauto.
Qed.

(* ---------------------------------------------------------------------------------------------- *)
(* the store invariant: keys strictly ascending *)
Definition key_lt (a b : bytes * bytes) : Prop := bytes_ltb (fst a) (fst b) = true.
Definition sorted (s : store) : Prop := StronglySorted key_lt s.
Definition bytes_lt (a b : bytes) : Prop := bytes_ltb a b = true.

Lemma sorted_nil : sorted [].
Proof. constructor. Qed.

Lemma sorted_inv kv t : sorted (kv :: t) -> sorted t /\ Forall (key_lt kv) t.
Proof. intros H. inversion H; subst. split; assumption. Qed.

Lemma s_get_below k s : Forall (fun kv => bytes_ltb k (fst kv) = true) s -> s_get s k = None.
Proof.
  destruct s as [|[k' v] t]; [reflexivity|]. intros H. inversion H as [|? ? H1 H2]; subst.
  cbn [s_get fst] in *. rewrite H1. reflexivity.
Qed.

Lemma s_get_put s k v x : s_get (s_put s k v) x = if bytes_eqb x k then Some v else s_get s x.
Proof.
  induction s as [|[k' v'] t IH].
  - cbn [s_put s_get]. destruct (bytes_eqb x k) eqn:E.
    + apply bytes_eqb_eq in E; subst. rewrite kv_ltb_irrefl. reflexivity.
    + destruct (bytes_ltb x k); reflexivity.
  - cbn [s_put]. destruct (bytes_ltb k k') eqn:L1.
    + cbn [s_get]. destruct (bytes_eqb x k) eqn:E.
      * apply bytes_eqb_eq in E; subst. rewrite kv_ltb_irrefl. reflexivity.
      * destruct (bytes_ltb x k) eqn:L2; [|reflexivity].
        rewrite (kv_ltb_trans _ _ _ L2 L1). reflexivity.
    + destruct (bytes_eqb k k') eqn:E1.
      * apply bytes_eqb_eq in E1; subst k'. cbn [s_get].
        destruct (bytes_ltb x k) eqn:L2.
        { rewrite (kv_ltb_neq _ _ L2). reflexivity. }
        destruct (bytes_eqb x k); reflexivity.
      * cbn [s_get]. rewrite IH. destruct (bytes_eqb x k) eqn:E.
        { apply bytes_eqb_eq in E; subst x. rewrite L1, E1. reflexivity. }
        reflexivity.
Qed.

Lemma s_get_del s k x : sorted s -> s_get (s_del s k) x = if bytes_eqb x k then None else s_get s x.
Proof.
  induction s as [|[k' v'] t IH]; intros Hs.
  - cbn. destruct (bytes_eqb x k); reflexivity.
  - apply sorted_inv in Hs as [Ht Hall]. cbn [s_del]. destruct (bytes_ltb k k') eqn:L1.
    + destruct (bytes_eqb x k) eqn:E; [|reflexivity].
      apply bytes_eqb_eq in E; subst x. cbn [s_get]. rewrite L1. reflexivity.
    + destruct (bytes_eqb k k') eqn:E1.
      * apply bytes_eqb_eq in E1; subst k'. cbn [s_get].
        destruct (bytes_eqb x k) eqn:E.
        { apply bytes_eqb_eq in E; subst x. apply s_get_below.
          eapply Forall_impl; [|exact Hall]. intros a Ha. exact Ha. }
        destruct (bytes_ltb x k) eqn:L2; [|reflexivity].
        apply s_get_below. eapply Forall_impl; [|exact Hall].
        intros a Ha. unfold key_lt in Ha. cbn [fst] in Ha. eapply kv_ltb_trans; eauto.
      * cbn [s_get]. rewrite IH by assumption. destruct (bytes_eqb x k) eqn:E; [|reflexivity].
        apply bytes_eqb_eq in E; subst x. rewrite L1, E1. reflexivity.
Qed.

Lemma s_get_in s k v : sorted s -> (In (k, v) s <-> s_get s k = Some v).
Proof.
  induction s as [|[k' v'] t IH]; intros Hs.
  - cbn. split; [tauto|discriminate].
  - apply sorted_inv in Hs as [Ht Hall]. specialize (IH Ht). cbn [In s_get]. split.
    + intros [E|Hin].
      * inversion E; subst. rewrite kv_ltb_irrefl, kv_eqb_refl. reflexivity.
      * rewrite Forall_forall in Hall. specialize (Hall _ Hin). unfold key_lt in Hall. cbn [fst] in Hall.
        rewrite (kv_ltb_asym _ _ Hall). rewrite kv_eqb_sym, (kv_ltb_neq _ _ Hall). apply IH; assumption.
    + destruct (bytes_ltb k k'); [discriminate|].
      destruct (bytes_eqb k k') eqn:E.
      * apply bytes_eqb_eq in E; subst. intros H; inversion H; subst. left; reflexivity.
      * intros H. right. apply IH; assumption.
Qed.

Lemma s_put_in kv s k v : In kv (s_put s k v) -> kv = (k, v) \/ In kv s.
Proof.
  induction s as [|[k' v'] t IH]; cbn [s_put].
  - intros [E|[]]; left; symmetry; assumption.
  - destruct (bytes_ltb k k').
    + intros [E|H]; [left; symmetry; assumption|right; assumption].
    + destruct (bytes_eqb k k').
      * intros [E|H]; [left; symmetry; assumption|right; right; assumption].
      * intros [E|H]; [right; left; assumption|].
        destruct (IH H) as [E|H']; [left; assumption|right; right; assumption].
Qed.

Lemma s_del_in kv s k : In kv (s_del s k) -> In kv s.
Proof.
  induction s as [|[k' v'] t IH]; cbn [s_del]; [tauto|].
  destruct (bytes_ltb k k'); [tauto|].
  destruct (bytes_eqb k k'); [intros H; right; assumption|].
  intros [E|H]; [left; assumption|right; apply IH; assumption].
Qed.

Lemma s_put_sorted s k v : sorted s -> sorted (s_put s k v).
Proof.
  induction s as [|[k' v'] t IH]; intros Hs; cbn [s_put].
  - constructor; constructor.
  - pose proof Hs as Hs0. apply sorted_inv in Hs as [Ht Hall].
    destruct (bytes_ltb k k') eqn:L1.
    + constructor; [exact Hs0|]. constructor; [exact L1|].
      eapply Forall_impl; [|exact Hall]. intros a Ha. unfold key_lt in *. cbn [fst] in *.
      eapply kv_ltb_trans; eauto.
    + destruct (bytes_eqb k k') eqn:E1.
      * apply bytes_eqb_eq in E1; subst k'. constructor; [exact Ht|].
        eapply Forall_impl; [|exact Hall]. intros a Ha. exact Ha.
      * constructor; [apply IH; exact Ht|]. apply Forall_forall. intros a Ha.
        apply s_put_in in Ha as [->|Ha].
        { unfold key_lt. cbn [fst]. apply kv_ltb_total; [exact L1|exact E1]. }
        rewrite Forall_forall in Hall. apply Hall; assumption.
Qed.

Lemma s_del_sorted s k : sorted s -> sorted (s_del s k).
Proof.
  induction s as [|[k' v'] t IH]; intros Hs; cbn [s_del]; [constructor|].
  pose proof Hs as Hs0. apply sorted_inv in Hs as [Ht Hall].
  destruct (bytes_ltb k k'); [exact Hs0|].
  destruct (bytes_eqb k k'); [exact Ht|].
  constructor; [apply IH; exact Ht|]. apply Forall_forall. intros a Ha.
  apply s_del_in in Ha. rewrite Forall_forall in Hall. apply Hall; assumption.
Qed.

Lemma s_apply_sorted s w : sorted s -> sorted (s_apply s w).
Proof. destruct w; cbn [s_apply]; [apply s_put_sorted|apply s_del_sorted]. Qed.

Lemma s_apply_all_sorted ws : forall s, sorted s -> sorted (fold_left s_apply ws s).
Proof. induction ws as [|w ws IH]; intros s Hs; cbn [fold_left]; [exact Hs|]. apply IH, s_apply_sorted, Hs. Qed.

Lemma sorted_filter f s : sorted s -> sorted (filter f s).
Proof.
  induction s as [|a t IH]; intros Hs; cbn [filter]; [constructor|].
  apply sorted_inv in Hs as [Ht Hall]. destruct (f a); [|apply IH; exact Ht].
  constructor; [apply IH; exact Ht|]. apply Forall_forall. intros x Hx.
  apply filter_In in Hx as [Hx _]. rewrite Forall_forall in Hall. apply Hall; assumption.
Qed.

Lemma sorted_keys s : sorted s -> StronglySorted bytes_lt (map fst s).
Proof.
  induction s as [|a t IH]; intros Hs; cbn [map]; [constructor|].
  apply sorted_inv in Hs as [Ht Hall]. constructor; [apply IH; exact Ht|].
  apply Forall_forall. intros x Hx. apply in_map_iff in Hx as (kv & <- & Hin).
  rewrite Forall_forall in Hall. apply Hall; assumption.
Qed.

Lemma sorted_nodup s : sorted s -> NoDup (map fst s).
Proof.
  induction s as [|a t IH]; intros Hs; cbn [map]; [constructor|].
  apply sorted_inv in Hs as [Ht Hall]. constructor; [|apply IH; exact Ht].
  intros Hx. apply in_map_iff in Hx as (kv & E & Hin).
  rewrite Forall_forall in Hall. specialize (Hall _ Hin). unfold key_lt in Hall.
  rewrite E, kv_ltb_irrefl in Hall. discriminate.
Qed.

(* iteration over a sorted store *)
Lemma s_iter_spec s p st : sorted s ->
  (forall k v, In (k, v) (s_iter s p st) <-> (s_get s k = Some v /\ is_prefix p k = true /\ bytes_leb (p ++ st) k = true))
  /\ sorted (s_iter s p st).
Proof.
  intros Hs. split; [|apply sorted_filter; exact Hs].
  intros k v. unfold s_iter. rewrite filter_In. cbn [fst]. unfold in_range.
  rewrite andb_true_iff. rewrite (s_get_in s k v Hs). tauto.
Qed.

(* ---------------------------------------------------------------------------------------------- *)
(* the machine: generic facts *)
Section Gen.
  Variable St : Type.
  Variable ap : St -> wop -> St.

  Lemma step_nb (s : mstate St) op :
    st_nb (m_step ap s op) = (st_nb s + (match op with NewBatch => 1 | _ => 0 end))%nat.
  Proof.
    destruct op; cbn [m_step st_nb]; try lia; destruct (st_bat s b); cbn [st_nb]; lia.
  Qed.

  Lemma run_nb ops : forall s : mstate St,
    st_nb (fold_left (m_step ap) ops s) = (st_nb s + count_new ops)%nat.
  Proof.
    induction ops as [|op ops IH]; intros s; cbn [fold_left].
    - unfold count_new. cbn. lia.
    - rewrite IH, step_nb. unfold count_new. cbn [filter]. destruct op; cbn [length]; lia.
  Qed.

  Lemma upd_same f b x : upd f b x b = x.
  Proof. unfold upd. rewrite Nat.eqb_refl. reflexivity. Qed.

  Lemma upd_other f b x i : i <> b -> upd f b x i = f i.
  Proof. intros H. unfold upd. destruct (Nat.eqb_spec i b); [contradiction|reflexivity]. Qed.

  (* a live batch keeps buffering exactly the writes addressed to it while it is neither committed nor closed *)
  Lemma step_live (s : mstate St) op b ws :
    st_bat s b = BLive ws -> (b < st_nb s)%nat -> is_finish b op = false ->
    st_bat (m_step ap s op) b = BLive (ws ++ bwrite_of b op) /\ (b < st_nb (m_step ap s op))%nat.
  Proof.
    intros Hb Hn Hf. split; [|rewrite step_nb; lia].
    destruct op as [k v|k|k|k| |b0 k v|b0 k|b0|b0|p q]; cbn [m_step bwrite_of st_bat is_finish] in *;
      try (rewrite app_nil_r; exact Hb).
    - rewrite upd_other by lia. rewrite app_nil_r. exact Hb.
    - destruct (Nat.eqb_spec b0 b) as [->|NE].
      + rewrite Hb. cbn [st_bat]. apply upd_same.
      + rewrite app_nil_r. destruct (st_bat s b0); cbn [st_bat]; try exact Hb.
        rewrite upd_other by congruence. exact Hb.
    - destruct (Nat.eqb_spec b0 b) as [->|NE].
      + rewrite Hb. cbn [st_bat]. apply upd_same.
      + rewrite app_nil_r. destruct (st_bat s b0); cbn [st_bat]; try exact Hb.
        rewrite upd_other by congruence. exact Hb.
    - apply Nat.eqb_neq in Hf. rewrite app_nil_r. destruct (st_bat s b0); cbn [st_bat]; try exact Hb.
      rewrite upd_other by congruence. exact Hb.
    - apply Nat.eqb_neq in Hf. rewrite app_nil_r. destruct (st_bat s b0); cbn [st_bat]; try exact Hb;
        rewrite upd_other by congruence; exact Hb.
  Qed.

  Lemma run_live post : forall (s : mstate St) b ws,
    st_bat s b = BLive ws -> (b < st_nb s)%nat -> (forall op, In op post -> is_finish b op = false) ->
    st_bat (fold_left (m_step ap) post s) b = BLive (ws ++ bwrites b post).
  Proof.
    induction post as [|op post IH]; intros s b ws Hb Hn Hf; cbn [fold_left].
    - unfold bwrites. cbn. rewrite app_nil_r. exact Hb.
    - destruct (step_live s op b ws Hb Hn (Hf op (or_introl eq_refl))) as [Hb' Hn'].
      rewrite (IH _ b _ Hb' Hn') by (intros o Ho; apply Hf; right; exact Ho).
      unfold bwrites. cbn [flat_map]. rewrite app_assoc. reflexivity.
  Qed.

  (* committing a batch that was created after [pre] and neither committed nor closed in [post]
     applies exactly the writes addressed to it in [post], in order *)
  Lemma commit_generic s0 pre post b :
    count_new pre = b -> (forall op, In op post -> is_finish b op = false) ->
    st_store (m_run ap s0 (pre ++ NewBatch :: post ++ [BCommit b])) =
    fold_left ap (bwrites b post) (st_store (m_run ap s0 (pre ++ NewBatch :: post)))
    /\ st_bat (m_run ap s0 (pre ++ NewBatch :: post)) b = BLive (bwrites b post).
  Proof.
    intros Hc Hf. unfold m_run.
    replace (pre ++ NewBatch :: post ++ [BCommit b]) with ((pre ++ NewBatch :: post) ++ [BCommit b])
      by (rewrite <- app_assoc; reflexivity).
    rewrite (fold_left_app _ (pre ++ NewBatch :: post)). cbn [fold_left].
    assert (HL : st_bat (fold_left (m_step ap) (pre ++ NewBatch :: post) (m_init s0)) b = BLive (bwrites b post)).
    { rewrite fold_left_app. cbn [fold_left].
      set (sp := fold_left (m_step ap) pre (m_init s0)).
      assert (Hnb : st_nb sp = b).
      { unfold sp. rewrite run_nb. cbn [m_init st_nb]. lia. }
      change (BLive (bwrites b post)) with (BLive ([] ++ bwrites b post)).
      apply run_live; [| |exact Hf].
      - cbn [m_step st_bat]. rewrite Hnb. apply upd_same.
      - cbn [m_step st_nb]. lia. }
    split; [|exact HL].
    cbn [m_step]. rewrite HL. cbn [st_store]. reflexivity.
  Qed.
End Gen.

(* simulation between two store representations driven by the same history *)
Section Sim.
  Variables (S1 S2 : Type) (ap1 : S1 -> wop -> S1) (ap2 : S2 -> wop -> S2) (R : S1 -> S2 -> Prop).
  Hypothesis ap_R : forall a b w, R a b -> R (ap1 a w) (ap2 b w).

  Definition msim (s1 : mstate S1) (s2 : mstate S2) : Prop :=
    R (st_store s1) (st_store s2) /\ (forall i, st_bat s1 i = st_bat s2 i) /\ st_nb s1 = st_nb s2.

  Lemma fold_R ws : forall a b, R a b -> R (fold_left ap1 ws a) (fold_left ap2 ws b).
  Proof. induction ws as [|w ws IH]; intros a b H; cbn [fold_left]; [exact H|]. apply IH, ap_R, H. Qed.

  Lemma upd_ext f g b x : (forall i, f i = g i) -> forall i, upd f b x i = upd g b x i.
  Proof. intros H i. unfold upd. destruct (Nat.eqb i b); [reflexivity|apply H]. Qed.

  Lemma step_sim s1 s2 op : msim s1 s2 -> msim (m_step ap1 s1 op) (m_step ap2 s2 op).
  Proof.
    intros (HR & HB & HN).
    destruct op as [k v|k|k|k| |b0 k v|b0 k|b0|b0|p q]; cbn [m_step];
      try (rewrite <- (HB b0); destruct (st_bat s1 b0));
      unfold msim; cbn [st_store st_bat st_nb];
      repeat split; auto using upd_ext, fold_R.
    rewrite HN. apply upd_ext, HB.
  Qed.

  Lemma run_sim ops : forall s1 s2, msim s1 s2 ->
    msim (fold_left (m_step ap1) ops s1) (fold_left (m_step ap2) ops s2).
  Proof. induction ops as [|op ops IH]; intros s1 s2 H; cbn [fold_left]; [exact H|]. apply IH, step_sim, H. Qed.
End Sim.

(* ---------------------------------------------------------------------------------------------- *)
(* refinement: the sorted list represents the function map of the committed write log *)
Lemma amap_of_snoc l w : forall x, amap_of (l ++ [w]) x = a_apply (amap_of l) w x.
Proof. intros x. unfold amap_of. rewrite fold_left_app. reflexivity. Qed.

Definition repr (s : store) (l : list wop) : Prop :=
  sorted s /\ forall k, s_get s k = amap_of l k.

Lemma repr_apply s l w : repr s l -> repr (s_apply s w) (log_apply l w).
Proof.
  intros [Hs Hg]. split; [apply s_apply_sorted; exact Hs|].
  intros x. unfold log_apply. rewrite amap_of_snoc. destruct w as [k v|k]; cbn [s_apply a_apply].
  - rewrite s_get_put, Hg. reflexivity.
  - rewrite s_get_del by exact Hs. rewrite Hg. reflexivity.
Qed.

Lemma repr_run ops : msim store (list wop) repr (kv_state ops) (m_run log_apply [] ops).
Proof.
  unfold kv_state, m_run. apply run_sim; [exact repr_apply|].
  unfold msim, m_init; cbn [st_store st_bat st_nb]. repeat split; auto using sorted_nil.
Qed.

Lemma amap_of_last_write ws k : amap_of ws k = last_write k ws.
Proof.
  induction ws as [|w ws IH] using rev_ind; [reflexivity|].
  rewrite amap_of_snoc. unfold last_write. rewrite rev_unit. cbn [find].
  destruct w as [k' v|k']; cbn [a_apply wkey wval]; destruct (bytes_eqb k k'); try reflexivity;
    rewrite IH; reflexivity.
Qed.

Lemma kv_refines_map ops k :
  s_get (store_of ops) k = amap_of (committed ops) k /\ amap_of (committed ops) k = last_write k (committed ops).
Proof.
  split; [|apply amap_of_last_write].
  destruct (repr_run ops) as ([_ Hg] & _ & _). apply Hg.
Qed.

Lemma store_sorted ops : sorted (store_of ops).
Proof. destruct (repr_run ops) as ([Hs _] & _ & _). exact Hs. Qed.

Lemma store_inv ops :
  StronglySorted bytes_lt (map fst (store_of ops)) /\ NoDup (map fst (store_of ops)).
Proof. split; [apply sorted_keys|apply sorted_nodup]; apply store_sorted. Qed.

Lemma step_sorted (s : kstate) op : sorted (st_store s) -> sorted (st_store (kv_step_state s op)).
Proof.
  intros Hs. unfold kv_step_state.
  destruct op as [k v|k|k|k| |b0 k v|b0 k|b0|b0|p q]; cbn [m_step st_store];
    try exact Hs; try (apply (s_apply_sorted _ (WPut k v)); exact Hs); try (apply (s_apply_sorted _ (WDel k)); exact Hs);
    destruct (st_bat s b0); cbn [st_store]; try exact Hs.
  apply s_apply_all_sorted; exact Hs.
Qed.

(* ---------------------------------------------------------------------------------------------- *)
(* outputs of a history: results of earlier operations do not depend on later ones *)
Lemma kv_run_from_app s a b :
  kv_run_from s (a ++ b) = kv_run_from s a ++ kv_run_from (fold_left kv_step_state a s) b.
Proof.
  revert s; induction a as [|op a IH]; intros s; cbn [app kv_run_from fold_left]; [reflexivity|].
  rewrite IH. reflexivity.
Qed.

Lemma kv_run_from_length s ops : length (kv_run_from s ops) = length ops.
Proof. revert s; induction ops as [|op ops IH]; intros s; cbn [kv_run_from length]; [reflexivity|]. rewrite IH; reflexivity. Qed.

Lemma kv_run_app a b : kv_run (a ++ b) = kv_run a ++ kv_run_from (kv_state a) b.
Proof. unfold kv_run. rewrite kv_run_from_app. reflexivity. Qed.

Lemma kv_run_nth pre op post :
  nth (length pre) (kv_run (pre ++ op :: post)) OBad = kv_out (kv_state pre) op.
Proof.
  rewrite kv_run_app. rewrite app_nth2; unfold kv_run; rewrite kv_run_from_length; [|lia].
  rewrite Nat.sub_diag. reflexivity.
Qed.

Lemma get_latest pre post k :
  nth (length pre) (kv_run (pre ++ Get k :: post)) OBad = OVal (last_write k (committed pre)).
Proof.
  rewrite kv_run_nth. cbn [kv_out]. f_equal.
  destruct (kv_refines_map pre k) as [E1 E2]. unfold store_of in E1. rewrite E1, E2. reflexivity.
Qed.

Lemma has_latest pre post k :
  nth (length pre) (kv_run (pre ++ Has k :: post)) OBad =
  OBool (match last_write k (committed pre) with Some _ => true | None => false end).
Proof.
  rewrite kv_run_nth. cbn [kv_out]. f_equal. unfold s_has.
  destruct (kv_refines_map pre k) as [E1 E2]. unfold store_of in E1. rewrite E1, E2. reflexivity.
Qed.

Lemma iter_spec pre post p st :
  exists l, nth (length pre) (kv_run (pre ++ Iter p st :: post)) OBad = OList l
    /\ (forall k v, In (k, v) l <->
          (last_write k (committed pre) = Some v /\ is_prefix p k = true /\ bytes_leb (p ++ st) k = true))
    /\ StronglySorted bytes_lt (map fst l)
    /\ NoDup (map fst l).
Proof.
  exists (s_iter (store_of pre) p st). split; [rewrite kv_run_nth; reflexivity|].
  destruct (s_iter_spec (store_of pre) p st (store_sorted pre)) as [Hin Hso].
  split; [|split; [apply sorted_keys|apply sorted_nodup]; exact Hso].
  intros k v. rewrite Hin. destruct (kv_refines_map pre k) as [E1 E2]. rewrite E1, E2. tauto.
Qed.

(* two lists with the same membership, both strictly ascending, are equal: the iterator result is unique *)
Lemma lt_sorted_unique (l1 l2 : list bytes) :
  StronglySorted bytes_lt l1 -> StronglySorted bytes_lt l2 -> (forall x, In x l1 <-> In x l2) -> l1 = l2.
Proof.
  revert l2; induction l1 as [|a l1 IH]; intros l2 H1 H2 Hiff.
  - destruct l2 as [|b l2]; [reflexivity|]. exfalso. apply (Hiff b). left; reflexivity.
  - destruct l2 as [|b l2]; [exfalso; apply (Hiff a); left; reflexivity|].
    inversion H1 as [|? ? S1 F1]; inversion H2 as [|? ? S2 F2]; subst.
    rewrite Forall_forall in F1, F2.
    assert (a = b).
    { destruct (proj1 (Hiff a) (or_introl eq_refl)) as [E|Hin]; [symmetry; exact E|].
      destruct (proj2 (Hiff b) (or_introl eq_refl)) as [E|Hin']; [exact E|].
      specialize (F2 _ Hin). specialize (F1 _ Hin'). unfold bytes_lt in *.
      rewrite (kv_ltb_asym _ _ F1) in F2. discriminate. }
    subst b. f_equal. apply IH; [exact S1|exact S2|].
    intros x. split; intros Hx.
    + destruct (proj1 (Hiff x) (or_intror Hx)) as [E|Hin]; [|exact Hin].
      subst x. specialize (F1 _ Hx). unfold bytes_lt in F1. rewrite kv_ltb_irrefl in F1. discriminate.
    + destruct (proj2 (Hiff x) (or_intror Hx)) as [E|Hin]; [|exact Hin].
      subst x. specialize (F2 _ Hx). unfold bytes_lt in F2. rewrite kv_ltb_irrefl in F2. discriminate.
Qed.

(* ---------------------------------------------------------------------------------------------- *)
(* what [committed] is: direct writes append themselves, reads and buffering append nothing, a commit
   appends the buffered writes of the batch in order *)
Lemma committed_snoc ops op :
  committed (ops ++ [op]) = st_store (m_step log_apply (m_run log_apply [] ops) op).
Proof. unfold committed, m_run. rewrite fold_left_app. reflexivity. Qed.

Lemma committed_put ops k v : committed (ops ++ [Put k v]) = committed ops ++ [WPut k v].
Proof. rewrite committed_snoc. reflexivity. Qed.

Lemma committed_del ops k : committed (ops ++ [Del k]) = committed ops ++ [WDel k].
Proof. rewrite committed_snoc. reflexivity. Qed.

Lemma committed_other ops op :
  match op with Put _ _ | Del _ | BCommit _ => False | _ => True end ->
  committed (ops ++ [op]) = committed ops.
Proof.
  intros H. rewrite committed_snoc. unfold committed.
  destruct op as [k v|k|k|k| |b0 k v|b0 k|b0|b0|p q]; try contradiction; cbn [m_step st_store]; try reflexivity;
    destruct (st_bat (m_run log_apply [] ops) b0); reflexivity.
Qed.

Lemma fold_log ws : forall l, fold_left log_apply ws l = l ++ ws.
Proof.
  induction ws as [|w ws IH]; intros l; cbn [fold_left]; [rewrite app_nil_r; reflexivity|].
  rewrite IH. unfold log_apply. rewrite <- app_assoc. reflexivity.
Qed.

Lemma batch_commit_in_order pre post b :
  count_new pre = b -> (forall op, In op post -> is_finish b op = false) ->
  store_of (pre ++ NewBatch :: post ++ [BCommit b]) =
    fold_left s_apply (bwrites b post) (store_of (pre ++ NewBatch :: post))
  /\ committed (pre ++ NewBatch :: post ++ [BCommit b]) =
    committed (pre ++ NewBatch :: post) ++ bwrites b post.
Proof.
  intros Hc Hf. split.
  - unfold store_of, kv_state. apply (commit_generic store s_apply [] pre post b Hc Hf).
  - unfold committed. rewrite (proj1 (commit_generic (list wop) log_apply [] pre post b Hc Hf)).
    apply fold_log.
Qed.

(* ---------------------------------------------------------------------------------------------- *)
(* a batch that is never committed is invisible: deleting all writes addressed to it from the history
   changes no result of any other operation and not the final store *)
Definition blike (x y : bstate) : Prop :=
  match x, y with
  | BLive _, BLive _ => True
  | BNone, BNone => True
  | BClosed, BClosed => True
  | _, _ => False
  end.

Definition brel (b : nat) (s s' : kstate) : Prop :=
  st_store s = st_store s' /\ st_nb s = st_nb s' /\
  (forall i, i <> b -> st_bat s i = st_bat s' i) /\ blike (st_bat s b) (st_bat s' b).

Lemma brel_bwrite b s s' op : is_bwrite b op = true -> brel b s s' -> brel b (kv_step_state s op) s'.
Proof.
  intros W (HS & HN & HO & HL). unfold kv_step_state.
  destruct op as [k v|k|k|k| |b0 k v|b0 k|b0|b0|p q]; cbn [is_bwrite] in W; try discriminate;
    apply Nat.eqb_eq in W; subst b0; cbn [m_step];
    destruct (st_bat s b) eqn:Eb; unfold brel; cbn [st_store st_bat st_nb]; rewrite ?Eb; repeat split; auto;
    try (intros i Hi; rewrite upd_other by exact Hi; apply HO; exact Hi);
    rewrite upd_same; destruct (st_bat s' b); exact HL.
Qed.

Lemma brel_other b s s' op : is_bwrite b op = false -> is_commit b op = false -> brel b s s' ->
  kv_out s op = kv_out s' op /\ brel b (kv_step_state s op) (kv_step_state s' op).
Proof.
  intros W C (HS & HN & HO & HL). unfold kv_step_state.
  destruct s as [st bat nb], s' as [st' bat' nb']. cbn [st_store st_bat st_nb] in *. subst st' nb'.
  assert (Hext : forall b0 x i, i <> b -> upd bat b0 x i = upd bat' b0 x i).
  { intros b0 x i Hi. unfold upd. destruct (Nat.eqb i b0); [reflexivity|apply HO; exact Hi]. }
  destruct op as [k v|k|k|k| |b0 k v|b0 k|b0|b0|p q]; cbn [is_bwrite is_commit] in W, C;
    cbn [kv_out m_step st_store st_bat st_nb].
  - split; [reflexivity|]. unfold brel; cbn [st_store st_bat st_nb]; repeat split; auto.
  - split; [reflexivity|]. unfold brel; cbn [st_store st_bat st_nb]; repeat split; auto.
  - split; [reflexivity|]. unfold brel; cbn [st_store st_bat st_nb]; repeat split; auto.
  - split; [reflexivity|]. unfold brel; cbn [st_store st_bat st_nb]; repeat split; auto.
  - split; [reflexivity|]. unfold brel; cbn [st_store st_bat st_nb]; repeat split; auto.
    unfold upd. destruct (Nat.eqb b nb); [exact I|exact HL].
  - apply Nat.eqb_neq in W. rewrite <- (HO b0 W). destruct (bat b0) eqn:E0;
      (split; [reflexivity|]); unfold brel; cbn [st_store st_bat st_nb]; repeat split; auto.
    rewrite !upd_other by congruence. exact HL.
  - apply Nat.eqb_neq in W. rewrite <- (HO b0 W). destruct (bat b0) eqn:E0;
      (split; [reflexivity|]); unfold brel; cbn [st_store st_bat st_nb]; repeat split; auto.
    rewrite !upd_other by congruence. exact HL.
  - apply Nat.eqb_neq in C. rewrite <- (HO b0 C). destruct (bat b0) eqn:E0;
      (split; [reflexivity|]); unfold brel; cbn [st_store st_bat st_nb]; repeat split; auto.
    rewrite !upd_other by congruence. exact HL.
  - destruct (Nat.eq_dec b0 b) as [->|NE].
    + destruct (bat b) eqn:E1, (bat' b) eqn:E2; cbn [blike] in HL; try contradiction;
        (split; [reflexivity|]); unfold brel; cbn [st_store st_bat st_nb]; repeat split; auto;
        rewrite ?E1, ?E2, ?upd_same; exact I.
    + rewrite <- (HO b0 NE). destruct (bat b0) eqn:E0;
        (split; [reflexivity|]); unfold brel; cbn [st_store st_bat st_nb]; repeat split; auto;
        rewrite !upd_other by congruence; exact HL.
  - split; [reflexivity|]. unfold brel; cbn [st_store st_bat st_nb]; repeat split; auto.
Qed.

Definition obs_from (s : kstate) (ops : list kop) : list (kop * kout) := combine ops (kv_run_from s ops).
Definition obs (ops : list kop) : list (kop * kout) := combine ops (kv_run ops).
Definition not_bwrite (b : nat) (op : kop) : bool := negb (is_bwrite b op).

Lemma uncommitted_from b ops : forall s s', brel b s s' ->
  (forall op, In op ops -> is_commit b op = false) ->
  filter (fun p => not_bwrite b (fst p)) (obs_from s ops) = obs_from s' (filter (not_bwrite b) ops)
  /\ brel b (fold_left kv_step_state ops s) (fold_left kv_step_state (filter (not_bwrite b) ops) s').
Proof.
  induction ops as [|op ops IH]; intros s s' HR HC.
  - split; [reflexivity|exact HR].
  - assert (NB : not_bwrite b op = negb (is_bwrite b op)) by reflexivity.
    unfold obs_from in *. cbn [kv_run_from combine filter fold_left fst].
    destruct (is_bwrite b op) eqn:W; cbn [negb] in NB; rewrite NB.
    + apply IH; [apply brel_bwrite; assumption|]. intros o Ho. apply HC. right; exact Ho.
    + destruct (brel_other b s s' op W (HC op (or_introl eq_refl)) HR) as [Eo HR'].
      cbn [kv_run_from combine fold_left]. rewrite Eo.
      destruct (IH _ _ HR' (fun o Ho => HC o (or_intror Ho))) as [E1 E2].
      split; [|exact E2]. f_equal. exact E1.
Qed.

Lemma brel_refl b s : st_bat s b <> BDone -> brel b s s.
Proof.
  intros H. unfold brel. repeat split; auto. destruct (st_bat s b); cbn; auto.
Qed.

Lemma batch_uncommitted_invisible b ops :
  (forall op, In op ops -> is_commit b op = false) ->
  filter (fun p => not_bwrite b (fst p)) (obs ops) = obs (filter (not_bwrite b) ops)
  /\ store_of ops = store_of (filter (not_bwrite b) ops).
Proof.
  intros HC.
  destruct (uncommitted_from b ops kv_init kv_init) as [E (HS & _)]; [|exact HC|].
  - apply brel_refl. cbn. discriminate.
  - split; [exact E|exact HS].
Qed.
