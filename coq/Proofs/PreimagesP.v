(* C31 — proofs about Model/Preimages.v *)
From JamV Require Import Base.Bytes Proofs.BytesP Model.Preimages.
From Coq Require Import Sorted.
Local Open Scope N_scope.

(* ------------------------------------------------------------------ association lists *)
Section ALP.
  Context {K V : Type}.
  Variable eqb : K -> K -> bool.
  Hypothesis eqb_eq : forall x y, eqb x y = true <-> x = y.

  Lemma eqb_refl' x : eqb x x = true.
  Proof. now apply eqb_eq. Qed.
  Lemma eqb_neq x y : x <> y -> eqb x y = false.
  Proof. intros Hn. destruct (eqb x y) eqn:E; [apply eqb_eq in E; contradiction | reflexivity]. Qed.

  Lemma pm_get_set_same k (v : V) l : pm_get eqb k (pm_set eqb k v l) = Some v.
  Proof.
    induction l as [|[k' v'] t IH]; cbn.
    - now rewrite eqb_refl'.
    - destruct (eqb k k') eqn:E; cbn; [now rewrite eqb_refl' | now rewrite E].
  Qed.
  Lemma pm_get_set_other k k' (v : V) l : k <> k' -> pm_get eqb k' (pm_set eqb k v l) = pm_get eqb k' l.
  Proof.
    intros Hn. induction l as [|[k2 v2] t IH]; cbn.
    - rewrite eqb_neq; auto.
    - destruct (eqb k k2) eqn:E; cbn.
      + apply eqb_eq in E; subst k2. rewrite eqb_neq; auto.
      + now rewrite IH.
  Qed.
  Lemma pm_get_del_other k k' (l : list (K * V)) : k <> k' -> pm_get eqb k' (pm_del eqb k l) = pm_get eqb k' l.
  Proof.
    intros Hn. induction l as [|[k2 v2] t IH]; cbn; [reflexivity|].
    destruct (eqb k k2) eqn:E; cbn.
    - apply eqb_eq in E; subst k2. rewrite eqb_neq; auto.
    - now rewrite IH.
  Qed.
End ALP.

Lemma lk_eqb_eq a b : lk_eqb a b = true <-> a = b.
Proof.
  unfold lk_eqb. destruct a as [h1 l1], b as [h2 l2]; cbn. rewrite andb_true_iff, bytes_eqb_eq, N.eqb_eq.
  split; [intros [-> ->]; reflexivity | intros E; inversion E; auto].
Qed.
Lemma Neqb_eq x y : N.eqb x y = true <-> x = y.
Proof. apply N.eqb_eq. Qed.

(* ------------------------------------------------------------------ I(l,t) *)
Definition I_spec (l : list N) (t : N) : Prop :=
  match l with
  | [] => False
  | [x] => x <= t
  | [x; y] => x <= t /\ t < y
  | [x; y; z] => (x <= t /\ t < y) \/ z <= t
  | _ => False
  end.

Lemma valid_time_spec l t : valid_time l t = true <-> I_spec l t.
Proof.
  destruct l as [|x [|y [|z [|w r]]]]; cbn [valid_time I_spec].
  - split; [discriminate | tauto].
  - apply N.leb_le.
  - rewrite andb_true_iff, N.leb_le, N.ltb_lt. tauto.
  - rewrite orb_true_iff, andb_true_iff, !N.leb_le, N.ltb_lt. tauto.
  - split; [discriminate | tauto].
Qed.

Lemma valid_time_long l t : (3 < length l)%nat -> valid_time l t = false.
Proof. destruct l as [|x [|y [|z [|w r]]]]; cbn; intros; try lia; reflexivity. Qed.

Lemma valid_time_intervals l t :
  valid_time l t = true <-> (length l <= 3)%nat /\ exists iv, In iv (intervals l) /\ in_interval t iv.
Proof.
  rewrite valid_time_spec. unfold in_interval.
  destruct l as [|x [|y [|z [|w r]]]]; cbn [I_spec intervals length In].
  - split; [tauto | intros [_ [iv [[] _]]]].
  - split.
    + intros Hx. split; [lia|]. exists (x, None). cbn. tauto.
    + intros [_ [iv [[<-|[]] [Hx _]]]]. exact Hx.
  - split.
    + intros Hx. split; [lia|]. exists (x, Some y). cbn. tauto.
    + intros [_ [iv [[<-|[]] Hx]]]. exact Hx.
  - split.
    + intros [Hx|Hz]; (split; [lia|]); [exists (x, Some y) | exists (z, None)]; cbn; tauto.
    + intros [_ [iv [[<-|[<-|[]]] Hx]]]; cbn in Hx; tauto.
  - split; [tauto | intros [Hl _]; lia].
Qed.

(* ------------------------------------------------------------------ historical lookup *)
Lemma lookup_iff a t h b :
  hist_lookup a t h = Some b <->
  get_p h a = Some b /\ exists l, get_l (h, blen b) a = Some l /\ valid_time l t = true.
Proof.
  unfold hist_lookup. destruct (get_p h a) as [b0|] eqn:Ep.
  - destruct (get_l (h, blen b0) a) as [l|] eqn:El.
    + destruct (valid_time l t) eqn:Ev.
      * split.
        -- intros E; inversion E; subst. split; auto. exists l. rewrite El. auto.
        -- intros [E _]. exact E.
      * split; [discriminate|]. intros [E [l' [E1 E2]]]. inversion E; subst.
        rewrite El in E1. inversion E1; subst. congruence.
    + cbn. split; [discriminate|]. intros [E [l' [E1 _]]]. inversion E; subst. congruence.
  - split; [discriminate | intros [E _]; discriminate].
Qed.

Lemma lookup_none_iff a t h :
  hist_lookup a t h = None <->
  ~ exists b, get_p h a = Some b /\ exists l, get_l (h, blen b) a = Some l /\ valid_time l t = true.
Proof.
  split.
  - intros E [b Hb]. apply lookup_iff in Hb. congruence.
  - intros Hn. destruct (hist_lookup a t h) as [b|] eqn:E; [|reflexivity].
    exfalso. apply Hn. exists b. now apply lookup_iff.
Qed.

(* the value returned is always the stored one, never another *)
Lemma lookup_returns_stored a t h b : hist_lookup a t h = Some b -> get_p h a = Some b.
Proof. intros E. now apply lookup_iff in E. Qed.

(* ------------------------------------------------------------------ order on extrinsic entries *)
Lemma bltb_irrefl a : bytes_ltb a a = false.
Proof. induction a as [|x a IH]; cbn; [reflexivity|]. rewrite N.ltb_irrefl, N.eqb_refl, IH. reflexivity. Qed.
Lemma bltb_trans a : forall b c, bytes_ltb a b = true -> bytes_ltb b c = true -> bytes_ltb a c = true.
Proof.
  induction a as [|x a IH]; intros [|y b] [|z c]; cbn; try discriminate; auto.
  rewrite !orb_true_iff, !andb_true_iff, !N.ltb_lt, !N.eqb_eq.
  intros [H1|[-> H1]] [H2|[-> H2]]; try (left; lia); try (left; assumption).
  right. split; [reflexivity|]. eapply IH; eauto.
Qed.

Definition pre_lt (a b : pre) : Prop :=
  fst a < fst b \/ (fst a = fst b /\ bytes_ltb (snd a) (snd b) = true).
Lemma pre_ltb_iff a b : pre_ltb a b = true <-> pre_lt a b.
Proof. unfold pre_ltb, pre_lt. rewrite orb_true_iff, andb_true_iff, N.ltb_lt, N.eqb_eq. tauto. Qed.
Lemma pre_lt_trans a b c : pre_lt a b -> pre_lt b c -> pre_lt a c.
Proof.
  unfold pre_lt. intros [H1|[E1 H1]] [H2|[E2 H2]]; try (left; lia).
  right. split; [congruence|]. eapply bltb_trans; eauto.
Qed.
Lemma pre_lt_irrefl a : ~ pre_lt a a.
Proof. unfold pre_lt. intros [Hl|[_ Hl]]; [lia | rewrite bltb_irrefl in Hl; discriminate]. Qed.

Lemma sorted_strictb_iff eps : sorted_strictb eps = true <-> StronglySorted pre_lt eps.
Proof.
  induction eps as [|x t IH].
  - split; [constructor | reflexivity].
  - destruct t as [|y t'].
    + split; [intros _; repeat constructor | reflexivity].
    + change (sorted_strictb (x :: y :: t')) with (pre_ltb x y && sorted_strictb (y :: t')).
      rewrite andb_true_iff, pre_ltb_iff, IH. split.
      * intros [Hxy Hs]. constructor; [exact Hs|].
        constructor; [exact Hxy|]. inversion Hs as [|? ? _ Hall]; subst.
        eapply Forall_impl; [|exact Hall]. intros z Hz. eapply pre_lt_trans; eauto.
      * intros Hs. inversion Hs as [|? ? Hs' Hall]; subst. split; [|exact Hs'].
        inversion Hall; assumption.
Qed.

(* strictly ordered implies pairwise distinct: a duplicated entry is always rejected *)
Lemma sorted_strict_NoDup eps : StronglySorted pre_lt eps -> NoDup eps.
Proof.
  induction 1 as [|x t Hs IH Hall]; constructor; [|exact IH].
  intros Hin. rewrite Forall_forall in Hall. apply (pre_lt_irrefl x). now apply Hall.
Qed.

Section PreimagesP.
Variable H : bytes -> bytes.

(* ------------------------------------------------------------------ admission *)
(* what "solicited and not yet provided" means, spelled out *)
Lemma needed_spec_iff d kvs e :
  needed_spec H d kvs e = true <->
  exists a, get_acc (fst e) d = Some a /\ get_p (H (snd e)) a = None /\
    (get_l (key_of H e) a = Some []
     \/ (get_l (key_of H e) a = None /\ pm_get bytes_eqb (lookup_state_key H (fst e) (key_of H e)) kvs = Some [0])).
Proof.
  unfold needed_spec, record_empty, raw_solicited.
  destruct (get_acc (fst e) d) as [a|]; [|split; [discriminate | intros [a [E _]]; discriminate]].
  split.
  - intros Hn. exists a. split; [reflexivity|]. apply andb_true_iff in Hn as [H1 H2].
    destruct (get_p (H (snd e)) a); [discriminate|]. split; [reflexivity|].
    destruct (get_l (key_of H e) a) as [[|x ts]|]; [left; reflexivity | discriminate |].
    right. split; [reflexivity|].
    destruct (pm_get bytes_eqb _ kvs) as [v|]; [|discriminate]. apply bytes_eqb_eq in H1. now subst.
  - intros [a' [E [Hp Hl]]]. inversion E; subst a'. rewrite Hp. rewrite andb_true_r.
    destruct Hl as [-> | [-> ->]]; reflexivity.
Qed.

(* GP 9.6-style consistency of one account against the raw key-values: a stored preimage is keyed by its hash and its
   availability record (dictionary or raw) is not the empty record *)
Definition consistent (a : account) (kvs : rawkv) (s : N) : Prop :=
  forall h p, get_p h a = Some p -> h = H p /\ record_empty H a kvs s (h, blen p) = false.

Lemma needed_eq_spec d kvs e :
  (forall a, get_acc (fst e) d = Some a -> consistent a kvs (fst e)) ->
  needed H d kvs e = needed_spec H d kvs e \/ exists p, p <> snd e /\ H p = H (snd e).
Proof.
  intros Hc. unfold needed, needed_spec, record_empty.
  destruct (get_acc (fst e) d) as [a|] eqn:Ea; [|left; reflexivity].
  specialize (Hc a eq_refl).
  destruct (get_l (key_of H e) a) as [ts|] eqn:El; [left; apply andb_comm|].
  destruct (raw_solicited H kvs (fst e) (key_of H e)) eqn:Er; [|left; reflexivity].
  destruct (get_p (H (snd e)) a) as [p|] eqn:Ep; [|left; reflexivity].
  destruct (Hc _ _ Ep) as [Hh Hre].
  right. exists p. split; [|symmetry; exact Hh].
  intros ->. unfold record_empty in Hre. unfold key_of in El. rewrite El in Hre.
  unfold key_of in Er. congruence.
Qed.

Lemma admit_accepted_iff d kvs eps :
  admit_pre H d kvs eps = Accepted <->
  StronglySorted pre_lt eps /\ Forall (fun e => needed H d kvs e = true) eps.
Proof.
  unfold admit_pre. rewrite <- sorted_strictb_iff, Forall_forall, <- forallb_forall.
  destruct (sorted_strictb eps); destruct (forallb (needed H d kvs) eps); split;
    try discriminate; try tauto; intros [? ?]; discriminate.
Qed.

Lemma admit_iff d kvs eps :
  (forall s a, get_acc s d = Some a -> consistent a kvs s) ->
  (admit_pre H d kvs eps = Accepted <->
   StronglySorted pre_lt eps /\ Forall (fun e => needed_spec H d kvs e = true) eps)
  \/ exists e p, In e eps /\ p <> snd e /\ H p = H (snd e).
Proof.
  intros Hc.
  assert (Hall : (forall e, In e eps -> needed H d kvs e = needed_spec H d kvs e)
                 \/ exists e p, In e eps /\ p <> snd e /\ H p = H (snd e)).
  { clear - Hc. induction eps as [|x t IH].
    - left. intros e [].
    - destruct IH as [IH|[e [p [Hi Hp]]]]; [|right; exists e, p; split; [right; exact Hi | exact Hp]].
      destruct (needed_eq_spec d kvs x (fun a => Hc (fst x) a)) as [E|[p Hp]].
      + left. intros e [<-|Hi]; auto.
      + right. exists x, p. split; [left; reflexivity | exact Hp]. }
  destruct Hall as [Hall|Hcol]; [left | right; exact Hcol].
  rewrite admit_accepted_iff, !Forall_forall. split; intros [Hs Hf]; (split; [exact Hs|]); intros e Hi.
  - rewrite <- Hall; auto.
  - rewrite Hall; auto.
Qed.

Lemma admit_unsorted_iff d kvs eps : admit_pre H d kvs eps = NotSortedUnique <-> ~ StronglySorted pre_lt eps.
Proof.
  unfold admit_pre. rewrite <- sorted_strictb_iff.
  destruct (sorted_strictb eps); destruct (forallb (needed H d kvs) eps); split; try discriminate; try tauto;
    intros Hn; exfalso; apply Hn; reflexivity.
Qed.

(* ------------------------------------------------------------------ integration *)
Lemma get_acc_upd_same s f d a : get_acc s d = Some a -> get_acc s (upd_acc s f d) = Some (f a).
Proof. unfold upd_acc, get_acc. intros E. rewrite E. apply pm_get_set_same, Neqb_eq. Qed.
Lemma get_acc_upd_other s s' f d : s <> s' -> get_acc s' (upd_acc s f d) = get_acc s' d.
Proof.
  unfold upd_acc, get_acc. intros Hn. destruct (pm_get N.eqb s d); [|reflexivity].
  apply pm_get_set_other; [apply Neqb_eq | exact Hn].
Qed.
Lemma get_acc_upd_none s s' f d : get_acc s' (upd_acc s f d) = None <-> get_acc s' d = None.
Proof.
  destruct (N.eq_dec s s') as [->|Hn].
  - destruct (get_acc s' d) as [a|] eqn:E.
    + rewrite (get_acc_upd_same _ f _ _ E). split; discriminate.
    + unfold upd_acc. rewrite E. now rewrite E.
  - now rewrite get_acc_upd_other.
Qed.

Lemma get_l_set_same k ts a : get_l k (set_l k ts a) = Some ts.
Proof. unfold get_l, set_l; cbn. apply pm_get_set_same, lk_eqb_eq. Qed.
Lemma get_l_set_other k k' ts a : k <> k' -> get_l k' (set_l k ts a) = get_l k' a.
Proof. unfold get_l, set_l; cbn. apply pm_get_set_other, lk_eqb_eq. Qed.
Lemma get_l_set_p k h b a : get_l k (set_p h b a) = get_l k a.
Proof. reflexivity. Qed.
Lemma get_p_set_l h k ts a : get_p h (set_l k ts a) = get_p h a.
Proof. reflexivity. Qed.
Lemma get_p_set_same h b a : get_p h (set_p h b a) = Some b.
Proof. unfold get_p, set_p; cbn. apply pm_get_set_same, bytes_eqb_eq. Qed.
Lemma get_p_set_other h h' b a : h <> h' -> get_p h' (set_p h b a) = get_p h' a.
Proof. unfold get_p, set_p; cbn. apply pm_get_set_other, bytes_eqb_eq. Qed.

Lemma lkey_eq_dec (a b : lkey) : {a = b} + {a <> b}.
Proof. destruct (lk_eqb a b) eqn:E; [left; now apply lk_eqb_eq | right; intros ->; rewrite (proj2 (lk_eqb_eq b b) eq_refl) in E; discriminate]. Qed.
Lemma bytes_eq_dec (a b : bytes) : {a = b} + {a <> b}.
Proof. destruct (bytes_eqb a b) eqn:E; [left; now apply bytes_eqb_eq | right; intros ->; rewrite (proj2 (bytes_eqb_eq b b) eq_refl) in E; discriminate]. Qed.

(* the state of one entry after integration: record = [tau] and the blob stored under its hash (or another blob of
   the list [L] with the same hash overwrote it: an explicit collision) *)
Definition stored (tau : N) (L : list pre) (e : pre) (d : delta) : Prop :=
  exists a, get_acc (fst e) d = Some a /\ get_l (key_of H e) a = Some [tau] /\
    (get_p (H (snd e)) a = Some (snd e) \/ exists e', In e' L /\ snd e' <> snd e /\ H (snd e') = H (snd e)).

Lemma store_one_establishes tau L e d a0 :
  get_acc (fst e) d = Some a0 -> stored tau L e (store_one H tau e d).
Proof.
  intros E. unfold stored, store_one. erewrite get_acc_upd_same by exact E.
  eexists. split; [reflexivity|]. split.
  - rewrite get_l_set_p. apply get_l_set_same.
  - left. apply get_p_set_same.
Qed.

Lemma store_one_preserves tau L e e' d :
  In e' L -> stored tau L e d -> stored tau L e (store_one H tau e' d).
Proof.
  intros Hin [a [Ea [El Ep]]]. unfold stored, store_one.
  destruct (N.eq_dec (fst e') (fst e)) as [Es|Hn].
  - rewrite Es. erewrite get_acc_upd_same by exact Ea. eexists. split; [reflexivity|]. split.
    + rewrite get_l_set_p. destruct (lkey_eq_dec (key_of H e') (key_of H e)) as [->|Hk].
      * apply get_l_set_same.
      * rewrite get_l_set_other by exact Hk. exact El.
    + destruct (bytes_eq_dec (H (snd e')) (H (snd e))) as [Eh|Hh].
      * rewrite Eh, get_p_set_same. destruct (bytes_eq_dec (snd e') (snd e)) as [->|Hb]; [left; reflexivity|].
        right. exists e'. auto.
      * rewrite get_p_set_other by exact Hh. rewrite get_p_set_l. exact Ep.
  - rewrite get_acc_upd_other by exact Hn. exists a. auto.
Qed.

Lemma update_pass_preserves tau L e kept : forall d,
  incl kept L -> stored tau L e d -> stored tau L e (update_pass H tau kept d).
Proof.
  induction kept as [|x t IH]; intros d Hi Hs; [exact Hs|]. cbn.
  apply IH; [intros z Hz; apply Hi; right; exact Hz|].
  apply store_one_preserves; [apply Hi; left; reflexivity | exact Hs].
Qed.

Lemma store_one_acc_none tau e s d : get_acc s (store_one H tau e d) = None <-> get_acc s d = None.
Proof. apply get_acc_upd_none. Qed.

Lemma update_sets_slot tau L kept : forall d e,
  incl kept L -> In e kept -> get_acc (fst e) d <> None -> stored tau L e (update_pass H tau kept d).
Proof.
  induction kept as [|x t IH]; intros d e Hi Hin0 Ha; [destruct Hin0|].
  destruct Hin0 as [<-|Hin].
  - cbn. apply update_pass_preserves; [intros z Hz; apply Hi; right; exact Hz|].
    destruct (get_acc (fst x) d) as [a0|] eqn:E; [|congruence].
    eapply store_one_establishes; eauto.
  - cbn. apply IH; [intros z Hz; apply Hi; right; exact Hz | exact Hin|].
    rewrite store_one_acc_none. exact Ha.
Qed.

(* the filter pass keeps a sub-list of entries whose accounts exist, and neither creates nor removes accounts *)
Lemma filter_pass_props eps : forall d kvs kept d1 kvs1,
  filter_pass H d kvs eps = (kept, d1, kvs1) ->
  (forall s, get_acc s d1 = None <-> get_acc s d = None) /\
  (forall e, In e kept -> In e eps /\ get_acc (fst e) d <> None).
Proof.
  induction eps as [|x t IH]; intros d kvs kept d1 kvs1; cbn.
  - intros E; inversion E; subst. split; [tauto | intros e []].
  - destruct (needed H d kvs x) eqn:En.
    + destruct (filter_pass H _ _ t) as [[k d2] kv2] eqn:Ef. intros E; inversion E; subst.
      destruct (IH _ _ _ _ _ Ef) as [IHa IHk]. split.
      * intros s. rewrite IHa. apply get_acc_upd_none.
      * intros e [<-|Hin].
        -- split; [left; reflexivity|]. unfold needed in En. destruct (get_acc (fst x) d); [discriminate|discriminate].
        -- destruct (IHk e Hin) as [Hi Ha]. split; [right; exact Hi|].
           intros Hn. apply Ha. apply get_acc_upd_none. exact Hn.
    + intros E. destruct (IH _ _ _ _ _ E) as [IHa IHk]. split; [exact IHa|].
      intros e Hin. destruct (IHk e Hin). split; [right|]; assumption.
Qed.

(* every entry that the filter keeps ends up stored with the slot as the start of its availability *)
Lemma integrate_sets_slot tau d kvs eps kept d1 kvs1 e :
  filter_pass H d kvs eps = (kept, d1, kvs1) -> In e kept ->
  stored tau eps e (fst (integrate H tau d kvs eps)).
Proof.
  intros Ef Hin. unfold integrate. rewrite Ef. cbn.
  destruct (filter_pass_props _ _ _ _ _ _ Ef) as [Ha Hk].
  apply update_sets_slot; [intros z Hz; apply (Hk z Hz) | exact Hin|].
  rewrite Ha. apply (Hk e Hin).
Qed.

(* ... hence it is available exactly from that slot on *)
Lemma stored_available tau L e d a t :
  stored tau L e d -> get_acc (fst e) d = Some a ->
  (hist_lookup a t (H (snd e)) = (if tau <=? t then Some (snd e) else None))
  \/ exists e', In e' L /\ snd e' <> snd e /\ H (snd e') = H (snd e).
Proof.
  intros [a' [Ea [El [Ep|Hc]]]] Ea2; [left | right; exact Hc].
  rewrite Ea in Ea2; inversion Ea2; subst a'.
  unfold hist_lookup. rewrite Ep. unfold key_of in El. rewrite El. reflexivity.
Qed.

(* ------------------------------------------------------------------ admitted => kept *)
(* no two distinct entries of the list share a lookup key or a raw state key *)
Definition no_clash (eps : list pre) : Prop :=
  forall e1 e2, In e1 eps -> In e2 eps -> e1 <> e2 ->
    (fst e1 <> fst e2 \/ key_of H e1 <> key_of H e2) /\
    lookup_state_key H (fst e1) (key_of H e1) <> lookup_state_key H (fst e2) (key_of H e2).

Lemma needed_after_other_gen d kvs kvs' x e :
  raw_solicited H kvs' (fst e) (key_of H e) = raw_solicited H kvs (fst e) (key_of H e) ->
  (fst x <> fst e \/ key_of H x <> key_of H e) ->
  needed H (upd_acc (fst x) (set_l (key_of H x) []) d) kvs' e = needed H d kvs e.
Proof.
  intros Hraw Hk. unfold needed.
  destruct (N.eq_dec (fst x) (fst e)) as [Es|Hn].
  - destruct (get_acc (fst e) d) as [a|] eqn:Ea.
    + rewrite Es. erewrite get_acc_upd_same by exact Ea.
      destruct Hk as [Hk|Hk]; [contradiction|].
      rewrite get_l_set_other by exact Hk. rewrite get_p_set_l, Hraw. reflexivity.
    + unfold upd_acc. rewrite Es, Ea. rewrite Ea. reflexivity.
  - rewrite get_acc_upd_other by exact Hn. rewrite Hraw. reflexivity.
Qed.

Lemma needed_after_other d kvs x e :
  (fst x <> fst e \/ key_of H x <> key_of H e) ->
  lookup_state_key H (fst x) (key_of H x) <> lookup_state_key H (fst e) (key_of H e) ->
  needed H (upd_acc (fst x) (set_l (key_of H x) []) d)
    (if needed_raw H d kvs x then pm_del bytes_eqb (lookup_state_key H (fst x) (key_of H x)) kvs else kvs) e
  = needed H d kvs e.
Proof.
  intros Hk Hsk. apply needed_after_other_gen; [|exact Hk].
  unfold raw_solicited. destruct (needed_raw H d kvs x); [|reflexivity].
  rewrite pm_get_del_other; [reflexivity | apply bytes_eqb_eq | exact Hsk].
Qed.

Lemma filter_keeps_all eps : forall d kvs,
  no_clash eps -> NoDup eps -> Forall (fun e => needed H d kvs e = true) eps ->
  fst (fst (filter_pass H d kvs eps)) = eps.
Proof.
  induction eps as [|x t IH]; intros d kvs Hc Hnd Hall; [reflexivity|].
  cbn [filter_pass]. inversion Hall as [|? ? Hx Ht]; subst. rewrite Hx.
  inversion Hnd as [|? ? Hnin Hnd']; subst.
  match goal with |- context [filter_pass H ?d' ?k' t] => specialize (IH d' k') end.
  destruct (filter_pass H _ _ t) as [[k d2] kv2]. cbn [fst snd] in *. f_equal. apply IH.
  - intros e1 e2 H1 H2. apply Hc; right; assumption.
  - exact Hnd'.
  - rewrite Forall_forall in *. intros e He.
    assert (Hne : x <> e) by (intros ->; contradiction).
    destruct (Hc x e (or_introl eq_refl) (or_intror He) Hne) as [Hk Hsk].
    exact (eq_trans (needed_after_other d kvs x e Hk Hsk) (Ht e He)).
Qed.

(* a block that was admitted against the state it is integrated into has every one of its preimages stored *)
Lemma admitted_all_stored tau d kvs eps e :
  admit_pre H d kvs eps = Accepted -> no_clash eps -> In e eps ->
  stored tau eps e (fst (integrate H tau d kvs eps)).
Proof.
  intros Ha Hc Hin. apply admit_accepted_iff in Ha as [Hs Hall].
  pose proof (filter_keeps_all eps d kvs Hc (sorted_strict_NoDup _ Hs) Hall) as Hk.
  destruct (filter_pass H d kvs eps) as [[kept d1] kvs1] eqn:Ef. cbn in Hk. subst kept.
  eapply integrate_sets_slot; eauto.
Qed.

(* ------------------------------------------------------------------ frame: what integration does not touch *)
Lemma store_one_frame_p tau e d s h :
  (fst e <> s \/ H (snd e) <> h) ->
  forall a, get_acc s d = Some a ->
  exists a', get_acc s (store_one H tau e d) = Some a' /\ get_p h a' = get_p h a.
Proof.
  intros Hd a Ea. unfold store_one. destruct (N.eq_dec (fst e) s) as [Es|Hn].
  - subst s. erewrite get_acc_upd_same by exact Ea. eexists; split; [reflexivity|].
    destruct Hd as [Hd|Hd]; [contradiction|]. rewrite get_p_set_other by exact Hd. apply get_p_set_l.
  - rewrite get_acc_upd_other by exact Hn. exists a; auto.
Qed.

Lemma update_pass_frame_p tau kept s h : forall d a,
  (forall e, In e kept -> fst e <> s \/ H (snd e) <> h) ->
  get_acc s d = Some a ->
  exists a', get_acc s (update_pass H tau kept d) = Some a' /\ get_p h a' = get_p h a.
Proof.
  induction kept as [|x t IH]; intros d a Hd Ea; [exists a; auto|]. cbn.
  destruct (store_one_frame_p tau x d s h (Hd x (or_introl eq_refl)) a Ea) as [a1 [E1 P1]].
  destruct (IH _ a1 (fun e He => Hd e (or_intror He)) E1) as [a2 [E2 P2]].
  exists a2. split; [exact E2 | congruence].
Qed.

Lemma filter_pass_frame_p eps : forall d kvs s h a,
  get_acc s d = Some a ->
  exists a', get_acc s (snd (fst (filter_pass H d kvs eps))) = Some a' /\ get_p h a' = get_p h a.
Proof.
  induction eps as [|x t IH]; intros d kvs s h a Ea; cbn [filter_pass]; [exists a; auto|].
  destruct (needed H d kvs x).
  - match goal with |- context [filter_pass H ?d' ?k' t] => specialize (IH d' k' s h) end.
    destruct (N.eq_dec (fst x) s) as [Es|Hn].
    + subst s. erewrite get_acc_upd_same in IH by exact Ea.
      destruct (IH _ eq_refl) as [a' [E1 P1]].
      destruct (filter_pass H _ _ t) as [[k d2] kv2]. cbn [fst snd] in *. exists a'. split; [exact E1|].
      rewrite P1. reflexivity.
    + rewrite get_acc_upd_other in IH by exact Hn.
      destruct (IH _ Ea) as [a' [E1 P1]].
      destruct (filter_pass H _ _ t) as [[k d2] kv2]. cbn [fst snd] in *. exists a'. auto.
  - apply IH. exact Ea.
Qed.

(* a stored preimage whose (service, hash) no entry of the extrinsic names is left exactly as it was *)
Lemma integrate_frame_p tau d kvs eps s h a :
  (forall e, In e eps -> fst e <> s \/ H (snd e) <> h) ->
  get_acc s d = Some a ->
  exists a', get_acc s (fst (integrate H tau d kvs eps)) = Some a' /\ get_p h a' = get_p h a.
Proof.
  intros Hd Ea. unfold integrate.
  destruct (filter_pass_frame_p eps d kvs s h a Ea) as [a1 [E1 P1]].
  destruct (filter_pass H d kvs eps) as [[kept d1] kvs1] eqn:Ef. cbn in *.
  destruct (filter_pass_props _ _ _ _ _ _ Ef) as [_ Hk].
  destruct (update_pass_frame_p tau kept s h d1 a1 (fun e He => Hd e (proj1 (Hk e He))) E1) as [a2 [E2 P2]].
  exists a2. split; [exact E2 | congruence].
Qed.

(* ------------------------------------------------------------------ Provide (accumulation, GP 12.18) *)
Lemma provide_one_stores tau d e a :
  get_acc (fst e) d = Some a -> get_l (key_of H e) a = Some [] ->
  stored tau [e] e (provide_one H tau d e).
Proof.
  intros Ea El. unfold provide_one. rewrite Ea, El. eapply store_one_establishes; eauto.
Qed.
Lemma provide_one_skips tau d e :
  (forall a, get_acc (fst e) d = Some a -> get_l (key_of H e) a <> Some []) ->
  provide_one H tau d e = d.
Proof.
  intros Hn. unfold provide_one. destruct (get_acc (fst e) d) as [a|]; [|reflexivity].
  specialize (Hn a eq_refl). destruct (get_l (key_of H e) a) as [[|x ts]|]; congruence.
Qed.

End PreimagesP.
