(* C28 — the alignment invariant of Model/Telemetry.v and its preservation by every action. *)
From Coq Require Import List NArith Bool Lia.
From Coq Require Import ZifyBool ZifyNat ZifyN.
From JamV Require Import Model.Telemetry Proofs.TelemetryP.
Import ListNotations.
Local Open Scope N_scope.

Arguments followups_ok : simpl never.
Arguments Nat.ltb : simpl never.
Arguments tags_lt : simpl never.
Arguments id_bound : simpl never.

(* a queued envelope belongs to the current epoch and is the emit call that the log says it is *)
Definition env_ok (res : list emitrec) (ep : N) (e : env) : Prop :=
  exists r, lookup (e_tag e) res = Some r /\ r_id r = Some (ep, e_seq e) /\
            par_ok (e_par e) (r_parent r) ep = true.

Lemma env_ok_mono : forall res x ep e, env_ok res ep e -> env_ok (res ++ x) ep e.
Proof.
  intros res x ep e (r & L & I & P). exists r. split; [apply lookup_app_l; assumption | split; assumption].
Qed.

Definition inflight (s : st) : list env :=
  match pending s with Some e => [e] | None => [] end ++ queue s.
Definition base (s : st) : N :=
  expected s + match claimed s with Some (_, c) => c | None => 0 end.

(* while writeLoop runs: the wire so far is accepted and has consumed ids 0..expected-1; the claimed
   range, the pending envelope, the queue and the drop ranges cover expected..nxt-1 in id order *)
Definition run_inv (s : st) : Prop :=
  exists w, wire s = FNode :: w /\
    accepts_frames (results s) (epoch s) 0 w = true /\
    recv_count w = expected s /\
    aligned (base s) (inflight s) (drops s) (nxt s) /\
    Forall (env_ok (results s) (epoch s)) (inflight s) /\
    match claimed s with Some (f, c) => f = expected s /\ 0 < c | None => True end.

Definition wire_done (s : st) : Prop :=
  exists w, wire s = FNode :: w /\ accepts_frames (results s) (epoch s) 0 w = true.

Definition phase_inv (s : st) : Prop :=
  match ph s with
  | Idle => wire s = [] /\ queue s = [] /\ drops s = [] /\ nxt s = 0 /\ enabled s = false
  | Connected => wire s = [FNode] /\ queue s = [] /\ drops s = [] /\ nxt s = 0 /\ enabled s = false
  | Running => run_inv s
  | Lost1 => wire_done s
  | Lost2 => wire_done s /\ enabled s = false
  | Lost3 => wire s = [] /\ nxt s = 0 /\ enabled s = false
  end.

Record Inv (s : st) : Prop := mkInv {
  i_phase : phase_inv s;
  i_tags : tags_lt (results s);
  i_bound : id_bound (epoch s, nxt s) (results s);
  i_inc : ids_inc None (results s) = true;
  i_fup : followups_ok (results s) = true;
  i_past : accepts_conns (results s) 1 (past s) = true;
  i_epoch : conns_epoch 1 (past s) = epoch s;
  i_drops : enabled s = true -> drops_le (nxt s) (drops s);
  i_panic : panicked s = false }.

Lemma inv_init : forall c, Inv (init c).
Proof.
  intros c. constructor; cbn.
  - unfold phase_inv; cbn. repeat split; reflexivity.
  - constructor.
  - constructor.
  - reflexivity.
  - reflexivity.
  - reflexivity.
  - reflexivity.
  - discriminate.
  - reflexivity.
Qed.

Lemma phase_inv_res : forall s x, phase_inv s -> phase_inv (set_results s (results s ++ x)).
Proof.
  intros s x. destruct s as [cp ep nx q dr en cl p ex pe clm wi pa res pn].
  unfold phase_inv, run_inv, wire_done, inflight, base; cbn. destruct p; cbn; intros H; try exact H.
  - destruct H as (w & Hw & Ha & Hc & Hal & Hf & Hcl). exists w. repeat split; try assumption.
    + apply accepts_frames_mono; assumption.
    + eapply Forall_impl; [| exact Hf]. intros a. apply env_ok_mono.
  - destruct H as (w & Hw & Ha). exists w. split; [assumption | apply accepts_frames_mono; assumption].
  - destruct H as [(w & Hw & Ha) He]. split; [| assumption].
    exists w. split; [assumption | apply accepts_frames_mono; assumption].
Qed.

Lemma inv_reject : forall s par, Inv s -> Inv (reject s par).
Proof.
  intros s par [Hp Ht Hb Hi Hf Hpa He Hd Hpn]. unfold reject.
  constructor.
  - apply phase_inv_res. assumption.
  - destruct s; unfold next_tag; cbn in *. apply tags_lt_snoc; [assumption | reflexivity].
  - destruct s; cbn in *. apply Forall_app. split; [assumption | repeat constructor].
  - destruct s; cbn in *. rewrite ids_inc_snoc_none. assumption.
  - destruct s; cbn in *. rewrite followups_ok_snoc, Hf. reflexivity.
  - destruct s; cbn in *. apply accepts_conns_mono. assumption.
  - destruct s; cbn in *. assumption.
  - destruct s; cbn in *. assumption.
  - destruct s; cbn in *. assumption.
Qed.

(* what a follow-up passes: parent of the current epoch, payload prefix = parent seq *)
Definition par_valid (s : st) (par : option eid) (parseq : option N) : Prop :=
  match par, parseq with
  | None, None => True
  | Some (pe, ps), Some ps' => pe = epoch s /\ ps' = ps
  | _, _ => False
  end.

Lemma par_valid_ok : forall s par parseq, par_valid s par parseq -> par_ok parseq par (epoch s) = true.
Proof.
  intros s [[pe ps] |] [ps' |]; cbn; try tauto. intros [-> ->]. rewrite !N.eqb_refl. reflexivity.
Qed.

Lemma par_valid_fup : forall s par parseq, par_valid s par parseq ->
  match par with Some (pe, _) => pe =? epoch s | None => true end = true.
Proof.
  intros s [[pe ps] |] [ps' |]; cbn; try tauto. intros [-> _]. apply N.eqb_refl.
Qed.

Lemma inv_emit : forall s par parseq, Inv s -> par_valid s par parseq -> Inv (emit_core s par parseq).
Proof.
  intros s par parseq H Hpar. unfold emit_core.
  destruct (enabled s && negb (closed s)) eqn:En; [| apply inv_reject; assumption].
  apply andb_true_iff in En. destruct En as [En _].
  pose proof (par_valid_ok _ _ _ Hpar) as Hpo.
  pose proof (par_valid_fup _ _ _ Hpar) as Hpf.
  destruct H as [Hp Ht Hb Hi Hf Hpa He Hd Hpn]. specialize (Hd En).
  destruct s as [cp ep nx q dr en cl p ex pe clm wi pa res pn]. unfold next_tag in *. cbn in *. subst en.
  set (nr := mkrec (N.of_nat (length res)) (Some (ep, nx)) par) in *.
  assert (Hnew : env_ok (res ++ [nr]) ep (mkenv (N.of_nat (length res)) ep nx parseq)).
  { exists nr. split; [apply lookup_fresh; [assumption | reflexivity] | split; [reflexivity | exact Hpo]]. }
  assert (Ht' : tags_lt (res ++ [nr])) by (apply tags_lt_snoc; [assumption | reflexivity]).
  assert (Hb' : id_bound (ep, nx + 1) (res ++ [nr])).
  { apply Forall_app. split.
    - apply (id_bound_weaken (ep, nx)); [assumption | cbn; lia].
    - constructor; [| constructor]. unfold nr, eid_ltb. cbn. lia. }
  assert (Hi' : ids_inc None (res ++ [nr]) = true).
  { apply ids_inc_snoc_some; [assumption | discriminate | assumption]. }
  assert (Hf' : followups_ok (res ++ [nr]) = true).
  { rewrite followups_ok_snoc, Hf. unfold nr. cbn. exact Hpf. }
  assert (Hpa' : accepts_conns (res ++ [nr]) 1 pa = true) by (apply accepts_conns_mono; assumption).
  assert (Hph : p = Running \/ p = Lost1).
  { unfold phase_inv in Hp; cbn in Hp. destruct p; auto; exfalso; intuition congruence. }
  destruct (Nat.ltb (length q) cp) eqn:Full; cbn.
  - (* enqueued *)
    constructor; cbn; try assumption.
    + destruct Hph as [-> | ->]; unfold phase_inv, run_inv, wire_done, inflight, base in *; cbn in *.
      * destruct Hp as (w & Hw & Ha & Hc & Hal & Hfo & Hcl). exists w.
        split; [assumption |]. split; [apply accepts_frames_mono; assumption |].
        split; [assumption |]. split; [| split; [| assumption]].
        -- rewrite app_assoc. apply aligned_snoc_ev; [assumption | reflexivity].
        -- rewrite app_assoc. apply Forall_app. split.
           ++ eapply Forall_impl; [| exact Hfo]. intros a. apply env_ok_mono.
           ++ constructor; [exact Hnew | constructor].
      * destruct Hp as (w & Hw & Ha). exists w. split; [assumption | apply accepts_frames_mono; assumption].
    + intros _. eapply Forall_impl; [| exact Hd]. cbn. intros; lia.
  - (* queue full: drop recorded *)
    constructor; cbn; try assumption.
    + destruct Hph as [-> | ->]; unfold phase_inv, run_inv, wire_done, inflight, base in *; cbn in *.
      * destruct Hp as (w & Hw & Ha & Hc & Hal & Hfo & Hcl). exists w.
        split; [assumption |]. split; [apply accepts_frames_mono; assumption |].
        split; [assumption |]. split; [| split; [| assumption]].
        -- apply aligned_record; assumption.
        -- eapply Forall_impl; [| exact Hfo]. intros a. apply env_ok_mono.
      * destruct Hp as (w & Hw & Ha). exists w. split; [assumption | apply accepts_frames_mono; assumption].
    + intros _. apply record_bound. assumption.
    + rewrite Hpn, record_ok_bound by assumption. reflexivity.
Qed.

Lemma inv_step : forall s a, Inv s -> Inv (step s a).
Proof.
  intros s a H. destruct a as [| [[pe ps] |] | ok | | | | | | | | | |]; unfold step.
  - (* AEmit *) apply inv_emit; [assumption | exact I].
  - (* follow-up *) destruct (pe =? epoch s) eqn:E.
    + apply N.eqb_eq in E. apply inv_emit; [assumption | cbn; auto].
    + apply inv_reject; assumption.
  - apply inv_reject; assumption.
  - (* ADial *)
    pose proof H as H0. destruct H0 as [Hp Ht Hb Hi Hf Hpa He Hd Hpn].
    destruct s as [cp ep nx q dr en cl p ex pe clm wi pa res pn]. unfold phase_inv in Hp. cbn in *.
    destruct p; try exact H. destruct Hp as (Hw & Hq & Hdr & Hnx & Hen). subst.
    destruct ok; constructor; cbn; try assumption; try reflexivity.
    + unfold phase_inv; cbn. repeat split; reflexivity.
    + unfold phase_inv; cbn. repeat split; reflexivity.
    + rewrite accepts_conns_snoc, Hpa. reflexivity.
    + rewrite conns_epoch_snoc. reflexivity.
  - (* AEnable *)
    pose proof H as H0. destruct H0 as [Hp Ht Hb Hi Hf Hpa He Hd Hpn].
    destruct s as [cp ep nx q dr en cl p ex pe clm wi pa res pn]. unfold phase_inv in Hp. cbn in *.
    destruct p; try exact H. destruct Hp as (Hw & Hq & Hdr & Hnx & Hen). subst.
    constructor; cbn; try assumption; try reflexivity.
    + unfold phase_inv, run_inv, inflight, base; cbn. exists []. repeat split; try reflexivity; constructor.
    + intros _. constructor.
  - (* AWClaim *)
    pose proof H as H0. destruct H0 as [Hp Ht Hb Hi Hf Hpa He Hd Hpn].
    destruct s as [cp ep nx q dr en cl p ex pe clm wi pa res pn]. unfold phase_inv in Hp. cbn in *.
    destruct p; try exact H. destruct clm as [[f0 c0] |]; try exact H.
    destruct dr as [| [f c] r]; try exact H. destruct (f =? ex) eqn:E; try exact H.
    apply N.eqb_eq in E. subst f.
    unfold run_inv, inflight, base in Hp; cbn in Hp.
    destruct Hp as (w & Hw & Ha & Hc & Hal & Hfo & _).
    rewrite N.add_0_r in Hal. apply aligned_claim in Hal; [| reflexivity]. destruct Hal as [Hal Hc0].
    constructor; cbn; try assumption; try reflexivity.
    + unfold phase_inv, run_inv, inflight, base; cbn. exists w. repeat split; assumption.
    + intros Hen. eapply drops_le_tail. apply Hd. assumption.
  - (* AWWriteDropped *)
    pose proof H as H0. destruct H0 as [Hp Ht Hb Hi Hf Hpa He Hd Hpn].
    destruct s as [cp ep nx q dr en cl p ex pe clm wi pa res pn]. unfold phase_inv in Hp. cbn in *.
    destruct p; try exact H. destruct clm as [[f c] |]; try exact H.
    unfold run_inv, inflight, base in Hp; cbn in Hp.
    destruct Hp as (w & Hw & Ha & Hc & Hal & Hfo & Hf0 & Hc0). subst wi.
    constructor; cbn; try assumption; try reflexivity.
    unfold phase_inv, run_inv, inflight, base; cbn. exists (w ++ [FDropped c]).
    split; [reflexivity |]. split; [| split; [| split; [| split; [assumption | exact I]]]].
    + apply accepts_frames_snoc; [assumption | reflexivity].
    + rewrite recv_count_snoc. cbn. lia.
    + rewrite N.add_0_r. assumption.
  - (* AWDequeue *)
    pose proof H as H0. destruct H0 as [Hp Ht Hb Hi Hf Hpa He Hd Hpn].
    destruct s as [cp ep nx q dr en cl p ex pe clm wi pa res pn]. unfold phase_inv in Hp. cbn in *.
    destruct p; try exact H. destruct pe as [e0 |]; try exact H. destruct q as [| e q]; try exact H.
    constructor; cbn; try assumption; try reflexivity.
  - (* AWWriteEvent *)
    pose proof H as H0. destruct H0 as [Hp Ht Hb Hi Hf Hpa He Hd Hpn].
    destruct s as [cp ep nx q dr en cl p ex pe clm wi pa res pn]. unfold phase_inv in Hp. cbn in *.
    destruct p; try exact H. destruct clm as [[f0 c0] |]; try exact H.
    destruct pe as [e |]; try exact H. destruct (e_seq e =? ex) eqn:E; try exact H.
    apply N.eqb_eq in E.
    unfold run_inv, inflight, base in Hp; cbn in Hp.
    destruct Hp as (w & Hw & Ha & Hc & Hal & Hfo & _). subst wi.
    rewrite N.add_0_r in Hal. apply aligned_write in Hal; [| assumption].
    inversion Hfo as [| e' l' Heo Hfo']; subst.
    constructor; cbn; try assumption; try reflexivity.
    unfold phase_inv, run_inv, inflight, base; cbn. exists (w ++ [FEvent (e_tag e) (e_par e)]).
    split; [reflexivity |]. split; [| split; [| split; [| split; [assumption | exact I]]]].
    + apply accepts_frames_snoc; [assumption |].
      destruct Heo as (r & L & Ir & P). cbn. rewrite L, Ir, P, N.eqb_refl. cbn.
      replace (e_seq e =? recv_count w) with true; [reflexivity |]. symmetry. apply N.eqb_eq. congruence.
    + rewrite recv_count_snoc. cbn. lia.
    + rewrite N.add_0_r. assumption.
  - (* AConnLoss *)
    pose proof H as H0. destruct H0 as [Hp Ht Hb Hi Hf Hpa He Hd Hpn].
    destruct s as [cp ep nx q dr en cl p ex pe clm wi pa res pn]. unfold phase_inv in Hp. cbn in *.
    destruct p; try exact H.
    constructor; cbn; try assumption; try reflexivity.
    unfold phase_inv, run_inv, wire_done in *; cbn in *.
    destruct Hp as (w & Hw & Ha & _). exists w. split; assumption.
  - (* ADisable *)
    pose proof H as H0. destruct H0 as [Hp Ht Hb Hi Hf Hpa He Hd Hpn].
    destruct s as [cp ep nx q dr en cl p ex pe clm wi pa res pn]. unfold phase_inv in Hp. cbn in *.
    destruct p; try exact H.
    constructor; cbn; try assumption; try reflexivity.
    + unfold phase_inv; cbn. split; [exact Hp | reflexivity].
    + discriminate.
  - (* ABump *)
    pose proof H as H0. destruct H0 as [Hp Ht Hb Hi Hf Hpa He Hd Hpn].
    destruct s as [cp ep nx q dr en cl p ex pe clm wi pa res pn]. unfold phase_inv in Hp. cbn in *.
    destruct p; try exact H. unfold wire_done in Hp; cbn in Hp. destruct Hp as [(w & Hw & Ha) Hen]. subst.
    constructor; cbn; try assumption; try reflexivity.
    + unfold phase_inv; cbn. repeat split; reflexivity.
    + apply (id_bound_weaken (conns_epoch 1 pa, nx)); [assumption | cbn; lia].
    + rewrite accepts_conns_snoc, Hpa. cbn. rewrite Ha. reflexivity.
    + rewrite conns_epoch_snoc. cbn. reflexivity.
    + discriminate.
  - (* AResetDrain *)
    pose proof H as H0. destruct H0 as [Hp Ht Hb Hi Hf Hpa He Hd Hpn].
    destruct s as [cp ep nx q dr en cl p ex pe clm wi pa res pn]. unfold phase_inv in Hp. cbn in *.
    destruct p; try exact H. destruct Hp as (Hw & Hnx & Hen). subst.
    constructor; cbn; try assumption; try reflexivity.
    + unfold phase_inv; cbn. repeat split; reflexivity.
    + discriminate.
  - (* AClose *)
    pose proof H as H0. destruct H0 as [Hp Ht Hb Hi Hf Hpa He Hd Hpn].
    destruct s as [cp ep nx q dr en cl p ex pe clm wi pa res pn]. unfold phase_inv in Hp. cbn in *.
    constructor; cbn; try assumption; try reflexivity.
    + unfold phase_inv, run_inv, wire_done, inflight, base in *; cbn in *.
      destruct p; intuition auto.
    + discriminate.
Qed.

Lemma inv_run : forall acts s, Inv s -> Inv (run acts s).
Proof.
  unfold run. induction acts as [| a acts IH]; intros s H; cbn; [assumption |].
  apply IH. apply inv_step. assumption.
Qed.

(* ------------------------------------------------------------------------------------------- *)
(* consequences for every state reachable by any interleaving *)

Lemma inv_accepts : forall s, Inv s -> accepts (all_wires s) (results s) = true.
Proof.
  intros s [Hp Ht Hb Hi Hf Hpa He Hd Hpn]. unfold accepts, all_wires.
  rewrite Hf, Hi, accepts_conns_snoc, Hpa, He. cbn [andb]. rewrite !andb_true_r.
  destruct s as [cp ep nx q dr en cl p ex pe clm wi pa res pn].
  unfold phase_inv, run_inv, wire_done in Hp. cbn in *.
  destruct p.
  - destruct Hp as (-> & _). reflexivity.
  - destruct Hp as (-> & _). reflexivity.
  - destruct Hp as (w & -> & Ha & _). cbn. rewrite Ha. reflexivity.
  - destruct Hp as (w & -> & Ha). cbn. rewrite Ha. reflexivity.
  - destruct Hp as [(w & -> & Ha) _]. cbn. rewrite Ha. reflexivity.
  - destruct Hp as (-> & _). reflexivity.
Qed.

Lemma alignment_inv : forall c acts,
  accepts (all_wires (run acts (init c))) (results (run acts (init c))) = true.
Proof. intros c acts. apply inv_accepts, inv_run, inv_init. Qed.

Lemma no_emitter_panic : forall c acts, panicked (run acts (init c)) = false.
Proof. intros c acts. apply i_panic, inv_run, inv_init. Qed.

(* every follow-up that received an id has a parent of the same epoch (= same connection) *)
Lemma followups_ok_spec : forall res, followups_ok res = true ->
  forall r e q pe pq, In r res -> r_id r = Some (e, q) -> r_parent r = Some (pe, pq) -> pe = e.
Proof.
  unfold followups_ok. intros res H r e q pe pq Hin Hid Hpa.
  rewrite forallb_forall in H. specialize (H r Hin). rewrite Hid, Hpa in H. apply N.eqb_eq. assumption.
Qed.

Lemma followup_same_epoch : forall c acts r e q pe pq,
  In r (results (run acts (init c))) -> r_id r = Some (e, q) -> r_parent r = Some (pe, pq) -> pe = e.
Proof.
  intros c acts. apply followups_ok_spec. apply i_fup, inv_run, inv_init.
Qed.

(* an emit call is one step, defined in every state, and always returns (appends its result) *)
Lemma emit_nonblocking : forall s a, is_emit a = true ->
  exists r, results (step s a) = results s ++ [r] /\ r_tag r = next_tag s.
Proof.
  intros s a Ha. destruct a as [| [[pe ps] |] | | | | | | | | | | |]; try discriminate; unfold step.
  - unfold emit_core, reject. destruct (enabled s && negb (closed s)).
    + destruct (Nat.ltb (length (queue s)) (cap s)); destruct s; cbn; eexists; split; reflexivity.
    + destruct s; cbn; eexists; split; reflexivity.
  - destruct (pe =? epoch s); unfold emit_core, reject.
    + destruct (enabled s && negb (closed s)).
      * destruct (Nat.ltb (length (queue s)) (cap s)); destruct s; cbn; eexists; split; reflexivity.
      * destruct s; cbn; eexists; split; reflexivity.
    + destruct s; cbn; eexists; split; reflexivity.
  - unfold reject. destruct s; cbn; eexists; split; reflexivity.
Qed.

(* ------------------------------------------------------------------------------------------- *)
(* what a true verdict of the oracle means, for ANY observed run (this is what the run-time side
   relies on when it evaluates the extracted [accepts] on wires captured from the Go client) *)

Lemma accepts_frames_sound : forall res e w c,
  accepts_frames res e c w = true ->
  forall t p n, In (t, p, n) (receive c w) ->
    exists r, lookup t res = Some r /\ r_id r = Some (e, n) /\ par_ok p (r_parent r) e = true.
Proof.
  induction w as [| f w IH]; intros c H t p n Hin; cbn in *; [contradiction |].
  destruct f as [| tag par | k]; [discriminate | | eapply IH; eassumption].
  destruct (lookup tag res) as [rc |] eqn:L; [| discriminate].
  destruct (r_id rc) as [[ie iq] |] eqn:Ir; [| discriminate].
  apply andb_true_iff in H. destruct H as [H H4]. apply andb_true_iff in H. destruct H as [H H3].
  apply andb_true_iff in H. destruct H as [H1 H2].
  apply N.eqb_eq in H1. apply N.eqb_eq in H2. subst.
  destruct Hin as [Hin | Hin].
  - inversion Hin; subst. exists rc. repeat split; assumption.
  - eapply IH; eassumption.
Qed.

Lemma accepts_frames_no_node : forall res e w c, accepts_frames res e c w = true -> ~ In FNode w.
Proof.
  induction w as [| f w IH]; intros c H Hin; cbn in *; [contradiction |].
  destruct f as [| tag par | k]; [discriminate | |].
  - destruct Hin as [Hin | Hin]; [discriminate |].
    destruct (lookup tag res) as [rc |]; [| discriminate].
    destruct (r_id rc) as [[ie iq] |]; [| discriminate].
    apply andb_true_iff in H. destruct H as [_ H]. eapply IH; eassumption.
  - destruct Hin as [Hin | Hin]; [discriminate |]. eapply IH; eassumption.
Qed.

(* connection number k (0-based) of an accepted run: empty, or node information first, no second
   node-information frame, and every delivered event numbered by the receiver with the seq its
   emitter received, in the epoch of that connection *)
Lemma accepts_conns_sound : forall res conns e,
  accepts_conns res e conns = true ->
  forall k conn, nth_error conns k = Some conn ->
    conn = [] \/
    exists w, conn = FNode :: w /\ ~ In FNode w /\
      forall t p n, In (t, p, n) (receive 0 w) ->
        exists r, lookup t res = Some r /\ r_id r = Some (conns_epoch e (firstn k conns), n) /\
                  par_ok p (r_parent r) (conns_epoch e (firstn k conns)) = true.
Proof.
  induction conns as [| c conns IH]; intros e H k conn Hk.
  - destruct k; discriminate.
  - destruct k as [| k].
    + cbn in Hk. inversion Hk; subst conn. cbn [firstn conns_epoch].
      destruct c as [| f w]; [left; reflexivity | right].
      cbn in H. apply andb_true_iff in H. destruct H as [H _]. apply andb_true_iff in H. destruct H as [H1 H2].
      destruct f; try discriminate. exists w. split; [reflexivity |]. split.
      * eapply accepts_frames_no_node; eassumption.
      * intros t p n Hin. eapply accepts_frames_sound; eassumption.
    + cbn in Hk. cbn [firstn]. destruct c as [| f w].
      * cbn [conns_epoch]. cbn in H. eapply IH; eassumption.
      * cbn [conns_epoch]. cbn in H. apply andb_true_iff in H. destruct H as [_ H]. eapply IH; eassumption.
Qed.

Lemma accepts_sound : forall conns res, accepts conns res = true ->
  forall k conn, nth_error conns k = Some conn ->
    conn = [] \/
    exists w, conn = FNode :: w /\ ~ In FNode w /\
      forall t p n, In (t, p, n) (receive 0 w) ->
        exists r, lookup t res = Some r /\ r_id r = Some (conns_epoch 1 (firstn k conns), n) /\
                  par_ok p (r_parent r) (conns_epoch 1 (firstn k conns)) = true.
Proof.
  intros conns res H. unfold accepts in H.
  apply andb_true_iff in H. destruct H as [H _]. apply andb_true_iff in H. destruct H as [H _].
  apply accepts_conns_sound. assumption.
Qed.

(* the explicit form of the alignment theorem *)
Lemma alignment_explicit : forall c acts k conn,
  nth_error (all_wires (run acts (init c))) k = Some conn ->
  conn = [] \/
  exists w, conn = FNode :: w /\ ~ In FNode w /\
    forall t p n, In (t, p, n) (receive 0 w) ->
      exists r, lookup t (results (run acts (init c))) = Some r /\
        r_id r = Some (conns_epoch 1 (firstn k (all_wires (run acts (init c)))), n) /\
        par_ok p (r_parent r) (conns_epoch 1 (firstn k (all_wires (run acts (init c))))) = true.
Proof. intros c acts. apply accepts_sound. apply alignment_inv. Qed.

(* ids handed out are pairwise distinct: strictly increasing along the log *)
Lemma ids_inc_lt : forall res l, ids_inc l res = true ->
  forall r i, In r res -> r_id r = Some i -> forall x, l = Some x -> eid_ltb x i = true.
Proof.
  induction res as [| a res IH]; intros l H r i Hin Hid x Hl; [contradiction |].
  cbn in H. destruct Hin as [-> | Hin].
  - rewrite Hid in H. subst l. apply andb_true_iff in H. tauto.
  - destruct (r_id a) as [j |] eqn:Ja.
    + apply andb_true_iff in H. destruct H as [H1 H2]. subst l.
      specialize (IH _ H2 r i Hin Hid j eq_refl).
      unfold eid_ltb in *. destruct x, j, i; cbn in *. lia.
    + eapply IH; eassumption.
Qed.

Lemma ids_inc_nodup : forall res l, ids_inc l res = true ->
  forall i j ri rj, nth_error res i = Some ri -> nth_error res j = Some rj -> (i < j)%nat ->
    forall a b, r_id ri = Some a -> r_id rj = Some b -> eid_ltb a b = true.
Proof.
  induction res as [| x res IH]; intros l H i j ri rj Hi Hj Hlt a b Ha Hb.
  - destruct i; discriminate.
  - destruct j as [| j]; [lia |]. cbn in Hj. destruct i as [| i].
    + cbn in Hi. inversion Hi; subst x. cbn in H. rewrite Ha in H.
      apply andb_true_iff in H. destruct H as [_ H].
      eapply ids_inc_lt; [exact H | eapply nth_error_In; exact Hj | exact Hb | reflexivity].
    + cbn in Hi. cbn in H. destruct (r_id x).
      * apply andb_true_iff in H. destruct H as [_ H].
        assert (Hlt' : (i < j)%nat) by lia. exact (IH _ H i j ri rj Hi Hj Hlt' a b Ha Hb).
      * assert (Hlt' : (i < j)%nat) by lia. exact (IH _ H i j ri rj Hi Hj Hlt' a b Ha Hb).
Qed.

Lemma ids_unique : forall c acts i j ri rj a,
  nth_error (results (run acts (init c))) i = Some ri ->
  nth_error (results (run acts (init c))) j = Some rj ->
  r_id ri = Some a -> r_id rj = Some a -> i = j.
Proof.
  intros c acts i j ri rj a Hi Hj Ha Hb.
  pose proof (i_inc _ (inv_run acts _ (inv_init c))) as H.
  assert (Hirr : eid_ltb a a = false) by (destruct a as [a1 a2]; unfold eid_ltb; cbn [fst snd]; rewrite !N.ltb_irrefl, andb_false_r; reflexivity).
  assert (Htri : (i < j)%nat \/ i = j \/ (j < i)%nat) by lia.
  destruct Htri as [Hlt | [Heq | Hgt]]; [| assumption |].
  - rewrite (ids_inc_nodup _ _ H i j ri rj Hi Hj Hlt a a Ha Hb) in Hirr. discriminate.
  - rewrite (ids_inc_nodup _ _ H j i rj ri Hj Hi Hgt a a Hb Ha) in Hirr. discriminate.
Qed.
