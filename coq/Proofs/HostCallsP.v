(* C07 — proofs about Model/HostCalls.v, by case analysis on the host-call functions:
   frame (registers, memory, context), write-after-check, clean panics, no state change on error codes,
   unknown identifiers. *)
From JamV Require Import Base.Bytes Proofs.BytesP Model.Accounts Proofs.AccountsP Model.AccCalls Proofs.AccCallsP
  Model.HostCalls Proofs.HostCallsMemP.
From Coq Require Import ZifyBool ZifyNat ZifyN.
Local Open Scope N_scope.
Ltac Zify.zify_post_hook ::= Z.div_mod_to_equations.

(* ------------------------------------------------------------------------------------------ *)
(* the service-account part: what each call of Model/AccCalls.v may touch *)
Definition outside (ids : list N) (b b' : ctx) : Prop :=
  forall j, ~ In j ids -> get j (c_accts b') = get j (c_accts b).

Lemma outside_refl ids b : outside ids b b.
Proof. intros j _. reflexivity. Qed.

Ltac split_matches :=
  repeat match goal with
         | |- context [match ?X with _ => _ end] => destruct X eqn:?
         end.

Ltac outside_tac :=
  let j := fresh "j" in let Hj := fresh "Hj" in
  intros j Hj; cbn [c_accts]; cbn [In] in Hj;
  repeat first [ rewrite get_del by (intro; subst; tauto)
               | rewrite get_put_other by (intro; subst; tauto) ];
  reflexivity.

Section BaseFrame.
  Variable ar : arith.
  Variable e : env.

  Lemma call_write_frame x k v r x' :
    call_write ar e x k v = (r, x') ->
    c_xfers x' = c_xfers x /\ c_next x' = c_next x /\ outside [e_self e] x x'.
  Proof.
    unfold call_write. split_matches; intros [= <- <-]; cbn [c_xfers c_next];
      (split; [reflexivity | split; [reflexivity | try apply outside_refl; outside_tac]]).
  Qed.

  Lemma call_solicit_frame x h z r x' :
    call_solicit ar e x h z = (r, x') ->
    c_xfers x' = c_xfers x /\ c_next x' = c_next x /\ outside [e_self e] x x'.
  Proof.
    unfold call_solicit. split_matches; intros [= <- <-]; cbn [c_xfers c_next];
      (split; [reflexivity | split; [reflexivity | try apply outside_refl; outside_tac]]).
  Qed.

  Lemma call_forget_frame x h z r x' :
    call_forget e x h z = (r, x') ->
    c_xfers x' = c_xfers x /\ c_next x' = c_next x /\ outside [e_self e] x x'.
  Proof.
    unfold call_forget. split_matches; intros [= <- <-]; cbn [c_xfers c_next];
      (split; [reflexivity | split; [reflexivity | try apply outside_refl; outside_tac]]).
  Qed.

  Lemma call_upgrade_frame x c g m r x' :
    call_upgrade e x c g m = (r, x') ->
    c_xfers x' = c_xfers x /\ c_next x' = c_next x /\ outside [e_self e] x x'.
  Proof.
    unfold call_upgrade. split_matches; intros [= <- <-]; cbn [c_xfers c_next];
      (split; [reflexivity | split; [reflexivity | try apply outside_refl; outside_tac]]).
  Qed.

  Lemma call_transfer_frame x d amt l memo r x' :
    call_transfer ar e x d amt l memo = (r, x') ->
    (c_xfers x' = c_xfers x \/ c_xfers x' = c_xfers x ++ [mkXfer (e_self e) d amt memo l])
    /\ c_next x' = c_next x /\ outside [e_self e] x x'.
  Proof.
    unfold call_transfer. split_matches; intros [= <- <-]; cbn [c_xfers c_next];
      (split; [tauto | split; [reflexivity | try apply outside_refl; outside_tac]]).
  Qed.

  Lemma call_eject_frame x d h r x' :
    call_eject ar e x d h = (r, x') ->
    c_xfers x' = c_xfers x /\ c_next x' = c_next x /\ outside [e_self e; d] x x'.
  Proof.
    unfold call_eject. split_matches; intros [= <- <-]; cbn [c_xfers c_next];
      (split; [reflexivity | split; [reflexivity | try apply outside_refl; outside_tac]]).
  Qed.

  Lemma call_new_frame x c l g m f i r x' :
    call_new ar e x c l g m f i = (r, x') ->
    c_xfers x' = c_xfers x /\ outside [e_self e; i; c_next x] x x'.
  Proof.
    unfold call_new. split_matches; intros [= <- <-]; cbn [c_xfers c_next];
      (split; [reflexivity | try apply outside_refl; outside_tac]).
  Qed.
End BaseFrame.

(* ------------------------------------------------------------------------------------------ *)
(* the common shape of a call *)
Lemma charged_ind {C} (P : result C -> Prop) g rg (c0 : C) k :
  ((g - 10 < 0)%Z -> P (mkRes EOOG rg (g - 10)%Z None c0)) ->
  ((0 <= g - 10)%Z -> P (finish rg c0 (k (g - 10)%Z))) ->
  P (charged g rg c0 k).
Proof.
  intros A B. unfold charged, host_gas. destruct (Z.ltb_spec (g - 10) 0); [apply A | apply B]; assumption.
Qed.

Ltac hc_unfold :=
  unfold acc_call, ref_call, hc_gas, hc_unknown, hc_log, hc_fetch, hc_lookup, hc_read, hc_write, hc_info, hc_bless, hc_assign,
    hc_designate, hc_checkpoint, hc_new, hc_upgrade, hc_transfer, hc_eject, hc_query, hc_solicit, hc_forget, hc_yield,
    hc_provide, hc_historical_lookup, hc_export, deliver.

Ltac hc_split :=
  repeat match goal with
         | |- context [if ?b then _ else _] => destruct b eqn:?
         | |- context [match ?x with _ => _ end] => destruct x eqn:?
         end.
