(* C07 — proofs about Model/HostCalls.v, by case analysis on the host-call functions:
   frame (registers, memory, context), write-after-check, clean panics, no state change on error codes,
   unknown identifiers. *)
From JamV Require Import Base.Bytes Proofs.BytesP Model.Accounts Proofs.AccountsP Model.AccCalls Proofs.AccCallsP
  Model.HostCalls Proofs.HostCallsMemP.
From Coq Require Import ZifyBool ZifyNat ZifyN.
Local Open Scope N_scope.
Ltac Zify.zify_post_hook ::= Z.div_mod_to_equations.

(* ------------------------------------------------------------------------------------------ *)
(* the service-account part: what each call of Model/AccCalls.v may touch *)
Definition outside (ids : list N) (b b' : ctx) : Prop :=
  forall j, ~ In j ids -> get j (c_accts b') = get j (c_accts b).

Lemma outside_refl ids b : outside ids b b.
Proof. intros j _. reflexivity. Qed.

Ltac split_matches :=
  repeat match goal with
         | |- context [match ?X with _ => _ end] => destruct X eqn:?
         end.

(* (r0, x0) = (r, x') as two equations, without [injection] (slow on these terms) *)
Ltac pair_eq :=
  let Hh := fresh "Hp" in let H1 := fresh "Hp1" in let H2 := fresh "Hp2" in
  intros Hh; pose proof (f_equal fst Hh) as H1; pose proof (f_equal snd Hh) as H2; cbn [fst snd] in H1, H2;
  clear Hh; try subst.

Ltac outside_tac :=
  let j := fresh "j" in let Hj := fresh "Hj" in
  intros j Hj; cbn [c_accts]; cbn [In] in Hj;
  repeat first [ rewrite get_del by (intro; subst; tauto)
               | rewrite get_put_other by (intro; subst; tauto) ];
  reflexivity.

Section BaseFrame.
  Variable ar : arith.
  Variable e : env.

  Lemma call_write_frame x k v r x' :
    call_write ar e x k v = (r, x') ->
    c_xfers x' = c_xfers x /\ c_next x' = c_next x /\ outside [e_self e] x x'.
  Proof.
    unfold call_write. split_matches; pair_eq; cbn [c_xfers c_next];
      (split; [reflexivity | split; [reflexivity | try apply outside_refl; outside_tac]]).
  Qed.

  Lemma call_solicit_frame x h z r x' :
    call_solicit ar e x h z = (r, x') ->
    c_xfers x' = c_xfers x /\ c_next x' = c_next x /\ outside [e_self e] x x'.
  Proof.
    unfold call_solicit. split_matches; pair_eq; cbn [c_xfers c_next];
      (split; [reflexivity | split; [reflexivity | try apply outside_refl; outside_tac]]).
  Qed.

  Lemma call_forget_frame x h z r x' :
    call_forget e x h z = (r, x') ->
    c_xfers x' = c_xfers x /\ c_next x' = c_next x /\ outside [e_self e] x x'.
  Proof.
    unfold call_forget. split_matches; pair_eq; cbn [c_xfers c_next];
      (split; [reflexivity | split; [reflexivity | try apply outside_refl; outside_tac]]).
  Qed.

  Lemma call_upgrade_frame x c g m r x' :
    call_upgrade e x c g m = (r, x') ->
    c_xfers x' = c_xfers x /\ c_next x' = c_next x /\ outside [e_self e] x x'.
  Proof.
    unfold call_upgrade. split_matches; pair_eq; cbn [c_xfers c_next];
      (split; [reflexivity | split; [reflexivity | try apply outside_refl; outside_tac]]).
  Qed.

  Lemma call_transfer_frame x d amt l memo r x' :
    call_transfer ar e x d amt l memo = (r, x') ->
    (c_xfers x' = c_xfers x \/ c_xfers x' = c_xfers x ++ [mkXfer (e_self e) d amt memo l])
    /\ c_next x' = c_next x /\ outside [e_self e] x x'.
  Proof.
    unfold call_transfer. split_matches; pair_eq; cbn [c_xfers c_next];
      (split; [tauto | split; [reflexivity | try apply outside_refl; outside_tac]]).
  Qed.

  Lemma call_eject_frame x d h r x' :
    call_eject ar e x d h = (r, x') ->
    c_xfers x' = c_xfers x /\ c_next x' = c_next x /\ outside [e_self e; d] x x'.
  Proof.
    unfold call_eject. split_matches; pair_eq; cbn [c_xfers c_next];
      (split; [reflexivity | split; [reflexivity | try apply outside_refl; outside_tac]]).
  Qed.

  Lemma call_new_frame x c l g m f i r x' :
    call_new ar e x c l g m f i = (r, x') ->
    c_xfers x' = c_xfers x /\ outside [e_self e; i; c_next x] x x'.
  Proof.
    unfold call_new. split_matches; pair_eq; cbn [c_xfers c_next];
      (split; [reflexivity | try apply outside_refl; outside_tac]).
  Qed.
End BaseFrame.

(* which return value accompanies a changed context *)
Section BaseRet.
  Variable ar : arith.
  Variable e : env.

  Lemma call_write_ret x k v r x' :
    call_write ar e x k v = (r, x') ->
    x' = x \/ r = RNone \/
    exists s ov, get (e_self e) (c_accts x) = Some s /\ al_get bytes_eqb k (a_storage s) = Some ov /\ r = RVal (blen ov).
  Proof.
    unfold call_write. split_matches; pair_eq; first [ left; reflexivity | right; left; reflexivity | right; right; eauto ].
  Qed.

  Lemma call_new_ret x c l g m f i r x' :
    call_new ar e x c l g m f i = (r, x') -> x' = x \/ (r = RVal i /\ i < Smin) \/ r = RVal (c_next x).
  Proof.
    unfold call_new. split_matches; pair_eq; first [ left; reflexivity | right; right; reflexivity | idtac ].
    right. left. split; [reflexivity |].
    match goal with Hb : _ && (i <? Smin) = true |- _ => apply andb_prop in Hb as [_ Hb]; apply N.ltb_lt in Hb; exact Hb end.
  Qed.

  Lemma call_upgrade_ret x c g m r x' : call_upgrade e x c g m = (r, x') -> x' = x \/ r = ROk.
  Proof. unfold call_upgrade. split_matches; pair_eq; tauto. Qed.
  Lemma call_eject_ret x d h r x' : call_eject ar e x d h = (r, x') -> x' = x \/ r = ROk.
  Proof. unfold call_eject. split_matches; pair_eq; tauto. Qed.
  Lemma call_solicit_ret x h z r x' : call_solicit ar e x h z = (r, x') -> x' = x \/ r = ROk.
  Proof. unfold call_solicit. split_matches; pair_eq; tauto. Qed.
  Lemma call_forget_ret x h z r x' : call_forget e x h z = (r, x') -> x' = x \/ r = ROk.
  Proof. unfold call_forget. split_matches; pair_eq; tauto. Qed.
End BaseRet.

(* ------------------------------------------------------------------------------------------ *)
(* the common shape of a call *)
Lemma charged_ind {C} (P : result C -> Prop) g rg (c0 : C) k :
  ((g - 10 < 0)%Z -> P (mkRes EOOG rg (g - 10)%Z None c0)) ->
  ((0 <= g - 10)%Z -> P (finish rg c0 (k (g - 10)%Z))) ->
  P (charged g rg c0 k).
Proof.
  intros A B. unfold charged, host_gas. destruct (Z.ltb_spec (g - 10) 0); [apply A | apply B]; assumption.
Qed.

Ltac hc_unfold :=
  unfold acc_call, ref_call, hc_gas, hc_unknown, hc_log, hc_fetch, hc_lookup, hc_read, hc_write, hc_info, hc_bless, hc_assign,
    hc_designate, hc_checkpoint, hc_new, hc_upgrade, hc_transfer, hc_eject, hc_query, hc_solicit, hc_forget, hc_yield,
    hc_provide, hc_historical_lookup, hc_export, deliver.

Ltac hc_split :=
  repeat match goal with
         | |- context [if ?b then _ else _] => destruct b eqn:?
         | |- context [match ?x with _ => _ end] => destruct x eqn:?
         end.

Lemma setreg7_len v rg : length rg = 13%nat -> length (setreg 7 v rg) = 13%nat.
Proof. intros L. rewrite setreg_length; lia. Qed.
Lemma setreg78_len v w rg : length rg = 13%nat -> length (setreg 8 w (setreg 7 v rg)) = 13%nat.
Proof. intros L. rewrite setreg_length; rewrite setreg7_len; lia. Qed.

Ltac regs_tac L :=
  cbn [finish r_regs];
  split;
  [ first [ exact L | apply setreg7_len; exact L | apply setreg78_len; exact L ]
  | let i := fresh "i" in let H7 := fresh "H7" in let H8 := fresh "H8" in
    intros i H7 H8;
    first [ reflexivity
          | rewrite setreg_other by (rewrite ?L; lia || assumption); reflexivity
          | destruct H8 as [H8 | H8]; [| congruence];
            rewrite setreg_other by (rewrite ?setreg7_len by exact L; lia || assumption);
            rewrite setreg_other by (rewrite ?L; lia || assumption); reflexivity ] ].

Section Discipline.
  Variable H : bytes -> bytes.
  Variable e : henv.

  (* ================= hc_frame: registers ================= *)
  Lemma acc_regs_frame c rg g m st : length rg = 13%nat ->
    length (r_regs (acc_call H e c rg g m st)) = 13%nat /\
    (forall i, i <> 7%nat -> (i <> 8%nat \/ c <> CQuery) -> nth i (r_regs (acc_call H e c rg g m st)) 0 = nth i rg 0).
  Proof.
    intros L. destruct c; hc_unfold; apply charged_ind; intros Hg; cbv zeta; hc_split; regs_tac L.
  Qed.

  Lemma ref_regs_frame c rg g m st : length rg = 13%nat ->
    length (r_regs (ref_call e c rg g m st)) = 13%nat /\
    (forall i, i <> 7%nat -> nth i (r_regs (ref_call e c rg g m st)) 0 = nth i rg 0).
  Proof.
    clear H.
    intros L. destruct c; hc_unfold; apply charged_ind; intros Hg; cbv zeta; hc_split;
      (cbn [finish r_regs]; split;
       [ first [ exact L | apply setreg7_len; exact L ]
       | intros i H7; first [ reflexivity | rewrite setreg_other by (rewrite ?L; lia || assumption); reflexivity ] ]).
  Qed.

  (* ================= hc_write_after_check / hc_frame: memory ================= *)
  (* the destination of a call: start register and the length register that bounds the write *)
  Definition acc_dest (c : acall) (rg : list N) : option (N * N) :=
    match c with
    | CFetch => Some (reg rg 7, reg rg 9)
    | CLookup => Some (reg rg 9, reg rg 11)
    | CRead => Some (reg rg 10, reg rg 12)
    | CInfo => Some (reg rg 8, reg rg 10)
    | _ => None
    end.
  Definition ref_dest (c : rcall) (rg : list N) : option (N * N) :=
    match c with
    | RFetch => Some (reg rg 7, reg rg 9)
    | RHist => Some (reg rg 9, reg rg 11)
    | _ => None
    end.
  (* the register holding the offset into the value *)
  Definition acc_off (c : acall) (rg : list N) : N :=
    match c with CFetch => reg rg 8 | CLookup => reg rg 10 | CRead => reg rg 11 | CInfo => reg rg 9 | _ => 0 end.
  Definition ref_off (c : rcall) (rg : list N) : N :=
    match c with RFetch => reg rg 8 | RHist => reg rg 10 | _ => 0 end.

  Ltac write_tac :=
    cbn [finish r_write r_exit]; intros Hw;
    first [ discriminate Hw
          | injection Hw as <- <-;
            split; [reflexivity |];
            split; [rewrite slice_blen by apply win_fits; assumption |];
            eexists; split; [reflexivity | rewrite slice_blen by apply win_fits; apply win_l_le] ].

  Lemma acc_write_shape c rg g m st o d :
    r_write (acc_call H e c rg g m st) = Some (o, d) ->
    r_exit (acc_call H e c rg g m st) = EContinue /\ writable m o (blen d) = true /\
    exists l, acc_dest c rg = Some (o, l) /\ blen d <= l.
  Proof.
    destruct c; hc_unfold; apply charged_ind; intros Hg; cbv zeta; hc_split; write_tac.
  Qed.

  Lemma ref_write_shape c rg g m st o d :
    r_write (ref_call e c rg g m st) = Some (o, d) ->
    r_exit (ref_call e c rg g m st) = EContinue /\ writable m o (blen d) = true /\
    exists l, ref_dest c rg = Some (o, l) /\ blen d <= l.
  Proof.
    destruct c; hc_unfold; apply charged_ind; intros Hg; cbv zeta; hc_split; write_tac.
  Qed.

  Lemma acc_mem_frame c rg g m st :
    (forall p, m_acc (mem_after m (acc_call H e c rg g m st)) p = m_acc m p) /\
    (forall a, match acc_dest c rg with Some (o, l) => ~ (o <= a < o + l) | None => True end ->
               m_byte (mem_after m (acc_call H e c rg g m st)) a = m_byte m a).
  Proof.
    unfold mem_after. destruct (r_write (acc_call H e c rg g m st)) as [[o d] |] eqn:E; [| split; reflexivity].
    apply acc_write_shape in E as (_ & _ & l & Hd & Hl). rewrite Hd. split; [reflexivity |].
    intros a Ha. apply mwrite_outside. lia.
  Qed.

  Lemma ref_mem_frame c rg g m st :
    (forall p, m_acc (mem_after m (ref_call e c rg g m st)) p = m_acc m p) /\
    (forall a, match ref_dest c rg with Some (o, l) => ~ (o <= a < o + l) | None => True end ->
               m_byte (mem_after m (ref_call e c rg g m st)) a = m_byte m a).
  Proof.
    clear H.
    unfold mem_after. destruct (r_write (ref_call e c rg g m st)) as [[o d] |] eqn:E; [| split; reflexivity].
    apply ref_write_shape in E as (_ & _ & l & Hd & Hl). rewrite Hd. split; [reflexivity |].
    intros a Ha. apply mwrite_outside. lia.
  Qed.

  (* a call that does not continue (panic, out of gas) has written nothing and changed neither registers nor context *)
  Lemma acc_stop_clean c rg g m st :
    r_exit (acc_call H e c rg g m st) <> EContinue ->
    r_write (acc_call H e c rg g m st) = None /\ r_regs (acc_call H e c rg g m st) = rg /\ r_ctx (acc_call H e c rg g m st) = st.
  Proof.
    destruct c; hc_unfold; apply charged_ind; intros Hg; cbv zeta; hc_split; cbn [finish r_write r_exit r_regs r_ctx];
      intros Hx; try congruence; repeat split; reflexivity.
  Qed.
  Lemma ref_stop_clean c rg g m st :
    r_exit (ref_call e c rg g m st) <> EContinue ->
    r_write (ref_call e c rg g m st) = None /\ r_regs (ref_call e c rg g m st) = rg /\ r_ctx (ref_call e c rg g m st) = st.
  Proof.
    destruct c; hc_unfold; apply charged_ind; intros Hg; cbv zeta; hc_split; cbn [finish r_write r_exit r_regs r_ctx];
      intros Hx; try congruence; repeat split; reflexivity.
  Qed.

  (* a call that delivers a value: when it continues with a length in register 7, exactly
     min(l, |v| - min(f, |v|)) octets were written at the destination and that whole range was writable;
     so an unwritable window can only end in a panic *)
  Ltac value_tac L :=
    cbn [finish r_write r_exit r_regs]; intros Hx Hn;
    first [ discriminate Hx
          | rewrite ?setreg_same in * by (rewrite L; lia);
            first [ congruence
                  | eexists; split; [reflexivity |];
                    rewrite slice_blen by apply win_fits; split; [assumption | reflexivity] ] ].

  Lemma acc_value_written c rg g m st o l : length rg = 13%nat ->
    acc_dest c rg = Some (o, l) ->
    r_exit (acc_call H e c rg g m st) = EContinue ->
    nth 7 (r_regs (acc_call H e c rg g m st)) 0 <> NONE ->
    exists d, r_write (acc_call H e c rg g m st) = Some (o, d) /\ writable m o (blen d) = true /\
              blen d = N.min l (nth 7 (r_regs (acc_call H e c rg g m st)) 0 - N.min (acc_off c rg) (nth 7 (r_regs (acc_call H e c rg g m st)) 0)).
  Proof.
    intros L Hd. destruct c; cbn [acc_dest acc_off] in *; try discriminate Hd; injection Hd as <- <-;
      hc_unfold; apply charged_ind; intros Hg; cbv zeta; hc_split; value_tac L.
  Qed.

  Lemma ref_value_written c rg g m st o l : length rg = 13%nat ->
    ref_dest c rg = Some (o, l) ->
    r_exit (ref_call e c rg g m st) = EContinue ->
    nth 7 (r_regs (ref_call e c rg g m st)) 0 <> NONE ->
    exists d, r_write (ref_call e c rg g m st) = Some (o, d) /\ writable m o (blen d) = true /\
              blen d = N.min l (nth 7 (r_regs (ref_call e c rg g m st)) 0 - N.min (ref_off c rg) (nth 7 (r_regs (ref_call e c rg g m st)) 0)).
  Proof.
    clear H.
    intros L Hd. destruct c; cbn [ref_dest ref_off] in *; try discriminate Hd; injection Hd as <- <-;
      hc_unfold; apply charged_ind; intros Hg; cbv zeta; hc_split; value_tac L.
  Qed.

  (* ================= hc_unreadable_panics_clean ================= *)
  (* the input ranges a call requires *)
  Definition acc_inputs (c : acall) (rg : list N) : list (N * N) :=
    match c with
    | CLookup => [(reg rg 8, 32)]
    | CRead => [(reg rg 8, reg rg 9)]
    | CWrite => [(reg rg 7, reg rg 8); (reg rg 9, reg rg 10)]
    | CBless => [(reg rg 8, 4 * he_C e); (reg rg 11, 12 * reg rg 12)]
    | CAssign => [(reg rg 8, 32 * he_Q e)]
    | CDesignate => [(reg rg 7, 336 * he_V e)]
    | CNew | CUpgrade | CQuery | CSolicit | CForget | CYield => [(reg rg 7, 32)]
    | CTransfer => [(reg rg 10, W_T)]
    | CEject => [(reg rg 8, 32)]
    | CProvide => [(reg rg 8, reg rg 9)]
    | _ => []
    end.
  Definition ref_inputs (c : rcall) (rg : list N) : list (N * N) :=
    match c with
    | RHist => [(reg rg 8, 32)]
    | RExport => [(reg rg 7, N.min (reg rg 8) W_G)]
    | _ => []
    end.

  Local Opaque N.mul.
  Ltac unread_tac g Hg Hr :=
    hc_unfold; unfold charged, host_gas;
    destruct (Z.ltb_spec (g - 10) 0) as [Hlt | _]; [exfalso; apply (Z.lt_irrefl 0); eapply Z.le_lt_trans; [exact Hg | exact Hlt] |];
    cbv zeta; rewrite ?Hr; cbn [negb orb finish];
    first [ reflexivity
          | match goal with |- context [if negb (readable ?mm ?oo ?ll) then _ else _] => destruct (readable mm oo ll) end;
            cbn [negb finish]; rewrite ?Hr; cbn [negb finish]; reflexivity ].

  Lemma acc_unreadable_panics c rg g m st o l :
    (0 <= g - 10)%Z -> In (o, l) (acc_inputs c rg) -> readable m o l = false ->
    acc_call H e c rg g m st = mkRes EPanic rg (g - 10)%Z None st.
  Proof.
    intros Hg Hin Hr. destruct c; unfold acc_inputs in Hin;
      repeat match goal with
             | Hh : In _ [] |- _ => destruct Hh
             | Hh : In _ (_ :: _) |- _ => destruct Hh as [Hh | Hh]
             | Hh : (_, _) = (_, _) |- _ => injection Hh as <- <-
             end; unread_tac g Hg Hr.
  Qed.

  Lemma ref_unreadable_panics c rg g m st o l :
    (0 <= g - 10)%Z -> In (o, l) (ref_inputs c rg) -> readable m o l = false ->
    ref_call e c rg g m st = mkRes EPanic rg (g - 10)%Z None st.
  Proof.
    intros Hg Hin Hr. destruct c; unfold ref_inputs in Hin;
      repeat match goal with
             | Hh : In _ [] |- _ => destruct Hh
             | Hh : In _ (_ :: _) |- _ => destruct Hh as [Hh | Hh]
             | Hh : (_, _) = (_, _) |- _ => injection Hh as <- <-
             end; unread_tac g Hg Hr.
  Qed.

  Local Transparent N.mul.

  (* new additionally panics when the declared code length is not a 32-bit value *)
  Lemma new_long_code_panics rg g m st :
    (0 <= g - 10)%Z -> two32 <= reg rg 8 -> acc_call H e CNew rg g m st = mkRes EPanic rg (g - 10)%Z None st.
  Proof.
    intros Hg Hl. hc_unfold. unfold charged, host_gas. destruct (Z.ltb_spec (g - 10) 0); [lia |]. cbv zeta.
    destruct (N.leb_spec two32 (reg rg 8)); [| lia]. rewrite orb_true_r. reflexivity.
  Qed.

  (* ================= hc_error_no_state_change ================= *)
  Lemma not_error_small n : n < two32 -> ~ In n error_codes.
  Proof.
    unfold error_codes, NONE, WHAT, OOB, WHO, FULL, CORE, CASH, LOW, HUH, two64, two32. cbn [In]. lia.
  Qed.
  Lemma gas_word_small g : (0 <= g - 10)%Z -> (g < 2 ^ 63)%Z -> ~ In (gas_word (g - 10)) error_codes.
  Proof.
    intros A B. unfold gas_word, error_codes, NONE, WHAT, OOB, WHO, FULL, CORE, CASH, LOW, HUH, two64. cbn [In].
    assert (Z.to_N (g - 10) < 9223372036854775808) by lia.
    rewrite N.mod_small by lia. lia.
  Qed.
  Lemma with_base_same x : with_base x (x_base x) = x.
  Proof. destruct x; reflexivity. Qed.
  Lemma state_same (st : astate) : (with_base (fst st) (x_base (fst st)), snd st) = st.
  Proof. rewrite with_base_same. destruct st; reflexivity. Qed.

  (* the values a changed context can come with stay far below the codes on contexts of machine size *)
  Definition acc_bounded (g : Z) (st : astate) : Prop :=
    (g < 2 ^ 63)%Z /\ c_next (x_base (fst st)) < two32 /\
    (forall s k v, get (he_self e) (c_accts (x_base (fst st))) = Some s ->
                   al_get bytes_eqb k (a_storage s) = Some v -> blen v < two32).

  Lemma acc_error_no_change c rg g m st : length rg = 13%nat -> acc_bounded g st ->
    In (nth 7 (r_regs (acc_call H e c rg g m st)) 0) error_codes ->
    ~ (c = CWrite /\ nth 7 (r_regs (acc_call H e c rg g m st)) 0 = NONE) ->
    r_ctx (acc_call H e c rg g m st) = st.
  Proof.
    intros L (Bg & Bn & Bs).
    destruct c; hc_unfold; apply charged_ind; intros Hg; cbv zeta; hc_split; cbn [finish r_regs r_ctx]; intros Hin Hnw;
      try reflexivity;
      rewrite ?setreg_same in Hin, Hnw by (rewrite L; lia);
      try (exfalso; revert Hin; apply not_error_small; reflexivity);
      try (exfalso; revert Hin; apply gas_word_small; assumption).
    - (* write *)
      destruct (call_write_ret _ _ _ _ _ _ _ Heqp) as [-> | [-> | (s & ov & Hs & Hov & ->)]].
      + apply state_same.
      + exfalso. apply Hnw. split; reflexivity.
      + exfalso. revert Hin. apply not_error_small. cbn [code_of]. exact (Bs _ _ _ Hs Hov).
    - (* new *)
      destruct (call_new_ret _ _ _ _ _ _ _ _ _ _ _ Heqp) as [-> | [(-> & Hi) | ->]].
      + apply state_same.
      + exfalso. revert Hin. apply not_error_small. cbn [code_of]. unfold Smin, two32 in *. lia.
      + exfalso. revert Hin. apply not_error_small. exact Bn.
    - destruct (call_upgrade_ret _ _ _ _ _ _ _ Heqp) as [-> | ->];
        [apply state_same | exfalso; revert Hin; apply not_error_small; reflexivity].
    - destruct (call_eject_ret _ _ _ _ _ _ _ Heqp) as [-> | ->];
        [apply state_same | exfalso; revert Hin; apply not_error_small; reflexivity].
    - destruct (call_solicit_ret _ _ _ _ _ _ _ Heqp) as [-> | ->];
        [apply state_same | exfalso; revert Hin; apply not_error_small; reflexivity].
    - destruct (call_forget_ret _ _ _ _ _ _ Heqp) as [-> | ->];
        [apply state_same | exfalso; revert Hin; apply not_error_small; reflexivity].
  Qed.

  Lemma ref_error_no_change c rg g m st : length rg = 13%nat ->
    In (nth 7 (r_regs (ref_call e c rg g m st)) 0) error_codes ->
    r_ctx (ref_call e c rg g m st) = st.
  Proof.
    clear H.
    intros L.
    destruct c; hc_unfold; apply charged_ind; intros Hg; cbv zeta; hc_split; cbn [finish r_regs r_ctx]; intros Hin;
      try reflexivity;
      rewrite ?setreg_same in Hin by (rewrite L; lia).
    exfalso. revert Hin. apply not_error_small.
    match goal with Hb : (W_X <=? _) = false |- _ => apply N.leb_gt in Hb; unfold W_X, two32 in *; lia end.
  Qed.

  (* write: the only call whose status NONE accompanies a change (no previous value); a deletion of an absent key
     (value length 0) still changes nothing *)

  (* ================= hc_unknown_is_what ================= *)
  Lemma unknown_result {C} rg g m (st : C) :
    hc_unknown rg g m st =
    if (g - 10 <? 0)%Z then mkRes EOOG rg (g - 10)%Z None st
    else mkRes EContinue (setreg 7 WHAT rg) (g - 10)%Z None st.
  Proof. reflexivity. Qed.
End Discipline.

Definition acc_defined : list N := [0; 1; 2; 3; 4; 5; 14; 15; 16; 17; 18; 19; 20; 21; 22; 23; 24; 25; 26; 100].
Definition ref_defined : list N := [0; 1; 6; 7; 8; 9; 10; 11; 12; 13; 100].
Definition auth_defined : list N := [0; 1; 100].

Lemma acc_table_unknown id : acc_table id = CUnknown <-> ~ In id acc_defined.
Proof.
  unfold acc_table, acc_defined. cbn [In].
  repeat match goal with |- context [?a =? ?b] => destruct (N.eqb_spec a b) end;
    split; intros A; try discriminate; try reflexivity; try lia; exfalso; apply A; lia.
Qed.
Lemma ref_table_unknown id : ref_table id = Some RUnknown <-> ~ In id ref_defined.
Proof.
  unfold ref_table, ref_defined. cbn [In].
  repeat match goal with |- context [?a =? ?b] => destruct (N.eqb_spec a b) end;
    destruct (N.leb_spec 8 id); destruct (N.leb_spec id 13); cbn [andb];
    split; intros A; try discriminate; try reflexivity; try lia; exfalso; apply A; lia.
Qed.
Lemma auth_table_unknown id : auth_table id = RUnknown <-> ~ In id auth_defined.
Proof.
  unfold auth_table, auth_defined. cbn [In].
  repeat match goal with |- context [?a =? ?b] => destruct (N.eqb_spec a b) end;
    split; intros A; try discriminate; try reflexivity; try lia; exfalso; apply A; lia.
Qed.


(* ------------------------------------------------------------------------------------------ *)
(* hc_frame: the context fields each call may change *)
Lemma upd_nth_other {A} (d v : A) : forall i k (l : list A), k <> i -> nth k (upd_nth i v l) d = nth k l d.
Proof.
  induction i; intros k l Hk; destruct l as [| x l]; cbn [upd_nth nth]; try reflexivity.
  - destruct k; [congruence | reflexivity].
  - destruct k; [reflexivity | apply IHi; congruence].
Qed.

Section CtxFrame.
  Variable H : bytes -> bytes.
  Variable e : henv.

  (* nothing but the service-account part (accounts, deferred transfers, next identifier) differs *)
  Definition only_base (x x' : actx) : Prop :=
    x_privs x' = x_privs x /\ x_authq x' = x_authq x /\ x_valkeys x' = x_valkeys x /\
    x_yield x' = x_yield x /\ x_provided x' = x_provided x.

  Definition acc_ctx_frame (c : acall) (rg : list N) (st st' : astate) : Prop :=
    let x := fst st in let x' := fst st' in let b := x_base x in let b' := x_base x' in
    match c with
    | CGas | CFetch | CLookup | CRead | CInfo | CLog | CQuery | CUnknown => st' = st
    | CCheckpoint => st' = st \/ st' = (x, x)
    | CWrite | CSolicit | CForget | CUpgrade =>
      snd st' = snd st /\ only_base x x' /\ c_xfers b' = c_xfers b /\ c_next b' = c_next b /\ outside [he_self e] b b'
    | CTransfer =>
      snd st' = snd st /\ only_base x x' /\ c_next b' = c_next b /\ outside [he_self e] b b' /\
      (c_xfers b' = c_xfers b \/
       exists memo, c_xfers b' = c_xfers b ++ [mkXfer (he_self e) (reg rg 7) (reg rg 8) memo (reg rg 9)])
    | CEject =>
      snd st' = snd st /\ only_base x x' /\ c_xfers b' = c_xfers b /\ c_next b' = c_next b /\
      outside [he_self e; reg rg 7] b b'
    | CNew =>
      snd st' = snd st /\ only_base x x' /\ c_xfers b' = c_xfers b /\ outside [he_self e; reg rg 12; c_next b] b b'
    | CBless =>
      snd st' = snd st /\ b' = b /\ x_authq x' = x_authq x /\ x_valkeys x' = x_valkeys x /\
      x_yield x' = x_yield x /\ x_provided x' = x_provided x
    | CAssign =>
      snd st' = snd st /\ b' = b /\ x_valkeys x' = x_valkeys x /\ x_yield x' = x_yield x /\ x_provided x' = x_provided x /\
      p_manager (x_privs x') = p_manager (x_privs x) /\ p_designator (x_privs x') = p_designator (x_privs x) /\
      p_registrar (x_privs x') = p_registrar (x_privs x) /\ p_always (x_privs x') = p_always (x_privs x) /\
      (forall k, k <> N.to_nat (reg rg 7) ->
                 nth k (p_assigners (x_privs x')) 0 = nth k (p_assigners (x_privs x)) 0 /\
                 nth k (x_authq x') [] = nth k (x_authq x) [])
    | CDesignate =>
      snd st' = snd st /\ b' = b /\ x_privs x' = x_privs x /\ x_authq x' = x_authq x /\
      x_yield x' = x_yield x /\ x_provided x' = x_provided x
    | CYield =>
      snd st' = snd st /\ b' = b /\ x_privs x' = x_privs x /\ x_authq x' = x_authq x /\
      x_valkeys x' = x_valkeys x /\ x_provided x' = x_provided x
    | CProvide =>
      snd st' = snd st /\ b' = b /\ x_privs x' = x_privs x /\ x_authq x' = x_authq x /\
      x_valkeys x' = x_valkeys x /\ x_yield x' = x_yield x /\
      (x_provided x' = x_provided x \/ exists p, x_provided x' = x_provided x ++ [p])
    end.

  Ltac same_tac :=
    cbn [finish r_ctx fst snd]; unfold only_base;
    repeat split;
    first [ reflexivity | apply outside_refl | left; reflexivity | intros; split; reflexivity ].

  Lemma acc_ctx_frame_holds c rg g m st : acc_ctx_frame c rg st (r_ctx (acc_call H e c rg g m st)).
  Proof.
    destruct c; unfold acc_ctx_frame; hc_unfold; apply charged_ind; intros Hg; cbv zeta; hc_split; try solve [same_tac];
      cbn [finish r_ctx fst snd with_base x_base x_privs x_authq x_valkeys x_yield x_provided
           p_manager p_assigners p_designator p_registrar p_always]; unfold only_base;
      cbn [x_base x_privs x_authq x_valkeys x_yield x_provided].
    - (* write *)
      destruct (call_write_frame _ _ _ _ _ _ _ Heqp) as (A & B & C). repeat split; assumption.
    - (* assign *)
      repeat split; apply upd_nth_other; assumption.
    - (* checkpoint *)
      right. reflexivity.
    - (* new *)
      destruct (call_new_frame _ _ _ _ _ _ _ _ _ _ _ Heqp) as (A & B). repeat split; assumption.
    - (* upgrade *)
      destruct (call_upgrade_frame _ _ _ _ _ _ _ Heqp) as (A & B & C). repeat split; assumption.
    - (* transfer *)
      destruct (call_transfer_frame _ _ _ _ _ _ _ _ _ Heqp) as (A & B & C). repeat split; try assumption.
      destruct A as [A | A]; [left; exact A | right; eexists; exact A].
    - (* eject *)
      destruct (call_eject_frame _ _ _ _ _ _ _ Heqp) as (A & B & C). repeat split; assumption.
    - (* solicit *)
      destruct (call_solicit_frame _ _ _ _ _ _ _ Heqp) as (A & B & C). repeat split; assumption.
    - (* forget *)
      destruct (call_forget_frame _ _ _ _ _ _ Heqp) as (A & B & C). repeat split; assumption.
    - (* provide *)
      repeat split. right. eexists. reflexivity.
  Qed.

  Definition ref_ctx_frame (c : rcall) (st st' : rctx) : Prop :=
    match c with
    | RExport => rc_exports st' = rc_exports st \/ exists seg, rc_exports st' = rc_exports st ++ [seg] /\ blen seg = W_G
    | _ => st' = st
    end.

  Lemma ref_ctx_frame_holds c rg g m st : ref_ctx_frame c st (r_ctx (ref_call e c rg g m st)).
  Proof.
    clear H.
    destruct c; unfold ref_ctx_frame; hc_unfold; apply charged_ind; intros Hg; cbv zeta; hc_split;
      cbn [finish r_ctx rc_exports]; try reflexivity; try (left; reflexivity).
    right. eexists. split; [reflexivity |].
    unfold blen, zeros. rewrite app_length, mread_length, repeat_length. unfold W_G. lia.
  Qed.
End CtxFrame.

(* ------------------------------------------------------------------------------------------ *)
(* the statements of Properties/C07.v, assembled *)
Lemma hc_frame_acc H e c rg g m st : length rg = 13%nat ->
  (length (r_regs (acc_call H e c rg g m st)) = 13%nat /\
   forall i, i <> 7%nat -> (i <> 8%nat \/ c <> CQuery) -> nth i (r_regs (acc_call H e c rg g m st)) 0 = nth i rg 0) /\
  ((forall p, m_acc (mem_after m (acc_call H e c rg g m st)) p = m_acc m p) /\
   (forall a, match acc_dest c rg with Some (o, l) => ~ (o <= a < o + l) | None => True end ->
              m_byte (mem_after m (acc_call H e c rg g m st)) a = m_byte m a)) /\
  acc_ctx_frame e c rg st (r_ctx (acc_call H e c rg g m st)).
Proof.
  intros L. split; [apply acc_regs_frame; exact L | split; [apply acc_mem_frame | apply acc_ctx_frame_holds]].
Qed.

Lemma hc_frame_ref e c rg g m st : length rg = 13%nat ->
  (length (r_regs (ref_call e c rg g m st)) = 13%nat /\
   forall i, i <> 7%nat -> nth i (r_regs (ref_call e c rg g m st)) 0 = nth i rg 0) /\
  ((forall p, m_acc (mem_after m (ref_call e c rg g m st)) p = m_acc m p) /\
   (forall a, match ref_dest c rg with Some (o, l) => ~ (o <= a < o + l) | None => True end ->
              m_byte (mem_after m (ref_call e c rg g m st)) a = m_byte m a)) /\
  ref_ctx_frame c st (r_ctx (ref_call e c rg g m st)).
Proof.
  intros L. split; [apply ref_regs_frame; exact L | split; [apply ref_mem_frame | apply ref_ctx_frame_holds]].
Qed.

(* written => the whole written range was writable (pointwise: every address of it lies below 2^32 on a
   read-write page), it starts at the destination register and is no longer than the length register;
   not continuing => nothing written, registers and context as before;
   continuing with a length => exactly the window was written *)
Lemma hc_write_after_check_acc H e c rg g m st : length rg = 13%nat ->
  (forall o d, r_write (acc_call H e c rg g m st) = Some (o, d) ->
     r_exit (acc_call H e c rg g m st) = EContinue /\ range_spec can_write m o (blen d) /\
     exists l, acc_dest c rg = Some (o, l) /\ blen d <= l) /\
  (r_exit (acc_call H e c rg g m st) <> EContinue ->
     r_write (acc_call H e c rg g m st) = None /\ r_regs (acc_call H e c rg g m st) = rg /\
     r_ctx (acc_call H e c rg g m st) = st) /\
  (forall o l, acc_dest c rg = Some (o, l) -> r_exit (acc_call H e c rg g m st) = EContinue ->
     nth 7 (r_regs (acc_call H e c rg g m st)) 0 <> NONE ->
     exists d, r_write (acc_call H e c rg g m st) = Some (o, d) /\ range_spec can_write m o (blen d) /\
       blen d = N.min l (nth 7 (r_regs (acc_call H e c rg g m st)) 0 -
                         N.min (acc_off c rg) (nth 7 (r_regs (acc_call H e c rg g m st)) 0))).
Proof.
  intros L. split; [| split].
  - intros o d Hw. destruct (acc_write_shape H e c rg g m st o d Hw) as (A & B & C).
    split; [exact A | split; [apply writable_spec; exact B | exact C]].
  - apply acc_stop_clean.
  - intros o l Hd Hx Hn. destruct (acc_value_written H e c rg g m st o l L Hd Hx Hn) as (d & A & B & C).
    exists d. split; [exact A | split; [apply writable_spec; exact B | exact C]].
Qed.

Lemma hc_write_after_check_ref e c rg g m st : length rg = 13%nat ->
  (forall o d, r_write (ref_call e c rg g m st) = Some (o, d) ->
     r_exit (ref_call e c rg g m st) = EContinue /\ range_spec can_write m o (blen d) /\
     exists l, ref_dest c rg = Some (o, l) /\ blen d <= l) /\
  (r_exit (ref_call e c rg g m st) <> EContinue ->
     r_write (ref_call e c rg g m st) = None /\ r_regs (ref_call e c rg g m st) = rg /\
     r_ctx (ref_call e c rg g m st) = st) /\
  (forall o l, ref_dest c rg = Some (o, l) -> r_exit (ref_call e c rg g m st) = EContinue ->
     nth 7 (r_regs (ref_call e c rg g m st)) 0 <> NONE ->
     exists d, r_write (ref_call e c rg g m st) = Some (o, d) /\ range_spec can_write m o (blen d) /\
       blen d = N.min l (nth 7 (r_regs (ref_call e c rg g m st)) 0 -
                         N.min (ref_off c rg) (nth 7 (r_regs (ref_call e c rg g m st)) 0))).
Proof.
  intros L. split; [| split].
  - intros o d Hw. destruct (ref_write_shape e c rg g m st o d Hw) as (A & B & C).
    split; [exact A | split; [apply writable_spec; exact B | exact C]].
  - apply ref_stop_clean.
  - intros o l Hd Hx Hn. destruct (ref_value_written e c rg g m st o l L Hd Hx Hn) as (d & A & B & C).
    exists d. split; [exact A | split; [apply writable_spec; exact B | exact C]].
Qed.

(* an input range that is not wholly readable (pointwise: some address of it is at or above 2^32 or on an
   inaccessible page) *)
Lemma hc_unreadable_panics_clean_acc H e c rg g m st o l :
  (0 <= g - 10)%Z -> In (o, l) (acc_inputs e c rg) -> ~ range_spec can_read m o l ->
  acc_call H e c rg g m st = mkRes EPanic rg (g - 10)%Z None st.
Proof.
  intros Hg Hin Hr. apply (acc_unreadable_panics H e c rg g m st o l Hg Hin).
  destruct (readable m o l) eqn:E; [| reflexivity]. exfalso. apply Hr. apply readable_spec. exact E.
Qed.
Lemma hc_unreadable_panics_clean_ref e c rg g m st o l :
  (0 <= g - 10)%Z -> In (o, l) (ref_inputs c rg) -> ~ range_spec can_read m o l ->
  ref_call e c rg g m st = mkRes EPanic rg (g - 10)%Z None st.
Proof.
  intros Hg Hin Hr. apply (ref_unreadable_panics e c rg g m st o l Hg Hin).
  destruct (readable m o l) eqn:E; [| reflexivity]. exfalso. apply Hr. apply readable_spec. exact E.
Qed.

Lemma hc_unknown_is_what :
  (forall id, acc_table id = CUnknown <-> ~ In id acc_defined) /\
  (forall id, ref_table id = Some RUnknown <-> ~ In id ref_defined) /\
  (forall id, auth_table id = RUnknown <-> ~ In id auth_defined) /\
  (forall (C : Type) rg g m (st : C), length rg = 13%nat ->
     ((0 <= g - 10)%Z ->
        r_exit (hc_unknown rg g m st) = EContinue /\ r_gas (hc_unknown rg g m st) = (g - 10)%Z /\
        nth 7 (r_regs (hc_unknown rg g m st)) 0 = WHAT /\
        (forall i, i <> 7%nat -> nth i (r_regs (hc_unknown rg g m st)) 0 = nth i rg 0) /\
        r_write (hc_unknown rg g m st) = None /\ r_ctx (hc_unknown rg g m st) = st) /\
     ((g - 10 < 0)%Z -> hc_unknown rg g m st = mkRes EOOG rg (g - 10)%Z None st)).
Proof.
  split; [exact acc_table_unknown | split; [exact ref_table_unknown | split; [exact auth_table_unknown |]]].
  intros C rg g m st L. rewrite unknown_result. split; intros Hg.
  - destruct (Z.ltb_spec (g - 10) 0); [lia |]. cbn [r_exit r_gas r_regs r_write r_ctx].
    repeat split.
    + apply setreg_same. rewrite L. lia.
    + intros i Hi. apply setreg_other; [rewrite L; lia | exact Hi].
  - destruct (Z.ltb_spec (g - 10) 0); [reflexivity | lia].
Qed.

(* the identifier classes of the property: undefined small, refine calls in the accumulate table, everything above 100
   (so every identifier > 255 and every sign-extended immediate) *)
Lemma acc_unknown_classes id :
  (6 <= id <= 13 \/ 27 <= id <= 99 \/ 101 <= id) -> acc_table id = CUnknown.
Proof.
  intros Hc. apply acc_table_unknown. unfold acc_defined. cbn [In]. lia.
Qed.
Lemma ref_unknown_classes id :
  (2 <= id <= 5 \/ 14 <= id <= 99 \/ 101 <= id) -> ref_table id = Some RUnknown.
Proof.
  intros Hc. apply ref_table_unknown. unfold ref_defined. cbn [In]. lia.
Qed.
Lemma auth_unknown_classes id :
  (2 <= id <= 99 \/ 101 <= id) -> auth_table id = RUnknown.
Proof.
  intros Hc. apply auth_table_unknown. unfold auth_defined. cbn [In]. lia.
Qed.
