(* C24 proofs: the impl-shaped transition refines the per-core formula; size invariant; absent authorizers. *)
From JamV Require Import Base.Bytes Model.StfLists Proofs.StfListsP Model.AuthPool.
From Coq Require Import ZifyBool ZifyNat ZifyN.
Local Open Scope N_scope.

Lemma remove_all_first_cons x u p : remove_all_first (x :: u) p = remove_all_first u (remove_first x p).
Proof. reflexivity. Qed.

Lemma remove_all_first_length_le u p : (length (remove_all_first u p) <= length p)%nat.
Proof.
  revert p; induction u as [|x u IH]; intros p; [cbn; lia|].
  rewrite remove_all_first_cons. etransitivity; [apply IH|apply remove_first_length_le].
Qed.

Lemma remove_all_first_absent u p : (forall a, In a u -> ~ In a p) -> remove_all_first u p = p.
Proof.
  revert p; induction u as [|x u IH]; intros p H; [reflexivity|].
  rewrite remove_all_first_cons, remove_first_absent by (apply H; now left).
  apply IH. intros a Ha. apply H. now right.
Qed.

Lemma remove_used_length gs alpha : length (remove_used gs alpha) = length alpha.
Proof.
  unfold remove_used. revert alpha; induction gs as [|g gs IH]; intros alpha; cbn; [reflexivity|].
  rewrite IH. apply upd_nth_length.
Qed.

(* the sequential pass over the whole extrinsic = per-core removal of that core's used authorizers *)
Lemma remove_used_nth gs alpha c :
  nth_error (remove_used gs alpha) c = option_map (remove_all_first (used_by c gs)) (nth_error alpha c).
Proof.
  unfold remove_used. revert alpha; induction gs as [|[k a] gs IH]; intros alpha.
  - cbn. destruct (nth_error alpha c); reflexivity.
  - cbn [fold_left fst snd]. rewrite IH. rewrite upd_nth_nth_error.
    unfold used_by. cbn [filter fst]. destruct (Nat.eqb k c) eqn:E.
    + cbn [map snd]. destruct (nth_error alpha c); reflexivity.
    + reflexivity.
Qed.

Lemma alpha_step_length O t gs alpha varphi :
  length (alpha_step O t gs alpha varphi) = Nat.min (length alpha) (length varphi).
Proof. unfold alpha_step. now rewrite zip_with_length, remove_used_length. Qed.

Lemma alpha_step_nth O t gs alpha varphi c p q :
  nth_error alpha c = Some p -> nth_error varphi c = Some q ->
  nth_error (alpha_step O t gs alpha varphi) c =
  Some (append_queue O t (remove_all_first (used_by c gs) p) q).
Proof.
  intros Hp Hq. unfold alpha_step. rewrite zip_with_nth_error, remove_used_nth, Hp, Hq. reflexivity.
Qed.

(* pool_spec: alpha'[c] = lastn O (remove_first* used alpha[c] ++ [varphi[c][t mod Q]]) *)
Lemma pool_spec O t gs alpha varphi c p q e :
  nth_error alpha c = Some p -> nth_error varphi c = Some q -> queue_entry t q = Some e ->
  nth_error (alpha_step O t gs alpha varphi) c = Some (pool_spec_fn O (used_by c gs) p e).
Proof.
  intros Hp Hq He. rewrite (alpha_step_nth _ _ _ _ _ _ _ _ Hp Hq).
  unfold append_queue, pool_spec_fn. now rewrite He.
Qed.

(* the queue entry is the one at index slot mod Q, for a queue of Q > 0 entries *)
Lemma queue_entry_spec t q : q <> [] ->
  exists e, queue_entry t q = Some e /\ nth_error q (N.to_nat (t mod N.of_nat (length q))) = Some e.
Proof.
  intros Hq. unfold queue_entry. destruct q as [|x q']; [congruence|].
  set (l := x :: q') in *.
  destruct (nth_error l (N.to_nat (t mod N.of_nat (length l)))) eqn:E.
  - eauto.
  - exfalso. apply nth_error_None in E.
    assert (Hpos : N.of_nat (length l) <> 0) by (subst l; cbn [length]; lia).
    pose proof (N.mod_lt t _ Hpos). lia.
Qed.

Lemma queue_entry_nil t : queue_entry t [] = None.
Proof. reflexivity. Qed.

(* the kept entries are the most recent ones: a suffix of (removed pool ++ [entry]) ending in the entry *)
Lemma pool_spec_suffix O used p e : (0 < O)%nat ->
  exists dropped kept, remove_all_first used p ++ [e] = dropped ++ pool_spec_fn O used p e
    /\ pool_spec_fn O used p e = kept ++ [e]
    /\ length dropped = (length (remove_all_first used p) + 1 - O)%nat.
Proof.
  intros HO. unfold pool_spec_fn. set (r := remove_all_first used p). clearbody r.
  destruct (lastn_suffix O (r ++ [e])) as (d & Hd & Hl).
  rewrite app_length in Hl. cbn [length] in Hl.
  exists d. exists (skipn (length d) r). repeat split; [exact Hd| |exact Hl].
  unfold lastn. rewrite app_length. cbn [length].
  rewrite <- Hl. rewrite skipn_app.
  assert (Hle : (length d <= length r)%nat) by lia.
  replace (length d - length r)%nat with 0%nat by lia. reflexivity.
Qed.

(* ---------- pools never exceed O ---------- *)
Definition pools_le (O : nat) (alpha : list pool) : Prop := Forall (fun p => (length p <= O)%nat) alpha.

Lemma append_queue_le O t p q : (length p <= O)%nat -> (length (append_queue O t p q) <= O)%nat.
Proof. intros H. unfold append_queue. destruct (queue_entry t q); [apply lastn_le|assumption]. Qed.

Lemma append_queue_le_nonempty O t p q : q <> [] -> (length (append_queue O t p q) <= O)%nat.
Proof.
  intros H. unfold append_queue. destruct (queue_entry_spec t q H) as (e & -> & _). apply lastn_le.
Qed.

Lemma remove_used_le O gs alpha : pools_le O alpha -> pools_le O (remove_used gs alpha).
Proof.
  unfold pools_le. intros H. rewrite Forall_forall in *. intros p Hin.
  apply In_nth_error in Hin as (c & Hc). rewrite remove_used_nth in Hc.
  destruct (nth_error alpha c) as [p0|] eqn:E; [|discriminate]. cbn in Hc. inversion Hc; subst.
  etransitivity; [apply remove_all_first_length_le|]. apply H. eapply nth_error_In; eassumption.
Qed.

Lemma alpha_step_le O t gs alpha varphi : pools_le O alpha -> pools_le O (alpha_step O t gs alpha varphi).
Proof.
  intros H. apply (remove_used_le _ gs) in H. unfold pools_le, alpha_step in *.
  apply Forall_zip_with. intros p q Hp _. apply append_queue_le. rewrite Forall_forall in H. now apply H.
Qed.

(* whatever the prior pools were, one block with non-empty queues brings every pool within O *)
Lemma alpha_step_le_any O t gs alpha varphi :
  Forall (fun q => q <> []) varphi -> pools_le O (alpha_step O t gs alpha varphi).
Proof.
  intros H. unfold pools_le, alpha_step. apply Forall_zip_with. intros p q _ Hq.
  apply append_queue_le_nonempty. rewrite Forall_forall in H. now apply H.
Qed.

(* invariant over any history of blocks *)
Lemma alpha_run_le O alpha0 bs : pools_le O alpha0 -> pools_le O (alpha_run O alpha0 bs).
Proof.
  unfold alpha_run. revert alpha0; induction bs as [|b bs IH]; intros alpha0 H; cbn; [assumption|].
  apply IH. now apply alpha_step_le.
Qed.

Lemma alpha_run_snoc O alpha0 bs b :
  alpha_run O alpha0 (bs ++ [b]) = alpha_step O (ab_slot b) (ab_gs b) (alpha_run O alpha0 bs) (ab_varphi b).
Proof. unfold alpha_run. now rewrite fold_left_app. Qed.

Lemma alpha_run_le_any O alpha0 bs :
  bs <> [] -> Forall (fun b => Forall (fun q => q <> []) (ab_varphi b)) bs -> pools_le O (alpha_run O alpha0 bs).
Proof.
  intros Hne Hq. destruct bs as [|b bs]; [congruence|].
  inversion Hq as [|? ? Hb Hbs]; subst. unfold alpha_run. cbn [fold_left].
  apply (alpha_run_le O _ bs). now apply alpha_step_le_any.
Qed.

(* the checked step never fails on in-range priors or non-empty queues *)
Lemma pools_valid_iff O alpha : pools_valid O alpha = true <-> pools_le O alpha.
Proof.
  unfold pools_valid, pools_le. rewrite forallb_forall, Forall_forall.
  split; intros H p Hp; specialize (H p Hp); [now apply Nat.leb_le|now apply Nat.leb_le].
Qed.

Lemma alpha_step_checked_ok O t gs alpha varphi :
  pools_le O alpha \/ Forall (fun q => q <> []) varphi ->
  alpha_step_checked O t gs alpha varphi = Some (alpha_step O t gs alpha varphi).
Proof.
  intros H. unfold alpha_step_checked.
  assert (Hv : pools_valid O (alpha_step O t gs alpha varphi) = true).
  { apply pools_valid_iff. destruct H; [now apply alpha_step_le|now apply alpha_step_le_any]. }
  now rewrite Hv.
Qed.

(* ---------- authorizers absent from the pool ---------- *)
Lemma absent_authorizer_noop O t gs alpha varphi c p q e :
  nth_error alpha c = Some p -> nth_error varphi c = Some q -> queue_entry t q = Some e ->
  (forall a, In a (used_by c gs) -> ~ In a p) ->
  nth_error (alpha_step O t gs alpha varphi) c = Some (lastn O (p ++ [e])).
Proof.
  intros Hp Hq He Habs. rewrite (pool_spec _ _ _ _ _ _ _ _ _ Hp Hq He).
  unfold pool_spec_fn. now rewrite remove_all_first_absent.
Qed.

(* a core without guarantees only receives its queue entry *)
Lemma used_by_none c gs : (forall g, In g gs -> fst g <> c) -> used_by c gs = [].
Proof.
  intros H. unfold used_by. induction gs as [|g gs IH]; [reflexivity|]. cbn [filter].
  destruct (Nat.eqb_spec (fst g) c) as [E|E]; [exfalso; eapply H; [now left|exact E]|].
  apply IH. intros g' Hg'. apply H. now right.
Qed.
