(* C03, gas progress: over the machine of Model/PvmStep.v / PvmRun.v every step that does not end the run
   lowers the gas by one, so a run (also across host calls that do not add gas) ends within gas + 1 steps. *)
From JamV Require Import Model.PvmRun Proofs.PvmStepP Proofs.PvmRunP.
Local Open Scope Z_scope.

(* a step that lets the machine go on (plain continue, or a host call that the host resumes) costs one unit *)
Lemma continuing_step_costs : forall p pc s e pc' s', step p pc s = (e, pc', s') ->
  (e = Continue \/ exists id, e = Host id) -> 1 <= gas s /\ gas s' = gas s - 1.
Proof.
  intros p pc s e pc' s' H C.
  destruct (step_costs_one _ _ _ _ _ _ H) as [(E & _)|(_ & G & G')].
  - subst e. destruct C as [C|[id C]]; discriminate.
  - split; assumption.
Qed.

(* the Psi_H loop: with a host that never adds gas, gas + 1 units of fuel always suffice *)
Lemma run_h_terminates : forall hostf, host_mono hostf ->
  forall fuel p pc s log, gas s <= Z.of_nat fuel -> run_h hostf (S fuel) p pc s log <> None.
Proof.
  intros hostf Hm. induction fuel as [|f IH]; intros p pc s log H.
  - cbn [run_h]. rewrite step_oog by lia. discriminate.
  - change (run_h hostf (S (S f)) p pc s log) with
      (let '(e, pc', s') := step p pc s in
       match e with
       | Continue => run_h hostf (S f) p pc' s' log
       | Host id =>
         match hostf id s' with
         | HCont s'' => run_h hostf (S f) p pc' s'' (id :: log)
         | HStop e' s'' => Some (e', pc', s'', id :: log)
         end
       | _ => Some (e, pc', s', log)
       end).
    destruct (step p pc s) as [[e1 pc1] s1] eqn:St.
    destruct (step_costs_one _ _ _ _ _ _ St) as [(-> & _)|(NO & G & G')].
    + discriminate.
    + destruct e1; try discriminate.
      * apply IH. lia.
      * pose proof (Hm id s1) as M. destruct (hostf id s1) as [s2|e2 s2]; [|discriminate].
        apply IH. lia.
Qed.
