(* Statements about Model/InnerVm.v (the C33 property clauses), as named propositions.
   They are proved in Proofs/InnerVmP.v and restated in full in Properties/C33.v. *)
From JamV Require Import Model.InnerVm.
Local Open Scope Z_scope.

(* ---- vocabulary ---- *)
(* the arguments of a call, read from omega_7.. *)
Definition arg (s : istate) (i : nat) : Z := greg (o_regs s) i.
(* the gas left after the 10 units every call costs *)
Definition paid (s : istate) : Z := o_gas s - 10.
(* nothing but the gas changed *)
Definition only_gas (s s' : istate) : Prop :=
  o_regs s' = o_regs s /\ o_gas s' = paid s /\ o_mem s' = o_mem s /\ o_mach s' = o_mach s.
(* nothing but the gas and omega_7 changed *)
Definition only_w7 (s s' : istate) (v : Z) : Prop :=
  o_regs s' = sreg (o_regs s) 7 v /\ o_gas s' = paid s /\ o_mem s' = o_mem s /\ o_mach s' = o_mach s.
(* every address of N_{a...+z} is [ok] and the range lies inside 2^32 (an empty range always is) *)
Definition range_prop (ok : memory -> Z -> bool) (m : memory) (a z : Z) : Prop :=
  z <= 0 \/ (a + z <= ADDR /\ forall x, a <= x < a + z -> ok m x = true).
(* the RAM m' is m except at the addresses in W, where it holds the bytes [f x]; access classes,
   the set of mapped pages and the heap pointers are those of m *)
Definition ram_written (m m' : memory) (a z : Z) (f : Z -> Z) : Prop :=
  (forall x, a <= x < a + z -> rd_byte m' x = f x) /\
  (forall x, ~ (a <= x < a + z) -> rd_byte m' x = rd_byte m x) /\
  (forall x, acc_at m' x = acc_at m x) /\
  m_hp m' = m_hp m /\ m_hl m' = m_hl m.
(* machine n became mc', every other machine is untouched *)
Definition mach_updated (ms ms' : list (Z * machine)) (n : Z) (mc' : machine) : Prop :=
  aget n ms' = Some mc' /\ forall k, k <> n -> aget k ms' = aget k ms.
Definition mach_removed (ms ms' : list (Z * machine)) (n : Z) : Prop :=
  aget n ms' = None /\ forall k, k <> n -> aget k ms' = aget k ms.

(* ---- range checks mean what they say ---- *)
Definition range_ok_readable_stmt : Prop := forall m a z, 0 <= a ->
  (range_ok readable m a z = true <-> range_prop readable m a z).
Definition range_ok_writable_stmt : Prop := forall m a z, 0 <= a ->
  (range_ok writable m a z = true <-> range_prop writable m a z).

(* ---- machine identifiers: the least natural number that is not a key ---- *)
Definition fresh_id_minimal_stmt : Prop := forall (ms : list (Z * machine)),
  0 <= fresh_id ms /\ aget (fresh_id ms) ms = None /\
  forall k, 0 <= k < fresh_id ms -> aget k ms <> None.

(* ---- every call costs 10 gas, or is not made ---- *)
Definition oog_stmt : Prop := forall c s, o_gas s < 10 ->
  exists s', hostcall c s = Some (XOog, s') /\ only_gas s s'.

(* ---- machine ---- *)
Definition empty_ram_stmt : Prop := forall x, acc_at empty_mem x = AccNone /\ rd_byte empty_mem x = 0.

Definition machine_stmt : Prop := forall s e s', 10 <= o_gas s -> hostcall CMachine s = Some (e, s') ->
  let po := arg s 7 in let pz := arg s 8 in let i := arg s 9 in
  (range_ok readable (o_mem s) po pz = false -> e = XPanic /\ only_gas s s') /\
  (range_ok readable (o_mem s) po pz = true -> e = XCont /\
     match deblob (bytesN (rd_range (o_mem s) po (Z.to_nat pz))) with
     | None => only_w7 s s' R_HUH
     | Some p =>
       let n := fresh_id (o_mach s) in
       o_regs s' = sreg (o_regs s) 7 n /\ o_gas s' = paid s /\ o_mem s' = o_mem s /\
       mach_updated (o_mach s) (o_mach s') n {| mc_prog := p; mc_mem := empty_mem; mc_pc := i |}
     end).

(* ---- pages ---- *)
(* the request is refused with HUH *)
Definition pages_bad (u : memory) (p c r : Z) : Prop :=
  4 < r \/ p < 16 \/ NPAGES <= p + c \/
  (2 < r /\ exists i, p <= i < p + c /\ acc_at u (PAGE * i) = AccNone).
(* u' is u with exactly the pages p...+c set to mode r *)
Definition pages_set (u u' : memory) (p c r : Z) : Prop :=
  (forall x, p <= x / PAGE < p + c ->
     acc_at u' x = acc_of_mode r /\ rd_byte u' x = if r <? 3 then 0 else rd_byte u x) /\
  (forall x, ~ (p <= x / PAGE < p + c) -> acc_at u' x = acc_at u x /\ rd_byte u' x = rd_byte u x) /\
  m_hp u' = m_hp u /\ m_hl u' = m_hl u.

Definition pages_stmt : Prop := forall s e s', 10 <= o_gas s -> hostcall CPages s = Some (e, s') ->
  let n := arg s 7 in let p := arg s 8 in let c := arg s 9 in let r := arg s 10 in
  0 <= p -> 0 <= c -> 0 <= r ->
  e = XCont /\
  match aget n (o_mach s) with
  | None => only_w7 s s' R_WHO
  | Some mc =>
    (pages_bad (mc_mem mc) p c r -> only_w7 s s' R_HUH) /\
    (~ pages_bad (mc_mem mc) p c r ->
       o_regs s' = sreg (o_regs s) 7 R_OK /\ o_gas s' = paid s /\ o_mem s' = o_mem s /\
       exists u', mach_updated (o_mach s) (o_mach s') n
                    {| mc_prog := mc_prog mc; mc_mem := u'; mc_pc := mc_pc mc |} /\
                  pages_set (mc_mem mc) u' p c r)
  end.

(* ---- peek: inner [a, a+z) -> outer [o, o+z) ---- *)
Definition peek_stmt : Prop := forall s e s', 10 <= o_gas s -> hostcall CPeek s = Some (e, s') ->
  let n := arg s 7 in let o := arg s 8 in let a := arg s 9 in let z := arg s 10 in
  0 <= o -> 0 <= a ->
  (range_ok writable (o_mem s) o z = false -> e = XPanic /\ only_gas s s') /\
  (range_ok writable (o_mem s) o z = true -> e = XCont /\
     match aget n (o_mach s) with
     | None => only_w7 s s' R_WHO
     | Some mc =>
       if range_ok readable (mc_mem mc) a z
       then o_regs s' = sreg (o_regs s) 7 R_OK /\ o_gas s' = paid s /\ o_mach s' = o_mach s /\
            ram_written (o_mem s) (o_mem s') o z (fun x => rd_byte (mc_mem mc) (a + (x - o)))
       else only_w7 s s' R_OOB
     end).

(* ---- poke: outer [a, a+z) -> inner [o, o+z) ---- *)
Definition poke_stmt : Prop := forall s e s', 10 <= o_gas s -> hostcall CPoke s = Some (e, s') ->
  let n := arg s 7 in let a := arg s 8 in let o := arg s 9 in let z := arg s 10 in
  0 <= o -> 0 <= a ->
  (range_ok readable (o_mem s) a z = false -> e = XPanic /\ only_gas s s') /\
  (range_ok readable (o_mem s) a z = true -> e = XCont /\
     match aget n (o_mach s) with
     | None => only_w7 s s' R_WHO
     | Some mc =>
       if range_ok writable (mc_mem mc) o z
       then o_regs s' = sreg (o_regs s) 7 R_OK /\ o_gas s' = paid s /\ o_mem s' = o_mem s /\
            exists u', mach_updated (o_mach s) (o_mach s') n
                         {| mc_prog := mc_prog mc; mc_mem := u'; mc_pc := mc_pc mc |} /\
                       ram_written (mc_mem mc) u' o z (fun x => rd_byte (o_mem s) (a + (x - o)))
       else only_w7 s s' R_OOB
     end).

(* ---- invoke ---- *)
(* the gas and the 13 registers held by the 112 bytes at o *)
Definition window_in (m : memory) (o : Z) (u : memory) : st :=
  let bs := rd_range m o 112 in
  {| regs := map (fun k => dec8_at bs (S k)) (seq 0 13); gas := gas_in (dec8_at bs 0); mem := u |}.

Definition invoke_stmt : Prop := forall s e s', 10 <= o_gas s -> hostcall CInvoke s = Some (e, s') ->
  let n := arg s 7 in let o := arg s 8 in
  0 <= o ->
  (range_ok writable (o_mem s) o 112 = false -> e = XPanic /\ only_gas s s') /\
  (range_ok writable (o_mem s) o 112 = true -> e = XCont /\
     match aget n (o_mach s) with
     | None => only_w7 s s' R_WHO
     | Some mc =>
       let s0 := window_in (o_mem s) o (mc_mem mc) in
       exists ex pc' st',
         (* Psi on the STORED program, counter and RAM with the gas and registers of the window,
            given gas + 1 steps of fuel *)
         run (S (Z.to_nat (gas s0))) (mc_prog mc) (mc_pc mc) s0 = Some (ex, pc', st') /\
         ex <> Continue /\
         (* exit kind in omega_7, fault address / host identifier in omega_8 *)
         o_regs s' = invoke_regs (o_regs s) ex /\ o_gas s' = paid s /\
         (* the window holds E_8(g') and E_8 of the 13 registers, nothing else of the outer RAM moved *)
         length (window st') = 112%nat /\
         ram_written (o_mem s) (o_mem s') o 112 (fun x => nth (Z.to_nat (x - o)) (window st') 0) /\
         (* the machine keeps its program, gets the new RAM and counter *)
         mach_updated (o_mach s) (o_mach s') n
           {| mc_prog := mc_prog mc; mc_mem := mem st'; mc_pc := pc' |}
     end).

(* what omega_7 / omega_8 are after invoke *)
Definition invoke_regs_stmt : Prop := forall r ex, (8 < length r)%nat -> ex <> Continue ->
  greg (invoke_regs r ex) 7 =
    match ex with Halt => 0 | Panic => 1 | Fault _ => 2 | Host _ => 3 | _ => 4 end /\
  greg (invoke_regs r ex) 8 =
    match ex with Fault a => a | Host id => id | _ => greg r 8 end /\
  forall i, i <> 7%nat -> i <> 8%nat -> greg (invoke_regs r ex) i = greg r i.

(* the window decodes back to what was encoded *)
Definition window_roundtrip_stmt : Prop := forall st', length (regs st') = 13%nat ->
  Forall (fun v => 0 <= v < W64) (regs st') ->
  dec8_at (window st') 0 = gas st' mod W64 /\
  forall k, (k < 13)%nat -> dec8_at (window st') (S k) = nth k (regs st') 0.

(* the inner run with its logarithmic fuel is Psi with gas + 1 steps of fuel, and always exits *)
Definition inner_run_is_run_stmt : Prop := forall p pc s,
  inner_run p pc s = run (S (Z.to_nat (gas s))) p pc s /\ inner_run p pc s <> None.

(* ---- expunge ---- *)
Definition expunge_stmt : Prop := forall s e s', 10 <= o_gas s -> hostcall CExpunge s = Some (e, s') ->
  let n := arg s 7 in
  e = XCont /\
  match aget n (o_mach s) with
  | None => only_w7 s s' R_WHO
  | Some mc => o_regs s' = sreg (o_regs s) 7 (mc_pc mc) /\ o_gas s' = paid s /\ o_mem s' = o_mem s /\
               mach_removed (o_mach s) (o_mach s') n
  end.

(* ---- totality: no state, no call, no history is stuck ---- *)
Definition inner_total_stmt : Prop := forall c s, exists e s', hostcall c s = Some (e, s').
Definition history_total_stmt : Prop := forall h s, exists e s', run_calls h s = Some (e, s').

(* ---- isolation ----
   W: the part of the OUTER RAM a call may write; R: the part it may read. *)
Definition write_window (c : call) (s : istate) : Z * Z :=
  match c with
  | CPeek => (arg s 8, arg s 10)
  | CInvoke => (arg s 8, 112)
  | _ => (0, 0)
  end.
Definition read_window (c : call) (s : istate) : Z * Z :=
  match c with
  | CMachine => (arg s 7, arg s 8)
  | CPoke => (arg s 8, arg s 10)
  | CInvoke => (arg s 8, 112)
  | _ => (0, 0)
  end.

(* no call changes a byte of the outer RAM outside its write window, nor any access class *)
Definition isolated_writes_stmt : Prop := forall c s e s', hostcall c s = Some (e, s') ->
  0 <= arg s 8 ->
  let '(a, z) := write_window c s in
  (forall x, ~ (a <= x < a + z) -> rd_byte (o_mem s') x = rd_byte (o_mem s) x) /\
  (forall x, acc_at (o_mem s') x = acc_at (o_mem s) x).

(* two outer RAMs with the same access classes that agree on the read window of the call give the
   same exit, registers, gas and inner machines, and final outer RAMs that agree wherever the
   initial ones did: nothing outside the read window is read (in particular, nothing of the outer
   RAM but the 112-byte window can reach an inner machine) *)
Definition agree_on (m1 m2 : memory) (a z : Z) : Prop := forall x, a <= x < a + z -> rd_byte m1 x = rd_byte m2 x.
Definition same_access (m1 m2 : memory) : Prop :=
  forall x, acc_at m1 x = acc_at m2 x.
Definition with_mem (s : istate) (m : memory) : istate := upd s (o_regs s) (o_gas s) m (o_mach s).

Definition isolated_reads_stmt : Prop := forall c s m2 e1 s1 e2 s2,
  0 <= arg s 7 -> 0 <= arg s 8 -> 0 <= arg s 9 ->
  same_access (o_mem s) m2 ->
  (let '(a, z) := read_window c s in agree_on (o_mem s) m2 a z) ->
  hostcall c s = Some (e1, s1) -> hostcall c (with_mem s m2) = Some (e2, s2) ->
  e1 = e2 /\ o_regs s1 = o_regs s2 /\ o_gas s1 = o_gas s2 /\ o_mach s1 = o_mach s2 /\
  same_access (o_mem s1) (o_mem s2) /\
  forall x, rd_byte (o_mem s) x = rd_byte m2 x -> rd_byte (o_mem s1) x = rd_byte (o_mem s2) x.
