(* C03, second part: SingleInitializer, the loading half of Psi_M, the allocation bound, the refuted
   (as-found) shapes, and gas progress of the machine (Model/PvmRun.v). *)
From JamV Require Import Model.PvmGo Proofs.PvmGoP.
From Coq Require Import ZifyBool ZifyNat ZifyN.
Local Open Scope N_scope.
Ltac Zify.zify_post_hook ::= Z.div_mod_to_equations.

(* ---- SingleInitializer (repaired shape) ---- *)
Definition io_post (p : gslice) (alen : N) (io : iout) : Prop :=
  gwf (io_c io) /\ within (io_c io) p /\ g_len (io_c io) <= g_len p /\
  io_alloc io <= SZ_MAP + (declared p alen / zP + 3) * SZ_PAGE.

Definition init_post (p : gslice) (alen : N) (r : res iout) : Prop :=
  match r with Ok io => io_post p alen io | Rej => True | _ => False end.

Lemma init_ok : forall p alen, gwf p -> bytes_ok (g_arr p) ->
  init_post p alen (single_initializer_go true p alen).
Proof.
  intros p alen W Hb. unfold single_initializer_go.
  pose proof (dsv_ok p W Hb) as D. unfold declared.
  destruct (decode_serialized_values p) as [b| | |]; cbn [bind dsv_post] in *; try exact I; try contradiction.
  destruct D as (Wc & Tc & Lc & Ho & Hw & Hz & Hs).
  cbn [andb]. destruct (zI <? alen) eqn:Ea; [exact I|].
  cbv zeta.
  match goal with |- context [if ?c then Rej else _] => destruct c; [exact I|] end.
  set (lo := g_len (sb_o b)) in *. set (lw := g_len (sb_w b)) in *. set (z := sb_z b) in *. set (s := sb_s b) in *.
  clearbody lo lw z s.
  assert (Ha : alen <= 16777216) by (unfold zI in Ea; lia).
  rewrite !P32_eq by lia. rewrite !Z32_eq by lia.
  assert (Q1 : lo <= Pn lo < lo + 4096) by (unfold Pn, zP; lia).
  assert (Q2 : lw <= Pn lw < lw + 4096) by (unfold Pn, zP; lia).
  assert (Q3 : s <= Pn s < s + 4096) by (unfold Pn, zP; lia).
  assert (Q4 : alen <= Pn alen <= 16777216) by (unfold Pn, zP; lia).
  assert (Q5 : lo <= Zn lo < lo + 65536) by (unfold Zn, zZ; lia).
  set (plo := Pn lo) in *. set (plw := Pn lw) in *. set (ps := Pn s) in *. set (pa := Pn alen) in *. set (zlo := Zn lo) in *.
  assert (D1 : plo mod 4096 = 0) by (unfold plo, Pn, zP; lia).
  assert (D2 : plw mod 4096 = 0) by (unfold plw, Pn, zP; lia).
  assert (D3 : ps mod 4096 = 0) by (unfold ps, Pn, zP; lia).
  assert (D4 : pa mod 4096 = 0) by (unfold pa, Pn, zP; lia).
  clearbody plo plw ps pa zlo.
  unfold zZ, zI, zP in *.
  repeat rewrite (u32_small lo) by lia. repeat rewrite (u32_small lw) by lia.
  repeat rewrite (u32_small z) by lia. repeat rewrite (u32_small alen) by lia.
  repeat rewrite (u32_small (z * 4096)) by lia.
  repeat rewrite (u32_small (65536 + lo)) by lia.
  repeat rewrite (u32_small (65536 + plo)) by lia.
  repeat rewrite (u32_small (2 * 65536 + zlo)) by lia.
  repeat rewrite (u32_small (2 * 65536 + zlo + lw)) by lia.
  repeat rewrite (u32_small (2 * 65536 + zlo + plw)) by lia.
  repeat rewrite (u32_small (2 * 65536 + zlo + plw + z * 4096)) by lia.
  replace (u32 (4294967296 - 2 * 65536 - 16777216 + 4294967296 - ps)) with (4294967296 - 2 * 65536 - 16777216 - ps)
    by (unfold u32; lia).
  repeat rewrite (u32_small (4294967296 - 65536 - 16777216 + alen)) by lia.
  repeat rewrite (u32_small (4294967296 - 65536 - 16777216 + pa)) by lia.
  destruct (seg_ok 65536 (65536 + lo) false {| m_iv := []; m_made := 0 |}) as (m1 & S1 & M1); [unfold zP; lia|].
  rewrite S1; cbn [bind].
  destruct (seg_ok (65536 + lo) (65536 + plo) true m1) as (m2 & S2 & M2); [unfold zP; lia|].
  rewrite S2; cbn [bind].
  destruct (seg_ok (2 * 65536 + zlo) (2 * 65536 + zlo + lw) false m2) as (m3 & S3 & M3); [unfold zP; lia|].
  rewrite S3; cbn [bind].
  destruct (seg_ok (2 * 65536 + zlo + lw) (2 * 65536 + zlo + plw + z * 4096) true m3) as (m4 & S4 & M4); [unfold zP; lia|].
  rewrite S4; cbn [bind].
  destruct (seg_ok (4294967296 - 2 * 65536 - 16777216 - ps) (4294967296 - 2 * 65536 - 16777216) false m4) as (m5 & S5 & M5); [unfold zP; lia|].
  rewrite S5; cbn [bind].
  destruct (seg_ok (4294967296 - 65536 - 16777216) (4294967296 - 65536 - 16777216 + alen) false m5) as (m6 & S6 & M6); [unfold zP; lia|].
  rewrite S6; cbn [bind].
  destruct (seg_ok (4294967296 - 65536 - 16777216 + alen) (4294967296 - 65536 - 16777216 + pa) true m6) as (m7 & S7 & M7); [unfold zP; lia|].
  rewrite S7; cbn [bind init_post]. unfold io_post; cbn [io_c io_alloc].
  repeat split; try assumption.
  cbn [m_made] in M1. unfold zP in *.
  assert (m_made m7 <= (z * 4096 + ps + plo + plw + pa) / 4096 + 3) by lia.
  unfold SZ_MAP, SZ_PAGE. nia.
Qed.
