(* C03, second part: SingleInitializer, the loading half of Psi_M, the allocation bound, the refuted
   (as-found) shapes, and gas progress of the machine (Model/PvmRun.v). *)
From JamV Require Import Model.PvmGo Proofs.PvmGoP.
From Coq Require Import ZifyBool ZifyNat ZifyN.
Local Open Scope N_scope.
Ltac Zify.zify_post_hook ::= Z.div_mod_to_equations.

(* ---- SingleInitializer (repaired shape) ---- *)
Definition io_post (p : gslice) (alen : N) (io : iout) : Prop :=
  gwf (io_c io) /\ within (io_c io) p /\ g_len (io_c io) <= g_len p /\
  io_alloc io <= SZ_MAP + (declared p alen / zP + 3) * SZ_PAGE.

Definition init_post (p : gslice) (alen : N) (r : res iout) : Prop :=
  match r with Ok io => io_post p alen io | Rej => True | _ => False end.

Lemma Pn_q : forall x, exists q, Pn x = 4096 * q /\ x <= 4096 * q < x + 4096.
Proof. intros x. exists ((x + 4096 - 1) / 4096). unfold Pn, zP. split; [reflexivity|lia]. Qed.

Lemma init_ok : forall p alen, gwf p -> bytes_ok (g_arr p) ->
  init_post p alen (single_initializer_go true p alen).
Proof.
  intros p alen W Hb. unfold single_initializer_go.
  pose proof (dsv_ok p W Hb) as D.
  destruct (decode_serialized_values p) as [b| | |] eqn:Dq; cbn [bind dsv_post] in *; try exact I; try contradiction.
  destruct D as (Wc & Tc & Lc & Ho & Hw & Hz & Hs).
  cbn [andb]. destruct (zI <? alen) eqn:Ea; [exact I|].
  cbv zeta.
  match goal with |- context [if ?c then Rej else _] => destruct c; [exact I|] end.
  remember (g_len (sb_o b)) as lo eqn:Rlo. remember (g_len (sb_w b)) as lw eqn:Rlw.
  remember (sb_z b) as z eqn:Rz. remember (sb_s b) as s eqn:Rs.
  assert (Ha : alen <= 16777216) by (unfold zI in Ea; lia).
  rewrite !P32_eq by lia. rewrite !Z32_eq by lia.
  assert (Q5 : lo <= Zn lo < lo + 65536) by (unfold Zn, zZ; lia).
  set (zlo := Zn lo) in *. clearbody zlo.
  destruct (Pn_q lo) as (qlo & E1 & Q1). destruct (Pn_q lw) as (qlw & E2 & Q2).
  destruct (Pn_q s) as (qs & E3 & Q3). destruct (Pn_q alen) as (qa & E4 & Q4).
  assert (DQ : declared p alen = z * 4096 + 4096 * qs + 4096 * qlo + 4096 * qlw + 4096 * qa).
  { unfold declared. rewrite Dq. rewrite <- Rlo, <- Rlw, <- Rz, <- Rs, E1, E2, E3, E4. reflexivity. }
  rewrite E1, E2, E3, E4. clear E1 E2 E3 E4.
  unfold zZ, zI, zP in *.
  repeat rewrite (u32_small lo) by lia. repeat rewrite (u32_small lw) by lia.
  repeat rewrite (u32_small z) by lia. repeat rewrite (u32_small alen) by lia.
  repeat rewrite (u32_small (z * 4096)) by lia.
  repeat rewrite (u32_small (65536 + lo)) by lia.
  repeat rewrite (u32_small (65536 + 4096 * qlo)) by lia.
  repeat rewrite (u32_small (2 * 65536 + zlo)) by lia.
  repeat rewrite (u32_small (2 * 65536 + zlo + lw)) by lia.
  repeat rewrite (u32_small (2 * 65536 + zlo + 4096 * qlw)) by lia.
  repeat rewrite (u32_small (2 * 65536 + zlo + 4096 * qlw + z * 4096)) by lia.
  replace (u32 (4294967296 - 2 * 65536 - 16777216 + 4294967296 - 4096 * qs))
    with (4294967296 - 2 * 65536 - 16777216 - 4096 * qs) by (unfold u32; lia).
  repeat rewrite (u32_small (4294967296 - 65536 - 16777216 + alen)) by lia.
  repeat rewrite (u32_small (4294967296 - 65536 - 16777216 + 4096 * qa)) by lia.
  assert (B1 : 65536 + lo + 4096 <= 4294967296) by lia.
  assert (B2 : 65536 + 4096 * qlo + 4096 <= 4294967296) by lia.
  assert (B3 : 2 * 65536 + zlo + lw + 4096 <= 4294967296) by lia.
  assert (B4 : 2 * 65536 + zlo + 4096 * qlw + z * 4096 + 4096 <= 4294967296) by lia.
  assert (B5 : 4294967296 - 2 * 65536 - 16777216 + 4096 <= 4294967296) by lia.
  assert (B6 : 4294967296 - 65536 - 16777216 + alen + 4096 <= 4294967296) by lia.
  assert (B7 : 4294967296 - 65536 - 16777216 + 4096 * qa + 4096 <= 4294967296) by lia.
  destruct (seg_ok 65536 (65536 + lo) false {| m_iv := []; m_made := 0 |} B1) as (m1 & S1 & M1).
  rewrite S1; cbn [bind].
  assert (M1' : m_made m1 <= qlo) by (cbn [m_made] in M1; unfold zP in M1; clear - M1 Q1; lia). clear M1.
  destruct (seg_ok (65536 + lo) (65536 + 4096 * qlo) true m1 B2) as (m2 & S2 & M2).
  rewrite S2; cbn [bind].
  assert (M2' : m_made m2 <= qlo + 1) by (unfold zP in M2; clear - M2 M1' Q1; lia). clear M2 M1'.
  destruct (seg_ok (2 * 65536 + zlo) (2 * 65536 + zlo + lw) false m2 B3) as (m3 & S3 & M3).
  rewrite S3; cbn [bind].
  assert (M3' : m_made m3 <= qlo + 1 + qlw) by (unfold zP in M3; clear - M3 M2' Q2; lia). clear M3 M2'.
  destruct (seg_ok (2 * 65536 + zlo + lw) (2 * 65536 + zlo + 4096 * qlw + z * 4096) true m3 B4) as (m4 & S4 & M4).
  rewrite S4; cbn [bind].
  assert (M4' : m_made m4 <= qlo + 1 + qlw + z + 1) by (unfold zP in M4; clear - M4 M3' Q2; lia). clear M4 M3'.
  destruct (seg_ok (4294967296 - 2 * 65536 - 16777216 - 4096 * qs) (4294967296 - 2 * 65536 - 16777216) false m4 B5)
    as (m5 & S5 & M5).
  rewrite S5; cbn [bind].
  assert (M5' : m_made m5 <= qlo + 1 + qlw + z + 1 + qs) by (unfold zP in M5; clear - M5 M4' Q3 Hs; lia). clear M5 M4'.
  destruct (seg_ok (4294967296 - 65536 - 16777216) (4294967296 - 65536 - 16777216 + alen) false m5 B6) as (m6 & S6 & M6).
  rewrite S6; cbn [bind].
  assert (M6' : m_made m6 <= qlo + 1 + qlw + z + 1 + qs + qa) by (unfold zP in M6; clear - M6 M5' Q4; lia). clear M6 M5'.
  destruct (seg_ok (4294967296 - 65536 - 16777216 + alen) (4294967296 - 65536 - 16777216 + 4096 * qa) true m6 B7)
    as (m7 & S7 & M7).
  rewrite S7; cbn [bind init_post]. unfold io_post; cbn [io_c io_alloc].
  assert (M7' : m_made m7 <= qlo + 1 + qlw + z + 1 + qs + qa + 1) by (unfold zP in M7; clear - M7 M6' Q4; lia).
  clear M7 M6'.
  repeat split; try assumption.
  rewrite DQ. unfold zP.
  replace ((z * 4096 + 4096 * qs + 4096 * qlo + 4096 * qlw + 4096 * qa) / 4096) with (z + qs + qlo + qlw + qa)
    by (clear; lia).
  unfold SZ_MAP, SZ_PAGE. clear - M7'. lia.
Qed.

(* ---- the loading half of Psi_M: Y, then deblob of the code Y returns ---- *)
Definition load_post (r : res (iout * gprog)) : Prop :=
  match r with
  | Ok (_, g) => gp_rok g = true /\ forall a, exists j, djump_go true g a = Ok j
  | Rej => True
  | _ => False
  end.

Lemma psi_m_load_ok : forall p alen, gwf p -> bytes_ok (g_arr p) -> gcap p + 64 < 4294967296 ->
  load_post (psi_m_load true p alen).
Proof.
  intros p alen W Hb Hc. unfold psi_m_load.
  pose proof (init_ok p alen W Hb) as I0.
  destruct (single_initializer_go true p alen) as [io| | |]; cbn [bind init_post] in *; try exact I; try contradiction.
  destruct I0 as (Wc & Tc & Lc & _).
  pose proof (deblob_ok (io_c io) Wc (within_bytes_ok _ _ Tc Hb)) as D0.
  pose proof (within_cap _ _ Tc) as Cc.
  specialize (D0 ltac:(lia)).
  destruct (deblob_go true true (io_c io)) as [g| | |]; cbn [bind deblob_post load_post] in *; try exact I; try contradiction.
  split; [apply D0|]. intros a. eapply djump_ok; exact D0.
Qed.

(* an inner-machine blob (the machine host call) goes through deblob alone *)
Definition inner_post (r : res gprog) : Prop :=
  match r with
  | Ok g => gp_rok g = true /\ forall a, exists j, djump_go true g a = Ok j
  | Rej => True
  | _ => False
  end.

Lemma deblob_inner_ok : forall d, gwf d -> bytes_ok (g_arr d) -> gcap d + 64 < 4294967296 ->
  inner_post (deblob_go true true d).
Proof.
  intros d W Hb Hc. pose proof (deblob_ok d W Hb Hc) as D0.
  destruct (deblob_go true true d) as [g| | |]; cbn [deblob_post inner_post] in *; try exact I; try contradiction.
  split; [apply D0|]. intros a. eapply djump_ok; exact D0.
Qed.

Lemma mk_slice_wf : forall b spare, gwf (mk_slice b spare).
Proof. intros. unfold gwf, gcap, mk_slice, nlen; cbn [g_arr g_len]. rewrite app_length. lia. Qed.

(* ---- the allocation bound ---- *)
Lemma alloc_deblob_bound : forall d, gwf d -> bytes_ok (g_arr d) -> gcap d + 64 < 4294967296 ->
  alloc_deblob d <= 496 * g_len d + 49232.
Proof.
  intros d W Hb Hc. unfold alloc_deblob. pose proof (deblob_ok d W Hb Hc) as D0.
  destruct (deblob_go true true d) as [g| | |]; cbn [deblob_post] in *; try lia.
  destruct D0 as (_ & _ & _ & _ & _ & _ & _ & L & A). lia.
Qed.

Lemma alloc_load_bound : forall p alen, gwf p -> bytes_ok (g_arr p) -> gcap p + 64 < 4294967296 ->
  alloc_load p alen <= alloc_bound_of p alen.
Proof.
  intros p alen W Hb Hc. unfold alloc_load, alloc_bound_of, C_BLOB, K_FIXED.
  pose proof (init_ok p alen W Hb) as I0.
  destruct (single_initializer_go true p alen) as [io| | |]; cbn [init_post] in *; try lia.
  destruct I0 as (Wc & Tc & Lc & A).
  pose proof (within_cap _ _ Tc) as Cc.
  pose proof (alloc_deblob_bound (io_c io) Wc (within_bytes_ok _ _ Tc Hb) ltac:(lia)) as B.
  unfold SZ_MAP, SZ_PAGE, zP in A.
  set (D := declared p alen) in *. clearbody D.
  set (x := alloc_deblob (io_c io)) in *. clearbody x.
  set (y := io_alloc io) in *. clearbody y.
  set (lc := g_len (io_c io)) in *. clearbody lc.
  set (lp := g_len p) in *. clearbody lp.
  clear - A B Lc. lia.
Qed.

Lemma deblob_bound : forall d, gwf d -> bytes_ok (g_arr d) -> gcap d + 64 < 4294967296 ->
  alloc_deblob d <= deblob_bound_of d.
Proof.
  intros d W Hb Hc. pose proof (alloc_deblob_bound d W Hb Hc). unfold deblob_bound_of, C_BLOB, K_FIXED. lia.
Qed.

(* ---- the shapes as found are refuted ---- *)
(* the argument-zone loop of the unrepaired initialiser: for an argument of Z_I + Z_Z - Z_P + 1 bytes the zone
   ends at 2^32 - 4095; every page-aligned address is below that, addr += ZP wraps, the loop has no exit *)
Lemma seg_loop_never_ends : forall fuel addr m,
  addr mod 4096 = 0 -> addr < 4294967296 -> seg_loop fuel addr 4294963201 false m = OutOfFuel.
Proof.
  induction fuel as [|f IH]; intros addr m Ha Hl; [reflexivity|].
  cbn [seg_loop]. destruct (addr <? 4294963201) eqn:E; [|lia].
  apply IH; unfold u32, zP; lia.
Qed.

(* ---- statements in the form Properties/C03.v quotes ---- *)
Lemma parse_never_gopanic : forall p spare alen,
  bytes_ok (p ++ spare) -> nlen (p ++ spare) + 64 < 4294967296 ->
  match psi_m_load true (mk_slice p spare) alen with
  | Ok (_, g) => gp_rok g = true /\ forall a, exists j, djump_go true g a = Ok j
  | Rej => True
  | GoPanic => False
  | OutOfFuel => False
  end.
Proof. intros p spare alen Hb Hc. exact (psi_m_load_ok (mk_slice p spare) alen (mk_slice_wf p spare) Hb Hc). Qed.

Lemma init_never_gopanic : forall p spare alen, bytes_ok (p ++ spare) ->
  match single_initializer_go true (mk_slice p spare) alen with
  | Ok io => g_len (io_c io) <= nlen p
  | Rej => True
  | GoPanic => False
  | OutOfFuel => False
  end.
Proof.
  intros p spare alen Hb. pose proof (init_ok (mk_slice p spare) alen (mk_slice_wf p spare) Hb) as H.
  destruct (single_initializer_go true (mk_slice p spare) alen); cbn [init_post] in *; try exact H.
  apply H.
Qed.

Lemma inner_never_gopanic : forall d spare,
  bytes_ok (d ++ spare) -> nlen (d ++ spare) + 64 < 4294967296 ->
  match deblob_go true true (mk_slice d spare) with
  | Ok g => gp_rok g = true /\ forall a, exists j, djump_go true g a = Ok j
  | Rej => True
  | GoPanic => False
  | OutOfFuel => False
  end.
Proof. intros d spare Hb Hc. exact (deblob_inner_ok (mk_slice d spare) (mk_slice_wf d spare) Hb Hc). Qed.

Lemma alloc_bound : forall p spare alen,
  bytes_ok (p ++ spare) -> nlen (p ++ spare) + 64 < 4294967296 ->
  alloc_load (mk_slice p spare) alen
  <= C_BLOB * nlen p + K_FIXED + declared (mk_slice p spare) alen + declared (mk_slice p spare) alen / 128.
Proof. intros p spare alen Hb Hc. exact (alloc_load_bound (mk_slice p spare) alen (mk_slice_wf p spare) Hb Hc). Qed.

Lemma alloc_bound_inner : forall d spare,
  bytes_ok (d ++ spare) -> nlen (d ++ spare) + 64 < 4294967296 ->
  alloc_deblob (mk_slice d spare) <= C_BLOB * nlen d + K_FIXED.
Proof. intros d spare Hb Hc. exact (deblob_bound (mk_slice d spare) (mk_slice_wf d spare) Hb Hc). Qed.

(* witnesses *)
Definition w_code_len : bytes := [0; 0; 50; 1].
Definition w_jt_overflow : bytes := [255; 86; 85; 85; 85; 85; 85; 85; 85; 3; 3; 0; 0; 50; 2; 2; 1].
Definition w_entry_width : bytes := [1; 9; 3; 0; 0; 0; 0; 0; 0; 0; 0; 0; 50; 2; 2; 1].
(* a valid standard program: 9 bytes of read-only data, 16 of read-write data, z = 1, s = 4096, 25 bytes of program blob *)
Definition w_std : bytes := [9; 0; 0; 16; 0; 0; 1; 0; 0; 16; 0; 17; 34; 51; 68; 85; 102; 119; 136; 153; 1; 2; 3; 4; 5; 6; 7; 8; 9; 10; 11; 12; 13; 14; 15; 16; 25; 0; 0; 0; 0; 0; 19; 51; 2; 5; 0; 0; 0; 51; 3; 7; 0; 0; 0; 200; 50; 4; 100; 73; 50; 0; 65; 144; 2].

Lemma code_length_refuted : exists d, deblob_go true false (mk_slice d []) = GoPanic.
Proof. exists w_code_len. vm_compute. reflexivity. Qed.

Lemma jump_table_overflow_refuted : exists d g,
  deblob_go false true (mk_slice d []) = Ok g /\ nlen d = 17 /\ gp_js g = 1431655766 /\ g_len (gp_jt g) = 2 /\
  djump_go false g 2 = GoPanic.
Proof. exists w_jt_overflow. eexists. split; [vm_compute; reflexivity|]. vm_compute. repeat split; reflexivity. Qed.

Lemma entry_width_refuted : exists d g,
  deblob_go true true (mk_slice d []) = Ok g /\ djump_go false g 2 = GoPanic /\ djump_go true g 2 = Ok (JGo 0).
Proof. exists w_entry_width. eexists. split; [vm_compute; reflexivity|]. vm_compute. split; reflexivity. Qed.

Lemma argument_loop_refuted : exists p alen,
  single_initializer_go false (mk_slice p []) alen = OutOfFuel /\
  single_initializer_go true (mk_slice p []) alen = Rej.
Proof. exists w_std, 16838657. split; vm_compute; reflexivity. Qed.

(* ---- the guest-range check ---- *)
Lemma pages_iter : forall acc p cnt,
  snd (N.iter cnt (pages_step acc) (true, p)) = p + cnt /\
  (fst (N.iter cnt (pages_step acc) (true, p)) = true -> forall q, p <= q < p + cnt -> acc q = true).
Proof.
  intros acc p cnt. induction cnt as [|c IH] using N.peano_ind.
  - cbn. split; [lia|intros _ q Hq; lia].
  - rewrite N.iter_succ. destruct IH as [I1 I2].
    destruct (N.iter c (pages_step acc) (true, p)) as [b r]. cbn [fst snd pages_step] in *. subst r.
    split; [lia|]. intros H q Hq. apply andb_prop in H. destruct H as [H1 H2].
    destruct (N.eq_dec q (p + c)) as [->|Ne]; [exact H2|]. apply (I2 H1). lia.
Qed.

Lemma pages_ok_all : forall acc cnt p, pages_ok acc cnt p = true ->
  forall q, p <= q < p + cnt -> acc q = true.
Proof. intros acc cnt p H. exact (proj2 (pages_iter acc p cnt) H). Qed.

(* an accepted non-empty range lies inside the 32-bit address space WITHOUT wrap-around, and every page it
   touches passed the access test: whatever 64-bit values the registers hold *)
Lemma range_ok_sound : forall acc start off, range_ok_go true acc start off = true -> 0 < off ->
  start + off <= 4294967296 /\ forall p, start / 4096 <= p <= (start + off - 1) / 4096 -> acc p = true.
Proof.
  intros acc start off H Ho. unfold range_ok_go in H.
  destruct (off =? 0) eqn:E0; [lia|].
  destruct ((4294967296 <? off) || (4294967296 - off <? start)) eqn:E1; [discriminate|].
  assert (Hs : start + off <= 4294967296) by lia. split; [exact Hs|].
  cbv zeta in H. unfold zP in H.
  rewrite (u64_small (start + off)) in H by lia.
  replace (start + off + 18446744073709551616 - 1) with (start + off - 1 + 1 * 18446744073709551616) in H by lia.
  unfold u64 in H. rewrite N.mod_add in H by discriminate. rewrite N.mod_small in H by lia.
  rewrite !u32_small in H by lia.
  intros p Hp. apply (pages_ok_all _ _ _ H). lia.
Qed.

(* so the buffer R makes for the output of a halt is at most the address space, whatever the registers hold *)
Lemma halt_out_len_bound : forall acc start len, halt_out_len true acc start len <= 4294967296.
Proof.
  intros acc start len. unfold halt_out_len. destruct (range_ok_go true acc start len) eqn:E; [|lia].
  destruct (N.eq_dec len 0) as [->|Ne]; [lia|]. destruct (range_ok_sound acc start len E); lia.
Qed.

(* the check written as start+offset > 2^32 in uint64 accepts a range of 2^63 bytes with no page mapped at all *)
Lemma range_wrap_refuted : exists start off,
  range_ok_go false (fun _ => false) start off = true /\ halt_out_len false (fun _ => false) start off = 9223372036854775808 /\
  range_ok_go true (fun _ => false) start off = false.
Proof. exists 9223372036854779904, 9223372036854775808. vm_compute. repeat split; reflexivity. Qed.
