(* C07 — guest memory and register lemmas for Model/HostCalls.v: the page loop of [range_ok] is the
   pointwise predicate, reads and writes are pointwise, register updates touch one register. *)
From JamV Require Import Base.Bytes Proofs.BytesP Model.Accounts Model.AccCalls Model.HostCalls.
From Coq Require Import ZifyBool ZifyNat ZifyN.
Local Open Scope N_scope.
Ltac Zify.zify_post_hook ::= Z.div_mod_to_equations.

(* ---- iter_ok ---- *)
Lemma iter_ok_spec f n : forall p, iter_ok f p n = true <-> (forall i, i < Npos n -> f (p + i) = true).
Proof.
  induction n as [n IH | n IH |]; intros p; cbn [iter_ok].
  - (* xI *)
    split.
    + intros Hh i Hi.
      destruct (f p) eqn:E0; [| discriminate].
      destruct (iter_ok f (p + 1) n) eqn:E1; [| discriminate].
      pose proof (proj1 (IH (p + 1)) E1) as A1. pose proof (proj1 (IH (p + 1 + Npos n)) Hh) as A2.
      destruct (N.eq_dec i 0) as [-> | Hz]; [rewrite N.add_0_r; exact E0 |].
      destruct (N.ltb_spec (i - 1) (Npos n)).
      * replace (p + i) with (p + 1 + (i - 1)) by lia. apply A1. assumption.
      * replace (p + i) with (p + 1 + Npos n + (i - 1 - Npos n)) by lia. apply A2. lia.
    + intros Hh.
      assert (E0 : f p = true) by (rewrite <- (N.add_0_r p); apply Hh; lia). rewrite E0.
      assert (E1 : iter_ok f (p + 1) n = true).
      { apply IH. intros i Hi. replace (p + 1 + i) with (p + (1 + i)) by lia. apply Hh. lia. }
      rewrite E1. apply IH. intros i Hi. replace (p + 1 + Npos n + i) with (p + (1 + Npos n + i)) by lia. apply Hh. lia.
  - (* xO *)
    split.
    + intros Hh i Hi.
      destruct (iter_ok f p n) eqn:E1; [| discriminate].
      pose proof (proj1 (IH p) E1) as A1. pose proof (proj1 (IH (p + Npos n)) Hh) as A2.
      destruct (N.ltb_spec i (Npos n)).
      * apply A1. assumption.
      * replace (p + i) with (p + Npos n + (i - Npos n)) by lia. apply A2. lia.
    + intros Hh.
      assert (E1 : iter_ok f p n = true) by (apply IH; intros i Hi; apply Hh; lia).
      rewrite E1. apply IH. intros i Hi. replace (p + Npos n + i) with (p + (Npos n + i)) by lia. apply Hh. lia.
  - split.
    + intros Hh i Hi. assert (i = 0) by lia. subst. rewrite N.add_0_r. exact Hh.
    + intros Hh. rewrite <- (N.add_0_r p). apply Hh. lia.
Qed.

(* ---- range_ok: the page loop is the pointwise predicate over the addresses of the range ---- *)
Definition range_spec (P : access -> bool) (m : memory) (o l : N) : Prop :=
  l = 0 \/ (o + l <= two32 /\ forall a, o <= a < o + l -> P (m_acc m (a / ZP)) = true).

Lemma range_ok_spec P m o l : range_ok P m o l = true <-> range_spec P m o l.
Proof.
  unfold range_ok, range_spec, two32, ZP.
  destruct (N.eqb_spec l 0) as [-> | Hl]; [tauto |].
  destruct (N.ltb_spec 4294967296 l) as [Hb | Hb]; cbn [orb].
  { split; [discriminate | intros [? | [? _]]; lia]. }
  destruct (N.ltb_spec (4294967296 - l) o) as [Hc | Hc].
  { split; [discriminate | intros [? | [? _]]; lia]. }
  assert (Hsum : o + l <= 4294967296) by lia.
  set (first := o / 4096). set (last := (o + l - 1) / 4096).
  assert (Hfl : first <= last) by (subst first last; apply N.div_le_mono; lia).
  destruct (last - first + 1) as [| n] eqn:En; [lia |].
  rewrite iter_ok_spec. split.
  - intros Hh. right. split; [exact Hsum |]. intros a Ha.
    assert (Hq : first <= a / 4096 <= last).
    { subst first last. split; apply N.div_le_mono; lia. }
    replace (a / 4096) with (first + (a / 4096 - first)) by lia. apply Hh. lia.
  - intros [? | [_ Hh]] i Hi; [lia |].
    destruct (N.eq_dec i 0) as [-> | Hz].
    + rewrite N.add_0_r. subst first. apply Hh. lia.
    + assert (Hpage : ((first + i) * 4096) / 4096 = first + i) by (apply N.div_mul; lia).
      rewrite <- Hpage. apply Hh.
      assert (first + i <= last) by lia.
      subst first last. clear Hh Hpage En.
      assert (A : o < (o / 4096 + i) * 4096) by lia.
      assert (B : (o / 4096 + i) * 4096 <= ((o + l - 1) / 4096) * 4096) by (apply N.mul_le_mono_r; assumption).
      assert (C : ((o + l - 1) / 4096) * 4096 <= o + l - 1) by lia.
      lia.
Qed.

Lemma readable_spec m o l : readable m o l = true <-> range_spec can_read m o l.
Proof. apply range_ok_spec. Qed.
Lemma writable_spec m o l : writable m o l = true <-> range_spec can_write m o l.
Proof. apply range_ok_spec. Qed.

(* a writable range is readable; the empty range is both *)
Lemma writable_readable m o l : writable m o l = true -> readable m o l = true.
Proof.
  rewrite writable_spec, readable_spec. unfold range_spec. intros [? | [? Hh]]; [tauto |].
  right. split; [assumption |]. intros a Ha. specialize (Hh a Ha). destruct (m_acc m (a / ZP)); cbn in *; congruence.
Qed.
Lemma range_ok_empty P m o : range_ok P m o 0 = true.
Proof. reflexivity. Qed.

(* ---- reads ---- *)
Lemma mread_from_length m n : forall a, length (mread_from m a n) = n.
Proof. induction n; intros; cbn [mread_from length]; [reflexivity | rewrite IHn; reflexivity]. Qed.
Lemma mread_length m o l : length (mread m o l) = N.to_nat l.
Proof. apply mread_from_length. Qed.
Lemma mread_blen m o l : blen (mread m o l) = l.
Proof. unfold blen. rewrite mread_length. lia. Qed.
Lemma mread_from_nth m n : forall a i, (i < n)%nat -> nth i (mread_from m a n) 0 = m_byte m (a + N.of_nat i).
Proof.
  induction n; intros a i Hi; [lia |]. cbn [mread_from]. destruct i as [| i]; cbn [nth].
  - f_equal. lia.
  - rewrite IHn by lia. f_equal. lia.
Qed.
Lemma mread_nth m o l i : (i < N.to_nat l)%nat -> nth i (mread m o l) 0 = m_byte m (o + N.of_nat i).
Proof. apply mread_from_nth. Qed.

(* ---- writes ---- *)
Lemma mwrite_acc m o d p : m_acc (mwrite m o d) p = m_acc m p.
Proof. reflexivity. Qed.
Lemma mwrite_outside m o d a : ~ (o <= a < o + blen d) -> m_byte (mwrite m o d) a = m_byte m a.
Proof.
  intros Hh. cbn [mwrite m_byte].
  destruct (N.leb_spec o a); destruct (N.ltb_spec a (o + blen d)); cbn [andb]; try reflexivity. lia.
Qed.
Lemma mwrite_inside m o d a : o <= a < o + blen d -> m_byte (mwrite m o d) a = nth (N.to_nat (a - o)) d 0.
Proof.
  intros Hh. cbn [mwrite m_byte].
  destruct (N.leb_spec o a); destruct (N.ltb_spec a (o + blen d)); cbn [andb]; try reflexivity; lia.
Qed.
Lemma mwrite_nil m o a : m_byte (mwrite m o []) a = m_byte m a.
Proof. apply mwrite_outside. unfold blen. cbn. lia. Qed.

(* ---- slices ---- *)
Lemma slice_blen v f l : f + l <= blen v -> blen (slice v f l) = l.
Proof.
  unfold slice, blen. intros Hh. rewrite firstn_length, skipn_length. lia.
Qed.
Lemma win_fits v wf wl : win_f v wf + win_l v wf wl <= blen v.
Proof. unfold win_l, win_f. lia. Qed.
Lemma win_l_le v wf wl : win_l v wf wl <= wl.
Proof. unfold win_l. lia. Qed.

(* ---- registers ---- *)
Lemma nth_firstn_lt {A} (d : A) : forall n i (l : list A), (i < n)%nat -> nth i (firstn n l) d = nth i l d.
Proof.
  induction n; intros i l Hi; [lia |]. destruct l as [| x l]; [destruct i; reflexivity |].
  destruct i; cbn [firstn nth]; [reflexivity | apply IHn; lia].
Qed.
Lemma nth_skipn_add {A} (d : A) : forall n i (l : list A), nth i (skipn n l) d = nth (n + i) l d.
Proof.
  induction n; intros i l; [reflexivity |]. destruct l as [| x l]; [destruct i; reflexivity |].
  cbn [skipn]. rewrite IHn. reflexivity.
Qed.
Lemma setreg_length i v rg : (i < length rg)%nat -> length (setreg i v rg) = length rg.
Proof.
  intros Hh. unfold setreg. rewrite app_length. cbn [length]. rewrite firstn_length, skipn_length. lia.
Qed.
Lemma setreg_same i v rg : (i < length rg)%nat -> nth i (setreg i v rg) 0 = v.
Proof.
  intros Hh. unfold setreg. rewrite app_nth2; rewrite firstn_length; [| lia].
  replace (i - Nat.min i (length rg))%nat with 0%nat by lia. reflexivity.
Qed.
Lemma setreg_other i j v rg : (i < length rg)%nat -> j <> i -> nth j (setreg i v rg) 0 = nth j rg 0.
Proof.
  intros Hh Hj. unfold setreg.
  destruct (Nat.ltb_spec j i).
  - rewrite app_nth1 by (rewrite firstn_length; lia). apply nth_firstn_lt. assumption.
  - rewrite app_nth2 by (rewrite firstn_length; lia). rewrite firstn_length.
    replace (j - Nat.min i (length rg))%nat with (S (j - i - 1)) by lia. cbn [nth].
    rewrite nth_skipn_add. f_equal. lia.
Qed.

(* ---- association lists of Model/Accounts.v, pointwise ---- *)
Lemma get_del j i d : j <> i -> get j (al_del N.eqb i d) = get j d.
Proof.
  intros Hj. unfold get. induction d as [| [k v] t IH]; cbn [al_del al_get]; [reflexivity |].
  destruct (N.eqb_spec i k).
  - subst. destruct (N.eqb_spec j k); [congruence | reflexivity].
  - cbn [al_get]. destruct (N.eqb_spec j k); [reflexivity | exact IH].
Qed.
Lemma get_put_other j i a d : j <> i -> get j (put i a d) = get j d.
Proof.
  intros Hj. unfold get, put. induction d as [| [k v] t IH]; cbn [al_set al_get].
  - destruct (N.eqb_spec j i); [congruence | reflexivity].
  - destruct (N.eqb_spec i k); cbn [al_get].
    + subst. destruct (N.eqb_spec j k); [congruence | reflexivity].
    + destruct (N.eqb_spec j k); [reflexivity | exact IH].
Qed.
