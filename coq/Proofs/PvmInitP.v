From JamV Require Import Base.Bytes Model.PvmInit Proofs.BytesP.
From Coq Require Import ZifyBool ZifyNat ZifyN.
Local Open Scope N_scope.
Ltac Zify.zify_post_hook ::= Z.div_mod_to_equations.

Arguments N.mul : simpl never.
Arguments N.add : simpl never.
Arguments N.div : simpl never.
Arguments N.modulo : simpl never.

(* ---- rounding ---------------------------------------------------------------------------- *)
Lemma Pz_facts x : exists k, Pz x = 4096 * k /\ x <= Pz x /\ Pz x < x + 4096.
Proof. unfold Pz, ZP. exists ((x + 4096 - 1) / 4096). lia. Qed.

Lemma Zz_facts x : exists k, Zz x = 65536 * k /\ x <= Zz x /\ Zz x < x + 65536.
Proof. unfold Zz, ZZ. exists ((x + 65536 - 1) / 65536). lia. Qed.

(* ---- nth / firstn / skipn ------------------------------------------------------------------ *)
Lemma nth_firstn_lt {A} (l : list A) n j d : (j < n)%nat -> nth j (firstn n l) d = nth j l d.
Proof.
  revert l j; induction n as [|n IH]; intros l j Hj; [lia|].
  destruct l as [|x l]; [now destruct j|]. destruct j as [|j]; cbn; [reflexivity|]. apply IH. lia.
Qed.

Lemma nth_skipn {A} (l : list A) k j d : nth j (skipn k l) d = nth (k + j) l d.
Proof.
  revert l; induction k as [|k IH]; intros l; [reflexivity|].
  destruct l as [|x l]; [now destruct j|]. cbn. apply IH.
Qed.

Lemma skipn_skipn' {A} (l : list A) a b : skipn a (skipn b l) = skipn (b + a) l.
Proof.
  revert l; induction b as [|b IH]; intros l; [reflexivity|].
  destruct l as [|x l]; cbn; [now rewrite skipn_nil|]. apply IH.
Qed.

(* ---- pages ----------------------------------------------------------------------------------- *)
Lemma find_page_app l1 l2 pn :
  find_page (l1 ++ l2) pn = match find_page l1 pn with Some p => Some p | None => find_page l2 pn end.
Proof.
  induction l1 as [|[[n acc] bs] t IH]; [reflexivity|]. cbn [app find_page].
  destruct (n =? pn); [reflexivity|exact IH].
Qed.

Lemma find_mk_pages n pn0 acc data pn :
  find_page (mk_pages n pn0 acc data) pn =
  if (pn0 <=? pn) && (pn <? pn0 + N.of_nat n)
  then Some (pn, acc, firstn 4096 (skipn (N.to_nat (4096 * (pn - pn0))) data))
  else None.
Proof.
  revert pn0 data; induction n as [|n IH]; intros pn0 data.
  - cbn [mk_pages find_page]. destruct (N.leb_spec pn0 pn), (N.ltb_spec pn (pn0 + N.of_nat 0)); cbn [andb]; try reflexivity; lia.
  - cbn [mk_pages find_page]. destruct (N.eqb_spec pn0 pn) as [E|NE].
    + subst pn. replace (4096 * (pn0 - pn0)) with 0 by lia. cbn [N.to_nat skipn].
      destruct (N.leb_spec pn0 pn0), (N.ltb_spec pn0 (pn0 + N.of_nat (S n))); cbn [andb]; try reflexivity; lia.
    + rewrite IH. rewrite skipn_skipn'.
      destruct (N.leb_spec (pn0 + 1) pn), (N.ltb_spec pn (pn0 + 1 + N.of_nat n)),
               (N.leb_spec pn0 pn), (N.ltb_spec pn (pn0 + N.of_nat (S n))); cbn [andb]; try reflexivity; try lia.
      replace (4096 + N.to_nat (4096 * (pn - (pn0 + 1))))%nat with (N.to_nat (4096 * (pn - pn0))) by lia.
      reflexivity.
Qed.

(* the cell of a zone: inside [start, start+total) the byte of the zero-extended data *)
Definition zone_cell (start : N) (data : bytes) (total : N) (acc : access) (i : N) : option (access * N) :=
  if (start <=? i) && (i <? start + total) then Some (acc, nthN data (i - start)) else None.

Lemma zone_lookup start data total acc ks kt i :
  start = 4096 * ks -> total = 4096 * kt ->
  match find_page (zone_pages start data total acc) (i / ZP) with
  | Some (_, a, bs) => Some (a, nthN bs (i mod ZP))
  | None => None
  end = zone_cell start data total acc i.
Proof.
  intros Hs Ht. unfold zone_pages, zone_cell, ZP. rewrite find_mk_pages.
  assert (E1 : start / 4096 = ks) by lia. assert (E2 : total / 4096 = kt) by lia.
  rewrite E1, E2.
  destruct (N.leb_spec ks (i / 4096)), (N.ltb_spec (i / 4096) (ks + N.of_nat (N.to_nat kt)));
    destruct (N.leb_spec start i), (N.ltb_spec i (start + total)); cbn [andb]; try reflexivity; try lia.
  f_equal. f_equal. unfold nthN.
  rewrite nth_firstn_lt by lia. rewrite nth_skipn. f_equal. lia.
Qed.

(* ---- the zone formulation of A.42 ------------------------------------------------------------ *)
Definition cell_zones (b : blob) (a : bytes) (i : N) : access * N :=
  let o := b_o b in let w := b_w b in
  match zone_cell ZZ o (Pz (blen o)) ARead i with Some c => c | None =>
  match zone_cell (2 * ZZ + Zz (blen o)) w (Pz (blen w) + b_z b * ZP) AWrite i with Some c => c | None =>
  match zone_cell (TOP - 2 * ZZ - ZI - Pz (b_s b)) [] (Pz (b_s b)) AWrite i with Some c => c | None =>
  match zone_cell (TOP - ZZ - ZI) a (Pz (blen a)) ARead i with Some c => c | None =>
  (ANone, 0) end end end end.

Lemma nthN_over l i : blen l <= i -> nthN l i = 0.
Proof. unfold nthN, blen. intros H. apply nth_overflow. lia. Qed.

Lemma nthN_nil i : nthN [] i = 0.
Proof. unfold nthN. now destruct (N.to_nat i). Qed.

Definition small (b : blob) (a : bytes) : Prop :=
  blen (b_o b) < 16777216 /\ blen (b_w b) < 16777216 /\ b_z b < 65536 /\ b_s b < 16777216 /\ blen a <= 16777216.

Lemma two_cases start data total acc i (rest : access * N) : blen data <= total ->
  (if (start <=? i) && (i <? start + blen data) then (acc, nthN data (i - start))
   else if (start + blen data <=? i) && (i <? start + total) then (acc, 0) else rest)
  = match zone_cell start data total acc i with Some c => c | None => rest end.
Proof.
  intros H. unfold zone_cell.
  destruct (N.leb_spec start i), (N.ltb_spec i (start + blen data)), (N.leb_spec (start + blen data) i),
    (N.ltb_spec i (start + total)); cbn [andb]; try reflexivity; try lia.
  rewrite nthN_over by lia. reflexivity.
Qed.

Lemma one_case start total acc i e (rest : access * N) : e = start + total ->
  (if (start <=? i) && (i <? e) then (acc, 0) else rest)
  = match zone_cell start [] total acc i with Some c => c | None => rest end.
Proof.
  intros ->. unfold zone_cell. rewrite nthN_nil. destruct ((start <=? i) && (i <? start + total)); reflexivity.
Qed.

Lemma cell_gp_zones b a i : small b a -> cell_gp b a i = cell_zones b a i.
Proof.
  intros (Ho & Hw & Hz & Hs & Ha). unfold cell_gp, cell_zones. cbn zeta.
  destruct (Pz_facts (blen (b_o b))) as (k1 & P1 & P1a & P1b).
  destruct (Pz_facts (blen (b_w b))) as (k2 & P2 & P2a & P2b).
  destruct (Pz_facts (b_s b)) as (k3 & P3 & P3a & P3b).
  destruct (Pz_facts (blen a)) as (k4 & P4 & P4a & P4b).
  rewrite (two_cases ZZ (b_o b) (Pz (blen (b_o b))) ARead i) by assumption.
  rewrite (two_cases (2 * ZZ + Zz (blen (b_o b))) (b_w b) (Pz (blen (b_w b)) + b_z b * ZP) AWrite i) by lia.
  rewrite (one_case (TOP - 2 * ZZ - ZI - Pz (b_s b)) (Pz (b_s b)) AWrite i (TOP - 2 * ZZ - ZI))
    by (unfold TOP, ZZ, ZI in *; lia).
  rewrite (two_cases (TOP - ZZ - ZI) a (Pz (blen a)) ARead i) by assumption.
  reflexivity.
Qed.

Lemma lookup_pages_zones b a i : small b a -> lookup_pages (pages_of b a) i = cell_zones b a i.
Proof.
  intros (Ho & Hw & Hz & Hs & Ha). unfold lookup_pages, pages_of, cell_zones.
  destruct (Pz_facts (blen (b_o b))) as (k1 & P1 & P1a & P1b).
  destruct (Pz_facts (blen (b_w b))) as (k2 & P2 & P2a & P2b).
  destruct (Pz_facts (b_s b)) as (k3 & P3 & P3a & P3b).
  destruct (Pz_facts (blen a)) as (k4 & P4 & P4a & P4b).
  destruct (Zz_facts (blen (b_o b))) as (k5 & Z5 & Z5a & Z5b).
  cbn zeta.
  pose proof (zone_lookup ZZ (b_o b) (Pz (blen (b_o b))) ARead 16 k1 i eq_refl P1) as L1.
  pose proof (zone_lookup (2 * ZZ + Zz (blen (b_o b))) (b_w b) (Pz (blen (b_w b)) + b_z b * ZP) AWrite
                (32 + 16 * k5) (k2 + b_z b) i) as L2.
  pose proof (zone_lookup (TOP - 2 * ZZ - ZI - Pz (b_s b)) [] (Pz (b_s b)) AWrite (1048576 - 32 - 4096 - k3) k3 i) as L3.
  pose proof (zone_lookup (TOP - ZZ - ZI) a (Pz (blen a)) ARead (1048576 - 16 - 4096) k4 i) as L4.
  unfold ZZ, ZI, ZP, TOP in *.
  specialize (L2 ltac:(lia) ltac:(lia)). specialize (L3 ltac:(lia) P3). specialize (L4 ltac:(lia) P4).
  rewrite !find_page_app.
  destruct (find_page (zone_pages 65536 (b_o b) (Pz (blen (b_o b))) ARead) (i / 4096)) as [[[n1 a1] bs1]|].
  { rewrite <- L1. reflexivity. }
  rewrite <- L1.
  destruct (find_page (zone_pages (2 * 65536 + Zz (blen (b_o b))) (b_w b) (Pz (blen (b_w b)) + b_z b * 4096) AWrite) (i / 4096)) as [[[n2 a2] bs2]|].
  { rewrite <- L2. reflexivity. }
  rewrite <- L2.
  destruct (find_page (zone_pages (4294967296 - 2 * 65536 - 16777216 - Pz (b_s b)) [] (Pz (b_s b)) AWrite) (i / 4096)) as [[[n3 a3] bs3]|].
  { rewrite <- L3. reflexivity. }
  rewrite <- L3.
  destruct (find_page (zone_pages (4294967296 - 65536 - 16777216) a (Pz (blen a)) ARead) (i / 4096)) as [[[n4 a4] bs4]|].
  { rewrite <- L4. reflexivity. }
  rewrite <- L4. reflexivity.
Qed.

Theorem pages_refine_gp b a i : small b a -> lookup_pages (pages_of b a) i = cell_gp b a i.
Proof. intros H. rewrite lookup_pages_zones, cell_gp_zones by assumption. reflexivity. Qed.

(* ---- zones are disjoint, ordered and inside the 32-bit space ------------------------------------ *)
Theorem zones_disjoint b a : small b a ->
  let ro0 := ZZ in let ro1 := ZZ + Pz (blen (b_o b)) in
  let rw0 := 2 * ZZ + Zz (blen (b_o b)) in let rw1 := rw0 + Pz (blen (b_w b)) + b_z b * ZP in
  let st1 := TOP - 2 * ZZ - ZI in let st0 := st1 - Pz (b_s b) in
  let ar0 := TOP - ZZ - ZI in let ar1 := ar0 + Pz (blen a) in
  ro0 <= ro1 /\ ro1 + ZZ <= rw0 + ZP /\ ro1 <= rw0 /\ rw0 <= rw1 /\ rw1 + ZZ <= st0 /\ st0 <= st1 /\
  st1 + ZZ <= ar0 /\ ar0 <= ar1 /\ ar1 + ZZ <= TOP.
Proof.
  intros (Ho & Hw & Hz & Hs & Ha).
  destruct (Pz_facts (blen (b_o b))) as (k1 & P1 & P1a & P1b).
  destruct (Pz_facts (blen (b_w b))) as (k2 & P2 & P2a & P2b).
  destruct (Pz_facts (b_s b)) as (k3 & P3 & P3a & P3b).
  destruct (Pz_facts (blen a)) as (k4 & P4 & P4a & P4b).
  destruct (Zz_facts (blen (b_o b))) as (k5 & Z5 & Z5a & Z5b).
  cbn zeta. unfold ZZ, ZI, ZP, TOP in *. lia.
Qed.

(* ---- parsing ----------------------------------------------------------------------------------- *)
Lemma take_spec n l x r : take n l = Some (x, r) -> l = x ++ r /\ blen x = n.
Proof.
  unfold take, blen. destruct (N.ltb_spec (N.of_nat (length l)) n); [discriminate|].
  intros E; inversion E; subst. split; [now rewrite firstn_skipn|]. rewrite firstn_length. lia.
Qed.

Lemma take_app x r : take (blen x) (x ++ r) = Some (x, r).
Proof.
  unfold take, blen. rewrite app_length, Nat2N.id.
  destruct (N.ltb_spec (N.of_nat (length x + length r)) (N.of_nat (length x))); [lia|].
  now rewrite firstn_app_exact, skipn_app_exact.
Qed.

Lemma le_dec_bound l n : wf_bytes l = true -> blen l = N.of_nat n -> le_dec l < 256 ^ N.of_nat n.
Proof. intros W L. unfold blen in L. rewrite <- L. now apply le_dec_lt. Qed.

Definition serialise (b : blob) : bytes :=
  le_enc 3 (blen (b_o b)) ++ le_enc 3 (blen (b_w b)) ++ le_enc 2 (b_z b) ++ le_enc 3 (b_s b)
  ++ b_o b ++ b_w b ++ le_enc 4 (blen (b_c b)) ++ b_c b.

Theorem parse_exact p b : wf_bytes p = true -> parse p = Some b ->
  p = serialise b /\ blen (b_o b) < 16777216 /\ blen (b_w b) < 16777216 /\ b_z b < 65536 /\
  b_s b < 16777216 /\ blen (b_c b) < 4294967296.
Proof.
  intros W. unfold parse.
  destruct (take 3 p) as [[lo p1]|] eqn:T1; [|discriminate].
  destruct (take 3 p1) as [[lw p2]|] eqn:T2; [|discriminate].
  destruct (take 2 p2) as [[z p3]|] eqn:T3; [|discriminate].
  destruct (take 3 p3) as [[s p4]|] eqn:T4; [|discriminate].
  destruct (take (le_dec lo) p4) as [[o p5]|] eqn:T5; [|discriminate].
  destruct (take (le_dec lw) p5) as [[w p6]|] eqn:T6; [|discriminate].
  destruct (take 4 p6) as [[lc p7]|] eqn:T7; [|discriminate].
  destruct (take (le_dec lc) p7) as [[c p8]|] eqn:T8; [|discriminate].
  destruct p8; [|discriminate]. intros E; inversion E; subst b; clear E. cbn [b_o b_w b_z b_s b_c].
  apply take_spec in T1, T2, T3, T4, T5, T6, T7, T8.
  destruct T1 as [E1 L1], T2 as [E2 L2], T3 as [E3 L3], T4 as [E4 L4], T5 as [E5 L5], T6 as [E6 L6],
           T7 as [E7 L7], T8 as [E8 L8].
  subst p p1 p2 p3 p4 p5 p6 p7.
  repeat (apply wf_bytes_app in W; destruct W as [? W]).
  assert (B1 := le_dec_bound lo 3 ltac:(assumption) L1).
  assert (B2 := le_dec_bound lw 3 ltac:(assumption) L2).
  assert (B3 := le_dec_bound z 2 ltac:(assumption) L3).
  assert (B4 := le_dec_bound s 3 ltac:(assumption) L4).
  assert (B7 := le_dec_bound lc 4 ltac:(assumption) L7).
  change (256 ^ N.of_nat 3) with 16777216 in *. change (256 ^ N.of_nat 2) with 65536 in *.
  change (256 ^ N.of_nat 4) with 4294967296 in *.
  unfold serialise; cbn [b_o b_w b_z b_s b_c]. rewrite L5, L6, L8.
  assert (R : forall l n, wf_bytes l = true -> blen l = N.of_nat n -> le_enc n (le_dec l) = l).
  { intros l n Wl Ll. unfold blen in Ll. apply Nat2N.inj in Ll. subst n. now apply le_enc_dec. }
  rewrite (R lo 3%nat), (R lw 3%nat), (R z 2%nat), (R s 3%nat), (R lc 4%nat) by assumption.
  rewrite app_nil_r. repeat split; try lia. 
Qed.

Theorem parse_serialise b :
  blen (b_o b) < 16777216 -> blen (b_w b) < 16777216 -> b_z b < 65536 -> b_s b < 16777216 ->
  blen (b_c b) < 4294967296 -> parse (serialise b) = Some b.
Proof.
  intros Ho Hw Hz Hs Hc. unfold parse, serialise.
  assert (T : forall n x r, take (N.of_nat n) (le_enc n x ++ r) = Some (le_enc n x, r)).
  { intros n x r. rewrite <- (le_enc_length n x) at 1. apply take_app. }
  rewrite (T 3%nat), (T 3%nat), (T 2%nat), (T 3%nat).
  rewrite !le_dec_enc. change (256 ^ N.of_nat 3) with 16777216. change (256 ^ N.of_nat 2) with 65536.
  rewrite !N.mod_small by assumption.
  rewrite take_app, take_app, (T 4%nat), le_dec_enc. change (256 ^ N.of_nat 4) with 4294967296.
  rewrite N.mod_small by assumption.
  rewrite <- (app_nil_r (b_c b)) at 2. rewrite take_app.
  destruct b; reflexivity.
Qed.

(* with 3-byte section sizes and a 2-byte page count the layout always fits in 2^32 *)
Theorem layout_always_ok b :
  blen (b_o b) < 16777216 -> blen (b_w b) < 16777216 -> b_z b < 65536 -> b_s b < 16777216 ->
  layout_ok b = true.
Proof.
  intros Ho Hw Hz Hs. unfold layout_ok.
  destruct (Zz_facts (blen (b_o b))) as (k1 & Z1 & Z1a & Z1b).
  destruct (Zz_facts (blen (b_w b) + b_z b * ZP)) as (k2 & Z2 & Z2a & Z2b).
  destruct (Zz_facts (b_s b)) as (k3 & Z3 & Z3a & Z3b).
  unfold ZZ, ZI, ZP, TOP in *. lia.
Qed.

(* the complete statement: init either rejects exactly the malformed blobs or yields the GP map *)
Theorem init_refines_Y p a : wf_bytes p = true -> blen a <= 16777216 ->
  match init p a with
  | None => forall b, p <> serialise b \/ ~ (blen (b_o b) < 16777216 /\ blen (b_w b) < 16777216 /\ b_z b < 65536 /\
                                           b_s b < 16777216 /\ blen (b_c b) < 4294967296)
  | Some (c, regs, pgs) =>
      exists b, p = serialise b /\ c = b_c b /\ regs = regs_init a /\
                forall i, lookup_pages pgs i = cell_gp b a i
  end.
Proof.
  intros W Ha. unfold init. destruct (parse p) as [b|] eqn:P.
  - destruct (parse_exact p b W P) as (E & Ho & Hw & Hz & Hs & Hc).
    rewrite layout_always_ok by assumption.
    exists b. repeat split; try assumption. intros i. apply pages_refine_gp. unfold small. tauto.
  - intros b. destruct (N.ltb_spec (blen (b_o b)) 16777216); [|right; lia].
    destruct (N.ltb_spec (blen (b_w b)) 16777216); [|right; lia].
    destruct (N.ltb_spec (b_z b) 65536); [|right; lia].
    destruct (N.ltb_spec (b_s b) 16777216); [|right; lia].
    destruct (N.ltb_spec (blen (b_c b)) 4294967296); [|right; lia].
    left. intros E. subst p. rewrite parse_serialise in P by assumption. discriminate.
Qed.
