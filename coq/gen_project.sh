#!/bin/sh
# regenerate _CoqProject and Makefile from the .v files on disk
cd "$(dirname "$0")"
{ echo "-Q . JamV"; echo "-arg -w -arg -notation-overridden,-deprecated,-ambiguous-paths"; find Base Model Proofs Properties -name '*.v' | sort; } > _CoqProject
coq_makefile -f _CoqProject -o Makefile >/dev/null
