(* C24 — Authorizer pool transition. Property theorems only (proofs in Proofs/AuthPoolP.v).
   alpha_step is the impl-shaped model of authorization.STFAlpha2AlphaPrime (one pass over the guarantees
   extrinsic, one pass over the cores); pool_spec_fn is the per-core formula of the property text. *)
From JamV Require Import Base.Bytes Model.StfLists Proofs.StfListsP Model.AuthPool Proofs.AuthPoolP.
Local Open Scope N_scope.

(* every core's posterior pool = keep-last-O ( prior pool minus the leftmost occurrence of each authorizer used by
   that core's guarantees, followed by the queue entry ), for every slot, extrinsic, pool and queue contents *)
Theorem C24_pool_spec : forall O t gs alpha varphi c p q e,
  nth_error alpha c = Some p -> nth_error varphi c = Some q -> queue_entry t q = Some e ->
  nth_error (alpha_step O t gs alpha varphi) c
  = Some (lastn O (remove_all_first (used_by c gs) p ++ [e])).
Proof. exact pool_spec. Qed.
Print Assumptions C24_pool_spec.

(* the entry appended is the one selected by the slot: queue[slot mod Q] for a queue of Q > 0 entries *)
Theorem C24_queue_entry : forall t q, q <> [] ->
  exists e, queue_entry t q = Some e /\ nth_error q (N.to_nat (t mod N.of_nat (length q))) = Some e.
Proof. exact queue_entry_spec. Qed.
Print Assumptions C24_queue_entry.

(* "leftmost occurrence": exactly the first copy is removed, later copies stay *)
Theorem C24_leftmost : forall a l1 l2, ~ In a l1 -> remove_first a (l1 ++ a :: l2) = l1 ++ l2.
Proof. exact remove_first_leftmost. Qed.
Print Assumptions C24_leftmost.

(* "keeping only the most recent O": what is kept is a suffix ending with the new queue entry, what is dropped is the oldest part *)
Theorem C24_most_recent : forall O used p e, (0 < O)%nat ->
  exists dropped kept, remove_all_first used p ++ [e] = dropped ++ pool_spec_fn O used p e
    /\ pool_spec_fn O used p e = kept ++ [e]
    /\ length dropped = (length (remove_all_first used p) + 1 - O)%nat.
Proof. exact pool_spec_suffix. Qed.
Print Assumptions C24_most_recent.

(* pools never exceed O: invariant of any history of blocks (any slots, guarantees, queues — even empty ones) *)
Theorem C24_pool_le_O : forall O alpha0 bs, pools_le O alpha0 -> pools_le O (alpha_run O alpha0 bs).
Proof. exact alpha_run_le. Qed.
Print Assumptions C24_pool_le_O.

(* and from ANY prior pools, after at least one block with non-empty queues *)
Theorem C24_pool_le_O_any : forall O alpha0 bs,
  bs <> [] -> Forall (fun b => Forall (fun q => q <> []) (ab_varphi b)) bs -> pools_le O (alpha_run O alpha0 bs).
Proof. exact alpha_run_le_any. Qed.
Print Assumptions C24_pool_le_O_any.

(* the post-state validation of the Go code can therefore never fail *)
Theorem C24_validation_never_fails : forall O t gs alpha varphi,
  pools_le O alpha \/ Forall (fun q => q <> []) varphi ->
  alpha_step_checked O t gs alpha varphi = Some (alpha_step O t gs alpha varphi).
Proof. exact alpha_step_checked_ok. Qed.
Print Assumptions C24_validation_never_fails.

(* a guarantee naming an authorizer that is not in the pool removes nothing *)
Theorem C24_absent_authorizer_noop : forall O t gs alpha varphi c p q e,
  nth_error alpha c = Some p -> nth_error varphi c = Some q -> queue_entry t q = Some e ->
  (forall a, In a (used_by c gs) -> ~ In a p) ->
  nth_error (alpha_step O t gs alpha varphi) c = Some (lastn O (p ++ [e])).
Proof. exact absent_authorizer_noop. Qed.
Print Assumptions C24_absent_authorizer_noop.

(* non-vacuity *)
(* two cores, O = 3; core 0: pool [5;7;5;9] (over-long, duplicate 5), guarantees use 5 and 8 (absent);
   core 1: pool [1], guarantee uses 1; slot 83 selects index 3 of a queue of 80 *)
Example C24_ex_step :
  alpha_step 3 83 [(0%nat, 5); (1%nat, 1); (0%nat, 8)] [[5; 7; 5; 9]; [1]]
             [map N.of_nat (seq 100 80); map N.of_nat (seq 200 80)]
  = [[5; 9; 103]; [203]].
Proof. vm_compute. reflexivity. Qed.
Example C24_ex_used : used_by 0 [(0%nat, 5); (1%nat, 1); (0%nat, 8)] = [5; 8].
Proof. reflexivity. Qed.
Example C24_ex_absent : (forall a, In a (used_by 1 [(1%nat, 8)]) -> ~ In a [1; 2]) /\
  alpha_step 8 0 [(1%nat, 8)] [[]; [1; 2]] [[4]; [6]] = [[4]; [1; 2; 6]].
Proof. split; [|reflexivity]. cbn. intros a [<-|[]] [H|[H|[]]]; discriminate. Qed.
Example C24_ex_run : pools_le 2 [[1; 2]; []] /\
  alpha_run 2 [[1; 2]; []] [Build_ablock 0 [] [[7]; [8]]; Build_ablock 1 [(0%nat, 7)] [[7; 9]; []]] = [[2; 9]; [8]].
Proof. split; [repeat constructor|reflexivity]. Qed.
