(* C33 — inner PVM machines during refinement (Gray Paper v0.7.2 B.8: machine, peek, poke, pages,
   invoke, expunge).  Property theorems only; model: Model/InnerVm.v (on top of the C01/C05 machine
   Model/Pvm*.v), vocabulary and statements: Proofs/InnerVmSpec.v, proofs: Proofs/InnerVmP.v.

   State: outer registers, outer gas, outer RAM, machines : id -> (program, RAM, counter).
   [hostcall c s] reads its arguments from omega_7.. ([arg s i]), charges 10 gas ([paid s]) and
   returns the exit of the OUTER machine (continue / panic / out-of-gas) with the new state;
   [None] would mean "stuck" and is shown impossible. *)
From JamV Require Import Model.InnerVm Proofs.PvmMemP Proofs.PvmStepP Proofs.InnerVmSpec Proofs.InnerVmP.
Local Open Scope Z_scope.

(* ---- the range tests are what they are named after: every address of N_{a...+z} is readable
   (writable) and the range lies inside 2^32; an empty range always passes ---- *)
Theorem C33_range_readable : forall m a z, 0 <= a ->
  (range_ok readable m a z = true <->
   (z <= 0 \/ (a + z <= ADDR /\ forall x, a <= x < a + z -> readable m x = true))).
Proof. exact range_ok_readable. Qed.
Print Assumptions C33_range_readable.

Theorem C33_range_writable : forall m a z, 0 <= a ->
  (range_ok writable m a z = true <->
   (z <= 0 \/ (a + z <= ADDR /\ forall x, a <= x < a + z -> writable m x = true))).
Proof. exact range_ok_writable. Qed.
Print Assumptions C33_range_writable.

(* ---- every call costs 10 gas; with less the call is not made and nothing else changes ---- *)
Theorem C33_out_of_gas : forall c s, o_gas s < 10 ->
  exists s', hostcall c s = Some (XOog, s') /\
    o_regs s' = o_regs s /\ o_gas s' = o_gas s - 10 /\ o_mem s' = o_mem s /\ o_mach s' = o_mach s.
Proof. exact oog. Qed.
Print Assumptions C33_out_of_gas.

(* ---- machine identifiers are minimal-free: the new id is the least natural number that is not a
   key (so it is a key neither before, and every smaller number is) ---- *)
Theorem C33_machine_id_minimal_free : forall (ms : list (Z * machine)),
  0 <= fresh_id ms /\ aget (fresh_id ms) ms = None /\
  forall k, 0 <= k < fresh_id ms -> aget k ms <> None.
Proof. exact fresh_id_minimal. Qed.
Print Assumptions C33_machine_id_minimal_free.

(* ---- machine(po, pz, i): panic iff the blob range is not readable; HUH iff the blob does not
   deblob; otherwise omega_7 = the minimal free id n and machine n = (deblob of exactly the bytes
   [po, po+pz), the empty RAM, counter i); the outer RAM and every other machine are untouched ---- *)
Theorem C33_machine_validates_and_stores : forall s e s', 10 <= o_gas s -> hostcall CMachine s = Some (e, s') ->
  let po := arg s 7 in let pz := arg s 8 in let i := arg s 9 in
  (range_ok readable (o_mem s) po pz = false -> e = XPanic /\ only_gas s s') /\
  (range_ok readable (o_mem s) po pz = true -> e = XCont /\
     match deblob (bytesN (rd_range (o_mem s) po (Z.to_nat pz))) with
     | None => only_w7 s s' R_HUH
     | Some p =>
       let n := fresh_id (o_mach s) in
       o_regs s' = sreg (o_regs s) 7 n /\ o_gas s' = paid s /\ o_mem s' = o_mem s /\
       mach_updated (o_mach s) (o_mach s') n {| mc_prog := p; mc_mem := empty_mem; mc_pc := i |}
     end).
Proof. exact machine_call. Qed.
Print Assumptions C33_machine_validates_and_stores.

(* the RAM of a new machine: every page inaccessible, every byte zero *)
Theorem C33_new_machine_ram_empty : forall x, acc_at empty_mem x = AccNone /\ rd_byte empty_mem x = 0.
Proof. exact empty_ram. Qed.
Print Assumptions C33_new_machine_ram_empty.

(* ---- pages_exact: pages(n, p, c, r) answers WHO iff n is no machine, HUH iff r > 4 or p < 16 or
   p + c >= 2^32 / Z_P or (r > 2 and a page of p...+c is inaccessible); otherwise exactly the pages
   p...+c of exactly machine n get the access class of r (0 none, 1/3 read-only, 2/4 read-write) and
   are zeroed when r < 3, kept when r >= 3; every other page of that machine, its program and counter,
   every other machine and the outer RAM are unchanged ---- *)
Theorem C33_pages_exact : forall s e s', 10 <= o_gas s -> hostcall CPages s = Some (e, s') ->
  let n := arg s 7 in let p := arg s 8 in let c := arg s 9 in let r := arg s 10 in
  0 <= p -> 0 <= c -> 0 <= r ->
  e = XCont /\
  match aget n (o_mach s) with
  | None => only_w7 s s' R_WHO
  | Some mc =>
    (pages_bad (mc_mem mc) p c r -> only_w7 s s' R_HUH) /\
    (~ pages_bad (mc_mem mc) p c r ->
       o_regs s' = sreg (o_regs s) 7 R_OK /\ o_gas s' = paid s /\ o_mem s' = o_mem s /\
       exists u', mach_updated (o_mach s) (o_mach s') n
                    {| mc_prog := mc_prog mc; mc_mem := u'; mc_pc := mc_pc mc |} /\
                  pages_set (mc_mem mc) u' p c r)
  end.
Proof. exact pages_call. Qed.
Print Assumptions C33_pages_exact.

(* ---- peek_poke_exact.  peek(n, o, a, z): panic iff the outer [o, o+z) is not writable; else WHO
   iff n is no machine; else OOB iff the inner [a, a+z) is not readable; else exactly the bytes
   outer[o + k] := inner[a + k], k < z — no other outer byte, no access class, no machine changes ---- *)
Theorem C33_peek_exact : forall s e s', 10 <= o_gas s -> hostcall CPeek s = Some (e, s') ->
  let n := arg s 7 in let o := arg s 8 in let a := arg s 9 in let z := arg s 10 in
  0 <= o -> 0 <= a ->
  (range_ok writable (o_mem s) o z = false -> e = XPanic /\ only_gas s s') /\
  (range_ok writable (o_mem s) o z = true -> e = XCont /\
     match aget n (o_mach s) with
     | None => only_w7 s s' R_WHO
     | Some mc =>
       if range_ok readable (mc_mem mc) a z
       then o_regs s' = sreg (o_regs s) 7 R_OK /\ o_gas s' = paid s /\ o_mach s' = o_mach s /\
            ram_written (o_mem s) (o_mem s') o z (fun x => rd_byte (mc_mem mc) (a + (x - o)))
       else only_w7 s s' R_OOB
     end).
Proof. exact peek_call. Qed.
Print Assumptions C33_peek_exact.

(* poke(n, a, o, z): panic iff the outer [a, a+z) is not readable; else WHO; else OOB iff the inner
   [o, o+z) is not writable; else exactly inner[o + k] := outer[a + k] in machine n — the outer RAM,
   the machine's program and counter and every other machine are unchanged *)
Theorem C33_poke_exact : forall s e s', 10 <= o_gas s -> hostcall CPoke s = Some (e, s') ->
  let n := arg s 7 in let a := arg s 8 in let o := arg s 9 in let z := arg s 10 in
  0 <= o -> 0 <= a ->
  (range_ok readable (o_mem s) a z = false -> e = XPanic /\ only_gas s s') /\
  (range_ok readable (o_mem s) a z = true -> e = XCont /\
     match aget n (o_mach s) with
     | None => only_w7 s s' R_WHO
     | Some mc =>
       if range_ok writable (mc_mem mc) o z
       then o_regs s' = sreg (o_regs s) 7 R_OK /\ o_gas s' = paid s /\ o_mem s' = o_mem s /\
            exists u', mach_updated (o_mach s) (o_mach s') n
                         {| mc_prog := mc_prog mc; mc_mem := u'; mc_pc := mc_pc mc |} /\
                       ram_written (mc_mem mc) u' o z (fun x => rd_byte (o_mem s) (a + (x - o)))
       else only_w7 s s' R_OOB
     end).
Proof. exact poke_call. Qed.
Print Assumptions C33_poke_exact.

(* ---- invoke_writes_back.  invoke(n, o): panic iff the 112 bytes at o are not writable; else WHO;
   else Psi runs the STORED program from the stored counter on the stored RAM with the gas and the
   13 registers read from the window (gas + 1 steps of fuel always suffice); afterwards the window
   holds E_8(g') and E_8 of the 13 resulting registers and no other outer byte moved, omega_7 / omega_8
   carry the exit, and machine n keeps its program and gets the resulting RAM and counter ---- *)
Theorem C33_invoke_writes_back : forall s e s', 10 <= o_gas s -> hostcall CInvoke s = Some (e, s') ->
  let n := arg s 7 in let o := arg s 8 in
  0 <= o ->
  (range_ok writable (o_mem s) o 112 = false -> e = XPanic /\ only_gas s s') /\
  (range_ok writable (o_mem s) o 112 = true -> e = XCont /\
     match aget n (o_mach s) with
     | None => only_w7 s s' R_WHO
     | Some mc =>
       let s0 := window_in (o_mem s) o (mc_mem mc) in
       exists ex pc' st',
         run (S (Z.to_nat (gas s0))) (mc_prog mc) (mc_pc mc) s0 = Some (ex, pc', st') /\
         ex <> Continue /\
         o_regs s' = InnerVm.invoke_regs (o_regs s) ex /\ o_gas s' = paid s /\
         length (window st') = 112%nat /\
         ram_written (o_mem s) (o_mem s') o 112 (fun x => nth (Z.to_nat (x - o)) (window st') 0) /\
         mach_updated (o_mach s) (o_mach s') n
           {| mc_prog := mc_prog mc; mc_mem := mem st'; mc_pc := pc' |}
     end).
Proof. exact invoke_call. Qed.
Print Assumptions C33_invoke_writes_back.

(* exit kind in omega_7 (HALT 0, PANIC 1, FAULT 2, HOST 3, OOG 4); omega_8 = fault address / host-call
   identifier, unchanged otherwise; no other register changes *)
Theorem C33_invoke_exit_registers : forall r ex, (8 < length r)%nat -> ex <> Continue ->
  greg (InnerVm.invoke_regs r ex) 7 =
    match ex with Halt => 0 | Panic => 1 | Fault _ => 2 | Host _ => 3 | _ => 4 end /\
  greg (InnerVm.invoke_regs r ex) 8 =
    match ex with Fault a => a | Host id => id | _ => greg r 8 end /\
  forall i, i <> 7%nat -> i <> 8%nat -> greg (InnerVm.invoke_regs r ex) i = greg r i.
Proof. exact invoke_regs_ok. Qed.
Print Assumptions C33_invoke_exit_registers.

(* reading the window back gives the resulting gas (as a 64-bit word) and registers *)
Theorem C33_window_roundtrip : forall st', length (regs st') = 13%nat ->
  Forall (fun v => 0 <= v < W64) (regs st') ->
  dec8_at (window st') 0 = gas st' mod W64 /\
  forall k, (k < 13)%nat -> dec8_at (window st') (S k) = nth k (regs st') 0.
Proof. exact window_roundtrip. Qed.
Print Assumptions C33_window_roundtrip.

(* the executable inner run (logarithmic fuel, explicit trap for a counter past the code) IS Psi with
   gas + 1 steps of fuel, and it always exits *)
Theorem C33_inner_run_is_psi : forall p pc s,
  inner_run p pc s = run (S (Z.to_nat (gas s))) p pc s /\ inner_run p pc s <> None.
Proof. exact inner_run_is_run. Qed.
Print Assumptions C33_inner_run_is_psi.

(* ---- expunge(n): WHO, or omega_7 = the machine's counter and exactly machine n is removed ---- *)
Theorem C33_expunge_exact : forall s e s', 10 <= o_gas s -> hostcall CExpunge s = Some (e, s') ->
  let n := arg s 7 in
  e = XCont /\
  match aget n (o_mach s) with
  | None => only_w7 s s' R_WHO
  | Some mc => o_regs s' = sreg (o_regs s) 7 (mc_pc mc) /\ o_gas s' = paid s /\ o_mem s' = o_mem s /\
               mach_removed (o_mach s) (o_mach s') n
  end.
Proof. exact expunge_call. Qed.
Print Assumptions C33_expunge_exact.

(* ---- inner_total: in EVERY state every call returns an outcome, and so does every history of
   calls with arbitrary arguments — there is no stuck state (the model-level "cannot crash") ---- *)
Theorem C33_inner_total : forall c s, exists e s', hostcall c s = Some (e, s').
Proof. exact inner_total. Qed.
Print Assumptions C33_inner_total.

Theorem C33_history_total : forall h s, exists e s', run_calls h s = Some (e, s').
Proof. exact history_total. Qed.
Print Assumptions C33_history_total.

(* ---- inner_isolated (writes): no call changes a byte of the OUTER RAM outside its write window
   (peek: [o, o+z); invoke: the 112-byte window; every other call: nothing), nor any access class ---- *)
Theorem C33_inner_isolated_writes : forall c s e s', hostcall c s = Some (e, s') ->
  0 <= arg s 8 ->
  let '(a, z) := write_window c s in
  (forall x, ~ (a <= x < a + z) -> rd_byte (o_mem s') x = rd_byte (o_mem s) x) /\
  (forall x, acc_at (o_mem s') x = acc_at (o_mem s) x).
Proof. exact isolated_writes. Qed.
Print Assumptions C33_inner_isolated_writes.

(* inner_isolated (reads): two outer RAMs with the same access classes that agree on the read window of
   the call (machine: the blob; poke: the source; invoke: the 112-byte window; the others: nothing)
   give the same exit, registers, gas and inner machines — so nothing of the outer RAM outside those
   windows can reach an inner machine, its execution, or the result — and final outer RAMs that
   still agree wherever the initial ones did *)
Theorem C33_inner_isolated_reads : forall c s m2 e1 s1 e2 s2,
  0 <= arg s 7 -> 0 <= arg s 8 -> 0 <= arg s 9 ->
  same_access (o_mem s) m2 ->
  (let '(a, z) := read_window c s in agree_on (o_mem s) m2 a z) ->
  hostcall c s = Some (e1, s1) -> hostcall c (with_mem s m2) = Some (e2, s2) ->
  e1 = e2 /\ o_regs s1 = o_regs s2 /\ o_gas s1 = o_gas s2 /\ o_mach s1 = o_mach s2 /\
  same_access (o_mem s1) (o_mem s2) /\
  forall x, rd_byte (o_mem s) x = rd_byte m2 x -> rd_byte (o_mem s1) x = rd_byte (o_mem s2) x.
Proof. exact isolated_reads. Qed.
Print Assumptions C33_inner_isolated_reads.

(* ================= non-vacuity: a concrete history ================= *)
(* program: load_imm r1, 5 ; ecalli 7 ; trap  (code 33 01 05 | 0a 07 | 00, bitmask 0b101001) *)
Definition ex_blob : list Z := [0; 0; 6; 51; 1; 5; 10; 7; 0; 41].
Definition ex_ram : memory :=
  wr_range (wr_range {| m_pages := [(16, {| p_acc := AccRW; p_dat := [] |}); (17, {| p_acc := AccRO; p_dat := [(0, 9)] |})];
                        m_hp := 0; m_hl := 0 |} 65536 ex_blob)
           65792 [100; 0; 0; 0; 0; 0; 0; 0].           (* the window: gas 100, registers 0 *)
Definition ex_s0 : istate := Eval vm_compute in {| o_regs := repeat 0 13; o_gas := 1000; o_mem := ex_ram; o_mach := [] |}.
Definition ex_call (c : call) (args : list Z) (s : istate) : option (hexit * istate) :=
  hostcall c (with_regs s (set_args (o_regs s) 7 args)).
Definition ex_after (c : call) (args : list Z) (s : istate) : istate :=
  match ex_call c args s with Some (_, s') => s' | None => s end.

Definition ex_s1 := Eval vm_compute in ex_after CMachine [65536; 10; 0] ex_s0.     (* machine 0 *)
Definition ex_s2 := Eval vm_compute in ex_after CPages [0; 16; 2; 2] ex_s1.        (* inner pages 16, 17 read-write *)
Definition ex_s3 := Eval vm_compute in ex_after CPoke [0; 65539; 65600; 3] ex_s2.  (* outer 33 01 05 -> inner 0x10040 *)
Definition ex_s4 := Eval vm_compute in ex_after CInvoke [0; 65792] ex_s3.          (* runs to ecalli 7 *)
Definition ex_s5 := Eval vm_compute in ex_after CPeek [0; 66000; 65600; 3] ex_s4.  (* inner -> outer 0x101d0 *)
Definition ex_s6 := Eval vm_compute in ex_after CPages [0; 16; 1; 3] ex_s5.        (* page 16 read-only, contents kept *)
Definition ex_s7 := Eval vm_compute in ex_after CExpunge [0] ex_s6.

(* machine: omega_7 = 0 (the minimal free id), program stored, RAM empty, counter 0 *)
Example ex_machine : ex_call CMachine [65536; 10; 0] ex_s0 = Some (XCont, ex_s1) /\
  greg (o_regs ex_s1) 7 = 0 /\ o_gas ex_s1 = 990 /\
  (exists mc, aget 0 (o_mach ex_s1) = Some mc /\ deblob (bytesN ex_blob) = Some (mc_prog mc) /\
              mc_mem mc = empty_mem /\ mc_pc mc = 0).
Proof. vm_compute. split; [reflexivity|]. repeat split. eexists. repeat split. Qed.

(* a second machine gets id 1; after expunging 0 the next one gets 0 again *)
Example ex_ids : greg (o_regs (ex_after CMachine [65536; 10; 0] ex_s1)) 7 = 1 /\
                 greg (o_regs (ex_after CMachine [65536; 10; 0] ex_s7)) 7 = 0.
Proof. vm_compute. split; reflexivity. Qed.

(* a truncated blob is refused with HUH, an unreadable one panics *)
Example ex_machine_huh : exists s', ex_call CMachine [65536; 9; 0] ex_s0 = Some (XCont, s') /\ greg (o_regs s') 7 = R_HUH.
Proof. eexists. vm_compute. split; reflexivity. Qed.
Example ex_machine_panic : exists s', ex_call CMachine [4096 * 18; 10; 0] ex_s0 = Some (XPanic, s').
Proof. eexists. vm_compute. reflexivity. Qed.

(* pages: OK; the two pages are writable and zero, page 18 is still inaccessible *)
Example ex_pages : greg (o_regs ex_s2) 7 = R_OK /\
  (exists mc, aget 0 (o_mach ex_s2) = Some mc /\ acc_at (mc_mem mc) 65536 = AccRW /\
              acc_at (mc_mem mc) (4096 * 17 + 5) = AccRW /\ acc_at (mc_mem mc) (4096 * 18) = AccNone).
Proof. vm_compute. split; [reflexivity|]. eexists. repeat split. Qed.
(* p < 16, r = 5, p + c = 2^20, r = 3 on an inaccessible page: HUH; machine 9: WHO *)
Example ex_pages_refused :
  greg (o_regs (ex_after CPages [0; 15; 1; 2] ex_s2)) 7 = R_HUH /\
  greg (o_regs (ex_after CPages [0; 16; 1; 5] ex_s2)) 7 = R_HUH /\
  greg (o_regs (ex_after CPages [0; 16; 1048560; 2] ex_s2)) 7 = R_HUH /\
  greg (o_regs (ex_after CPages [0; 17; 2; 3] ex_s2)) 7 = R_HUH /\
  greg (o_regs (ex_after CPages [9; 16; 1; 2] ex_s2)) 7 = R_WHO /\
  o_mach (ex_after CPages [0; 17; 2; 3] ex_s2) = o_mach ex_s2.
Proof. vm_compute. repeat split. Qed.

(* poke: the three bytes arrive, nothing else *)
Example ex_poke : greg (o_regs ex_s3) 7 = R_OK /\ o_mem ex_s3 = o_mem ex_s2 /\
  (exists mc, aget 0 (o_mach ex_s3) = Some mc /\ rd_range (mc_mem mc) 65599 5 = [0; 51; 1; 5; 0]).
Proof. vm_compute. split; [reflexivity|]. split; [reflexivity|]. eexists. repeat split. Qed.
(* poke into the inaccessible inner page 18: OOB; from the unreadable outer page 18: panic *)
Example ex_poke_refused :
  greg (o_regs (ex_after CPoke [0; 65539; 4096 * 18; 3] ex_s2)) 7 = R_OOB /\
  (exists s', ex_call CPoke [0; 4096 * 18; 65600; 3] ex_s2 = Some (XPanic, s')).
Proof. split; [vm_compute; reflexivity|]. eexists. vm_compute. reflexivity. Qed.

(* invoke: HOST (3) with identifier 7; the window holds gas 98 and r1 = 5; the counter is behind the
   ecalli (5); a second invoke meets the trap: PANIC (1), counter 0, gas 97 *)
Example ex_invoke : greg (o_regs ex_s4) 7 = 3 /\ greg (o_regs ex_s4) 8 = 7 /\
  rd_range (o_mem ex_s4) 65792 24 = [98; 0; 0; 0; 0; 0; 0; 0;  0; 0; 0; 0; 0; 0; 0; 0;  5; 0; 0; 0; 0; 0; 0; 0] /\
  (exists mc, aget 0 (o_mach ex_s4) = Some mc /\ mc_pc mc = 5) /\
  let s' := ex_after CInvoke [0; 65792] ex_s4 in
  greg (o_regs s') 7 = 1 /\ rd_range (o_mem s') 65792 1 = [97] /\
  (exists mc, aget 0 (o_mach s') = Some mc /\ mc_pc mc = 0).
Proof. vm_compute. repeat split; try reflexivity; eexists; repeat split. Qed.
(* window in the read-only page: panic; machine 4: WHO *)
Example ex_invoke_refused :
  (exists s', ex_call CInvoke [0; 4096 * 17] ex_s3 = Some (XPanic, s')) /\
  greg (o_regs (ex_after CInvoke [4; 65792] ex_s3)) 7 = R_WHO.
Proof. split; [eexists; vm_compute; reflexivity|vm_compute; reflexivity]. Qed.

(* peek: the bytes poked before come back out, next to them nothing moved *)
Example ex_peek : greg (o_regs ex_s5) 7 = R_OK /\ rd_range (o_mem ex_s5) 65999 5 = [0; 51; 1; 5; 0] /\
  o_mach ex_s5 = o_mach ex_s4.
Proof. vm_compute. repeat split. Qed.
Example ex_peek_refused :
  greg (o_regs (ex_after CPeek [0; 66000; 4096 * 18; 3] ex_s4)) 7 = R_OOB /\
  greg (o_regs (ex_after CPeek [5; 66000; 65600; 0] ex_s4)) 7 = R_WHO /\
  (exists s', ex_call CPeek [0; 4096 * 17; 65600; 3] ex_s4 = Some (XPanic, s')).
Proof. split; [vm_compute; reflexivity|]. split; [vm_compute; reflexivity|]. eexists. vm_compute. reflexivity. Qed.

(* pages mode 3 keeps the contents, mode 0 afterwards wipes them *)
Example ex_pages_keep_then_wipe :
  (exists mc, aget 0 (o_mach ex_s6) = Some mc /\ acc_at (mc_mem mc) 65600 = AccRO /\ rd_range (mc_mem mc) 65600 3 = [51; 1; 5]) /\
  (exists mc, aget 0 (o_mach (ex_after CPages [0; 16; 1; 0] ex_s6)) = Some mc /\
              acc_at (mc_mem mc) 65600 = AccNone /\ rd_range (mc_mem mc) 65600 3 = [0; 0; 0]).
Proof. split; eexists; vm_compute; repeat split. Qed.

(* expunge: omega_7 = the counter (5), the machine is gone; again: WHO *)
Example ex_expunge : greg (o_regs ex_s7) 7 = 5 /\ o_mach ex_s7 = [] /\
  greg (o_regs (ex_after CExpunge [0] ex_s7)) 7 = R_WHO.
Proof. vm_compute. repeat split. Qed.

(* out of gas: 9 units do not pay for a call *)
Example ex_oog : exists s', hostcall CExpunge {| o_regs := repeat 0 13; o_gas := 9; o_mem := ex_ram; o_mach := [] |} = Some (XOog, s').
Proof. eexists. vm_compute. reflexivity. Qed.

(* the whole history through [run_calls] *)
Example ex_history :
  exists s', run_calls [(CMachine, [65536; 10; 0]); (CPages, [0; 16; 2; 2]); (CPoke, [0; 65539; 65600; 3]);
                        (CInvoke, [0; 65792]); (CPeek, [0; 66000; 65600; 3]); (CPages, [0; 16; 1; 3]);
                        (CExpunge, [0])] ex_s0 = Some (XCont, s') /\ s' = ex_s7.
Proof. eexists. vm_compute. split; reflexivity. Qed.

(* isolation, concretely: changing an outer byte outside the 112-byte window changes nothing of what
   invoke does to the machines and registers *)
Example ex_isolated :
  let m2 := wr_range (o_mem ex_s3) 65540 [77] in
  match hostcall CInvoke (with_regs ex_s3 (set_args (o_regs ex_s3) 7 [0; 65792])),
        hostcall CInvoke (with_mem (with_regs ex_s3 (set_args (o_regs ex_s3) 7 [0; 65792])) m2) with
  | Some (e1, s1), Some (e2, s2) => e1 = e2 /\ o_regs s1 = o_regs s2 /\ o_mach s1 = o_mach s2 /\
                                     rd_byte (o_mem s2) 65540 = 77 /\ rd_byte (o_mem s1) 65540 = 1
  | _, _ => False
  end.
Proof. vm_compute. repeat split. Qed.
