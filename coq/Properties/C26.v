(* C26 — Block import is atomic and repeatable. Property theorems only.

   SCOPE (read this first). The state-transition function is an ORACLE here: a Section variable
   [stf : state -> block -> state + N], i.e. any deterministic function of (parent posterior state,
   block). What is proved is the node's bookkeeping protocol around it (Model/Node.v: which state a block
   is applied to, what an accepted import commits, that a refused import leaves nothing behind, how
   GetState answers, the ancestry admission policy). Whether the REAL node implements this protocol —
   no in-place mutation of the prior state that survives a later failed check, the rejected block not
   left behind as "latest block", head/ancestry not moved by the restore that precedes a rejected
   import, caches not polluted — is exactly what the correspondence run (check/props/C26.py) decides:
   generated histories are executed on the Go node and the observables are compared with this model
   fed with the accept/reject/post-state table observed from the Go STF itself. The real STF and
   persistence are outside the model. *)
From Coq Require Import List NArith Bool.
From JamV Require Import Model.Node Proofs.NodeP.
Import ListNotations.
Local Open Scope N_scope.

(* For EVERY history started on ANY node and EVERY choice of refused imports (STF protocol error, or
   refused by the node: unknown parent / ancestry policy) to delete: the observables of the remaining
   operations — import results with state roots, GetState key-values and roots — are unchanged. *)
Theorem C26_rejected_is_noop :
  forall (state block root kvs : Type) (bhash bparent bslot : block -> N)
         (stf : state -> block -> state + N) (root_of : state -> root) (kv_of : state -> kvs)
         (ops : list (op state block)) (n : node state) (m : list bool),
    mask_ok state block root kvs m ops (run state block root kvs bhash bparent bslot stf root_of kv_of n ops) = true ->
    run state block root kvs bhash bparent bslot stf root_of kv_of n (remove_mask m ops)
    = remove_mask m (run state block root kvs bhash bparent bslot stf root_of kv_of n ops).
Proof. exact rejected_is_noop. Qed.
Print Assumptions C26_rejected_is_noop.

(* the node that never sees ANY refused block observes the same as the node that sees them all *)
Theorem C26_drop_all_refused :
  forall (state block root kvs : Type) (bhash bparent bslot : block -> N)
         (stf : state -> block -> state + N) (root_of : state -> root) (kv_of : state -> kvs)
         (ops : list (op state block)) (n : node state),
    let m := refused_mask state block root kvs ops (run state block root kvs bhash bparent bslot stf root_of kv_of n ops) in
    run state block root kvs bhash bparent bslot stf root_of kv_of n (remove_mask m ops)
    = remove_mask m (run state block root kvs bhash bparent bslot stf root_of kv_of n ops).
Proof. exact drop_all_refused. Qed.
Print Assumptions C26_drop_all_refused.

(* clause 1: after a refusal every GetState answer (key-values and root, for the head and any other hash) is as before *)
Theorem C26_refused_keeps_every_state :
  forall (state block root kvs : Type) (bhash bparent bslot : block -> N)
         (stf : state -> block -> state + N) (root_of : state -> root) (kv_of : state -> kvs)
         (n n' : node state) b ob,
    import state block root kvs bhash bparent bslot stf root_of kv_of n b = (n', ob) ->
    is_refusal root kvs ob = true ->
    forall h, get_state state root kvs root_of kv_of n' h = get_state state root kvs root_of kv_of n h.
Proof. exact refused_keeps_every_state. Qed.
Print Assumptions C26_refused_keeps_every_state.

(* clause 2: whatever is imported afterwards (the same block again, a sibling, a child, anything) behaves as on
   the node that never saw the refused block *)
Theorem C26_refused_then_any_history :
  forall (state block root kvs : Type) (bhash bparent bslot : block -> N)
         (stf : state -> block -> state + N) (root_of : state -> root) (kv_of : state -> kvs)
         (n n' : node state) b ob,
    import state block root kvs bhash bparent bslot stf root_of kv_of n b = (n', ob) ->
    is_refusal root kvs ob = true ->
    forall later, run state block root kvs bhash bparent bslot stf root_of kv_of n' later
                = run state block root kvs bhash bparent bslot stf root_of kv_of n later.
Proof. exact refused_then_any_history. Qed.
Print Assumptions C26_refused_then_any_history.

(* an accepted import serves exactly the returned root and key-values under the block's header hash *)
Theorem C26_accepted_is_served :
  forall (state block root kvs : Type) (bhash bparent bslot : block -> N)
         (stf : state -> block -> state + N) (root_of : state -> root) (kv_of : state -> kvs)
         (n n' : node state) b r k,
    import state block root kvs bhash bparent bslot stf root_of kv_of n b = (n', OAccepted r k) ->
    get_state state root kvs root_of kv_of n' (bhash b) = OState k r.
Proof. exact accepted_is_served. Qed.
Print Assumptions C26_accepted_is_served.

(* clause 3: SetState resets the node completely, so two nodes — fresh or with any past — fed the same
   sequence from a SetState on produce identical observables (state roots included) *)
Theorem C26_import_deterministic :
  forall (state block root kvs : Type) (bhash bparent bslot : block -> N)
         (stf : state -> block -> state + N) (root_of : state -> root) (kv_of : state -> kvs)
         (n1 n2 : node state) h slot s a (ops : list (op state block)),
    run state block root kvs bhash bparent bslot stf root_of kv_of n1 (SetState h slot s a :: ops)
    = run state block root kvs bhash bparent bslot stf root_of kv_of n2 (SetState h slot s a :: ops).
Proof. exact import_deterministic. Qed.
Print Assumptions C26_import_deterministic.

(* ---------------------------------------------------------------------------------------------
   Non-vacuity on a toy instance: state = (slot, accumulator); a block (hash, parent, slot, payload) is
   rejected with kind 7 when its payload is 0, with kind 1 when its slot is not after the state's slot,
   otherwise it adds its payload. *)
Definition tblock := (N * N * N * N)%type.
Definition t_hash (b : tblock) := let '(h, _, _, _) := b in h.
Definition t_parent (b : tblock) := let '(_, p, _, _) := b in p.
Definition t_slot (b : tblock) := let '(_, _, s, _) := b in s.
Definition t_stf (s : N * N) (b : tblock) : (N * N) + N :=
  let '(_, _, sl, pay) := b in
  if pay =? 0 then inr 7 else if sl <=? fst s then inr 1 else inl (sl, snd s + pay).
Definition t_root (s : N * N) : N := 1000 * fst s + snd s.
Definition t_kv (s : N * N) : N := snd s.
Definition t_run := run (N * N) tblock N N t_hash t_parent t_slot t_stf t_root t_kv.
Definition t_grun := grun (N * N) tblock N N t_hash t_parent t_slot t_stf t_root t_kv.

Definition t_hist : list (op (N * N) tblock) :=
  [ SetState 100 0 (0, 1) [(0, 100)];
    Import (1, 100, 1, 5);        (* accepted: state (1,6) *)
    Import (2, 1, 2, 0);          (* rejected, kind 7 *)
    GetState 1;
    Import (2, 1, 2, 0);          (* retried: rejected again *)
    Import (3, 1, 2, 4);          (* valid child *)
    Import (4, 100, 1, 9);        (* sibling of block 1 at a slot before the head's: refused by the ancestry policy *)
    Import (5, 77, 9, 1);         (* unknown parent *)
    Import (6, 1, 3, 2);          (* valid sibling of block 3 *)
    GetState 3; GetState 2 ].

Example C26_ex_run :
  t_run fresh t_hist =
  [ OAccepted 1 1; OAccepted 1006 6; ORejected 7; OState 6 1006; ORejected 7; OAccepted 2010 10;
    ORefused RAncestry; ORefused RNoParent; OAccepted 3008 8; OState 10 2010; ONone ].
Proof. vm_compute. reflexivity. Qed.

(* the hypothesis of C26_rejected_is_noop is satisfiable with refusals actually deleted, and the conclusion is
   the non-trivial equation below (first and third refusal deleted, second kept) *)
Example C26_ex_mask :
  let m := [false; false; true; false; false; false; true; false; false; false; false] in
  mask_ok (N * N) tblock N N m t_hist (t_run fresh t_hist) = true /\
  t_run fresh (remove_mask m t_hist) =
  [ OAccepted 1 1; OAccepted 1006 6; OState 6 1006; ORejected 7; OAccepted 2010 10;
    ORefused RNoParent; OAccepted 3008 8; OState 10 2010; ONone ].
Proof. vm_compute. split; reflexivity. Qed.

(* ---------------------------------------------------------------------------------------------
   The node shaped like the Go code BEFORE the repair (rejected block stays "latest block", Model/Node.v
   [gimport]) does NOT have the property: after [accept V; reject R], re-importing V is accepted again
   (the node restores V's parent because its latest block is R), whereas the node that never saw R
   treats V as its head block and refuses it. The witness is replayed on the Go code by the check
   (corpus/C26): it is the finding repaired by proposed_fixes/C26-import-rollback.patch. *)
Theorem C26_go_shaped_node_refuted :
  exists (ops : list (op (N * N) tblock)) (m : list bool),
    mask_ok (N * N) tblock N N m ops (t_grun gfresh ops) = true /\
    t_grun gfresh (remove_mask m ops) <> remove_mask m (t_grun gfresh ops).
Proof.
  exists [ SetState 100 0 (0, 1) []; Import (1, 100, 1, 5); Import (2, 1, 2, 0); Import (1, 100, 1, 5) ].
  exists [false; false; true; false].
  split; [vm_compute; reflexivity|].
  vm_compute. intro H. discriminate H.
Qed.
Print Assumptions C26_go_shaped_node_refuted.

(* on the same witness the specification node behaves identically with and without the rejected block *)
Example C26_ex_spec_on_witness :
  let ops := [ SetState 100 0 (0, 1) []; Import (1, 100, 1, 5); Import (2, 1, 2, 0); Import (1, 100, 1, 5) ] in
  t_run fresh ops = [OAccepted 1 1; OAccepted 1006 6; ORejected 7; ORejected 1] /\
  t_run fresh (remove_mask [false; false; true; false] ops) = [OAccepted 1 1; OAccepted 1006 6; ORejected 1].
Proof. vm_compute. split; reflexivity. Qed.
