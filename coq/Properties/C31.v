(* C31 — Historical lookup and preimage admission. Property theorems only (proofs in Proofs/PreimagesP.v).
   Model/Preimages.v: valid_time = I(l,t) (service_account.isValidTime), hist_lookup = Lambda (HistoricalLookup),
   admit_pre = ValidatePreimageExtrinsics (validateSortUnique + ShouldIntegratePreimage with the raw key-value fallback),
   integrate = ProcessPreimageExtrinsics (filterPreimageExtrinsics, UpdateDeltaWithExtrinsicPreimage), provide = Provide.
   The hash H is universally quantified; no injectivity is assumed: explicit collisions appear as disjuncts. *)
From JamV Require Import Base.Bytes Proofs.BytesP Model.Preimages Proofs.PreimagesP.
From Coq Require Import Sorted.
Local Open Scope N_scope.

(* I(l,t): [] -> false; [x] -> x <= t; [x,y] -> x <= t < y; [x,y,z] -> x <= t < y \/ z <= t; longer -> false *)
Theorem C31_valid_time_spec : forall l t, valid_time l t = true <-> I_spec l t.
Proof. exact valid_time_spec. Qed.
Print Assumptions C31_valid_time_spec.

(* the same, read as "t lies in one of the availability intervals of a record of at most three entries" *)
Theorem C31_valid_time_intervals : forall l t,
  valid_time l t = true <-> (length l <= 3)%nat /\ exists iv, In iv (intervals l) /\ in_interval t iv.
Proof. exact valid_time_intervals. Qed.
Print Assumptions C31_valid_time_intervals.

(* a historical lookup returns b exactly when b is the stored preimage of h and t is valid for its record ... *)
Theorem C31_lookup_iff : forall a t h b,
  hist_lookup a t h = Some b <->
  get_p h a = Some b /\ exists l, get_l (h, blen b) a = Some l /\ valid_time l t = true.
Proof. exact lookup_iff. Qed.
Print Assumptions C31_lookup_iff.

(* ... and nothing otherwise *)
Theorem C31_lookup_none_iff : forall a t h,
  hist_lookup a t h = None <->
  ~ exists b, get_p h a = Some b /\ exists l, get_l (h, blen b) a = Some l /\ valid_time l t = true.
Proof. exact lookup_none_iff. Qed.
Print Assumptions C31_lookup_none_iff.

(* admission: accepted iff strictly ordered by (requester, blob) and every entry solicited and not yet provided.
   [needed_spec] is GP's Y read against the dictionary or, failing that, the raw key-values (C31_needed_spec_iff).
   The Go raw branch does not consult the preimage map; under GP 9.6-style consistency of the accounts this is the same
   predicate, unless the extrinsic carries one half of an explicit hash collision. *)
Theorem C31_admit_iff : forall H d kvs eps,
  (forall s a, get_acc s d = Some a -> consistent H a kvs s) ->
  (admit_pre H d kvs eps = Accepted <->
   StronglySorted pre_lt eps /\ Forall (fun e => needed_spec H d kvs e = true) eps)
  \/ exists e p, In e eps /\ p <> snd e /\ H p = H (snd e).
Proof. exact admit_iff. Qed.
Print Assumptions C31_admit_iff.

(* without any assumption on the state: accepted iff strictly ordered and every entry passes the implemented test *)
Theorem C31_admit_accepted_iff : forall H d kvs eps,
  admit_pre H d kvs eps = Accepted <-> StronglySorted pre_lt eps /\ Forall (fun e => needed H d kvs e = true) eps.
Proof. exact admit_accepted_iff. Qed.
Print Assumptions C31_admit_accepted_iff.

Theorem C31_needed_spec_iff : forall H d kvs e,
  needed_spec H d kvs e = true <->
  exists a, get_acc (fst e) d = Some a /\ get_p (H (snd e)) a = None /\
    (get_l (key_of H e) a = Some []
     \/ (get_l (key_of H e) a = None /\ pm_get bytes_eqb (lookup_state_key H (fst e) (key_of H e)) kvs = Some [0])).
Proof. exact needed_spec_iff. Qed.
Print Assumptions C31_needed_spec_iff.

(* the order error is reported exactly for lists that are not strictly ordered; strictly ordered lists have no duplicates *)
Theorem C31_admit_unsorted_iff : forall H d kvs eps,
  admit_pre H d kvs eps = NotSortedUnique <-> ~ StronglySorted pre_lt eps.
Proof. exact admit_unsorted_iff. Qed.
Print Assumptions C31_admit_unsorted_iff.

Theorem C31_sorted_NoDup : forall eps, StronglySorted pre_lt eps -> NoDup eps.
Proof. exact sorted_strict_NoDup. Qed.
Print Assumptions C31_sorted_NoDup.

(* integration: every entry kept by the filter ends with record [tau] and its blob stored under its hash (or an explicit
   collision inside the extrinsic overwrote it) *)
Theorem C31_integrate_sets_slot : forall H tau d kvs eps kept d1 kvs1 e,
  filter_pass H d kvs eps = (kept, d1, kvs1) -> In e kept ->
  stored H tau eps e (fst (integrate H tau d kvs eps)).
Proof. exact integrate_sets_slot. Qed.
Print Assumptions C31_integrate_sets_slot.

(* an extrinsic admitted against the state it is integrated into has every entry stored (no entry is dropped),
   provided no two of its entries clash on a lookup key / raw state key (a hash collision) *)
Theorem C31_admitted_all_stored : forall H tau d kvs eps e,
  admit_pre H d kvs eps = Accepted -> no_clash H eps -> In e eps ->
  stored H tau eps e (fst (integrate H tau d kvs eps)).
Proof. exact admitted_all_stored. Qed.
Print Assumptions C31_admitted_all_stored.

(* "the block's slot is the start of its availability": afterwards the blob is returned exactly for t >= tau *)
Theorem C31_stored_available : forall H tau L e d a t,
  stored H tau L e d -> get_acc (fst e) d = Some a ->
  (hist_lookup a t (H (snd e)) = (if tau <=? t then Some (snd e) else None))
  \/ exists e', In e' L /\ snd e' <> snd e /\ H (snd e') = H (snd e).
Proof. exact stored_available. Qed.
Print Assumptions C31_stored_available.

(* frame: a preimage whose (service, hash) no entry names is untouched *)
Theorem C31_integrate_frame : forall H tau d kvs eps s h a,
  (forall e, In e eps -> fst e <> s \/ H (snd e) <> h) ->
  get_acc s d = Some a ->
  exists a', get_acc s (fst (integrate H tau d kvs eps)) = Some a' /\ get_p h a' = get_p h a.
Proof. exact integrate_frame_p. Qed.
Print Assumptions C31_integrate_frame.

(* Provide (accumulation): stores exactly when the dictionary record is the empty record *)
Theorem C31_provide_stores : forall H tau d e a,
  get_acc (fst e) d = Some a -> get_l (key_of H e) a = Some [] -> stored H tau [e] e (provide_one H tau d e).
Proof. exact provide_one_stores. Qed.
Print Assumptions C31_provide_stores.
Theorem C31_provide_skips : forall H tau d e,
  (forall a, get_acc (fst e) d = Some a -> get_l (key_of H e) a <> Some []) -> provide_one H tau d e = d.
Proof. exact provide_one_skips. Qed.
Print Assumptions C31_provide_skips.

(* ------------------------------------------------------------------ non-vacuity *)
Example C31_ex_I :
  valid_time [] 5 = false /\ valid_time [5] 5 = true /\ valid_time [5] 4 = false /\
  valid_time [5; 9] 8 = true /\ valid_time [5; 9] 9 = false /\
  valid_time [5; 9; 12] 10 = false /\ valid_time [5; 9; 12] 12 = true /\ valid_time [5; 9; 12; 20] 6 = false.
Proof. repeat split; reflexivity. Qed.

(* a toy hash (sum of bytes mod 256, one byte long): enough to run the definitions; it has collisions *)
Definition toyH (b : bytes) : bytes := [fold_right N.add 0 b mod 256].
Definition ex_acc : account :=
  mk_account [([6], [1; 2; 3])] [(([6], 3), [10; 20; 30]); (([9], 2), [])].
Definition ex_delta : delta := [(7, ex_acc)].
(* service 7: blob [1;2;3] (hash [6]) stored, available in [10,20) and from 30; blob [4;5] (hash [9]) solicited;
   blob [8] (hash [8], length 1) solicited only in the raw key-values *)
Definition ex_kvs : rawkv := [(lookup_state_key toyH 7 ([8], 1), [0])].

Example C31_ex_lookup :
  hist_lookup ex_acc 15 [6] = Some [1; 2; 3] /\ hist_lookup ex_acc 25 [6] = None /\
  hist_lookup ex_acc 30 [6] = Some [1; 2; 3] /\ hist_lookup ex_acc 15 [9] = None.
Proof. repeat split; reflexivity. Qed.

Example C31_ex_consistent : forall s a, get_acc s ex_delta = Some a -> consistent toyH a ex_kvs s.
Proof.
  intros s a. unfold ex_delta, get_acc. cbn [pm_get]. destruct (s =? 7) eqn:Es; [|discriminate].
  apply N.eqb_eq in Es; subst s. intros E; inversion E; subst a. clear E.
  intros h p. unfold get_p, ex_acc. cbn [a_p pm_get].
  destruct (bytes_eqb h [6]) eqn:Eh; [|discriminate].
  intros E; inversion E; subst p. apply bytes_eqb_eq in Eh; subst h. split; reflexivity.
Qed.

Example C31_ex_admit :
  admit_pre toyH ex_delta ex_kvs [(7, [4; 5]); (7, [8])] = Accepted /\
  admit_pre toyH ex_delta ex_kvs [(7, [8]); (7, [4; 5])] = NotSortedUnique /\
  admit_pre toyH ex_delta ex_kvs [(7, [4; 5]); (7, [4; 5])] = NotSortedUnique /\
  admit_pre toyH ex_delta ex_kvs [(7, [1; 2; 3])] = Unneeded /\
  admit_pre toyH ex_delta ex_kvs [(7, [4; 6])] = Unneeded /\
  admit_pre toyH ex_delta ex_kvs [(8, [4; 5])] = Unneeded.
Proof. repeat split; reflexivity. Qed.

Example C31_ex_integrate :
  let r := integrate toyH 42 ex_delta ex_kvs [(7, [4; 5]); (7, [8])] in
  snd r = [] /\
  exists a, get_acc 7 (fst r) = Some a /\
    get_l ([9], 2) a = Some [42] /\ get_p [9] a = Some [4; 5] /\
    get_l ([8], 1) a = Some [42] /\ get_p [8] a = Some [8] /\
    hist_lookup a 41 [9] = None /\ hist_lookup a 42 [9] = Some [4; 5] /\
    get_l ([6], 3) a = Some [10; 20; 30].
Proof. cbv zeta. split; [reflexivity|]. eexists. repeat split; reflexivity. Qed.

Example C31_ex_no_clash : no_clash toyH [(7, [4; 5]); (7, [8])].
Proof.
  intros e1 e2 [<-|[<-|[]]] [<-|[<-|[]]] Hne; try congruence; split; try (right; discriminate); discriminate.
Qed.
