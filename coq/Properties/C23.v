(* C23 — Ticket accumulator and slot-sealer sequence. Property theorems only.
   Model: Model/Tickets.v (acc_step = CreateNewTicketAccumulator, outside_in = OutsideInSequencer,
   fallback = FallbackKeySequence, next_sealer = UpdateSlotKeySequence, step/run = OuterUsedSafrole over a block history).
   The hash H (Blake2b-256) is universally quantified; nothing is assumed about it. *)
From JamV Require Import Base.Bytes Model.Tickets Proofs.TicketsP.
From Coq Require Import Permutation Sorted.
Local Open Scope N_scope.

(* acc_spec: on acceptance gamma_a' = firstn E (sort (new ++ carried)), carried = [] at an epoch change; and, without
   reference to the sorting function: gamma_a' is strictly increasing, consists of tickets of new ++ carried, has
   min(E, |new ++ carried|) entries, and every ticket left out is above every ticket kept (= "the E lowest identifiers") *)
Theorem C23_acc_spec : forall P tau tau' ga ext ga',
  acc_step P tau tau' ga ext = (Accept, ga') ->
  let c := carried P tau tau' ga in
  let u := map body ext ++ c in
  ga' = firstn (pE P) (sort_tickets u) /\
  (epoch_of P tau < epoch_of P tau' -> c = []) /\ (epoch_of P tau' <= epoch_of P tau -> c = ga) /\
  StronglySorted lt_t ga' /\
  (forall t, In t ga' -> In t u) /\
  (forall t, In t u -> In t ga' \/ (length ga' = pE P /\ forall x, In x ga' -> lt_t x t)) /\
  length ga' = Nat.min (pE P) (length u).
Proof. exact acc_spec. Qed.
Print Assumptions C23_acc_spec.

(* the sorting function used above is a sorting function *)
Theorem C23_sort_is_sort : forall l, Permutation (sort_tickets l) l /\ StronglySorted le_t (sort_tickets l).
Proof. exact (fun l => conj (sort_perm l) (sort_sorted l)). Qed.
Print Assumptions C23_sort_is_sort.

(* acc_inv, one block: after every accepted block the accumulator is strictly increasing, duplicate-free, at most E long
   (whatever the prior accumulator was) *)
Theorem C23_acc_inv_step : forall P tau tau' ga ext ga',
  acc_step P tau tau' ga ext = (Accept, ga') ->
  StronglySorted lt_t ga' /\ NoDup (map tid ga') /\ (length ga' <= pE P)%nat.
Proof. exact acc_step_inv. Qed.
Print Assumptions C23_acc_inv_step.

(* acc_inv over any block history (accepted and rejected blocks interleaved), for any hash function *)
Theorem C23_acc_inv : forall H P bs s, acc_ok P (s_ga s) -> acc_ok P (s_ga (run H P s bs)).
Proof. exact run_acc_inv. Qed.
Print Assumptions C23_acc_inv.

(* a step of the history is the accumulator step plus the sealer selection; a rejected block changes nothing *)
Theorem C23_step_cases : forall H P s b,
  let s1 := set_iota s (b_iota b) in
  (fst (step H P s b) <> Accept /\ snd (step H P s b) = s1) \/
  (fst (step H P s b) = Accept /\ s_tau s < b_slot b /\
   acc_step P (s_tau s) (b_slot b) (s_ga s) (b_ext b) = (Accept, s_ga (snd (step H P s b))) /\
   s_tau (snd (step H P s b)) = b_slot b /\
   s_gs (snd (step H P s b)) =
     next_sealer H P (s_tau s) (b_slot b) (s_ga s) (s_gs s)
       (if epoch_of P (s_tau s) <? epoch_of P (b_slot b) then s_eta1 s else s_eta2 s1)
       (if epoch_of P (s_tau s) <? epoch_of P (b_slot b) then s_gk s else s_kappa s1)).
Proof. exact step_cases. Qed.
Print Assumptions C23_step_cases.

(* accept_iff / reject_iff: exactly the stated conditions (the carried accumulator being duplicate-free, which acc_inv gives) *)
Theorem C23_accept_iff : forall P tau tau' ga ext,
  NoDup (map tid (carried P tau tau' ga)) ->
  (fst (acc_step P tau tau' ga ext) = Accept <->
   in_window P tau' ext /\ (forall e, In e ext -> eatt e < pN P) /\ (forall e, In e ext -> evalid e = true) /\
   strictly_ascending ext /\ ~ clash ext (carried P tau tau' ga)).
Proof. exact accept_iff. Qed.
Print Assumptions C23_accept_iff.

Theorem C23_reject_iff : forall P tau tau' ga ext,
  NoDup (map tid (carried P tau tau' ga)) ->
  (fst (acc_step P tau tau' ga ext) <> Accept <->
   after_window P tau' ext \/ oversize P tau' ext \/ over_attempted P ext \/ bad_proof ext \/
   unsorted ext \/ duplicated ext \/ clash ext (carried P tau tau' ga)).
Proof. exact reject_iff. Qed.
Print Assumptions C23_reject_iff.

(* "strictly ascending" is "sorted and duplicate-free" *)
Theorem C23_strictly_ascending_iff : forall ext,
  strictly_ascending ext <-> StronglySorted ele ext /\ NoDup (map eid ext).
Proof. exact strictly_ascending_iff. Qed.
Print Assumptions C23_strictly_ascending_iff.

(* the reported error class names a condition that really holds; a rejected block leaves the accumulator unchanged *)
Theorem C23_reject_class : forall P tau tau' ga ext,
  match fst (acc_step P tau tau' ga ext) with
  | Accept => True
  | RejSlot => False
  | RejTail => after_window P tau' ext \/ oversize P tau' ext
  | RejAttempt => over_attempted P ext
  | RejProof => bad_proof ext
  | RejOrder => unsorted ext
  | RejDup => duplicated ext \/ (NoDup (map tid (carried P tau tau' ga)) -> clash ext (carried P tau tau' ga))
  end.
Proof. exact reject_class_sound. Qed.
Print Assumptions C23_reject_class.

Theorem C23_reject_unchanged : forall P tau tau' ga ext,
  fst (acc_step P tau tau' ga ext) <> Accept -> snd (acc_step P tau tau' ga ext) = ga.
Proof. exact acc_step_reject_unchanged. Qed.
Print Assumptions C23_reject_unchanged.

(* outside_in_spec: Z[2i] = a[i], Z[2i+1] = a[E-1-i], a permutation of a full accumulator *)
Theorem C23_outside_in_spec : forall (A : Type) E (a : list A),
  length a = E ->
  length (outside_in E a) = E /\
  (forall i, (2 * i < E)%nat -> nth_error (outside_in E a) (2 * i) = nth_error a i) /\
  (forall i, (2 * i + 1 < E)%nat -> nth_error (outside_in E a) (2 * i + 1) = nth_error a (E - 1 - i)) /\
  Permutation (outside_in E a) a.
Proof. exact @outside_in_spec. Qed.
Print Assumptions C23_outside_in_spec.

(* fallback_spec: F(eta, k)[i] = k[ E4^-1(H(eta ++ E4(i))[0..4)) mod V ], E entries, all of them validator keys *)
Theorem C23_fallback_spec : forall H P eta keys,
  length keys = N.to_nat (pV P) -> 0 < pV P ->
  length (fallback H P eta keys) = pE P /\
  (forall i, (i < pE P)%nat ->
     (fallback_index H P eta i < length keys)%nat /\
     fallback_index H P eta i = N.to_nat (le_dec (firstn 4 (H (eta ++ le_enc 4 (N.of_nat i)))) mod pV P) /\
     nth_error (fallback H P eta keys) i = nth_error keys (fallback_index H P eta i)) /\
  (forall k, In k (fallback H P eta keys) -> In k keys).
Proof. exact fallback_spec. Qed.
Print Assumptions C23_fallback_spec.

(* sealer_spec (GP 6.24): unchanged within an epoch; Z(gamma_a) when the next epoch starts after a closed lottery with a
   full accumulator; F(eta_2', kappa') otherwise (eta_2' = eta_1, kappa' = gamma_k at an epoch change) *)
Theorem C23_sealer_spec : forall H P s b,
  fst (step H P s b) = Accept ->
  let s' := snd (step H P s b) in
  let e := epoch_of P (s_tau s) in
  let e' := epoch_of P (b_slot b) in
  e <= e' /\
  (e' = e -> s_gs s' = s_gs s) /\
  (e' = e + 1 -> length (s_ga s) = pE P -> pY P <= slot_of P (s_tau s) ->
     s_gs s' = STickets (outside_in (pE P) (s_ga s))) /\
  (e < e' -> (e' <> e + 1 \/ length (s_ga s) <> pE P \/ slot_of P (s_tau s) < pY P) ->
     s_gs s' = SKeys (fallback H P (s_eta1 s) (s_gk s))).
Proof. exact sealer_spec. Qed.
Print Assumptions C23_sealer_spec.

(* over any history every sealer sequence is the outside-in ordering (a permutation) of a full, strictly increasing,
   duplicate-free accumulator, or a fallback key sequence *)
Theorem C23_sealer_inv : forall H P bs s, acc_ok P (s_ga s) -> sealer_ok H P (s_gs s) ->
  acc_ok P (s_ga (run H P s bs)) /\ sealer_ok H P (s_gs (run H P s bs)).
Proof. exact run_sealer_inv. Qed.
Print Assumptions C23_sealer_inv.

(* ---- non-vacuity ---- *)
Definition P4 : params := mkParams 4 3 2 3 3.      (* E=4 Y=3 N=2 K=3 V=3 *)
Definition t (x : N) : ticket := mkT [x] 0.
Definition en (x a : N) (v : bool) : envelope := mkEnv [x] a v.
Definition ids (l : list ticket) : list bytes := map tid l.

(* accepted, merged with the carried tickets and truncated to the E lowest; reset at an epoch change *)
Example C23_ex_accept :
  acc_step P4 1 2 [t 1; t 5; t 9; t 12] [en 3 0 true; en 7 1 true] = (Accept, [t 1; mkT [3] 0; t 5; mkT [7] 1]) /\
  acc_step P4 2 5 [t 1; t 5; t 9; t 12] [en 3 0 true; en 7 1 true] = (Accept, [mkT [3] 0; mkT [7] 1]).
Proof. split; vm_compute; reflexivity. Qed.

(* every rejection class is reachable: unsorted, duplicated, over-attempted, after the window, oversize, bad proof, clash *)
Example C23_ex_reject :
  fst (acc_step P4 1 2 [t 5] [en 7 0 true; en 3 0 true]) = RejOrder /\
  fst (acc_step P4 1 2 [t 5] [en 3 0 true; en 3 1 true]) = RejDup /\
  fst (acc_step P4 1 2 [t 5] [en 3 2 true]) = RejAttempt /\
  fst (acc_step P4 1 3 [t 5] [en 3 0 true]) = RejTail /\
  fst (acc_step P4 1 2 [] [en 1 0 true; en 2 0 true; en 3 0 true; en 4 0 true]) = RejTail /\
  fst (acc_step P4 1 2 [t 5] [en 3 0 false]) = RejProof /\
  fst (acc_step P4 1 2 [t 5] [en 5 1 true]) = RejDup /\
  fst (acc_step P4 1 3 [t 5] []) = Accept.
Proof. repeat split; vm_compute; reflexivity. Qed.

(* hypotheses of accept_iff / reject_iff are satisfiable on both sides *)
Example C23_ex_iff_hyp :
  NoDup (map tid (carried P4 1 2 [t 1; t 5])) /\ strictly_ascending [en 3 0 true; en 7 1 true] /\
  clash [en 5 1 true] (carried P4 1 2 [t 1; t 5]) /\ ~ clash [en 5 1 true] (carried P4 2 5 [t 1; t 5]).
Proof.
  split; [|split; [|split]].
  - cbv. repeat constructor; cbn; intuition discriminate.
  - repeat constructor.
  - exists (en 5 1 true), (t 5). cbn. auto.
  - intros [e [x [_ [Hx _]]]]. exact Hx.
Qed.

Example C23_ex_outside_in :
  outside_in 4 [1; 2; 3; 4] = [1; 4; 2; 3] /\ outside_in 5 [1; 2; 3; 4; 5] = [1; 5; 2; 4; 3] /\
  ids (outside_in 12 (map t [0;1;2;3;4;5;6;7;8;9;10;11])) = map (fun x => [x]) [0;11;1;10;2;9;3;8;4;7;5;6].
Proof. repeat split; vm_compute; reflexivity. Qed.

(* a toy hash (identity) makes the fallback computable: index = (1 + 2*256 + i*65536) mod 3 = i mod 3 *)
Example C23_ex_fallback :
  fallback (fun b => b) P4 [1; 2] [[10]; [11]; [12]] = [[10]; [11]; [12]; [10]].
Proof. vm_compute; reflexivity. Qed.

(* a history: the accumulator fills during epoch 0, the lottery closes, the first block of epoch 1 seals with Z(gamma_a)
   and resets the accumulator; a later epoch with a short accumulator falls back to keys *)
Definition s0 : state := mkState 0 [0] [1] [2] [3] [] (SKeys [[10]; [10]; [10]; [10]]) [[10]; [11]; [12]] [[20]; [21]; [22]] [[30]; [31]; [32]] [[40]; [41]; [42]].
Definition hist : list block :=
  [ mkBlock 1 [7] [en 1 0 true; en 2 1 true; en 3 0 true] None;
    mkBlock 2 [7] [en 2 0 true] None;                         (* rejected: clash with a carried ticket *)
    mkBlock 2 [8] [en 4 0 true] None;
    mkBlock 3 [9] [] None;
    mkBlock 4 [9] [en 9 0 true] None ].
Example C23_ex_history :
  let s := run (fun b => b) P4 s0 hist in
  s_tau s = 4 /\ ids (s_ga s) = [[9]] /\ s_gs s = STickets [t 1; t 4; mkT [2] 1; t 3] /\
  s_gs (run (fun b => b) P4 s0 (firstn 4 hist)) = SKeys [[10]; [10]; [10]; [10]] /\
  fst (step (fun b => b) P4 (run (fun b => b) P4 s0 (firstn 1 hist)) (mkBlock 2 [7] [en 2 0 true] None)) = RejDup /\
  s_gs (run (fun b => b) P4 s (mkBlock 9 [1] [] None :: nil)) = SKeys [[40]; [40]; [40]; [40]].
Proof. vm_compute. repeat split; reflexivity. Qed.
