(* C10 — Accumulation checkpoint and rollback. Property theorems only.
   The model is the protocol (x, y, checkpoint, collapse) over traces of tagged successful mutations.
   In an immutable model "mutations after a checkpoint never leak into the checkpoint copy" holds by
   construction of values; whether the Go deep copy is complete is decided by the correspondence, whose
   programs mutate EVERY context component after a checkpoint and then trap / run out of gas. *)
From JamV Require Import Base.Bytes Model.AccInvoke Proofs.AccInvokeP.
Local Open Scope N_scope.

(* panic / out-of-gas: exactly the mutations up to the most recent checkpoint, the initial context if none *)
Theorem C10_rollback_is_last_checkpoint : forall init ops e,
  e = EPanic \/ e = EOutOfGas -> run init ops e = fold_left apply_op (committed ops) init.
Proof. exact rollback_is_last_checkpoint. Qed.
Print Assumptions C10_rollback_is_last_checkpoint.

Theorem C10_no_checkpoint_is_initial : forall init ops e,
  e = EPanic \/ e = EOutOfGas -> has_checkpoint ops = false -> run init ops e = init.
Proof. exact no_checkpoint_is_initial. Qed.
Print Assumptions C10_no_checkpoint_is_initial.

(* nothing done after the last checkpoint reaches the exceptional result *)
Theorem C10_no_leak_after_checkpoint : forall init pre post e,
  e = EPanic \/ e = EOutOfGas -> has_checkpoint post = false ->
  run init (pre ++ OCheckpoint :: post) e = fold_left apply_op pre init.
Proof. exact no_leak_after_checkpoint. Qed.
Print Assumptions C10_no_leak_after_checkpoint.

(* halt: the latest values *)
Theorem C10_halt_is_latest : forall init ops e,
  e = EHaltEmpty \/ e = EHaltOther -> run init ops e = fold_left apply_op ops init.
Proof. exact halt_is_latest. Qed.
Print Assumptions C10_halt_is_latest.

(* a 32-byte return value takes precedence over the yielded hash *)
Theorem C10_output_precedence : forall init ops k,
  run init ops (EHalt32 k) = with_yield (fold_left apply_op ops init) k.
Proof. exact output_precedence. Qed.
Print Assumptions C10_output_precedence.

Example C10_ex :
  let ops := [OWrite 1; OTransfer 2; OCheckpoint; OWrite 3; OYield 4; OProvide 5; ONew; OUpgrade 6] in
  c_store (run init_ctx ops EPanic) = [1] /\ c_transfers (run init_ctx ops EPanic) = [2] /\
  c_yield (run init_ctx ops EOutOfGas) = None /\ c_provided (run init_ctx ops EPanic) = [] /\
  c_store (run init_ctx ops EHaltEmpty) = [1; 3] /\ c_yield (run init_ctx ops EHaltEmpty) = Some 4 /\
  c_yield (run init_ctx ops (EHalt32 9)) = Some 9 /\ c_created (run init_ctx ops EHaltOther) = 1 /\
  c_code (run init_ctx ops EPanic) = 0 /\ c_code (run init_ctx ops EHaltEmpty) = 6.
Proof. cbv zeta. repeat split; vm_compute; reflexivity. Qed.
