(* C12 — Natural-number encoding is one canonical bijection. Property theorems only. *)
From JamV Require Import Base.Bytes Model.NatCodec Proofs.NatCodecP.
Local Open Scope N_scope.

(* every 64-bit value decodes back from its encoding, whatever follows it *)
Theorem C12_dec_enc : forall x r, x < 2^64 -> dec_nat (enc_nat x ++ r) = Some (x, r).
Proof. exact dec_enc. Qed.
Print Assumptions C12_dec_enc.

(* every accepted byte string is exactly the (minimal) encoding of its value: no non-minimal form is accepted *)
Theorem C12_canonical : forall bs x r, wf_bytes bs = true ->
  dec_nat bs = Some (x, r) -> bs = enc_nat x ++ r /\ x < 2^64.
Proof. exact dec_canonical. Qed.
Print Assumptions C12_canonical.

(* every proper prefix of an encoding (truncated input) is rejected *)
Theorem C12_truncated : forall x p q, x < 2^64 -> enc_nat x = p ++ q -> q <> [] -> dec_nat p = None.
Proof. exact dec_rejects_truncated. Qed.
Print Assumptions C12_truncated.

Theorem C12_injective : forall x y, x < 2^64 -> y < 2^64 -> enc_nat x = enc_nat y -> x = y.
Proof. exact enc_injective. Qed.
Print Assumptions C12_injective.

(* non-vacuity: concrete encodings, a rejected non-minimal form and a rejected truncation *)
Example C12_ex1 : enc_nat 300 = [129; 44] /\ dec_nat [129; 44; 7] = Some (300, [7]).
Proof. split; reflexivity. Qed.
Example C12_ex2 : dec_nat [255; 1; 0; 0; 0; 0; 0; 0; 0] = None /\ dec_nat [128; 5] = None /\ dec_nat [129] = None.
Proof. repeat split; reflexivity. Qed.
