(* C14 — Decoding untrusted bytes is safe. Property theorems only (proofs in Proofs/CodecAllocP.v).
   The model decoder is a total function (a value or None for every input: there is no other
   outcome), so "no panic" is a statement about the Go code and is tied by correspondence; what is
   proved here is the allocation bound of the decoding discipline. *)
From JamV Require Import Base.Bytes Model.NatCodec Model.Codec Model.JamTypes
  Proofs.CodecP Proofs.CodecAllocP Proofs.CodecFastP Proofs.JamTypesP.
Local Open Scope N_scope.

(* the decoder that compares every declared count with the remaining input allocates at most
   kconst d bytes per input byte, plus the fixed-size part of the type *)
Theorem C14_dec_alloc_bound : forall d bs,
  wf_desc d = true -> alloc true d bs <= kconst d * N.of_nat (length bs) + cfix d.
Proof. exact dec_alloc_bound. Qed.
Print Assumptions C14_dec_alloc_bound.

(* consumption-sensitive form used for nesting: allocation is bounded by what the run consumed *)
Theorem C14_alloc_bounded_by_consumption : forall d bs,
  wf_desc d = true -> alloc true d bs <= kconst d * used (dec d) bs + cfix d.
Proof. intros d bs Hwf. exact (alloc_bounded d Hwf bs). Qed.
Print Assumptions C14_alloc_bounded_by_consumption.

(* a successful decode never reads beyond its input and consumes at least the minimal size *)
Theorem C14_dec_consumes : forall d bs v r, dec d bs = Some (v, r) -> (length r + min_size d <= length bs)%nat.
Proof. exact dec_shrinks. Qed.
Print Assumptions C14_dec_consumes.

(* REFUTED for the decoder without the check (the shape of the unpatched Go code): nine bytes
   declare 2^64-1 elements and the account is 2^64-1 (a byte string) resp. 32*(2^64-1) (hashes) *)
Theorem C14_alloc_unchecked_refuted :
  exists bs, (length bs = 9%nat) /\ (wf_bytes bs = true) /\ (dec DBlob bs = None) /\
             (kconst DBlob * N.of_nat (length bs) + cfix DBlob < alloc false DBlob bs) /\
             (alloc false DBlob bs = 18446744073709551615).
Proof. exact alloc_unchecked_refuted. Qed.
Print Assumptions C14_alloc_unchecked_refuted.

Theorem C14_alloc_unchecked_seq_refuted :
  exists bs, (length bs = 9%nat) /\
             (alloc false (DSeq unlimited (DFix 32)) bs = 18446744073709551615 * 32) /\
             (alloc true (DSeq unlimited (DFix 32)) bs = 0).
Proof. exact alloc_unchecked_seq_refuted. Qed.
Print Assumptions C14_alloc_unchecked_seq_refuted.

(* frame reader of the fuzz protocol *)
Theorem C14_frame_alloc_bound : forall d bs,
  wf_desc d = true -> frame_alloc true d bs <= (1 + kconst d) * N.of_nat (length bs) + cfix d.
Proof. exact frame_alloc_bound. Qed.
Print Assumptions C14_frame_alloc_bound.

(* REFUTED for the reader that allocates (L-1) mod 2^32 bytes before reading: a zero length field *)
Theorem C14_frame_alloc_unchecked_refuted : forall d,
  exists bs, (length bs = 5%nat) /\ (frame_alloc false d bs = 4294967295) /\
             ((1 + kconst d) * 5 + cfix d < 4294967295 ->
              (1 + kconst d) * N.of_nat (length bs) + cfix d < frame_alloc false d bs).
Proof. exact frame_alloc_unchecked_refuted. Qed.
Print Assumptions C14_frame_alloc_unchecked_refuted.

Theorem C14_protocol_descriptors_wf : forall p, pL p < two64 -> forallb wf_desc (all_descs p) = true.
Proof. exact all_descs_wf. Qed.
Print Assumptions C14_protocol_descriptors_wf.

(* the extracted decoder run against the Go code is the decoder whose account is bounded above *)
Theorem C14_extracted_decoder : forall d bs, decf d bs = dec d bs.
Proof. exact decf_eq. Qed.
Print Assumptions C14_extracted_decoder.

(* ---- non-vacuity: the constants of some real types, and accounts on concrete inputs ---- *)
Example C14_ex_consts :
  kconst dStateKeyVals = 56 /\ cfix dStateKeyVals = 0 /\ kconst (dHeader tiny) = 88 /\ cfix (dHeader tiny) = 864.
Proof. repeat split; vm_compute; reflexivity. Qed.
(* two key-values declared, only one present: the account is 2*55 for the slice + 1 for the value;
   a declared count of 524744 in a 35-byte input: nothing with the check, 28.8 MB without it *)
Example C14_ex_account :
  alloc true dStateKeyVals ([2] ++ repeat 1 31 ++ [1; 9]) = 111 /\
  alloc true dStateKeyVals ([200; 200] ++ repeat 1 31 ++ [1; 9]) = 0 /\
  alloc false dStateKeyVals ([200; 200] ++ repeat 1 31 ++ [1; 9]) = 28860929.
Proof. repeat split; vm_compute; reflexivity. Qed.
Example C14_ex_frame : frame_alloc true (dMessage tiny) [33; 0; 0; 0; 4] = 0 /\
                        frame_alloc false (dMessage tiny) [33; 0; 0; 0; 4] = 32.
Proof. split; vm_compute; reflexivity. Qed.
