(* C18 — Binary Merkle commitments match Gray Paper E.1.  Property theorems only.
   Specification S = Model/Merkle.v (Nroot = GP N, MB, C, M, T, Jx, Lx); the hash H is universally
   quantified and nothing is assumed about it: where injectivity would be needed the statement
   offers an explicit collision of H instead. *)
From JamV Require Import Base.Bytes Model.Merkle Proofs.MerkleP.

(* ---- traces: folding T(v,i) from leaf i reproduces N(v), for every non-empty v and every index *)
Theorem C18_trace_reproduces_root : forall (H : bytes -> bytes) (v : list bytes) (i : nat),
  i < length v -> fold_trace H (nth i v []) (T H v i) i (length v) = Nroot H v.
Proof. exact trace_reproduces_root. Qed.
Print Assumptions C18_trace_reproduces_root.

(* the same for the constant-depth tree: J_0(v,i) folded from the hashed leaf gives M(v) *)
Theorem C18_J0_reproduces_M : forall (H : bytes -> bytes) (v : list bytes) (i : nat),
  i < length v ->
  fold_trace H (leaf_hash H (nth i v [])) (Jx H 0 v i) i (2 ^ depth (length v)) = M H v.
Proof. exact J0_reproduces_M. Qed.
Print Assumptions C18_J0_reproduces_M.

(* ---- paged justifications: J_x(v,i) folded from the root of page i (the zero-padded L_x(v,i)) gives
        M(v), for every page size 2^x (also pages larger than the tree) and every page index *)
Theorem C18_paged_fold : forall (H : bytes -> bytes) (x : nat) (v : list bytes) (i : nat),
  i < pages x v ->
  fold_trace H (page_root H x v i) (Jx H x v i) i (2 ^ (depth (length v) - x)) = M H v.
Proof. exact paged_fold. Qed.
Print Assumptions C18_paged_fold.

(* the pages partition the hashed leaves: they cover every leaf exactly once, in order *)
Theorem C18_paged_cover : forall (H : bytes -> bytes) (x : nat) (v : list bytes),
  concat (map (Lx H x v) (seq 0 (pages x v))) = map (leaf_hash H) v.
Proof. exact paged_cover. Qed.
Print Assumptions C18_paged_cover.

(* page i holds exactly the leaves 2^x i .. min(2^x i + 2^x, |v|) *)
Theorem C18_page_exact : forall (H : bytes -> bytes) (x : nat) (v : list bytes) (i j : nat),
  length (Lx H x v i) = Nat.min (2 ^ x) (length v - 2 ^ x * i) /\
  (j < length (Lx H x v i) -> nth j (Lx H x v i) [] = leaf_hash H (nth (2 ^ x * i + j) v [])).
Proof. intros H x v i j. split; [apply Lx_length | apply Lx_nth]. Qed.
Print Assumptions C18_page_exact.

Theorem C18_Jx_length : forall (H : bytes -> bytes) (x : nat) (v : list bytes) (i : nat),
  length (Jx H x v i) = depth (length v) - x.
Proof. exact Jx_length. Qed.
Print Assumptions C18_Jx_length.

(* ---- any single changed element changes the root, or a collision of H is exhibited *)
Theorem C18_single_change_detected : forall (H : bytes -> bytes) (v : list bytes) (i : nat) (x : bytes),
  i < length v -> Nroot H (upd v i x) = Nroot H v -> x = nth i v [] \/ collision H.
Proof. exact single_change_N. Qed.
Print Assumptions C18_single_change_detected.

Theorem C18_single_change_detected_MB : forall (H : bytes -> bytes) (v : list bytes) (i : nat) (x : bytes),
  i < length v -> MB H (upd v i x) = MB H v -> x = nth i v [] \/ collision H.
Proof. exact single_change_MB. Qed.
Print Assumptions C18_single_change_detected_MB.

Theorem C18_single_change_detected_M : forall (H : bytes -> bytes) (v : list bytes) (i : nat) (x : bytes),
  i < length v -> M H (upd v i x) = M H v -> x = nth i v [] \/ collision H.
Proof. exact single_change_M. Qed.
Print Assumptions C18_single_change_detected_M.

(* ---- the Go-shaped pieces refine S *)
(* VerifyMerkleProof (bottom-up, index parity) accepts J_0(v,i) for leaf i against M(v) *)
Theorem C18_verify_accepts : forall (H : bytes -> bytes) (v : list bytes) (i : nat),
  i < length v -> verify_go H (nth i v []) (Jx H 0 v i) i (M H v) = true.
Proof. exact verify_go_accepts. Qed.
Print Assumptions C18_verify_accepts.

(* on a trace of a power-of-two tree the bottom-up fold is the top-down fold *)
Theorem C18_verify_is_fold : forall (H : bytes -> bytes) (tr : list bytes) (c : bytes) (i : nat),
  i < 2 ^ length tr -> fold_trace H c tr i (2 ^ length tr) = verify_up H c (rev tr) i.
Proof. exact fold_trace_bottom_up. Qed.
Print Assumptions C18_verify_is_fold.

(* the doubling loops of C and Jx compute 2^ceil(log2(max(1,|v|))) and ceil(log2(max(1,|v|))) *)
Theorem C18_C_go_refines : forall (H : bytes -> bytes) (v : list bytes), C_go H v = C H v.
Proof. exact C_go_refines. Qed.
Print Assumptions C18_C_go_refines.

Theorem C18_Jx_go_refines : forall (H : bytes -> bytes) (x : nat) (v : list bytes) (i : nat),
  Jx_go H x v i = Jx H x v i.
Proof. exact Jx_go_refines. Qed.
Print Assumptions C18_Jx_go_refines.

(* ---- the two shapes the Go code had before the proposed patches do NOT refine S *)
(* merkle_tree.T split at floor(n/2): its trace does not fold back to N(v) (v of length 3) *)
Theorem C18_prepatch_T_floor_refuted :
  exists (H : bytes -> bytes) (v : list bytes) (i : nat), i < length v /\
    fold_trace H (nth i v []) (T_floor H v i) i (length v) <> Nroot H v.
Proof. exact T_floor_refuted. Qed.
Print Assumptions C18_prepatch_T_floor_refuted.

(* merkle_tree.N returned the zero hash whenever the first element of a (sub)sequence was nil *)
Theorem C18_prepatch_N_nil_first_refuted :
  exists (H : bytes -> bytes) (v : list (option bytes)), N_nil0 H v <> Nroot H (map blob v).
Proof. exact N_nil0_refuted. Qed.
Print Assumptions C18_prepatch_N_nil_first_refuted.

(* ---- non-vacuity, on a toy hash (a 16-bit polynomial checksum) *)
Definition toyH (x : bytes) : bytes :=
  let s := fold_left (fun acc b => ((acc * 31 + b + 7) mod 65521)%N) x 1%N in [(s mod 256)%N; (s / 256)%N].
Definition v5 : list bytes := [[1%N]; [2%N; 2%N]; []; [4%N]; [5%N; 5%N; 5%N]].

(* odd length, last index: the hypothesis i < |v| holds and both sides are a real hash value *)
Example C18_ex_trace : 4 < length v5 /\
  T toyH v5 4 = [[167%N; 148%N]; [4%N]] /\
  fold_trace toyH (nth 4 v5 []) (T toyH v5 4) 4 (length v5) = [43%N; 40%N] /\
  Nroot toyH v5 = [43%N; 40%N].
Proof. repeat split; try (vm_compute; reflexivity); cbn; lia. Qed.

(* pages of size 2 over 5 leaves: 3 pages, page 2 holds the single last leaf; J_1 has 2 entries *)
Example C18_ex_paged : pages 1 v5 = 3 /\ 2 < pages 1 v5 /\ length (Lx toyH 1 v5 2) = 1 /\
  length (Jx toyH 1 v5 2) = 2 /\
  fold_trace toyH (page_root toyH 1 v5 2) (Jx toyH 1 v5 2) 2 (2 ^ (depth (length v5) - 1)) = M toyH v5.
Proof. repeat split; try (vm_compute; reflexivity); cbn; lia. Qed.

(* the hypothesis of single_change is satisfiable with x different from the element only through a
   collision: a constant hash cannot tell [9] from [1] in position 0 of a two-element sequence *)
Example C18_ex_change_collision :
  let Hc := fun _ : bytes => [7%N] in
  Nroot Hc (upd [[1%N]; [2%N]] 0 [9%N]) = Nroot Hc [[1%N]; [2%N]] /\ [9%N] <> nth 0 [[1%N]; [2%N]] [] /\ collision Hc.
Proof.
  repeat split; [discriminate|]. exists [1%N], [2%N]. split; [discriminate | reflexivity].
Qed.
(* and with the toy hash the change of one element is seen at the root *)
Example C18_ex_change_seen : Nroot toyH (upd v5 2 [8%N]) <> Nroot toyH v5.
Proof. apply bytes_neq_by_eqb. vm_compute. reflexivity. Qed.

Example C18_ex_verify : verify_go toyH (nth 3 v5 []) (Jx toyH 0 v5 3) 3 (M toyH v5) = true /\
  verify_go toyH [9%N] (Jx toyH 0 v5 3) 3 (M toyH v5) = false.
Proof. split; vm_compute; reflexivity. Qed.
