(* C11 — Codec round trip for protocol types. Property theorems only (proofs in Proofs/Codec*.v). *)
From JamV Require Import Base.Bytes Model.NatCodec Model.Codec Model.JamTypes
  Proofs.CodecOrdP Proofs.CodecP Proofs.CodecCanonP Proofs.CodecFastP Proofs.JamTypesP.
From Coq Require Import Permutation.
Local Open Scope N_scope.

(* decoding an encoding, whatever follows it, consumes exactly the encoded bytes and yields the value:
   once for every well-formed descriptor, hence for every type of Model/JamTypes.v *)
Theorem C11_codec_roundtrip : forall d v b r,
  wf_desc d = true -> enc d v = Some b -> dec d (b ++ r) = Some (v, r).
Proof. intros d v b r Hwf. exact (roundtrip d Hwf v b r). Qed.
Print Assumptions C11_codec_roundtrip.

(* stated on well-typed values: every well-typed value has an encoding, and it round-trips *)
Theorem C11_roundtrip_welltyped : forall d v,
  wf_desc d = true -> val_ok d v = true ->
  exists b, enc d v = Some b /\ forall r, dec d (b ++ r) = Some (v, r).
Proof. exact roundtrip_ok. Qed.
Print Assumptions C11_roundtrip_welltyped.

(* well-typed = encodable: the encoder is defined exactly on the values that respect the invariants
   (integer ranges, fixed lengths, length limits, strictly ascending dictionary keys) *)
Theorem C11_welltyped_iff_encodable : forall d v, val_ok d v = true <-> exists b, enc d v = Some b.
Proof. exact val_ok_enc. Qed.
Print Assumptions C11_welltyped_iff_encodable.

(* determinism w.r.t. map iteration order: a dictionary given as ANY permutation of its entries
   (distinct keys) is encoded to the same bytes, because encoding sorts by key *)
Theorem C11_map_order_irrelevant : forall k v es es',
  Permutation es es' -> NoDup (map entry_key es) -> enc_map k v es = enc_map k v es'.
Proof. exact map_order_irrelevant. Qed.
Print Assumptions C11_map_order_irrelevant.

(* the encoding is injective: different values never share an encoding *)
Theorem C11_enc_injective : forall d v1 v2 b,
  wf_desc d = true -> enc d v1 = Some b -> enc d v2 = Some b -> v1 = v2.
Proof. exact enc_injective_gen. Qed.
Print Assumptions C11_enc_injective.

(* fuzz-protocol frames: 4-byte length, then exactly one message *)
Theorem C11_frame_roundtrip : forall d v f r,
  wf_desc d = true -> enc_frame d v = Some f -> dec_frame d (f ++ r) = Some (v, r).
Proof. exact frame_roundtrip. Qed.
Print Assumptions C11_frame_roundtrip.

(* every descriptor of Model/JamTypes.v is well formed for every parameter set, so the theorems
   above apply to all of them (tiny and full parameters in particular) *)
Theorem C11_protocol_descriptors_wf : forall p, pL p < two64 -> forallb wf_desc (all_descs p) = true.
Proof. exact all_descs_wf. Qed.
Print Assumptions C11_protocol_descriptors_wf.

(* the decoder that is extracted to OCaml and run against the Go code (length tests that look only at
   the bytes they need) is the decoder of the theorems above *)
Theorem C11_extracted_decoder : forall d bs, decf d bs = dec d bs.
Proof. exact decf_eq. Qed.
Print Assumptions C11_extracted_decoder.

Theorem C11_extracted_frame_decoder : forall d bs, decf_frame d bs = dec_frame d bs.
Proof. exact decf_frame_eq. Qed.
Print Assumptions C11_extracted_frame_decoder.

(* ---- non-vacuity ---- *)
Definition ex_ctx : val :=
  VL [VB (repeat 1 32); VB (repeat 2 32); VB (repeat 3 32); VB (repeat 4 32); VN 77; VL [VB (repeat 9 32)]].
Example C11_ex_ctx_ok : val_ok dRefineContext ex_ctx = true /\ wf_desc dRefineContext = true.
Proof. split; vm_compute; reflexivity. Qed.
Example C11_ex_ctx_rt :
  exists b, enc dRefineContext ex_ctx = Some b /\ length b = 165%nat /\ dec dRefineContext (b ++ [7; 7]) = Some (ex_ctx, [7; 7]).
Proof. eexists. split; [vm_compute; reflexivity|]. split; vm_compute; reflexivity. Qed.

(* a two-entry dictionary (service id -> gas) presented in both orders: same bytes, keys in numeric order
   (256 before 1 would be the byte-wise order; numeric order puts 1 first) *)
Definition ex_e1 : val := VL [VN 256; VN 5].
Definition ex_e2 : val := VL [VN 1; VN 9].
Example C11_ex_map :
  enc_map dServiceID dGas [ex_e1; ex_e2] = enc_map dServiceID dGas [ex_e2; ex_e1] /\
  enc_map dServiceID dGas [ex_e1; ex_e2] =
    Some [2; 1;0;0;0; 9;0;0;0;0;0;0;0; 0;1;0;0; 5;0;0;0;0;0;0;0] /\
  NoDup (map entry_key [ex_e1; ex_e2]).
Proof.
  repeat split; try (vm_compute; reflexivity).
  constructor; [cbn; intros [H|[]]; discriminate|]. constructor; [intros []|constructor].
Qed.

(* a fuzz frame: GetState (type 4) with a 32-byte hash: length field 33 *)
Example C11_ex_frame :
  exists f, enc_frame (dMessage tiny) (VT 4 (VB (repeat 8 32))) = Some f /\ firstn 5 f = [33; 0; 0; 0; 4] /\
            dec_frame (dMessage tiny) f = Some (VT 4 (VB (repeat 8 32)), []).
Proof. eexists. split; [vm_compute; reflexivity|]. split; vm_compute; reflexivity. Qed.
