(* C03 — untrusted program bytes never crash the node.  Property theorems only.
   Models: Model/PvmGo.v (Go-shaped parsing glue: slices with capacity, index / slice expressions as options,
   uint32 / uint64 wrap-around, an allocation account; [true] selects the repaired shape of
   proposed_fixes/C03-*.patch, [false] the code as found) and Model/PvmRun.v (the machine, for gas progress).
   Domain: byte strings (with whatever spare capacity lies behind them) shorter than 2^32 - 64 bytes, elements < 256. *)
From JamV Require Import Model.PvmRun Proofs.PvmStepP Proofs.PvmRunP Proofs.PvmExamplesP Proofs.PvmGoRunP.
From JamV Require Import Model.PvmGo Proofs.PvmGoP Proofs.PvmGoC03P.

(* ---- (1) no host-language panic, no unbounded loop, while loading: Y (SingleInitializer), then deblob of the code,
        for EVERY standard blob p (with any bytes [spare] behind it in the same backing array) and argument length;
        an accepted program only holds register indices below 13 in the fields its handlers use, and every
        dynamic-jump lookup on it is defined ---- *)
Theorem C03_parse_never_gopanic : forall p spare alen,
  bytes_ok (p ++ spare) -> (nlen (p ++ spare) + 64 < 4294967296)%N ->
  match psi_m_load true (mk_slice p spare) alen with
  | Ok (_, g) => gp_rok g = true /\ forall a, exists j, djump_go true g a = Ok j
  | Rej => True
  | GoPanic => False
  | OutOfFuel => False
  end.
Proof. exact parse_never_gopanic. Qed.
Print Assumptions C03_parse_never_gopanic.

(* the initialiser alone (any argument length, no size bound on the blob) *)
Theorem C03_init_never_gopanic : forall p spare alen, bytes_ok (p ++ spare) ->
  match single_initializer_go true (mk_slice p spare) alen with
  | Ok io => (g_len (io_c io) <= nlen p)%N
  | Rej => True
  | GoPanic => False
  | OutOfFuel => False
  end.
Proof. exact init_never_gopanic. Qed.
Print Assumptions C03_init_never_gopanic.

(* an inner-machine blob (the machine host call) goes through DeBlobProgramCode alone *)
Theorem C03_inner_never_gopanic : forall d spare,
  bytes_ok (d ++ spare) -> (nlen (d ++ spare) + 64 < 4294967296)%N ->
  match deblob_go true true (mk_slice d spare) with
  | Ok g => gp_rok g = true /\ forall a, exists j, djump_go true g a = Ok j
  | Rej => True
  | GoPanic => False
  | OutOfFuel => False
  end.
Proof. exact inner_never_gopanic. Qed.
Print Assumptions C03_inner_never_gopanic.

(* ---- (1b) the guest-range check on raw 64-bit register values (isReadable / isWriteable): an accepted non-empty range
        lies inside the 32-bit address space without wrap-around and every page it touches passed the access test;
        hence the output buffer R makes for a halt is at most the address space ---- *)
Theorem C03_range_check_sound : forall acc start off, range_ok_go true acc start off = true -> (0 < off)%N ->
  (start + off <= 4294967296)%N /\ forall p, (start / 4096 <= p <= (start + off - 1) / 4096)%N -> acc p = true.
Proof. exact range_ok_sound. Qed.
Print Assumptions C03_range_check_sound.

Theorem C03_halt_output_bounded : forall acc start len, (halt_out_len true acc start len <= 4294967296)%N.
Proof. exact halt_out_len_bound. Qed.
Print Assumptions C03_halt_output_bounded.

(* the same check written as start+offset > 2^32 (uint64 sum) accepts (2^63+4096, 2^63) with no page mapped: a 2^63-byte make *)
Theorem C03_range_wrap_refuted : exists start off,
  range_ok_go false (fun _ => false) start off = true /\
  halt_out_len false (fun _ => false) start off = 9223372036854775808%N /\
  range_ok_go true (fun _ => false) start off = false.
Proof. exact range_wrap_refuted. Qed.
Print Assumptions C03_range_wrap_refuted.

(* ---- the same statement is FALSE of the code as found: four witnesses, each replayed on the Go code ---- *)
(* data[:instSize] without a length check: blob 00 00 32 01 *)
Theorem C03_code_length_refuted : exists d, deblob_go true false (mk_slice d []) = GoPanic.
Proof. exact code_length_refuted. Qed.
Print Assumptions C03_code_length_refuted.

(* z * |j| computed in uint64 wraps: a 17-byte blob is accepted with 1431655766 entries and a 2-byte table,
   and the dynamic jump to address 2 reaches panic() *)
Theorem C03_jump_table_overflow_refuted : exists d g,
  deblob_go false true (mk_slice d []) = Ok g /\ nlen d = 17%N /\ gp_js g = 1431655766%N /\ g_len (gp_jt g) = 2%N /\
  djump_go false g 2 = GoPanic.
Proof. exact jump_table_overflow_refuted. Qed.
Print Assumptions C03_jump_table_overflow_refuted.

(* a jump table of 9-byte entries: ReadUintFixed refuses, djump calls panic(); the repaired djump lands on 0 *)
Theorem C03_entry_width_refuted : exists d g,
  deblob_go true true (mk_slice d []) = Ok g /\ djump_go false g 2 = GoPanic /\ djump_go true g 2 = Ok (JGo 0).
Proof. exact entry_width_refuted. Qed.
Print Assumptions C03_entry_width_refuted.

(* an argument of Z_I + Z_Z - Z_P + 1 bytes: the argument-zone loop of the initialiser has no exit (for every
   amount of fuel, from every page-aligned address), so the model's run ends OutOfFuel; repaired: rejected *)
Theorem C03_argument_loop_refuted : exists p alen,
  single_initializer_go false (mk_slice p []) alen = OutOfFuel /\
  single_initializer_go true (mk_slice p []) alen = Rej.
Proof. exact argument_loop_refuted. Qed.
Print Assumptions C03_argument_loop_refuted.

Theorem C03_argument_loop_never_ends : forall fuel addr m,
  (addr mod 4096 = 0)%N -> (addr < 4294967296)%N -> seg_loop fuel addr 4294963201 false m = OutOfFuel.
Proof. exact seg_loop_never_ends. Qed.
Print Assumptions C03_argument_loop_never_ends.

(* ---- (2) no loop without consuming gas (over the machine of Model/PvmStep.v, PvmRun.v) ---- *)
(* a step after which the machine goes on - plain continue, or a host call - had at least one unit and took exactly one *)
Theorem C03_continuing_step_costs : forall p pc s e pc' s', step p pc s = (e, pc', s') ->
  (e = Continue \/ exists id, e = Host id) -> (1 <= gas s /\ gas s' = gas s - 1)%Z.
Proof. exact continuing_step_costs. Qed.
Print Assumptions C03_continuing_step_costs.

(* hence a run with gas g ends within g + 1 steps: [run] never runs out of fuel when given gas + 1 *)
Theorem C03_run_consumes_gas : forall fuel p pc s, (gas s <= Z.of_nat fuel)%Z -> run (S fuel) p pc s <> None.
Proof. exact run_terminates. Qed.
Print Assumptions C03_run_consumes_gas.

(* the same across host calls (the Psi_H loop), for every host function that never adds gas *)
Theorem C03_run_h_consumes_gas : forall hostf, host_mono hostf ->
  forall fuel p pc s log, (gas s <= Z.of_nat fuel)%Z -> run_h hostf (S fuel) p pc s log <> None.
Proof. exact run_h_terminates. Qed.
Print Assumptions C03_run_h_consumes_gas.

(* ---- (3) allocation: what loading requests (every make, every &Page{} / &BlockMeta{}, append growth) is at most
        512 bytes per blob byte + 64 KiB + the sizes the blob declares (z*Z_P + P(s) + P(|o|) + P(|w|) + P(|a|)),
        these with the 32-byte page header, i.e. times 129/128 ---- *)
Theorem C03_alloc_bound : forall p spare alen,
  bytes_ok (p ++ spare) -> (nlen (p ++ spare) + 64 < 4294967296)%N ->
  (alloc_load (mk_slice p spare) alen
   <= C_BLOB * nlen p + K_FIXED + declared (mk_slice p spare) alen + declared (mk_slice p spare) alen / 128)%N.
Proof. exact alloc_bound. Qed.
Print Assumptions C03_alloc_bound.

Theorem C03_alloc_bound_inner : forall d spare,
  bytes_ok (d ++ spare) -> (nlen (d ++ spare) + 64 < 4294967296)%N ->
  (alloc_deblob (mk_slice d spare) <= C_BLOB * nlen d + K_FIXED)%N.
Proof. exact alloc_bound_inner. Qed.
Print Assumptions C03_alloc_bound_inner.

(* ---- non-vacuity ---- *)
(* the hypotheses hold of a real program, which loads: 5 pages (1 read-only, 1 read-write + 1 heap, 1 stack,
   1 argument), 5 instructions in 1 block, heap pointer 0x32000 *)
Example C03_ex_loads :
  bytes_ok w_std /\
  match psi_m_load true (mk_slice w_std []) 9 with
  | Ok (io, g) => (io_pages io, io_hp io, gp_ni g, gp_nb g, gp_rok g) = (5, 204800, 5, 1, true)%N
  | _ => False
  end.
Proof. split; [repeat constructor|vm_compute; reflexivity]. Qed.
(* its allocation account and the bound *)
Example C03_ex_alloc :
  (alloc_load (mk_slice w_std []) 9 = 21498 /\ declared (mk_slice w_std []) 9 = 20480 /\
   alloc_bound_of (mk_slice w_std []) 9 = 119456)%N.
Proof. vm_compute. repeat split; reflexivity. Qed.
(* rejected, not panicking, in the repaired shape: the three witnesses above; spare capacity behind the blob changes nothing *)
Example C03_ex_rejects :
  deblob_go true true (mk_slice w_code_len [170; 170; 170]%N) = Rej /\
  deblob_go true true (mk_slice w_jt_overflow []) = Rej /\
  single_initializer_go true (mk_slice w_std []) 16777217 = Rej.
Proof. repeat split; vm_compute; reflexivity. Qed.
(* truncations of the valid program are rejected at every length *)
Example C03_ex_truncations :
  forallb (fun n => match psi_m_load true (mk_slice (firstn n w_std) []) 0 with Rej => true | _ => false end)
          (seq 0 65) = true.
Proof. vm_compute. reflexivity. Qed.
(* a one-instruction loop (jump +0) with 5 units of gas stops out of gas after 5 steps *)
Example C03_ex_loop_stops :
  match run 7 (mkprog [40; 0]%Z [true; false]) 0%Z (st0 5) with
  | Some (OutOfGas, 0%Z, s) => gas s = 0%Z
  | _ => False
  end.
Proof. vm_compute. reflexivity. Qed.
(* the range check accepts a real range of the loaded program (its read-write data) and refuses wrapped ones *)
Example C03_ex_range :
  match single_initializer_go true (mk_slice w_std []) 9 with
  | Ok io =>
    let acc := fun p => m_has {| m_iv := io_iv io; m_made := 0 |} p in
    (range_ok_go true acc 196608 8192, range_ok_go true acc 196608 8193,
     range_ok_go true acc 18446744073709551615 2, range_ok_go true acc 12288 18446744073709547520)
    = (true, false, false, false)
  | _ => False
  end.
Proof. vm_compute. reflexivity. Qed.
Example C03_ex_host_mono : host_mono (host_tab 64).
Proof. exact (host_tab_mono 64). Qed.
