(* C16 — the state root computed with the per-key leaf-hash cache equals the root computed from
   scratch, over every history. Property theorems only; H is universally quantified, injectivity is
   never assumed: each equality is stated "or an explicit collision x <> y /\ H x = H y". *)
From JamV Require Import Base.Bytes Model.Trie Model.TrieCache Proofs.TrieP Proofs.TrieCacheP.
Local Open Scope N_scope.

(* Over ANY history of root computations (with any, possibly changing, capacity), explicit clears
   and evictions of arbitrary entries, starting from any cache satisfying the invariant
   "every entry of key k is (H v, H (leaf k v)) for some v":
   the invariant holds in the final state, and the list of cached roots equals the list of
   from-scratch Appendix D roots of the same entry lists, or a hash collision is exhibited.
   Since every prefix of a history is a history, this covers every intermediate state. *)
Theorem C16_cache_sound : forall (H : bytes -> bytes) (ops : list cop) (c : cache),
  cache_ok H c ->
  cache_ok H (snd (run_cached H ops c)) /\
  (fst (run_cached H ops c) = roots_of H ops \/ exists x y : bytes, x <> y /\ H x = H y).
Proof. exact run_cached_sound. Qed.
Print Assumptions C16_cache_sound.

(* from the empty cache of a fresh ChainState; the association list stays a map (one entry per key) *)
Theorem C16_cache_sound_from_empty : forall (H : bytes -> bytes) (ops : list cop),
  cache_ok H (snd (run_cached H ops [])) /\
  cache_keys_nodup (snd (run_cached H ops [])) /\
  (fst (run_cached H ops []) = roots_of H ops \/ exists x y : bytes, x <> y /\ H x = H y).
Proof. exact cache_sound_from_empty. Qed.
Print Assumptions C16_cache_sound_from_empty.

(* one computation in any invariant-satisfying state *)
Theorem C16_root_cached_sound : forall (H : bytes -> bytes) cap (es : list entry) (c : cache),
  cache_ok H c ->
  cache_ok H (snd (root_cached H cap es c)) /\
  (fst (root_cached H cap es c) = root H es \/ exists x y : bytes, x <> y /\ H x = H y).
Proof. exact root_cached_sound. Qed.
Print Assumptions C16_root_cached_sound.

(* a single cache access: hit or miss, the returned leaf hash is the real one or a collision is shown *)
Theorem C16_get_or_compute_sound : forall (H : bytes -> bytes) cap (c : cache) k v,
  cache_ok H c ->
  cache_ok H (snd (get_or_compute H cap c k v)) /\
  (fst (get_or_compute H cap c k v) = H (leaf H k v) \/ exists x y : bytes, x <> y /\ H x = H y).
Proof. exact goc_sound. Qed.
Print Assumptions C16_get_or_compute_sound.

(* clear-at-capacity: a computation with capacity cap leaves at most max(|c|, cap, 1) entries *)
Theorem C16_cache_bounded : forall (H : bytes -> bytes) cap (es : list entry) (c : cache),
  (length (snd (root_cached H cap es c)) <= Nat.max (length c) (Nat.max cap 1))%nat.
Proof. exact root_cached_length. Qed.
Print Assumptions C16_cache_bounded.

(* ---- non-vacuity --------------------------------------------------------------------------- *)
Definition toyH (b : bytes) : bytes :=
  (fold_left (fun a x => (a * 31 + x) mod 251) b 7) :: firstn 31 (b ++ zeros 31).
Definition ka : bytes := repeat 0 31.
Definition kb : bytes := 128 :: repeat 0 30.
Definition kc : bytes := 64 :: repeat 0 30.
(* a history with a same-length value change, an embedded<->hashed flip, removal and re-insertion,
   capacity pressure (cap 2 with three keys), a clear and an eviction *)
Definition ex_ops : list cop :=
  [ Root 2 [(ka, [1]); (kb, [2])];
    Root 2 [(ka, [9]); (kb, [2])];
    Root 2 [(ka, repeat 3 33); (kb, [2]); (kc, [4])];
    Root 2 [(kb, [2])];
    Clear;
    Root 2 [(ka, [9]); (kb, [2])];
    Evict kb;
    Root 5 [(ka, [9]); (kb, [2]); (kc, repeat 1 32)] ].
Example C16_ex_history :
  fst (run_cached toyH ex_ops []) = roots_of toyH ex_ops /\
  length (fst (run_cached toyH ex_ops [])) = 6%nat /\
  length (snd (run_cached toyH ex_ops [])) = 3%nat /\
  ~ In None (roots_of toyH ex_ops).
Proof. vm_compute. repeat split; try reflexivity. intuition discriminate. Qed.
(* the invariant hypothesis is satisfiable by a non-empty cache and a hit on it is served from it *)
Example C16_ex_hit :
  let c := snd (root_cached toyH 9 [(ka, [1]); (kb, [2])] []) in
  length c = 2%nat /\ get_or_compute toyH 9 c ka [1] = (toyH (leaf toyH ka [1]), c).
Proof. vm_compute. split; reflexivity. Qed.
(* the "or a collision" disjunct cannot be dropped: with a hash that collides on the two values
   (but not on the leaf nodes) the cache returns the stale root *)
Definition badH (b : bytes) : bytes := if (length b <? 40)%nat then zeros 32 else firstn 32 (skipn 32 b).
Example C16_ex_collision_needed :
  fst (run_cached badH [Root 9 [(ka, [1])]; Root 9 [(ka, [2])]] []) <>
  roots_of badH [Root 9 [(ka, [1])]; Root 9 [(ka, [2])]]
  /\ [1] <> [2] /\ badH [1] = badH [2].
Proof. vm_compute. repeat split; discriminate. Qed.
