(* C08 — Token conservation during accumulation. Property theorems only. *)
From JamV Require Import Base.Bytes Model.Accounts Model.AccCalls Proofs.AccountsP Proofs.AccCallsP Proofs.AccGoRefineP.
Local Open Scope N_scope.

(* Every call and, by induction, every call sequence from any pair of contexts: the exact (unbounded) sum of
   all balances plus all pending deferred-transfer amounts of the regular context never increases, and
   neither context ever holds more than the larger of the two initial totals.  S = exact arithmetic. *)
Theorem C08_total_nonincreasing : forall e ops st,
  total (fst (run ar_exact e ops st)) <= total (fst st) /\ tot2 (run ar_exact e ops st) <= tot2 st.
Proof. exact (fun e => total_nonincreasing ar_exact e ar_exact_sound). Qed.
Print Assumptions C08_total_nonincreasing.

Theorem C08_total_nonincreasing_step : forall e o st,
  total (fst (snd (step ar_exact e o st))) <= total (fst st).
Proof. exact (fun e => total_nonincreasing_step ar_exact e ar_exact_sound). Qed.
Print Assumptions C08_total_nonincreasing_step.

(* the same for the Go-shaped uint64 arithmetic of the repaired code, for all operands (no bound needed:
   a wrap could only destroy tokens, never mint them) *)
Theorem C08_total_nonincreasing_go : forall e ops st,
  total (fst (run ar_go e ops st)) <= total (fst st) /\ tot2 (run ar_go e ops st) <= tot2 st.
Proof. exact (fun e => total_nonincreasing ar_go e ar_go_sound). Qed.
Print Assumptions C08_total_nonincreasing_go.

(* a whole accumulation: incoming transfers are credited first (Psi_A); the tokens afterwards never exceed
   balances + incoming amounts *)
Theorem C08_accumulate_total : forall e amts ops d next,
  total (fst (accumulate ar_exact e amts ops d next)) <= sum_bal d + sum_list amts.
Proof. exact (fun e => accumulate_total ar_exact e ar_exact_sound). Qed.
Print Assumptions C08_accumulate_total.

(* no balance and no pending amount reaches 2^64 when the tokens present at the start are < 2^64 *)
Theorem C08_no_wrap : forall e amts ops d next,
  sum_bal d + sum_list amts < two64 ->
  let x := fst (accumulate ar_exact e amts ops d next) in
  (forall i a, In (i, a) (c_accts x) -> a_bal a < two64) /\ (forall t, In t (c_xfers x) -> x_amt t < two64).
Proof. exact (fun e => no_wrap ar_exact e ar_exact_sound). Qed.
Print Assumptions C08_no_wrap.

Theorem C08_no_wrap_go : forall e amts ops d next,
  sum_bal d + sum_list amts < two64 ->
  let x := fst (accumulate ar_go e amts ops d next) in
  (forall i a, In (i, a) (c_accts x) -> a_bal a < two64) /\ (forall t, In t (c_xfers x) -> x_amt t < two64).
Proof. exact (fun e => no_wrap ar_go e ar_go_sound). Qed.
Print Assumptions C08_no_wrap_go.

(* on uint64 operands the repaired Go arithmetic IS the exact arithmetic (so nothing wraps):
   new's and transfer's debit-and-compare, and the additions of eject / incoming credit *)
Theorem C08_go_arith_exact :
  (forall b amt t, b < two64 -> amt < two64 -> t < two64 -> debit_new_go b amt t = debit_exact b amt t) /\
  (forall b amt t, b < two64 -> amt < two64 -> t < two64 -> debit_xfer_go b amt t = debit_exact b amt t) /\
  (forall a b, a + b < two64 -> add_go a b = a + b).
Proof. exact (conj debit_new_go_exact (conj debit_xfer_go_exact add_go_exact)). Qed.
Print Assumptions C08_go_arith_exact.

(* state level: on every context whose numbers are within the machine ranges (supply < 2^64, items < 2^31,
   octets < 2^62) and every call with uint32/uint64 operands, the step computed with the repaired Go arithmetic
   IS the specification step; hence whole runs coincide while the specification's states stay in range, and
   so does the incoming credit of Psi_A *)
Theorem C08_go_step_refines : forall e o st,
  small_ctx (fst st) -> small_op o -> step ar_go e o st = step ar_exact e o st.
Proof. exact go_step_refines. Qed.
Print Assumptions C08_go_step_refines.

Theorem C08_go_run_refines : forall e ops st, small_run e ops st -> run ar_go e ops st = run ar_exact e ops st.
Proof. exact go_run_refines. Qed.
Print Assumptions C08_go_run_refines.

Theorem C08_credit_go_exact : forall e amts d,
  sum_bal d + sum_list amts < two64 -> credit ar_go e amts d = credit ar_exact e amts d.
Proof. exact credit_go. Qed.
Print Assumptions C08_credit_go_exact.

(* a call returning CASH changes nothing at all (a fortiori no balance); same for every other rejection *)
Theorem C08_cash_no_change : forall ar e o st st', step ar e o st = (RCash, st') -> st' = st.
Proof. exact cash_no_change. Qed.
Print Assumptions C08_cash_no_change.

Theorem C08_rejected_no_change : forall ar e o st r st',
  step ar e o st = (r, st') -> r = RCash \/ r = RFull \/ r = RWho \/ r = RLow \/ r = RHuh -> st' = st.
Proof. exact rejected_no_change. Qed.
Print Assumptions C08_rejected_no_change.

(* ---- the unchanged Go code: new computes s.Balance - a_t in uint64 before comparing ---- *)
Definition ex_env : env := mkEnv 100 1000 32 1 2.
Definition ex_acct (b : N) : account := mkAcct (repeat 7 32) b 0 0 0 0 0 0 0 0 [] [] [].
Definition ex_ctx (b : N) : ctx := mkCtx [(100, ex_acct b); (200, ex_acct 500)] [] 70000.

Theorem C08_new_go_orig_refuted :
  exists e st o, tot2 st < two64 /\ total (fst st) < total (fst (snd (step ar_go_orig e o st))).
Proof.
  exists ex_env, (ex_ctx 150, ex_ctx 150), (ONew (repeat 9 32) 10 0 0 0 0).
  split; vm_compute; reflexivity.
Qed.
Print Assumptions C08_new_go_orig_refuted.

(* the comparison must stay in the two-test form `b < a_t || b - a_t < t`: the single uint64 comparison
   `b < a_t + t` is exact only while the sum fits; beyond (caller threshold within a_t of 2^64, or saturated) it
   answers OK for a caller that ends below its threshold, and for b < a_t it wraps the balance (tokens minted) *)
Theorem C08_new_sum_compare_exact : forall b amt t,
  b < two64 -> amt + t < two64 -> debit_new_go_sum b amt t = debit_exact b amt t.
Proof. exact debit_new_go_sum_exact. Qed.
Print Assumptions C08_new_sum_compare_exact.

Theorem C08_new_sum_compare_refuted :
  (exists b amt t nb, b < two64 /\ amt < two64 /\ t < two64 /\ debit_exact b amt t = None /\
                      debit_new_go_sum b amt t = Some nb /\ nb < t) /\
  (exists b amt t nb, b < two64 /\ amt < two64 /\ t < two64 /\ debit_exact b amt t = None /\
                      debit_new_go_sum b amt t = Some nb /\ b < nb + amt).
Proof. exact debit_new_go_sum_refuted. Qed.
Print Assumptions C08_new_sum_compare_refuted.

(* non-vacuity: a sequence that creates a service, transfers, is refused with CASH, and checkpoints *)
Definition ex_ops : list op :=
  [ONew (repeat 9 32) 10 5 6 0 0; OTransfer 200 300 0 [1; 2]; OCheckpoint; OTransfer 200 400 0 []; OUpgrade (repeat 3 32) 1 1].
Example C08_ex_run :
  let st := run ar_exact ex_env ex_ops (ex_ctx 1000, ex_ctx 1000) in
  total (fst st) = 1500 /\ sum_bal (c_accts (fst st)) = 1200 /\ sum_amt (c_xfers (fst st)) = 300 /\
  map (fun p => (fst p, a_bal (snd p))) (c_accts (fst st)) = [(100, 489); (200, 500); (70000, 211)].
Proof. vm_compute. repeat split; reflexivity. Qed.
Example C08_ex_cash :
  let st := run ar_exact ex_env (firstn 3 ex_ops) (ex_ctx 1000, ex_ctx 1000) in
  fst (step ar_exact ex_env (OTransfer 200 400 0 []) st) = RCash /\
  fst (step ar_exact ex_env (OTransfer 200 389 0 []) st) = ROk.
Proof. vm_compute. split; reflexivity. Qed.
(* the exact semantics and the repaired Go arithmetic refuse the witness of the refutation with CASH *)
Example C08_ex_witness_cash :
  fst (step ar_exact ex_env (ONew (repeat 9 32) 10 0 0 0 0) (ex_ctx 150, ex_ctx 150)) = RCash /\
  fst (step ar_go ex_env (ONew (repeat 9 32) 10 0 0 0 0) (ex_ctx 150, ex_ctx 150)) = RCash.
Proof. vm_compute. split; reflexivity. Qed.
Example C08_ex_no_wrap_hyp : sum_bal (c_accts (ex_ctx 1000)) + sum_list [5; 6] < two64.
Proof. vm_compute. reflexivity. Qed.
Example C08_ex_small : small_ctx (ex_ctx 1000) /\ small_op (ONew (repeat 9 32) 10 5 6 0 0) /\
  small_run ex_env [ONew (repeat 9 32) 10 5 6 0 0] (ex_ctx 1000, ex_ctx 1000).
Proof.
  assert (S : forall b, b < two64 -> small_acct (ex_acct b)).
  { intros b Hb. unfold small_acct, ex_acct. cbn [a_bal a_items a_octets a_gratis]. unfold two64 in *. lia. }
  assert (C : small_ctx (ex_ctx 1000)).
  { split; [repeat constructor; apply S; reflexivity | vm_compute; reflexivity]. }
  split; [exact C |]. split; [split; reflexivity |].
  cbn [small_run fst]. split; [exact C |]. split; [split; reflexivity | exact I].
Qed.
