(* C06 — Standard program initialisation layout. Property theorems only. *)
From JamV Require Import Base.Bytes Model.PvmInit Proofs.PvmInitP.
Local Open Scope N_scope.

(* The whole property: for every byte string p and every argument a of at most Z_I bytes, init p a
   - rejects exactly when p is not the serialisation of a blob (o, w, z, s, c) with 3/3/2/3/4-byte
     size fields (malformed: truncated, trailing bytes, sizes exceeding the data), and
   - otherwise returns the code c, the registers of A.43 and a page list whose lookup at EVERY
     address i equals the Gray Paper RAM cell (access and byte) of A.42. *)
Theorem C06_init_refines_Y : forall p a, wf_bytes p = true -> blen a <= 16777216 ->
  match init p a with
  | None => forall b, p <> serialise b \/ ~ (blen (b_o b) < 16777216 /\ blen (b_w b) < 16777216 /\ b_z b < 65536 /\
                                           b_s b < 16777216 /\ blen (b_c b) < 4294967296)
  | Some (c, regs, pgs) =>
      exists b, p = serialise b /\ c = b_c b /\ regs = regs_init a /\
                forall i, lookup_pages pgs i = cell_gp b a i
  end.
Proof. exact init_refines_Y. Qed.
Print Assumptions C06_init_refines_Y.

(* the page construction agrees with the Gray Paper cell function on the whole address space *)
Theorem C06_pages_refine_gp : forall b a i, small b a -> lookup_pages (pages_of b a) i = cell_gp b a i.
Proof. exact pages_refine_gp. Qed.
Print Assumptions C06_pages_refine_gp.

(* the four zones are ordered, pairwise disjoint (separated by a guard zone) and inside 2^32 *)
Theorem C06_zones_disjoint : forall b a, small b a ->
  let ro0 := ZZ in let ro1 := ZZ + Pz (blen (b_o b)) in
  let rw0 := 2 * ZZ + Zz (blen (b_o b)) in let rw1 := rw0 + Pz (blen (b_w b)) + b_z b * ZP in
  let st1 := TOP - 2 * ZZ - ZI in let st0 := st1 - Pz (b_s b) in
  let ar0 := TOP - ZZ - ZI in let ar1 := ar0 + Pz (blen a) in
  ro0 <= ro1 /\ ro1 + ZZ <= rw0 + ZP /\ ro1 <= rw0 /\ rw0 <= rw1 /\ rw1 + ZZ <= st0 /\ st0 <= st1 /\
  st1 + ZZ <= ar0 /\ ar0 <= ar1 /\ ar1 + ZZ <= TOP.
Proof. exact zones_disjoint. Qed.
Print Assumptions C06_zones_disjoint.

(* the layout test of A.38 can never fail for blobs with 3-byte sizes and a 2-byte page count:
   "layout exceeds the 32-bit address space" is unreachable, so rejection = malformed *)
Theorem C06_layout_always_ok : forall b,
  blen (b_o b) < 16777216 -> blen (b_w b) < 16777216 -> b_z b < 65536 -> b_s b < 16777216 -> layout_ok b = true.
Proof. exact layout_always_ok. Qed.
Print Assumptions C06_layout_always_ok.

Theorem C06_parse_serialise : forall b,
  blen (b_o b) < 16777216 -> blen (b_w b) < 16777216 -> b_z b < 65536 -> b_s b < 16777216 ->
  blen (b_c b) < 4294967296 -> parse (serialise b) = Some b.
Proof. exact parse_serialise. Qed.
Print Assumptions C06_parse_serialise.

(* non-vacuity: a concrete blob (o = [7], w = [8;9], z = 1, s = 5, c = [0]) with argument [1;2;3] *)
Definition ex_blob : blob := {| b_o := [7]; b_w := [8; 9]; b_z := 1; b_s := 5; b_c := [0] |}.
Example C06_ex_accept :
  exists pgs, init (serialise ex_blob) [1; 2; 3] = Some ([0], regs_init [1; 2; 3], pgs) /\
  lookup_pages pgs 65536 = (ARead, 7) /\ lookup_pages pgs 65537 = (ARead, 0) /\ lookup_pages pgs 69632 = (ANone, 0) /\
  lookup_pages pgs 196609 = (AWrite, 9) /\ lookup_pages pgs 204799 = (AWrite, 0) /\ lookup_pages pgs 204800 = (ANone, 0) /\
  lookup_pages pgs 4278059007 = (AWrite, 0) /\ lookup_pages pgs 4278124546 = (ARead, 3) /\ lookup_pages pgs 4278128640 = (ANone, 0).
Proof. eexists. repeat split; vm_compute; reflexivity. Qed.
Example C06_ex_reject : init (serialise ex_blob ++ [0]) [] = None /\ init (removelast (serialise ex_blob)) [] = None.
Proof. split; vm_compute; reflexivity. Qed.
