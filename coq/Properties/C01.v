(* C01 — PVM execution matches the Gray Paper machine.  Property theorems only.
   The machine S is Model/PvmCode.v, PvmArgs.v, PvmMem.v, PvmStep.v, PvmRun.v (Gray Paper v0.7.2 App. A,
   139 opcodes).  These theorems state the clauses the property names, for all programs and states;
   that the Go interpreter computes the same function as S is decided by the correspondence run. *)
From JamV Require Import Model.PvmRun Proofs.PvmCodeP Proofs.PvmMemP Proofs.PvmAluP Proofs.PvmStepP
     Proofs.PvmRunP Proofs.PvmExamplesP.
Local Open Scope Z_scope.

(* skip never exceeds 24 ... *)
Theorem C01_skip_le_24 : forall p i, 0 <= skip p i <= 24.
Proof. exact skip_le_24. Qed.
Print Assumptions C01_skip_le_24.

(* ... and is exact: no bit of k ++ [1,1,...] is set strictly between, and unless clamped the bit at
   i+1+skip is set (the implicit trailing 1-bits end the last instruction at the end of the code) *)
Theorem C01_skip_exact : forall p i,
  (forall j, 0 <= j < skip p i -> kbit p (i + 1 + j) = false) /\
  (skip p i < 24 -> kbit p (i + 1 + skip p i) = true).
Proof. exact skip_spec. Qed.
Print Assumptions C01_skip_exact.

(* the code is implicitly zero-extended: writing the zeros (and 1-bits) out explicitly changes
   neither the opcode fetched, nor skip, nor any decoded operand, at any counter *)
Theorem C01_zero_extension : forall p n pc,
  opcode_at (pad p n) pc = opcode_at p pc /\ skip (pad p n) pc = skip p pc /\ decode (pad p n) pc = decode p pc.
Proof. exact zero_extension. Qed.
Print Assumptions C01_zero_extension.

(* operand decoding sees the program only through nth-default-0 of c and nth-default-1 of k *)
Theorem C01_decode_through_zeta : forall p p' pc,
  (forall x, zeta p x = zeta p' x) -> (forall x, kbit p x = kbit p' x) -> decode p pc = decode p' pc.
Proof. exact decode_ext. Qed.
Print Assumptions C01_decode_through_zeta.

(* clamping: register indices <= 12, immediate lengths <= 4 (8 for load_imm_64), never negative *)
Theorem C01_operand_clamps : forall c p pc,
  ((rA (decode_cat c p pc) <= 12)%nat /\ (rB (decode_cat c p pc) <= 12)%nat /\ (rD (decode_cat c p pc) <= 12)%nat) /\
  (0 <= lX (decode_cat c p pc) <= 8 /\ 0 <= lY (decode_cat c p pc) <= 4 /\
   (c <> CRegImm64 -> lX (decode_cat c p pc) <= 4)).
Proof. exact (fun c p pc => conj (decode_cat_regs c p pc) (decode_cat_lens c p pc)). Qed.
Print Assumptions C01_operand_clamps.

(* an undefined opcode acts exactly as trap: one unit of gas, panic, nothing else changes *)
Theorem C01_invalid_opcode_is_trap : forall p pc s, valid_op (zeta p pc) = false -> 1 <= gas s ->
  step p pc s = (Panic, 0, {| regs := regs s; gas := gas s - 1; mem := mem s |}) /\
  instr_of (opcode_at p pc) = ITrap.
Proof. exact invalid_opcode_is_trap. Qed.
Print Assumptions C01_invalid_opcode_is_trap.

(* so does every position past the end of the code *)
Theorem C01_past_end_is_trap : forall p pc s, code_len p <= pc -> 1 <= gas s ->
  step p pc s = (Panic, 0, {| regs := regs s; gas := gas s - 1; mem := mem s |}).
Proof. exact step_past_end. Qed.
Print Assumptions C01_past_end_is_trap.

(* ecalli dispatches its FULL sign-extended immediate (not its low byte) and resumes after itself *)
Theorem C01_ecalli_full_immediate : forall p pc s, opcode_at p pc = 10 -> 1 <= gas s ->
  step p pc s = (Host (imm_at p (pc + 1) (Z.min 4 (skip p pc))), pc + 1 + skip p pc,
                 {| regs := regs s; gas := gas s - 1; mem := mem s |}).
Proof. exact ecalli_full_immediate. Qed.
Print Assumptions C01_ecalli_full_immediate.

(* a page-fault exit reports an address between the start of the page containing the first byte of
   the access and the last byte of the access; the counter stays on the faulting instruction *)
Theorem C01_fault_addr_bounds : forall p pc s a pc' s', step p pc s = (Fault a, pc', s') ->
  pc' = pc /\ regs s' = regs s /\ mem s' = mem s /\ gas s' = gas s - 1 /\
  exists lo w, access_of (instr_of (opcode_at p pc)) (decode p pc) (regs s) = Some (lo, w) /\
               PAGE * (lo / PAGE) <= a <= lo + Z.of_nat w - 1.
Proof. exact step_fault. Qed.
Print Assumptions C01_fault_addr_bounds.

(* over any number of steps: registers stay 64-bit (13 of them), memory bytes stay bytes,
   the counter stays below 2^32, gas never grows *)
Theorem C01_run_wf : forall fuel p pc s e pc' s',
  wf_code p -> code_len p + 25 <= ADDR -> wf_st s -> 0 <= pc < ADDR ->
  run fuel p pc s = Some (e, pc', s') ->
  wf_st s' /\ 0 <= pc' < ADDR /\ gas s' <= gas s.
Proof. exact run_wf. Qed.
Print Assumptions C01_run_wf.

(* the machine is total: [run] fails only for lack of fuel, and gas+1 units of fuel always suffice *)
Theorem C01_run_total : forall fuel p pc s, gas s <= Z.of_nat fuel -> run (S fuel) p pc s <> None.
Proof. exact run_terminates. Qed.
Print Assumptions C01_run_total.

(* ---- non-vacuity ---- *)
(* ecalli 300 yields host call 300 (not 300 mod 256 = 44), resume point 3 *)
Example C01_ex_ecalli_300 : step p_ecalli300 0 (st0 10) = (Host 300, 3, st0 9).
Proof. vm_compute. reflexivity. Qed.
(* ecalli with immediate byte FF yields identifier 2^64 - 1 *)
Example C01_ex_ecalli_neg : fst (fst (step p_ecalli_neg 0 (st0 10))) = Host 18446744073709551615.
Proof. vm_compute. reflexivity. Qed.
(* a program whose last instruction is not a terminator runs it, then traps past the end: 2 units of gas *)
Example C01_ex_open_end :
  run 5 p_open_end 0 (st0 10) = Some (Panic, 0, {| regs := sreg regs0 1 5; gas := 8; mem := mem0 |}).
Proof. vm_compute. reflexivity. Qed.
(* opcode 2 is undefined: trap *)
Example C01_ex_invalid : fst (fst (step (mkprog [2] [true]) 0 (st0 10))) = Panic.
Proof. vm_compute. reflexivity. Qed.
(* a store straddling a writable and a read-only page faults at the start of the read-only page,
   which lies inside the access [0x10FFE, 0x11001] *)
Example C01_ex_fault : fst (fst (step p_store_cross 0 (st0 10))) = Fault 69632.
Proof. vm_compute. reflexivity. Qed.
Example C01_ex_wf : wf_code p_store_cross /\ code_len p_store_cross + 25 <= ADDR /\ wf_regs regs0.
Proof. split; [repeat constructor; lia|split; [vm_compute; discriminate|exact wf_regs0]]. Qed.
(* skip is clamped at 24 for a 30-byte instruction *)
Example C01_ex_skip : skip (mkprog (repeat 1 30) (true :: repeat false 29)) 0 = 24.
Proof. vm_compute. reflexivity. Qed.
