(* C09 — Storage footprint and threshold accounting. Property theorems only. *)
From JamV Require Import Base.Bytes Model.Accounts Model.AccCalls Proofs.AccountsP Proofs.AccCallsP Proofs.AccFundedP.
Local Open Scope N_scope.

(* fp_ok a :  recorded items  = 2*|lookups| + |storage|
              recorded octets = sum (81+z) over lookups + sum (34+|k|+|v|) over storage.
   It is preserved in both contexts by every sequence of new / upgrade / transfer / eject / checkpoint /
   write / solicit / forget / info, whatever arithmetic decides the CASH/FULL comparisons. *)
Theorem C09_footprint_consistent : forall ar e ops st, all_fp2 st -> all_fp2 (run ar e ops st).
Proof. exact footprint_consistent. Qed.
Print Assumptions C09_footprint_consistent.

Theorem C09_footprint_consistent_accumulate : forall ar e amts ops d next,
  Forall (fun p => fp_ok (snd p)) d -> all_fp2 (accumulate ar e amts ops d next).
Proof. exact footprint_consistent_accumulate. Qed.
Print Assumptions C09_footprint_consistent_accumulate.

(* the threshold used by every comparison of the specification is max 0 (B_S + B_I*i + B_L*o - f) over Z *)
Theorem C09_threshold_exact : forall i o f,
  Z.of_N (threshold_raw i o f) = Z.max 0 (100 + 10 * Z.of_N i + Z.of_N o - Z.of_N f)%Z.
Proof. exact threshold_raw_Z. Qed.
Print Assumptions C09_threshold_exact.

(* the repaired Go computation (64-bit product, carry, saturation) is exact on all uint32/uint64 inputs:
   it returns the true threshold, or 2^64-1 when the true threshold does not fit a uint64 *)
Theorem C09_threshold_go64_exact : forall i o f,
  i < two32 -> o < two64 -> f < two64 -> threshold_go64 i o f = N.min (threshold_raw i o f) (two64 - 1).
Proof. exact threshold_go64_exact. Qed.
Print Assumptions C09_threshold_go64_exact.

Theorem C09_threshold_go64_fits : forall i o f,
  i < two32 -> o < two64 -> f < two64 -> threshold_raw i o f < two64 -> threshold_go64 i o f = threshold_raw i o f.
Proof. exact threshold_go64_fits. Qed.
Print Assumptions C09_threshold_go64_fits.

(* the unchanged Go computation multiplies in uint32: refuted at i = 429496730 (104 instead of 4294967400) *)
Theorem C09_threshold_go32_refuted :
  exists i o f, i < two32 /\ o < two64 /\ f < two64 /\ threshold_raw i o f < two64 /\
                threshold_go32 i o f <> threshold_raw i o f.
Proof. exact threshold_go32_refuted. Qed.
Print Assumptions C09_threshold_go32_refuted.

(* the incremental uint32/uint64 counter update (subtract the old footprint, add the new one, both wrapping)
   is the exact one as long as the result fits the counter *)
Theorem C09_counter_go_exact : forall W c old new,
  0 < W -> old <= c -> c < W -> c - old + new < W -> (((c + W - old) mod W) + new) mod W = c - old + new.
Proof. exact counter_go_exact. Qed.
Print Assumptions C09_counter_go_exact.

(* a call returning FULL changes nothing *)
Theorem C09_full_no_change : forall ar e o st st', step ar e o st = (RFull, st') -> st' = st.
Proof. exact full_no_change. Qed.
Print Assumptions C09_full_no_change.

(* accounts at or above their threshold stay so (with consistent footprints), along every sequence *)
Theorem C09_funded_preserved : forall e ops st, inv2 st -> inv2 (run ar_exact e ops st).
Proof. exact funded_preserved. Qed.
Print Assumptions C09_funded_preserved.

(* non-vacuity *)
Definition ex_env : env := mkEnv 100 1000 32 1 2.
Definition ex_acct : account :=
  mkAcct (repeat 7 32) 400 0 0 (81 + 5 + 34 + 2 + 3) 3 0 0 0 0 [([1; 2], [9; 9; 9])] [((repeat 4 32, 5), [10])] [].
Definition ex_st : state := let c := mkCtx [(100, ex_acct)] [] 70000 in (c, c).
Example C09_ex_inv : inv2 ex_st /\ all_fp2 ex_st.
Proof.
  assert (I : inv2 ex_st).
  { unfold inv2, inv, ex_st; cbn [fst snd c_accts]. split; repeat constructor; vm_compute; try reflexivity; discriminate. }
  split; [exact I |]. destruct I as [[A _] [B _]]. split; assumption.
Qed.
Definition ex_ops : list op :=
  [OWrite [1; 2] [7]; OWrite [3] [1; 1]; OSolicit (repeat 5 32) 100; OForget (repeat 4 32) 5; OWrite [1; 2] [];
   OSolicit (repeat 6 32) 20; OCheckpoint; OWrite [8] (repeat 1 300)].
Example C09_ex_run :
  let st := run ar_exact ex_env (firstn 7 ex_ops) ex_st in
  match c_accts (fst st) with
  | [(_, a)] => a_items a = 5 /\ a_octets a = 86 + 37 + 101 /\ items_of a = 5 /\ octets_of a = 224 /\ threshold a = 374
  | _ => False
  end.
Proof. vm_compute. repeat split; reflexivity. Qed.
Example C09_ex_full :
  let st := run ar_exact ex_env (firstn 7 ex_ops) ex_st in
  fst (step ar_exact ex_env (OWrite [8] (repeat 1 300)) st) = RFull /\
  fst (step ar_exact ex_env (OSolicit (repeat 5 32) 100) ex_st) = RFull /\
  fst (step ar_exact ex_env (OWrite [8] []) st) = RNone.
Proof. vm_compute. repeat split; reflexivity. Qed.
Example C09_ex_threshold : threshold_raw 429496730 0 0 = 4294967400 /\ threshold_go32 429496730 0 0 = 104 /\
                           threshold_go64 429496730 0 0 = 4294967400 /\ threshold_raw 3 50 1000 = 0 /\
                           threshold_go64 0 (two64 - 1) 0 = two64 - 1 /\ threshold_go64 0 (two64 - 1) 200 = two64 - 101.
Proof. vm_compute. repeat split; reflexivity. Qed.
