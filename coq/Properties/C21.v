(* C21 — Accumulation queue selection and ordering (GP §12.1–12.2).  Property theorems only.
   Model: Model/AccQueue.v (rr = (package hash, open dependency set, identity tag); E, Q with explicit fuel,
   W!, W_Q, W*, ξ' and the three cases of ϑ').  Proofs: Proofs/AccQueueP.v. *)
From JamV Require Import Base.Bytes Model.AccQueue Proofs.AccQueueP.
Local Open Scope nat_scope.

(* Q terminates: fuel |r|+1 never runs out and any larger fuel gives the same list (fuel independence) *)
Theorem C21_Q_terminates : forall r,
  exists l, Qf (S (length r)) r = Some l /\ forall f, length r < f -> Qf f r = Some l.
Proof. exact Q_terminates_l. Qed.
Print Assumptions C21_Q_terminates.

(* the fuelled function satisfies the Gray Paper equation (12.8) *)
Theorem C21_Q_equation : forall r,
  Q r = match filter ready r with [] => [] | g => g ++ Q (E r (P g)) end.
Proof. exact Q_eqn. Qed.
Print Assumptions C21_Q_equation.

(* the progress argument behind termination: a non-empty ready set strictly shrinks the queue *)
Theorem C21_Q_progress : forall r, filter ready r <> [] -> length (E r (P (filter ready r))) < length r.
Proof. exact E_shrinks. Qed.
Print Assumptions C21_Q_progress.

(* W* = W! ++ Q(E(ϑ_{m...} ++ ϑ_{...m} ++ W_Q, P(W!))), with W! / W_Q characterised *)
Theorem C21_Wstar_shape : forall m xi theta avail,
  Wstar_at m xi theta avail =
  Wbang avail ++ Q (E (concat (skipn m theta ++ firstn m theta) ++ WQ (concat xi) avail) (P (Wbang avail))).
Proof. exact Wstar_shape. Qed.
Print Assumptions C21_Wstar_shape.

Theorem C21_Wbang_spec : forall e avail,
  In e (Wbang avail) <-> exists w, In w avail /\ wpre w = [] /\ wlook w = [] /\ e = D w.
Proof. exact Wbang_In. Qed.
Print Assumptions C21_Wbang_spec.

Theorem C21_WQ_spec : forall e xs avail,
  In e (WQ xs avail) <->
  exists w, In w avail /\ (wpre w <> [] \/ wlook w <> []) /\ ~ In (whash w) xs /\ e = strip xs (D w).
Proof. exact WQ_In. Qed.
Print Assumptions C21_WQ_spec.

(* every chosen report stems from an available report or queued record (same hash, same identity) whose
   dependencies are all in the accumulated history or are package hashes of EARLIER entries of W* *)
Theorem C21_Wstar_order : forall m xi theta avail pre w post,
  Wstar_at m xi theta avail = pre ++ w :: post ->
  exists w0, In w0 (map D avail ++ concat theta) /\ rhash w0 = rhash w /\ rid w0 = rid w /\
    forall d, In d (rdeps w0) -> In d (concat xi) \/ In d (P pre).
Proof. exact Wstar_order_split. Qed.
Print Assumptions C21_Wstar_order.

(* "the queued reports whose dependencies become satisfied": nothing satisfiable is left behind *)
Theorem C21_Wstar_complete : forall m xi theta avail w0,
  In w0 (concat theta ++ WQ (concat xi) avail) ->
  In (rhash w0) (P (Wstar_at m xi theta avail)) \/
  exists d, In d (rdeps w0) /\ ~ In d (P (Wstar_at m xi theta avail)).
Proof. exact Wstar_complete. Qed.
Print Assumptions C21_Wstar_complete.

(* the kept queue never contains an accumulated report nor an accumulated dependency: one block … *)
Theorem C21_queue_inv_step : forall El s b, QInv s -> QInv (step El s b).
Proof. exact QInv_step. Qed.
Print Assumptions C21_queue_inv_step.

(* … and every block history (any slots, any gaps, any available reports, any cut n) *)
Theorem C21_queue_inv : forall El bs s, QInv s -> QInv (fold_left (step El) bs s).
Proof. exact QInv_history. Qed.
Print Assumptions C21_queue_inv.

Theorem C21_queue_inv_genesis : forall xi tau n, QInv (mkSt xi (repeat [] n) tau).
Proof. exact QInv_empty_queue. Qed.
Print Assumptions C21_queue_inv_genesis.

(* no report chosen from the queue is in the accumulated history *)
Theorem C21_no_reaccumulation : forall m s avail w,
  QInv s -> In w (Q (queue_in m (sxi s) (stheta s) avail)) -> ~ In (rhash w) (concat (sxi s)).
Proof. exact no_reacc_queue. Qed.
Print Assumptions C21_no_reaccumulation.

(* … at every block of every history *)
Theorem C21_no_reaccumulation_history : forall El s0 bs k b w,
  QInv s0 -> nth_error bs k = Some b ->
  let s := fold_left (step El) (firstn k bs) s0 in
  In w (Q (queue_in (slot_index El (bslot b)) (sxi s) (stheta s) (bavail b))) ->
  ~ In (rhash w) (concat (sxi s)).
Proof. exact history_no_reacc. Qed.
Print Assumptions C21_no_reaccumulation_history.

(* the whole of W*, under the EXPLICIT upstream hypothesis for new reports (GP 11.38, checked by
   GuaranteeController.ValidateWorkPackageHashes): no available report's package hash is in ©ξ *)
Theorem C21_no_reaccumulation_all : forall m s avail w,
  QInv s -> (forall a, In a avail -> ~ In (whash a) (concat (sxi s))) ->
  In w (Wstar_at m (sxi s) (stheta s) avail) -> ~ In (rhash w) (concat (sxi s)).
Proof. exact no_reacc_all. Qed.
Print Assumptions C21_no_reaccumulation_all.

(* that hypothesis is necessary: W! has no filter against ©ξ (neither in the Gray Paper nor in the Go code) *)
Theorem C21_Wbang_unfiltered : forall m xi theta a avail,
  In a avail -> wpre a = [] -> wlook a = [] -> In (D a) (Wstar_at m xi theta avail).
Proof. exact Wbang_no_filter. Qed.
Print Assumptions C21_Wbang_unfiltered.

(* the driver's boolean observers mean what the theorems say *)
Theorem C21_qinv_b_iff : forall s, qinv_b s = true <-> QInv s.
Proof. exact qinv_b_iff. Qed.
Print Assumptions C21_qinv_b_iff.

Theorem C21_history_model : forall El bs s k b,
  snd (run El s bs) = fold_left (step El) bs s /\
  (nth_error bs k = Some b ->
   nth_error (fst (run El s bs)) k = Some (Wstar El (fold_left (step El) (firstn k bs) s) b)).
Proof. exact run_model. Qed.
Print Assumptions C21_history_model.

(* ------------------------------------------------------------------ non-vacuity *)
Local Open Scope N_scope.
Definition hA : hash := [1]. Definition hB : hash := [2]. Definition hC : hash := [3]. Definition hD : hash := [4].
Definition hX : hash := [9].

(* a chain c <- b <- a fed in reverse order, a cycle d <-> d (self dependency) and a dependency on history *)
Example C21_ex_Q :
  Q [mkRR hC [hB] 3; mkRR hB [hA] 2; mkRR hA [] 1; mkRR hD [hD] 4]
  = [mkRR hA [] 1; mkRR hB [] 2; mkRR hC [] 3].
Proof. reflexivity. Qed.

(* fuel: |r| = 4 needs 4 rounds here (three productive + the empty one); fuel 3 runs out *)
Example C21_ex_fuel :
  Qf 3 [mkRR hC [hB] 3; mkRR hB [hA] 2; mkRR hA [] 1; mkRR hD [hD] 4] = None /\
  Qf 4 [mkRR hC [hB] 3; mkRR hB [hA] 2; mkRR hA [] 1; mkRR hD [hD] 4] <> None.
Proof. split; [reflexivity|discriminate]. Qed.

(* one block: ξ holds X; θ holds B (waiting for A) in slot 1; available: A (free), C (needs B, looks up X), D (needs D) *)
Definition ex_s : st := mkSt [[hX]; []; []] [[]; [mkRR hB [hA] 2]; []] 4.
Definition ex_b : blk := mkBlk 5 [mkWR hC [hB] [hX] 3; mkWR hA [] [] 1; mkWR hD [hD] [] 4] 0.
Example C21_ex_block :
  QInv ex_s /\
  Wstar 3 ex_s ex_b = [mkRR hA [] 1; mkRR hB [] 2; mkRR hC [] 3] /\
  step 3 ex_s ex_b = mkSt [[]; []; [hA; hB; hC]] [[]; []; [mkRR hD [hD] 4]] 5.
Proof. split; [apply qinv_b_iff; reflexivity|split; reflexivity]. Qed.

(* slot gap 2: the skipped slot's queue entry is dropped (case 1 <= i < τ'-τ), older ones are kept and edited *)
Example C21_ex_gap :
  stheta (step 3 (mkSt [[]; []; []] [[mkRR hB [hX] 2]; [mkRR hC [hX] 3]; [mkRR hD [hX; hA] 4]] 4)
                 (mkBlk 6 [mkWR hA [] [] 1] 0))
  = [[]; [mkRR hC [hX] 3]; []].
Proof. reflexivity. Qed.

(* the hypothesis of C21_no_reaccumulation_all cannot be dropped: A is in ξ and is chosen again *)
Example C21_ex_needs_guard :
  Wstar 3 (mkSt [[hA]; []; []] [[]; []; []] 4) (mkBlk 5 [mkWR hA [] [] 1] 0) = [mkRR hA [] 1].
Proof. reflexivity. Qed.
