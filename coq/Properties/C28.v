(* C28 — telemetry stream stays aligned with event ids.  Property theorems only.
   Model: Model/Telemetry.v (transition system of the emitter / writer / reconnect / close protocol of
   internal/telemetry; an interleaving = a list of actions).  The theorems quantify over EVERY action
   list and every channel capacity; they are about the model, the Go code is tied by validating
   observed runs of the real client with the extracted oracle [accepts] (see notes/C28.md). *)
From JamV Require Import Model.Telemetry Proofs.TelemetryP Proofs.TelemetryInvP.
From Coq Require Import List NArith Bool.
Import ListNotations.
Local Open Scope N_scope.

(* after any interleaving, the wires of all connections (past ones and the current one) are accepted
   by the receiver oracle with respect to the ids the emitters received *)
Theorem C28_alignment_inv : forall cap acts,
  accepts (all_wires (run acts (init cap))) (results (run acts (init cap))) = true.
Proof. exact alignment_inv. Qed.
Print Assumptions C28_alignment_inv.

(* what acceptance means, for any observed run: every connection is empty (nothing got through) or
   starts with the node-information frame, contains no second one, and each delivered event that the
   receiver numbers n (from 0, advancing by dropped counts) is the emit call that received (epoch of
   that connection, n); a follow-up's parent has that same epoch and the seq carried on the wire *)
Theorem C28_oracle_sound : forall conns res, accepts conns res = true ->
  forall k conn, nth_error conns k = Some conn ->
    conn = [] \/
    exists w, conn = FNode :: w /\ ~ In FNode w /\
      forall t p n, In (t, p, n) (receive 0 w) ->
        exists r, lookup t res = Some r /\ r_id r = Some (conns_epoch 1 (firstn k conns), n) /\
                  par_ok p (r_parent r) (conns_epoch 1 (firstn k conns)) = true.
Proof. exact accepts_sound. Qed.
Print Assumptions C28_oracle_sound.

(* the two combined: the explicit alignment statement for every interleaving *)
Theorem C28_alignment_explicit : forall cap acts k conn,
  nth_error (all_wires (run acts (init cap))) k = Some conn ->
  conn = [] \/
  exists w, conn = FNode :: w /\ ~ In FNode w /\
    forall t p n, In (t, p, n) (receive 0 w) ->
      exists r, lookup t (results (run acts (init cap))) = Some r /\
        r_id r = Some (conns_epoch 1 (firstn k (all_wires (run acts (init cap)))), n) /\
        par_ok p (r_parent r) (conns_epoch 1 (firstn k (all_wires (run acts (init cap))))) = true.
Proof. exact alignment_explicit. Qed.
Print Assumptions C28_alignment_explicit.

(* a follow-up that received an id has a parent of the same epoch, i.e. of the same connection
   (whatever parent id the caller passed, delivered or not) *)
Theorem C28_followup_same_epoch : forall cap acts r e q pe pq,
  In r (results (run acts (init cap))) -> r_id r = Some (e, q) -> r_parent r = Some (pe, pq) -> pe = e.
Proof. exact followup_same_epoch. Qed.
Print Assumptions C28_followup_same_epoch.

(* an emit call is a single step that is defined in every state and returns its result in that step:
   the model has no wait state for emitters *)
Theorem C28_emit_nonblocking : forall s a, is_emit a = true ->
  exists r, results (step s a) = results s ++ [r] /\ r_tag r = next_tag s.
Proof. exact emit_nonblocking. Qed.
Print Assumptions C28_emit_nonblocking.

(* the invariant check inside dropState.record never fires in an emitter *)
Theorem C28_no_emitter_panic : forall cap acts, panicked (run acts (init cap)) = false.
Proof. exact no_emitter_panic. Qed.
Print Assumptions C28_no_emitter_panic.

(* no id is handed out twice *)
Theorem C28_ids_unique : forall cap acts i j ri rj a,
  nth_error (results (run acts (init cap))) i = Some ri ->
  nth_error (results (run acts (init cap))) j = Some rj ->
  r_id ri = Some a -> r_id rj = Some a -> i = j.
Proof. exact ids_unique. Qed.
Print Assumptions C28_ids_unique.

(* non-vacuity: a concrete interleaving with capacity 1 — overflow (two coalesced drops), a follow-up,
   connection loss with a stale queued event, an emit between the connections (InvalidID), a failed
   node-information write, a reconnect (numbering restarts at 0 in epoch 2), a stale-parent follow-up
   (InvalidID), a tail drop flushed after Close *)
Definition ex_acts : list action :=
  [ADial true; AEnable; AEmit; AEmit; AEmit; AWDequeue; AEmit; AWWriteEvent; AWClaim; AWWriteDropped;
   AWDequeue; AWWriteEvent; AEmitFollowup (Some (1, 0)); AConnLoss; AEmit; ADisable; AEmit; ABump;
   AResetDrain; ADial false; ADial true; AEnable; AEmitFollowup (Some (1, 0)); AEmit;
   AEmitFollowup (Some (2, 0)); AWDequeue; AWWriteEvent; AClose; AEmit; AWClaim; AWWriteDropped].

Example C28_ex_wires : all_wires (run ex_acts (init 1)) =
  [[FNode; FEvent 0 None; FDropped 2; FEvent 3 None]; []; [FNode; FEvent 8 None; FDropped 1]].
Proof. vm_compute. reflexivity. Qed.

Example C28_ex_results : map (fun r => (r_tag r, r_id r, r_parent r)) (results (run ex_acts (init 1))) =
  [(0, Some (1, 0), None); (1, Some (1, 1), None); (2, Some (1, 2), None); (3, Some (1, 3), None);
   (4, Some (1, 4), Some (1, 0)); (5, Some (1, 5), None); (6, None, None); (7, None, Some (1, 0));
   (8, Some (2, 0), None); (9, Some (2, 1), Some (2, 0)); (10, None, None)].
Proof. vm_compute. reflexivity. Qed.

Example C28_ex_accepted :
  accepts (all_wires (run ex_acts (init 1))) (results (run ex_acts (init 1))) = true.
Proof. vm_compute. reflexivity. Qed.

(* the oracle is not trivially true: the same run with the dropped-events record left out, with a
   wrong count, without the node-information frame, or with an event of the old connection replayed
   on the new one is rejected *)
Example C28_ex_rejected :
  let res := results (run ex_acts (init 1)) in
  accepts [[FNode; FEvent 0 None; FEvent 3 None]] res = false /\
  accepts [[FNode; FEvent 0 None; FDropped 1; FEvent 3 None]] res = false /\
  accepts [[FEvent 0 None]] res = false /\
  accepts [[FNode; FEvent 0 None]; [FNode; FEvent 1 None]] res = false /\
  accepts [[FNode; FEvent 0 None]; [FNode; FEvent 8 None; FEvent 9 (Some 1)]] res = false /\
  accepts [[FNode; FEvent 0 None]; [FNode; FEvent 8 None; FEvent 9 (Some 0)]] res = true.
Proof. vm_compute. repeat split; reflexivity. Qed.
