(* C25 — Recent-history transition. Property theorems only (proofs in Proofs/RecentHistoryP.v).
   rh_step is the impl-shaped model of History2HistoryDagger + STFBetaHDagger2BetaHPrime (AddItem2BetaHPrime's
   make/copy/overwrite, AppendAndCommitMmr, MapWorkReportFromEg). B (Blake2b), K (Keccak) and the accumulation-output
   root function are arbitrary functions: every theorem holds for all of them. *)
From JamV Require Import Base.Bytes Model.StfLists Proofs.StfListsP Model.RecentHistory Proofs.RecentHistoryP.
From Coq Require Import Sorted Permutation.
Local Open Scope N_scope.

(* exact shape: newest state root replaced by the parent state root, new entry appended, the most recent H kept;
   the beefy belt is the MMR append of the accumulation-output root *)
Theorem C25_history_spec : forall B K accroot H b blk, (1 <= H)%nat -> (length (b_hist b) <= H)%nat ->
  b_hist (rh_step B K accroot H b blk)
    = lastn H (set_last_sroot (hb_parent_sroot blk) (b_hist b) ++ [new_entry B K accroot b blk])
  /\ b_mmr (rh_step B K accroot H b blk) = mmr_append K (b_mmr b) (accroot (hb_accout blk)).
Proof. exact history_spec. Qed.
Print Assumptions C25_history_spec.

(* spelled out: prior history h0 ++ [e] (e the newest) *)
Theorem C25_history_not_full : forall B K accroot H b blk h0 e,
  b_hist b = h0 ++ [e] -> (length (b_hist b) < H)%nat ->
  b_hist (rh_step B K accroot H b blk) = h0 ++ [with_sroot e (hb_parent_sroot blk); new_entry B K accroot b blk].
Proof. exact history_not_full. Qed.
Print Assumptions C25_history_not_full.

(* full: exactly the oldest entry is dropped *)
Theorem C25_history_full : forall B K accroot H b blk h0 e, (1 <= H)%nat ->
  b_hist b = h0 ++ [e] -> length (b_hist b) = H ->
  b_hist (rh_step B K accroot H b blk) = tl (h0 ++ [with_sroot e (hb_parent_sroot blk)]) ++ [new_entry B K accroot b blk].
Proof. exact history_full. Qed.
Print Assumptions C25_history_full.

Theorem C25_history_empty : forall B K accroot H b blk, (1 <= H)%nat -> b_hist b = [] ->
  b_hist (rh_step B K accroot H b blk) = [new_entry B K accroot b blk].
Proof. exact history_shape_empty. Qed.
Print Assumptions C25_history_empty.

(* the appended entry: header hash, zero state root, commitment = super-peak of the appended belt,
   reported packages = the block's guarantees sorted by package hash *)
Theorem C25_new_entry : forall B K accroot b blk,
  e_hh (new_entry B K accroot b blk) = B (hb_header blk)
  /\ e_sroot (new_entry B K accroot b blk) = zeros 32
  /\ e_beefy (new_entry B K accroot b blk) = super_peak K (mmr_append K (b_mmr b) (accroot (hb_accout blk)))
  /\ Permutation (hb_guar blk) (e_reported (new_entry B K accroot b blk))
  /\ StronglySorted (fun x y => bytes_ltb (rp_hash y) (rp_hash x) = false) (e_reported (new_entry B K accroot b blk)).
Proof. exact new_entry_fields. Qed.
Print Assumptions C25_new_entry.

Theorem C25_reported_strictly_sorted : forall B K accroot b blk, NoDup (map rp_hash (hb_guar blk)) ->
  ssorted (map rp_hash (e_reported (new_entry B K accroot b blk))).
Proof. exact new_entry_reported_strict. Qed.
Print Assumptions C25_reported_strictly_sorted.

Theorem C25_newest_is_new : forall B K accroot H b blk, (1 <= H)%nat -> (length (b_hist b) <= H)%nat ->
  nth_error (b_hist (rh_step B K accroot H b blk)) (length (b_hist (rh_step B K accroot H b blk)) - 1)
  = Some (new_entry B K accroot b blk).
Proof. exact newest_is_new. Qed.
Print Assumptions C25_newest_is_new.

(* at most H entries: after every block of any history, from any prior history within H; after the first block from ANY prior *)
Theorem C25_history_le_H : forall B K accroot H b0 blks, (1 <= H)%nat -> (length (b_hist b0) <= H)%nat ->
  (length (b_hist (rh_run B K accroot H b0 blks)) <= H)%nat.
Proof. exact run_length_le. Qed.
Print Assumptions C25_history_le_H.

Theorem C25_history_le_H_any : forall B K accroot H b0 blks, (1 <= H)%nat -> blks <> [] ->
  (length (b_hist (rh_run B K accroot H b0 blks)) <= H)%nat.
Proof. exact run_length_le_any. Qed.
Print Assumptions C25_history_le_H_any.

Theorem C25_history_length : forall B K accroot H b0 blks, (1 <= H)%nat -> (length (b_hist b0) <= H)%nat ->
  length (b_hist (rh_run B K accroot H b0 blks)) = Nat.min (length (b_hist b0) + length blks) H.
Proof. exact run_length. Qed.
Print Assumptions C25_history_length.

(* all other entries unchanged: every prior entry except the newest reappears identically, shifted by the number dropped *)
Theorem C25_others_unchanged : forall B K accroot H b blk i, (1 <= H)%nat -> (length (b_hist b) <= H)%nat ->
  (S i < length (b_hist b))%nat -> (dropped H b <= i)%nat ->
  nth_error (b_hist (rh_step B K accroot H b blk)) (i - dropped H b) = nth_error (b_hist b) i.
Proof. exact others_unchanged. Qed.
Print Assumptions C25_others_unchanged.

(* the previous newest entry changes in its state root only *)
Theorem C25_previous_newest : forall B K accroot H b blk h0 e, (2 <= H)%nat -> (length (b_hist b) <= H)%nat ->
  b_hist b = h0 ++ [e] ->
  nth_error (b_hist (rh_step B K accroot H b blk)) (length h0 - dropped H b) = Some (with_sroot e (hb_parent_sroot blk))
  /\ e_hh (with_sroot e (hb_parent_sroot blk)) = e_hh e
  /\ e_beefy (with_sroot e (hb_parent_sroot blk)) = e_beefy e
  /\ e_reported (with_sroot e (hb_parent_sroot blk)) = e_reported e
  /\ e_sroot (with_sroot e (hb_parent_sroot blk)) = hb_parent_sroot blk.
Proof. exact previous_newest. Qed.
Print Assumptions C25_previous_newest.

(* the fuel given to the Merkle node function of the accumulation-output root always suffices *)
Theorem C25_acc_root_total : forall K outs, acc_root_opt K outs <> None.
Proof. exact acc_root_opt_total. Qed.
Print Assumptions C25_acc_root_total.

(* non-vacuity: toy hash functions (B = reverse, K = first 2 bytes) on a history of capacity 3 *)
Definition exB (x : bytes) : bytes := rev x.
Definition exK (x : bytes) : bytes := firstn 2 x.
Definition ex_e (n : N) : entry := {| e_hh := [n]; e_beefy := [n; n]; e_sroot := []; e_reported := [] |}.
Definition ex_blk : hblock :=
  {| hb_header := [1; 2; 3]; hb_parent_sroot := [9];
     hb_guar := [ {| rp_hash := [7]; rp_exports := [70] |}; {| rp_hash := [5]; rp_exports := [50] |} ];
     hb_accout := [(1, [4]); (2, [6])] |}.
Example C25_ex_full :
  let b := {| b_hist := [ex_e 1; ex_e 2; ex_e 3]; b_mmr := [Some [8; 8]] |} in
  (length (b_hist b) <= 3)%nat /\
  b_hist (rh_step exB exK (acc_root_k exK) 3 b ex_blk) =
    [ ex_e 2; with_sroot (ex_e 3) [9];
      {| e_hh := [3; 2; 1]; e_beefy := [8; 8]; e_sroot := zeros 32;
         e_reported := [ {| rp_hash := [5]; rp_exports := [50] |}; {| rp_hash := [7]; rp_exports := [70] |} ] |} ]
  /\ b_mmr (rh_step exB exK (acc_root_k exK) 3 b ex_blk) = [None; Some [8; 8]].
Proof. vm_compute. repeat split; lia. Qed.
Example C25_ex_not_full :
  let b := {| b_hist := [ex_e 1]; b_mmr := [] |} in
  map e_hh (b_hist (rh_step exB exK (acc_root_k exK) 3 b ex_blk)) = [[1]; [3; 2; 1]]
  /\ map e_sroot (b_hist (rh_step exB exK (acc_root_k exK) 3 b ex_blk)) = [[9]; zeros 32]
  /\ dropped 3 b = 0%nat.
Proof. vm_compute. repeat split. Qed.
Example C25_ex_run : length (b_hist (rh_run exB exK (acc_root_k exK) 3 {| b_hist := []; b_mmr := [] |} (repeat ex_blk 5))) = 3%nat.
Proof. vm_compute. reflexivity. Qed.
Example C25_ex_nodup : NoDup (map rp_hash (hb_guar ex_blk)).
Proof. cbn. repeat constructor; cbn; intuition discriminate. Qed.
