(* C35 — Dispute records. Property theorems only (proofs in Proofs/DisputesP.v).
   disputes_step is the impl-shaped model of extrinsic.Disputes() (signature validity as data); a rejected
   extrinsic leaves the state unchanged (dblock_step); disputes_run folds any sequence of blocks. *)
From JamV Require Import Base.Bytes Model.StfLists Proofs.StfListsP Model.Disputes Proofs.DisputesP.
Local Open Scope N_scope.

(* --- verdict classification by the positive-vote count --- *)
Theorem C35_class_good : forall V n, classify V n = Some Good <-> n = 2 * V / 3 + 1.
Proof. exact classify_good. Qed.
Print Assumptions C35_class_good.
Theorem C35_class_bad : forall V n, classify V n = Some Bad <-> n = 0.
Proof. exact classify_bad. Qed.
Print Assumptions C35_class_bad.
Theorem C35_class_wonky : forall V n, 3 <= V -> (classify V n = Some Wonky <-> n = V / 3).
Proof. exact classify_wonky_3. Qed.
Print Assumptions C35_class_wonky.
Theorem C35_class_other : forall V n, classify V n = None <-> n <> 2 * V / 3 + 1 /\ n <> 0 /\ n <> V / 3.
Proof. exact classify_none. Qed.
Print Assumptions C35_class_other.

(* an accepted extrinsic files every verdict's report in the set of its class ... *)
Theorem C35_verdict_class : forall e s ext s' m v,
  disputes_step e s ext = Some (s', m) -> In v (d_verdicts ext) ->
  exists c, classify (dV e) (positives v) = Some c
    /\ (c = Good -> In (v_target v) (psi_g s'))
    /\ (c = Bad -> In (v_target v) (psi_b s'))
    /\ (c = Wonky -> In (v_target v) (psi_w s')).
Proof. exact verdict_class_accept. Qed.
Print Assumptions C35_verdict_class.

(* ... in exactly one of them ... *)
Theorem C35_verdict_class_exclusive : forall e s ext s' m v,
  disputes_step e s ext = Some (s', m) -> gbw_inv s -> In v (d_verdicts ext) ->
  (In (v_target v) (psi_g s') /\ ~ In (v_target v) (psi_b s') /\ ~ In (v_target v) (psi_w s'))
  \/ (~ In (v_target v) (psi_g s') /\ In (v_target v) (psi_b s') /\ ~ In (v_target v) (psi_w s'))
  \/ (~ In (v_target v) (psi_g s') /\ ~ In (v_target v) (psi_b s') /\ In (v_target v) (psi_w s')).
Proof. exact verdict_class_exclusive. Qed.
Print Assumptions C35_verdict_class_exclusive.

(* ... and any other count rejects the whole extrinsic *)
Theorem C35_other_count_rejected : forall e s ext v,
  In v (d_verdicts ext) -> classify (dV e) (positives v) = None -> disputes_step e s ext = None.
Proof. exact verdict_class_reject. Qed.
Print Assumptions C35_other_count_rejected.

(* --- good / bad / wonky stay pairwise disjoint and (strictly) sorted across any sequence of blocks --- *)
Theorem C35_gbw_disjoint_sorted_step : forall e s ext s' m,
  disputes_step e s ext = Some (s', m) -> gbw_inv s -> gbw_inv s'.
Proof. exact step_gbw_inv. Qed.
Print Assumptions C35_gbw_disjoint_sorted_step.

Theorem C35_gbw_disjoint_sorted : forall s0 bs, gbw_inv s0 -> gbw_inv (disputes_run s0 bs).
Proof. exact run_gbw_inv. Qed.
Print Assumptions C35_gbw_disjoint_sorted.

(* --- the offender set only grows and stays sorted --- *)
Theorem C35_offenders_step : forall e s ext s' m, disputes_step e s ext = Some (s', m) ->
  incl (psi_o s) (psi_o s')
  /\ (forall x, In x (psi_o s') <-> In x (psi_o s) \/ In x (offender_keys ext))
  /\ (ssorted (psi_o s) -> ssorted (psi_o s'))
  /\ m = offender_keys ext.
Proof. exact step_offenders. Qed.
Print Assumptions C35_offenders_step.

Theorem C35_offenders_grow_sorted : forall s0 bs,
  incl (psi_o s0) (psi_o (disputes_run s0 bs)) /\ (ssorted (psi_o s0) -> ssorted (psi_o (disputes_run s0 bs))).
Proof. exact run_offenders. Qed.
Print Assumptions C35_offenders_grow_sorted.

Theorem C35_offenders_monotone : forall s0 bs1 bs2,
  incl (psi_o (disputes_run s0 bs1)) (psi_o (disputes_run s0 (bs1 ++ bs2))).
Proof. exact run_offenders_prefix. Qed.
Print Assumptions C35_offenders_monotone.

(* --- reports judged bad or wonky are removed from pending availability, nothing else is --- *)
Theorem C35_bad_wonky_cleared : forall e s ext s' m, 2 <= dV e -> disputes_step e s ext = Some (s', m) ->
  rho s' = clear_rho (targets_of (dV e) Bad (d_verdicts ext) ++ targets_of (dV e) Wonky (d_verdicts ext)) (rho s).
Proof. exact bad_wonky_cleared. Qed.
Print Assumptions C35_bad_wonky_cleared.

Theorem C35_bad_wonky_cleared_core : forall e s ext s' m c, 2 <= dV e -> disputes_step e s ext = Some (s', m) ->
  let judged := targets_of (dV e) Bad (d_verdicts ext) ++ targets_of (dV e) Wonky (d_verdicts ext) in
  match nth_error (rho s) c with
  | None => nth_error (rho s') c = None
  | Some None => nth_error (rho s') c = Some None
  | Some (Some h) => (In h judged -> nth_error (rho s') c = Some None)
                     /\ (~ In h judged -> nth_error (rho s') c = Some (Some h))
  end.
Proof. exact bad_wonky_cleared_core. Qed.
Print Assumptions C35_bad_wonky_cleared_core.

Theorem C35_judged_in_state : forall e s ext s' m x, disputes_step e s ext = Some (s', m) ->
  (In x (targets_of (dV e) Bad (d_verdicts ext)) -> In x (psi_b s'))
  /\ (In x (targets_of (dV e) Wonky (d_verdicts ext)) -> In x (psi_w s')).
Proof. exact new_bad_wonky_in_state. Qed.
Print Assumptions C35_judged_in_state.

(* ---------------- non-vacuity ---------------- *)
Definition ex_env : denv :=
  {| dV := 6; d_epoch := 3; d_kappa := [[10]; [11]; [12]; [13]; [14]; [15]]; d_lambda := [[20]; [21]; [22]; [23]; [24]; [25]] |}.
Definition ex_votes (bits : list bool) : list vote :=
  map (fun ib => {| j_vote := snd ib; j_index := N.of_nat (fst ib); j_ok_k := true; j_ok_l := false |})
      (combine (seq 0 (length bits)) bits).
Definition ex_ext : dext :=
  {| d_verdicts := [ {| v_target := [1]; v_age := 3; v_votes := ex_votes [true; true; true; true; true] |};     (* 5 = 2*6/3+1: good *)
                     {| v_target := [2]; v_age := 3; v_votes := ex_votes [false; false; false; false; false] |}; (* 0: bad *)
                     {| v_target := [3]; v_age := 3; v_votes := ex_votes [true; true; false; false; false] |} ]; (* 2 = 6/3: wonky *)
     d_culprits := [ {| c_target := [2]; c_key := [10]; c_ok := true |}; {| c_target := [2]; c_key := [11]; c_ok := true |} ];
     d_faults := [ {| f_target := [1]; f_vote := false; f_key := [12]; f_ok := true |} ] |}.
Definition ex_s : dstate :=
  {| psi_g := [[0]]; psi_b := [[9]]; psi_w := []; psi_o := [[30]]; rho := [Some [2]; Some [7]; Some [3]; None] |}.

Example C35_ex_accept :
  disputes_step ex_env ex_s ex_ext
  = Some ({| psi_g := [[0]; [1]]; psi_b := [[2]; [9]]; psi_w := [[3]]; psi_o := [[10]; [11]; [12]; [30]];
             rho := [None; Some [7]; None; None] |}, [[10]; [11]; [12]]).
Proof. vm_compute. reflexivity. Qed.

Example C35_ex_inv : gbw_inv ex_s /\ ssorted (psi_o ex_s) /\ 2 <= dV ex_env.
Proof.
  unfold gbw_inv, disjoint. cbn.
  repeat split; try (apply strictly_sortedb_iff; reflexivity); try lia;
    intros x H1 H2; cbn in *; intuition congruence.
Qed.

(* 1 positive vote out of 5 is none of 5 / 0 / 2: rejected *)
Example C35_ex_reject :
  let ext := {| d_verdicts := [ {| v_target := [4]; v_age := 3; v_votes := ex_votes [true; false; false; false; false] |} ];
                d_culprits := []; d_faults := [] |} in
  classify 6 1 = None /\ disputes_step ex_env ex_s ext = None.
Proof. vm_compute. split; reflexivity. Qed.

(* a history: the accepted block, then the same verdicts again (already judged: rejected, state unchanged), then an empty extrinsic *)
Example C35_ex_run :
  let b1 := {| db_env := ex_env; db_ext := ex_ext; db_fill := [(0%nat, [8])] |} in
  let b3 := {| db_env := ex_env; db_ext := {| d_verdicts := []; d_culprits := []; d_faults := [] |}; db_fill := [] |} in
  disputes_run ex_s [b1; b1; b3]
  = {| psi_g := [[0]; [1]]; psi_b := [[2]; [9]]; psi_w := [[3]]; psi_o := [[10]; [11]; [12]; [30]];
       rho := [Some [8]; Some [7]; None; None] |}.
Proof. vm_compute. reflexivity. Qed.

(* the defect repaired in the Go code: the original append-only update of psi_g / psi_b / psi_w loses sortedness *)
Example C35_append_only_refuted :
  exists prior new, ssorted prior /\ ~ ssorted (psi_update_unsorted prior new) /\ ssorted (psi_update prior new).
Proof.
  exists [[5]], [[2]]. repeat split.
  - apply strictly_sortedb_iff. reflexivity.
  - intros H. apply strictly_sortedb_iff in H. vm_compute in H. discriminate.
  - apply strictly_sortedb_iff. reflexivity.
Qed.
