(* C17 — State export/import round trip. Property theorems only (proofs: Proofs/StateKVP.v, model: Model/StateKV.v).

   The hash H and the encodings of the 16 state components, of the service information and of the
   lookup time-slot lists are universally quantified; the premises on the encodings are exactly the
   codec theorems (decode after encode on well-typed values, canonicity: C11/C13; comp_ok / sinfo_ok /
   ts_ok say which values are well-typed, take True for a total codec); the only premise on H is its
   output length.  The second half of the file instantiates all of this with the real descriptors of
   Model/JamTypes.v, the generic codec of Model/Codec.v and the Appendix D root of Model/Trie.v, the
   premises being discharged by the C11/C13/C15 theorems.
   No injectivity of H is assumed: every statement that needs it ends in "\/ coincidence H enc_ts st",
   an explicit witness among the finitely many hash inputs of the state (Model/StateKV.v: an entry whose
   key has a reserved shape, or two different inputs with the same 27-byte truncated hash). *)
From JamV Require Import Base.Bytes Model.StateKV Proofs.StateKVP.
From Coq Require Import Permutation.
Local Open Scope N_scope.

Section C17.
  Variable H : bytes -> bytes.
  Variable comp : Type.
  Variable enc_comp : N -> comp -> bytes.
  Variable dec_comp : N -> bytes -> option comp.
  Variable zero_comp : N -> comp.
  Variable sinfo : Type.
  Variable enc_info : sinfo -> bytes.
  Variable dec_info : bytes -> option sinfo.
  Variable zero_info : sinfo.
  Variable tslots : Type.
  Variable enc_ts : tslots -> bytes.
  Variable dec_ts : bytes -> option tslots.
  Variable comp_ok : N -> comp -> Prop.
  Variable sinfo_ok : sinfo -> Prop.
  Variable ts_ok : tslots -> Prop.
  Hypothesis comp_rt : forall i c, comp_ok i c -> dec_comp i (enc_comp i c) = Some c.
  Hypothesis comp_canon : forall i b c, dec_comp i b = Some c -> b = enc_comp i c /\ comp_ok i c.
  Hypothesis info_rt : forall x, sinfo_ok x -> dec_info (enc_info x) = Some x.
  Hypothesis info_canon : forall b x, dec_info b = Some x -> b = enc_info x /\ sinfo_ok x.
  Hypothesis ts_rt : forall t, ts_ok t -> dec_ts (enc_ts t) = Some t.
  Hypothesis ts_canon : forall b t, dec_ts b = Some t -> b = enc_ts t /\ ts_ok t.
  Hypothesis H_len : forall x, length (H x) = 32%nat.

  (* valid_state: the 16 components, the service informations and the lookup values are well-typed *)
  Notation valid_state := (valid_state comp sinfo tslots comp_ok sinfo_ok ts_ok).

  Notation serialize := (serialize H enc_comp enc_info enc_ts).
  Notation parse := (parse H dec_comp zero_comp dec_info zero_info dec_ts).

  (* For every well-formed state and every permutation kvs of its exported key-values: the import
     succeeds, and the parsed state exported again, together with the raw entries the import kept,
     is the same multiset of (key, value) pairs — or a hash coincidence is exhibited. *)
  Theorem C17_export_import_roundtrip : forall (st : state comp sinfo tslots) (kvs : list kv),
    wf_state enc_ts st -> valid_state st -> Permutation kvs (serialize st) ->
    (exists st' raw, parse kvs = Some (st', raw) /\ Permutation (serialize st' ++ raw) kvs)
    \/ coincidence H enc_ts st.
  Proof. exact (export_import_roundtrip H comp enc_comp dec_comp zero_comp sinfo enc_info dec_info zero_info tslots enc_ts dec_ts
                  comp_ok sinfo_ok ts_ok comp_rt comp_canon info_rt info_canon ts_rt ts_canon H_len). Qed.

  (* what the import recovers, next to the round trip: every one of the 16 components, exactly the
     services of the state, each with its service information; every raw entry is an entry of a service
     of the state (key C(s,x) for one of its hash inputs x, value one of its values) *)
  Theorem C17_import_recovers : forall (st : state comp sinfo tslots) (kvs : list kv),
    wf_state enc_ts st -> valid_state st -> Permutation kvs (serialize st) ->
    (exists st' raw, parse kvs = Some (st', raw) /\
       Permutation (serialize st' ++ raw) kvs /\
       (forall i, In i idx16 -> st_comp st' i = st_comp st i) /\
       (forall s a, In (s, a) (st_delta st) -> exists a', In (s, a') (st_delta st') /\ a_info a' = a_info a) /\
       (forall s a', In (s, a') (st_delta st') -> exists a, In (s, a) (st_delta st)) /\
       (forall k v, In (k, v) raw -> exists s a, In (s, a) (st_delta st) /\ is_entry H sinfo tslots enc_ts s a k v))
    \/ coincidence H enc_ts st.
  Proof. exact (export_import_recovers H comp enc_comp dec_comp zero_comp sinfo enc_info dec_info zero_info tslots enc_ts dec_ts
                  comp_ok sinfo_ok ts_ok comp_rt comp_canon info_rt info_canon ts_rt ts_canon H_len). Qed.

  (* hence the same state root, for any root function that is invariant under permutation (C15) *)
  Theorem C17_same_state_root : forall (R : Type) (root : list kv -> R) (st : state comp sinfo tslots) (kvs : list kv),
    (forall l l', Permutation l l' -> root l = root l') ->
    wf_state enc_ts st -> valid_state st -> Permutation kvs (serialize st) ->
    (exists st' raw, parse kvs = Some (st', raw) /\ root (serialize st' ++ raw) = root (serialize st))
    \/ coincidence H enc_ts st.
  Proof. exact (export_import_same_root H comp enc_comp dec_comp zero_comp sinfo enc_info dec_info zero_info tslots enc_ts dec_ts
                  comp_ok sinfo_ok ts_ok comp_rt comp_canon info_rt info_canon ts_rt ts_canon H_len). Qed.

  (* whatever the order of the input key-values: two orders give parsed states and raw entries that
     stand for the same key-value multiset *)
  Theorem C17_order_independent : forall (st : state comp sinfo tslots) (kvs kvs' : list kv),
    wf_state enc_ts st -> valid_state st -> Permutation kvs (serialize st) -> Permutation kvs' kvs ->
    (exists st1 raw1 st2 raw2, parse kvs = Some (st1, raw1) /\ parse kvs' = Some (st2, raw2) /\
       Permutation (serialize st1 ++ raw1) (serialize st2 ++ raw2))
    \/ coincidence H enc_ts st.
  Proof. exact (import_order_independent H comp enc_comp dec_comp zero_comp sinfo enc_info dec_info zero_info tslots enc_ts dec_ts
                  comp_ok sinfo_ok ts_ok comp_rt comp_canon info_rt info_canon ts_rt ts_canon H_len). Qed.

  (* the import side alone, for ANY key-values (not only exported ones) and any hash: if the keys are
     pairwise different, the 16 component keys are present and every parsed service has its
     service-information entry, then a successful import loses and invents nothing *)
  Theorem C17_import_export_any : forall (kvs : list kv) (st : state comp sinfo tslots) (raw : list kv),
    NoDup (map fst kvs) -> parse kvs = Some (st, raw) ->
    (forall i, In i idx16 -> In (key_fixed i) (map fst kvs)) ->
    (forall s, In s (map fst (st_delta st)) -> s < 2 ^ 32 /\ In (key_svc_idx 255 s) (map fst kvs)) ->
    Permutation (serialize st ++ raw) kvs.
  Proof. exact (import_export_any H comp enc_comp dec_comp zero_comp sinfo enc_info dec_info zero_info tslots enc_ts dec_ts
                  comp_ok sinfo_ok ts_ok comp_canon info_canon ts_canon). Qed.

  (* the exported keys of a well-formed state are pairwise different, or a coincidence is exhibited
     (the coincidence is computed by the decision procedure coll_free) *)
  Theorem C17_export_keys_distinct : forall st : state comp sinfo tslots,
    wf_state enc_ts st -> NoDup (map fst (serialize st)) \/ coincidence H enc_ts st.
  Proof. exact (export_keys_distinct H comp enc_comp zero_comp sinfo enc_info tslots enc_ts H_len). Qed.
End C17.

Print Assumptions C17_export_import_roundtrip.
Print Assumptions C17_import_recovers.
Print Assumptions C17_same_state_root.
Print Assumptions C17_order_independent.
Print Assumptions C17_import_export_any.
Print Assumptions C17_export_keys_distinct.

(* ---------------------------------------------------------------------------------------------- *)
(* Non-vacuity: identity codecs (values are their own encodings), a toy 32-byte "hash" (pad / cut),
   and a state with one service (id 7) that has a storage entry, a preimage with its lookup entry,
   and a lookup entry without preimage. *)
Definition exH (x : bytes) : bytes := firstn 32 (x ++ zeros 32).
Definition ex_blob : bytes := [5; 6; 7].
Definition ex_acc : account bytes bytes :=
  {| a_info := [42; 1];
     a_storage := [([1; 2], [9; 9])];
     a_pre := [(exH ex_blob, ex_blob)];
     a_lk := [((exH ex_blob, 3), [1; 1; 0; 0; 0]); ((exH [8], 9), [2; 2; 0; 0; 0; 3; 0; 0; 0])] |}.
Definition ex_st : state bytes bytes bytes := {| st_comp := fun i => [i; 100]; st_delta := [(7, ex_acc)] |}.
Definition ex_enc (_ : N) (c : bytes) := c.
Definition ex_dec (_ : N) (b : bytes) := Some b.
Definition ex_id (b : bytes) := b.
Definition ex_some (b : bytes) := Some b.
Definition ex_ser := serialize exH ex_enc ex_id ex_id.
Definition ex_parse := parse exH ex_dec (fun _ => []) ex_some [] ex_some.

Example C17_ex_wf : wf_state ex_id ex_st /\ coll_free exH ex_id ex_st = true /\ length (ex_ser ex_st) = 21%nat.
Proof.
  split; [|split; reflexivity].
  split; [repeat constructor; intros []|].
  repeat constructor; try (vm_compute; reflexivity).
  all: cbn; intuition discriminate.
Qed.

(* the import of the reversed export: the preimage and its lookup entry are attributed to service 7,
   the storage entry and the lookup entry without preimage are kept raw *)
Example C17_ex_parse :
  match ex_parse (rev (ex_ser ex_st)) with
  | Some (st', raw) =>
      map (fun sa => (fst sa, a_info (snd sa), a_storage (snd sa), a_pre (snd sa), a_lk (snd sa))) (st_delta st')
      = [(7, [42; 1], [], [(exH ex_blob, ex_blob)], [((exH ex_blob, 3), [1; 1; 0; 0; 0])])]
      /\ map (fun i => st_comp st' i) idx16 = map (fun i => [i; 100]) idx16
      /\ raw = [sto_kv exH 7 ([1; 2], [9; 9]); lk_kv exH ex_id 7 ((exH [8], 9), [2; 2; 0; 0; 0; 3; 0; 0; 0])]
  | None => False
  end.
Proof. vm_compute. repeat split; reflexivity. Qed.

(* the theorem applies to it (all premises hold) and yields the round trip itself, not the coincidence *)
Example C17_ex_roundtrip :
  exists st' raw, ex_parse (rev (ex_ser ex_st)) = Some (st', raw) /\ Permutation (ex_ser st' ++ raw) (rev (ex_ser ex_st)).
Proof.
  destruct C17_ex_wf as [Hwf [Hc _]].
  assert (Hlen : forall x, length (exH x) = 32%nat).
  { intros x. unfold exH. rewrite firstn_length, app_length. unfold zeros. rewrite repeat_length. lia. }
  assert (Hval : valid_state bytes bytes bytes (fun _ _ => True) (fun _ => True) (fun _ => True) ex_st).
  { split; [intros; exact I|intros; split; intros; exact I]. }
  destruct (roundtrip_no_coincidence exH bytes ex_enc ex_dec (fun _ => []) bytes ex_id ex_some [] bytes ex_id ex_some
              (fun _ _ => True) (fun _ => True) (fun _ => True)
              (fun _ _ _ => eq_refl) (fun i b c E => conj (f_equal (fun o => match o with Some x => x | None => b end) E) I)
              (fun _ _ => eq_refl) (fun b c E => conj (f_equal (fun o => match o with Some x => x | None => b end) E) I)
              (fun _ _ => eq_refl) (fun b c E => conj (f_equal (fun o => match o with Some x => x | None => b end) E) I)
              Hlen ex_st Hwf Hval (coll_free_true exH bytes bytes bytes ex_id ex_st Hc)
              (rev (ex_ser ex_st)) (Permutation_sym (Permutation_rev _))) as (st' & raw & Hp & Hr & _).
  eauto.
Qed.

(* ============================================================================================== *)
(* Instantiation with the development's concrete definitions (Proofs/StateKVInstP.v): the codecs are the
   generic strict codec of Model/Codec.v on the descriptors of the node's types (Model/JamTypes.v), their
   laws are C11_codec_roundtrip / C13_codec_canonical; the root is the Appendix D root of Model/Trie.v,
   its permutation invariance is C15_root_perm_invariant.  Nothing about codecs or the root function is
   assumed any more; the hash is still any function with 32-byte output, collisions explicit.
   A state component is a [val]; enc_of / dec_of / ok_of are the adapter documented in StateKVInstP.v. *)
From JamV Require Import Model.Codec Model.JamTypes Model.Trie Proofs.StateKVInstP.

(* for ANY well-formed descriptors of the 16 components, of the service information and of the lookup value *)
Theorem C17_desc_roundtrip_root : forall (H : bytes -> bytes), (forall x, length (H x) = 32%nat) ->
  forall (cdesc : N -> desc) (dinfo dts : desc),
  (forall i, wf_desc (cdesc i) = true) -> wf_desc dinfo = true -> wf_desc dts = true ->
  forall (zero_comp : N -> val) (zero_info : val) (st : state val val val) (kvs : list kv),
  wf_state (enc_of dts) st ->
  valid_state val val val (fun i => ok_of (cdesc i)) (ok_of dinfo) (ok_of dts) st ->
  Permutation kvs (d_serialize H cdesc dinfo dts st) ->
  (exists st' raw, d_parse H cdesc dinfo dts zero_comp zero_info kvs = Some (st', raw) /\
                   Permutation (d_serialize H cdesc dinfo dts st' ++ raw) kvs /\
                   root H (d_serialize H cdesc dinfo dts st' ++ raw) = root H (d_serialize H cdesc dinfo dts st))
  \/ coincidence H (enc_of dts) st.
Proof. exact desc_roundtrip_root. Qed.
Print Assumptions C17_desc_roundtrip_root.

(* for the node's descriptors (every parameter set p: tiny, full, ...): export, import in any order,
   export again — same key-value multiset and the same Appendix D state root, or a coincidence *)
Theorem C17_jam_roundtrip_root : forall (H : bytes -> bytes), (forall x, length (H x) = 32%nat) ->
  forall (p : params) (zero_comp : N -> val) (zero_info : val) (st : state val val val) (kvs : list kv),
  jam_wf st -> jam_valid p st -> Permutation kvs (jam_serialize H p st) ->
  (exists st' raw, jam_parse H p zero_comp zero_info kvs = Some (st', raw) /\
                   Permutation (jam_serialize H p st' ++ raw) kvs /\
                   root H (jam_serialize H p st' ++ raw) = root H (jam_serialize H p st))
  \/ jam_coincidence H st.
Proof. exact jam_roundtrip_root. Qed.
Print Assumptions C17_jam_roundtrip_root.

(* ... and the import recovers every component value, exactly the services with their service information *)
Theorem C17_jam_recovers : forall (H : bytes -> bytes), (forall x, length (H x) = 32%nat) ->
  forall (p : params) (zero_comp : N -> val) (zero_info : val) (st : state val val val) (kvs : list kv),
  jam_wf st -> jam_valid p st -> Permutation kvs (jam_serialize H p st) ->
  (exists st' raw, jam_parse H p zero_comp zero_info kvs = Some (st', raw) /\
     Permutation (jam_serialize H p st' ++ raw) kvs /\
     (forall i, In i idx16 -> st_comp st' i = st_comp st i) /\
     (forall s a, In (s, a) (st_delta st) -> exists a', In (s, a') (st_delta st') /\ a_info a' = a_info a) /\
     (forall s a', In (s, a') (st_delta st') -> exists a, In (s, a) (st_delta st)) /\
     (forall k v, In (k, v) raw -> exists s a, In (s, a) (st_delta st) /\ is_entry H val val (enc_of dTimeSlotSet) s a k v))
  \/ jam_coincidence H st.
Proof. exact jam_recovers. Qed.
Print Assumptions C17_jam_recovers.

(* the import side alone on ANY key-values with the node's descriptors: nothing lost, nothing invented,
   hence the root of what the node re-exports is the root of what it was given *)
Theorem C17_jam_import_export_any : forall (H : bytes -> bytes) (p : params) (zero_comp : N -> val) (zero_info : val)
  (kvs : list kv) (st : state val val val) (raw : list kv),
  NoDup (map fst kvs) -> jam_parse H p zero_comp zero_info kvs = Some (st, raw) ->
  (forall i, In i idx16 -> In (key_fixed i) (map fst kvs)) ->
  (forall s, In s (map fst (st_delta st)) -> s < 2 ^ 32 /\ In (key_svc_idx 255 s) (map fst kvs)) ->
  Permutation (jam_serialize H p st ++ raw) kvs /\ root H (jam_serialize H p st ++ raw) = root H kvs.
Proof. exact jam_import_export_any. Qed.
Print Assumptions C17_jam_import_export_any.

(* the component index -> descriptor table is the node's: D.2 order *)
Example C17_jam_descs : forall p,
  state_desc p 1 = dAuthPools p /\ state_desc p 4 = dSafroleState p /\ state_desc p 11 = dTimeSlot /\
  state_desc p 13 = dStatistics p /\ state_desc p 16 = dLastAccOut /\ map (state_desc p) idx16 = state_descs p.
Proof. intros p. repeat split; reflexivity. Qed.

(* Non-vacuity with the real codec, tiny parameters, the toy hash exH: every component is the simplest
   well-typed value of its descriptor except tau = 77 and one pool entry; service 7 has a real
   service-information value, a storage entry, the preimage "5 6 7" with its lookup entry (two time
   slots) and a lookup entry without preimage. *)
Fixpoint dflt (d : desc) : val :=
  match d with
  | DU _ | DNat _ | DBits _ => VN 0
  | DFix n => VB (zeros n)
  | DBlob | DBlob2 => VB []
  | DSeq _ _ | DMap _ _ => VL []
  | DVec n d' => VL (repeat (dflt d') n)
  | DOpt _ => VO None
  | DVar alts => match alts with (t, d') :: _ => VT t (dflt d') | [] => VN 0 end
  | DStruct ds => VL (map dflt ds)
  end.
Definition jex_comp (i : N) : val :=
  if i =? 11 then VN 77
  else if i =? 1 then VL [VL [VB (repeat 3 32)]; VL []]
  else dflt (state_desc tiny i).
Definition jex_acc : account val val :=
  {| a_info := VL [VN 0; VB (repeat 9 32); VN 1000; VN 10; VN 20; VN 300; VN 0; VN 4; VN 1; VN 2; VN 0];
     a_storage := [([1; 2], [9; 9])];
     a_pre := [(exH ex_blob, ex_blob)];
     a_lk := [((exH ex_blob, 3), VL [VN 5; VN 6]); ((exH [8], 9), VL [])] |}.
Definition jex_st : state val val val := {| st_comp := jex_comp; st_delta := [(7, jex_acc)] |}.

Example C17_jam_ex_premises :
  jam_wf jex_st /\ jam_valid tiny jex_st /\ jam_coll_free exH jex_st = true /\ length (jam_serialize exH tiny jex_st) = 21%nat.
Proof.
  split; [|split; [|split; vm_compute; reflexivity]].
  - split; [repeat constructor; intros []|].
    repeat constructor; try (vm_compute; reflexivity).
    all: cbn; intuition discriminate.
  - split.
    + intros i Hi. unfold idx16 in Hi. cbn [In] in Hi. unfold ok_of.
      repeat (destruct Hi as [<-|Hi]; [vm_compute; reflexivity|]). contradiction.
    + intros s a [[= <- <-]|[]]. split; [vm_compute; reflexivity|].
      intros e [<-|[<-|[]]]; vm_compute; reflexivity.
Qed.

Example C17_jam_ex_roundtrip :
  exists st' raw, jam_parse exH tiny (fun _ => VN 0) (VN 0) (rev (jam_serialize exH tiny jex_st)) = Some (st', raw) /\
    Permutation (jam_serialize exH tiny st' ++ raw) (rev (jam_serialize exH tiny jex_st)) /\
    root exH (jam_serialize exH tiny st' ++ raw) = root exH (jam_serialize exH tiny jex_st).
Proof.
  destruct C17_jam_ex_premises as (Hwf & Hval & Hc & _).
  assert (Hlen : forall x, length (exH x) = 32%nat).
  { intros x. unfold exH. rewrite firstn_length, app_length. unfold zeros. rewrite repeat_length. lia. }
  exact (jam_roundtrip_decided exH Hlen tiny (fun _ => VN 0) (VN 0) jex_st _ Hwf Hval Hc
           (Permutation_sym (Permutation_rev _))).
Qed.

(* computed: the real codec decodes every exported value, the preimage and its lookup entry are attributed,
   tau and the service information come back, two entries stay raw *)
Example C17_jam_ex_parse :
  match jam_parse exH tiny (fun _ => VN 0) (VN 0) (rev (jam_serialize exH tiny jex_st)) with
  | Some (st', raw) =>
      st_comp st' 11 = VN 77 /\ map (st_comp st') idx16 = map jex_comp idx16 /\
      map (fun sa => (fst sa, a_info (snd sa), a_pre (snd sa), a_lk (snd sa))) (st_delta st')
      = [(7, a_info jex_acc, [(exH ex_blob, ex_blob)], [((exH ex_blob, 3), VL [VN 5; VN 6])])] /\
      length raw = 2%nat
  | None => False
  end.
Proof. vm_compute. repeat split; reflexivity. Qed.
