(* C05 — guest memory protection.  Property theorems only (Model/PvmMem.v, PvmStep.v, PvmRun.v). *)
From JamV Require Import Model.PvmRun Proofs.PvmCodeP Proofs.PvmMemP Proofs.PvmAluP Proofs.PvmStepP
     Proofs.PvmRunP Proofs.PvmExamplesP.
Local Open Scope Z_scope.

(* a load succeeds only if every byte it touches is readable and at or above 2^16, and then returns
   exactly those bytes *)
Theorem C05_load_only_readable : forall m a n v, load m a n = MOk v ->
  (forall x, In x (addrs a n) -> LOW <= x /\ readable m x = true) /\
  v = le_val (map (rd_byte m) (addrs a n)).
Proof. exact load_only_readable. Qed.
Print Assumptions C05_load_only_readable.

(* a store succeeds only if every byte it touches is writable and at or above 2^16 *)
Theorem C05_store_only_writable : forall m a n v m', store m a n v = MOk m' ->
  (forall x, In x (addrs a n) -> LOW <= x /\ writable m x = true) /\ m' = wr_bytes m (addrs a n) v.
Proof. exact store_only_writable. Qed.
Print Assumptions C05_store_only_writable.

(* any access touching an address below 2^16 panics (addresses are taken mod 2^32, so this includes
   accesses running past the top of the address space) *)
Theorem C05_low_address_panics : forall m a n v,
  (exists x, In x (addrs a n) /\ x < LOW) -> load m a n = MPanic /\ store m a n v = MPanic.
Proof. exact low_address_panics. Qed.
Print Assumptions C05_low_address_panics.

(* the property's low-address rule is the Gray Paper's whenever nothing below 2^16 is accessible *)
Theorem C05_low_rule_is_gp : forall ok m a n,
  (forall x, 0 <= x < LOW -> ok m x = false) -> check_gp ok m a n = check ok m a n.
Proof. exact check_gp_agrees. Qed.
Print Assumptions C05_low_rule_is_gp.

(* a faulting access changes neither registers (incl. the destination) nor memory *)
Theorem C05_fault_preserves : forall p pc s a pc' s', step p pc s = (Fault a, pc', s') ->
  pc' = pc /\ regs s' = regs s /\ mem s' = mem s /\ gas s' = gas s - 1 /\
  exists lo w, access_of (instr_of (opcode_at p pc)) (decode p pc) (regs s) = Some (lo, w) /\
               PAGE * (lo / PAGE) <= a <= lo + Z.of_nat w - 1.
Proof. exact step_fault. Qed.
Print Assumptions C05_fault_preserves.

(* nor does a panicking one *)
Theorem C05_panic_preserves : forall p pc s pc' s',
  is_mem_instr (instr_of (opcode_at p pc)) = true -> step p pc s = (Panic, pc', s') ->
  regs s' = regs s /\ mem s' = mem s.
Proof. exact step_mem_panic. Qed.
Print Assumptions C05_panic_preserves.

(* a store is all-or-nothing across pages: it happens iff EVERY touched byte is writable ... *)
Theorem C05_cross_page_atomic : forall m a n v,
  (exists m', store m a n v = MOk m') <->
  (forall x, In x (addrs a n) -> LOW <= x /\ writable m x = true).
Proof. exact store_all_or_nothing. Qed.
Print Assumptions C05_cross_page_atomic.

(* ... and then writes exactly the n little-endian bytes, nothing else: other bytes, every access
   class, the set of mapped pages and the heap pointers are untouched *)
Theorem C05_store_effect : forall m a n v m', Z.of_nat n <= ADDR -> store m a n v = MOk m' ->
  (forall i, (i < n)%nat -> rd_byte m' ((a + Z.of_nat i) mod ADDR) = (v / 256 ^ Z.of_nat i) mod 256) /\
  (forall x, ~ In x (addrs a n) -> rd_byte m' x = rd_byte m x) /\
  (forall x, acc_at m' x = acc_at m x) /\ (forall i, mapped m' i = mapped m i) /\
  m_hp m' = m_hp m /\ m_hl m' = m_hl m.
Proof. exact store_effect. Qed.
Print Assumptions C05_store_effect.

(* the heap grows only through sbrk: every other instruction leaves the mapped pages, all access
   classes and the heap pointer as they were *)
Theorem C05_sbrk_only_growth : forall p pc s e pc' s',
  instr_of (opcode_at p pc) <> ISbrk -> step p pc s = (e, pc', s') ->
  (forall i, mapped (mem s') i = mapped (mem s) i) /\ (forall x, acc_at (mem s') x = acc_at (mem s) x) /\
  m_hp (mem s') = m_hp (mem s).
Proof. exact step_pages. Qed.
Print Assumptions C05_sbrk_only_growth.

(* over any instruction sequence: the limit (stack boundary) is constant, the heap pointer only
   moves up and never passes the limit *)
Theorem C05_sbrk_le_limit : forall fuel p pc s e pc' s',
  wf_code p -> wf_st s -> run fuel p pc s = Some (e, pc', s') ->
  m_hl (mem s') = m_hl (mem s) /\ m_hp (mem s) <= m_hp (mem s') /\ (heap_ok (mem s) -> heap_ok (mem s')).
Proof. exact run_heap. Qed.
Print Assumptions C05_sbrk_le_limit.

Theorem C05_sbrk_le_limit_steps : forall n p pc s pc' s',
  wf_code p -> wf_st s -> nsteps n p pc s = Some (pc', s') ->
  m_hl (mem s') = m_hl (mem s) /\ m_hp (mem s) <= m_hp (mem s') /\ (heap_ok (mem s) -> heap_ok (mem s')).
Proof. exact nsteps_heap. Qed.
Print Assumptions C05_sbrk_le_limit_steps.

(* pages are never unmapped, and a page that appears is read-write and reads as zero everywhere *)
Theorem C05_sbrk_pages_zero : forall p pc s e pc' s' i,
  step p pc s = (e, pc', s') ->
  match get_page (mem s) i with
  | Some pg => mapped (mem s') i = true
  | None => get_page (mem s') i = None \/ get_page (mem s') i = Some zero_page
  end.
Proof. exact step_sbrk_pages. Qed.
Print Assumptions C05_sbrk_pages_zero.

Theorem C05_zero_page_reads_zero : forall m i x, get_page m i = Some zero_page -> x / PAGE = i -> rd_byte m x = 0.
Proof. exact rd_byte_zero_page. Qed.
Print Assumptions C05_zero_page_reads_zero.

(* ---- non-vacuity ---- *)
(* a 4-byte store over the RW page 16 / RO page 17 boundary: page fault, nothing written *)
Example C05_ex_cross : step p_store_cross 0 (st0 10) = (Fault 69632, 0, st0 9).
Proof. vm_compute. reflexivity. Qed.
(* a load below 2^16 panics and leaves the destination register alone *)
Example C05_ex_low : step p_load_low 0 (st0 10) = (Panic, 0, st0 9).
Proof. vm_compute. reflexivity. Qed.
(* loads of readable pages succeed (RO page 17 holds 0x22 at offset 0); stores to it do not *)
Example C05_ex_ro : load mem0 69632 1 = MOk 34 /\ store mem0 69632 1 7 = MFault 69632 /\
                    (exists m', store mem0 65536 2 513 = MOk m' /\ rd_byte m' 65536 = 1 /\ rd_byte m' 65537 = 2).
Proof. split; [reflexivity|split; [reflexivity|]]. eexists. split; [reflexivity|]. vm_compute. split; reflexivity. Qed.
(* sbrk 4096 from heap pointer 0x21000 (limit 0x22000): returns 0x22000, maps page 33 zero-filled;
   a second request would pass the limit and returns 0 *)
Example C05_ex_sbrk :
  fst (sbrk mem0 4096) = 139264 /\ get_page (snd (sbrk mem0 4096)) 33 = Some zero_page /\
  fst (sbrk (snd (sbrk mem0 4096)) 1) = 0 /\ heap_ok mem0 /\ heap_ok (snd (sbrk mem0 4096)).
Proof. vm_compute. repeat split; try reflexivity; discriminate. Qed.
Example C05_ex_sbrk_run :
  match run 10 p_sbrk 0 (st0 10) with
  | Some (Panic, _, s') => m_hp (mem s') = 139264 /\ greg (regs s') 3 = 139264
  | _ => False
  end.
Proof. vm_compute. split; reflexivity. Qed.

(* ---- the range test host calls apply before reading / writing guest memory ---- *)
From JamV Require Import Model.PvmRange Proofs.PvmRangeP.

(* a non-empty range is accepted for reading exactly when it lies inside the 32-bit space and every address in
   it — including those of a last, partial page — is readable; likewise for writing *)
Theorem C05_range_readable_iff : forall m start len, 0 <= start -> 0 < len ->
  (range_ok readable m start len = true <->
   start + len <= ADDR /\ forall a, start <= a < start + len -> readable m a = true).
Proof. exact range_readable_iff. Qed.
Print Assumptions C05_range_readable_iff.

Theorem C05_range_writable_iff : forall m start len, 0 <= start -> 0 < len ->
  (range_ok writable m start len = true <->
   start + len <= ADDR /\ forall a, start <= a < start + len -> writable m a = true).
Proof. exact range_writable_iff. Qed.
Print Assumptions C05_range_writable_iff.
