(* C27 — Database providers implement one key-value semantics. Property theorems only.
   Model: Model/KV.v (sorted association list, buffered batches, prefix/start iteration, whole histories).
   All statements hold for every history (list of operations), including ill-formed ones (operations
   addressed to batches that do not exist or are finished are answered OBad and change nothing). *)
From JamV Require Import Base.Bytes Model.KV Proofs.KVP.
From Coq Require Import Sorted.
Local Open Scope N_scope.

(* store invariant: every operation keeps the keys strictly ascending ... *)
Theorem C27_store_inv_step : forall (s : kstate) op,
  sorted (st_store s) -> sorted (st_store (kv_step_state s op)).
Proof. exact step_sorted. Qed.
Print Assumptions C27_store_inv_step.

(* ... hence after any history the keys are strictly ascending and free of duplicates *)
Theorem C27_store_inv : forall ops,
  StronglySorted bytes_lt (map fst (store_of ops)) /\ NoDup (map fst (store_of ops)).
Proof. exact store_inv. Qed.
Print Assumptions C27_store_inv.

(* refinement: after any history, lookup in the sorted list = the abstract function map obtained by
   replaying the committed write log = the value of the latest committed write to that key *)
Theorem C27_kv_refines_map : forall ops k,
  s_get (store_of ops) k = amap_of (committed ops) k /\
  amap_of (committed ops) k = last_write k (committed ops).
Proof. exact kv_refines_map. Qed.
Print Assumptions C27_kv_refines_map.

(* what the committed log is: a direct Put/Delete appends itself, ... *)
Theorem C27_committed_put : forall ops k v, committed (ops ++ [Put k v]) = committed ops ++ [WPut k v].
Proof. exact committed_put. Qed.
Print Assumptions C27_committed_put.

Theorem C27_committed_del : forall ops k, committed (ops ++ [Del k]) = committed ops ++ [WDel k].
Proof. exact committed_del. Qed.
Print Assumptions C27_committed_del.

(* ... reads, iteration, batch creation, buffering into a batch and closing a batch append nothing *)
Theorem C27_committed_other : forall ops op,
  match op with Put _ _ | Del _ | BCommit _ => False | _ => True end ->
  committed (ops ++ [op]) = committed ops.
Proof. exact committed_other. Qed.
Print Assumptions C27_committed_other.

(* reads see the latest committed write, at any position of any history *)
Theorem C27_get_latest : forall pre post k,
  nth (length pre) (kv_run (pre ++ Get k :: post)) OBad = OVal (last_write k (committed pre)).
Proof. exact get_latest. Qed.
Print Assumptions C27_get_latest.

Theorem C27_has_latest : forall pre post k,
  nth (length pre) (kv_run (pre ++ Has k :: post)) OBad =
  OBool (match last_write k (committed pre) with Some _ => true | None => false end).
Proof. exact has_latest. Qed.
Print Assumptions C27_has_latest.

(* batch atomicity, part 1: a batch that is never committed (still open, or closed = discarded) is
   invisible: deleting every write addressed to it from the history leaves the result of every other
   operation (reads, iterations, other batches, ...) and the final store unchanged *)
Theorem C27_batch_atomic_uncommitted : forall b ops,
  (forall op, In op ops -> is_commit b op = false) ->
  filter (fun p => not_bwrite b (fst p)) (obs ops) = obs (filter (not_bwrite b) ops)
  /\ store_of ops = store_of (filter (not_bwrite b) ops).
Proof. exact batch_uncommitted_invisible. Qed.
Print Assumptions C27_batch_atomic_uncommitted.

(* batch atomicity, part 2: the batch created right after [pre] (its index is the number of batches
   created in [pre]), used in [post] interleaved with anything else but neither committed nor closed
   there, applies on commit exactly the writes addressed to it in [post], all of them, in order *)
Theorem C27_batch_atomic_commit : forall pre post b,
  count_new pre = b -> (forall op, In op post -> is_finish b op = false) ->
  store_of (pre ++ NewBatch :: post ++ [BCommit b]) =
    fold_left s_apply (bwrites b post) (store_of (pre ++ NewBatch :: post))
  /\ committed (pre ++ NewBatch :: post ++ [BCommit b]) =
    committed (pre ++ NewBatch :: post) ++ bwrites b post.
Proof. exact batch_commit_in_order. Qed.
Print Assumptions C27_batch_atomic_commit.

(* iteration, at any position of any history: the result holds exactly the bindings (k, v) such that v is
   the latest committed write to k, prefix is a prefix of k and k >= prefix ++ start; keys strictly
   ascending in byte order; no key twice *)
Theorem C27_iter_spec : forall pre post p st,
  exists l, nth (length pre) (kv_run (pre ++ Iter p st :: post)) OBad = OList l
    /\ (forall k v, In (k, v) l <->
          (last_write k (committed pre) = Some v /\ is_prefix p k = true /\ bytes_leb (p ++ st) k = true))
    /\ StronglySorted bytes_lt (map fst l)
    /\ NoDup (map fst l).
Proof. exact iter_spec. Qed.
Print Assumptions C27_iter_spec.

(* ... which determines the key sequence completely *)
Theorem C27_iter_unique : forall l1 l2 : list bytes,
  StronglySorted bytes_lt l1 -> StronglySorted bytes_lt l2 -> (forall x, In x l1 <-> In x l2) -> l1 = l2.
Proof. exact lt_sorted_unique. Qed.
Print Assumptions C27_iter_unique.

(* results of earlier operations never depend on later ones *)
Theorem C27_run_prefix : forall a b, kv_run (a ++ b) = kv_run a ++ kv_run_from (kv_state a) b.
Proof. exact kv_run_app. Qed.
Print Assumptions C27_run_prefix.

(* ---------------------------------------------------------------------------------------------- *)
(* non-vacuity *)
Definition ka : bytes := [97]. Definition kab : bytes := [97; 98]. Definition kac : bytes := [97; 99].
Definition kb : bytes := [98].

(* a history with two batches alive at once, one committed and one discarded *)
Definition ex_hist : list kop :=
  [Put kab [1]; NewBatch; NewBatch; BPut 0 kac [2]; BPut 1 kb [3]; BDel 0 kab; Get kac; Get kab;
   BCommit 0; Get kac; Get kab; BClose 1; Get kb; BPut 0 ka [9]; Put kb [4]; Iter ka [98; 98]; Iter [] []].
Example C27_ex_run : kv_run ex_hist =
  [OUnit; OBatch 0; OBatch 1; OUnit; OUnit; OUnit; OVal None; OVal (Some [1]);
   OUnit; OVal (Some [2]); OVal None; OUnit; OVal None; OBad; OUnit;
   OList [(kac, [2])]; OList [(kac, [2]); (kb, [4])]].
Proof. vm_compute. reflexivity. Qed.

Example C27_ex_committed : committed ex_hist = [WPut kab [1]; WPut kac [2]; WDel kab; WPut kb [4]].
Proof. vm_compute. reflexivity. Qed.

(* hypotheses of the commit theorem are met by a non-trivial history: batch 1 is created after a history that
   already created batch 0, is interleaved with direct writes and with batch 0, and buffers three writes *)
Example C27_ex_commit_hyp :
  let pre := [Put kab [1]; NewBatch; BPut 0 kb [5]] in
  let post := [BPut 1 ka [6]; Put kb [7]; BPut 0 kac [8]; BDel 1 kab; BCommit 0; BPut 1 kb [9]; Get ka] in
  count_new pre = 1%nat /\ forallb (fun op => negb (is_finish 1 op)) post = true /\
  bwrites 1 post = [WPut ka [6]; WDel kab; WPut kb [9]] /\
  store_of (pre ++ NewBatch :: post) = [(kab, [1]); (kac, [8]); (kb, [5])] /\
  store_of (pre ++ NewBatch :: post ++ [BCommit 1%nat]) = [(ka, [6]); (kac, [8]); (kb, [9])].
Proof. vm_compute. repeat split; reflexivity. Qed.

(* hypotheses of the uncommitted theorem: batch 0 is written to and then discarded; dropping its writes changes
   nothing that is observed *)
Example C27_ex_uncommitted_hyp :
  let ops := [Put kab [1]; NewBatch; BPut 0 kab [2]; BDel 0 kb; Get kab; BClose 0; Iter [] []] in
  forallb (fun op => negb (is_commit 0 op)) ops = true /\
  filter (not_bwrite 0) ops = [Put kab [1]; NewBatch; Get kab; BClose 0; Iter [] []] /\
  kv_run ops = [OUnit; OBatch 0; OUnit; OUnit; OVal (Some [1]); OUnit; OList [(kab, [1])]].
Proof. vm_compute. repeat split; reflexivity. Qed.

(* the range predicate is not "key has prefix (prefix ++ start)": prefix a, start bb selects ac.
   (The memory and Redis providers as found filtered with HasPrefix(key, prefix ++ start) and returned nothing.) *)
Example C27_ex_range :
  in_range ka [98; 98] kac = true /\ is_prefix (ka ++ [98; 98]) kac = false /\
  in_range ka [98; 98] kab = false /\ in_range ka [98; 98] kb = false.
Proof. vm_compute. repeat split; reflexivity. Qed.
