(* C07 — Host-call register, memory and error discipline. Property theorems only.
   S = Model/HostCalls.v: one function per host call of Gray Paper v0.7.2 Appendix B over 13 registers, gas, guest
   memory (page-access map + bytes) and an abstract accumulate / refine context.  [acc_call] ranges over the calls of
   the accumulate table (gas fetch lookup read write info log bless assign designate checkpoint new upgrade transfer
   eject query solicit forget yield provide + the answer to an identifier without entry), [ref_call] over the modelled
   calls of the refine / is-authorized tables (gas fetch historical_lookup export log + unknown).
   machine, peek, poke, pages, invoke, expunge: second half of this file, over the C33 model Model/InnerVm.v. *)
(* Model/InnerVm.v (the six inner-machine calls, second half of this file) is imported FIRST, so that the names it shares with
   Model/HostCalls.v - memory, range_ok, readable, writable - mean HostCalls' in the first half; the second half qualifies them. *)
From JamV Require Import Model.InnerVm Proofs.InnerVmSpec Proofs.HostCallsInnerP.
From JamV Require Import Base.Bytes Model.Accounts Model.AccCalls Model.HostCalls Proofs.HostCallsMemP Proofs.HostCallsP.
Local Open Scope N_scope.

(* the page loop the calls use to test a range IS the pointwise predicate: the range is empty, or it ends at or below
   2^32 and every address of it lies on a page whose access satisfies P (readable: not inaccessible; writable: read-write) *)
Theorem C07_range_check_exact : forall P m o l,
  range_ok P m o l = true <->
  (l = 0 \/ (o + l <= two32 /\ forall a, o <= a < o + l -> P (m_acc m (a / ZP)) = true)).
Proof. exact range_ok_spec. Qed.
Print Assumptions C07_range_check_exact.

(* hc_frame. For every call, every 13 registers, gas, memory and context:
   - registers: only register 7 may differ afterwards (register 8 as well for query);
   - memory: page accesses never change; no byte outside [o, o+l) changes, where o is the call's destination register and
     l its length register (fetch w7/w9, lookup w9/w11, read w10/w12, info w8/w10; no byte at all for the other calls);
   - context: only the fields the Gray Paper assigns to the call ([acc_ctx_frame]): nothing for gas fetch lookup read info
     log query and unknown identifiers; y := x for checkpoint; for write solicit forget upgrade only the caller's own
     account; transfer the caller's account and one appended deferred transfer (sender, receiver, amount, gas as in the
     registers); eject the caller's and the ejected account; new the caller's, the new account and the next identifier;
     bless only the privileges; assign only queue and assigner of core w7; designate only the validator keys; yield only
     the yield; provide only one appended preimage; never the exceptional context y (except checkpoint). *)
Theorem C07_hc_frame : forall H e c rg g m st, length rg = 13%nat ->
  (length (r_regs (acc_call H e c rg g m st)) = 13%nat /\
   forall i, i <> 7%nat -> (i <> 8%nat \/ c <> CQuery) -> nth i (r_regs (acc_call H e c rg g m st)) 0 = nth i rg 0) /\
  ((forall p, m_acc (mem_after m (acc_call H e c rg g m st)) p = m_acc m p) /\
   (forall a, match acc_dest c rg with Some (o, l) => ~ (o <= a < o + l) | None => True end ->
              m_byte (mem_after m (acc_call H e c rg g m st)) a = m_byte m a)) /\
  acc_ctx_frame e c rg st (r_ctx (acc_call H e c rg g m st)).
Proof. exact hc_frame_acc. Qed.
Print Assumptions C07_hc_frame.

Theorem C07_hc_frame_refine : forall e c rg g m st, length rg = 13%nat ->
  (length (r_regs (ref_call e c rg g m st)) = 13%nat /\
   forall i, i <> 7%nat -> nth i (r_regs (ref_call e c rg g m st)) 0 = nth i rg 0) /\
  ((forall p, m_acc (mem_after m (ref_call e c rg g m st)) p = m_acc m p) /\
   (forall a, match ref_dest c rg with Some (o, l) => ~ (o <= a < o + l) | None => True end ->
              m_byte (mem_after m (ref_call e c rg g m st)) a = m_byte m a)) /\
  ref_ctx_frame c st (r_ctx (ref_call e c rg g m st)).
Proof. exact hc_frame_ref. Qed.
Print Assumptions C07_hc_frame_refine.

(* hc_write_after_check. (1) Whatever is written was checked first: the written range starts at the destination register,
   is no longer than the length register, and EVERY address of it is below 2^32 on a read-write page. (2) A call that does
   not continue (panic, out of gas) wrote nothing and left registers and context alone. (3) A value-delivering call that
   continues with a length |v| in register 7 wrote exactly min(l, |v| - min(f, |v|)) octets; hence when that window is
   not wholly writable the call can only panic (or answer NONE when there is no value). *)
Theorem C07_hc_write_after_check : forall H e c rg g m st, length rg = 13%nat ->
  (forall o d, r_write (acc_call H e c rg g m st) = Some (o, d) ->
     r_exit (acc_call H e c rg g m st) = EContinue /\ range_spec can_write m o (blen d) /\
     exists l, acc_dest c rg = Some (o, l) /\ blen d <= l) /\
  (r_exit (acc_call H e c rg g m st) <> EContinue ->
     r_write (acc_call H e c rg g m st) = None /\ r_regs (acc_call H e c rg g m st) = rg /\
     r_ctx (acc_call H e c rg g m st) = st) /\
  (forall o l, acc_dest c rg = Some (o, l) -> r_exit (acc_call H e c rg g m st) = EContinue ->
     nth 7 (r_regs (acc_call H e c rg g m st)) 0 <> NONE ->
     exists d, r_write (acc_call H e c rg g m st) = Some (o, d) /\ range_spec can_write m o (blen d) /\
       blen d = N.min l (nth 7 (r_regs (acc_call H e c rg g m st)) 0 -
                         N.min (acc_off c rg) (nth 7 (r_regs (acc_call H e c rg g m st)) 0))).
Proof. exact hc_write_after_check_acc. Qed.
Print Assumptions C07_hc_write_after_check.

Theorem C07_hc_write_after_check_refine : forall e c rg g m st, length rg = 13%nat ->
  (forall o d, r_write (ref_call e c rg g m st) = Some (o, d) ->
     r_exit (ref_call e c rg g m st) = EContinue /\ range_spec can_write m o (blen d) /\
     exists l, ref_dest c rg = Some (o, l) /\ blen d <= l) /\
  (r_exit (ref_call e c rg g m st) <> EContinue ->
     r_write (ref_call e c rg g m st) = None /\ r_regs (ref_call e c rg g m st) = rg /\
     r_ctx (ref_call e c rg g m st) = st) /\
  (forall o l, ref_dest c rg = Some (o, l) -> r_exit (ref_call e c rg g m st) = EContinue ->
     nth 7 (r_regs (ref_call e c rg g m st)) 0 <> NONE ->
     exists d, r_write (ref_call e c rg g m st) = Some (o, d) /\ range_spec can_write m o (blen d) /\
       blen d = N.min l (nth 7 (r_regs (ref_call e c rg g m st)) 0 -
                         N.min (ref_off c rg) (nth 7 (r_regs (ref_call e c rg g m st)) 0))).
Proof. exact hc_write_after_check_ref. Qed.
Print Assumptions C07_hc_write_after_check_refine.

(* hc_unreadable_panics_clean. [acc_inputs] / [ref_inputs] list the input ranges each call requires (lookup: the hash;
   read: the key; write: key and value; bless: the assigner list and the always-accumulate table; assign: the queue;
   designate: the keys; new upgrade query solicit forget yield eject: the 32-octet hash; transfer: the memo; provide: the
   preimage; historical_lookup: the hash; export: the segment).  If any of them is not wholly readable (some address at or
   above 2^32 or on an inaccessible page) and the 10 gas can be paid, the result is: panic, registers unchanged, gas
   charged 10, nothing written, context unchanged.  [new] also panics on a code length >= 2^32. *)
Theorem C07_hc_unreadable_panics_clean : forall H e c rg g m st o l,
  (0 <= g - 10)%Z -> In (o, l) (acc_inputs e c rg) -> ~ range_spec can_read m o l ->
  acc_call H e c rg g m st = mkRes EPanic rg (g - 10)%Z None st.
Proof. exact hc_unreadable_panics_clean_acc. Qed.
Print Assumptions C07_hc_unreadable_panics_clean.

Theorem C07_hc_unreadable_panics_clean_refine : forall e c rg g m st o l,
  (0 <= g - 10)%Z -> In (o, l) (ref_inputs c rg) -> ~ range_spec can_read m o l ->
  ref_call e c rg g m st = mkRes EPanic rg (g - 10)%Z None st.
Proof. exact hc_unreadable_panics_clean_ref. Qed.
Print Assumptions C07_hc_unreadable_panics_clean_refine.

Theorem C07_new_long_code_panics : forall H e rg g m st,
  (0 <= g - 10)%Z -> two32 <= reg rg 8 -> acc_call H e CNew rg g m st = mkRes EPanic rg (g - 10)%Z None st.
Proof. exact new_long_code_panics. Qed.
Print Assumptions C07_new_long_code_panics.

(* hc_error_no_state_change. Whenever register 7 holds one of NONE WHAT OOB WHO FULL CORE CASH LOW HUH after a call, both
   contexts are exactly what they were - for every call, with one exception the Gray Paper itself makes: [write] answers
   NONE ("no previous value") while storing a new key.  [acc_bounded]: the context is of machine size (gas < 2^63, next
   identifier and stored value lengths < 2^32), so that a returned length / identifier / gas counter cannot coincide with
   a code. *)
Theorem C07_hc_error_no_state_change : forall H e c rg g m st, length rg = 13%nat -> acc_bounded e g st ->
  In (nth 7 (r_regs (acc_call H e c rg g m st)) 0) error_codes ->
  ~ (c = CWrite /\ nth 7 (r_regs (acc_call H e c rg g m st)) 0 = NONE) ->
  r_ctx (acc_call H e c rg g m st) = st.
Proof. exact acc_error_no_change. Qed.
Print Assumptions C07_hc_error_no_state_change.

Theorem C07_hc_error_no_state_change_refine : forall e c rg g m st, length rg = 13%nat ->
  In (nth 7 (r_regs (ref_call e c rg g m st)) 0) error_codes -> r_ctx (ref_call e c rg g m st) = st.
Proof. exact ref_error_no_change. Qed.
Print Assumptions C07_hc_error_no_state_change_refine.

(* hc_unknown_is_what. The tables send exactly the identifiers outside their defined sets to the unknown-call answer
   (identifiers are arbitrary naturals, so every value of the sign-extended 64-bit immediate is covered); that answer
   charges 10 gas, puts WHAT in register 7 and changes nothing else (out of gas when the 10 cannot be paid). *)
Theorem C07_hc_unknown_is_what :
  (forall id, acc_table id = CUnknown <-> ~ In id acc_defined) /\
  (forall id, ref_table id = Some RUnknown <-> ~ In id ref_defined) /\
  (forall id, auth_table id = RUnknown <-> ~ In id auth_defined) /\
  (forall (C : Type) rg g m (st : C), length rg = 13%nat ->
     ((0 <= g - 10)%Z ->
        r_exit (hc_unknown rg g m st) = EContinue /\ r_gas (hc_unknown rg g m st) = (g - 10)%Z /\
        nth 7 (r_regs (hc_unknown rg g m st)) 0 = WHAT /\
        (forall i, i <> 7%nat -> nth i (r_regs (hc_unknown rg g m st)) 0 = nth i rg 0) /\
        r_write (hc_unknown rg g m st) = None /\ r_ctx (hc_unknown rg g m st) = st) /\
     ((g - 10 < 0)%Z -> hc_unknown rg g m st = mkRes EOOG rg (g - 10)%Z None st)).
Proof. exact hc_unknown_is_what. Qed.
Print Assumptions C07_hc_unknown_is_what.

(* the identifier classes: small undefined ones, the refine calls seen from the accumulate table, and EVERYTHING above
   100 - in particular every identifier > 255 and every sign-extended (>= 2^63) one *)
Theorem C07_unknown_classes : forall id,
  ((6 <= id <= 13 \/ 27 <= id <= 99 \/ 101 <= id) -> acc_table id = CUnknown) /\
  ((2 <= id <= 5 \/ 14 <= id <= 99 \/ 101 <= id) -> ref_table id = Some RUnknown) /\
  ((2 <= id <= 99 \/ 101 <= id) -> auth_table id = RUnknown).
Proof. exact (fun id => conj (acc_unknown_classes id) (conj (ref_unknown_classes id) (auth_unknown_classes id))). Qed.
Print Assumptions C07_unknown_classes.

(* ---- non-vacuity: a concrete machine state on which the hypotheses hold and the calls do something ---- *)
Definition ex_mem : memory :=
  mkMem (fun p => if p =? 32 then RW else if p =? 33 then RO else Inacc) (fun a => a mod 251).
Definition ex_self : account := mkAcct (repeat 7 32) 1000 5 6 39 1 0 1 2 3 [([50; 51], [9; 9; 9])] [] [].
Definition ex_other : account := mkAcct (repeat 8 32) 500 0 20 0 0 0 1 2 3 [] [] [].
Definition ex_x : actx :=
  mkActx (mkCtx [(100, ex_self); (200, ex_other)] [] 70000) (mkPrivs 100 [100; 7] 100 100 []) [[]; []] [] None [].
Definition ex_st : astate := (ex_x, ex_x).
Definition ex_env : henv := mkHenv 100 50 32 2 80 6 [] (Some [1; 2; 3; 4; 5]) [(100, Some [4; 4])] 0.
Definition idh (b : bytes) : bytes := b.
Definition rgs (a b c d f g : N) : list N := [900; 901; 902; 903; 904; 905; 906; a; b; c; d; f; g].
Definition show {C} (r : result C) := (r_exit r, r_regs r, r_gas r, r_write r).

(* read of the caller's key (the two octets at 131072 = page 32) into page 32: value length 3 in register 7, window
   [1, 1+2) written, every other register kept, 10 gas charged *)
Example ex_read_ok :
  show (acc_call idh ex_env CRead (rgs NONE 131072 2 131100 1 5) 100 ex_mem ex_st)
  = (EContinue, rgs 3 131072 2 131100 1 5, 90%Z, Some (131100, [9; 9])).
Proof. vm_compute. reflexivity. Qed.
(* the same value towards a window whose second octet lies on the read-only page 33: panic, nothing written *)
Example ex_read_unwritable :
  show (acc_call idh ex_env CRead (rgs NONE 131072 2 135167 0 5) 100 ex_mem ex_st)
  = (EPanic, rgs NONE 131072 2 135167 0 5, 90%Z, None)
  /\ writable ex_mem 135167 1 = true /\ writable ex_mem 135167 2 = false.
Proof. vm_compute. repeat split; reflexivity. Qed.
(* the key on an unmapped page: the hypothesis of hc_unreadable_panics_clean is met, the call panics cleanly *)
Example ex_read_unreadable :
  readable ex_mem 139264 2 = false /\ In (139264, 2) (acc_inputs ex_env CRead (rgs NONE 139264 2 131100 0 5))
  /\ acc_call idh ex_env CRead (rgs NONE 139264 2 131100 0 5) 100 ex_mem ex_st
     = mkRes EPanic (rgs NONE 139264 2 131100 0 5) 90%Z None ex_st.
Proof. vm_compute. repeat split; try reflexivity. left. reflexivity. Qed.
(* transfer to a service that does not exist: WHO, an error code, and the context is unchanged; to an existing one: OK,
   gas limit 30 charged on top of the 10, one deferred transfer appended and the balance debited *)
Example ex_transfer_who :
  show (acc_call idh ex_env CTransfer (rgs 999 10 0 131072 0 0) 100 ex_mem ex_st)
  = (EContinue, rgs WHO 10 0 131072 0 0, 90%Z, None)
  /\ r_ctx (acc_call idh ex_env CTransfer (rgs 999 10 0 131072 0 0) 100 ex_mem ex_st) = ex_st
  /\ In WHO error_codes.
Proof. vm_compute. repeat split; try reflexivity. right. right. right. left. reflexivity. Qed.
Example ex_transfer_ok :
  let r := acc_call idh ex_env CTransfer (rgs 200 10 30 131072 0 0) 100 ex_mem ex_st in
  show r = (EContinue, rgs OK 10 30 131072 0 0, 60%Z, None)
  /\ length (c_xfers (x_base (fst (r_ctx r)))) = 1%nat
  /\ option_map a_bal (get 100 (c_accts (x_base (fst (r_ctx r))))) = Some 990
  /\ snd (r_ctx r) = ex_x.
Proof. vm_compute. repeat split; reflexivity. Qed.
(* the context of the examples is of machine size *)
Example ex_bounded : acc_bounded ex_env 100 ex_st.
Proof.
  unfold acc_bounded. split; [reflexivity | split; [reflexivity |]].
  intros s k v Hs. vm_compute in Hs. injection Hs as <-. cbn [a_storage ex_self al_get].
  destruct (bytes_eqb k [50; 51]); [| discriminate]. intros [= <-]. reflexivity.
Qed.
(* identifiers without entry: 300 and 2^64-1 (the sign-extended immediate -1) answer WHAT / run out of gas *)
Example ex_unknown :
  acc_table 300 = CUnknown /\ acc_table (two64 - 1) = CUnknown /\ acc_table 256 = CUnknown /\ acc_table 18 = CNew
  /\ ref_table 9 = None /\ ref_table 300 = Some RUnknown /\ auth_table 7 = RUnknown
  /\ show (acc_call idh ex_env (acc_table 300) (rgs 1 2 3 4 5 6) 100 ex_mem ex_st) = (EContinue, rgs WHAT 2 3 4 5 6, 90%Z, None)
  /\ show (acc_call idh ex_env (acc_table (two64 - 1)) (rgs 1 2 3 4 5 6) 5 ex_mem ex_st) = (EOOG, rgs 1 2 3 4 5 6, (-5)%Z, None).
Proof. vm_compute. repeat split; reflexivity. Qed.
(* query returns two values: registers 7 and 8 *)
Example ex_query :
  show (acc_call idh ex_env CQuery (rgs 131072 5 0 0 0 0) 100 ex_mem ex_st) = (EContinue, rgs NONE 0 0 0 0 0, 90%Z, None).
Proof. vm_compute. reflexivity. Qed.
(* refine: export appends the zero-padded segment and returns its index; historical_lookup delivers the oracle's value *)
Example ex_export :
  let r := ref_call ex_env RExport (rgs 131072 3 0 0 0 0) 100 ex_mem (mkRctx []) in
  show r = (EContinue, rgs 0 3 0 0 0 0, 90%Z, None)
  /\ map (firstn 4) (rc_exports (r_ctx r)) = [[50; 51; 52; 0]] /\ map (@length N) (rc_exports (r_ctx r)) = [4104%nat].
Proof. vm_compute. repeat split; reflexivity. Qed.
Example ex_hist :
  show (ref_call ex_env RHist (rgs NONE 131072 131200 0 9 0) 100 ex_mem (mkRctx []))
  = (EContinue, rgs 2 131072 131200 0 9 0, 90%Z, Some (131200, [4; 4])).
Proof. vm_compute. reflexivity. Qed.

(* ================================================================================================================ *)
(* The six inner-machine calls: machine (8), peek (9), poke (10), pages (11), invoke (12), expunge (13).
   S = Model/InnerVm.v, the finished C33 model (imported, not edited): [hostcall c s = Some (e, s')] over
   s = (13 outer registers, outer gas, outer RAM as page list, map machine id -> (program, RAM, counter));
   e = XCont / XPanic / XOog.  The exact behaviour of each call is C33's subject (Properties/C33.v); here the C07
   discipline clauses are stated for them, for ALL states. [arg s i] = register i; [write_window]: peek (w8, w10),
   invoke (w8, 112), none for the others; [range_prop ok m a z] = the range is empty or lies inside 2^32 with every
   address ok. *)
Local Open Scope Z_scope.

(* hc_frame: among the 13 outer registers only register 7 changes (register 8 as well for invoke: fault address / host-call
   identifier); exactly 10 gas is charged; no byte of the outer RAM outside the write window changes and no access class
   changes; of the context only the inner-machine map changes, and in it only one entry: the fresh identifier for machine,
   machine w7 for poke / pages / invoke / expunge, none for peek. *)
Theorem C07_inner_hc_frame : forall c s e s', hostcall c s = Some (e, s') -> length (o_regs s) = 13%nat -> 0 <= arg s 8 ->
  (length (o_regs s') = 13%nat /\
   forall i, i <> 7%nat -> (i <> 8%nat \/ c <> CInvoke) -> greg (o_regs s') i = greg (o_regs s) i) /\
  o_gas s' = o_gas s - 10 /\
  (let '(a, z) := write_window c s in
   (forall x, ~ (a <= x < a + z) -> rd_byte (o_mem s') x = rd_byte (o_mem s) x) /\
   (forall x, acc_at (o_mem s') x = acc_at (o_mem s) x)) /\
  (forall k, Some k <> touched c s -> aget k (o_mach s') = aget k (o_mach s)).
Proof. exact inner_frame. Qed.
Print Assumptions C07_inner_hc_frame.

(* hc_write_after_check: (1) if the outer RAM differs at all after a call, the call is peek or invoke, it continued, and its
   WHOLE write window had passed the writability test; (2) a call that does not continue changed nothing but the gas;
   (3) a peek / invoke whose window is not wholly writable panics with nothing changed (the seeded change "invoke tests
   readability only" contradicts exactly this clause). *)
Theorem C07_inner_hc_write_after_check : forall c s,
  (forall e s', hostcall c s = Some (e, s') -> 0 <= arg s 8 -> o_mem s' <> o_mem s ->
     e = XCont /\ (c = CPeek \/ c = CInvoke) /\
     let '(a, z) := write_window c s in range_prop PvmMem.writable (o_mem s) a z) /\
  (forall e s', hostcall c s = Some (e, s') -> e <> XCont ->
     o_regs s' = o_regs s /\ o_gas s' = o_gas s - 10 /\ o_mem s' = o_mem s /\ o_mach s' = o_mach s) /\
  (10 <= o_gas s -> 0 <= arg s 8 -> (c = CPeek \/ c = CInvoke) ->
     (let '(a, z) := write_window c s in ~ range_prop PvmMem.writable (o_mem s) a z) ->
     hostcall c s = Some (XPanic, upd s (o_regs s) (o_gas s - 10) (o_mem s) (o_mach s))).
Proof.
  exact (fun c s => conj (inner_write_checked c s) (conj (inner_stop_clean c s) (inner_unwritable_panics c s))).
Qed.
Print Assumptions C07_inner_hc_write_after_check.

(* hc_unreadable_panics_clean: machine requires its program blob (w7, w8), poke its source (w8, w10); if that range is not
   wholly readable the call panics: registers, RAM and machines unchanged, 10 gas charged. *)
Theorem C07_inner_hc_unreadable_panics_clean : forall c s a z,
  10 <= o_gas s -> In (a, z) (inner_inputs c s) -> 0 <= a -> ~ range_prop PvmMem.readable (o_mem s) a z ->
  hostcall c s = Some (XPanic, upd s (o_regs s) (o_gas s - 10) (o_mem s) (o_mach s)).
Proof. exact inner_unreadable_panics. Qed.
Print Assumptions C07_inner_hc_unreadable_panics_clean.

(* hc_error_no_state_change: register 7 = WHO / OOB / HUH after a call => the outer RAM and the machine map are exactly
   what they were (and, when the call continued, nothing but register 7 and the gas changed). [inner_bounded]: fewer than
   2^64-9 machines and no stored counter equal to one of the three codes - otherwise the identifier returned by machine or
   the counter returned by expunge could itself read as a code. *)
Theorem C07_inner_hc_error_no_state_change : forall c s e s',
  hostcall c s = Some (e, s') -> length (o_regs s) = 13%nat -> inner_bounded s ->
  In (greg (o_regs s') 7) inner_codes ->
  (o_mem s' = o_mem s /\ o_mach s' = o_mach s) /\
  (e = XCont -> o_regs s' = sreg (o_regs s) 7 (greg (o_regs s') 7) /\ o_gas s' = o_gas s - 10).
Proof.
  intros c s e s' Hc L B Hin. split; [exact (inner_error_no_change c s e s' Hc L B Hin) |].
  intros He. destruct (inner_error_only_w7 c s e s' Hc L B Hin He) as (A1 & A2 & _). split; assumption.
Qed.
Print Assumptions C07_inner_hc_error_no_state_change.

(* non-vacuity: a machine whose program is "trap", an outer RAM with a read-write page 16 and a read-only page 17 *)
Definition in_mem : PvmMem.memory :=
  {| m_pages := [(16, {| p_acc := AccRW; p_dat := [] |}); (17, {| p_acc := AccRO; p_dat := [] |})]; m_hp := 0; m_hl := 0 |}.
Definition in_prog : prog := {| code := [0]; mask := [true]; jt_count := 0; jt_width := 0; jt_bytes := [] |}.     (* trap *)
Definition in_state (r7 r8 r9 r10 : Z) : istate :=
  {| o_regs := [1; 2; 3; 4; 5; 6; 7; r7; r8; r9; r10; 11; 12]; o_gas := 100; o_mem := in_mem;
     o_mach := [(0, {| mc_prog := in_prog; mc_mem := empty_mem; mc_pc := 0 |})] |}.
Definition in_show (r : option (hexit * istate)) :=
  match r with Some (e, s') => Some (e, o_regs s', o_gas s', o_mem s' = in_mem) | None => None end.

(* invoke with its window on the read-write page: continues, exit kind 4 (the window holds gas 0), window written *)
Example in_invoke_rw :
  match hostcall CInvoke (in_state 0 65536 0 0) with
  | Some (e, s') => e = XCont /\ greg (o_regs s') 7 = 4 /\ o_gas s' = 90 /\ length (o_mach s') = 1%nat
  | None => False
  end.
Proof. vm_compute. repeat split; reflexivity. Qed.
(* the same window on the read-only page 17, and one straddling 16/17: the hypotheses of clause (3) hold, the call panics
   and nothing changes *)
Example in_invoke_ro :
  InnerVm.range_ok PvmMem.readable in_mem 69632 112 = true /\ InnerVm.range_ok PvmMem.writable in_mem 69632 112 = false /\
  InnerVm.range_ok PvmMem.writable in_mem 69600 112 = false /\
  hostcall CInvoke (in_state 0 69632 0 0) = Some (XPanic, upd (in_state 0 69632 0 0) (o_regs (in_state 0 69632 0 0)) 90 in_mem (o_mach (in_state 0 69632 0 0))) /\
  hostcall CInvoke (in_state 0 69600 0 0) = Some (XPanic, upd (in_state 0 69600 0 0) (o_regs (in_state 0 69600 0 0)) 90 in_mem (o_mach (in_state 0 69600 0 0))).
Proof. vm_compute. repeat split; reflexivity. Qed.
(* unknown machine: WHO, an error code; bounded state; poke from an unmapped source: panic *)
Example in_who :
  inner_bounded (in_state 5 65536 0 0) /\
  match hostcall CInvoke (in_state 5 65536 0 0) with
  | Some (e, s') => e = XCont /\ In (greg (o_regs s') 7) inner_codes /\ o_mem s' = in_mem /\ o_mach s' = o_mach (in_state 5 65536 0 0)
  | None => False
  end /\
  In (4096, 8) (inner_inputs CPoke (in_state 0 4096 65536 8)) /\ InnerVm.range_ok PvmMem.readable in_mem 4096 8 = false /\
  hostcall CPoke (in_state 0 4096 65536 8) = Some (XPanic, upd (in_state 0 4096 65536 8) (o_regs (in_state 0 4096 65536 8)) 90 in_mem (o_mach (in_state 0 4096 65536 8))).
Proof.
  split; [| vm_compute; repeat split; try reflexivity; left; reflexivity].
  split; [vm_compute; reflexivity |].
  intros k mc Hk. cbn [in_state o_mach aget] in Hk. destruct (0 =? k); [| discriminate]. injection Hk as <-.
  vm_compute. intros [Hh | [Hh | [Hh | []]]]; discriminate.
Qed.
