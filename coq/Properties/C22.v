(* C22 — Accumulation is deterministic. Property theorems only.
   ∆1 (single-service accumulation, i.e. the PVM run on a deep copy of the state context) is a Section
   variable D1: a function of the service id. What is proved is that the parallel combination ∆* is a
   function of the SET of services alone. What the model cannot exhibit (Go scheduler, data races on
   memory shared between the workers) is covered by repeated real runs in the correspondence. *)
From JamV Require Import Base.Bytes Model.AccParallel Proofs.AccParallelP.
From Coq Require Import Permutation.
Local Open Scope N_scope.

(* for every completion order of the workers and every order in which the hash map delivers the
   service set, the result is the same function of the set *)
Theorem C22_parallel_order_irrelevant :
  forall D1 d m v r a c1 c2 o1 o2, Permutation o1 o2 ->
    par_acc D1 d m v r a c1 o1 = par_acc D1 d m v r a c2 o2.
Proof. exact par_order_irrelevant. Qed.
Print Assumptions C22_parallel_order_irrelevant.

Theorem C22_is_reference :
  forall D1 d m v r a completion iteration,
    par_acc D1 d m v r a completion iteration = par_ref D1 d m v r a iteration.
Proof. exact par_acc_is_ref. Qed.
Print Assumptions C22_is_reference.

(* goroutine completion order alone never matters (results are cached per service) *)
Theorem C22_completion_irrelevant :
  forall D1 d m v r a c1 c2 o, par_acc_unsorted D1 d m v r a c1 o = par_acc_unsorted D1 d m v r a c2 o.
Proof. exact completion_irrelevant. Qed.
Print Assumptions C22_completion_irrelevant.

(* the collecting loop as found in the code (following map iteration order) is order dependent:
   this is the defect repaired in /repo (iterate the service set in ascending order) *)
Theorem C22_unsorted_refuted :
  exists D1 d o1 o2, Permutation o1 o2 /\
    par_acc_unsorted D1 d 0 0 0 [] [] o1 <> par_acc_unsorted D1 d 0 0 0 [] [] o2.
Proof. exact unsorted_refuted. Qed.
Print Assumptions C22_unsorted_refuted.

(* permutations sort to the same list (the lemma the repair rests on) *)
Theorem C22_sort_canonical : forall l1 l2, Permutation l1 l2 -> sortN l1 = sortN l2.
Proof. exact sortN_perm_eq. Qed.
Print Assumptions C22_sort_canonical.

Example C22_ex : po_u (par_acc ex_D1 ex_d 0 0 0 [] [2; 1] [2; 1]) = [(1, 10); (2, 20)]
              /\ map t_from (po_t (par_acc ex_D1 ex_d 0 0 0 [] [1] [2; 1])) = [1; 2].
Proof. split; vm_compute; reflexivity. Qed.

(* the accumulation-output log θ′ (12.26) of a block: whatever order the map of (service, hash) pairs — the
   union over ALL rounds, so one service may contribute two different hashes — is delivered in, the sequence
   ordered by service then hash is the same; the comparator without the hash tie-break is order dependent *)
Theorem C22_theta_canonical : forall l1 l2, Permutation l1 l2 -> theta_of l1 = theta_of l2.
Proof. exact theta_canonical. Qed.
Print Assumptions C22_theta_canonical.

Theorem C22_theta_service_only_refuted :
  exists l1 l2, Permutation l1 l2 /\ sortP service_only_leb l1 <> sortP service_only_leb l2.
Proof. exact theta_service_only_refuted. Qed.
Print Assumptions C22_theta_service_only_refuted.
