(* C34 — Activity statistics accounting. Property theorems only (proofs in Proofs/StatisticsP.v).
   stats_step = statistics.UpdateValidatorActivityStatistics (rollover, then UpdateCurrentStatistics,
   UpdateCoreActivityStatistics, UpdateServiceActivityStatistics), in the Go update order; vdelta / core_rec / service_rec
   are the Gray Paper sums (13.3-13.16). *)
From JamV Require Import Base.Bytes Model.Statistics Proofs.StatisticsP.
Local Open Scope N_scope.

(* for every block and every validator position: posterior accumulator = base + delta, where base is the prior accumulator
   (same epoch) or zero (epoch change) and delta = (1 block, |E_T|, |E_P|, octets of E_P) for the author, +1 guarantee if the
   validator's key is in the reporters set, +1 per assurance it made *)
Theorem C34_block_deltas : forall k prior_tau p b v,
  nth_error (pi_curr (stats_step k prior_tau p b)) v
  = option_map (fun r => vadd r (vdelta k b v))
      (nth_error (if epoch_of k prior_tau =? epoch_of k (b_slot b) then pi_curr p else repeat vzero (K_V k)) v).
Proof. exact block_deltas. Qed.
Print Assumptions C34_block_deltas.

(* the implementation's update order (author's counters one extrinsic at a time, reporters, one assurance at a time) is that sum *)
Theorem C34_update_order : forall k b curr v,
  nth_error (update_current k b curr) v = option_map (fun r => vadd r (vdelta k b v)) (nth_error curr v).
Proof. exact update_current_spec. Qed.
Print Assumptions C34_update_order.

(* epoch change: previous := accumulator, accumulator := exactly this block's deltas; same epoch: previous kept *)
Theorem C34_epoch_rollover : forall k prior_tau p b,
  (epoch_of k prior_tau <> epoch_of k (b_slot b) ->
     pi_last (stats_step k prior_tau p b) = pi_curr p /\
     length (pi_curr (stats_step k prior_tau p b)) = K_V k /\
     forall v, (v < K_V k)%nat -> nth_error (pi_curr (stats_step k prior_tau p b)) v = Some (vdelta k b v)) /\
  (epoch_of k prior_tau = epoch_of k (b_slot b) ->
     pi_last (stats_step k prior_tau p b) = pi_last p /\
     length (pi_curr (stats_step k prior_tau p b)) = length (pi_curr p)).
Proof. exact epoch_rollover. Qed.
Print Assumptions C34_epoch_rollover.

(* a validator that neither authored the block, nor is a reporter, nor assured keeps its record *)
Theorem C34_others_unchanged : forall k prior_tau p b v r,
  epoch_of k prior_tau = epoch_of k (b_slot b) ->
  nth_error (pi_curr p) v = Some r ->
  v <> b_author b -> is_reporter k b v = false ->
  (forall a, In a (b_assurances b) -> as_validator a <> v) ->
  nth_error (pi_curr (stats_step k prior_tau p b)) v = Some r.
Proof. exact others_unchanged. Qed.
Print Assumptions C34_others_unchanged.

(* core records = the sums over the incoming / newly available reports of that core and the assurance bits; the
   implementation's map core -> report agrees whenever no two reports of a list name the same core *)
Theorem C34_core_records : forall k prior_tau p b c,
  (c < K_C k)%nat ->
  NoDup (map w_core (incoming b)) -> NoDup (map w_core (b_available b)) ->
  nth_error (pi_cores (stats_step k prior_tau p b)) c = Some (core_rec k b c).
Proof. exact core_records. Qed.
Print Assumptions C34_core_records.

(* service records: exactly the services named by an incoming digest, a preimage or the accumulation statistics have a
   record, one each, and it is the sum over that service's digests, preimages and accumulation entry *)
Theorem C34_service_records : forall k prior_tau p b s,
  (In (s, service_rec b s) (pi_services (stats_step k prior_tau p b)) <->
   In s (map d_service (all_digests b)) \/ In s (map fst (b_preimages b)) \/ In s (map fst (b_accstats b))) /\
  (forall r, In (s, r) (pi_services (stats_step k prior_tau p b)) -> r = service_rec b s) /\
  NoDup (map fst (pi_services (stats_step k prior_tau p b))).
Proof. exact service_records. Qed.
Print Assumptions C34_service_records.

(* histories: inside one epoch the accumulator's block counters grow by exactly the number of blocks imported *)
Theorem C34_epoch_block_count : forall k bs prior_tau p,
  Forall (fun b => epoch_of k (b_slot b) = epoch_of k prior_tau /\ (b_author b < length (pi_curr p))%nat) bs ->
  total_blocks (pi_curr (stats_run k prior_tau p bs)) = total_blocks (pi_curr p) + N.of_nat (length bs) /\
  length (pi_curr (stats_run k prior_tau p bs)) = length (pi_curr p).
Proof. exact epoch_block_count. Qed.
Print Assumptions C34_epoch_block_count.

(* ------------------------------------------------------------------ non-vacuity (tiny constants V=6 C=2 E=12 R=4) *)
Definition kt : consts := mk_consts 6 2 12 4 4104.
Definition ex_rep0 : wreport := mk_wr 0 100 2 [mk_wd 7 10 1 2 30 2; mk_wd 8 5 0 1 4 0].
Definition ex_rep1 : wreport := mk_wr 1 50 0 [mk_wd 7 1 1 1 1 0].
Definition ex_block : block :=
  mk_block 2 13 3 [(7, 10); (9, 4)]
           [mk_g ex_rep0 13 [0%nat; 4%nat]; mk_g ex_rep1 9 [1%nat]]
           [mk_as 1 [1; 0]; mk_as 5 [1; 1]]
           [ex_rep1] [(7, (99, 2))]
           [11; 12; 13; 14; 15; 16] [21; 12; 23; 24; 25; 26] [].
Definition ex_prior : pi := mk_pi (repeat (mk_vrec 1 1 1 1 1 1) 6) (repeat vzero 6) [] [].

(* slot 13 is in epoch 1: coming from slot 11 (epoch 0) the accumulator is reset; the second guarantee (slot 9) is from the
   previous rotation in the previous epoch, so its signer 1 is looked up in lambda' (key 12 = kappa'[1]) *)
Example C34_ex_rollover :
  pi_last (stats_step kt 11 ex_prior ex_block) = repeat (mk_vrec 1 1 1 1 1 1) 6 /\
  pi_curr (stats_step kt 11 ex_prior ex_block)
  = [mk_vrec 0 0 0 0 1 0; mk_vrec 0 0 0 0 1 1; mk_vrec 1 3 2 14 0 0; vzero; mk_vrec 0 0 0 0 1 0; mk_vrec 0 0 0 0 0 1].
Proof. split; vm_compute; reflexivity. Qed.
Example C34_ex_same_epoch :
  pi_curr (stats_step kt 12 ex_prior ex_block)
  = [mk_vrec 1 1 1 1 2 1; mk_vrec 1 1 1 1 2 2; mk_vrec 2 4 3 15 1 1; mk_vrec 1 1 1 1 1 1; mk_vrec 1 1 1 1 2 1; mk_vrec 1 1 1 1 1 2].
Proof. vm_compute; reflexivity. Qed.
Example C34_ex_cores :
  pi_cores (stats_step kt 12 ex_prior ex_block)
  = [mk_crec 0 2 1 3 34 2 100 15; mk_crec 50 1 1 1 1 0 50 1].
Proof. vm_compute; reflexivity. Qed.
Example C34_ex_services :
  pi_services (stats_step kt 12 ex_prior ex_block)
  = [(8, mk_srec 0 0 1 5 0 1 4 0 0 0); (9, mk_srec 1 4 0 0 0 0 0 0 0 0); (7, mk_srec 1 10 2 11 2 3 31 2 2 99)].
Proof. vm_compute; reflexivity. Qed.
Example C34_ex_nodup : NoDup (map w_core (incoming ex_block)) /\ NoDup (map w_core (b_available ex_block)).
Proof. split; cbn; repeat constructor; cbn; intuition discriminate. Qed.
