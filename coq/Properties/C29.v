(* C29 — Validator grid neighbours and preferred initiator. Property theorems only.
   neighbor v a b : grid.go IsNeighborInEpoch for v current validators; neighbor_indices : NeighborIndicesInEpoch;
   all_neighbors : AllNeighborValidators; is_neighbor_key : manager.go IsNeighbor; initiator : PreferredInitiator. *)
From JamV Require Import Base.Bytes Model.Grid Proofs.GridP.
From Coq Require Import Sorted.
Local Open Scope N_scope.

(* the grid width is floor(sqrt V) *)
Theorem C29_width_floor_sqrt : forall v, 0 < v ->
  width v = N.sqrt v /\ width v * width v <= v < (width v + 1) * (width v + 1).
Proof. exact (fun v Hv => conj (width_sqrt v Hv) (width_floor_sqrt v Hv)). Qed.
Print Assumptions C29_width_floor_sqrt.

(* just below, at and just above every perfect square; constant between consecutive squares
   (the Go side of the correspondence evaluates exactly these points with int(math.Sqrt(float64 n))) *)
Theorem C29_width_around_squares : forall k, 1 <= k ->
  width (k * k) = k /\ width (k * k + 1) = k /\ (2 <= k -> width (k * k - 1) = k - 1).
Proof. exact width_around_squares. Qed.
Print Assumptions C29_width_around_squares.

Theorem C29_width_between_squares : forall k n, 1 <= k -> k * k <= n < (k + 1) * (k + 1) -> width n = k.
Proof. exact width_between_squares. Qed.
Print Assumptions C29_width_between_squares.

Theorem C29_neighbor_sym : forall v a b, neighbor v a b = neighbor v b a.
Proof. exact neighbor_sym. Qed.
Print Assumptions C29_neighbor_sym.

Theorem C29_neighbor_irrefl : forall v a, neighbor v a a = false.
Proof. exact neighbor_irrefl. Qed.
Print Assumptions C29_neighbor_irrefl.

(* exactly the distinct validators of the set sharing a row or a column of the floor(sqrt V)-wide grid *)
Theorem C29_neighbor_iff_row_or_col : forall v a b,
  neighbor v a b = true <->
  a < v /\ b < v /\ a <> b /\ (a / N.sqrt v = b / N.sqrt v \/ a mod N.sqrt v = b mod N.sqrt v).
Proof. exact neighbor_iff. Qed.
Print Assumptions C29_neighbor_iff_row_or_col.

(* the neighbour list holds exactly the related indices, each once, ascending *)
Theorem C29_neighbor_indices : forall v a,
  (forall b, In b (neighbor_indices v a) <-> neighbor v a b = true) /\ StronglySorted N.lt (neighbor_indices v a).
Proof. exact (fun v a => conj (neighbor_indices_spec v a) (neighbor_indices_sorted v a)). Qed.
Print Assumptions C29_neighbor_indices.

(* across epochs (0 = previous, 1 = current, 2 = next): linked iff same index; previous and next
   are not linked to each other; the whole three-epoch relation is symmetric and irreflexive *)
Theorem C29_cross_epoch_same_index : forall v e i j, e = 0 \/ e = 2 ->
  (node_linked v (1, i) (e, j) = true <-> i = j).
Proof. exact node_linked_cross. Qed.
Print Assumptions C29_cross_epoch_same_index.

Theorem C29_linked_sym_irrefl : forall v x y,
  node_linked v x y = node_linked v y x /\ node_linked v x x = false
  /\ node_linked v (1, snd x) (1, snd y) = neighbor v (snd x) (snd y).
Proof. exact (fun v x y => conj (node_linked_sym v x y) (conj (node_linked_irrefl v x) (node_linked_cur v (snd x) (snd y)))). Qed.
Print Assumptions C29_linked_sym_irrefl.

(* the validators returned for index i are exactly: the current validators at a grid-neighbour
   index, and the validators at index i of the previous and of the next set *)
Theorem C29_all_neighbors : forall (K : Type) (g : @grid K) i k,
  In k (all_neighbors g i) <->
  (exists j, neighbor (vcount g) i j = true /\ nth_error (g_cur g) (N.to_nat j) = Some k)
  \/ nth_error (g_prev g) (N.to_nat i) = Some k
  \/ nth_error (g_next g) (N.to_nat i) = Some k.
Proof. exact (@all_neighbors_spec). Qed.
Print Assumptions C29_all_neighbors.

(* the key-level test accepts exactly the keys of those validators *)
Theorem C29_is_neighbor_key : forall (K : Type) (keq : K -> K -> bool),
  (forall a b, keq a b = true <-> a = b) ->
  forall (g : @grid K) self k, is_neighbor_key keq g self k = true <-> In k (all_neighbors g self).
Proof. exact (@is_neighbor_key_spec). Qed.
Print Assumptions C29_is_neighbor_key.

(* preferred initiator: one of the two keys, and both peers compute the same one *)
Theorem C29_initiator_in_pair : forall a b, initiator a b = a \/ initiator a b = b.
Proof. exact initiator_in_pair. Qed.
Print Assumptions C29_initiator_in_pair.

Theorem C29_initiator_agree : forall a b, a <> b -> initiator a b = initiator b a.
Proof. exact initiator_agree. Qed.
Print Assumptions C29_initiator_agree.

Theorem C29_initiator_agree_all : forall a b, initiator a b = initiator b a.
Proof. exact initiator_agree_all. Qed.
Print Assumptions C29_initiator_agree_all.

(* Defect model of the unrepaired manager.go IsNeighbor (first current index of the key only,
   cross-epoch rule only for keys absent from the current set): never accepts a non-neighbour,
   but misses neighbours -- the statement "first-only = specification" is refuted by a witness:
   validator with key 7 sits at index 0 of the previous set (self = 0) and at index 8 of a
   9-validator current set (row 2, column 2: not a grid neighbour of index 0). *)
Theorem C29_first_only_sound : forall (K : Type) (keq : K -> K -> bool),
  (forall a b, keq a b = true <-> a = b) ->
  forall (g : @grid K) self k, is_neighbor_first_only keq g self k = true -> is_neighbor_key keq g self k = true.
Proof. exact (@first_only_sound). Qed.
Print Assumptions C29_first_only_sound.

Theorem C29_first_only_refuted : exists (g : @grid N) self k,
  is_neighbor_key N.eqb g self k = true /\ is_neighbor_first_only N.eqb g self k = false.
Proof.
  exists {| g_prev := [7;11;12;13;14;15;16;17;18]; g_cur := [10;11;12;13;14;15;16;17;7]; g_next := [] |}, 0, 7.
  vm_compute. split; reflexivity.
Qed.
Print Assumptions C29_first_only_refuted.

(* ---- non-vacuity ---- *)
(* V = 10: width 3; index 4 = row 1 {3,4,5}, column 1 {1,4,7}; index 9 = row 3 {9}, column 0 {0,3,6,9} *)
Example C29_ex_grid : width 10 = 3 /\ neighbor_indices 10 4 = [1;3;5;7] /\ neighbor_indices 10 9 = [0;3;6]
                      /\ neighbor 10 4 7 = true /\ neighbor 10 4 8 = false /\ neighbor 10 4 10 = false.
Proof. vm_compute. repeat split; reflexivity. Qed.
Example C29_ex_full : width 1023 = 31 /\ length (neighbor_indices 1023 0) = 62%nat /\ width 1024 = 32 /\ width 0 = 1.
Proof. vm_compute. repeat split; reflexivity. Qed.
Example C29_ex_all : all_neighbors {| g_prev := [100;101]; g_cur := [0;1;2;3;4]; g_next := [200] |} 1 = [0;3;101]
                  /\ all_neighbors {| g_prev := [100;101]; g_cur := [0;1;2;3;4]; g_next := [200] |} 0 = [1;2;4;100;200].
Proof. vm_compute. split; reflexivity. Qed.
(* distinct keys satisfying the hypothesis of initiator_agree: keys differing only in the high bit of the last byte *)
Example C29_ex_initiator :
  let a := repeat 0 31 ++ [1] in let b := repeat 0 31 ++ [129] in
  a <> b /\ initiator a b = b /\ initiator b a = b /\ initiator [1] [2] = [1] /\ initiator [2] [1] = [1].
Proof. vm_compute. repeat split; try reflexivity. discriminate. Qed.
