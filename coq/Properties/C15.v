(* C15 — the state root is the Gray Paper Appendix D Merkle trie root. Property theorems only.
   Every theorem is universally quantified over the hash function H (no property of H is assumed). *)
From JamV Require Import Base.Bytes Model.Trie Proofs.TrieP.
From Coq Require Import Permutation.
Local Open Scope N_scope.

(* The Go-shaped model (in-place swap partition replayed on lists, fuel 249 = Go's depth < 248 index
   bound) computes the Appendix D root on every set of entries with distinct well-formed 31-byte keys,
   and never runs out of fuel (Go: never indexes Key[31]). *)
Theorem C15_merklize_refines_spec : forall (H : bytes -> bytes) (es : list entry),
  NoDup (map fst es) ->
  Forall (fun e => length (fst e) = 31%nat /\ wf_bytes (fst e) = true) es ->
  go_root H es = root H es /\ root H es <> None.
Proof. exact merklize_refines. Qed.
Print Assumptions C15_merklize_refines_spec.

(* the refinement holds for every fuel, depth and entry list, out-of-fuel outcome included *)
Theorem C15_merklize_eq_spec_everywhere : forall (H : bytes -> bytes) f d (es : list entry),
  merklize H f d es = trie H f d es.
Proof. exact merklize_eq_trie. Qed.
Print Assumptions C15_merklize_eq_spec_everywhere.

Theorem C15_fuel_suffices : forall (H : bytes -> bytes) (es : list entry),
  NoDup (map fst es) ->
  Forall (fun e => length (fst e) = 31%nat /\ wf_bytes (fst e) = true) es ->
  root H es <> None.
Proof. exact root_defined. Qed.
Print Assumptions C15_fuel_suffices.

(* the Go swap loop yields, on each side, a permutation of the entries with that bit *)
Theorem C15_go_partition_ok : forall d (l : list entry),
  Permutation (fst (go_partition d l)) (filter (bit0 d) l) /\
  Permutation (snd (go_partition d l)) (filter (bit1 d) l).
Proof. exact go_partition_ok. Qed.
Print Assumptions C15_go_partition_ok.

(* the root does not depend on the order in which entries are supplied (no side condition needed) *)
Theorem C15_root_perm_invariant : forall (H : bytes -> bytes) (l l' : list entry),
  Permutation l l' -> root H l = root H l'.
Proof. exact root_perm. Qed.
Print Assumptions C15_root_perm_invariant.

Theorem C15_go_root_perm_invariant : forall (H : bytes -> bytes) (l l' : list entry),
  Permutation l l' -> go_root H l = go_root H l'.
Proof. exact go_root_perm. Qed.
Print Assumptions C15_go_root_perm_invariant.

(* hence the root is a function of the entry set *)
Theorem C15_root_set_invariant : forall (H : bytes -> bytes) (l l' : list entry),
  NoDup l -> NoDup l' -> (forall e, In e l <-> In e l') -> root H l = root H l'.
Proof. exact root_set. Qed.
Print Assumptions C15_root_set_invariant.

(* node encodings *)
Theorem C15_embedded_iff_le_32 : forall (H : bytes -> bytes) k v,
  N.testbit (hd 0 (leaf H k v)) 6 = false <-> (length v <= 32)%nat.
Proof. exact embedded_iff. Qed.
Print Assumptions C15_embedded_iff_le_32.

Theorem C15_leaf_embedded_layout : forall (H : bytes -> bytes) k v, (length v <= 32)%nat ->
  leaf H k v = (128 + N.of_nat (length v)) :: k ++ v ++ zeros (32 - length v).
Proof. exact leaf_embedded. Qed.
Print Assumptions C15_leaf_embedded_layout.

Theorem C15_leaf_hashed_layout : forall (H : bytes -> bytes) k v, (32 < length v)%nat ->
  leaf H k v = 192 :: k ++ H v.
Proof. exact leaf_hashed. Qed.
Print Assumptions C15_leaf_hashed_layout.

Theorem C15_leaf_msb_set : forall (H : bytes -> bytes) k v, N.testbit (hd 0 (leaf H k v)) 7 = true.
Proof. exact leaf_msb. Qed.
Print Assumptions C15_leaf_msb_set.

Theorem C15_branch_msb_clear : forall l r, N.testbit (hd 0 (branch l r)) 7 = false.
Proof. exact branch_msb. Qed.
Print Assumptions C15_branch_msb_clear.

(* apart from the cleared first bit a branch node is the left hash followed by the right hash *)
Theorem C15_branch_low_bits : forall l r i, i < 7 -> N.testbit (hd 0 (branch l r)) i = N.testbit (hd 0 l) i.
Proof. exact (branch_low_bits (fun x => x)). Qed.
Print Assumptions C15_branch_low_bits.

Theorem C15_branch_tail : forall l r, tl (branch l r) = tl l ++ r.
Proof. exact branch_tail. Qed.
Print Assumptions C15_branch_tail.

Theorem C15_node_lengths : forall (H : bytes -> bytes) k v l r,
  length k = 31%nat -> (forall x, length (H x) = 32%nat) -> length l = 32%nat -> length r = 32%nat ->
  length (leaf H k v) = 64%nat /\ length (branch l r) = 64%nat.
Proof. intros H k v l r Lk LH Ll Lr. split; [now apply leaf_length|now apply branch_length]. Qed.
Print Assumptions C15_node_lengths.

Theorem C15_empty_is_zero : forall (H : bytes -> bytes), root H [] = Some (repeat 0 32).
Proof. exact (fun H => empty_zero H 249 0). Qed.
Print Assumptions C15_empty_is_zero.

Theorem C15_single_is_leaf : forall (H : bytes -> bytes) k v, root H [(k, v)] = Some (H (leaf H k v)).
Proof. exact (fun H => single_leaf H 249 0). Qed.
Print Assumptions C15_single_is_leaf.

(* ---- non-vacuity --------------------------------------------------------------------------- *)
(* a toy 32-byte "hash" for the examples *)
Definition toyH (b : bytes) : bytes :=
  (fold_left (fun a x => (a * 31 + x) mod 251) b 7) :: firstn 31 (b ++ zeros 31).

Definition k0 : bytes := repeat 0 31.
Definition k1 : bytes := repeat 0 30 ++ [1].          (* differs from k0 only in the last bit (247) *)
Definition k2 : bytes := 128 :: repeat 0 30.
Definition ex_es : list entry := [(k0, [1;2;3]); (k2, repeat 7 33); (k1, repeat 9 32)].

(* hypotheses of C15_merklize_refines_spec hold on a set whose trie is 248 levels deep, and the
   conclusion is the expected non-trivial value on both sides *)
Example C15_ex_hyp : NoDup (map fst ex_es) /\
  Forall (fun e => length (fst e) = 31%nat /\ wf_bytes (fst e) = true) ex_es.
Proof.
  split.
  - repeat constructor; cbn; intuition discriminate.
  - repeat constructor.
Qed.
Example C15_ex_deep : go_root toyH ex_es = root toyH ex_es /\ root toyH ex_es <> None /\
  root toyH ex_es <> root toyH [(k0, [1;2;3])] /\
  go_root toyH (rev ex_es) = go_root toyH ex_es.
Proof. vm_compute. repeat split; discriminate. Qed.
(* the distinct-key hypothesis is needed: a duplicated key exhausts the fuel (Go: index panic) *)
Example C15_ex_dup : root toyH [(k0, [1]); (k0, [2])] = None /\ go_root toyH [(k0, [1]); (k0, [2])] = None.
Proof. vm_compute. split; reflexivity. Qed.
(* the swap partition is not the stable partition, yet agrees up to permutation *)
Example C15_ex_part :
  go_partition 0 [(k2, []); (k2, [1]); (k0, []); (k2, [2])] = ([(k0, [])], [(k2, [1]); (k2, []); (k2, [2])]).
Proof. reflexivity. Qed.
Example C15_ex_nodes :
  hd 0 (leaf toyH k0 (repeat 5 32)) = 160 /\ hd 0 (leaf toyH k0 (repeat 5 33)) = 192 /\
  hd 0 (leaf toyH k0 []) = 128 /\ hd 0 (branch [255; 1] [2]) = 127.
Proof. repeat split; reflexivity. Qed.
