(* C20 — Shuffle and guarantor assignment. Property theorems only.
   H is the 32-byte hash (Blake2b-256 in the node); every theorem holds for every function H.
   F / qseq / shuffle_F / assign : Gray Paper F.1 / F.2 / F.3 / 11.20.
   fy_go / shuffle_go / permute_go : the algorithms of shuffle.go and guarantor_assignments.go. *)
From JamV Require Import Base.Bytes Model.Shuffle Model.ShuffleFast Proofs.ShuffleP Proofs.ShuffleFastP.
From Coq Require Import Permutation.
Local Open Scope N_scope.

(* the shuffle returns a permutation of its input: every element type, every length, every entropy *)
Theorem C20_shuffle_perm : forall (H : bytes -> bytes) (A : Type) (s : list A) (h : bytes),
  Permutation (shuffle_go H s h) s.
Proof. exact (fun H A => @shuffle_go_perm H A). Qed.
Print Assumptions C20_shuffle_perm.

(* Fisher-Yates driven by any number sequence at least as long as the input *)
Theorem C20_fy_perm : forall (A : Type) (s : list A) (r : list N),
  (length s <= length r)%nat -> Permutation (fy_go s r) s.
Proof. exact (@fy_go_perm). Qed.
Print Assumptions C20_fy_perm.

(* the implementation's swap-and-truncate recursion equals the Gray Paper recursive definition F.1 ... *)
Theorem C20_fy_is_F : forall (A : Type) (r : list N) (s : list A), fy_go s r = F s r.
Proof. exact (@fy_go_is_F). Qed.
Print Assumptions C20_fy_is_F.

(* ... whose defining equations are F.1 verbatim: F([], r) = [],
   F(s, r) = [s[r0 mod l]] ++ F(s'[.. l-1], r[1..]) with s' = s except s'[r0 mod l] = s[l-1] *)
Theorem C20_F_equations : forall (A : Type),
  (forall r : list N, F (@nil A) r = []) /\
  (forall (a : A) (s' : list A) (r0 : N) (r' : list N),
     let s := a :: s' in let l := length s in let i := N.to_nat (r0 mod N.of_nat l) in
     F s (r0 :: r') = nth i s a :: F (firstn (l - 1) (set_nth i (last s a) s)) r').
Proof. exact (fun A => conj (@F_nil A) (@F_step A)). Qed.
Print Assumptions C20_F_equations.

(* Shuffle(s, h) = F(s, Q_|s|(h)) : F.3 with the hash-derived sequence F.2 *)
Theorem C20_shuffle_is_F : forall (H : bytes -> bytes) (A : Type) (s : list A) (h : bytes),
  shuffle_go H s h = F s (qseq H h (length s))
  /\ qseq H h (length s)
     = map (fun i => le_dec (firstn 4 (skipn (N.to_nat ((4 * N.of_nat i) mod 32)) (H (h ++ le_enc 4 (N.of_nat i / 8))))))
           (seq 0 (length s)).
Proof. exact (fun H A s h => conj (@shuffle_go_is_F H A s h) eq_refl). Qed.
Print Assumptions C20_shuffle_is_F.

(* permute = P(e, t) of 11.20 *)
Theorem C20_permute_is_P : forall H p e t, permute_go H p e t = assign H p e t.
Proof. exact permute_go_is_assign. Qed.
Print Assumptions C20_permute_is_P.

(* C | V : every core gets exactly V/C validators, for every entropy and slot (the share is
   preserved by the shuffle and by the rotation); all V validators are assigned, to cores < C *)
Theorem C20_cores_share : forall H p e t c,
  0 < pC p -> pV p mod pC p = 0 -> c < pC p ->
  N.of_nat (count_occ N.eq_dec (permute_go H p e t) c) = pV p / pC p.
Proof. intros H p e t c. rewrite permute_go_is_assign. exact (assign_share H p e t c). Qed.
Print Assumptions C20_cores_share.

Theorem C20_assign_total : forall H p e t, 0 < pC p ->
  length (permute_go H p e t) = N.to_nat (pV p) /\ Forall (fun x => x < pC p) (permute_go H p e t).
Proof. intros H p e t HC. rewrite permute_go_is_assign. exact (conj (assign_length H p e t) (assign_range H p e t HC)). Qed.
Print Assumptions C20_assign_total.

(* advancing one rotation period inside an epoch adds 1 mod C to every assignment *)
Theorem C20_rotation_step : forall H p e t,
  0 < pC p -> 0 < pE p -> 0 < pR p -> t / pE p = (t + pR p) / pE p ->
  permute_go H p e (t + pR p) = map (fun c => (c + 1) mod pC p) (permute_go H p e t).
Proof. intros H p e t. rewrite !permute_go_is_assign. exact (assign_rotation_step H p e t). Qed.
Print Assumptions C20_rotation_step.

(* same entropy, same rotation index => same assignment (all nodes agree; the slot matters only
   through floor((t mod E)/R)) *)
Theorem C20_assign_deterministic : forall H p e t1 t2,
  sub_epoch p t1 = sub_epoch p t2 -> permute_go H p e t1 = permute_go H p e t2.
Proof. intros H p e t1 t2. rewrite !permute_go_is_assign. exact (assign_slot_indep H p e t1 t2). Qed.
Print Assumptions C20_assign_deterministic.

(* the functions the extracted correspondence model actually runs (finite-map evaluation of F.1,
   one shuffle for a run of slots) are equal to the Gray Paper definitions *)
Theorem C20_extracted_model_is_spec : forall (H : bytes -> bytes),
  (forall (A : Type) (s : list A) (r : list N), F_fast s r = F s r) /\
  (forall h l, qseq_fast H h l = qseq H h l) /\
  (forall (A : Type) (s : list A) (h : bytes), shuffle_fast H s h = shuffle_F H s h) /\
  (forall p e ts, assign_slots H p e ts = map (assign H p e) ts).
Proof. exact (fun H => conj (@F_fast_is_F) (conj (qseq_fast_is_qseq H) (conj (@shuffle_fast_is_F H) (assign_slots_spec H)))). Qed.
Print Assumptions C20_extracted_model_is_spec.

(* ---- non-vacuity ---- *)
(* F.1 by hand: 7 mod 5 = 2 -> 30, [10;20;50;40]; 3 mod 4 = 3 -> 40, [10;20;50]; 0 -> 10, [50;20]; 9 mod 2 = 1 -> 20; 50 *)
Example C20_ex_F : F [10;20;30;40;50] [7;3;0;9;1] = [30;40;10;20;50]
                /\ fy_go [10;20;30;40;50] [7;3;0;9;1] = [30;40;10;20;50].
Proof. split; reflexivity. Qed.
(* a hash-driven shuffle that really moves elements *)
Example C20_ex_shuffle : shuffle_go toyH [10;20;30;40;50;60;70;80;90] [1;2;3] = [60;10;80;50;30;70;40;90;20]
                      /\ shuffle_fast toyH [10;20;30;40;50;60;70;80;90] [1;2;3] = [60;10;80;50;30;70;40;90;20].
Proof. vm_compute. split; reflexivity. Qed.
(* hypotheses of cores_share hold for both parameter sets of the node; tiny: three validators per core *)
Example C20_ex_share :
  (0 < pC tiny_params /\ pV tiny_params mod pC tiny_params = 0 /\ pV tiny_params / pC tiny_params = 3) /\
  (0 < pC full_params /\ pV full_params mod pC full_params = 0 /\ pV full_params / pC full_params = 3) /\
  permute_go toyH tiny_params [1;2;3] 0 = [0;1;0;0;1;1].
Proof. vm_compute. repeat split; reflexivity. Qed.
(* hypotheses of rotation_step: slots 0 and 4 (tiny R = 4) are in the same epoch and the assignment
   moves; slots 8 and 12 are not in the same epoch (the hypothesis excludes the epoch boundary) *)
Example C20_ex_rotation :
  0 / pE tiny_params = (0 + pR tiny_params) / pE tiny_params /\
  permute_go toyH tiny_params [1;2;3] 4 = [1;0;1;1;0;0] /\
  permute_go toyH tiny_params [1;2;3] 4 <> permute_go toyH tiny_params [1;2;3] 0 /\
  8 / pE tiny_params <> (8 + pR tiny_params) / pE tiny_params.
Proof. vm_compute. repeat split; discriminate. Qed.
