(* C04 — gas metering and reported gas usage.  Property theorems only (machine: Model/PvmRun.v). *)
From JamV Require Import Model.PvmRun Proofs.PvmCodeP Proofs.PvmMemP Proofs.PvmAluP Proofs.PvmStepP
     Proofs.PvmRunP Proofs.PvmExamplesP.
Local Open Scope Z_scope.

(* every executed instruction costs exactly one unit; the machine stops out-of-gas exactly when less
   than one unit is left, BEFORE executing, and then nothing (state, counter) has changed *)
Theorem C04_step_costs_one : forall p pc s e pc' s', step p pc s = (e, pc', s') ->
  (e = OutOfGas /\ gas s < 1 /\ s' = s /\ pc' = pc) \/
  (e <> OutOfGas /\ 1 <= gas s /\ gas s' = gas s - 1).
Proof. exact step_costs_one. Qed.
Print Assumptions C04_step_costs_one.

(* out-of-gas is exact: whenever the first n steps continue under some supply >= n, a supply of
   exactly n stops out-of-gas when the (n+1)-th step would start, and counter, registers and
   memory are those reached by exactly these n paid-for steps *)
Theorem C04_oog_exact : forall n p pc s pc' s', Z.of_nat n <= gas s ->
  nsteps n p pc s = Some (pc', s') ->
  forall fuel, (n < fuel)%nat ->
  run fuel p pc (with_gas s (Z.of_nat n)) = Some (OutOfGas, pc', with_gas s' 0).
Proof. exact oog_exact. Qed.
Print Assumptions C04_oog_exact.

(* conversely an out-of-gas exit occurs only with the supply used up: exactly [gas s] steps ran *)
Theorem C04_oog_only_when_exhausted : forall fuel p pc s pc' s', 0 <= gas s ->
  run fuel p pc s = Some (OutOfGas, pc', s') ->
  gas s' = 0 /\ nsteps (Z.to_nat (gas s)) p pc s = Some (pc', s').
Proof. exact oog_only_when_exhausted. Qed.
Print Assumptions C04_oog_only_when_exhausted.

(* any other exit is independent of surplus gas: same exit, counter, registers, memory; the
   surplus comes back untouched (so "used" does not depend on the limit) *)
Theorem C04_more_gas_same_result : forall fuel p pc s d e pc' s', 0 <= d ->
  run fuel p pc s = Some (e, pc', s') -> e <> OutOfGas ->
  run fuel p pc (with_gas s (gas s + d)) = Some (e, pc', with_gas s' (gas s' + d)).
Proof. exact run_more_gas. Qed.
Print Assumptions C04_more_gas_same_result.

(* host calls: the modelled ones (gas, and the default for an unknown identifier) charge exactly 10 *)
Theorem C04_host_costs_ten : forall s,
  match host_gas s with HCont s' | HStop _ s' => gas s' = gas s - 10 end /\
  match host_unknown s with HCont s' | HStop _ s' => gas s' = gas s - 10 end.
Proof. exact host_costs_ten. Qed.
Print Assumptions C04_host_costs_ten.

(* across the whole host-call loop gas never grows, whatever the host functions do short of adding gas *)
Theorem C04_gas_never_grows : forall hostf fuel p pc s log e pc' s' log', host_mono hostf ->
  run_h hostf fuel p pc s log = Some (e, pc', s', log') -> gas s' <= gas s.
Proof. exact run_h_gas_le. Qed.
Print Assumptions C04_gas_never_grows.

(* the reported usage  limit - max(remaining, 0)  lies in [0, limit] for EVERY 64-bit limit,
   including limits >= 2^63, which the signed gas counter reads as negative *)
Theorem C04_gas_used_range : forall hostf fuel p pc r m limit e pc' s' log used, host_mono hostf ->
  0 <= limit < W64 ->
  invoke hostf fuel p pc r m limit = Some (e, pc', s', log, used) ->
  0 <= used <= limit.
Proof. exact gas_used_range. Qed.
Print Assumptions C04_gas_used_range.

(* what such a limit does: nothing runs, out-of-gas at once, the whole limit reported as used *)
Theorem C04_huge_limit_runs_nothing : forall hostf fuel p pc r m limit, 9223372036854775808 <= limit < W64 ->
  invoke hostf (S fuel) p pc r m limit =
  Some (OutOfGas, pc, {| regs := r; gas := limit - W64; mem := m |}, [], limit).
Proof. exact huge_limit_runs_nothing. Qed.
Print Assumptions C04_huge_limit_runs_nothing.

(* ---- non-vacuity ---- *)
(* four instructions (fallthrough x3, trap): with gas 4 it panics with 0 left; with gas 3 it is
   out of gas ON the trap (counter 3) after exactly three paid-for steps; with gas 9, 5 are left *)
Example C04_ex_exact :
  run 10 p_four_steps 0 (st0 4) = Some (Panic, 0, st0 0) /\
  run 10 p_four_steps 0 (st0 3) = Some (OutOfGas, 3, st0 0) /\
  run 10 p_four_steps 0 (st0 9) = Some (Panic, 0, st0 5) /\
  nsteps 3 p_four_steps 0 (st0 9) = Some (3, st0 6).
Proof. vm_compute. repeat split; reflexivity. Qed.
Example C04_ex_used :
  invoke (host_tab 64) 10 p_four_steps 0 regs0 mem0 9 = Some (Panic, 0, st0 5, [], 4) /\
  invoke (host_tab 64) 10 p_four_steps 0 regs0 mem0 2 = Some (OutOfGas, 2, st0 0, [], 2) /\
  invoke (host_tab 64) 10 p_four_steps 0 regs0 mem0 9223372036854775808 =
    Some (OutOfGas, 0, st0 (-9223372036854775808), [], 9223372036854775808).
Proof. vm_compute. repeat split; reflexivity. Qed.
Example C04_ex_host_mono : host_mono (host_tab 64).
Proof. exact (host_tab_mono 64). Qed.

(* ---- the transfer host call: charge 10, plus its gas argument exactly when it succeeds ---- *)
From JamV Require Import Model.PvmHostGas Proofs.PvmHostGasP.

Theorem C04_transfer_charge : forall c l s s', 0 <= l -> host_transfer c l s = HCont s' ->
  gas s' = gas s - 10 - (match c with XOk => l | _ => 0 end) /\ 0 <= gas s'.
Proof. exact transfer_charge. Qed.
Print Assumptions C04_transfer_charge.

Theorem C04_transfer_oog_iff : forall c l s, 0 <= l ->
  (exists s', host_transfer c l s = HStop OutOfGas s') <->
  gas s < 10 + (match c with XOk => l | _ => 0 end).
Proof. exact transfer_oog_iff. Qed.
Print Assumptions C04_transfer_oog_iff.

Theorem C04_transfer_error_costs_ten : forall c l s, c <> XOk -> 10 <= gas s ->
  exists s', host_transfer c l s = HCont s' /\ gas s' = gas s - 10.
Proof. exact transfer_error_costs_ten. Qed.
Print Assumptions C04_transfer_error_costs_ten.
