(* C13 — Decoding is strict and canonical. Property theorems only (proofs in Proofs/CodecCanonP.v). *)
From JamV Require Import Base.Bytes Model.NatCodec Model.Codec Model.JamTypes
  Proofs.CodecP Proofs.CodecCanonP Proofs.CodecFastP Proofs.JamTypesP.
Local Open Scope N_scope.

(* whatever byte string the decoder of a well-formed descriptor accepts is exactly the encoding of the
   value it returns, followed by the unconsumed rest *)
Theorem C13_codec_canonical : forall d bs v r,
  wf_desc d = true -> wf_bytes bs = true -> dec d bs = Some (v, r) ->
  exists b, enc d v = Some b /\ bs = b ++ r.
Proof. intros d bs v r Hwf. exact (canonical d Hwf bs v r). Qed.
Print Assumptions C13_codec_canonical.

(* ... i.e. re-encoding reproduces the consumed bytes (and their count) *)
Theorem C13_accepted_reencodes : forall d bs v r,
  wf_desc d = true -> wf_bytes bs = true -> dec d bs = Some (v, r) ->
  exists b, enc d v = Some b /\ bs = b ++ r /\ length b = (length bs - length r)%nat.
Proof. exact accepted_reencodes. Qed.
Print Assumptions C13_accepted_reencodes.

(* truncated input: every proper prefix of an encoding is rejected *)
Theorem C13_rejects_truncated : forall d v b p q,
  wf_desc d = true -> enc d v = Some b -> b = p ++ q -> q <> [] -> dec d p = None.
Proof. exact rejects_truncated. Qed.
Print Assumptions C13_rejects_truncated.

(* optional discriminators other than 0/1 and variant discriminators naming no alternative are rejected *)
Theorem C13_rejects_bad_option_tag : forall d t r, t <> 0 -> t <> 1 -> dec (DOpt d) (t :: r) = None.
Proof. exact rejects_bad_option_tag. Qed.
Print Assumptions C13_rejects_bad_option_tag.

Theorem C13_rejects_bad_variant_tag : forall alts t r, assoc t alts = None -> dec (DVar alts) (t :: r) = None.
Proof. exact rejects_bad_variant_tag. Qed.
Print Assumptions C13_rejects_bad_variant_tag.

(* non-minimal integer encodings: whatever a lenient reader would read as x, only enc_nat x is accepted *)
Theorem C13_rejects_nonminimal_int : forall bound bs x r,
  wf_bytes bs = true -> dec_nat_lenient bs = Some (x, r) -> bs <> enc_nat x ++ r -> dec (DNat bound) bs = None.
Proof. exact rejects_nonminimal_int. Qed.
Print Assumptions C13_rejects_nonminimal_int.

(* frames of the fuzz protocol: an accepted frame is the frame of the decoded message *)
Theorem C13_frame_canonical : forall d bs v r,
  wf_desc d = true -> wf_bytes bs = true -> dec_frame d bs = Some (v, r) ->
  exists f, enc_frame d v = Some f /\ bs = f ++ r.
Proof. exact frame_canonical. Qed.
Print Assumptions C13_frame_canonical.

Theorem C13_protocol_descriptors_wf : forall p, pL p < two64 -> forallb wf_desc (all_descs p) = true.
Proof. exact all_descs_wf. Qed.
Print Assumptions C13_protocol_descriptors_wf.

(* the extracted decoder run against the Go code is the decoder of these theorems *)
Theorem C13_extracted_decoder : forall d bs, decf d bs = dec d bs.
Proof. exact decf_eq. Qed.
Print Assumptions C13_extracted_decoder.

(* ---- non-vacuity and the concrete rejected shapes ---- *)
(* accepted: a byte sequence of length 2 followed by junk; rejected: the short read 05 01 02, the
   non-minimal length 80 02, an option flag 2, a dictionary with keys out of order / duplicated,
   a compact natural too large for its 16-bit field, a bit-field with padding bits set,
   a doubly-prefixed key whose two lengths differ *)
Example C13_ex_accept : dec DBlob [2; 10; 11; 99] = Some (VB [10; 11], [99]).
Proof. reflexivity. Qed.
Example C13_ex_short_read : dec DBlob [5; 1; 2] = None.
Proof. reflexivity. Qed.
Example C13_ex_nonminimal : dec DBlob [128; 2; 10; 11] = None /\ dec_nat_lenient [128; 2; 10; 11] = Some (2, [10; 11]).
Proof. split; reflexivity. Qed.
Example C13_ex_option : dec (DOpt dU8) [2; 7] = None /\ dec (DOpt dU8) [1; 7] = Some (VO (Some (VN 7)), []).
Proof. split; reflexivity. Qed.
Example C13_ex_map_order :
  dec dAlwaysAccumulateMap [2; 1;0;0;0; 9;0;0;0;0;0;0;0; 0;1;0;0; 5;0;0;0;0;0;0;0] <> None /\
  dec dAlwaysAccumulateMap [2; 0;1;0;0; 5;0;0;0;0;0;0;0; 1;0;0;0; 9;0;0;0;0;0;0;0] = None /\
  dec dAlwaysAccumulateMap [2; 1;0;0;0; 9;0;0;0;0;0;0;0; 1;0;0;0; 5;0;0;0;0;0;0;0] = None.
Proof. repeat split; try (vm_compute; reflexivity). vm_compute. discriminate. Qed.
Example C13_ex_narrow : dec dC16 [194; 0; 0] = None /\ dec dC32 [194; 0; 0] = Some (VN 131072, []).
Proof. split; vm_compute; reflexivity. Qed.
Example C13_ex_bits : dec (dBitfield tiny) [3] = Some (VN 3, []) /\ dec (dBitfield tiny) [7] = None.
Proof. split; vm_compute; reflexivity. Qed.
Example C13_ex_blob2 : dec DBlob2 [2; 2; 8; 9] = Some (VB [8; 9], []) /\ dec DBlob2 [3; 2; 8; 9] = None.
Proof. split; vm_compute; reflexivity. Qed.
Example C13_ex_truncated :
  exists b, enc dTicketBody (VL [VB (repeat 5 32); VN 300]) = Some b /\ length b = 34%nat /\
            dec dTicketBody (firstn 33 b) = None.
Proof. eexists. split; [vm_compute; reflexivity|]. split; vm_compute; reflexivity. Qed.
