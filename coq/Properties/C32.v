(* C32 — Work digest and package specification fields. Property theorems only (proofs in Proofs/WorkDigestP.v).
   digest_of = GP 14.8 (work_package.C after the proposed patch C32-digest-refine-load), digest_prepatch = work_package.C as
   found (defect model), item_outcome / run_items = work_package.I / WorkReportCompute, spec_of = work_package.A without the
   erasure root.  The hash H is universally quantified. *)
From JamV Require Import Base.Bytes Model.Merkle Model.WorkDigest Proofs.WorkDigestP.
Local Open Scope N_scope.

(* the digest records service, code hash, H(payload), accumulate gas, the result, and the refine load
   (gas used, |imports|, |extrinsics|, sum of extrinsic lengths, export count), for every item, result and gas *)
Theorem C32_digest_spec : forall H w l u,
  let d := digest_of H w l u in
  dg_service d = wi_service w /\ dg_code_hash d = wi_code_hash w /\ dg_payload_hash d = H (wi_payload w) /\
  dg_acc_gas d = wi_acc_gas w /\ dg_result d = l /\ dg_gas_used d = u /\
  dg_imports d = nlen (wi_imports w) /\ dg_xcount d = nlen (wi_extrinsics w) /\
  dg_xsize d = sum_N (map snd (wi_extrinsics w)) /\ dg_exports d = wi_export_count w.
Proof. exact digest_spec. Qed.
Print Assumptions C32_digest_spec.

(* the Go function as found is NOT this: witness 2 extrinsics (70000 and 5 octets), 3 exports gives
   extrinsic count 3 (should be 2), extrinsic size 2 (should be 70005), exports 4469 = 70005 mod 2^16 (should be 3) *)
Theorem C32_digest_prepatch_refuted : forall H,
  exists w l u, digest_prepatch H w l u <> digest_of H w l u /\
    dg_xcount (digest_prepatch H w l u) = 3 /\ dg_xcount (digest_of H w l u) = 2 /\
    dg_xsize (digest_prepatch H w l u) = 2 /\ dg_xsize (digest_of H w l u) = 70005 /\
    dg_exports (digest_prepatch H w l u) = 4469 /\ dg_exports (digest_of H w l u) = 3.
Proof. exact digest_prepatch_refuted. Qed.
Print Assumptions C32_digest_prepatch_refuted.

(* ... and it is wrong only there: the other seven fields of the pre-patch function are the specified ones *)
Theorem C32_digest_prepatch_same_prefix : forall H w l u,
  let d := digest_prepatch H w l u in let s := digest_of H w l u in
  dg_service d = dg_service s /\ dg_code_hash d = dg_code_hash s /\ dg_payload_hash d = dg_payload_hash s /\
  dg_acc_gas d = dg_acc_gas s /\ dg_result d = dg_result s /\ dg_gas_used d = dg_gas_used s /\ dg_imports d = dg_imports s.
Proof. exact digest_prepatch_same_prefix. Qed.
Print Assumptions C32_digest_prepatch_same_prefix.

(* package specification: hash, bundle length, export count, exports root = constant-depth Merkle root (C18's M) *)
Theorem C32_spec_fields : forall H p b ex,
  let s := spec_of H p b ex in
  ps_hash s = p /\ ps_length s = nlen b /\ ps_exports_count s = nlen ex /\ ps_exports_root s = Nroot H (C H ex).
Proof. exact spec_fields. Qed.
Print Assumptions C32_spec_fields.

(* a whole package: one digest per item, each the GP 14.8 digest of its own item with the gas refinement reported ... *)
Theorem C32_package_digests : forall H W_R sz items z k d,
  nth_error (fst (run_items H W_R sz z items)) k = Some d ->
  exists w o l, nth_error items k = Some (w, o) /\ d = digest_of H w l (snd o).
Proof. exact run_items_digests. Qed.
Print Assumptions C32_package_digests.

(* ... and the export count of "the same data" is the sum of the items' declared export counts, whatever refinement did *)
Theorem C32_package_lengths : forall H W_R sz items z,
  length (fst (run_items H W_R sz z items)) = length items /\
  nlen (snd (run_items H W_R sz z items)) = sum_N (map (fun it => wi_export_count (fst it)) items).
Proof. exact run_items_lengths. Qed.
Print Assumptions C32_package_lengths.

(* the recorded result is a blob exactly when the output fits, the export count matches and refinement succeeded *)
Theorem C32_result_ok_iff : forall W_R sz w z kind r e u d,
  fst (fst (item_outcome W_R sz w z kind r e u)) = ROk d <->
  nlen r + z <= W_R /\ nlen e = wi_export_count w /\ kind = None /\ d = r.
Proof. exact (item_outcome_ok_iff (fun x => x)). Qed.
Print Assumptions C32_result_ok_iff.

(* ------------------------------------------------------------------ non-vacuity *)
Definition toyH32 (b : bytes) : bytes := [fold_right N.add 0 b mod 256].
Definition ex_item : work_item :=
  mk_item 42 [1; 1] [3; 4; 5] 1000 2000 2 [([7], 0); ([7], 1); ([8], 5)] [([9], 100); ([10], 0); ([11], 65536)].
Example C32_ex_digest :
  digest_of toyH32 ex_item (ROk [6; 6]) 77 = mk_digest 42 [1; 1] [12] 2000 (ROk [6; 6]) 77 3 3 65636 2.
Proof. reflexivity. Qed.
Example C32_ex_prepatch :
  digest_prepatch toyH32 ex_item (ROk [6; 6]) 77 = mk_digest 42 [1; 1] [12] 2000 (ROk [6; 6]) 77 3 2 3 100.
Proof. reflexivity. Qed.
Example C32_ex_outcomes :
  item_outcome 10 4 ex_item 3 None [1; 2] [[1]; [2]] 5 = (ROk [1; 2], 5, [[1]; [2]]) /\
  item_outcome 10 4 ex_item 9 None [1; 2] [[1]; [2]] 5 = (RErr K_oversize, 5, [[0; 0; 0; 0]; [0; 0; 0; 0]]) /\
  item_outcome 10 4 ex_item 3 None [1; 2] [[1]] 5 = (RErr K_bad_exports, 5, [[0; 0; 0; 0]; [0; 0; 0; 0]]) /\
  item_outcome 10 4 ex_item 3 (Some K_panic) [] [[1]; [2]] 5 = (RErr K_panic, 5, [[0; 0; 0; 0]; [0; 0; 0; 0]]).
Proof. repeat split; reflexivity. Qed.
Example C32_ex_spec : ps_length (spec_of toyH32 [1] [5; 5; 5] [[1]; [2]; [3]]) = 3
  /\ ps_exports_count (spec_of toyH32 [1] [5; 5; 5] [[1]; [2]; [3]]) = 3.
Proof. split; reflexivity. Qed.
