(* C02 — the two PVM engines are observationally equivalent.  Property theorems only.
   Models: Model/PvmEngines.v (M1 = single-step engine [run_steps], M2 = block engine [predecode] + [run_blocks],
   each with its own decoding / table / counter / gas bookkeeping; [fixed] = the engines with the C02 repairs,
   the other [quirks] = the behaviours of the tree before them).  Proofs: Proofs/PvmEnginesP.v. *)
From JamV Require Import Model.NatCodec Model.PvmEngines Proofs.PvmCodeP Proofs.PvmStepP Proofs.PvmEnginesP.
Local Open Scope Z_scope.

(* For EVERY program accepted by deblob, start state, counter and fuel the block engine and the single-step
   engine return the same (exit, counter, registers, gas, memory) — [st] is (registers, gas, memory).
   Proved by induction on the fuel with the invariant "the rest of the current slice is a chain of table
   entries each of which equals the decode of the code at its own counter" ([chain], [table_ok]). *)
Theorem C02_engines_equiv : forall b p, deblob b = Some p ->
  forall fuel pc s, run_blocks fixed fuel p pc s = run_steps fixed fuel p pc s.
Proof. exact engines_equiv. Qed.
Print Assumptions C02_engines_equiv.

(* ... and the same again when each engine is resumed from the counter it returned itself after any host-call
   result, for any number of host calls (the log records identifier and returned counter of every call) *)
Theorem C02_engines_equiv_resumed : forall b p, deblob b = Some p ->
  forall (hostf : Z -> st -> hres) calls fuel pc s log,
  psi_h (run_blocks fixed) hostf calls fuel p pc s log = psi_h (run_steps fixed) hostf calls fuel p pc s log.
Proof. exact engines_equiv_host. Qed.
Print Assumptions C02_engines_equiv_resumed.

(* both engines compute the Gray Paper machine of C01 (PvmRun.run); this is what the correspondence compares with *)
Theorem C02_engines_are_gp : forall b p, deblob b = Some p ->
  forall (hostf : Z -> st -> hres) calls fuel pc s log,
  psi_h (run_blocks fixed) hostf calls fuel p pc s log = psi_h run hostf calls fuel p pc s log /\
  psi_h (run_steps fixed) hostf calls fuel p pc s log = psi_h run hostf calls fuel p pc s log.
Proof. exact engines_are_gp. Qed.
Print Assumptions C02_engines_are_gp.

(* the pre-decoded table: every entry of Instrs equals the decode of the code at its own counter; InstrIdxAt[pc]
   leads to the entry of pc; a block BlockAt[pc] = [a, b) starts at that entry and is exactly the slice the
   mid-block path computes from there (up to and including the first terminator); and entries exist exactly
   at the instruction starts (marked addresses and fall-through successors of non-terminators at such) *)
Theorem C02_predecode_sound : forall b p, deblob b = Some p ->
  let tb := predecode p in
  (forall i e, nth_error (t_instrs tb) i = Some e -> e = entry_of p (m_pc e)) /\
  (forall pc a, aget pc (t_idx tb) = Some a ->
     nth_error (t_instrs tb) a = Some (entry_of p pc) /\ 0 <= pc < code_len p) /\
  (forall pc a b', aget pc (t_blocks tb) = Some (a, b') ->
     aget pc (t_idx tb) = Some a /\
     upto_term (skipn a (t_instrs tb)) = Some (firstn (b' - a) (skipn a (t_instrs tb)))) /\
  (forall pc, aget pc (t_idx tb) <> None <-> istart p pc).
Proof.
  intros b p H tb. pose proof (deblob_mask_len b p H) as L.
  split; [apply (predecode_entries p L)|]. split; [apply (predecode_entries p L)|].
  split; [apply (predecode_blocks p L)|apply (predecode_keys p L)].
Qed.
Print Assumptions C02_predecode_sound.

(* whatever the engine fetches for a counter inside the code is a non-empty chain of such entries starting at
   that counter, or nothing (then it decodes on demand); the "no terminator found" panic cannot occur *)
Theorem C02_fetch_sound : forall b p, deblob b = Some p -> table_ok p (predecode p).
Proof. intros b p H. apply predecode_table_ok. eapply deblob_mask_len; eassumption. Qed.
Print Assumptions C02_fetch_sound.

(* a handler of the block engine that reads its operands from the InstrMeta fields (Dst / Src / Imm, filled per
   operand format by decodeOperands) computes what the handler of the single-step engine computes from the
   operands decoded at execution time — for every opcode *)
Theorem C02_meta_fields_roundtrip : forall p pc o ar l r m e0, 0 <= o <= 230 ->
  exec_d p pc o (meta_args (instr_of o) (with_fields e0 (meta_fields (cat_of o) ar))) l r m = exec_d p pc o ar l r m.
Proof. exact exec_d_meta. Qed.
Print Assumptions C02_meta_fields_roundtrip.

(* ---- the engines of the tree BEFORE the repairs proposed_fixes/C02-01..06 are NOT equivalent:
        one witness per defect (each replayed on the Go code, see notes/C02.md) ---- *)
(* C02-01: a page-fault exit of the single-step engine returns pc + skip + 1, the block engine pc *)
Theorem C02_fault_pc_refuted : differ blob_fault fixed (q_of true false false false false false) 10 0 (st0 10).
Proof. exact fault_pc_refuted. Qed.
Print Assumptions C02_fault_pc_refuted.
(* C02-02: a host-call exit of the single-step engine returns the ecalli's own counter (resuming there repeats the call) *)
Theorem C02_host_pc_refuted : differ blob_ecalli fixed (q_of false true false false false false) 10 0 (st0 10).
Proof. exact host_pc_refuted. Qed.
Print Assumptions C02_host_pc_refuted.
(* C02-03: the single-step engine does not charge the trap past the end of the code *)
Theorem C02_end_charge_refuted : differ blob_fall fixed (q_of false false true false false false) 10 0 (st0 5).
Proof. exact end_charge_refuted. Qed.
Print Assumptions C02_end_charge_refuted.
(* C02-04: in the single-step engine a taken jump to its own address falls through *)
Theorem C02_self_jump_refuted : differ blob_self fixed (q_of false false false true false false) 10 0 (st0 3).
Proof. exact self_jump_refuted. Qed.
Print Assumptions C02_self_jump_refuted.
(* C02-05: the single-step engine reads operands from the raw code: a register byte past the end halts the machine *)
Theorem C02_regs_past_end_refuted : differ blob_movereg fixed (q_of false false false false true false) 10 0 (st0 5).
Proof. exact regs_past_end_refuted. Qed.
Print Assumptions C02_regs_past_end_refuted.
(* C02-06: the block engine panics, uncharged, at a counter its scan never came by: entry inside an instruction ... *)
Theorem C02_odd_entry_refuted : differ blob_odd (q_of false false false false false true) fixed 10 1 (st0 5).
Proof. exact odd_entry_refuted. Qed.
Print Assumptions C02_odd_entry_refuted.
(* ... or, from the regular entry point, the address 25 bytes behind a terminator whose skip is clamped at 24 *)
Theorem C02_clamped_skip_refuted : differ blob_gap (q_of false false false false false true) fixed 10 0 (st0 5).
Proof. exact clamped_skip_refuted. Qed.
Print Assumptions C02_clamped_skip_refuted.

(* ---- non-vacuity ---- *)
(* load_imm r1 = 3; ecalli 0 (gas); fallthrough; L: r1 -= 1; store_u8 [0x20000] = r1; branch_ne_imm r1, 0, L;
   ecalli 7; trap — a loop, a store, two host calls, both resumed in the middle of a block (InstrIdxAt path) *)
Definition blob_loop : bytes :=
  [0;0;21; 51;1;3; 10;0; 1; 149;17;255; 59;1;0;0;2; 82;17;0;248; 10;7; 0; 105;66;20]%N.
Definition st_loop : st := {| regs := repeat 0 13; gas := 100;
   mem := {| m_pages := [(32, {| p_acc := AccRW; p_dat := [] |})]; m_hp := 0; m_hl := 0 |} |}.
Definition view (r : option (exit * Z * st * list (Z * Z))) :=
  match r with Some (e, pc, s, log) => Some (e, pc, gas s, regs s, log) | None => None end.

Definition on_blob {A} (b : bytes) (f : prog -> A) : option A := match deblob b with Some p => Some (f p) | None => None end.

Example engines_equiv_loop_blocks :
  on_blob blob_loop (fun p => view (psi_h (run_blocks fixed) (host_tab 64) 10 100 p 0 st_loop []))
    = Some (Some (Panic, 0, 76, [0; 0; 0; 0; 0; 0; 0; 88; 0; 0; 0; 0; 0], [(7, 20); (0, 5)])).
Proof. vm_compute. reflexivity. Qed.
Example engines_equiv_loop_steps :
  on_blob blob_loop (fun p => view (psi_h (run_steps fixed) (host_tab 64) 10 100 p 0 st_loop []))
    = Some (Some (Panic, 0, 76, [0; 0; 0; 0; 0; 0; 0; 88; 0; 0; 0; 0; 0], [(7, 20); (0, 5)])).
Proof. vm_compute. reflexivity. Qed.
(* its table: 8 entries, blocks at 0, 6 and 18; 5 and 20 are entries inside blocks *)
Example loop_table :
  on_blob blob_loop (fun p => (map fst (t_idx (predecode p)), t_blocks (predecode p)))
    = Some ([20; 18; 14; 9; 6; 5; 3; 0], [(18, (6, 8)%nat); (6, (3, 6)%nat); (0, (0, 3)%nat)]).
Proof. vm_compute. reflexivity. Qed.

(* what the two sides return on the witnesses above *)
Example refuted_values :
  [ both blob_fault fixed (q_of true false false false false false) 10 0 (st0 10);
    both blob_ecalli fixed (q_of false true false false false false) 10 0 (st0 10);
    both blob_fall fixed (q_of false false true false false false) 10 0 (st0 5);
    both blob_self fixed (q_of false false false true false false) 10 0 (st0 3);
    both blob_movereg fixed (q_of false false false false true false) 10 0 (st0 5);
    both blob_odd (q_of false false false false false true) fixed 10 1 (st0 5);
    both blob_gap (q_of false false false false false true) fixed 10 0 (st0 5) ]
  = [ (Some (Fault 131072, 0, 9), Some (Fault 131072, 5, 9));
      (Some (Host 5, 2, 9), Some (Host 5, 0, 9));
      (Some (Panic, 0, 3), Some (Panic, 0, 4));
      (Some (OutOfGas, 0, 0), Some (Panic, 0, 1));
      (Some (Panic, 0, 3), Some (Halt, 0, 4));
      (Some (Panic, 0, 5), Some (Panic, 0, 3));
      (Some (Panic, 0, 4), Some (Panic, 0, 3)) ].
Proof. vm_compute. reflexivity. Qed.

(* an address the machine executes at without the bitmask marking it: in blob_gap the table has entries at 0 and 27
   only; 25 (behind the terminator fallthrough, skip clamped) is decoded on demand *)
Example gap_table : on_blob blob_gap (fun p => map fst (t_idx (predecode p))) = Some [27; 0].
Proof. vm_compute. reflexivity. Qed.

(* an instruction start the bitmask does not mark: move_reg followed by 27 unmarked bytes, then a marked trap at 28;
   skip(0) is clamped at 24, so the next instruction is at 25 and the scan gives it an entry (istart_next) *)
Definition blob_gap2 : bytes := ([0; 0; 29; 100; 0] ++ repeat 0 26 ++ [0] ++ [1; 0; 0; 16])%N.
Example gap2_table : on_blob blob_gap2 (fun p => (map fst (t_idx (predecode p)), kreal p 25, t_blocks (predecode p)))
  = Some ([28; 25; 0], false, [(28, (2, 3)%nat); (0, (0, 2)%nat)]).
Proof. vm_compute. reflexivity. Qed.

(* an unscanned, non-terminator address visited three times by a loop: fallthrough (skip clamped) -> 25: add_imm_64 r1,r1,1
   (unmarked) -> 28: branch_lt_u_imm r1, 3 -> 0 ; 32: trap.  Ten instructions, r1 = 3; decoding on demand is stateless,
   so the 2nd and 3rd visit behave like the first (corpus/C02: the Go engines return exactly this) *)
Definition blob_gap_loop : bytes :=
  ([0; 1; 33; 1] ++ repeat 0 24 ++ [149; 17; 1; 83; 17; 3; 228; 0] ++ [1; 0; 0; 16; 1])%N.
Example gap_loop_both :
  on_blob blob_gap_loop (fun p =>
    (match run_blocks fixed 100 p 0 (st0 1000) with Some (e, pc, s) => Some (e, pc, gas s, nth 1 (regs s) 0) | None => None end,
     match run_steps fixed 100 p 0 (st0 1000) with Some (e, pc, s) => Some (e, pc, gas s, nth 1 (regs s) 0) | None => None end,
     map fst (t_idx (predecode p))))
  = Some (Some (Panic, 0, 990, 3), Some (Panic, 0, 990, 3), [32; 28; 0]).
Proof. vm_compute. reflexivity. Qed.
