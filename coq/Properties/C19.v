(* C19 — Merkle mountain range append and commitment (Gray Paper E.2).  Property theorems only.
   Specification S = Model/Mmr.v: append A/P/R, the closed form mmr_of, the super-peak M_R.
   Hm is the merge hash, K the Keccak of the super-peak; both universally quantified, nothing assumed.
   The aliasing clause ("peak lists handed out earlier are never modified") is about Go slices, which a
   pure model cannot express: it is decided by the re-read-at-end correspondence (see check/props/C19.py). *)
From JamV Require Import Base.Bytes Model.Mmr Proofs.MmrP.

(* ---- appending x to the range of xs gives the range of xs ++ [x]  (binary-counter induction) *)
Theorem C19_mmr_append_spec : forall (Hm : bytes -> bytes) (xs : list bytes) (x : bytes),
  append Hm (mmr_of Hm xs) x = mmr_of Hm (xs ++ [x]).
Proof. exact mmr_append_spec. Qed.
Print Assumptions C19_mmr_append_spec.

(* hence every history of appends from the empty range is the closed form *)
Theorem C19_mmr_history : forall (Hm : bytes -> bytes) (xs : list bytes),
  append_all Hm [] xs = mmr_of Hm xs.
Proof. exact mmr_history. Qed.
Print Assumptions C19_mmr_history.

(* peak i of the closed form: present exactly when bit i of |xs| is set, and then the perfect merge
   (mtree i) of the 2^i items that follow the items held by the higher peaks *)
Theorem C19_mmr_peaks : forall (Hm : bytes -> bytes) (xs : list bytes) (i : nat),
  nth i (mmr_of Hm xs) None =
  if Nat.testbit (length xs) i
  then Some (mtree Hm i (firstn (2 ^ i) (skipn (2 ^ S i * (length xs / 2 ^ S i)) xs)))
  else None.
Proof. exact mmr_peaks. Qed.
Print Assumptions C19_mmr_peaks.

Theorem C19_mmr_peak_present : forall (Hm : bytes -> bytes) (xs : list bytes) (i : nat),
  nth i (mmr_of Hm xs) None <> None <-> Nat.testbit (length xs) i = true.
Proof. exact mmr_peak_present. Qed.
Print Assumptions C19_mmr_peak_present.

(* ---- appending to an arbitrary (restored) peak list, holes included: the new item is merged upwards
        through the leading present peaks (which become holes), lands in the first hole (or extends the
        list), and every peak above is untouched *)
Theorem C19_append_from_holes : forall (Hm : bytes -> bytes) (r : peaks) (l : bytes),
  append Hm r l =
  repeat None (first_hole r) ++ Some (carry Hm r l) :: skipn (S (first_hole r)) r.
Proof. exact append_from_holes. Qed.
Print Assumptions C19_append_from_holes.

(* the peaks always stand for exactly one more item *)
Theorem C19_append_weight : forall (Hm : bytes -> bytes) (r : peaks) (l : bytes),
  weight (append Hm r l) = weight r + 1.
Proof. exact append_weight. Qed.
Print Assumptions C19_append_weight.

Theorem C19_mmr_weight : forall (Hm : bytes -> bytes) (xs : list bytes), weight (mmr_of Hm xs) = length xs.
Proof. exact mmr_weight. Qed.
Print Assumptions C19_mmr_weight.

(* ---- super-peak: the three Gray Paper equations over the present peaks h = [h | h <- b, h <> none] *)
Theorem C19_superpeak_spec : forall (K : bytes -> bytes) (b : peaks),
  (somes b = [] -> superpeak K b = zero32) /\
  (forall h, somes b = [h] -> superpeak K b = h) /\
  (forall hs x, hs <> [] -> somes b = hs ++ [x] ->
     superpeak K b = K (peak_tag ++ superpeak K (map Some hs) ++ x)).
Proof.
  intros K b. split; [apply superpeak_none|]. split; [apply superpeak_one | apply superpeak_more].
Qed.
Print Assumptions C19_superpeak_spec.

(* ---- Go-shaped pieces refine S: SuperPeak as a left fold; AppendAndCommitMmr; AppendOne(nil) *)
Theorem C19_superpeak_fold_refines : forall (K : bytes -> bytes) (b : peaks),
  superpeak_fold K b = superpeak K b.
Proof. exact superpeak_fold_refines. Qed.
Print Assumptions C19_superpeak_fold_refines.

Theorem C19_append_and_commit : forall (Hm K : bytes -> bytes) (r : peaks) (l : bytes),
  append_and_commit Hm K r l = (append Hm r l, superpeak K (append Hm r l)).
Proof. intros. unfold append_and_commit. rewrite superpeak_fold_refines. reflexivity. Qed.
Print Assumptions C19_append_and_commit.

(* ---- non-vacuity on a toy hash *)
Definition toyH (x : bytes) : bytes :=
  let s := fold_left (fun acc b => ((acc * 31 + b + 7) mod 65521)%N) x 1%N in [(s mod 256)%N; (s / 256)%N].
Definition items : list bytes := [[1%N]; [2%N]; [3%N]; [4%N]; [5%N]; [6%N]].

(* six items: bits 1 and 2 set; appending a seventh fills peak 0 *)
Example C19_ex_peaks :
  mmr_of toyH items = [None; Some (toyH ([5%N] ++ [6%N])); Some (mtree toyH 2 (firstn 4 items))] /\
  append toyH (mmr_of toyH items) [7%N] = [Some [7%N]; Some (toyH ([5%N] ++ [6%N])); Some (mtree toyH 2 (firstn 4 items))] /\
  Nat.testbit (length items) 1 = true /\ Nat.testbit (length items) 0 = false.
Proof. repeat split; vm_compute; reflexivity. Qed.

(* a carry through two present peaks into a hole, the peak above the hole untouched *)
Example C19_ex_holes :
  append toyH [Some [1%N]; Some [2%N]; None; Some [9%N]] [3%N] =
  [None; None; Some (toyH ([2%N] ++ toyH ([1%N] ++ [3%N]))); Some [9%N]] /\
  first_hole [Some [1%N]; Some [2%N]; None; Some [9%N]] = 2.
Proof. split; vm_compute; reflexivity. Qed.

(* super-peak over a list with holes: all three cases occur *)
Example C19_ex_superpeak :
  superpeak toyH [None; None] = zero32 /\
  superpeak toyH [None; Some [5%N]; None] = [5%N] /\
  superpeak toyH [Some [1%N]; None; Some [2%N]; Some [3%N]] =
    toyH (peak_tag ++ toyH (peak_tag ++ [1%N] ++ [2%N]) ++ [3%N]).
Proof. repeat split; vm_compute; reflexivity. Qed.
