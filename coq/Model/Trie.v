(* C15 — Gray Paper Appendix D binary Merkle trie (state root). Executable model only, no proofs.
   S = [trie]      : M_sigma by bit-prefix recursion with the stable partition (List.filter)
   M = [merklize]  : the Go `merklize` (merklization.go) with `partitionByBit`'s in-place swap loop
                     replayed on lists by index (nth / update).
   The hash is a Section variable; after the Section every definition takes it as an argument. *)
From JamV Require Export Base.Bytes.
Local Open Scope N_scope.

(* a state entry: (31-byte key, value) *)
Definition entry := (bytes * bytes)%type.

(* bit d of a key, most significant bit of byte 0 first (Go: key[d/8] & (1 << (7 - d%8))) *)
Definition bit (k : bytes) (d : nat) : bool :=
  N.testbit (nth (d / 8)%nat k 0) (N.of_nat (7 - d mod 8)%nat).

Definition bit0 (d : nat) (e : entry) : bool := negb (bit (fst e) d).
Definition bit1 (d : nat) (e : entry) : bool := bit (fst e) d.

Definition zero_hash : bytes := zeros 32.

Section Trie.
Variable H : bytes -> bytes.

(* GP D.4 leaf: embedded value when |v| <= 32 (first byte 0b10 ++ 6-bit length, key, value padded to 32),
   otherwise first byte 0b11000000, key, H(v).   Go: encodeLeafNode *)
Definition leaf (k v : bytes) : bytes :=
  if (length v <=? 32)%nat
  then (128 + N.of_nat (length v)) :: k ++ v ++ zeros (32 - length v)%nat
  else 192 :: k ++ H v.

(* GP D.3 branch: left hash with its first bit cleared, then the right hash.   Go: encodeBranchNode *)
Definition branch (l r : bytes) : bytes :=
  N.land (hd 0 l) 127 :: tl l ++ r.

Definition leaf_hash (e : entry) : bytes := H (leaf (fst e) (snd e)).

(* ---- S : the specification ------------------------------------------------------------- *)
Fixpoint trie (fuel d : nat) (es : list entry) : option bytes :=
  match es with
  | [] => Some zero_hash
  | [e] => Some (leaf_hash e)
  | _ =>
    match fuel with
    | O => None
    | S f =>
      match trie f (S d) (filter (bit0 d) es), trie f (S d) (filter (bit1 d) es) with
      | Some l, Some r => Some (H (branch l r))
      | _, _ => None
      end
    end
  end.

Definition root (es : list entry) : option bytes := trie 249 0 es.

(* ---- M : the Go algorithm -------------------------------------------------------------- *)
Definition dflt : entry := ([], []).

Definition upd (l : list entry) (i : nat) (x : entry) : list entry :=
  firstn i l ++ x :: skipn (S i) l.

(* entries[i], entries[j] = entries[j], entries[i] *)
Definition swap (l : list entry) (i j : nat) : list entry :=
  let a := nth i l dflt in
  let b := nth j l dflt in
  upd (upd l i b) j a.

(* the loop of partitionByBit: n = iterations left, right = loop index, left = write index *)
Fixpoint part_loop (d n right left : nat) (l : list entry) : list entry * nat :=
  match n with
  | O => (l, left)
  | S n' =>
    if bit0 d (nth right l dflt)
    then part_loop d n' (S right) (S left) (swap l left right)
    else part_loop d n' (S right) left l
  end.

(* entries[:pivot], entries[pivot:] after the loop *)
Definition go_partition (d : nat) (l : list entry) : list entry * list entry :=
  let (l', p) := part_loop d (length l) 0 0 l in (firstn p l', skipn p l').

Fixpoint merklize (fuel d : nat) (es : list entry) : option bytes :=
  match es with
  | [] => Some zero_hash
  | [e] => Some (leaf_hash e)
  | _ =>
    match fuel with
    | O => None      (* Go: depth 248 indexes Key[31] and panics *)
    | S f =>
      let (l, r) := go_partition d es in
      match merklize f (S d) l, merklize f (S d) r with
      | Some a, Some b => Some (H (branch a b))
      | _, _ => None
      end
    end
  end.

(* MerklizationSerializedState *)
Definition go_root (es : list entry) : option bytes := merklize 249 0 es.

End Trie.
