(* C02 — the two engines of the Go interpreter (PVM/invocation.go), as functions.

   M1 = the single-step engine  SingleStepStateTransition / SingleStepInvoke  (inner machines):
        opcode and operands are decoded when the instruction executes, the engine itself works out
        the next counter from what the handler returns.
   M2 = the block engine  preDecodeBlocks + SingleStepInvokeDecodedBlocks  (top-level invocations):
        a table built once at deblob time (flat array Instrs of InstrMeta records with the fields
        Dst / Src / Imm, BlockAt : counter -> slice bounds, InstrIdxAt : counter -> index), executed
        slice by slice, with the mid-block entry path through InstrIdxAt and, for a counter the scan
        never came by, decoding on demand.

   Both engines apply PvmStep's per-opcode function to a decoded instruction ([exec_d], which is
   [PvmStep.exec] with opcode / operands / length as parameters).  Everything around it is modelled
   per engine, as written in the Go code: where opcode, operands and length come from, which
   InstrMeta field a handler reads, the order of the end-of-code / gas tests, the gas charge, and
   the counter returned for every kind of exit.

   [quirks] switches the behaviours of the tree BEFORE the C02 repairs back on, one flag per defect
   (all false = the repaired engines; the refutations in Proofs/PvmEnginesP.v use one flag each).
   Executable Gallina only. *)
From JamV Require Export Model.PvmRun.
Local Open Scope Z_scope.

Record quirks := {
  q_fault_adv : bool;   (* M1: a page-fault exit returns pc + skip + 1 instead of pc                       *)
  q_host_own : bool;    (* M1: a host-call exit returns the ecalli's own pc instead of the resume point      *)
  q_end_free : bool;    (* M1: past the end of the code: panic without the gas test and the charge          *)
  q_self_fall : bool;   (* M1: "pc != newPC" decides taken-ness: a taken jump to its own address falls through *)
  q_regs_end_halt : bool; (* M1: register operands read from the raw code: two-/three-register formats whose
                             operand byte lies past the end report "pc out of bound" and the handler HALTS  *)
  q_no_demand : bool    (* M2: a counter without table entry (bitmask bit clear) panics, uncharged           *)
}.

Definition fixed : quirks :=
  {| q_fault_adv := false; q_host_own := false; q_end_free := false; q_self_fall := false;
     q_regs_end_halt := false; q_no_demand := false |}.

(* ---- the shared per-opcode function on a decoded instruction -------------------------------- *)
(* [PvmStep.exec] with the opcode o, the operands ar and the length l supplied by the caller *)
Definition exec_d (p : prog) (pc o : Z) (ar : args) (l : Z) (r : list Z) (m : memory)
  : exit * Z * list Z * memory :=
  let i := instr_of o in
  let next := pc + 1 + l in
  let A := greg r (rA ar) in
  let B := greg r (rB ar) in
  let D := greg r (rD ar) in
  let X := vX ar in
  let Y := vY ar in
  match i with
  | ITrap => (Panic, 0, r, m)
  | IFallthrough => (Continue, next, r, m)
  | IEcalli => (Host X, next, r, m)
  | ILoadImm64 => (Continue, next, sreg r (rA ar) X, m)
  | IStoreImm w => do_store next r m (X mod ADDR) w Y
  | IJump => let '(e, t) := branch p next X true in (e, t, r, m)
  | IJumpInd => let '(e, t) := djump p ((A + X) mod ADDR) in (e, t, r, m)
  | ILoadImm => (Continue, next, sreg r (rA ar) X, m)
  | ILoad w sg => do_load next r m (X mod ADDR) w sg (rA ar)
  | IStore w => do_store next r m (X mod ADDR) w A
  | IStoreImmInd w => do_store next r m ((A + X) mod ADDR) w Y
  | ILoadImmJump => let '(e, t) := branch p next Y true in (e, t, sreg r (rA ar) X, m)
  | IBranchImm c => let '(e, t) := branch p next Y (eval_cond1 c A X) in (e, t, r, m)
  | IMoveReg => (Continue, next, sreg r (rD ar) A, m)
  | ISbrk => let '(v, m') := sbrk m A in (Continue, next, sreg r (rD ar) v, m')
  | IAlu2 f => (Continue, next, sreg r (rD ar) (eval_alu2 f A), m)
  | IStoreInd w => do_store next r m ((B + X) mod ADDR) w A
  | ILoadInd w sg => do_load next r m ((B + X) mod ADDR) w sg (rA ar)
  | IAlu2i f => (Continue, next, sreg r (rA ar) (eval_alu2i f B X A), m)
  | IBranch c => let '(e, t) := branch p next X (eval_cond2 c A B) in (e, t, r, m)
  | ILoadImmJumpInd => let '(e, t) := djump p ((B + Y) mod ADDR) in (e, t, sreg r (rA ar) X, m)
  | IAlu3 f => (Continue, next, sreg r (rD ar) (eval_alu3 f A B D), m)
  end.

(* isOpcode (program_code.go) / instrMetaExecForOpcode: an undefined opcode byte runs the trap handler *)
Definition norm_op (o : Z) : Z := if valid_op o then o else 0.

(* isControlTransfer (invocation.go): op > 1 && IsBlockTerminator(op) — the handlers of these opcodes
   return the address of the next instruction themselves *)
Definition is_ctl (o : Z) : bool := (1 <? o) && is_term o.

Definition charged (s : st) (r : list Z) (m : memory) : st := {| regs := r; gas := gas s - 1; mem := m |}.

(* ================================================================================================
   M1 — the single-step engine
   ================================================================================================ *)

(* the counter a handler of instructions.go returns with ExitContinue: its own pc, except that jumps and
   branches return the target when taken and (after the repair) pc + skip + 1 when not taken.
   [t] is the next counter computed by the per-opcode function. *)
Definition handler_pc (q : quirks) (o pc l t : Z) : Z :=
  if is_ctl o then (if q_self_fall q then (if t =? pc + 1 + l then pc else t) else t) else pc.

(* SingleStepStateTransition, followed by the switch of SingleStepInvoke on its result *)
Definition step1 (q : quirks) (p : prog) (pc : Z) (s : st) : exit * Z * st :=
  if code_len p <=? pc then
    (* "int(pc) >= len(InstructionData)": trap of the zero-extended code *)
    if q_end_free q then (Panic, 0, s)
    else if gas s <? 1 then (OutOfGas, pc, s)
    else (Panic, 0, charged s (regs s) (mem s))
  else
    let o := opcode_at p pc in                      (* isOpcode *)
    if gas s <? 1 then (OutOfGas, pc, s)
    else
      let l := skip p pc in
      let c := cat_of o in
      if q_regs_end_halt q &&
         (match c with
          | CRegReg => code_len p <=? pc + 1          (* decodeTwoRegisters: "pc out of bound" *)
          | CRegRegReg => code_len p <=? pc + 2       (* decodeThreeRegisters *)
          | _ => false
          end)
      then (Halt, 0, charged s (regs s) (mem s))
      else
        (* the handler decodes its operands now, from the zero-extended code, and executes *)
        let ar := decode p pc in
        let '(e, t, r', m') := exec_d p pc o ar l (regs s) (mem s) in
        let s' := charged s r' m' in
        match e with
        | Halt => (Halt, 0, s')
        | Panic => (Panic, 0, s')
        | Host id => (Host id, if q_host_own q then pc else pc + l + 1, s')
        | Fault a => (Fault a, if q_fault_adv q then pc + l + 1 else pc, s')
        | OutOfGas => (OutOfGas, pc, s')
        | Continue =>
          let h := handler_pc q o pc l t in
          if q_self_fall q then (Continue, if negb (pc =? h) then h else pc + l + 1, s')
          else (Continue, if is_ctl o then h else pc + l + 1, s')
        end.

(* SingleStepInvoke: iterate while the exit is CONTINUE *)
Fixpoint run_steps (q : quirks) (fuel : nat) (p : prog) (pc : Z) (s : st) : option (exit * Z * st) :=
  match fuel with
  | O => None
  | S f =>
    let '(e, pc', s') := step1 q p pc s in
    match e with
    | Continue => run_steps q f p pc' s'
    | _ => Some (e, pc', s')
    end
  end.

(* ================================================================================================
   M2 — the block engine
   ================================================================================================ *)

(* InstrMeta (block_info.go); 255 = 0xFF = "no register" *)
Record imeta := { m_pc : Z; m_op : Z; m_skip : Z; m_dst : nat; m_src0 : nat; m_src1 : nat; m_imm0 : Z; m_imm1 : Z }.

Definition NOREG : nat := 255.

(* decodeOperands: which operand goes into which field, per operand format *)
Definition meta_fields (c : cat) (ar : args) : nat * nat * nat * Z * Z :=
  match c with
  | CNone => (NOREG, NOREG, NOREG, 0, 0)
  | CImm => (NOREG, NOREG, NOREG, vX ar, 0)
  | CRegImm64 => (rA ar, NOREG, NOREG, vX ar, 0)
  | CImmImm => (NOREG, NOREG, NOREG, vX ar, vY ar)
  | COff => (NOREG, NOREG, NOREG, vX ar, 0)
  | CRegImm => (rA ar, rA ar, NOREG, vX ar, 0)
  | CRegImmImm => (rA ar, rA ar, NOREG, vX ar, vY ar)
  | CRegImmOff => (rA ar, rA ar, NOREG, vX ar, vY ar)
  | CRegReg => (rD ar, rA ar, NOREG, 0, 0)
  | CRegRegImm => (rA ar, rB ar, NOREG, vX ar, 0)
  | CRegRegOff => (NOREG, rA ar, rB ar, vX ar, 0)
  | CRegRegImmImm => (rA ar, rB ar, NOREG, vX ar, vY ar)
  | CRegRegReg => (rD ar, rA ar, rB ar, 0, 0)
  end.

(* decodeInstr: the table entry for the instruction at pc (pc inside the blob); the operand format is
   that of the raw opcode byte (opcodeInfoTable: an undefined opcode has no operands) *)
Definition entry_of (p : prog) (pc : Z) : imeta :=
  let '(d, s0, s1, i0, i1) := meta_fields (cat_of (opcode_at p pc)) (decode p pc) in
  {| m_pc := pc; m_op := zeta p pc; m_skip := skip p pc; m_dst := d; m_src0 := s0; m_src1 := s1;
     m_imm0 := i0; m_imm1 := i1 |}.

(* the entry appended when a block runs off the end of the blob: Exec = instTrapMeta *)
Definition trap_entry (pc : Z) : imeta :=
  {| m_pc := pc; m_op := 0; m_skip := 0; m_dst := NOREG; m_src0 := NOREG; m_src1 := NOREG; m_imm0 := 0; m_imm1 := 0 |}.

(* which fields the handlers of instructions_instrmeta.go read, per instruction *)
Definition meta_args (i : instr) (e : imeta) : args :=
  let mk a b d x y := {| rA := a; rB := b; rD := d; vX := x; vY := y; lX := 0; lY := 0 |} in
  match i with
  | ITrap | IFallthrough => no_args
  | IEcalli => mk O O O (m_imm0 e) 0
  | ILoadImm64 => mk (m_dst e) O O (m_imm0 e) 0
  | IStoreImm _ => mk O O O (m_imm0 e) (m_imm1 e)
  | IJump => mk O O O (m_imm0 e) 0
  | IJumpInd => mk (m_src0 e) O O (m_imm0 e) 0
  | ILoadImm | ILoad _ _ | IStore _ => mk (m_dst e) O O (m_imm0 e) 0
  | IStoreImmInd _ => mk (m_src0 e) O O (m_imm0 e) (m_imm1 e)
  | ILoadImmJump | IBranchImm _ => mk (m_src0 e) O O (m_imm0 e) (m_imm1 e)
  | IMoveReg | ISbrk | IAlu2 _ => mk (m_src0 e) O (m_dst e) 0 0
  | IStoreInd _ | ILoadInd _ _ | IAlu2i _ => mk (m_dst e) (m_src0 e) O (m_imm0 e) 0
  | IBranch _ => mk (m_src0 e) (m_src1 e) O (m_imm0 e) 0
  | ILoadImmJumpInd => mk (m_dst e) (m_src0 e) O (m_imm0 e) (m_imm1 e)
  | IAlu3 _ => mk (m_src0 e) (m_src1 e) (m_dst e) 0 0
  end.

(* Program.Instrs, Program.BlockAt (counter -> InstrStart, InstrEnd), Program.InstrIdxAt (counter -> index) *)
Record table := { t_instrs : list imeta; t_blocks : list (Z * (nat * nat)); t_idx : list (Z * nat) }.

Definition empty_table : table := {| t_instrs := []; t_blocks := []; t_idx := [] |}.

(* ---- preDecodeBlocks ---- *)
(* state of the two nested loops: the counter, the block being filled (StartPC, InstrStart) if the
   inner loop is running, and the table so far *)
Record pstate := { s_pc : Z; s_open : option (Z * nat); s_tab : table }.

(* one iteration of the inner loop for the block (bpc, bidx), the counter standing at pc *)
Definition scan_body (p : prog) (pc bpc : Z) (bidx : nat) (tb : table) : pstate :=
  let len := length (t_instrs tb) in
  if code_len p <=? pc then
    (* the block runs off the end: implicit trap entry, block closed *)
    {| s_pc := pc; s_open := None;
       s_tab := {| t_instrs := t_instrs tb ++ [trap_entry pc];
                   t_blocks := (bpc, (bidx, S len)) :: t_blocks tb; t_idx := t_idx tb |} |}
  else
    let e := entry_of p pc in
    let ins := t_instrs tb ++ [e] in
    let idx := (pc, len) :: t_idx tb in
    if is_term (m_op e) then
      {| s_pc := pc + m_skip e + 1; s_open := None;
         s_tab := {| t_instrs := ins; t_blocks := (bpc, (bidx, S len)) :: t_blocks tb; t_idx := idx |} |}
    else
      {| s_pc := pc + m_skip e + 1; s_open := Some (bpc, bidx);
         s_tab := {| t_instrs := ins; t_blocks := t_blocks tb; t_idx := idx |} |}.

(* one step of the scan; None = the outer loop has ended *)
Definition scan_step (p : prog) (st : pstate) : option pstate :=
  match s_open st with
  | Some (bpc, bidx) => Some (scan_body p (s_pc st) bpc bidx (s_tab st))
  | None =>
    if code_len p <=? s_pc st then None
    else if negb (kreal p (s_pc st)) then            (* !IsStartOfInstruction(pc): pc++ *)
      Some {| s_pc := s_pc st + 1; s_open := None; s_tab := s_tab st |}
    else                                             (* open a block here and decode its first instruction *)
      Some (scan_body p (s_pc st) (s_pc st) (length (t_instrs (s_tab st))) (s_tab st))
  end.

Fixpoint scan (fuel : nat) (p : prog) (st : pstate) : pstate :=
  match fuel with
  | O => st
  | S f => match scan_step p st with None => st | Some st' => scan f p st' end
  end.

(* every step but the closing one moves the counter forward, so |c| + 2 steps end the scan *)
Definition predecode (p : prog) : table :=
  s_tab (scan (S (S (length (code p)))) p {| s_pc := 0; s_open := None; s_tab := empty_table |}).

(* ---- SingleStepInvokeDecodedBlocks ---- *)
(* instrSlice[i:] up to and including the first block terminator *)
Fixpoint upto_term (l : list imeta) : option (list imeta) :=
  match l with
  | [] => None
  | e :: t => if is_term (m_op e) then Some [e]
              else match upto_term t with Some sl => Some (e :: sl) | None => None end
  end.

Inductive fetched := FSlice (sl : list imeta) | FPanic | FNone.

(* the instructions the outer loop picks for the counter pc (pc inside the blob) *)
Definition fetch (tb : table) (pc : Z) : fetched :=
  match aget pc (t_blocks tb) with
  | Some (a, b) => FSlice (firstn (b - a) (skipn a (t_instrs tb)))          (* BlockAt[pc] *)
  | None =>
    match aget pc (t_idx tb) with
    | Some a =>                                                             (* mid-block entry: InstrIdxAt[pc] *)
      match upto_term (skipn a (t_instrs tb)) with
      | Some sl => FSlice sl
      | None => FPanic                                                      (* !foundTerminator *)
      end
    | None => FNone
    end
  end.

(* state of the engine between two instructions: the rest of the current slice ([] = at the top of the
   outer loop) and the counter variable pc (read only at the top of the outer loop) *)
Inductive bres := BDone (r : exit * Z * st) | BNext (cur : list imeta) (pc : Z) (s : st).

(* the body of the inner loop on one InstrMeta *)
Definition bins (p : prog) (ins : imeta) (rest : list imeta) (pc : Z) (s : st) : bres :=
  if gas s <? 1 then BDone (OutOfGas, m_pc ins, s)
  else
    let o := norm_op (m_op ins) in                           (* Exec was resolved from the opcode at deblob time *)
    let ar := meta_args (instr_of o) ins in                  (* the handler reads the InstrMeta fields *)
    let '(e, t, r', m') := exec_d p (m_pc ins) o ar (m_skip ins) (regs s) (mem s) in
    let s' := charged s r' m' in
    match e with
    | Halt => BDone (Halt, 0, s')
    | Panic => BDone (Panic, 0, s')
    | Fault a => BDone (Fault a, m_pc ins, s')
    | OutOfGas => BDone (OutOfGas, m_pc ins, s')
    | Host id => BDone (Host id, m_pc ins + m_skip ins + 1, s')
    | Continue =>
      if is_ctl (m_op ins) then BNext [] t s'                (* pc = newPC; break *)
      else match rest with
           | [] => BNext [] (m_pc ins + m_skip ins + 1) s'   (* !branchTaken: pc = last.PC + SkipLen + 1 *)
           | _ => BNext rest pc s'
           end
    end.

Definition bstep (q : quirks) (tb : table) (p : prog) (cur : list imeta) (pc : Z) (s : st) : bres :=
  match cur with
  | ins :: rest => bins p ins rest pc s
  | [] =>
    if code_len p <=? pc then
      (* past the end of the blob: charged trap *)
      if gas s <? 1 then BDone (OutOfGas, pc, s) else BDone (Panic, 0, charged s (regs s) (mem s))
    else
      match fetch tb pc with
      | FSlice (ins :: rest) => bins p ins rest pc s
      | FSlice [] => BDone (Panic, 0, s)                     (* never: a slice holds at least its terminator *)
      | FPanic => BDone (Panic, 0, s)
      | FNone =>
        if q_no_demand q then BDone (Panic, 0, s)
        else bins p (entry_of p pc) [] pc s                  (* decodeInstr(pc) on demand *)
      end
  end.

(* one unit of fuel = one instruction, as in [run_steps] *)
Fixpoint run_b (q : quirks) (fuel : nat) (tb : table) (p : prog) (cur : list imeta) (pc : Z) (s : st)
  : option (exit * Z * st) :=
  match fuel with
  | O => None
  | S f =>
    match bstep q tb p cur pc s with
    | BDone r => Some r
    | BNext cur' pc' s' => run_b q f tb p cur' pc' s'
    end
  end.

(* an invocation (and every resumption after a host call) enters at the top of the outer loop *)
Definition run_blocks (q : quirks) (fuel : nat) (p : prog) (pc : Z) (s : st) : option (exit * Z * st) :=
  run_b q fuel (predecode p) p [] pc s.

(* ================================================================================================
   Psi_H over an arbitrary engine: after a host-call exit the host function is applied and the
   engine is resumed from the counter IT returned.  The log keeps (identifier, returned counter).
   ================================================================================================ *)
Section Host.
  Variable eng : nat -> prog -> Z -> st -> option (exit * Z * st).
  Variable hostf : Z -> st -> hres.

  Fixpoint psi_h (calls fuel : nat) (p : prog) (pc : Z) (s : st) (log : list (Z * Z))
    : option (exit * Z * st * list (Z * Z)) :=
    match calls with
    | O => None
    | S c =>
      match eng fuel p pc s with
      | None => None
      | Some (Host id, pc', s') =>
        match hostf id s' with
        | HCont s'' => psi_h c fuel p pc' s'' ((id, pc') :: log)
        | HStop e' s'' => Some (e', pc', s'', (id, pc') :: log)
        end
      | Some (e, pc', s') => Some (e, pc', s', log)
      end
    end.
End Host.
