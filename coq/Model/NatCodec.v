(* C12 — Gray Paper C.6 variable-length natural encoding, executable spec. No proofs here. *)
From JamV Require Export Base.Bytes.
Local Open Scope N_scope.

(* number of payload bytes for x : the l with 2^(7l) <= x < 2^(7(l+1)), 8 above 2^56 *)
Definition len_class (x : N) : nat :=
  if x <? 128 then 0%nat
  else if x <? 16384 then 1%nat
  else if x <? 2097152 then 2%nat
  else if x <? 268435456 then 3%nat
  else if x <? 34359738368 then 4%nat
  else if x <? 4398046511104 then 5%nat
  else if x <? 562949953421312 then 6%nat
  else if x <? 72057594037927936 then 7%nat
  else 8%nat.

(* lower bound 2^(7l) of class l (0 for l = 0) *)
Definition class_lo (l : nat) : N :=
  match l with
  | 0%nat => 0 | 1%nat => 128 | 2%nat => 16384 | 3%nat => 2097152 | 4%nat => 268435456
  | 5%nat => 34359738368 | 6%nat => 4398046511104 | 7%nat => 562949953421312
  | _ => 72057594037927936
  end.

(* prefix base 2^8 - 2^(8-l) *)
Definition pre_base (l : nat) : N :=
  match l with
  | 0%nat => 0 | 1%nat => 128 | 2%nat => 192 | 3%nat => 224 | 4%nat => 240
  | 5%nat => 248 | 6%nat => 252 | 7%nat => 254 | _ => 255
  end.

Definition pow256 (l : nat) : N :=
  match l with
  | 0%nat => 1 | 1%nat => 256 | 2%nat => 65536 | 3%nat => 16777216 | 4%nat => 4294967296
  | 5%nat => 1099511627776 | 6%nat => 281474976710656 | 7%nat => 72057594037927936
  | _ => 18446744073709551616
  end.

Definition enc_nat (x : N) : bytes :=
  let l := len_class x in
  (pre_base l + x / pow256 l) :: le_enc l (x mod pow256 l).

(* number of leading one bits of a byte *)
Definition lead_ones (b : N) : nat :=
  if b <? 128 then 0%nat else if b <? 192 then 1%nat else if b <? 224 then 2%nat
  else if b <? 240 then 3%nat else if b <? 248 then 4%nat else if b <? 252 then 5%nat
  else if b <? 254 then 6%nat else if b <? 255 then 7%nat else 8%nat.

(* strict decoder: value, rest; None on truncated or non-minimal input *)
Definition dec_nat (bs : bytes) : option (N * bytes) :=
  match bs with
  | [] => None
  | b :: t =>
    let l := lead_ones b in
    if (length t <? l)%nat then None
    else
      let x := (b - pre_base l) * pow256 l + le_dec (firstn l t) in
      if class_lo l <=? x then Some (x, skipn l t) else None
  end.

(* the lenient decoder = what a decoder without the minimality check computes; used to
   characterise the known deviation of the implementation (defect model D_nonminimal) *)
Definition dec_nat_lenient (bs : bytes) : option (N * bytes) :=
  match bs with
  | [] => None
  | b :: t =>
    let l := lead_ones b in
    if (length t <? l)%nat then None
    else Some ((b - pre_base l) * pow256 l + le_dec (firstn l t), skipn l t)
  end.
