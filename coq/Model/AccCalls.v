(* Accounting-relevant accumulate host calls (GP App. B: new, upgrade, transfer, eject, checkpoint,
   write, solicit, forget, info) on an abstract context. Executable Gallina only, no proofs.
   [step] is parameterised by an arithmetic record so that the same semantics runs with exact
   (unbounded) arithmetic = the specification S, with the Go uint64 arithmetic of the repaired tree,
   and with the Go arithmetic of the unchanged tree (the defect model). *)
From JamV Require Import Base.Bytes Model.Accounts.
Local Open Scope N_scope.

Record xfer := mkXfer { x_from : N; x_to : N; x_amt : N; x_memo : bytes; x_gas : N }.

Definition amap := list (N * account).
Record ctx := mkCtx { c_accts : amap; c_xfers : list xfer; c_next : N }.
Definition state := (ctx * ctx)%type.           (* (x, y): regular and exceptional context *)

Record env := mkEnv {
  e_self : N;        (* x_s *)
  e_slot : N;        (* t   *)
  e_D : N;           (* D, UnreferencedPreimageTimeslots *)
  e_manager : N;     (* (x_u)_m *)
  e_registrar : N    (* (x_u)_r *)
}.

(* ---- arithmetic used by the calls ---- *)
Record arith := mkArith {
  ar_thr : N -> N -> N -> N;                   (* items octets gratis -> a_t *)
  ar_debit_new : N -> N -> N -> option N;      (* balance, amount, own threshold -> new balance | CASH *)
  ar_debit_xfer : N -> N -> N -> option N;
  ar_add : N -> N -> N                         (* balance + credited amount *)
}.

Definition debit_exact (b amt t : N) : option N := if b <? amt + t then None else Some (b - amt).
Definition ar_exact : arith := mkArith threshold_raw debit_exact debit_exact N.add.

(* Go, host_call_accumulate.go: newBalance := s.Balance - at (uint64); CASH iff newBalance < minBalance *)
Definition debit_new_go_orig (b amt t : N) : option N :=
  let nb := (b + two64 - amt) mod two64 in if nb <? t then None else Some nb.
(* repaired: additionally CASH when s.Balance < at *)
Definition debit_new_go (b amt t : N) : option N :=
  let nb := (b + two64 - amt) mod two64 in if (b <? amt) || (nb <? t) then None else Some nb.
(* a tempting 'simplification' of the repaired test: one comparison s.Balance < at + minBalance, the sum taken in
   uint64 (wraps when the caller's threshold is within a_t of 2^64 or saturated) *)
Definition debit_new_go_sum (b amt t : N) : option N :=
  if b <? (amt + t) mod two64 then None else Some ((b + two64 - amt) mod two64).
(* transfer: b := Balance - a; CASH iff b < minBalance || Balance < a *)
Definition debit_xfer_go (b amt t : N) : option N :=
  let nb := (b + two64 - amt) mod two64 in if (nb <? t) || (b <? amt) then None else Some nb.
Definition add_go (a b : N) : N := (a + b) mod two64.

Definition ar_go : arith := mkArith threshold_go64 debit_new_go debit_xfer_go add_go.
Definition ar_go_orig : arith := mkArith threshold_go32 debit_new_go_orig debit_xfer_go add_go.

(* ---- results (register 7) ---- *)
Inductive ret :=
| ROk | RNone | RWho | RFull | RCash | RLow | RHuh
| RVal (n : N)                                   (* a length, a service id *)
| RInfo (code : bytes) (fields : list N)         (* b t g m o i f r a p *)
| RCk.                                           (* checkpoint: remaining gas, not modelled *)

Inductive op :=
| ONew (c : bytes) (l g m f i : N)
| OUpgrade (c : bytes) (g m : N)
| OTransfer (d amt l : N) (memo : bytes)
| OEject (d : N) (h : bytes)
| OCheckpoint
| OWrite (k v : bytes)                           (* v = [] deletes *)
| OSolicit (h : bytes) (z : N)
| OForget (h : bytes) (z : N)
| OInfo (s : N).                                 (* 2^64-1 = self *)

Definition Smin : N := 65536.                    (* S, MinimumServiceIndex *)
Definition id_mod : N := two32 - Smin - 256.

Fixpoint check (fuel : nat) (i : N) (d : amap) : N :=
  match fuel with
  | O => i
  | S f => match al_get N.eqb i d with
           | None => i
           | Some _ => check f ((i - Smin + 1) mod id_mod + Smin) d
           end
  end.

Definition get (i : N) (d : amap) := al_get N.eqb i d.
Definition put (i : N) (a : account) (d : amap) := al_set N.eqb i a d.

Section Calls.
  Variable ar : arith.
  Variable e : env.

  Definition thr (a : account) : N := ar_thr ar (a_items a) (a_octets a) (a_gratis a).

  Definition new_account (c : bytes) (l g m f : N) : account :=
    mkAcct c (ar_thr ar 2 (look_fp l) f) g m (look_fp l) 2 f (e_slot e) 0 (e_self e)
           [] [((c, l), [])] [].

  Definition call_new (x : ctx) (c : bytes) (l g m f i : N) : ret * ctx :=
    match get (e_self e) (c_accts x) with
    | None => (RHuh, x)
    | Some s =>
      if negb (f =? 0) && negb (e_self e =? e_manager e) then (RHuh, x) else
      let a := new_account c l g m f in
      match ar_debit_new ar (a_bal s) (a_bal a) (thr s) with
      | None => (RCash, x)
      | Some nb =>
        let s' := set_bal s nb in
        if (e_self e =? e_registrar e) && (i <? Smin) then
          match get i (c_accts x) with
          | Some _ => (RFull, x)
          | None => (RVal i, mkCtx (put (e_self e) s' (put i a (c_accts x))) (c_xfers x) (c_next x))
          end
        else
          let nxt := check (S (length (c_accts x))) (Smin + (c_next x - Smin + 42) mod id_mod) (c_accts x) in
          (RVal (c_next x), mkCtx (put (e_self e) s' (put (c_next x) a (c_accts x))) (c_xfers x) nxt)
      end
    end.

  Definition call_upgrade (x : ctx) (c : bytes) (g m : N) : ret * ctx :=
    match get (e_self e) (c_accts x) with
    | None => (ROk, x)
    | Some s => (ROk, mkCtx (put (e_self e) (set_code s c g m) (c_accts x)) (c_xfers x) (c_next x))
    end.

  Definition call_transfer (x : ctx) (d amt l : N) (memo : bytes) : ret * ctx :=
    match get d (c_accts x) with
    | None => (RWho, x)
    | Some ad =>
      if l <? a_m ad then (RLow, x) else
      match get (e_self e) (c_accts x) with
      | None => (ROk, x)
      | Some s =>
        match ar_debit_xfer ar (a_bal s) amt (thr s) with
        | None => (RCash, x)
        | Some nb =>
          (ROk, mkCtx (put (e_self e) (set_bal s nb) (c_accts x))
                      (c_xfers x ++ [mkXfer (e_self e) d amt memo l]) (c_next x))
        end
      end
    end.

  Definition call_eject (x : ctx) (d : N) (h : bytes) : ret * ctx :=
    match get d (c_accts x) with
    | None => (RWho, x)
    | Some ad =>
      if (d =? e_self e) || negb (bytes_eqb (a_code ad) (le_enc 32 (e_self e))) then (RWho, x) else
      let l := N.max 81 (a_octets ad) - 81 in
      match al_get lk_eqb (h, l) (a_lookups ad) with
      | None => (RHuh, x)
      | Some ts =>
        if negb (a_items ad =? 2) then (RHuh, x) else
        match ts with
        | [_; y] =>
          if y + e_D e <? e_slot e then
            match get (e_self e) (c_accts x) with
            | None => (RHuh, x)
            | Some s =>
              (ROk, mkCtx (al_del N.eqb d (put (e_self e) (set_bal s (ar_add ar (a_bal s) (a_bal ad))) (c_accts x)))
                          (c_xfers x) (c_next x))
            end
          else (RHuh, x)
        | _ => (RHuh, x)
        end
      end
    end.

  (* write: GP B.? / host_call_general.go:write. Deleting and replacing use the recorded counters
     incrementally, exactly as the Go code does. *)
  Definition call_write (x : ctx) (k v : bytes) : ret * ctx :=
    match get (e_self e) (c_accts x) with
    | None => (RHuh, x)
    | Some s =>
      let old := al_get bytes_eqb k (a_storage s) in
      let fi := match old with Some _ => 1 | None => 0 end in
      let fo := match old with Some ov => stor_fp k ov | None => 0 end in
      let r := match old with Some ov => RVal (blen ov) | None => RNone end in
      let a :=
        match v with
        | [] => set_storage s (a_items s - fi) (a_octets s - fo) (al_del bytes_eqb k (a_storage s))
        | _ => set_storage s (a_items s - fi + 1) (a_octets s - fo + stor_fp k v) (al_set bytes_eqb k v (a_storage s))
        end in
      if a_bal a <? thr a then (RFull, x)
      else (r, mkCtx (put (e_self e) a (c_accts x)) (c_xfers x) (c_next x))
    end.

  Definition call_solicit (x : ctx) (h : bytes) (z : N) : ret * ctx :=
    match get (e_self e) (c_accts x) with
    | None => (RHuh, x)
    | Some s =>
      match al_get lk_eqb (h, z) (a_lookups s) with
      | None =>
        let a := set_lookups s (a_items s + 2) (a_octets s + look_fp z)
                             (al_set lk_eqb (h, z) [] (a_lookups s)) (a_preimages s) in
        if a_bal a <? thr a then (RFull, x)
        else (ROk, mkCtx (put (e_self e) a (c_accts x)) (c_xfers x) (c_next x))
      | Some [t0; t1] =>
        let a := set_lookups s (a_items s - 2 + 2) (a_octets s - look_fp z + look_fp z)
                             (al_set lk_eqb (h, z) [t0; t1; e_slot e] (a_lookups s)) (a_preimages s) in
        (ROk, mkCtx (put (e_self e) a (c_accts x)) (c_xfers x) (c_next x))
      | Some _ => (RHuh, x)
      end
    end.

  Definition expired (y : N) : bool := y + e_D e <? e_slot e.     (* y < t - D over the integers *)

  Definition call_forget (x : ctx) (h : bytes) (z : N) : ret * ctx :=
    match get (e_self e) (c_accts x) with
    | None => (RHuh, x)
    | Some s =>
      let drop := set_lookups s (a_items s - 2) (a_octets s - look_fp z)
                              (al_del lk_eqb (h, z) (a_lookups s)) (del_bytes h (a_preimages s)) in
      let upd ts := set_lookups s (a_items s - 2 + 2) (a_octets s - look_fp z + look_fp z)
                                (al_set lk_eqb (h, z) ts (a_lookups s)) (a_preimages s) in
      let fin a := (ROk, mkCtx (put (e_self e) a (c_accts x)) (c_xfers x) (c_next x)) in
      match al_get lk_eqb (h, z) (a_lookups s) with
      | None => (RHuh, x)
      | Some [] => fin drop
      | Some [t0] => fin (upd [t0; e_slot e])
      | Some [t0; t1] => if expired t1 then fin drop else (RHuh, x)
      | Some [t0; t1; t2] => if expired t1 then fin (upd [t2; e_slot e]) else (RHuh, x)
      | Some _ => (RHuh, x)
      end
    end.

  Definition call_info (x : ctx) (s : N) : ret * ctx :=
    match get (if s =? two64 - 1 then e_self e else s) (c_accts x) with
    | None => (RNone, x)
    | Some a => (RInfo (a_code a) [a_bal a; thr a; a_g a; a_m a; a_octets a; a_items a; a_gratis a;
                                   a_created a; a_lastacc a; a_parent a], x)
    end.

  Definition step (o : op) (st : state) : ret * state :=
    let '(x, y) := st in
    match o with
    | OCheckpoint => (RCk, (x, x))
    | ONew c l g m f i => let '(r, x') := call_new x c l g m f i in (r, (x', y))
    | OUpgrade c g m => let '(r, x') := call_upgrade x c g m in (r, (x', y))
    | OTransfer d amt l memo => let '(r, x') := call_transfer x d amt l memo in (r, (x', y))
    | OEject d h => let '(r, x') := call_eject x d h in (r, (x', y))
    | OWrite k v => let '(r, x') := call_write x k v in (r, (x', y))
    | OSolicit h z => let '(r, x') := call_solicit x h z in (r, (x', y))
    | OForget h z => let '(r, x') := call_forget x h z in (r, (x', y))
    | OInfo s => let '(r, x') := call_info x s in (r, (x', y))
    end.

  Definition step_st (st : state) (o : op) : state := snd (step o st).
  Definition run (ops : list op) (st : state) : state := fold_left step_st ops st.

  (* Psi_A: incoming deferred transfers are credited to the accumulating service before it runs;
     both contexts start from the credited partial state *)
  Definition sum_list (l : list N) : N := fold_right N.add 0 l.
  Definition credit (amts : list N) (d : amap) : amap :=
    match get (e_self e) d with
    | None => d
    | Some s => put (e_self e) (set_bal s (ar_add ar (a_bal s) (fold_left (ar_add ar) amts 0))) d
    end.
  Definition accumulate (amts : list N) (ops : list op) (d : amap) (next : N) : state :=
    let c := mkCtx (credit amts d) [] next in run ops (c, c).
End Calls.

(* ---- the conserved quantity ---- *)
Fixpoint sum_bal (d : amap) : N :=
  match d with [] => 0 | (_, a) :: t => a_bal a + sum_bal t end.
Fixpoint sum_amt (l : list xfer) : N :=
  match l with [] => 0 | t :: r => x_amt t + sum_amt r end.
Definition total (x : ctx) : N := sum_bal (c_accts x) + sum_amt (c_xfers x).
