(* PVM operand decoding — Gray Paper v0.7.2 Appendix A.5.1–A.5.13, over the ZERO-EXTENDED code
   (every byte is read through [zeta], i.e. nth-default-0).  Executable Gallina only. *)
From JamV Require Export Model.PvmCode.
Local Open Scope Z_scope.

Definition W64 : Z := 18446744073709551616.   (* 2^64 *)
Definition W32 : Z := 4294967296.             (* 2^32 *)

(* E_n^{-1} of zeta_{i..+n} *)
Fixpoint le_read (p : prog) (i : Z) (n : nat) : Z :=
  match n with
  | O => 0
  | S n' => zeta p i + 256 * le_read p (i + 1) n'
  end.

(* X_n : sign extension of an n-byte value to 64 bits (A.16); X_0 of the empty string is 0 *)
Definition sext (n x : Z) : Z :=
  if n <=? 0 then x else if x <? 2 ^ (8 * n - 1) then x else x + W64 - 2 ^ (8 * n).

(* Z_n : the signed reading of an n-byte value (A.10) *)
Definition sgn (n x : Z) : Z :=
  if n <=? 0 then x else if x <? 2 ^ (8 * n - 1) then x else x - 2 ^ (8 * n).

(* immediate of l bytes at i, sign-extended to a 64-bit register value *)
Definition imm_at (p : prog) (i l : Z) : Z := sext l (le_read p i (Z.to_nat l)).
(* signed offset of l bytes at i *)
Definition off_at (p : prog) (i l : Z) : Z := sgn l (le_read p i (Z.to_nat l)).

Definition reg_lo (b : Z) : nat := Z.to_nat (Z.min 12 (b mod 16)).
Definition reg_hi (b : Z) : nat := Z.to_nat (Z.min 12 (b / 16)).

(* operand formats *)
Inductive cat :=
| CNone          (* A.5.1  *)
| CImm           (* A.5.2  *)
| CRegImm64      (* A.5.3  *)
| CImmImm        (* A.5.4  *)
| COff           (* A.5.5  *)
| CRegImm        (* A.5.6  *)
| CRegImmImm     (* A.5.7  *)
| CRegImmOff     (* A.5.8  *)
| CRegReg        (* A.5.9  *)
| CRegRegImm     (* A.5.10 *)
| CRegRegOff     (* A.5.11 *)
| CRegRegImmImm  (* A.5.12 *)
| CRegRegReg.    (* A.5.13 *)

Definition cat_of (o : Z) : cat :=
  if o =? 10 then CImm
  else if o =? 20 then CRegImm64
  else if (30 <=? o) && (o <=? 33) then CImmImm
  else if o =? 40 then COff
  else if (50 <=? o) && (o <=? 62) then CRegImm
  else if (70 <=? o) && (o <=? 73) then CRegImmImm
  else if (80 <=? o) && (o <=? 90) then CRegImmOff
  else if (100 <=? o) && (o <=? 111) then CRegReg
  else if (120 <=? o) && (o <=? 161) then CRegRegImm
  else if (170 <=? o) && (o <=? 175) then CRegRegOff
  else if o =? 180 then CRegRegImmImm
  else if (190 <=? o) && (o <=? 230) then CRegRegReg
  else CNone.

(* decoded operands: register indices (already clamped to 12), two values.
   For offset formats the value is the absolute target  pc + Z_l(offset)  (may lie outside [0,2^32)). *)
Record args := { rA : nat; rB : nat; rD : nat; vX : Z; vY : Z; lX : Z; lY : Z }.

Definition no_args : args := {| rA := 0; rB := 0; rD := 0; vX := 0; vY := 0; lX := 0; lY := 0 |}.

Definition decode_cat (c : cat) (p : prog) (pc : Z) : args :=
  let l := skip p pc in
  let b1 := zeta p (pc + 1) in
  match c with
  | CNone => no_args
  | CImm =>
    let lx := Z.min 4 l in
    {| rA := 0; rB := 0; rD := 0; vX := imm_at p (pc + 1) lx; vY := 0; lX := lx; lY := 0 |}
  | CRegImm64 =>
    {| rA := reg_lo b1; rB := 0; rD := 0; vX := le_read p (pc + 2) 8; vY := 0; lX := 8; lY := 0 |}
  | CImmImm =>
    let lx := Z.min 4 (b1 mod 8) in
    let ly := Z.min 4 (Z.max 0 (l - lx - 1)) in
    {| rA := 0; rB := 0; rD := 0; vX := imm_at p (pc + 2) lx; vY := imm_at p (pc + 2 + lx) ly;
       lX := lx; lY := ly |}
  | COff =>
    let lx := Z.min 4 l in
    {| rA := 0; rB := 0; rD := 0; vX := pc + off_at p (pc + 1) lx; vY := 0; lX := lx; lY := 0 |}
  | CRegImm =>
    let lx := Z.min 4 (Z.max 0 (l - 1)) in
    {| rA := reg_lo b1; rB := 0; rD := 0; vX := imm_at p (pc + 2) lx; vY := 0; lX := lx; lY := 0 |}
  | CRegImmImm =>
    let lx := Z.min 4 ((b1 / 16) mod 8) in
    let ly := Z.min 4 (Z.max 0 (l - lx - 1)) in
    {| rA := reg_lo b1; rB := 0; rD := 0; vX := imm_at p (pc + 2) lx; vY := imm_at p (pc + 2 + lx) ly;
       lX := lx; lY := ly |}
  | CRegImmOff =>
    let lx := Z.min 4 ((b1 / 16) mod 8) in
    let ly := Z.min 4 (Z.max 0 (l - lx - 1)) in
    {| rA := reg_lo b1; rB := 0; rD := 0; vX := imm_at p (pc + 2) lx;
       vY := pc + off_at p (pc + 2 + lx) ly; lX := lx; lY := ly |}
  | CRegReg =>
    {| rA := reg_hi b1; rB := 0; rD := reg_lo b1; vX := 0; vY := 0; lX := 0; lY := 0 |}
  | CRegRegImm =>
    let lx := Z.min 4 (Z.max 0 (l - 1)) in
    {| rA := reg_lo b1; rB := reg_hi b1; rD := 0; vX := imm_at p (pc + 2) lx; vY := 0; lX := lx; lY := 0 |}
  | CRegRegOff =>
    let lx := Z.min 4 (Z.max 0 (l - 1)) in
    {| rA := reg_lo b1; rB := reg_hi b1; rD := 0; vX := pc + off_at p (pc + 2) lx; vY := 0;
       lX := lx; lY := 0 |}
  | CRegRegImmImm =>
    let b2 := zeta p (pc + 2) in
    let lx := Z.min 4 (b2 mod 8) in
    let ly := Z.min 4 (Z.max 0 (l - lx - 2)) in
    {| rA := reg_lo b1; rB := reg_hi b1; rD := 0; vX := imm_at p (pc + 3) lx;
       vY := imm_at p (pc + 3 + lx) ly; lX := lx; lY := ly |}
  | CRegRegReg =>
    let b2 := zeta p (pc + 2) in
    {| rA := reg_lo b1; rB := reg_hi b1; rD := Z.to_nat (Z.min 12 b2); vX := 0; vY := 0; lX := 0; lY := 0 |}
  end.

Definition decode (p : prog) (pc : Z) : args := decode_cat (cat_of (opcode_at p pc)) p pc.
