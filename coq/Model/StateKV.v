(* C17 — state export / import (Gray Paper D.1/D.2; Go: internal/utilities/merklization).
   Executable Gallina only; proofs are in Proofs/StateKVP.v.

   The hash, the encodings of the 16 state components, of the service information and of a
   lookup entry's time-slot list are Section variables (the codec is C11/C13, the hash is external).

   export  (StateEncoder)         serialize : state -> list (key * value)
   import  (StateKeyValsToState)  parse     : list (key * value) -> option (state * raw entries)

   Go details followed here:
   * keys are 31 bytes: C(i) = [i,0,...]; C(i,s) = [i,n0,0,n1,0,n2,0,n3,0,...] with n = E4(s);
     C(s,h) = [n0,a0,n1,a1,n2,a2,n3,a3,a4..a26] with a = first 27 bytes of H(h), where h is
     E4(2^32-1) ++ storage key | E4(2^32-2) ++ preimage hash | E4(length) ++ preimage hash.
   * import: a key equal to C(1..16) is a component; a key of service-information shape
     (first byte 255, zero everywhere except positions 1,3,5,7) is C(255,s); any other entry is a
     preimage iff its key equals C(s, E4(2^32-2) ++ H(value)) for the s read from positions 0,2,4,6;
     all remaining entries are kept ("unmatched"); afterwards every parsed preimage (h, v) of every
     service probes the unmatched entries for the key C(s, E4(|v|) ++ h): a hit is decoded as that
     preimage's lookup entry and leaves the unmatched entries.  What stays unmatched (service storage,
     lookup entries without their preimage, anything else) is returned as raw entries next to the state.
   * a decoding failure anywhere is an import error (None).
   Not modelled: Go keeps the unmatched entries in a map and the accounts in maps, so on input with a
   repeated key the last occurrence wins there, while lists keep both here (export of a state never
   repeats a key unless hashes collide); Go sorts the exported list by key, here the order is the
   construction order (all statements are up to permutation). *)
From JamV Require Import Base.Bytes.
Local Open Scope N_scope.

Definition kv := (bytes * bytes)%type.

(* ---------------------------------------------------------------------------------------------- *)
(* key constructors (D.1) *)

Definition key_fixed (i : N) : bytes := i :: zeros 30.

Definition key_svc_idx (i s : N) : bytes :=
  match le_enc 4 s with
  | [n0; n1; n2; n3] => [i; n0; 0; n1; 0; n2; 0; n3] ++ zeros 23
  | _ => []
  end.

Definition sto_input (k : bytes) : bytes := [255; 255; 255; 255] ++ k.
Definition pre_input (h : bytes) : bytes := [254; 255; 255; 255] ++ h.
Definition lk_input (hl : bytes * N) : bytes := le_enc 4 (snd hl) ++ fst hl.

(* length of a value as the Go code takes it: types.U32(len(v)) *)
Definition len32 (v : bytes) : N := N.of_nat (length v) mod 2 ^ 32.

(* ---------------------------------------------------------------------------------------------- *)
(* recognisers of the import side *)

(* Some i when the key is C(i), 1 <= i <= 16 *)
Definition fixed_index (k : bytes) : option N :=
  match k with
  | i :: t => if (1 <=? i) && (i <=? 16) && bytes_eqb t (zeros 30) then Some i else None
  | [] => None
  end.

(* Some s when the key has the shape of C(255, s) (IsServiceInfoKey, DecodeServiceIDFromType2) *)
Definition info_sid (k : bytes) : option N :=
  match k with
  | k0 :: n0 :: z0 :: n1 :: z1 :: n2 :: z2 :: n3 :: t =>
      if (k0 =? 255) && (z0 =? 0) && (z1 =? 0) && (z2 =? 0) && bytes_eqb t (zeros 23)
         && wf_bytes [n0; n1; n2; n3]
      then Some (le_dec [n0; n1; n2; n3]) else None
  | _ => None
  end.

(* DecodeServiceIDFromType3 *)
Definition sid_type3 (k : bytes) : N :=
  le_dec [nth 0 k 0; nth 2 k 0; nth 4 k 0; nth 6 k 0].

Definition reserved_shape (k : bytes) : bool :=
  match fixed_index k, info_sid k with None, None => false | _, _ => true end.

Definition idx16 : list N := [1; 2; 3; 4; 5; 6; 7; 8; 9; 10; 11; 12; 13; 14; 15; 16].

Section StateKV.
  Variable H : bytes -> bytes.                       (* Blake2b-256 in the node *)

  Variable comp : Type.                              (* a state component (union of the 16 Go types) *)
  Variable enc_comp : N -> comp -> bytes.            (* encoder of component i *)
  Variable dec_comp : N -> bytes -> option comp.
  Variable zero_comp : N -> comp.                    (* Go zero value *)
  Variable sinfo : Type.                             (* service information *)
  Variable enc_info : sinfo -> bytes.
  Variable dec_info : bytes -> option sinfo.
  Variable zero_info : sinfo.
  Variable tslots : Type.                            (* value of a lookup entry *)
  Variable enc_ts : tslots -> bytes.
  Variable dec_ts : bytes -> option tslots.

  Definition H27 (x : bytes) : bytes := firstn 27 (H x).

  (* C(s, h) *)
  Definition key_svc_hash (s : N) (h : bytes) : bytes :=
    match le_enc 4 s, H27 h with
    | [n0; n1; n2; n3], a0 :: a1 :: a2 :: a3 :: rest => [n0; a0; n1; a1; n2; a2; n3; a3] ++ rest
    | _, _ => []
    end.

  (* -------------------------------------------------------------------------------------------- *)
  (* the state *)
  Record account := {
    a_info : sinfo;
    a_storage : list (bytes * bytes);                (* storage key |-> value *)
    a_pre : list (bytes * bytes);                    (* preimage hash |-> blob *)
    a_lk : list ((bytes * N) * tslots);              (* (hash, length) |-> time slots *)
  }.

  Record state := {
    st_comp : N -> comp;                             (* components 1..16 *)
    st_delta : list (N * account);                   (* service id |-> account *)
  }.

  (* -------------------------------------------------------------------------------------------- *)
  (* export *)
  Definition sto_kv (s : N) (e : bytes * bytes) : kv := (key_svc_hash s (sto_input (fst e)), snd e).
  Definition pre_kv (s : N) (e : bytes * bytes) : kv := (key_svc_hash s (pre_input (fst e)), snd e).
  Definition lk_kv (s : N) (e : (bytes * N) * tslots) : kv := (key_svc_hash s (lk_input (fst e)), enc_ts (snd e)).
  Definition info_kv (s : N) (x : sinfo) : kv := (key_svc_idx 255 s, enc_info x).
  Definition comp_kv (i : N) (c : comp) : kv := (key_fixed i, enc_comp i c).

  Definition svc_kvs (sa : N * account) : list kv :=
    let (s, a) := sa in
    info_kv s (a_info a) :: map (sto_kv s) (a_storage a) ++ map (pre_kv s) (a_pre a) ++ map (lk_kv s) (a_lk a).

  Definition serialize (st : state) : list kv :=
    map (fun i => comp_kv i (st_comp st i)) idx16 ++ flat_map svc_kvs (st_delta st).

  (* -------------------------------------------------------------------------------------------- *)
  (* import *)
  Record pacc := {                                   (* account under construction *)
    p_info : option sinfo;
    p_pre : list (bytes * bytes);
    p_lk : list ((bytes * N) * tslots);
  }.
  Definition empty_pacc : pacc := {| p_info := None; p_pre := []; p_lk := [] |}.

  Record pstate := {
    ps_comp : N -> option comp;
    ps_delta : list (N * pacc);
  }.
  Definition empty_pstate : pstate := {| ps_comp := fun _ => None; ps_delta := [] |}.

  (* update the account of s, creating it when absent (updateServiceInfo / updatePreimage) *)
  Fixpoint upd_acc (s : N) (f : pacc -> pacc) (d : list (N * pacc)) : list (N * pacc) :=
    match d with
    | [] => [(s, f empty_pacc)]
    | (s', a) :: t => if s' =? s then (s', f a) :: t else (s', a) :: upd_acc s f t
    end.

  Definition set_info (x : sinfo) (a : pacc) : pacc :=
    {| p_info := Some x; p_pre := p_pre a; p_lk := p_lk a |}.
  Definition add_pre (h v : bytes) (a : pacc) : pacc :=
    {| p_info := p_info a; p_pre := (h, v) :: p_pre a; p_lk := p_lk a |}.
  Definition set_lk (l : list ((bytes * N) * tslots)) (a : pacc) : pacc :=
    {| p_info := p_info a; p_pre := p_pre a; p_lk := l |}.

  (* first loop of StateKeyValsToState: one key-value *)
  Definition step (k v : bytes) (ps : pstate) (un : list kv) : option (pstate * list kv) :=
    match fixed_index k with
    | Some i =>
        match dec_comp i v with
        | Some c => Some ({| ps_comp := fun j => if j =? i then Some c else ps_comp ps j;
                             ps_delta := ps_delta ps |}, un)
        | None => None
        end
    | None =>
        match info_sid k with
        | Some s =>
            match dec_info v with
            | Some x => Some ({| ps_comp := ps_comp ps; ps_delta := upd_acc s (set_info x) (ps_delta ps) |}, un)
            | None => None
            end
        | None =>
            let s := sid_type3 k in
            if bytes_eqb k (key_svc_hash s (pre_input (H v)))
            then Some ({| ps_comp := ps_comp ps; ps_delta := upd_acc s (add_pre (H v) v) (ps_delta ps) |}, un)
            else Some (ps, (k, v) :: un)
        end
    end.

  Fixpoint phase1 (kvs : list kv) (ps : pstate) (un : list kv) : option (pstate * list kv) :=
    match kvs with
    | [] => Some (ps, un)
    | (k, v) :: t =>
        match step k v ps un with
        | Some (ps', un') => phase1 t ps' un'
        | None => None
        end
    end.

  (* take the first entry with key k out of the unmatched entries *)
  Fixpoint find_remove (k : bytes) (un : list kv) : option (bytes * list kv) :=
    match un with
    | [] => None
    | (k', v) :: t =>
        if bytes_eqb k' k then Some (v, t)
        else match find_remove k t with
             | Some (v', t') => Some (v', (k', v) :: t')
             | None => None
             end
    end.

  (* second loop: the preimages of one service probe for their lookup entries *)
  Fixpoint attach_pre (s : N) (pres : list (bytes * bytes)) (lks : list ((bytes * N) * tslots)) (un : list kv)
    : option (list ((bytes * N) * tslots) * list kv) :=
    match pres with
    | [] => Some (lks, un)
    | (h, v) :: t =>
        let lkey := (h, len32 v) in
        match find_remove (key_svc_hash s (lk_input lkey)) un with
        | Some (lv, un') =>
            match dec_ts lv with
            | Some ts => attach_pre s t ((lkey, ts) :: lks) un'
            | None => None
            end
        | None => attach_pre s t lks un
        end
    end.

  Fixpoint attach_all (d : list (N * pacc)) (un : list kv) : option (list (N * pacc) * list kv) :=
    match d with
    | [] => Some ([], un)
    | (s, a) :: t =>
        match attach_pre s (p_pre a) (p_lk a) un with
        | Some (lks, un') =>
            match attach_all t un' with
            | Some (d', un'') => Some ((s, set_lk lks a) :: d', un'')
            | None => None
            end
        | None => None
        end
    end.

  Definition finalize_acc (a : pacc) : account :=
    {| a_info := match p_info a with Some x => x | None => zero_info end;
       a_storage := [];
       a_pre := p_pre a;
       a_lk := p_lk a |}.

  Definition finalize (ps : pstate) : state :=
    {| st_comp := fun i => match ps_comp ps i with Some c => c | None => zero_comp i end;
       st_delta := map (fun sa => (fst sa, finalize_acc (snd sa))) (ps_delta ps) |}.

  Definition parse (kvs : list kv) : option (state * list kv) :=
    match phase1 kvs empty_pstate [] with
    | Some (ps, un) =>
        match attach_all (ps_delta ps) un with
        | Some (d, raw) => Some (finalize {| ps_comp := ps_comp ps; ps_delta := d |}, raw)
        | None => None
        end
    | None => None
    end.

  (* -------------------------------------------------------------------------------------------- *)
  (* the finitely many inputs the hash is applied to when a state is exported and imported again *)
  Definition inputs (a : account) : list bytes :=
    map (fun e => sto_input (fst e)) (a_storage a) ++ map (fun e => pre_input (fst e)) (a_pre a)
    ++ map (fun e => lk_input (fst e)) (a_lk a).
  Definition values (a : account) : list bytes :=
    map snd (a_storage a) ++ map snd (a_pre a) ++ map (fun e => enc_ts (snd e)) (a_lk a).
  (* the lookup keys the importer probes for: one per value that may be taken for a preimage *)
  Definition probes (a : account) : list bytes := map (fun v => lk_input (H v, len32 v)) (values a).

  (* decision procedure: no service entry's key has a reserved shape, and the 27-byte truncated hash
     separates every own input from every other own input and from every probe *)
  Definition coll_free_acc (s : N) (a : account) : bool :=
    forallb (fun x => negb (reserved_shape (key_svc_hash s x))
                      && forallb (fun y => implb (bytes_eqb (H27 x) (H27 y)) (bytes_eqb x y)) (inputs a ++ probes a))
            (inputs a).
  Definition coll_free (st : state) : bool := forallb (fun sa => coll_free_acc (fst sa) (snd sa)) (st_delta st).

  (* -------------------------------------------------------------------------------------------- *)
  (* predicates of the statements (C17) *)

  (* a value is shorter than 2^32 - 2 bytes: its length is no reserved prefix E4(2^32-1), E4(2^32-2) *)
  Definition wf_val (v : bytes) : Prop := N.of_nat (length v) < 2 ^ 32 - 2.

  (* well-formed account: the byte strings handed to the hash are pairwise different (different storage
     keys, different preimage hashes, different lookup keys, and no lookup key whose length field makes
     it literally equal to a storage or preimage key preimage), values of sane length *)
  Definition wf_acc (a : account) : Prop := NoDup (inputs a) /\ Forall wf_val (values a).

  (* well-formed state: service identifiers pairwise different and below 2^32, accounts well-formed *)
  Definition wf_state (st : state) : Prop :=
    NoDup (map fst (st_delta st)) /\ Forall (fun sa => fst sa < 2 ^ 32 /\ wf_acc (snd sa)) (st_delta st).

  (* an explicit hash coincidence among the finitely many inputs of the state: an entry of service s
     whose key C(s,x) looks like a component key or a service-information key (23 zero bytes of the
     truncated hash), or two different inputs with the same 27-byte truncated hash *)
  Definition coincidence (st : state) : Prop :=
    exists s a x, In (s, a) (st_delta st) /\ In x (inputs a) /\
      (reserved_shape (key_svc_hash s x) = true \/
       exists y, In y (inputs a ++ probes a) /\ x <> y /\ H27 x = H27 y).
End StateKV.

(* the type parameters are implicit outside the section *)
Arguments a_info {sinfo tslots}. Arguments a_storage {sinfo tslots}. Arguments a_pre {sinfo tslots}. Arguments a_lk {sinfo tslots}.
Arguments Build_account {sinfo tslots}.
Arguments st_comp {comp sinfo tslots}. Arguments st_delta {comp sinfo tslots}. Arguments Build_state {comp sinfo tslots}.
Arguments p_info {sinfo tslots}. Arguments p_pre {sinfo tslots}. Arguments p_lk {sinfo tslots}. Arguments Build_pacc {sinfo tslots}.
Arguments ps_comp {comp sinfo tslots}. Arguments ps_delta {comp sinfo tslots}. Arguments Build_pstate {comp sinfo tslots}.
Arguments empty_pacc {sinfo tslots}. Arguments empty_pstate {comp sinfo tslots}.
Arguments comp_kv {comp}. Arguments info_kv {sinfo}. Arguments lk_kv H {tslots}.
Arguments svc_kvs H {sinfo} enc_info {tslots}. Arguments serialize H {comp} enc_comp {sinfo} enc_info {tslots}.
Arguments upd_acc {sinfo tslots}. Arguments set_info {sinfo tslots}. Arguments add_pre {sinfo tslots}. Arguments set_lk {sinfo tslots}.
Arguments step H {comp} dec_comp {sinfo} dec_info {tslots}. Arguments phase1 H {comp} dec_comp {sinfo} dec_info {tslots}.
Arguments attach_pre H {tslots}. Arguments attach_all H {sinfo tslots}.
Arguments finalize_acc {sinfo} zero_info {tslots}. Arguments finalize {comp} zero_comp {sinfo} zero_info {tslots}.
Arguments parse H {comp} dec_comp zero_comp {sinfo} dec_info zero_info {tslots}.
Arguments inputs {sinfo tslots}. Arguments values {sinfo tslots}. Arguments probes H {sinfo tslots}.
Arguments coll_free_acc H {sinfo tslots}. Arguments coll_free H {comp sinfo tslots}.
Arguments wf_acc {sinfo tslots}. Arguments wf_state {comp sinfo tslots}. Arguments coincidence H {comp sinfo tslots}.
