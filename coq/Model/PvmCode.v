(* PVM program blobs — Gray Paper v0.7.2 Appendix A.1–A.3: deblob (A.2), the zero-extended code,
   the bitmask with its implicit trailing 1-bits, skip (A.3), opcode validity, basic-block
   starts (A.5).  Executable Gallina only, no proofs. *)
From JamV Require Export Base.Bytes.
From JamV Require Import Model.NatCodec.
Local Open Scope Z_scope.

(* c, k, and the jump table kept in its encoded form (count, entry width z, E_z(j) bytes) so that a
   blob declaring a huge table of zero-width entries never becomes a huge list *)
Record prog := { code : list Z; mask : list bool; jt_count : Z; jt_width : Z; jt_bytes : list Z }.

Definition code_len (p : prog) : Z := Z.of_nat (length (code p)).

(* zeta = c ++ [0,0,...] *)
Definition zeta (p : prog) (i : Z) : Z :=
  if i <? 0 then 0 else nth (Z.to_nat i) (code p) 0.

(* k ++ [1,1,...] *)
Definition kbit (p : prog) (i : Z) : bool :=
  if i <? 0 then true else nth (Z.to_nat i) (mask p) true.

(* real bit of k (false outside) *)
Definition kreal (p : prog) (i : Z) : bool :=
  if i <? 0 then false else nth (Z.to_nat i) (mask p) false.

(* A.3: skip(i) = min(24, least j with (k ++ [1,1,...])_(i+1+j) = 1) *)
Fixpoint skip_from (p : prog) (i : Z) (n : nat) (j : Z) : Z :=
  match n with
  | O => 24
  | S n' => if kbit p (i + 1 + j) then j else skip_from p i n' (j + 1)
  end.
Definition skip (p : prog) (i : Z) : Z := skip_from p i 24 0.

(* the set U of defined opcodes and the set T of block terminators *)
Definition valid_op (o : Z) : bool :=
  (o =? 0) || (o =? 1) || (o =? 10) || (o =? 20) || ((30 <=? o) && (o <=? 33)) || (o =? 40)
  || ((50 <=? o) && (o <=? 62)) || ((70 <=? o) && (o <=? 73)) || ((80 <=? o) && (o <=? 90))
  || ((100 <=? o) && (o <=? 111)) || ((120 <=? o) && (o <=? 161)) || ((170 <=? o) && (o <=? 175))
  || (o =? 180) || ((190 <=? o) && (o <=? 230)).

Definition is_term (o : Z) : bool :=
  (o =? 0) || (o =? 1) || (o =? 40) || (o =? 50) || ((80 <=? o) && (o <=? 90))
  || ((170 <=? o) && (o <=? 175)) || (o =? 180).

(* the opcode executed at i: an undefined opcode (and anything past the end of c) is trap *)
Definition opcode_at (p : prog) (i : Z) : Z :=
  let o := zeta p i in if valid_op o then o else 0.

(* A.5: basic-block starts
   varpi = ({0} ∪ {n+1+skip(n) | k_n = 1, c_n ∈ T}) ∩ {n | k_n = 1, c_n ∈ U} *)
Definition follows_term (p : prog) (n : Z) : bool :=
  existsb (fun d : nat =>
             let m := n - 1 - Z.of_nat d in
             (0 <=? m) && kreal p m && is_term (zeta p m) && (skip p m =? Z.of_nat d))
          (seq 0 25).

Definition bb_start (p : prog) (n : Z) : bool :=
  (0 <=? n) && (n <? code_len p) && kreal p n && valid_op (zeta p n)
  && ((n =? 0) || follows_term p n).

(* jump table entry i (0-based): E_z^{-1} of the i-th z-byte chunk *)
Fixpoint le_decZ (l : list Z) : Z :=
  match l with
  | [] => 0
  | b :: t => b + 256 * le_decZ t
  end.

Definition jt_entry (p : prog) (i : Z) : Z :=
  le_decZ (firstn (Z.to_nat (jt_width p)) (skipn (Z.to_nat (i * jt_width p)) (jt_bytes p))).

(* ---- deblob (A.2): p = E(|j|) ++ E_1(z) ++ E(|c|) ++ E_z(j) ++ E(c) ++ E(k), |k| = |c| ---- *)
Definition bits_of_byte (b : N) : list bool :=
  map (fun i => N.testbit b (N.of_nat i)) (seq 0 8).

Definition unpack_bits (bs : bytes) (n : nat) : list bool :=
  firstn n (flat_map bits_of_byte bs).

Definition bytesZ (bs : bytes) : list Z := map Z.of_N bs.

Definition deblob (b : bytes) : option prog :=
  match dec_nat b with
  | None => None
  | Some (nj, b1) =>
    match b1 with
    | [] => None
    | z :: b2 =>
      match dec_nat b2 with
      | None => None
      | Some (nc, b3) =>
        (* all lengths are compared in N first, so no huge unary number is ever built *)
        if (N.of_nat (length b3) =? nj * z + nc + (nc + 7) / 8)%N then
          let jl := N.to_nat (nj * z)%N in
          let cl := N.to_nat nc in
          let jb := firstn jl b3 in
          let cb := firstn cl (skipn jl b3) in
          let kb := skipn cl (skipn jl b3) in
          Some {| code := bytesZ cb; mask := unpack_bits kb cl;
                  jt_count := Z.of_N nj; jt_width := Z.of_N z; jt_bytes := bytesZ jb |}
        else None
      end
    end
  end.
