(* C11/C13/C14 — descriptors of the serialisable types of /repo/internal/types (encode.go/decode.go)
   and of the fuzz-protocol messages (/repo/internal/fuzz/messages.go).  Data only, no proofs.
   One definition per Go type, named d<GoType>; fields in the order of the Go Encode method.
   Protocol parameters (validators, cores, epoch length, ...) are a record: types.SetTinyMode() = tiny,
   types.SetFullMode() = full. *)
From JamV Require Export Model.Codec.
Local Open Scope N_scope.

Record params := { pV : nat;      (* ValidatorsCount *)
                   pC : nat;      (* CoresCount; the assurance bit-field has pC bits *)
                   pE : nat;      (* EpochLength *)
                   pSM : nat;     (* ValidatorsSuperMajority: votes of a verdict *)
                   pL : N }.      (* MaxLookupAge: bound of the fuzz ancestry list *)

Definition tiny : params := {| pV := 6; pC := 2; pE := 12; pSM := 5; pL := 24 |}.
Definition full : params := {| pV := 1023; pC := 341; pE := 600; pSM := 683; pL := 14400 |}.

(* ---- primitives ---- *)
Definition dU8 := DU 1.   Definition dU16 := DU 2.   Definition dU32 := DU 4.   Definition dU64 := DU 8.
Definition dHash := DFix 32.                    (* OpaqueHash and its 12 renamings, Ed25519/Bandersnatch keys, Entropy *)
Definition dUnit := DStruct [].
Definition dBool := DVar [(0, dUnit); (1, dUnit)].
Definition dSeq (d : desc) := DSeq unlimited d.
Definition dC16 := DNat 65536.                  (* compact natural stored in a U16 field *)
Definition dC32 := DNat 4294967296.             (* ... in a U32 field *)
Definition dC64 := DNat two64.                  (* ... in a U64 field *)
Definition dEd25519Signature := DFix 64.
Definition dBandersnatchVrfSignature := DFix 96.
Definition dBandersnatchRingVrfSignature := DFix 784.
Definition dBandersnatchRingCommitment := DFix 144.
Definition dBlsPublic := DFix 144.
Definition dValidatorMetadata := DFix 128.
Definition dByteSequence := DBlob.
Definition dTimeSlot := dU32.  Definition dServiceID := dU32.  Definition dGas := dU64.
Definition dValidatorIndex := dU16.  Definition dCoreIndex := dU16.
Definition dTicketAttempt := dC64.

(* ---- header ---- *)
Definition dEpochMarkValidatorKeys := DStruct [dHash; dHash].
Definition dEpochMark (p : params) := DStruct [dHash; dHash; DVec (pV p) dEpochMarkValidatorKeys].
Definition dTicketBody := DStruct [dHash; dTicketAttempt].
Definition dTicketsMark (p : params) := DVec (pE p) dTicketBody.
Definition dOffendersMark := dSeq dHash.
Definition dHeader (p : params) :=
  DStruct [dHash; dHash; dHash; dTimeSlot; DOpt (dEpochMark p); DOpt (dTicketsMark p); dValidatorIndex;
           dBandersnatchVrfSignature; dOffendersMark; dBandersnatchVrfSignature].

(* ---- work reports ---- *)
Definition dWorkPackageSpec := DStruct [dHash; dU32; dHash; dHash; dU16].
Definition dRefineContext := DStruct [dHash; dHash; dHash; dHash; dTimeSlot; dSeq dHash].
Definition dSegmentRootLookupItem := DStruct [dHash; dHash].
Definition dSegmentRootLookup := dSeq dSegmentRootLookupItem.
Definition dWorkExecResult :=
  DVar [(0, DBlob); (1, dUnit); (2, dUnit); (3, dUnit); (4, dUnit); (5, dUnit); (6, dUnit)].
Definition dRefineLoad := DStruct [dC64; dC16; dC16; dC32; dC16].
Definition dWorkResult := DStruct [dServiceID; dHash; dHash; dGas; dWorkExecResult; dRefineLoad].
Definition dWorkReport :=
  DStruct [dWorkPackageSpec; dRefineContext; dC16 (* core index, compact *); dHash; dC64 (* auth gas used *);
           DBlob; dSegmentRootLookup; dSeq dWorkResult].

(* ---- extrinsics ---- *)
Definition dTicketEnvelope := DStruct [dTicketAttempt; dBandersnatchRingVrfSignature].
Definition dTicketsExtrinsic := dSeq dTicketEnvelope.
Definition dPreimage := DStruct [dServiceID; DBlob].
Definition dPreimagesExtrinsic := dSeq dPreimage.
Definition dValidatorSignature := DStruct [dValidatorIndex; dEd25519Signature].
Definition dReportGuarantee := DStruct [dWorkReport; dTimeSlot; dSeq dValidatorSignature].
Definition dGuaranteesExtrinsic := dSeq dReportGuarantee.
Definition dBitfield (p : params) := DBits (pC p).
Definition dAvailAssurance (p : params) := DStruct [dHash; dBitfield p; dValidatorIndex; dEd25519Signature].
Definition dAssurancesExtrinsic (p : params) := dSeq (dAvailAssurance p).
Definition dJudgement := DStruct [dBool; dValidatorIndex; dEd25519Signature].
Definition dVerdict (p : params) := DStruct [dHash; dU32; DVec (pSM p) dJudgement].
Definition dCulprit := DStruct [dHash; dHash; dEd25519Signature].
Definition dFault := DStruct [dHash; dBool; dHash; dEd25519Signature].
Definition dDisputesExtrinsic (p : params) := DStruct [dSeq (dVerdict p); dSeq dCulprit; dSeq dFault].
Definition dExtrinsic (p : params) :=
  DStruct [dTicketsExtrinsic; dPreimagesExtrinsic; dGuaranteesExtrinsic; dAssurancesExtrinsic p; dDisputesExtrinsic p].
Definition dBlock (p : params) := DStruct [dHeader p; dExtrinsic p].

(* ---- work packages ---- *)
Definition dAuthorizer := DStruct [dHash; DBlob].
Definition dImportSpec := DStruct [dHash; dU16].     (* with an empty HashSegmentMap on encoder and decoder *)
Definition dExtrinsicSpec := DStruct [dHash; dU32].
Definition dWorkItem :=
  DStruct [dServiceID; dHash; dGas; dGas; dU16; DBlob; dSeq dImportSpec; dSeq dExtrinsicSpec].
Definition dWorkPackage := DStruct [dServiceID; dHash; dRefineContext; DBlob; DBlob; dSeq dWorkItem].
Definition dExtrinsicData := DBlob.
Definition dExtrinsicDataList := dSeq dExtrinsicData.
Definition dExportSegment := DFix 4104.
Definition dExportSegmentMatrix := dSeq (dSeq dExportSegment).
Definition dOpaqueHashMatrix := dSeq (dSeq dHash).
Definition dWorkPackageBundle :=
  DStruct [dWorkPackage; dExtrinsicDataList; dExportSegmentMatrix; dOpaqueHashMatrix].

(* ---- state components ---- *)
Definition dAuthPool := DSeq 8 dHash.                                     (* alpha *)
Definition dAuthPools (p : params) := DVec (pC p) dAuthPool.
Definition dAuthQueue := DVec 80 dHash.                                   (* varphi *)
Definition dAuthQueues (p : params) := DVec (pC p) dAuthQueue.
Definition dReportedWorkPackage := DStruct [dHash; dHash].                (* beta *)
Definition dBlockInfo := DStruct [dHash; dHash; dHash; dSeq dReportedWorkPackage].
Definition dBlocksHistory := DSeq 8 dBlockInfo.
Definition dMmr := dSeq (DOpt dHash).
Definition dRecentBlocks := DStruct [dBlocksHistory; dMmr].
Definition dValidator := DStruct [dHash; dHash; dBlsPublic; dValidatorMetadata].
Definition dValidatorsData (p : params) := DVec (pV p) dValidator.        (* iota kappa lambda gamma_k *)
Definition dTicketsOrKeys (p : params) := DVar [(0, DVec (pE p) dTicketBody); (1, DVec (pE p) dHash)].
Definition dTicketsAccumulator := dSeq dTicketBody.
Definition dSafroleState (p : params) :=                                  (* gamma *)
  DStruct [dValidatorsData p; dBandersnatchRingCommitment; dTicketsOrKeys p; dTicketsAccumulator].
Definition dDisputesRecords := DStruct [dSeq dHash; dSeq dHash; dSeq dHash; dSeq dHash].   (* psi *)
Definition dEntropyBuffer := DVec 4 dHash.                                (* eta *)
Definition dAvailabilityAssignment := DStruct [dWorkReport; dTimeSlot].   (* rho *)
Definition dAvailabilityAssignments (p : params) := DVec (pC p) (DOpt dAvailabilityAssignment).
Definition dServiceIDList (p : params) := DVec (pC p) dServiceID.         (* chi *)
Definition dAlwaysAccumulateMap := DMap dServiceID dGas.
Definition dPrivileges (p : params) :=
  DStruct [dServiceID; dServiceIDList p; dServiceID; dServiceID; dAlwaysAccumulateMap].
Definition dValidatorActivityRecord := DStruct [dU32; dU32; dU32; dU32; dU32; dU32].     (* pi *)
Definition dValidatorsStatistics (p : params) := DVec (pV p) dValidatorActivityRecord.
Definition dCoreActivityRecord := DStruct [dC32; dC16; dC16; dC16; dC32; dC16; dC32; dC64].
Definition dCoresStatistics (p : params) := DVec (pC p) dCoreActivityRecord.
Definition dServiceActivityRecord := DStruct [dC16; dC32; dC32; dC64; dC32; dC32; dC32; dC32; dC32; dC64].
Definition dServicesStatistics := DMap dServiceID dServiceActivityRecord.
Definition dStatistics (p : params) :=
  DStruct [dValidatorsStatistics p; dValidatorsStatistics p; dCoresStatistics p; dServicesStatistics].
Definition dReadyRecord := DStruct [dWorkReport; dSeq dHash].             (* vartheta *)
Definition dReadyQueueItem := dSeq dReadyRecord.
Definition dReadyQueue (p : params) := DVec (pE p) dReadyQueueItem.
Definition dAccumulatedQueueItem := dSeq dHash.                           (* xi *)
Definition dAccumulatedQueue (p : params) := DVec (pE p) dAccumulatedQueueItem.
Definition dAccumulatedServiceHash := DStruct [dServiceID; dHash].        (* theta *)
Definition dLastAccOut := dSeq dAccumulatedServiceHash.
Definition dAccumulatedServiceOutput := DMap dAccumulatedServiceHash dUnit.   (* a set, written in key order *)

(* ---- service accounts (delta) ---- *)
Definition dServiceInfo :=
  DStruct [dU8; dHash; dU64; dGas; dGas; dU64; dU64; dU32; dTimeSlot; dTimeSlot; dServiceID].
Definition dPreimagesMapEntry := DMap dHash DBlob.
Definition dLookupMetaMapkey := DStruct [dHash; dU32].
Definition dTimeSlotSet := dSeq dTimeSlot.
Definition dLookupMetaMapEntry := DMap dLookupMetaMapkey dTimeSlotSet.
Definition dStorage := DMap DBlob2 DBlob.
Definition dServiceAccount := DStruct [dServiceInfo; dPreimagesMapEntry; dLookupMetaMapEntry; dStorage].
Definition dServiceAccountState := DMap dServiceID dServiceAccount.

(* State.Encode writes sixteen components (theta is not among them) *)
Definition dState (p : params) :=
  DStruct [dAuthPools p; dAuthQueues p; dRecentBlocks; dSafroleState p; dDisputesRecords; dEntropyBuffer;
           dValidatorsData p; dValidatorsData p; dValidatorsData p; dAvailabilityAssignments p; dTimeSlot;
           dPrivileges p; dStatistics p; dReadyQueue p; dAccumulatedQueue p; dServiceAccountState].

(* ---- accumulation operands ---- *)
Definition dDeferredTransfer := DStruct [dServiceID; dServiceID; dU64; DFix 128; dGas].
Definition dOperand := DStruct [dHash; dHash; dHash; dHash; dC64; dWorkExecResult; DBlob].
Definition dOperandOrDeferredTransfer := DVar [(0, dOperand); (1, dDeferredTransfer)].

(* ---- state key-values, trie boundary nodes, ancestry ---- *)
Definition dStateKey := DFix 31.
Definition dStateKeyVal := DStruct [dStateKey; DBlob].
Definition dStateKeyVals := dSeq dStateKeyVal.
Definition dBoundaryNode := DStruct [dStateKey; dHash; DOpt dStateKey; dBool].
Definition dAncestryItem := DStruct [dTimeSlot; dHash].
Definition dAncestry (p : params) := DSeq (pL p) dAncestryItem.

(* ---- fuzz protocol ---- *)
Definition dVersion := DStruct [dU8; dU8; dU8].
Definition dPeerInfo := DStruct [dU8; dU32; dVersion; dVersion; DBlob].
Definition dSetState (p : params) := DStruct [dHeader p; dStateKeyVals; dAncestry p].
Definition dErrorMessage := DBlob.
(* what follows the 4-byte length of a frame: type byte, then the payload *)
Definition dMessage (p : params) :=
  DVar [(0, dPeerInfo); (1, dSetState p); (2, dHash); (3, dBlock p); (4, dHash); (5, dStateKeyVals);
        (255, dErrorMessage)].

(* every descriptor above, for the well-formedness theorem *)
Definition all_descs (p : params) : list desc :=
  [ dU8; dU16; dU32; dU64; dHash; dBool; dC16; dC32; dC64; DBlob; DFix 64; DFix 96; DFix 784; DFix 144; DFix 128;
    dEpochMarkValidatorKeys; dEpochMark p; dTicketBody; dTicketsMark p; dOffendersMark; dHeader p;
    dWorkPackageSpec; dRefineContext; dSegmentRootLookupItem; dSegmentRootLookup; dWorkExecResult; dRefineLoad;
    dWorkResult; dWorkReport; dTicketEnvelope; dTicketsExtrinsic; dPreimage; dPreimagesExtrinsic;
    dValidatorSignature; dReportGuarantee; dGuaranteesExtrinsic; dBitfield p; dAvailAssurance p;
    dAssurancesExtrinsic p; dJudgement; dVerdict p; dCulprit; dFault; dDisputesExtrinsic p; dExtrinsic p; dBlock p;
    dAuthorizer; dImportSpec; dExtrinsicSpec; dWorkItem; dWorkPackage; dExtrinsicDataList; dExportSegment;
    dExportSegmentMatrix; dOpaqueHashMatrix; dWorkPackageBundle;
    dAuthPool; dAuthPools p; dAuthQueue; dAuthQueues p; dReportedWorkPackage; dBlockInfo; dBlocksHistory; dMmr;
    dRecentBlocks; dValidator; dValidatorsData p; dTicketsOrKeys p; dTicketsAccumulator; dSafroleState p;
    dDisputesRecords; dEntropyBuffer; dAvailabilityAssignment; dAvailabilityAssignments p; dServiceIDList p;
    dAlwaysAccumulateMap; dPrivileges p; dValidatorActivityRecord; dValidatorsStatistics p; dCoreActivityRecord;
    dCoresStatistics p; dServiceActivityRecord; dServicesStatistics; dStatistics p; dReadyRecord; dReadyQueueItem;
    dReadyQueue p; dAccumulatedQueueItem; dAccumulatedQueue p; dAccumulatedServiceHash; dLastAccOut;
    dAccumulatedServiceOutput; dServiceInfo; dPreimagesMapEntry; dLookupMetaMapkey; dTimeSlotSet;
    dLookupMetaMapEntry; dStorage; dServiceAccount; dServiceAccountState; dState p;
    dDeferredTransfer; dOperand; dOperandOrDeferredTransfer;
    dStateKey; dStateKeyVal; dStateKeyVals; dBoundaryNode; dAncestryItem; dAncestry p;
    dVersion; dPeerInfo; dSetState p; dErrorMessage; dMessage p ].
