(* PVM single-step semantics — Gray Paper v0.7.2 Appendix A.5.1–A.5.13, one clause per opcode,
   over Z with explicit "mod 2^64" / "mod 2^32"; signed readings by explicit conversion.
   Written from the Gray Paper, not from the Go interpreter.  Executable Gallina only. *)
From JamV Require Export Model.PvmArgs Model.PvmMem.
Local Open Scope Z_scope.

Record st := { regs : list Z; gas : Z; mem : memory }.

Inductive exit := Continue | Halt | Panic | OutOfGas | Fault (a : Z) | Host (id : Z).

Definition greg (r : list Z) (i : nat) : Z := nth i r 0.
Fixpoint sreg (r : list Z) (i : nat) (v : Z) : list Z :=
  match r, i with
  | [], _ => []
  | _ :: t, O => v :: t
  | x :: t, S i' => x :: sreg t i' v
  end.

(* ---- arithmetic vocabulary ---- *)
Definition u8 (z : Z) : Z := z mod W64.                 (* Z_8^{-1} *)
Definition s8 (x : Z) : Z := sgn 8 x.                   (* Z_8 *)
Definition s4 (x : Z) : Z := sgn 4 (x mod W32).         (* Z_4 of the low 32 bits *)
Definition x4 (x : Z) : Z := sext 4 (x mod W32).        (* X_4 of the low 32 bits *)
Definition b2z (b : bool) : Z := if b then 1 else 0.
Definition not64 (x : Z) : Z := W64 - 1 - x.
Definition smod (a b : Z) : Z := if b =? 0 then a else Z.rem a b.   (* sgn(a) (|a| mod |b|) *)

Fixpoint popcount (n : nat) (x : Z) : Z :=
  match n with
  | O => 0
  | S n' => x mod 2 + popcount n' (x / 2)
  end.
Definition clz (w x : Z) : Z := if x =? 0 then w else w - (Z.log2 x + 1).
Fixpoint ctz (n : nat) (x : Z) : Z :=
  match n with
  | O => 0
  | S n' => if Z.odd x then 0 else 1 + ctz n' (x / 2)
  end.
Fixpoint rev_bytes (n : nat) (x acc : Z) : Z :=
  match n with
  | O => acc
  | S n' => rev_bytes n' (x / 256) (acc * 256 + x mod 256)
  end.
(* rotate the w-bit value x right by k *)
Definition rotr (w x k : Z) : Z :=
  let k' := k mod w in (x / 2 ^ k' + (x mod 2 ^ k') * 2 ^ (w - k')) mod 2 ^ w.
Definition rotl (w x k : Z) : Z := rotr w x (w - k mod w).

(* ---- instruction set ---- *)
Inductive cond1 := CEq | CNe | CLtU | CLeU | CGeU | CGtU | CLtS | CLeS | CGeS | CGtS.
Inductive cond2 := BEq | BNe | BLtU | BLtS | BGeU | BGeS.

Inductive alu2 := CountSetBits64 | CountSetBits32 | LeadingZeroBits64 | LeadingZeroBits32
                | TrailingZeroBits64 | TrailingZeroBits32 | SignExtend8 | SignExtend16
                | ZeroExtend16 | ReverseBytes.

Inductive alu2i := AddImm32 | AndImm | XorImm | OrImm | MulImm32 | SetLtUImm | SetLtSImm
                 | ShloLImm32 | ShloRImm32 | SharRImm32 | NegAddImm32 | SetGtUImm | SetGtSImm
                 | ShloLImmAlt32 | ShloRImmAlt32 | SharRImmAlt32 | CmovIzImm | CmovNzImm
                 | AddImm64 | MulImm64 | ShloLImm64 | ShloRImm64 | SharRImm64 | NegAddImm64
                 | ShloLImmAlt64 | ShloRImmAlt64 | SharRImmAlt64
                 | RotR64Imm | RotR64ImmAlt | RotR32Imm | RotR32ImmAlt.

Inductive alu3 := Add32 | Sub32 | Mul32 | DivU32 | DivS32 | RemU32 | RemS32 | ShloL32 | ShloR32 | SharR32
                | Add64 | Sub64 | Mul64 | DivU64 | DivS64 | RemU64 | RemS64 | ShloL64 | ShloR64 | SharR64
                | And | Xor | Or | MulUpperSS | MulUpperUU | MulUpperSU | SetLtU | SetLtS | CmovIz | CmovNz
                | RotL64 | RotL32 | RotR64 | RotR32 | AndInv | OrInv | Xnor | Max | MaxU | Min | MinU.

Inductive instr :=
| ITrap | IFallthrough                                   (* 0, 1 *)
| IEcalli                                                (* 10 *)
| ILoadImm64                                             (* 20 *)
| IStoreImm (w : nat)                                    (* 30-33 *)
| IJump                                                  (* 40 *)
| IJumpInd | ILoadImm                                    (* 50, 51 *)
| ILoad (w : nat) (signed : bool)                        (* 52-58 *)
| IStore (w : nat)                                       (* 59-62 *)
| IStoreImmInd (w : nat)                                 (* 70-73 *)
| ILoadImmJump                                           (* 80 *)
| IBranchImm (c : cond1)                                 (* 81-90 *)
| IMoveReg | ISbrk                                       (* 100, 101 *)
| IAlu2 (o : alu2)                                       (* 102-111 *)
| IStoreInd (w : nat)                                    (* 120-123 *)
| ILoadInd (w : nat) (signed : bool)                     (* 124-130 *)
| IAlu2i (o : alu2i)                                     (* 131-161 *)
| IBranch (c : cond2)                                    (* 170-175 *)
| ILoadImmJumpInd                                        (* 180 *)
| IAlu3 (o : alu3).                                      (* 190-230 *)

(* opcode numbering of Gray Paper v0.7.2 Appendix A.5; anything else is trap *)
Definition instr_of (o : Z) : instr :=
  match o with
  | 0 => ITrap | 1 => IFallthrough
  | 10 => IEcalli
  | 20 => ILoadImm64
  | 30 => IStoreImm 1%nat | 31 => IStoreImm 2%nat | 32 => IStoreImm 4%nat | 33 => IStoreImm 8%nat
  | 40 => IJump
  | 50 => IJumpInd | 51 => ILoadImm
  | 52 => ILoad 1%nat false | 53 => ILoad 1%nat true | 54 => ILoad 2%nat false | 55 => ILoad 2%nat true
  | 56 => ILoad 4%nat false | 57 => ILoad 4%nat true | 58 => ILoad 8%nat false
  | 59 => IStore 1%nat | 60 => IStore 2%nat | 61 => IStore 4%nat | 62 => IStore 8%nat
  | 70 => IStoreImmInd 1%nat | 71 => IStoreImmInd 2%nat | 72 => IStoreImmInd 4%nat | 73 => IStoreImmInd 8%nat
  | 80 => ILoadImmJump
  | 81 => IBranchImm CEq | 82 => IBranchImm CNe | 83 => IBranchImm CLtU | 84 => IBranchImm CLeU
  | 85 => IBranchImm CGeU | 86 => IBranchImm CGtU | 87 => IBranchImm CLtS | 88 => IBranchImm CLeS
  | 89 => IBranchImm CGeS | 90 => IBranchImm CGtS
  | 100 => IMoveReg | 101 => ISbrk
  | 102 => IAlu2 CountSetBits64 | 103 => IAlu2 CountSetBits32
  | 104 => IAlu2 LeadingZeroBits64 | 105 => IAlu2 LeadingZeroBits32
  | 106 => IAlu2 TrailingZeroBits64 | 107 => IAlu2 TrailingZeroBits32
  | 108 => IAlu2 SignExtend8 | 109 => IAlu2 SignExtend16 | 110 => IAlu2 ZeroExtend16
  | 111 => IAlu2 ReverseBytes
  | 120 => IStoreInd 1%nat | 121 => IStoreInd 2%nat | 122 => IStoreInd 4%nat | 123 => IStoreInd 8%nat
  | 124 => ILoadInd 1%nat false | 125 => ILoadInd 1%nat true | 126 => ILoadInd 2%nat false | 127 => ILoadInd 2%nat true
  | 128 => ILoadInd 4%nat false | 129 => ILoadInd 4%nat true | 130 => ILoadInd 8%nat false
  | 131 => IAlu2i AddImm32 | 132 => IAlu2i AndImm | 133 => IAlu2i XorImm | 134 => IAlu2i OrImm
  | 135 => IAlu2i MulImm32 | 136 => IAlu2i SetLtUImm | 137 => IAlu2i SetLtSImm
  | 138 => IAlu2i ShloLImm32 | 139 => IAlu2i ShloRImm32 | 140 => IAlu2i SharRImm32
  | 141 => IAlu2i NegAddImm32 | 142 => IAlu2i SetGtUImm | 143 => IAlu2i SetGtSImm
  | 144 => IAlu2i ShloLImmAlt32 | 145 => IAlu2i ShloRImmAlt32 | 146 => IAlu2i SharRImmAlt32
  | 147 => IAlu2i CmovIzImm | 148 => IAlu2i CmovNzImm | 149 => IAlu2i AddImm64 | 150 => IAlu2i MulImm64
  | 151 => IAlu2i ShloLImm64 | 152 => IAlu2i ShloRImm64 | 153 => IAlu2i SharRImm64
  | 154 => IAlu2i NegAddImm64 | 155 => IAlu2i ShloLImmAlt64 | 156 => IAlu2i ShloRImmAlt64
  | 157 => IAlu2i SharRImmAlt64 | 158 => IAlu2i RotR64Imm | 159 => IAlu2i RotR64ImmAlt
  | 160 => IAlu2i RotR32Imm | 161 => IAlu2i RotR32ImmAlt
  | 170 => IBranch BEq | 171 => IBranch BNe | 172 => IBranch BLtU | 173 => IBranch BLtS
  | 174 => IBranch BGeU | 175 => IBranch BGeS
  | 180 => ILoadImmJumpInd
  | 190 => IAlu3 Add32 | 191 => IAlu3 Sub32 | 192 => IAlu3 Mul32 | 193 => IAlu3 DivU32
  | 194 => IAlu3 DivS32 | 195 => IAlu3 RemU32 | 196 => IAlu3 RemS32 | 197 => IAlu3 ShloL32
  | 198 => IAlu3 ShloR32 | 199 => IAlu3 SharR32
  | 200 => IAlu3 Add64 | 201 => IAlu3 Sub64 | 202 => IAlu3 Mul64 | 203 => IAlu3 DivU64
  | 204 => IAlu3 DivS64 | 205 => IAlu3 RemU64 | 206 => IAlu3 RemS64 | 207 => IAlu3 ShloL64
  | 208 => IAlu3 ShloR64 | 209 => IAlu3 SharR64
  | 210 => IAlu3 And | 211 => IAlu3 Xor | 212 => IAlu3 Or
  | 213 => IAlu3 MulUpperSS | 214 => IAlu3 MulUpperUU | 215 => IAlu3 MulUpperSU
  | 216 => IAlu3 SetLtU | 217 => IAlu3 SetLtS | 218 => IAlu3 CmovIz | 219 => IAlu3 CmovNz
  | 220 => IAlu3 RotL64 | 221 => IAlu3 RotL32 | 222 => IAlu3 RotR64 | 223 => IAlu3 RotR32
  | 224 => IAlu3 AndInv | 225 => IAlu3 OrInv | 226 => IAlu3 Xnor
  | 227 => IAlu3 Max | 228 => IAlu3 MaxU | 229 => IAlu3 Min | 230 => IAlu3 MinU
  | _ => ITrap
  end.

(* ---- pure results ---- *)
Definition eval_cond1 (c : cond1) (a x : Z) : bool :=
  match c with
  | CEq => a =? x | CNe => negb (a =? x)
  | CLtU => a <? x | CLeU => a <=? x | CGeU => x <=? a | CGtU => x <? a
  | CLtS => s8 a <? s8 x | CLeS => s8 a <=? s8 x | CGeS => s8 x <=? s8 a | CGtS => s8 x <? s8 a
  end.

Definition eval_cond2 (c : cond2) (a b : Z) : bool :=
  match c with
  | BEq => a =? b | BNe => negb (a =? b)
  | BLtU => a <? b | BLtS => s8 a <? s8 b
  | BGeU => b <=? a | BGeS => s8 b <=? s8 a
  end.

Definition eval_alu2 (o : alu2) (a : Z) : Z :=
  match o with
  | CountSetBits64 => popcount 64 a
  | CountSetBits32 => popcount 32 (a mod W32)
  | LeadingZeroBits64 => clz 64 a
  | LeadingZeroBits32 => clz 32 (a mod W32)
  | TrailingZeroBits64 => ctz 64 a
  | TrailingZeroBits32 => ctz 32 (a mod W32)
  | SignExtend8 => u8 (sgn 1 (a mod 256))
  | SignExtend16 => u8 (sgn 2 (a mod 65536))
  | ZeroExtend16 => a mod 65536
  | ReverseBytes => rev_bytes 8 a 0
  end.

(* b = phi_B, x = nu_X, a = old phi_A *)
Definition eval_alu2i (o : alu2i) (b x a : Z) : Z :=
  match o with
  | AddImm32 => x4 (b + x)
  | AndImm => Z.land b x
  | XorImm => Z.lxor b x
  | OrImm => Z.lor b x
  | MulImm32 => x4 (b * x)
  | SetLtUImm => b2z (b <? x)
  | SetLtSImm => b2z (s8 b <? s8 x)
  | ShloLImm32 => x4 (b * 2 ^ (x mod 32))
  | ShloRImm32 => x4 ((b mod W32) / 2 ^ (x mod 32))
  | SharRImm32 => u8 (s4 b / 2 ^ (x mod 32))
  | NegAddImm32 => x4 (x + W32 - b)
  | SetGtUImm => b2z (x <? b)
  | SetGtSImm => b2z (s8 x <? s8 b)
  | ShloLImmAlt32 => x4 (x * 2 ^ (b mod 32))
  | ShloRImmAlt32 => x4 ((x mod W32) / 2 ^ (b mod 32))
  | SharRImmAlt32 => u8 (s4 x / 2 ^ (b mod 32))
  | CmovIzImm => if b =? 0 then x else a
  | CmovNzImm => if b =? 0 then a else x
  | AddImm64 => (b + x) mod W64
  | MulImm64 => (b * x) mod W64
  | ShloLImm64 => (b * 2 ^ (x mod 64)) mod W64
  | ShloRImm64 => b / 2 ^ (x mod 64)
  | SharRImm64 => u8 (s8 b / 2 ^ (x mod 64))
  | NegAddImm64 => (x + W64 - b) mod W64
  | ShloLImmAlt64 => (x * 2 ^ (b mod 64)) mod W64
  | ShloRImmAlt64 => x / 2 ^ (b mod 64)
  | SharRImmAlt64 => u8 (s8 x / 2 ^ (b mod 64))
  | RotR64Imm => rotr 64 b x
  | RotR64ImmAlt => rotr 64 x b
  | RotR32Imm => x4 (rotr 32 (b mod W32) x)
  | RotR32ImmAlt => x4 (rotr 32 (x mod W32) b)
  end.

(* a = phi_A, b = phi_B, d = old phi_D *)
Definition eval_alu3 (o : alu3) (a b d : Z) : Z :=
  match o with
  | Add32 => x4 (a + b)
  | Sub32 => x4 (a + W32 - b mod W32)
  | Mul32 => x4 (a * b)
  | DivU32 => if b mod W32 =? 0 then W64 - 1 else x4 ((a mod W32) / (b mod W32))
  | DivS32 => if s4 b =? 0 then W64 - 1
              else if (s4 a =? - 2147483648) && (s4 b =? -1) then u8 (s4 a)
              else u8 (Z.quot (s4 a) (s4 b))
  | RemU32 => if b mod W32 =? 0 then x4 a else x4 ((a mod W32) mod (b mod W32))
  | RemS32 => if (s4 a =? - 2147483648) && (s4 b =? -1) then 0 else u8 (smod (s4 a) (s4 b))
  | ShloL32 => x4 (a * 2 ^ (b mod 32))
  | ShloR32 => x4 ((a mod W32) / 2 ^ (b mod 32))
  | SharR32 => u8 (s4 a / 2 ^ (b mod 32))
  | Add64 => (a + b) mod W64
  | Sub64 => (a + W64 - b) mod W64
  | Mul64 => (a * b) mod W64
  | DivU64 => if b =? 0 then W64 - 1 else a / b
  | DivS64 => if b =? 0 then W64 - 1
              else if (s8 a =? - 9223372036854775808) && (s8 b =? -1) then a
              else u8 (Z.quot (s8 a) (s8 b))
  | RemU64 => if b =? 0 then a else a mod b
  | RemS64 => if (s8 a =? - 9223372036854775808) && (s8 b =? -1) then 0 else u8 (smod (s8 a) (s8 b))
  | ShloL64 => (a * 2 ^ (b mod 64)) mod W64
  | ShloR64 => a / 2 ^ (b mod 64)
  | SharR64 => u8 (s8 a / 2 ^ (b mod 64))
  | And => Z.land a b
  | Xor => Z.lxor a b
  | Or => Z.lor a b
  | MulUpperSS => u8 ((s8 a * s8 b) / W64)
  | MulUpperUU => (a * b) / W64
  | MulUpperSU => u8 ((s8 a * b) / W64)
  | SetLtU => b2z (a <? b)
  | SetLtS => b2z (s8 a <? s8 b)
  | CmovIz => if b =? 0 then a else d
  | CmovNz => if b =? 0 then d else a
  | RotL64 => rotl 64 a b
  | RotL32 => x4 (rotl 32 (a mod W32) b)
  | RotR64 => rotr 64 a b
  | RotR32 => x4 (rotr 32 (a mod W32) b)
  | AndInv => Z.land a (not64 b)
  | OrInv => Z.lor a (not64 b)
  | Xnor => not64 (Z.lxor a b)
  | Max => u8 (Z.max (s8 a) (s8 b))
  | MaxU => Z.max a b
  | Min => u8 (Z.min (s8 a) (s8 b))
  | MinU => Z.min a b
  end.

(* ---- control flow (A.17, A.18) ---- *)
(* result of one instruction before gas/pc bookkeeping: exit, next pc if Continue *)
Definition branch (p : prog) (next target : Z) (c : bool) : exit * Z :=
  if negb c then (Continue, next)
  else if bb_start p target then (Continue, target)
  else (Panic, 0).

Definition HALT_ADDR : Z := 4294901760.  (* 2^32 - 2^16 *)

Definition djump (p : prog) (a : Z) : exit * Z :=
  if a =? HALT_ADDR then (Halt, 0)
  else if (a =? 0) || (jt_count p * 2 <? a) || negb (a mod 2 =? 0) then (Panic, 0)
  else
    let t := jt_entry p (a / 2 - 1) in
    if bb_start p t then (Continue, t) else (Panic, 0).

(* the memory access (address mod 2^32, width) an instruction performs, if any *)
Definition access_of (i : instr) (ar : args) (r : list Z) : option (Z * nat) :=
  match i with
  | IStoreImm w => Some (vX ar mod ADDR, w)
  | ILoad w _ => Some (vX ar mod ADDR, w)
  | IStore w => Some (vX ar mod ADDR, w)
  | IStoreImmInd w => Some ((greg r (rA ar) + vX ar) mod ADDR, w)
  | IStoreInd w => Some ((greg r (rB ar) + vX ar) mod ADDR, w)
  | ILoadInd w _ => Some ((greg r (rB ar) + vX ar) mod ADDR, w)
  | _ => None
  end.

Definition wmod (w : nat) : Z := 2 ^ (8 * Z.of_nat w).

Definition do_load (next : Z) (r : list Z) (m : memory) (a : Z) (w : nat) (signed : bool) (dst : nat)
  : exit * Z * list Z * memory :=
  match load m a w with
  | MOk v => (Continue, next, sreg r dst (if signed then sext (Z.of_nat w) v else v), m)
  | MPanic => (Panic, 0, r, m)
  | MFault f => (Fault f, next, r, m)
  end.

Definition do_store (next : Z) (r : list Z) (m : memory) (a : Z) (w : nat) (v : Z)
  : exit * Z * list Z * memory :=
  match store m a w (v mod wmod w) with
  | MOk m' => (Continue, next, r, m')
  | MPanic => (Panic, 0, r, m)
  | MFault f => (Fault f, next, r, m)
  end.

(* one instruction on registers and memory; [next] = pc + 1 + skip(pc).
   The returned pc is meaningful for Continue only (the caller fixes it for the other exits). *)
Definition exec (p : prog) (pc : Z) (r : list Z) (m : memory) : exit * Z * list Z * memory :=
  let o := opcode_at p pc in
  let i := instr_of o in
  let ar := decode p pc in
  let next := pc + 1 + skip p pc in
  let A := greg r (rA ar) in
  let B := greg r (rB ar) in
  let D := greg r (rD ar) in
  let X := vX ar in
  let Y := vY ar in
  match i with
  | ITrap => (Panic, 0, r, m)
  | IFallthrough => (Continue, next, r, m)
  | IEcalli => (Host X, next, r, m)
  | ILoadImm64 => (Continue, next, sreg r (rA ar) X, m)
  | IStoreImm w => do_store next r m (X mod ADDR) w Y
  | IJump => let '(e, t) := branch p next X true in (e, t, r, m)
  | IJumpInd => let '(e, t) := djump p ((A + X) mod ADDR) in (e, t, r, m)
  | ILoadImm => (Continue, next, sreg r (rA ar) X, m)
  | ILoad w sg => do_load next r m (X mod ADDR) w sg (rA ar)
  | IStore w => do_store next r m (X mod ADDR) w A
  | IStoreImmInd w => do_store next r m ((A + X) mod ADDR) w Y
  | ILoadImmJump => let '(e, t) := branch p next Y true in (e, t, sreg r (rA ar) X, m)
  | IBranchImm c => let '(e, t) := branch p next Y (eval_cond1 c A X) in (e, t, r, m)
  | IMoveReg => (Continue, next, sreg r (rD ar) A, m)
  | ISbrk => let '(v, m') := sbrk m A in (Continue, next, sreg r (rD ar) v, m')
  | IAlu2 f => (Continue, next, sreg r (rD ar) (eval_alu2 f A), m)
  | IStoreInd w => do_store next r m ((B + X) mod ADDR) w A
  | ILoadInd w sg => do_load next r m ((B + X) mod ADDR) w sg (rA ar)
  | IAlu2i f => (Continue, next, sreg r (rA ar) (eval_alu2i f B X A), m)
  | IBranch c => let '(e, t) := branch p next X (eval_cond2 c A B) in (e, t, r, m)
  | ILoadImmJumpInd => let '(e, t) := djump p ((B + Y) mod ADDR) in (e, t, sreg r (rA ar) X, m)
  | IAlu3 f => (Continue, next, sreg r (rD ar) (eval_alu3 f A B D), m)
  end.

(* A.1/A.6: one step of the machine.  Every instruction costs one unit of gas; with less than one
   unit left the machine stops out-of-gas BEFORE executing, state untouched.  Halt and panic
   reset the counter to 0; a page fault leaves it at the faulting instruction and undoes nothing
   but the gas charge (the instruction made no change); a host call reports the resume point
   pc + 1 + skip(pc) (where Psi_H continues after the call). *)
Definition step (p : prog) (pc : Z) (s : st) : exit * Z * st :=
  if gas s <? 1 then (OutOfGas, pc, s)
  else
    let '(e, t, r', m') := exec p pc (regs s) (mem s) in
    let s' := {| regs := r'; gas := gas s - 1; mem := m' |} in
    match e with
    | Continue => (Continue, t, s')
    | Halt => (Halt, 0, s')
    | Panic => (Panic, 0, s')
    | OutOfGas => (OutOfGas, pc, s')
    | Fault a => (Fault a, pc, s')
    | Host id => (Host id, t, s')
    end.
