(* C24 — authorizer pool transition (GP 8.2 / 8.3). Executable model only.
   Authorizer hashes are abstract identifiers (N); only equality of hashes matters.
   M (impl-shaped): authorization.STFAlpha2AlphaPrime — one pass over the whole guarantees extrinsic updating
   alpha[core] in place, then one pass over the cores appending varphi[core][slot mod len] and truncating.
   S (spec): the per-core formula of the property text. *)
From JamV Require Import Base.Bytes Model.StfLists.
Local Open Scope N_scope.

Definition pool := list N.
Definition guarantee := (nat * N)%type.        (* (core index, authorizer hash of the report) *)

(* ---- M ---- *)
(* first loop: for each guarantee, alpha[g.core].RemoveLeftMostPairedValue(g.authorizer) *)
Definition remove_used (gs : list guarantee) (alpha : list pool) : list pool :=
  fold_left (fun a g => upd_nth (fst g) (remove_first (snd g)) a) gs alpha.

(* queue[int(slot) % len(queue)]; an empty queue is skipped by the Go code *)
Definition queue_entry (t : N) (q : list N) : option N :=
  match q with
  | [] => None
  | _ => nth_error q (N.to_nat (t mod N.of_nat (length q)))
  end.

(* second loop body: append and keep the last O *)
Definition append_queue (O : nat) (t : N) (p : pool) (q : list N) : pool :=
  match queue_entry t q with
  | Some e => lastn O (p ++ [e])
  | None => p
  end.

Definition alpha_step (O : nat) (t : N) (gs : list guarantee) (alpha : list pool) (varphi : list (list N)) : list pool :=
  zip_with (append_queue O t) (remove_used gs alpha) varphi.

(* the final alpha.Validate(): every pool within O (the count of pools is fixed by construction) *)
Definition pools_valid (O : nat) (alpha : list pool) : bool := forallb (fun p => Nat.leb (length p) O) alpha.

Definition alpha_step_checked (O : nat) (t : N) (gs : list guarantee) (alpha : list pool) (varphi : list (list N)) : option (list pool) :=
  let a := alpha_step O t gs alpha varphi in if pools_valid O a then Some a else None.

(* ---- S ---- *)
(* the authorizers used by core c's guarantees, in extrinsic order *)
Definition used_by (c : nat) (gs : list guarantee) : list N :=
  map snd (filter (fun g => Nat.eqb (fst g) c) gs).

Definition remove_all_first (used : list N) (p : pool) : pool := fold_left (fun acc x => remove_first x acc) used p.

Definition pool_spec_fn (O : nat) (used : list N) (p : pool) (e : N) : pool := lastn O (remove_all_first used p ++ [e]).

(* a block as seen by this transition, and a history of blocks *)
Record ablock := { ab_slot : N; ab_gs : list guarantee; ab_varphi : list (list N) }.
Definition alpha_run (O : nat) (alpha0 : list pool) (bs : list ablock) : list pool :=
  fold_left (fun a b => alpha_step O (ab_slot b) (ab_gs b) a (ab_varphi b)) bs alpha0.
