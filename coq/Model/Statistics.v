(* C34 — activity statistics (GP 13).  Executable Gallina only, no proofs here.
   S  = the Gray Paper sums (13.3-13.16) over unbounded N.
   M  = the Go shapes of internal/statistics where they differ structurally: core records are built from a map
        core -> work report (the last report of a core wins), the per-validator updates are applied one extrinsic
        entry at a time.  Proofs/StatisticsP.v shows M = S (for core records: when no two reports name the same core).
   Validators and cores are list positions (nat); counters are N. *)
From JamV Require Export Base.Bytes.
Local Open Scope N_scope.

(* ------------------------------------------------------------------ records *)
Record vrec := mk_vrec { v_b : N; v_t : N; v_p : N; v_d : N; v_g : N; v_a : N }.
Definition vzero : vrec := mk_vrec 0 0 0 0 0 0.
Definition vadd (x y : vrec) : vrec :=
  mk_vrec (v_b x + v_b y) (v_t x + v_t y) (v_p x + v_p y) (v_d x + v_d y) (v_g x + v_g y) (v_a x + v_a y).

(* core record: DA load, popularity, imports, extrinsic count, extrinsic size, exports, bundle size, gas used *)
Record crec := mk_crec { c_d : N; c_p : N; c_i : N; c_x : N; c_z : N; c_e : N; c_b : N; c_u : N }.
(* service record: provided (count, size), refinement (count, gas), imports, extrinsic count, extrinsic size, exports,
   accumulate (count, gas) *)
Record srec := mk_srec { s_pc : N; s_ps : N; s_rn : N; s_ru : N; s_i : N; s_x : N; s_z : N; s_e : N; s_an : N; s_au : N }.

(* one work digest as the statistics read it: service and refine load (u, i, x, z, e) *)
Record wdigest := mk_wd { d_service : N; d_u : N; d_i : N; d_x : N; d_z : N; d_e : N }.
(* one work report: core, bundle length, export count of the specification, digests *)
Record wreport := mk_wr { w_core : nat; w_len : N; w_exports : N; w_digests : list wdigest }.
Record guarantee := mk_g { g_report : wreport; g_slot : N; g_signers : list nat }.
Record assurance := mk_as { as_validator : nat; as_bits : list N }.   (* one 0/1 entry per core *)

Record block := mk_block {
  b_author : nat;
  b_slot : N;                              (* tau' *)
  b_tickets : N;                           (* |E_T| *)
  b_preimages : list (N * N);              (* E_P as (requester, |blob|) *)
  b_guarantees : list guarantee;           (* E_G; the incoming reports I are their reports *)
  b_assurances : list assurance;           (* E_A *)
  b_available : list wreport;              (* W: newly available reports *)
  b_accstats : list (N * (N * N));         (* S: service -> (gas used, reports accumulated) *)
  b_kappa : list N;                        (* Ed25519 keys of kappa' (0 = the null key) *)
  b_lambda : list N;                       (* Ed25519 keys of lambda' *)
  b_offenders : list N                     (* psi'_o *)
}.

Record pi := mk_pi { pi_curr : list vrec; pi_last : list vrec; pi_cores : list crec; pi_services : list (N * srec) }.

(* protocol constants *)
Record consts := mk_consts { K_V : nat; K_C : nat; K_E : N; K_R : N; K_G : N (* segment size W_G *) }.

Definition sum_N (l : list N) : N := fold_right N.add 0 l.
Definition memN (x : N) (l : list N) : bool := existsb (N.eqb x) l.
Fixpoint upd_at {A} (n : nat) (f : A -> A) (l : list A) : list A :=
  match l, n with
  | [], _ => []
  | x :: t, O => f x :: t
  | x :: t, S k => x :: upd_at k f t
  end.

(* ------------------------------------------------------------------ validator records *)
(* 13.3/13.4: at an epoch change the accumulator becomes the previous record and is reset *)
Definition epoch_of (k : consts) (t : N) : N := t / K_E k.
Definition rollover (k : consts) (prior_tau tau : N) (p : pi) : list vrec * list vrec :=
  if epoch_of k prior_tau =? epoch_of k tau then (pi_curr p, pi_last p)
  else (repeat vzero (K_V k), pi_curr p).

(* Phi: offenders' keys are replaced by the null key *)
Definition phi (off : list N) (keys : list N) : list N := map (fun x => if memN x off then 0 else x) keys.
(* the key list a guarantee's signer indices refer to: G (same rotation as tau'), else G* — kappa' when tau' - R lies in
   the same epoch as tau', lambda' otherwise (Go's truncating division: a negative tau' - R stays in epoch 0) *)
Definition same_rotation (k : consts) (tau slot : N) : bool := tau / K_R k =? slot / K_R k.
Definition prev_rotation_same_epoch (k : consts) (tau : N) : bool :=
  if tau <? K_R k then true else (tau - K_R k) / K_E k =? tau / K_E k.
Definition guarantor_keys (k : consts) (b : block) (g : guarantee) : list N :=
  if same_rotation k (b_slot b) (g_slot g) then phi (b_offenders b) (b_kappa b)
  else if prev_rotation_same_epoch k (b_slot b) then phi (b_offenders b) (b_kappa b)
  else phi (b_offenders b) (b_lambda b).
(* the reporters set R: keys of every signer of every guarantee *)
Definition signer_keys (keys : list N) (signers : list nat) : list N :=
  flat_map (fun i => match nth_error keys i with Some x => [x] | None => [] end) signers.
Definition reporters (k : consts) (b : block) : list N :=
  flat_map (fun g => signer_keys (guarantor_keys k b g) (g_signers g)) (b_guarantees b).

(* S: the per-block delta of validator v *)
Definition count_assurances (v : nat) (l : list assurance) : N :=
  sum_N (map (fun a => if Nat.eqb (as_validator a) v then 1 else 0) l).
Definition is_reporter (k : consts) (b : block) (v : nat) : bool :=
  match nth_error (b_kappa b) v with Some key => memN key (reporters k b) | None => false end.
Definition vdelta (k : consts) (b : block) (v : nat) : vrec :=
  let au := Nat.eqb v (b_author b) in
  mk_vrec (if au then 1 else 0)
          (if au then b_tickets b else 0)
          (if au then N.of_nat (length (b_preimages b)) else 0)
          (if au then sum_N (map snd (b_preimages b)) else 0)
          (if is_reporter k b v then 1 else 0)
          (count_assurances v (b_assurances b)).

(* M: the Go update order on the accumulator: author's four counters, then the guarantors, then one assurance at a time *)
Definition bump_author (b : block) (r : vrec) : vrec :=
  let r1 := mk_vrec (v_b r + 1) (v_t r) (v_p r) (v_d r) (v_g r) (v_a r) in
  let r2 := mk_vrec (v_b r1) (v_t r1 + b_tickets b) (v_p r1) (v_d r1) (v_g r1) (v_a r1) in
  let r3 := mk_vrec (v_b r2) (v_t r2) (v_p r2 + N.of_nat (length (b_preimages b))) (v_d r2) (v_g r2) (v_a r2) in
  fold_left (fun r p => mk_vrec (v_b r) (v_t r) (v_p r) (v_d r + snd p) (v_g r) (v_a r)) (b_preimages b) r3.
Definition bump_g (r : vrec) : vrec := mk_vrec (v_b r) (v_t r) (v_p r) (v_d r) (v_g r + 1) (v_a r).
Definition bump_a (r : vrec) : vrec := mk_vrec (v_b r) (v_t r) (v_p r) (v_d r) (v_g r) (v_a r + 1).
Fixpoint mark_reporters (k : consts) (b : block) (v : nat) (l : list vrec) : list vrec :=
  match l with
  | [] => []
  | r :: t => (if is_reporter k b v then bump_g r else r) :: mark_reporters k b (S v) t
  end.
Definition update_current (k : consts) (b : block) (curr : list vrec) : list vrec :=
  let c1 := upd_at (b_author b) (bump_author b) curr in
  let c2 := match b_guarantees b with [] => c1 | _ => mark_reporters k b 0 c1 end in
  fold_left (fun c a => upd_at (as_validator a) bump_a c) (b_assurances b) c2.

(* ------------------------------------------------------------------ core records (13.8-13.10) *)
Definition incoming (b : block) : list wreport := map g_report (b_guarantees b).
Definition on_core (c : nat) (l : list wreport) : list wreport := filter (fun w => Nat.eqb (w_core w) c) l.
Definition da_load (k : consts) (w : wreport) : N := w_len w + K_G k * ((w_exports w * 65 + 63) / 64).
Definition popularity (c : nat) (l : list assurance) : N := sum_N (map (fun a => nth c (as_bits a) 0) l).
(* S: sums over the incoming / newly available reports of the core *)
Definition core_rec (k : consts) (b : block) (c : nat) : crec :=
  let ds := flat_map w_digests (on_core c (incoming b)) in
  mk_crec (sum_N (map (da_load k) (on_core c (b_available b))))
          (popularity c (b_assurances b))
          (sum_N (map d_i ds)) (sum_N (map d_x ds)) (sum_N (map d_z ds)) (sum_N (map d_e ds))
          (sum_N (map w_len (on_core c (incoming b))))
          (sum_N (map d_u ds)).
(* M: createWorkReportMap — the last report naming the core is the only one looked at *)
Definition last_on_core (c : nat) (l : list wreport) : option wreport :=
  fold_left (fun acc w => if Nat.eqb (w_core w) c then Some w else acc) l None.
Definition core_rec_go (k : consts) (b : block) (c : nat) : crec :=
  let ds := match last_on_core c (incoming b) with Some w => w_digests w | None => [] end in
  mk_crec (match last_on_core c (b_available b) with Some w => da_load k w | None => 0 end)
          (popularity c (b_assurances b))
          (sum_N (map d_i ds)) (sum_N (map d_x ds)) (sum_N (map d_z ds)) (sum_N (map d_e ds))
          (match last_on_core c (incoming b) with Some w => w_len w | None => 0 end)
          (sum_N (map d_u ds)).

(* ------------------------------------------------------------------ service records (13.12-13.16) *)
Fixpoint dedupN (l : list N) : list N :=
  match l with
  | [] => []
  | x :: t => if memN x t then dedupN t else x :: dedupN t
  end.
Definition all_digests (b : block) : list wdigest := flat_map w_digests (incoming b).
Definition service_keys (b : block) : list N :=
  dedupN (map d_service (all_digests b) ++ map fst (b_preimages b) ++ map fst (b_accstats b)).
Fixpoint acc_get (s : N) (l : list (N * (N * N))) : N * N :=
  match l with
  | [] => (0, 0)
  | (s', v) :: t => if s =? s' then v else acc_get s t
  end.
Definition service_rec (b : block) (s : N) : srec :=
  let ds := filter (fun d => d_service d =? s) (all_digests b) in
  let ps := filter (fun p => fst p =? s) (b_preimages b) in
  mk_srec (N.of_nat (length ps)) (sum_N (map snd ps))
          (N.of_nat (length ds)) (sum_N (map d_u ds))
          (sum_N (map d_i ds)) (sum_N (map d_x ds)) (sum_N (map d_z ds)) (sum_N (map d_e ds))
          (snd (acc_get s (b_accstats b))) (fst (acc_get s (b_accstats b))).

(* ------------------------------------------------------------------ one block, and histories *)
Definition stats_step (k : consts) (prior_tau : N) (p : pi) (b : block) : pi :=
  let '(curr, last) := rollover k prior_tau (b_slot b) p in
  mk_pi (update_current k b curr) last
        (map (core_rec_go k b) (seq 0 (K_C k)))
        (map (fun s => (s, service_rec b s)) (service_keys b)).

(* a history: each block's slot is the next block's prior tau *)
Fixpoint stats_run (k : consts) (prior_tau : N) (p : pi) (bs : list block) : pi :=
  match bs with
  | [] => p
  | b :: t => stats_run k (b_slot b) (stats_step k prior_tau p b) t
  end.
