(* C05 — the range test host calls apply before touching guest memory (isReadable / isWriteable):
   an empty range is fine; otherwise the range must lie inside the 32-bit space and every page it touches
   must have the required access.  No proofs here. *)
From JamV Require Export Model.PvmMem.
Local Open Scope Z_scope.

Definition pages_of_range (start len : Z) : list Z :=
  map (fun k => start / PAGE + Z.of_nat k) (seq 0 (Z.to_nat ((start + len - 1) / PAGE - start / PAGE + 1))).

Definition range_ok (ok : memory -> Z -> bool) (m : memory) (start len : Z) : bool :=
  if len =? 0 then true
  else if (ADDR <? len) || (ADDR - len <? start) then false
  else forallb (fun p => ok m (p * PAGE)) (pages_of_range start len).
