(* PVM multi-step execution: Psi (A.1) as [run fuel], the host-call loop Psi_H (A.34) with the
   host function as a parameter, and the gas accounting of the top-level invocation (A.40/A.41).
   [run] returns None ONLY when the fuel is exhausted.  Executable Gallina only. *)
From JamV Require Export Model.PvmStep.
Local Open Scope Z_scope.

(* Psi: iterate [step] until it exits; the exit, the counter and the state are returned as is *)
Fixpoint run (fuel : nat) (p : prog) (pc : Z) (s : st) : option (exit * Z * st) :=
  match fuel with
  | O => None
  | S f =>
    let '(e, pc', s') := step p pc s in
    match e with
    | Continue => run f p pc' s'
    | _ => Some (e, pc', s')
    end
  end.

(* exactly n continuing steps (None if one of the first n steps exits) *)
Fixpoint nsteps (n : nat) (p : prog) (pc : Z) (s : st) : option (Z * st) :=
  match n with
  | O => Some (pc, s)
  | S n' =>
    let '(e, pc', s') := step p pc s in
    match e with
    | Continue => nsteps n' p pc' s'
    | _ => None
    end
  end.

Definition with_gas (s : st) (g : Z) : st := {| regs := regs s; gas := g; mem := mem s |}.

(* ---- Psi_H: host-call boundary ---- *)
(* what a host function may answer: continue with a new state, or stop the machine *)
Inductive hres := HCont (s : st) | HStop (e : exit) (s : st).

Section Host.
  (* the host function: identifier (the full sign-extended ecalli immediate) and state *)
  Variable hostf : Z -> st -> hres.

  (* log = identifiers requested so far, most recent first *)
  Fixpoint run_h (fuel : nat) (p : prog) (pc : Z) (s : st) (log : list Z)
    : option (exit * Z * st * list Z) :=
    match fuel with
    | O => None
    | S f =>
      let '(e, pc', s') := step p pc s in
      match e with
      | Continue => run_h f p pc' s' log
      | Host id =>
        match hostf id s' with
        | HCont s'' => run_h f p pc' s'' (id :: log)
        | HStop e' s'' => Some (e', pc', s'', id :: log)
        end
      | _ => Some (e, pc', s', log)
      end
    end.
End Host.

(* ---- host functions used by the correspondence ---- *)
Definition WHAT : Z := W64 - 2.

(* the Gray Paper default for an identifier no host function is registered for:
   charge 10, out-of-gas if that cannot be paid, else omega_7 := WHAT *)
Definition host_unknown (s : st) : hres :=
  let g := gas s - 10 in
  if g <? 0 then HStop OutOfGas (with_gas s g)
  else HCont {| regs := sreg (regs s) 7 WHAT; gas := g; mem := mem s |}.

(* Omega_G (gas): charge 10, omega_7 := remaining gas *)
Definition host_gas (s : st) : hres :=
  let g := gas s - 10 in
  if g <? 0 then HStop OutOfGas (with_gas s g)
  else HCont {| regs := sreg (regs s) 7 (g mod W64); gas := g; mem := mem s |}.

(* table used by the harness: identifier 0 = gas, 1 <= id < tab = a logging no-op,
   everything else (incl. identifiers >= 2^63 from negative immediates) = unknown *)
Definition host_tab (tab : Z) (id : Z) (s : st) : hres :=
  if id =? 0 then host_gas s
  else if (1 <=? id) && (id <? tab) then HCont s
  else host_unknown s.

(* ---- top-level gas accounting (A.40, A.41 R) ----
   The implementation keeps gas in a signed 64-bit integer: a limit >= 2^63 is read as negative.
   [gas_in] is that conversion; [gas_used] is  limit - max(remaining, 0). *)
Definition gas_in (limit : Z) : Z := if limit <? 9223372036854775808 then limit else limit - W64.
Definition gas_used (limit remaining : Z) : Z := limit - Z.max remaining 0.

Definition invoke (hostf : Z -> st -> hres) (fuel : nat) (p : prog) (pc : Z) (r : list Z) (m : memory)
           (limit : Z) : option (exit * Z * st * list Z * Z) :=
  match run_h hostf fuel p pc {| regs := r; gas := gas_in limit; mem := m |} [] with
  | None => None
  | Some (e, pc', s', log) => Some (e, pc', s', log, gas_used limit (gas s'))
  end.
