(* C31 — historical lookup and preimage admission.  Executable Gallina only, no proofs here.
   S  = Gray Paper 9.5-9.7 (I, Lambda), 12.38-12.43 (preimage extrinsic: order, Y, integration)
   M  = the Go shapes of internal/service_account (isValidTime, HistoricalLookup) and
        internal/accumulation/extrinsic_preimage.go (validateSortUnique, ShouldIntegratePreimage with the
        raw key-value fallback, filterPreimageExtrinsics + UpdateDeltaWithExtrinsicPreimage, Provide).
   The hash is a Section variable; nothing is assumed about it.
   Maps are association lists (first match wins; the Go maps have unique keys, the harness emits unique keys). *)
From JamV Require Export Base.Bytes.
Local Open Scope N_scope.

(* ------------------------------------------------------------------ association lists *)
Section AL.
  Context {K V : Type}.
  Variable eqb : K -> K -> bool.
  Fixpoint pm_get (k : K) (l : list (K * V)) : option V :=
    match l with
    | [] => None
    | (k', v) :: t => if eqb k k' then Some v else pm_get k t
    end.
  (* replace in place if present, append otherwise *)
  Fixpoint pm_set (k : K) (v : V) (l : list (K * V)) : list (K * V) :=
    match l with
    | [] => [(k, v)]
    | (k', v') :: t => if eqb k k' then (k, v) :: t else (k', v') :: pm_set k v t
    end.
  (* remove the first entry with key k *)
  Fixpoint pm_del (k : K) (l : list (K * V)) : list (K * V) :=
    match l with
    | [] => []
    | (k', v') :: t => if eqb k k' then t else (k', v') :: pm_del k t
    end.
End AL.

(* ------------------------------------------------------------------ I(l, t)  (GP 9.5 / isValidTime) *)
Definition valid_time (l : list N) (t : N) : bool :=
  match l with
  | [] => false
  | [x] => x <=? t
  | [x; y] => (x <=? t) && (t <? y)
  | [x; y; z] => ((x <=? t) && (t <? y)) || (z <=? t)
  | _ => false
  end.

(* S: the availability intervals an availability record denotes; None = unbounded above *)
Definition intervals (l : list N) : list (N * option N) :=
  match l with
  | [x] => [(x, None)]
  | [x; y] => [(x, Some y)]
  | [x; y; z] => [(x, Some y); (z, None)]
  | _ => []
  end.
Definition in_interval (t : N) (iv : N * option N) : Prop :=
  fst iv <= t /\ match snd iv with Some y => t < y | None => True end.

(* ------------------------------------------------------------------ service accounts (the two preimage maps) *)
Definition lkey := (bytes * N)%type.                  (* (hash, length) *)
Definition lk_eqb (a b : lkey) : bool := bytes_eqb (fst a) (fst b) && (snd a =? snd b).
Definition blen (b : bytes) : N := N.of_nat (length b).

Record account := mk_account {
  a_p : list (bytes * bytes);        (* a_p : hash -> preimage *)
  a_l : list (lkey * list N)         (* a_l : (hash, length) -> availability record *)
}.
Definition delta := list (N * account).
Definition get_acc (s : N) (d : delta) : option account := pm_get N.eqb s d.
Definition get_p (h : bytes) (a : account) : option bytes := pm_get bytes_eqb h (a_p a).
Definition get_l (k : lkey) (a : account) : option (list N) := pm_get lk_eqb k (a_l a).

(* Lambda(a, t, h)  (GP 9.7 / HistoricalLookup): a missing record reads as the empty (never valid) record *)
Definition hist_lookup (a : account) (t : N) (h : bytes) : option bytes :=
  match get_p h a with
  | Some b =>
    let l := match get_l (h, blen b) a with Some l => l | None => [] end in
    if valid_time l t then Some b else None
  | None => None
  end.

(* the host-call window v[f .. f+l] with f = min(w10,|v|), l = min(w11,|v|-f)  (lookup / historical_lookup) *)
Definition hc_window (v : bytes) (w10 w11 : N) : bytes :=
  let f := N.min w10 (blen v) in
  let l := N.min w11 (blen v - f) in
  firstn (N.to_nat l) (skipn (N.to_nat f) v).

Section Preimages.
Variable H : bytes -> bytes.

(* ------------------------------------------------------------------ raw (unattributed) state key-values *)
(* D.1 state key of a lookup record: C(s, E_4(l) ++ h) = interleave(E_4(s), H(E_4(l) ++ h))[..31]
   (merklization.EncodeDelta4Key) *)
Definition lookup_state_key (s : N) (k : lkey) : bytes :=
  let n := le_enc 4 s in
  let a := firstn 27 (H (le_enc 4 (snd k) ++ fst k)) in
  [nth 0 n 0; nth 0 a 0; nth 1 n 0; nth 1 a 0; nth 2 n 0; nth 2 a 0; nth 3 n 0; nth 3 a 0] ++ skipn 4 a.

Definition rawkv := list (bytes * bytes).
(* lookupInKeyVal: the first entry with that key decides; "solicited" = its value is the encoding of the empty
   availability record, the single byte 0 *)
Definition raw_solicited (kvs : rawkv) (s : N) (k : lkey) : bool :=
  match pm_get bytes_eqb (lookup_state_key s k) kvs with
  | Some v => bytes_eqb v [0]
  | None => false
  end.

(* ------------------------------------------------------------------ admission (GP 12.39, 12.40) *)
Definition pre := (N * bytes)%type.                    (* (requester, blob) *)
Definition pre_ltb (a b : pre) : bool :=
  (fst a <? fst b) || ((fst a =? fst b) && bytes_ltb (snd a) (snd b)).
(* validateSortUnique: every adjacent pair strictly increasing *)
Fixpoint sorted_strictb (eps : list pre) : bool :=
  match eps with
  | [] => true
  | x :: t => match t with [] => true | y :: _ => pre_ltb x y && sorted_strictb t end
  end.

Definition key_of (e : pre) : lkey := (H (snd e), blen (snd e)).

(* M: ShouldIntegratePreimage(d, s, H(blob), |blob|, keyVals, parseToState=false) *)
Definition needed (d : delta) (kvs : rawkv) (e : pre) : bool :=
  match get_acc (fst e) d with
  | None => false
  | Some a =>
    match get_l (key_of e) a with
    | None => raw_solicited kvs (fst e) (key_of e)
    | Some ts => negb (match get_p (H (snd e)) a with Some _ => true | None => false end)
                 && match ts with [] => true | _ => false end
    end
  end.

(* S: Y(d, s, h, l) = h not in d[s]_p  /\  d[s]_l[(h,l)] = []  where the record is read from the dictionary or,
   when the dictionary has no such key, from the raw key-values *)
Definition record_empty (a : account) (kvs : rawkv) (s : N) (k : lkey) : bool :=
  match get_l k a with
  | Some ts => match ts with [] => true | _ => false end
  | None => raw_solicited kvs s k
  end.
Definition needed_spec (d : delta) (kvs : rawkv) (e : pre) : bool :=
  match get_acc (fst e) d with
  | None => false
  | Some a => record_empty a kvs (fst e) (key_of e)
              && negb (match get_p (H (snd e)) a with Some _ => true | None => false end)
  end.

Inductive verdict := Accepted | NotSortedUnique | Unneeded.
(* ValidatePreimageExtrinsics: order first, then each entry *)
Definition admit_pre (d : delta) (kvs : rawkv) (eps : list pre) : verdict :=
  if sorted_strictb eps then (if forallb (needed d kvs) eps then Accepted else Unneeded) else NotSortedUnique.

(* ------------------------------------------------------------------ integration (GP 12.41-12.43) *)
Definition set_l (k : lkey) (ts : list N) (a : account) : account :=
  mk_account (a_p a) (pm_set lk_eqb k ts (a_l a)).
Definition set_p (h b : bytes) (a : account) : account :=
  mk_account (pm_set bytes_eqb h b (a_p a)) (a_l a).
Definition upd_acc (s : N) (f : account -> account) (d : delta) : delta :=
  match get_acc s d with
  | Some a => pm_set N.eqb s (f a) d
  | None => d
  end.

(* M: filterPreimageExtrinsics — one pass; an entry that is needed in the state reached so far is kept, its record is
   (re)written as the empty record in the dictionary and, if it was found in the raw key-values, that raw entry is removed *)
Definition needed_raw (d : delta) (kvs : rawkv) (e : pre) : bool :=
  match get_acc (fst e) d with
  | None => false
  | Some a => match get_l (key_of e) a with None => raw_solicited kvs (fst e) (key_of e) | Some _ => false end
  end.
Fixpoint filter_pass (d : delta) (kvs : rawkv) (eps : list pre) : list pre * delta * rawkv :=
  match eps with
  | [] => ([], d, kvs)
  | e :: t =>
    if needed d kvs e then
      let kvs' := if needed_raw d kvs e then pm_del bytes_eqb (lookup_state_key (fst e) (key_of e)) kvs else kvs in
      let d' := upd_acc (fst e) (set_l (key_of e) []) d in
      match filter_pass d' kvs' t with (k, d2, kv2) => (e :: k, d2, kv2) end
    else filter_pass d kvs t
  end.
(* M: UpdateDeltaWithExtrinsicPreimage — a_l[(h,|p|)] := [tau'], a_p[h] := p for every kept entry, in order *)
Definition store_one (tau : N) (e : pre) (d : delta) : delta :=
  upd_acc (fst e) (fun a => set_p (H (snd e)) (snd e) (set_l (key_of e) [tau] a)) d.
Definition update_pass (tau : N) (kept : list pre) (d : delta) : delta :=
  fold_left (fun d e => store_one tau e d) kept d.
(* ProcessPreimageExtrinsics *)
Definition integrate (tau : N) (d : delta) (kvs : rawkv) (eps : list pre) : delta * rawkv :=
  match filter_pass d kvs eps with (kept, d1, kvs1) => (update_pass tau kept d1, kvs1) end.

(* M: accumulation.Provide (GP 12.18): a provided blob is stored only if its record is the empty record of the
   dictionary; otherwise skipped *)
Definition provide_one (tau : N) (d : delta) (e : pre) : delta :=
  match get_acc (fst e) d with
  | None => d
  | Some a => match get_l (key_of e) a with
              | Some [] => store_one tau e d
              | _ => d
              end
  end.
Definition provide (tau : N) (d : delta) (ps : list pre) : delta := fold_left (provide_one tau) ps d.

End Preimages.
