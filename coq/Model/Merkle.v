(* C18 — Gray Paper E.1 binary Merkle trees.  Executable Gallina only, no proofs here.
   S  = the Gray Paper definitions: N, M_B (well-balanced), C, M (constant depth), T (trace), J_x, L_x
   M  = the Go-shaped pieces of internal/utilities/merkle_tree that differ structurally from S:
        the doubling loops of C / Jx, the bottom-up VerifyMerkleProof, PagedProofs, constructMerkleCoPath
   D  = defect models: the shapes merkle_tree.T / merkle_tree.N had before the proposed patches
        (floor split in T; nil first element treated as empty input in N).
   The hash is a Section variable; nothing is assumed about it. *)
From JamV Require Export Base.Bytes Model.NatCodec.

Section Merkle.
Variable H : bytes -> bytes.

Definition zero_hash : bytes := zeros 32.
Definition node_tag : bytes := [110%N; 111%N; 100%N; 101%N].   (* "node" *)
Definition leaf_tag : bytes := [108%N; 101%N; 97%N; 102%N].    (* "leaf" *)

(* ceil(n/2): where N, T, P split *)
Definition half (n : nat) : nat := ((n + 1) / 2)%nat.

(* ---------------------------------------------------------------- S: E.1.1 well-balanced tree *)
(* [Nroot] is the Gray Paper N (renamed: N is the Coq type of binary naturals).
   N(v) = H_0 if |v|=0 ; v_0 if |v|=1 ; H("node" ++ N(v[..ceil(|v|/2)]) ++ N(v[ceil(|v|/2)..])) *)
Fixpoint Nroot_ (fuel : nat) (v : list bytes) : bytes :=
  match v with
  | [] => zero_hash
  | [x] => x
  | _ :: _ :: _ =>
    match fuel with
    | O => zero_hash
    | S f => let m := half (length v) in
             H (node_tag ++ Nroot_ f (firstn m v) ++ Nroot_ f (skipn m v))
    end
  end.
Definition Nroot (v : list bytes) : bytes := Nroot_ (length v) v.

(* M_B(v) = H(v_0) if |v| = 1 ; N(v) otherwise *)
Definition MB (v : list bytes) : bytes :=
  match v with
  | [x] => H x
  | _ => Nroot v
  end.

(* T(v,i) = [N(P_bot(v,i))] ++ T(P_top(v,i), i - P_I(v,i)) if |v| > 1 ; [] otherwise.
   The trace lists the opposite nodes from the top of the tree to the bottom. *)
Fixpoint T_ (fuel : nat) (v : list bytes) (i : nat) : list bytes :=
  match fuel with
  | O => []
  | S f =>
    if (length v <=? 1)%nat then []
    else
      let m := half (length v) in
      if (i <? m)%nat then Nroot (skipn m v) :: T_ f (firstn m v) i
      else Nroot (firstn m v) :: T_ f (skipn m v) (i - m)
  end.
Definition T (v : list bytes) (i : nat) : list bytes := T_ (length v) v i.

(* P^top(v,i): the half that contains index i, and P_I(v,i): the offset of that half *)
Definition Ptop (v : list bytes) (i : nat) : list bytes :=
  let m := half (length v) in if (i <? m)%nat then firstn m v else skipn m v.
Definition PI (v : list bytes) (i : nat) : nat :=
  let m := half (length v) in if (i <? m)%nat then O else m.

(* Folding a trace (top to bottom) from the value of leaf i in a tree over n items. *)
Fixpoint fold_trace (leaf : bytes) (tr : list bytes) (i n : nat) : bytes :=
  match tr with
  | [] => leaf
  | s :: tr' =>
    let m := half n in
    if (i <? m)%nat then H (node_tag ++ fold_trace leaf tr' i m ++ s)
    else H (node_tag ++ s ++ fold_trace leaf tr' (i - m) (n - m))
  end.

(* ---------------------------------------------------------------- S: E.1.2 constant-depth tree *)
Definition leaf_hash (x : bytes) : bytes := H (leaf_tag ++ x).
(* ceil(log2(max(1,n))) *)
Definition depth (n : nat) : nat := Nat.log2_up (Nat.max 1 n).
Definition pad_to (n : nat) (l : list bytes) : list bytes := l ++ repeat zero_hash (n - length l).
(* C(v): leaves hashed with the "leaf" prefix, padded with zero hashes to the next power of two *)
Definition C (v : list bytes) : list bytes := pad_to (2 ^ depth (length v)) (map leaf_hash v).
Definition M (v : list bytes) : bytes := Nroot (C v).
(* J_x(v,i) = T(C(v), 2^x i)[.. max(0, ceil(log2(max(1,|v|))) - x)] *)
Definition Jx (x : nat) (v : list bytes) (i : nat) : list bytes :=
  firstn (depth (length v) - x) (T (C v) (2 ^ x * i)).
(* L_x(v,i) = [H("leaf" ++ l) | l <- v[2^x i .. min(2^x i + 2^x, |v|)]] *)
Definition Lx (x : nat) (v : list bytes) (i : nat) : list bytes :=
  map leaf_hash (firstn (2 ^ x) (skipn (2 ^ x * i) v)).
(* number of pages of size 2^x *)
Definition pages (x : nat) (v : list bytes) : nat := ((length v + 2 ^ x - 1) / 2 ^ x)%nat.
(* root of the subtree that page i of size 2^x occupies in the constant-depth tree *)
Definition page_root (x : nat) (v : list bytes) (i : nat) : bytes :=
  Nroot (pad_to (2 ^ Nat.min x (depth (length v))) (Lx x v i)).

(* replace element i *)
Definition upd (v : list bytes) (i : nat) (x : bytes) : list bytes := firstn i v ++ x :: skipn (S i) v.

(* ---------------------------------------------------------------- M: Go-shaped pieces *)
(* `sz := 1; for sz < len(v) { sz *= 2 }` *)
Fixpoint dbl_loop (fuel sz n : nat) : nat :=
  match fuel with
  | O => sz
  | S f => if (sz <? n)%nat then dbl_loop f (2 * sz) n else sz
  end.
Definition C_go (v : list bytes) : list bytes :=
  let sz := dbl_loop (length v) 1 (length v) in
  map (fun i => if (i <? length v)%nat then leaf_hash (nth i v []) else zero_hash) (seq 0 sz).

(* `log := 0; for (1 << log) < num { log++ }` with num = max(1,len(v)) *)
Fixpoint log_loop (fuel lg n : nat) : nat :=
  match fuel with
  | O => lg
  | S f => if (2 ^ lg <? n)%nat then log_loop f (S lg) n else lg
  end.
(* Jx: the whole trace is computed, then the first sz entries are copied into a zero-filled result *)
Definition Jx_go (x : nat) (v : list bytes) (i : nat) : list bytes :=
  let num := Nat.max 1 (length v) in
  let sz := (log_loop num 0 num - x)%nat in
  let res := T (C_go v) (i * 2 ^ x) in
  map (fun k => nth k res zero_hash) (seq 0 sz).

(* VerifyMerkleProof: bottom-up fold driven by the parity of the index; [rproof] is bottom first *)
Fixpoint verify_up (cur : bytes) (rproof : list bytes) (idx : nat) : bytes :=
  match rproof with
  | [] => cur
  | s :: r =>
    verify_up (if Nat.even idx then H (node_tag ++ cur ++ s) else H (node_tag ++ s ++ cur)) r (idx / 2)
  end.
Definition verify_root (leaf : bytes) (proof : list bytes) (idx : nat) : bytes :=
  verify_up (leaf_hash leaf) (rev proof) idx.
Definition verify_go (leaf : bytes) (proof : list bytes) (idx : nat) (root : bytes) : bool :=
  bytes_eqb (verify_root leaf proof idx) root.

(* work_package.PagedProofs (GP 14.10): page i = zero-pad_4104( len(J_6) ++ J_6(s,i) ++ len(L_6) ++ L_6(s,i) ) *)
Definition pad_multiple (n : nat) (b : bytes) : bytes :=
  b ++ zeros ((n - length b mod n) mod n).
Definition enc_hash_seq (l : list bytes) : bytes := enc_nat (N.of_nat (length l)) ++ concat l.
Definition paged_proofs (seg : nat) (v : list bytes) : list bytes :=
  map (fun i => pad_multiple seg (enc_hash_seq (Jx 6 v i) ++ enc_hash_seq (Lx 6 v i))) (seq 0 (pages 6 v)).

(* ce140.constructMerkleCoPath: T(s,i) with every entry prefixed by the discriminator 0 *)
Definition copath (v : list bytes) (i : nat) : option bytes :=
  if (i <? length v)%nat then Some (concat (map (fun h => 0%N :: h) (T v i))) else None.

(* ---------------------------------------------------------------- D: pre-patch shapes (defect models) *)
(* merkle_tree.T before the patch: splits at floor(n/2) although N splits at ceil(n/2) *)
Fixpoint T_floor_ (fuel : nat) (v : list bytes) (i : nat) : list bytes :=
  match fuel with
  | O => []
  | S f =>
    if (length v <=? 1)%nat then []
    else
      let m := (length v / 2)%nat in
      if (i <? m)%nat then Nroot (skipn m v) :: T_floor_ f (firstn m v) i
      else Nroot (firstn m v) :: T_floor_ f (skipn m v) (i - m)
  end.
Definition T_floor (v : list bytes) (i : nat) : list bytes := T_floor_ (length v) v i.

(* merkle_tree.N before the patch: `len(v) == 0 || v[0] == nil` returns the zero hash, in every
   recursive call.  Elements are options here because the defect distinguishes nil from empty. *)
Definition blob (o : option bytes) : bytes := match o with Some b => b | None => [] end.
Fixpoint N_nil0_ (fuel : nat) (v : list (option bytes)) : bytes :=
  match v with
  | [] => zero_hash
  | None :: _ => zero_hash
  | [Some x] => x
  | _ :: _ :: _ =>
    match fuel with
    | O => zero_hash
    | S f => let m := half (length v) in
             H (node_tag ++ N_nil0_ f (firstn m v) ++ N_nil0_ f (skipn m v))
    end
  end.
Definition N_nil0 (v : list (option bytes)) : bytes := N_nil0_ (length v) v.

End Merkle.
