(* C06 — standard program initialisation Y(p, a), Gray Paper v0.7.2 A.37–A.43.
   S = [cell_gp] : the piecewise definition of the RAM by address, literally as in the Gray Paper.
   M = [pages_of] : the page-by-page construction (what an implementation builds).  No proofs here. *)
From JamV Require Export Base.Bytes.
Local Open Scope N_scope.

Definition ZP : N := 4096.
Definition ZZ : N := 65536.
Definition ZI : N := 16777216.
Definition TOP : N := 4294967296.   (* 2^32 *)

Definition Pz (x : N) : N := ZP * ((x + ZP - 1) / ZP).
Definition Zz (x : N) : N := ZZ * ((x + ZZ - 1) / ZZ).

Record blob := { b_o : bytes; b_w : bytes; b_z : N; b_s : N; b_c : bytes }.

(* the length test is made in N so that a huge declared length never becomes a unary number *)
Definition take (n : N) (l : bytes) : option (bytes * bytes) :=
  if N.of_nat (length l) <? n then None else Some (firstn (N.to_nat n) l, skipn (N.to_nat n) l).

(* p = E_3(|o|) ++ E_3(|w|) ++ E_2(z) ++ E_3(s) ++ o ++ w ++ E_4(|c|) ++ c, exactly (no trailing bytes) *)
Definition parse (p : bytes) : option blob :=
  match take 3 p with None => None | Some (lo, p1) =>
  match take 3 p1 with None => None | Some (lw, p2) =>
  match take 2 p2 with None => None | Some (z, p3) =>
  match take 3 p3 with None => None | Some (s, p4) =>
  match take (le_dec lo) p4 with None => None | Some (o, p5) =>
  match take (le_dec lw) p5 with None => None | Some (w, p6) =>
  match take 4 p6 with None => None | Some (lc, p7) =>
  match take (le_dec lc) p7 with None => None | Some (c, p8) =>
  match p8 with
  | [] => Some {| b_o := o; b_w := w; b_z := le_dec z; b_s := le_dec s; b_c := c |}
  | _ :: _ => None
  end end end end end end end end end.

Definition blen (l : bytes) : N := N.of_nat (length l).

(* A.38 *)
Definition layout_ok (b : blob) : bool :=
  5 * ZZ + Zz (blen (b_o b)) + Zz (blen (b_w b) + b_z b * ZP) + Zz (b_s b) + ZI <=? TOP.

Inductive access := ANone | ARead | AWrite.

Definition nthN (l : bytes) (i : N) : N := nth (N.to_nat i) l 0.

(* A.42: the RAM cell at address i *)
Definition cell_gp (b : blob) (a : bytes) (i : N) : access * N :=
  let o := b_o b in let w := b_w b in
  let rw0 := 2 * ZZ + Zz (blen o) in
  let st1 := TOP - 2 * ZZ - ZI in
  let ar0 := TOP - ZZ - ZI in
  if (ZZ <=? i) && (i <? ZZ + blen o) then (ARead, nthN o (i - ZZ))
  else if (ZZ + blen o <=? i) && (i <? ZZ + Pz (blen o)) then (ARead, 0)
  else if (rw0 <=? i) && (i <? rw0 + blen w) then (AWrite, nthN w (i - rw0))
  else if (rw0 + blen w <=? i) && (i <? rw0 + (Pz (blen w) + b_z b * ZP)) then (AWrite, 0)
  else if (st1 - Pz (b_s b) <=? i) && (i <? st1) then (AWrite, 0)
  else if (ar0 <=? i) && (i <? ar0 + blen a) then (ARead, nthN a (i - ar0))
  else if (ar0 + blen a <=? i) && (i <? ar0 + Pz (blen a)) then (ARead, 0)
  else (ANone, 0).

(* A.43 registers *)
Definition regs_init (a : bytes) : list N :=
  [TOP - 65536; TOP - 2 * ZZ - ZI; 0; 0; 0; 0; 0; TOP - ZZ - ZI; blen a; 0; 0; 0; 0].

(* ---- page construction ---------------------------------------------------------------- *)
(* page number, access, the initial bytes of the page: at most 4096, the rest of the page is
   implicitly zero (a zero page is []).  Keeping the zero padding implicit keeps huge zero zones cheap. *)
Definition page := (N * access * bytes)%type.

Fixpoint mk_pages (npages : nat) (pn : N) (acc : access) (data : bytes) : list page :=
  match npages with
  | O => []
  | S n => (pn, acc, firstn 4096 data) :: mk_pages n (pn + 1) acc (skipn 4096 data)
  end.

(* a zone: page-aligned start, initial data, total length (a multiple of ZP), access *)
Definition zone_pages (start : N) (data : bytes) (total : N) (acc : access) : list page :=
  mk_pages (N.to_nat (total / ZP)) (start / ZP) acc data.

Definition pages_of (b : blob) (a : bytes) : list page :=
  zone_pages ZZ (b_o b) (Pz (blen (b_o b))) ARead
  ++ zone_pages (2 * ZZ + Zz (blen (b_o b))) (b_w b) (Pz (blen (b_w b)) + b_z b * ZP) AWrite
  ++ zone_pages (TOP - 2 * ZZ - ZI - Pz (b_s b)) [] (Pz (b_s b)) AWrite
  ++ zone_pages (TOP - ZZ - ZI) a (Pz (blen a)) ARead.

Fixpoint find_page (pgs : list page) (pn : N) : option page :=
  match pgs with
  | [] => None
  | ((n, acc, bs) as p) :: t => if n =? pn then Some p else find_page t pn
  end.

Definition lookup_pages (pgs : list page) (i : N) : access * N :=
  match find_page pgs (i / ZP) with
  | Some (_, acc, bs) => (acc, nthN bs (i mod ZP))
  | None => (ANone, 0)
  end.

(* Y(p, a): code, registers, pages; None = rejected *)
Definition init (p a : bytes) : option (bytes * list N * list page) :=
  match parse p with
  | None => None
  | Some b => if layout_ok b then Some (b_c b, regs_init a, pages_of b a) else None
  end.
