(* C20 — an O(n log n) evaluation of F.1 on a finite map (used only to run the specification
   quickly in the extracted model; Proofs/ShuffleFastP.v shows it equal to F).  No proofs here. *)
From JamV Require Export Model.Shuffle.
From Coq Require Import FMapPositive.
Local Open Scope N_scope.

Section Fast.
  Context {A : Type}.

  Definition key (j : N) : positive := N.succ_pos j.
  Definition get (j : N) (m : PositiveMap.t A) (d : A) : A :=
    match PositiveMap.find (key j) m with Some x => x | None => d end.

  (* the map  j |-> s[j] *)
  Fixpoint build (s : list A) (j : N) (m : PositiveMap.t A) : PositiveMap.t A :=
    match s with
    | [] => m
    | x :: t => build t (N.succ j) (PositiveMap.add (key j) x m)
    end.

  (* F.1 on the map holding the first l positions *)
  Fixpoint F_map (r : list N) (l : N) (m : PositiveMap.t A) (d : A) : list A :=
    match r with
    | [] => []
    | r0 :: r' =>
      if l =? 0 then []
      else
        let i := r0 mod l in
        let y := get i m d in
        let z := get (l - 1) m d in
        y :: F_map r' (l - 1) (PositiveMap.add (key i) z m) d
    end.

  Definition F_fast (s : list A) (r : list N) : list A :=
    match s with
    | [] => []
    | a :: _ => F_map r (N.of_nat (length s)) (build s 0 (PositiveMap.empty A)) a
    end.
End Fast.

Section HashedFast.
  Variable H : bytes -> bytes.

  (* F.2 evaluated block-wise: one hash per eight numbers *)
  Definition block_words (hb : bytes) : list N :=
    map (fun j => le_dec (firstn 4 (skipn (4 * j) hb))) (seq 0 8).
  Fixpoint blocks (h : bytes) (b : N) (k : nat) : list N :=
    match k with
    | O => []
    | S k' => block_words (H (h ++ le_enc 4 b)) ++ blocks h (b + 1) k'
    end.
  Definition qseq_fast (h : bytes) (l : nat) : list N := firstn l (blocks h 0 (Nat.div (l + 7) 8)).

  Definition shuffle_fast {A} (s : list A) (h : bytes) : list A := F_fast s (qseq_fast h (length s)).

  (* P(e, t) for a run of slots sharing the entropy: the shuffle is evaluated once *)
  Definition assign_slots (p : Params) (e : bytes) (ts : list N) : list (list N) :=
    let sh := shuffle_fast (base_cores p) e in
    map (fun t => rotate p sh (sub_epoch p t)) ts.

  (* count consecutive slots from t0 *)
  Definition slots_from (t0 : N) (n : nat) : list N := map (fun i => t0 + N.of_nat i) (seq 0 n).
End HashedFast.
