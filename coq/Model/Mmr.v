(* C19 — Gray Paper E.2 Merkle mountain ranges.  Executable Gallina only, no proofs here.
   S = append A / P / R, the super-peak M_R, and the closed form [mmr_of] ("peak i is present exactly
       when bit i of the item count is set and is the perfect merge of its 2^i items").
   M = Go-shaped pieces of internal/utilities/mmr: AppendOne's nil guard, SuperPeak as a left fold,
       recent_history.AppendAndCommitMmr.
   The hashes are Section variables (Hm: the merge hash handed to the MMR, K: Keccak of SuperPeak). *)
From JamV Require Export Base.Bytes.

Section Mmr.
Variable Hm : bytes -> bytes.   (* merge hash: H in A(r,l,H) *)
Variable K : bytes -> bytes.    (* Keccak-256 of the super-peak *)

Definition peaks := list (option bytes).
Definition peak_tag : bytes := [112%N; 101%N; 97%N; 107%N].   (* "peak" *)
Definition zero32 : bytes := zeros 32.

(* R(s,i,v): s except s_i = v *)
Fixpoint replace_at (s : peaks) (i : nat) (v : option bytes) : peaks :=
  match s, i with
  | [], _ => []
  | _ :: t, O => v :: t
  | a :: t, S i' => a :: replace_at t i' v
  end.

(* P(r,l,n) = r ++ [l]                       if n >= |r|
            = R(r,n,l)                       if n < |r| and r_n = none
            = P(R(r,n,none), H(r_n ++ l), n+1) otherwise *)
Fixpoint P_ (fuel : nat) (r : peaks) (l : bytes) (n : nat) : peaks :=
  match fuel with
  | O => r
  | S f =>
    if (length r <=? n)%nat then r ++ [Some l]
    else match nth n r None with
         | None => replace_at r n (Some l)
         | Some c => P_ f (replace_at r n None) (Hm (c ++ l)) (S n)
         end
  end.
(* A(r,l) = P(r,l,0) *)
Definition append (r : peaks) (l : bytes) : peaks := P_ (S (length r)) r l 0.

(* perfect binary merge of 2^i items: what peak i commits to *)
Fixpoint mtree (i : nat) (xs : list bytes) : bytes :=
  match i with
  | O => hd [] xs
  | S i' => Hm (mtree i' (firstn (2 ^ i') xs) ++ mtree i' (skipn (2 ^ i') xs))
  end.

(* closed form of the peaks after appending xs to the empty range *)
Definition bitlen (n : nat) : nat := match n with O => O | _ => S (Nat.log2 n) end.
Definition peak_of (xs : list bytes) (i : nat) : option bytes :=
  let n := length xs in
  if Nat.testbit n i
  then Some (mtree i (firstn (2 ^ i) (skipn (2 ^ S i * (n / 2 ^ S i)) xs)))
  else None.
Definition mmr_of (xs : list bytes) : peaks := map (peak_of xs) (seq 0 (bitlen (length xs))).

(* appending a whole sequence, one item at a time *)
Definition append_all (r : peaks) (xs : list bytes) : peaks := fold_left append xs r.

(* M_R(b): h = the present peaks; H_0 if none, h_0 if one, K("peak" ++ M_R(h[..|h|-1]) ++ h[|h|-1]) *)
Fixpoint somes (b : peaks) : list bytes :=
  match b with
  | [] => []
  | Some h :: t => h :: somes t
  | None :: t => somes t
  end.
Fixpoint mr_rev (hr : list bytes) : bytes :=     (* hr = present peaks, last first *)
  match hr with
  | [] => zero32
  | [h] => h
  | x :: rest => K (peak_tag ++ mr_rev rest ++ x)
  end.
Definition superpeak (b : peaks) : bytes := mr_rev (rev (somes b)).

(* ---------------------------------------------------------------- M: Go-shaped pieces *)
(* AppendOne: a nil item leaves the peaks unchanged *)
Definition append_go (r : peaks) (o : option bytes) : peaks :=
  match o with None => r | Some l => append r l end.
(* SuperPeak evaluated front to back *)
Definition superpeak_fold (b : peaks) : bytes :=
  match somes b with
  | [] => zero32
  | h0 :: t => fold_left (fun acc x => K (peak_tag ++ acc ++ x)) t h0
  end.
(* recent_history.AppendAndCommitMmr *)
Definition append_and_commit (r : peaks) (l : bytes) : peaks * bytes :=
  let r' := append r l in (r', superpeak_fold r').

(* number of items a peak list stands for: sum of 2^i over present peaks *)
Fixpoint weight_from (i : nat) (r : peaks) : nat :=
  match r with
  | [] => 0
  | Some _ :: t => 2 ^ i + weight_from (S i) t
  | None :: t => weight_from (S i) t
  end.
Definition weight (r : peaks) : nat := weight_from 0 r.

(* number of leading present peaks = position of the first hole (|r| if none) *)
Fixpoint first_hole (r : peaks) : nat :=
  match r with
  | Some _ :: t => S (first_hole t)
  | _ => O
  end.
(* the carry chain: merging the new item upwards through the leading present peaks *)
Fixpoint carry (r : peaks) (l : bytes) : bytes :=
  match r with
  | Some c :: t => carry t (Hm (c ++ l))
  | _ => l
  end.

End Mmr.
