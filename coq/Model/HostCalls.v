(* C07 — host calls of Gray Paper v0.7.2 Appendix B as functions over an abstract machine state
   (13 registers, gas, guest memory = page-access map + bytes) and an abstract context.
   Executable Gallina only, no proofs.

   Every call has the Gray Paper shape: charge 10 gas (out-of-gas leaves everything else alone), then
   either stop (panic / out-of-gas: registers, memory and context as they were) or continue with a new
   value for register 7 (register 8 as well for [query]), at most one write to guest memory and a new
   context.  The service-account part of the accumulate context and the semantics of new / upgrade /
   transfer / eject / write / solicit / forget come from Model/Accounts.v and Model/AccCalls.v (exact
   arithmetic); this file adds registers, memory, panics, privileges, yield and the provided set.

   Modelled: gas, fetch (selected blob = oracle), lookup, read, write, info, log; bless, assign,
   designate, checkpoint, new, upgrade, transfer, eject, query, solicit, forget, yield, provide;
   historical_lookup (Lambda = oracle), export.  Not modelled: machine, peek, poke, pages, invoke,
   expunge (C33). *)
From JamV Require Import Base.Bytes Model.Accounts Model.AccCalls.
Local Open Scope N_scope.

(* ---- status codes (GP B.1) ---- *)
Definition OK : N := 0.
Definition NONE : N := two64 - 1.
Definition WHAT : N := two64 - 2.
Definition OOB : N := two64 - 3.
Definition WHO : N := two64 - 4.
Definition FULL : N := two64 - 5.
Definition CORE : N := two64 - 6.
Definition CASH : N := two64 - 7.
Definition LOW : N := two64 - 8.
Definition HUH : N := two64 - 9.
Definition error_codes : list N := [NONE; WHAT; OOB; WHO; FULL; CORE; CASH; LOW; HUH].

(* ---- protocol constants that do not depend on the chain configuration ---- *)
Definition ZP : N := 4096.        (* page size *)
Definition W_T : N := 128.        (* transfer memo size *)
Definition W_G : N := 4104.       (* segment size *)
Definition W_X : N := 3072.       (* maximum number of exported segments *)
Definition host_gas : Z := 10%Z.

(* ---- guest memory ---- *)
Inductive access := Inacc | RO | RW.
Record memory := mkMem { m_acc : N -> access;      (* page number -> access *)
                         m_byte : N -> N }.         (* address -> byte *)
Definition can_read (a : access) : bool := match a with Inacc => false | _ => true end.
Definition can_write (a : access) : bool := match a with RW => true | _ => false end.

(* forall i < n, f (p + i): binary recursion over the count, so that a range of 2^20 pages needs no large unary number *)
Fixpoint iter_ok (f : N -> bool) (p : N) (n : positive) : bool :=
  match n with
  | xH => f p
  | xO n' => if iter_ok f p n' then iter_ok f (p + Npos n') n' else false
  | xI n' => if f p then (if iter_ok f (p + 1) n' then iter_ok f (p + 1 + Npos n') n' else false) else false
  end.

(* the whole range [o, o+l) lies below 2^32 and every page it touches satisfies P; the empty range always does *)
Definition range_ok (P : access -> bool) (m : memory) (o l : N) : bool :=
  if l =? 0 then true
  else if (two32 <? l) || (two32 - l <? o) then false
  else match (o + l - 1) / ZP - o / ZP + 1 with
       | N0 => true
       | Npos n => iter_ok (fun q => P (m_acc m q)) (o / ZP) n
       end.
Definition readable := range_ok can_read.
Definition writable := range_ok can_write.

Fixpoint mread_from (m : memory) (a : N) (n : nat) : bytes :=
  match n with O => [] | S k => m_byte m a :: mread_from m (N.succ a) k end.
Definition mread (m : memory) (o l : N) : bytes := mread_from m o (N.to_nat l).
Definition mwrite (m : memory) (o : N) (d : bytes) : memory :=
  mkMem (m_acc m)
        (fun a => if (o <=? a) && (a <? o + blen d) then nth (N.to_nat (a - o)) d 0 else m_byte m a).

(* ---- registers ---- *)
Definition reg (rg : list N) (i : nat) : N := nth i rg 0.
Definition setreg (i : nat) (v : N) (rg : list N) : list N := firstn i rg ++ v :: skipn (S i) rg.

(* ---- results ---- *)
Inductive exit := EContinue | EPanic | EOOG.
Record result (C : Type) := mkRes {
  r_exit : exit;
  r_regs : list N;
  r_gas : Z;
  r_write : option (N * bytes);      (* the single write to guest memory, if any *)
  r_ctx : C }.
Arguments mkRes {C}. Arguments r_exit {C}. Arguments r_regs {C}. Arguments r_gas {C}.
Arguments r_write {C}. Arguments r_ctx {C}.
Definition mem_after {C} (m : memory) (r : result C) : memory :=
  match r_write r with None => m | Some (o, d) => mwrite m o d end.

Inductive outcome (C : Type) :=
| OStop (e : exit) (g : Z)                                      (* panic / out-of-gas: nothing else changes *)
| ONop (g : Z)                                                  (* continue, nothing changes (log) *)
| ORet (w7 : N) (wr : option (N * bytes)) (c : C) (g : Z)       (* continue, register 7 := w7 *)
| ORet2 (w7 w8 : N) (c : C) (g : Z).                            (* continue, registers 7 and 8 *)
Arguments OStop {C}. Arguments ONop {C}. Arguments ORet {C}. Arguments ORet2 {C}.

Definition finish {C} (rg : list N) (c0 : C) (o : outcome C) : result C :=
  match o with
  | OStop e g => mkRes e rg g None c0
  | ONop g => mkRes EContinue rg g None c0
  | ORet w7 wr c g => mkRes EContinue (setreg 7 w7 rg) g wr c
  | ORet2 w7 w8 c g => mkRes EContinue (setreg 8 w8 (setreg 7 w7 rg)) g None c
  end.

(* every call: g' = g - 10; out of gas if g' < 0 *)
Definition charged {C} (g : Z) (rg : list N) (c0 : C) (k : Z -> outcome C) : result C :=
  let g' := (g - host_gas)%Z in
  if (g' <? 0)%Z then mkRes EOOG rg g' None c0 else finish rg c0 (k g').

Definition gas_word (g : Z) : N := Z.to_N g mod two64.

(* ---- windows into a blob: f = min(wf, |v|), l = min(wl, |v| - f) ---- *)
Definition win_f (v : bytes) (wf : N) : N := N.min wf (blen v).
Definition win_l (v : bytes) (wf wl : N) : N := N.min wl (blen v - win_f v wf).
Definition slice (v : bytes) (f l : N) : bytes := firstn (N.to_nat l) (skipn (N.to_nat f) v).

(* deliver v (or NONE) into [o, o+l): panic unless the whole destination range is writable *)
Definition deliver {C} (m : memory) (c : C) (g : Z) (v : option bytes) (o wf wl : N) : outcome C :=
  match v with
  | None => ORet NONE None c g
  | Some v =>
    let f := win_f v wf in
    let l := win_l v wf wl in
    if writable m o l then ORet (blen v) (Some (o, slice v f l)) c g else OStop EPanic g
  end.

(* ---- contexts ---- *)
Record privs := mkPrivs {
  p_manager : N;               (* m *)
  p_assigners : list N;        (* a, one per core *)
  p_designator : N;            (* v *)
  p_registrar : N;             (* r *)
  p_always : list (N * N) }.   (* z : service -> gas *)

Record actx := mkActx {
  x_base : ctx;                        (* (x_u)_d, x_t, x_i : accounts, deferred transfers, next id *)
  x_privs : privs;                     (* (x_u)_(m,a,v,r,z) *)
  x_authq : list bytes;                (* (x_u)_q : per core, the Q hashes concatenated *)
  x_valkeys : bytes;                   (* (x_u)_i : V keys of 336 octets, concatenated *)
  x_yield : option bytes;              (* x_y *)
  x_provided : list (N * bytes) }.     (* x_p *)
Definition astate := (actx * actx)%type.     (* (x, y) *)

Definition with_base (x : actx) (b : ctx) : actx :=
  mkActx b (x_privs x) (x_authq x) (x_valkeys x) (x_yield x) (x_provided x).
Definition with_privs (x : actx) (p : privs) : actx :=
  mkActx (x_base x) p (x_authq x) (x_valkeys x) (x_yield x) (x_provided x).

Record rctx := mkRctx { rc_exports : list bytes }.      (* refine: the export sequence e *)

Definition bkey_eqb (a b : N * bytes) : bool := (fst a =? fst b) && bytes_eqb (snd a) (snd b).

Record henv := mkHenv {
  he_self : N;                                   (* x_s / s *)
  he_slot : N;                                   (* t *)
  he_D : N;                                      (* D *)
  he_C : N;                                      (* cores *)
  he_Q : N;                                      (* authorisation queue size *)
  he_V : N;                                      (* validators *)
  he_blobs : list ((N * bytes) * bytes);         (* contents of a_p: (service, hash) -> blob *)
  he_fetch : option bytes;                       (* fetch: the blob the selector registers address (None = nothing) *)
  he_hist : list (N * option bytes);             (* historical_lookup: for every service of d, Lambda(d[s], t, mu[h..+32]) *)
  he_offset : N }.                               (* export: segment offset *)

Definition env_of (e : henv) (x : actx) : env :=
  mkEnv (he_self e) (he_slot e) (he_D e) (p_manager (x_privs x)) (p_registrar (x_privs x)).

Definition code_of (r : ret) : N :=
  match r with
  | ROk => OK | RNone => NONE | RWho => WHO | RFull => FULL | RCash => CASH | RLow => LOW | RHuh => HUH
  | RVal n => n | RInfo _ _ => OK | RCk => OK
  end.

(* the account a general call addresses: s when the register is 2^64-1, d[register] otherwise *)
Definition sel_id (e : henv) (w : N) : N := if w =? NONE then he_self e else w.
Definition sel_account (e : henv) (d : amap) (w : N) : option account := get (sel_id e w) d.

Definition preimage (e : henv) (id : N) (a : account) (h : bytes) : option bytes :=
  if mem_bytes h (a_preimages a) then al_get bkey_eqb (id, h) (he_blobs e) else None.

Definition info_bytes (a : account) : bytes :=
  a_code a ++ le_enc 8 (a_bal a) ++ le_enc 8 (N.min (threshold a) (two64 - 1)) ++ le_enc 8 (a_g a) ++ le_enc 8 (a_m a)
    ++ le_enc 8 (a_octets a) ++ le_enc 4 (a_items a) ++ le_enc 8 (a_gratis a)
    ++ le_enc 4 (a_created a) ++ le_enc 4 (a_lastacc a) ++ le_enc 4 (a_parent a).

Fixpoint upd_nth {A} (i : nat) (v : A) (l : list A) : list A :=
  match l, i with
  | [], _ => []
  | _ :: t, O => v :: t
  | h :: t, S k => h :: upd_nth k v t
  end.

Fixpoint in_provided (s : N) (i : bytes) (p : list (N * bytes)) : bool :=
  match p with
  | [] => false
  | (s', i') :: t => ((s =? s') && bytes_eqb i i') || in_provided s i t
  end.

Section Calls.
  Variable H : bytes -> bytes.            (* Blake2b-256 *)
  Variable e : henv.

  Notation self := (he_self e).

  (* ================= general calls, on the accumulate context ================= *)

  Definition hc_gas {C} (rg : list N) (g : Z) (m : memory) (st : C) : result C :=
    charged g rg st (fun g' => ORet (gas_word g') None st g').

  Definition hc_unknown {C} (rg : list N) (g : Z) (m : memory) (st : C) : result C :=
    charged g rg st (fun g' => ORet WHAT None st g').

  Definition hc_log {C} (rg : list N) (g : Z) (m : memory) (st : C) : result C :=
    charged g rg st (fun g' => ONop g').

  Definition hc_fetch {C} (rg : list N) (g : Z) (m : memory) (st : C) : result C :=
    charged g rg st (fun g' => deliver m st g' (he_fetch e) (reg rg 7) (reg rg 8) (reg rg 9)).

  Definition hc_lookup (rg : list N) (g : Z) (m : memory) (st : astate) : result astate :=
    charged g rg st (fun g' =>
      let d := c_accts (x_base (fst st)) in
      let h := reg rg 8 in
      if negb (readable m h 32) then OStop EPanic g' else
      let v := match sel_account e d (reg rg 7) with
               | None => None
               | Some a => preimage e (sel_id e (reg rg 7)) a (mread m h 32)
               end in
      deliver m st g' v (reg rg 9) (reg rg 10) (reg rg 11)).

  Definition hc_read (rg : list N) (g : Z) (m : memory) (st : astate) : result astate :=
    charged g rg st (fun g' =>
      let d := c_accts (x_base (fst st)) in
      let ko := reg rg 8 in let kz := reg rg 9 in
      if negb (readable m ko kz) then OStop EPanic g' else
      let v := match sel_account e d (reg rg 7) with
               | None => None
               | Some a => al_get bytes_eqb (mread m ko kz) (a_storage a)
               end in
      deliver m st g' v (reg rg 10) (reg rg 11) (reg rg 12)).

  Definition hc_write (rg : list N) (g : Z) (m : memory) (st : astate) : result astate :=
    charged g rg st (fun g' =>
      let x := fst st in
      let ko := reg rg 7 in let kz := reg rg 8 in let vo := reg rg 9 in let vz := reg rg 10 in
      if negb (readable m ko kz) then OStop EPanic g' else
      if negb (readable m vo vz) then OStop EPanic g' else
      let '(r, b) := call_write ar_exact (env_of e x) (x_base x) (mread m ko kz) (mread m vo vz) in
      ORet (code_of r) None (with_base x b, snd st) g').

  Definition hc_info (rg : list N) (g : Z) (m : memory) (st : astate) : result astate :=
    charged g rg st (fun g' =>
      let d := c_accts (x_base (fst st)) in
      let v := match sel_account e d (reg rg 7) with None => None | Some a => Some (info_bytes a) end in
      deliver m st g' v (reg rg 8) (reg rg 9) (reg rg 10)).

  (* ================= accumulate calls ================= *)

  Definition read_ids (m : memory) (o : N) (n : N) : list N :=
    map (fun i => le_dec (mread m (o + 4 * N.of_nat i) 4)) (seq 0 (N.to_nat n)).
  Definition read_always (m : memory) (o : N) (n : N) : list (N * N) :=
    fold_left (fun acc i => al_set N.eqb (le_dec (mread m (o + 12 * N.of_nat i) 4))
                                   (le_dec (mread m (o + 12 * N.of_nat i + 4) 8)) acc)
              (seq 0 (N.to_nat n)) [].

  Definition hc_bless (rg : list N) (g : Z) (m : memory) (st : astate) : result astate :=
    charged g rg st (fun g' =>
      let x := fst st in
      let mm := reg rg 7 in let a := reg rg 8 in let v := reg rg 9 in
      let r := reg rg 10 in let o := reg rg 11 in let n := reg rg 12 in
      if negb (readable m a (4 * he_C e)) then OStop EPanic g' else
      if negb (readable m o (12 * n)) then OStop EPanic g' else
      if (two32 <=? mm) || (two32 <=? v) || (two32 <=? r) then ORet WHO None st g' else
      ORet OK None (with_privs x (mkPrivs mm (read_ids m a (he_C e)) v r (read_always m o n)), snd st) g').

  Definition hc_assign (rg : list N) (g : Z) (m : memory) (st : astate) : result astate :=
    charged g rg st (fun g' =>
      let x := fst st in
      let c := reg rg 7 in let o := reg rg 8 in let a := reg rg 9 in
      if negb (readable m o (32 * he_Q e)) then OStop EPanic g' else
      if he_C e <=? c then ORet CORE None st g' else
      if negb (nth (N.to_nat c) (p_assigners (x_privs x)) 0 =? self) then ORet HUH None st g' else
      if two32 <=? a then ORet WHO None st g' else
      let p := x_privs x in
      ORet OK None
           (mkActx (x_base x)
                   (mkPrivs (p_manager p) (upd_nth (N.to_nat c) a (p_assigners p)) (p_designator p) (p_registrar p) (p_always p))
                   (upd_nth (N.to_nat c) (mread m o (32 * he_Q e)) (x_authq x))
                   (x_valkeys x) (x_yield x) (x_provided x), snd st) g').

  Definition hc_designate (rg : list N) (g : Z) (m : memory) (st : astate) : result astate :=
    charged g rg st (fun g' =>
      let x := fst st in
      let o := reg rg 7 in
      if negb (readable m o (336 * he_V e)) then OStop EPanic g' else
      if negb (p_designator (x_privs x) =? self) then ORet HUH None st g' else
      ORet OK None
           (mkActx (x_base x) (x_privs x) (x_authq x) (mread m o (336 * he_V e)) (x_yield x) (x_provided x), snd st) g').

  Definition hc_checkpoint (rg : list N) (g : Z) (m : memory) (st : astate) : result astate :=
    charged g rg st (fun g' => ORet (gas_word g') None (fst st, fst st) g').

  Definition hc_new (rg : list N) (g : Z) (m : memory) (st : astate) : result astate :=
    charged g rg st (fun g' =>
      let x := fst st in
      let o := reg rg 7 in let l := reg rg 8 in
      if negb (readable m o 32) || (two32 <=? l) then OStop EPanic g' else
      let '(r, b) := call_new ar_exact (env_of e x) (x_base x) (mread m o 32) l (reg rg 9) (reg rg 10) (reg rg 11) (reg rg 12) in
      ORet (code_of r) None (with_base x b, snd st) g').

  Definition hc_upgrade (rg : list N) (g : Z) (m : memory) (st : astate) : result astate :=
    charged g rg st (fun g' =>
      let x := fst st in
      let o := reg rg 7 in
      if negb (readable m o 32) then OStop EPanic g' else
      let '(r, b) := call_upgrade (env_of e x) (x_base x) (mread m o 32) (reg rg 8) (reg rg 9) in
      ORet (code_of r) None (with_base x b, snd st) g').

  (* transfer: the gas limit l of the transfer is charged on success only; too little gas for it = out of gas *)
  Definition hc_transfer (rg : list N) (g : Z) (m : memory) (st : astate) : result astate :=
    charged g rg st (fun g' =>
      let x := fst st in
      let d := reg rg 7 in let a := reg rg 8 in let l := reg rg 9 in let o := reg rg 10 in
      if negb (readable m o W_T) then OStop EPanic g' else
      let '(r, b) := call_transfer ar_exact (env_of e x) (x_base x) d a l (mread m o W_T) in
      match r with
      | ROk => if (g' <? Z.of_N l)%Z then OStop EOOG 0%Z
               else ORet OK None (with_base x b, snd st) (g' - Z.of_N l)%Z
      | _ => ORet (code_of r) None st g'
      end).

  Definition hc_eject (rg : list N) (g : Z) (m : memory) (st : astate) : result astate :=
    charged g rg st (fun g' =>
      let x := fst st in
      let d := reg rg 7 in let o := reg rg 8 in
      if negb (readable m o 32) then OStop EPanic g' else
      let '(r, b) := call_eject ar_exact (env_of e x) (x_base x) d (mread m o 32) in
      ORet (code_of r) None (with_base x b, snd st) g').

  Definition hc_query (rg : list N) (g : Z) (m : memory) (st : astate) : result astate :=
    charged g rg st (fun g' =>
      let x := fst st in
      let o := reg rg 7 in let z := reg rg 8 in
      if negb (readable m o 32) then OStop EPanic g' else
      match get self (c_accts (x_base x)) with
      | None => ORet2 NONE 0 st g'
      | Some s =>
        match al_get lk_eqb (mread m o 32, z) (a_lookups s) with
        | None => ORet2 NONE 0 st g'
        | Some [] => ORet2 0 0 st g'
        | Some [t0] => ORet2 (1 + two32 * t0) 0 st g'
        | Some [t0; t1] => ORet2 (2 + two32 * t0) t1 st g'
        | Some [t0; t1; t2] => ORet2 (3 + two32 * t0) (t1 + two32 * t2) st g'
        | Some _ => ONop g'                       (* not a value of the Gray Paper's type *)
        end
      end).

  Definition hc_solicit (rg : list N) (g : Z) (m : memory) (st : astate) : result astate :=
    charged g rg st (fun g' =>
      let x := fst st in
      let o := reg rg 7 in let z := reg rg 8 in
      if negb (readable m o 32) then OStop EPanic g' else
      let '(r, b) := call_solicit ar_exact (env_of e x) (x_base x) (mread m o 32) z in
      ORet (code_of r) None (with_base x b, snd st) g').

  Definition hc_forget (rg : list N) (g : Z) (m : memory) (st : astate) : result astate :=
    charged g rg st (fun g' =>
      let x := fst st in
      let o := reg rg 7 in let z := reg rg 8 in
      if negb (readable m o 32) then OStop EPanic g' else
      let '(r, b) := call_forget (env_of e x) (x_base x) (mread m o 32) z in
      ORet (code_of r) None (with_base x b, snd st) g').

  Definition hc_yield (rg : list N) (g : Z) (m : memory) (st : astate) : result astate :=
    charged g rg st (fun g' =>
      let x := fst st in
      let o := reg rg 7 in
      if negb (readable m o 32) then OStop EPanic g' else
      ORet OK None
           (mkActx (x_base x) (x_privs x) (x_authq x) (x_valkeys x) (Some (mread m o 32)) (x_provided x), snd st) g').

  Definition hc_provide (rg : list N) (g : Z) (m : memory) (st : astate) : result astate :=
    charged g rg st (fun g' =>
      let x := fst st in
      let o := reg rg 8 in let z := reg rg 9 in
      if negb (readable m o z) then OStop EPanic g' else
      let i := mread m o z in
      let s := sel_id e (reg rg 7) in
      match get s (c_accts (x_base x)) with
      | None => ORet WHO None st g'
      | Some a =>
        match al_get lk_eqb (H i, z) (a_lookups a) with
        | Some [] =>
          if in_provided s i (x_provided x) then ORet HUH None st g'
          else ORet OK None
                    (mkActx (x_base x) (x_privs x) (x_authq x) (x_valkeys x) (x_yield x) (x_provided x ++ [(s, i)]), snd st) g'
        | _ => ORet HUH None st g'
        end
      end).

  (* ================= refine calls ================= *)

  Definition hc_historical_lookup (rg : list N) (g : Z) (m : memory) (st : rctx) : result rctx :=
    charged g rg st (fun g' =>
      let h := reg rg 8 in
      if negb (readable m h 32) then OStop EPanic g' else
      let v := match al_get N.eqb (sel_id e (reg rg 7)) (he_hist e) with Some (Some v) => Some v | _ => None end in
      deliver m st g' v (reg rg 9) (reg rg 10) (reg rg 11)).

  Definition hc_export (rg : list N) (g : Z) (m : memory) (st : rctx) : result rctx :=
    charged g rg st (fun g' =>
      let p := reg rg 7 in
      let z := N.min (reg rg 8) W_G in
      if negb (readable m p z) then OStop EPanic g' else
      let n := he_offset e + N.of_nat (length (rc_exports st)) in
      if W_X <=? n then ORet FULL None st g' else
      ORet n None (mkRctx (rc_exports st ++ [mread m p z ++ zeros (N.to_nat (W_G - z))])) g').

  (* ================= the tables ================= *)

  Inductive acall :=
  | CGas | CFetch | CLookup | CRead | CWrite | CInfo | CLog
  | CBless | CAssign | CDesignate | CCheckpoint | CNew | CUpgrade | CTransfer | CEject
  | CQuery | CSolicit | CForget | CYield | CProvide | CUnknown.

  Definition acc_call (c : acall) : list N -> Z -> memory -> astate -> result astate :=
    match c with
    | CGas => hc_gas | CFetch => hc_fetch | CLookup => hc_lookup | CRead => hc_read | CWrite => hc_write
    | CInfo => hc_info | CLog => hc_log
    | CBless => hc_bless | CAssign => hc_assign | CDesignate => hc_designate | CCheckpoint => hc_checkpoint
    | CNew => hc_new | CUpgrade => hc_upgrade | CTransfer => hc_transfer | CEject => hc_eject
    | CQuery => hc_query | CSolicit => hc_solicit | CForget => hc_forget | CYield => hc_yield
    | CProvide => hc_provide | CUnknown => hc_unknown
    end.

  (* Psi_A's table: identifier (any value of the 64-bit sign-extended ecalli immediate) -> call *)
  Definition acc_table (id : N) : acall :=
    if id =? 0 then CGas else if id =? 1 then CFetch else if id =? 2 then CLookup else if id =? 3 then CRead
    else if id =? 4 then CWrite else if id =? 5 then CInfo
    else if id =? 14 then CBless else if id =? 15 then CAssign else if id =? 16 then CDesignate
    else if id =? 17 then CCheckpoint else if id =? 18 then CNew else if id =? 19 then CUpgrade
    else if id =? 20 then CTransfer else if id =? 21 then CEject else if id =? 22 then CQuery
    else if id =? 23 then CSolicit else if id =? 24 then CForget else if id =? 25 then CYield
    else if id =? 26 then CProvide else if id =? 100 then CLog else CUnknown.

  Inductive rcall := RGas | RFetch | RHist | RExport | RLog | RUnknown.

  Definition ref_call (c : rcall) : list N -> Z -> memory -> rctx -> result rctx :=
    match c with
    | RGas => hc_gas | RFetch => hc_fetch | RHist => hc_historical_lookup | RExport => hc_export
    | RLog => hc_log | RUnknown => hc_unknown
    end.

  (* Psi_R's table; None = a defined call that this model does not cover (inner machines, 8..13) *)
  Definition ref_table (id : N) : option rcall :=
    if id =? 0 then Some RGas else if id =? 1 then Some RFetch else if id =? 6 then Some RHist
    else if id =? 7 then Some RExport else if (8 <=? id) && (id <=? 13) then None
    else if id =? 100 then Some RLog else Some RUnknown.

  (* Psi_I's table (is-authorized): gas, fetch, log *)
  Definition auth_table (id : N) : rcall :=
    if id =? 0 then RGas else if id =? 1 then RFetch else if id =? 100 then RLog else RUnknown.
End Calls.
