(* C21 — accumulation queue selection and ordering (Gray Paper §12.1–12.2, eqs 12.1–12.12, 12.31–12.33).
   Executable Gallina model ONLY (no proofs).  The Go code is a direct transliteration of the
   formulas, so the implementation model M and the specification S coincide. *)
From JamV Require Import Base.Bytes.
Local Open Scope nat_scope.

Definition hash := bytes.

(* a ready record (w, d): package hash of w, the dependency set d still open, an identity tag of w *)
Record rr := mkRR { rhash : hash ; rdeps : list hash ; rid : N }.
(* an available work report: package hash, prerequisites (w_x)_p, keys of the segment-root lookup K(w_l) *)
Record wr := mkWR { whash : hash ; wpre : list hash ; wlook : list hash ; wid : N }.

Definition memb (h : hash) (x : list hash) : bool := existsb (bytes_eqb h) x.
Definition isnil {A} (l : list A) : bool := match l with [] => true | _ => false end.

(* (12.6) D(w) = (w, {(w_x)_p} ∪ K(w_l)) *)
Definition D (w : wr) : rr := mkRR (whash w) (wpre w ++ wlook w) (wid w).

(* (12.7) E(r, x): drop the entries whose own package hash is in x, strip the dependencies that are in x *)
Definition strip (x : list hash) (e : rr) : rr :=
  mkRR (rhash e) (filter (fun d => negb (memb d x)) (rdeps e)) (rid e).
Definition E (r : list rr) (x : list hash) : list rr :=
  map (strip x) (filter (fun e => negb (memb (rhash e) x)) r).

(* (12.9) P *)
Definition P (l : list rr) : list hash := map rhash l.

Definition ready (e : rr) : bool := isnil (rdeps e).

(* (12.8) Q(r) = [] if no entry is ready, else g ++ Q(E(r, P(g))).  Explicit fuel; None = out of fuel. *)
Fixpoint Qf (fuel : nat) (r : list rr) : option (list rr) :=
  match fuel with
  | O => None
  | S f =>
    match filter ready r with
    | [] => Some []
    | g => match Qf f (E r (P g)) with
           | Some t => Some (g ++ t)
           | None => None
           end
    end
  end.
Definition Q (r : list rr) : list rr :=
  match Qf (S (length r)) r with Some l => l | None => [] end.

(* (12.4) W! and (12.5) W_Q, from the available reports W and the accumulated history ©ξ *)
Definition nodeps (w : wr) : bool := isnil (wpre w) && isnil (wlook w).
Definition Wbang (avail : list wr) : list rr := map D (filter nodeps avail).
Definition WQ (xs : list hash) (avail : list wr) : list rr :=
  E (map D (filter (fun w => negb (nodeps w)) avail)) xs.

(* ϑ_{m...} ++ ϑ_{...m} *)
Definition rot {A} (m : nat) (l : list A) : list A := skipn m l ++ firstn m l.

(* (12.10)–(12.12) *)
Definition slot_index (El : nat) (slot : N) : nat := N.to_nat (N.modulo slot (N.of_nat El)).
Definition queue_in (m : nat) (xi : list (list hash)) (theta : list (list rr)) (avail : list wr) : list rr :=
  E (concat (rot m theta) ++ WQ (concat xi) avail) (P (Wbang avail)).
Definition Wstar_at (m : nat) (xi : list (list hash)) (theta : list (list rr)) (avail : list wr) : list rr :=
  Wbang avail ++ Q (queue_in m xi theta avail).

(* state and block; [bcut] = how many trailing entries of W* are NOT accumulated in this block
   (n = |W*| - bcut; n is fixed by the gas limit in ∆+, here an arbitrary input) *)
Record st := mkSt { sxi : list (list hash) ; stheta : list (list rr) ; stau : N }.
Record blk := mkBlk { bslot : N ; bavail : list wr ; bcut : nat }.

Definition Wstar (El : nat) (s : st) (b : blk) : list rr :=
  Wstar_at (slot_index El (bslot b)) (sxi s) (stheta s) (bavail b).

Definition accumulated_now (El : nat) (s : st) (b : blk) : list hash :=
  let ws := Wstar El s b in P (firstn (length ws - bcut b) ws).

(* (12.31)–(12.32) ξ' : shift by one, newest entry = P(W*_{...n}) *)
Definition xi_next (xi : list (list hash)) (xnew : list hash) : list (list hash) := skipn 1 xi ++ [xnew].

(* (12.33) ϑ'[(m - i) mod E] = E(W_Q, ξ'_{E-1}) if i = 0 ; [] if 1 <= i < τ'-τ ; E(ϑ[(m - i) mod E], ξ'_{E-1}) otherwise *)
Definition theta_next (El m : nat) (gap : N) (theta : list (list rr)) (wq : list rr) (xnew : list hash)
  : list (list rr) :=
  map (fun j =>
         let i := (m + El - j) mod El in
         if Nat.eqb i 0 then E wq xnew
         else if N.ltb (N.of_nat i) gap then []
         else E (nth j theta []) xnew)
      (seq 0 El).

Definition step (El : nat) (s : st) (b : blk) : st :=
  let m := slot_index El (bslot b) in
  let xnew := accumulated_now El s b in
  mkSt (xi_next (sxi s) xnew)
       (theta_next El m (N.sub (bslot b) (stau s)) (stheta s) (WQ (concat (sxi s)) (bavail b)) xnew)
       (bslot b).

(* a history: the W* of every block and the final state *)
Fixpoint run (El : nat) (s : st) (bs : list blk) : list (list rr) * st :=
  match bs with
  | [] => ([], s)
  | b :: t => let (ws, s') := run El (step El s b) t in (Wstar El s b :: ws, s')
  end.

(* --- boolean observers used by the correspondence driver (and mirrored by the theorems) --- *)
(* entries of l whose package hash is in x *)
Definition count_in (x : list hash) (l : list rr) : nat := length (filter (fun e => memb (rhash e) x) l).
(* queue entries that are accumulated themselves or still carry an accumulated dependency *)
Definition bad_entry (x : list hash) (e : rr) : bool := memb (rhash e) x || existsb (fun d => memb d x) (rdeps e).
Definition count_bad (s : st) : nat := length (filter (bad_entry (concat (sxi s))) (concat (stheta s))).
Definition qinv_b (s : st) : bool := Nat.eqb (count_bad s) 0.
Definition fresh_b (s : st) (b : blk) : bool :=
  forallb (fun w => negb (memb (whash w) (concat (sxi s)))) (bavail b).

(* upstream guard (11.38): a guaranteed package hash must not be in ©ξ, ϑ, ρ or β *)
Definition guard_rejects (xi : list (list hash)) (theta : list (list rr)) (rho beta : list hash) (g : list hash) : bool :=
  existsb (fun h => memb h (concat xi) || memb h (P (concat theta)) || memb h rho || memb h beta) g.
