(* C32 — work digest (GP 14.8, function C), item outcome (GP 14.11, function I) and package specification
   (GP 14.16, function A).  Executable Gallina only, no proofs here.
   S  = the Gray Paper definitions, field by field, over unbounded N.
   D  = defect model: work_package.C as it stood before the proposed patch C32-digest-refine-load
        (extrinsic count <- export count, extrinsic size <- number of extrinsics, exports <- 16-bit sum of sizes).
   The hash is a Section variable; the exports root is the constant-depth Merkle root M of Model/Merkle.v (C18). *)
From JamV Require Export Base.Bytes Model.Merkle.
Local Open Scope N_scope.

(* a work item, reduced to what the digest reads *)
Record work_item := mk_item {
  wi_service : N;                 (* s *)
  wi_code_hash : bytes;           (* c *)
  wi_payload : bytes;             (* y *)
  wi_refine_gas : N;              (* g (refine gas limit; not recorded) *)
  wi_acc_gas : N;                 (* a: accumulate gas limit *)
  wi_export_count : N;            (* e *)
  wi_imports : list (bytes * N);  (* i: (tree root, index) *)
  wi_extrinsics : list (bytes * N)  (* x: (hash, length) *)
}.

(* refinement result: a blob or an error kind (out-of-gas, panic, bad-exports, output-oversize, bad-code, code-oversize) *)
Inductive wresult := ROk (data : bytes) | RErr (kind : N).
Definition K_oog : N := 1.  Definition K_panic : N := 2.  Definition K_bad_exports : N := 3.
Definition K_oversize : N := 4.  Definition K_bad_code : N := 5.  Definition K_code_oversize : N := 6.

Record digest := mk_digest {
  dg_service : N; dg_code_hash : bytes; dg_payload_hash : bytes; dg_acc_gas : N; dg_result : wresult;
  dg_gas_used : N; dg_imports : N; dg_xcount : N; dg_xsize : N; dg_exports : N
}.

Definition sum_N (l : list N) : N := fold_right N.add 0 l.
Definition nlen {A} (l : list A) : N := N.of_nat (length l).

Section WorkDigest.
Variable H : bytes -> bytes.

(* S: C((s,c,y,g,a,e,i,x), l, u) = (s, c, H(y), a, l, u, |i|, |x|, sum of the lengths in x, e) *)
Definition digest_of (w : work_item) (l : wresult) (u : N) : digest :=
  mk_digest (wi_service w) (wi_code_hash w) (H (wi_payload w)) (wi_acc_gas w) l
            u (nlen (wi_imports w)) (nlen (wi_extrinsics w)) (sum_N (map snd (wi_extrinsics w))) (wi_export_count w).

(* D: the pre-patch Go function: x <- e, z <- |x|, e <- (sum of the lengths, each truncated, added) mod 2^16 *)
Definition digest_prepatch (w : work_item) (l : wresult) (u : N) : digest :=
  mk_digest (wi_service w) (wi_code_hash w) (H (wi_payload w)) (wi_acc_gas w) l
            u (nlen (wi_imports w)) (wi_export_count w) (nlen (wi_extrinsics w))
            (fold_left (fun acc z => (acc + z mod 65536) mod 65536) (map snd (wi_extrinsics w)) 0).

(* M: I(p, j) outcome mapping (work_package.I, the Go order of checks; cf. GP 14.11), given what refinement returned: result kind + output blob r, exported segments e,
   gas u; z = |authorizer output| + sum of the earlier items' result sizes; W_R = the output size limit.
   Returns (result, gas, segments handed on): on any failure the item's exports are replaced by wi_export_count zero segments. *)
Definition zero_segments (seg_size : nat) (n : N) : list bytes := repeat (zeros seg_size) (N.to_nat n).
Definition item_outcome (W_R : N) (seg_size : nat) (w : work_item) (z : N) (kind : option N) (r : bytes)
           (e : list bytes) (u : N) : wresult * N * list bytes :=
  if W_R <? nlen r + z then (RErr K_oversize, u, zero_segments seg_size (wi_export_count w))
  else if negb (nlen e =? wi_export_count w) then (RErr K_bad_exports, u, zero_segments seg_size (wi_export_count w))
  else match kind with
       | Some k => (RErr k, u, zero_segments seg_size (wi_export_count w))
       | None => (ROk r, u, e)
       end.

(* package specification (GP 14.16), without the erasure root *)
Record pkg_spec := mk_spec { ps_hash : bytes; ps_length : N; ps_exports_root : bytes; ps_exports_count : N }.
Definition spec_of (pkg_hash : bytes) (bundle : bytes) (exports : list bytes) : pkg_spec :=
  mk_spec pkg_hash (nlen bundle) (M H exports) (nlen exports).

(* the results and the concatenated exports of a whole package: items processed in order, z accumulating the sizes of the
   earlier Ok outputs (work_package.WorkReportCompute) *)
Fixpoint run_items (W_R : N) (seg_size : nat) (z : N)
         (items : list (work_item * (option N * bytes * list bytes * N))) : list digest * list bytes :=
  match items with
  | [] => ([], [])
  | (w, (kind, r, e, u)) :: t =>
    match item_outcome W_R seg_size w z kind r e u with
    | (res, gas, segs) =>
      let z' := match res with ROk d => z + nlen d | RErr _ => z end in
      match run_items W_R seg_size z' t with
      | (ds, ex) => (digest_of w res gas :: ds, segs ++ ex)
      end
    end
  end.

End WorkDigest.
