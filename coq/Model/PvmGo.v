(* C03 — Go-shaped models of the PVM parsing glue (PVM/program_code.go, single_initializer.go,
   decode.go, block_info.go, branch.go:djump), with the semantics of Go slices made explicit:
     data[lo:hi]   is  go_slice data lo hi : option _   (None = Go runtime panic; the bound is the CAPACITY)
     data[i]       is  go_index data i     : option _   (None = Go runtime panic; the bound is the LENGTH)
     make([]T, n)  adds n * sizeof(T) to an allocation account
   uint32 / uint64 arithmetic of the Go code is written with explicit [u32] / [u64].
   Results are [Ok _ | Rej | GoPanic | OutOfFuel]: Rej is the defined rejection (ExitPanic / error value),
   GoPanic a host-language panic, OutOfFuel a loop that did not end within the fuel the model supplies.
   The boolean parameters select the shape of the code: [false] = as found, [true] = with the repair of
   proposed_fixes/C03-*.patch.  Executable Gallina only, no proofs. *)
From JamV Require Export Base.Bytes.
Local Open Scope N_scope.

Inductive res (A : Type) : Type := Ok (a : A) | Rej | GoPanic | OutOfFuel.
Arguments Ok {A} a.
Arguments Rej {A}.
Arguments GoPanic {A}.
Arguments OutOfFuel {A}.

Definition bind {A B : Type} (r : res A) (k : A -> res B) : res B :=
  match r with Ok a => k a | Rej => Rej | GoPanic => GoPanic | OutOfFuel => OutOfFuel end.

Definition u32 (x : N) : N := x mod 4294967296.
Definition u64 (x : N) : N := x mod 18446744073709551616.
Definition nlen (l : bytes) : N := N.of_nat (length l).

(* ---- Go slices: the elements from the slice's first element to the end of the backing array, and the length ---- *)
Record gslice := { g_arr : bytes; g_len : N }.
Definition gcap (s : gslice) : N := nlen (g_arr s).
Definition gbytes (s : gslice) : bytes := firstn (N.to_nat (g_len s)) (g_arr s).
(* the slice b with the bytes [spare] behind it in the same backing array *)
Definition mk_slice (b spare : bytes) : gslice := {| g_arr := b ++ spare; g_len := nlen b |}.

Definition go_slice (s : gslice) (lo hi : N) : option gslice :=
  if (lo <=? hi) && (hi <=? gcap s)
  then Some {| g_arr := skipn (N.to_nat lo) (g_arr s); g_len := hi - lo |} else None.
Definition go_index (s : gslice) (i : N) : option N :=
  if i <? g_len s then Some (nth (N.to_nat i) (g_arr s) 0) else None.

Definition idx {A : Type} (s : gslice) (i : N) (k : N -> res A) : res A :=
  match go_index s i with Some v => k v | None => GoPanic end.
Definition slc {A : Type} (s : gslice) (lo hi : N) (k : gslice -> res A) : res A :=
  match go_slice s lo hi with Some t => k t | None => GoPanic end.
Definition slc_from {A : Type} (s : gslice) (lo : N) (k : gslice -> res A) : res A := slc s lo (g_len s) k.

(* ---- ReadUintVariable (program_code.go) ---- *)
(* bits.LeadingZeros8(^prefix) *)
Definition lead_ones8 (b : N) : N :=
  if b <? 128 then 0 else if b <? 192 then 1 else if b <? 224 then 2 else if b <? 240 then 3
  else if b <? 248 then 4 else if b <? 252 then 5 else if b <? 254 then 6 else if b <? 255 then 7 else 8.

(* for i := range cnt { acc |= uint64(data[i+off]) << (8*i) }   (off = 1 in ReadUintVariable, 0 in ReadUintFixed) *)
Fixpoint rd_loop {A : Type} (d : gslice) (off : N) (cnt : nat) (i acc : N) (k : N -> res A) : res A :=
  match cnt with
  | O => k acc
  | S c => idx d (i + off) (fun b => rd_loop d off c (i + 1) (acc + b * 2 ^ (8 * i)) k)
  end.

Definition ruv_fin (l x : N) : res (N * N) := if x <? 2 ^ (7 * l) then Rej else Ok (x, l + 1).

Definition read_uint_variable (d : gslice) : res (N * N) :=
  if g_len d <? 1 then Rej else
  idx d 0 (fun prefix =>
  if prefix <? 128 then Ok (prefix, 1)
  else if prefix =? 255 then
    if g_len d <? 9 then Rej
    else slc d 1 9 (fun s => let x := le_dec (gbytes s) in if x <? 2 ^ 56 then Rej else Ok (x, 9))
  else
    let l := lead_ones8 prefix in
    if g_len d <? l + 1 then Rej else
    let fl := prefix - (256 - 2 ^ (8 - l)) in
    if l =? 1 then idx d 1 (fun b1 => ruv_fin l (fl * 2 ^ 8 + b1))
    else if l =? 2 then slc d 1 3 (fun s => ruv_fin l (fl * 2 ^ 16 + le_dec (gbytes s)))
    else if l =? 3 then
      if 5 <=? g_len d then slc d 1 5 (fun s => ruv_fin l (fl * 2 ^ 24 + le_dec (gbytes s) mod 2 ^ 24))
      else idx d 1 (fun b1 => idx d 2 (fun b2 => idx d 3 (fun b3 =>
             ruv_fin l (fl * 2 ^ 24 + (b1 + b2 * 2 ^ 8 + b3 * 2 ^ 16)))))
    else if l =? 4 then slc d 1 5 (fun s => ruv_fin l (fl * 2 ^ 32 + le_dec (gbytes s)))
    else rd_loop d 1 (N.to_nat l) 0 0 (fun r => ruv_fin l (fl * 2 ^ (8 * l) + r))).

(* ReadUintFixed(data, nb) for 0 < nb <= 8, and ReadBytes (single_initializer.go) *)
Definition read_uint_fixed {A : Type} (d : gslice) (nb : N) (k : N -> gslice -> res A) : res A :=
  if g_len d <? nb then Rej
  else rd_loop d 0 (N.to_nat nb) 0 0 (fun v => slc_from d nb (fun rest => k v rest)).

Definition read_bytes {A : Type} (d : gslice) (n : N) (k : gslice -> gslice -> res A) : res A :=
  if g_len d <? n then Rej else slc d 0 n (fun a => slc_from d n (fun b => k a b)).

(* ---- opcodes (opcode_info.go) ---- *)
Inductive cat := CInvalid | CNoArg | COneImm | COneRegExtImm | CTwoImm | COneOffset | COneRegOneImm
  | COneRegTwoImm | COneRegImmOff | CTwoReg | CTwoRegOneImm | CTwoRegOneOff | CTwoRegTwoImm | CThreeReg.

Definition cat_of (o : N) : cat :=
  if o <=? 1 then CNoArg else if o =? 10 then COneImm else if o =? 20 then COneRegExtImm
  else if (30 <=? o) && (o <=? 33) then CTwoImm else if o =? 40 then COneOffset
  else if (50 <=? o) && (o <=? 62) then COneRegOneImm else if (70 <=? o) && (o <=? 73) then COneRegTwoImm
  else if (80 <=? o) && (o <=? 90) then COneRegImmOff else if (100 <=? o) && (o <=? 111) then CTwoReg
  else if (120 <=? o) && (o <=? 161) then CTwoRegOneImm else if (170 <=? o) && (o <=? 175) then CTwoRegOneOff
  else if o =? 180 then CTwoRegTwoImm else if (190 <=? o) && (o <=? 230) then CThreeReg else CInvalid.

Definition vop (o : N) : bool := match cat_of o with CInvalid => false | _ => true end.
Definition term (o : N) : bool :=
  (o <=? 1) || (o =? 40) || (o =? 50) || ((80 <=? o) && (o <=? 90)) || ((170 <=? o) && (o <=? 175)) || (o =? 180).

(* ---- MakeBitMasks (program_code.go, with the basic-block rule of C01-06) ---- *)
Fixpoint mb_loop (ins bm : gslice) (cnt : nat) (i : N) (prev : option N) (acc : list N) : res (list N) :=
  match cnt with
  | O => Ok (rev acc)
  | S c =>
    idx bm (i / 8) (fun byte =>
      if N.testbit byte (i mod 8) then
        let fin (after : bool) : res (list N) :=
          if (i =? 0) || after
          then idx ins i (fun oi => mb_loop ins bm c (i + 1) (Some i) ((if vop oi then 3 else 1) :: acc))
          else mb_loop ins bm c (i + 1) (Some i) (1 :: acc) in
        match prev with
        | Some p => idx ins p (fun op => fin (term op && (i - p - 1 <=? 24)))
        | None => fin false
        end
      else mb_loop ins bm c (i + 1) prev (0 :: acc))
  end.

Definition make_bitmasks (ins bm : gslice) : res (list N) :=
  let n := g_len ins in
  if negb (g_len bm =? n / 8 + (if 0 <? n mod 8 then 1 else 0)) then Rej
  else mb_loop ins bm (N.to_nat n) 0 None [].

Definition mask_at (mask : list N) (a : N) : N := nth (N.to_nat a) mask 0.
Definition is_start (mask : list N) (a : N) : bool := 0 <? mask_at mask a.     (* IsStartOfInstruction *)
Definition is_bb (mask : list N) (a : N) : bool :=                             (* IsStartOfBasicBlock *)
  (a <? N.of_nat (length mask)) && (mask_at mask a =? 3).

(* skip (A.3) as coded: scan to the next instruction start or the end of the mask, then min 24 *)
Fixpoint lead_zeros (l : list N) : N :=
  match l with
  | [] => 0
  | x :: t => if x =? 0 then 1 + lead_zeros t else 0
  end.
Definition skip_go (mask : list N) (pc : N) : N := N.min 24 (lead_zeros (skipn (N.to_nat (pc + 1)) mask)).

(* ---- decodeOperands (block_info.go) over the functions of decode.go: every index / slice
        expression on the code, and the register fields it leaves in the InstrMeta (255 = unset) ---- *)
Definition r12 (x : N) : N := N.min 12 x.
Definition none3 : res (N * N * N) := Ok (255, 255, 255).

Definition decode_operands (ze : gslice) (pc l op : N) : res (N * N * N) :=
  match cat_of op with
  | CInvalid | CNoArg => none3
  | COneImm =>
    if l <? 1 then none3
    else let lx := N.min 4 l in slc ze (u32 (pc + 1)) (u32 (u32 (pc + lx) + 1)) (fun _ => none3)
  | COneRegExtImm =>
    idx ze (u32 (pc + 1)) (fun b =>
      if u32 (pc + 10) <=? g_len ze
      then slc ze (u32 (pc + 2)) (u32 (pc + 10)) (fun _ => Ok (r12 (b mod 16), 255, 255))
      else Ok (r12 (b mod 16), 255, 255))
  | CTwoImm =>
    idx ze (u32 (pc + 1)) (fun b =>
      let lx := N.min 4 (b mod 8) in
      slc ze (u32 (pc + 2)) (u32 (u32 (pc + 2) + lx)) (fun _ =>
      let ly := N.min 4 (l - lx - 1) in
      slc ze (u32 (u32 (pc + 2) + lx)) (u32 (u32 (u32 (pc + 2) + lx) + ly)) (fun _ => none3)))
  | COneOffset =>
    let lx := N.min 4 l in slc ze (u32 (pc + 1)) (u32 (u32 (pc + 1) + lx)) (fun _ => none3)
  | COneRegOneImm =>
    idx ze (u32 (pc + 1)) (fun b =>
      let lx := N.min 4 (l - 1) in
      slc ze (u32 (pc + 2)) (u32 (u32 (pc + 2) + lx)) (fun _ => Ok (r12 (b mod 16), r12 (b mod 16), 255)))
  | COneRegTwoImm | COneRegImmOff =>
    idx ze (u32 (pc + 1)) (fun b =>
      let lx := N.min 4 ((b / 16) mod 8) in
      let ly := N.min 4 (l - lx - 1) in
      slc ze (u32 (pc + 2)) (u32 (u32 (pc + 2) + lx)) (fun _ =>
      slc ze (u32 (u32 (pc + 2) + lx)) (u32 (u32 (u32 (pc + 2) + lx) + ly)) (fun _ =>
        Ok (r12 (b mod 16), r12 (b mod 16), 255))))
  | CTwoReg =>
    if g_len ze <=? u32 (pc + 1) then none3
    else idx ze (u32 (pc + 1)) (fun b => Ok (r12 (b mod 16), r12 (b / 16), 255))
  | CTwoRegOneImm =>
    idx ze (u32 (pc + 1)) (fun b =>
      let lx := N.min 4 (l - 1) in
      slc ze (u32 (pc + 2)) (u32 (u32 (pc + 2) + lx)) (fun _ => Ok (r12 (b mod 16), r12 (b / 16), 255)))
  | CTwoRegOneOff =>
    idx ze (u32 (pc + 1)) (fun b =>
      let lx := N.min 4 (l - 1) in
      slc ze (u32 (pc + 2)) (u32 (u32 (pc + 2) + lx)) (fun _ => Ok (255, r12 (b mod 16), r12 (b / 16))))
  | CTwoRegTwoImm =>
    idx ze (u32 (pc + 1)) (fun b =>
    idx ze (u32 (pc + 2)) (fun b2 =>
      let lx := N.min 4 (b2 mod 8) in
      let ly := N.min 4 (l - lx - 2) in
      slc ze (u32 (pc + 3)) (u32 (u32 (pc + 3) + lx)) (fun _ =>
      slc ze (u32 (u32 (pc + 3) + lx)) (u32 (u32 (u32 (pc + 3) + lx) + ly)) (fun _ =>
        Ok (r12 (b mod 16), r12 (b / 16), 255)))))
  | CThreeReg =>
    if g_len ze <=? u32 (pc + 2) then none3
    else idx ze (u32 (pc + 1)) (fun b => idx ze (u32 (pc + 2)) (fun b2 =>
           Ok (r12 b2, r12 (b mod 16), r12 (b / 16))))
  end.

(* which register fields (Dst, Src[0], Src[1]) the handlers of a category index the register file with
   (instructions_instrmeta.go; transcribed, see notes/C03.md) *)
Definition cat_uses (c : cat) : bool * bool * bool :=
  match c with
  | CInvalid | CNoArg | COneImm | CTwoImm | COneOffset => (false, false, false)
  | COneRegExtImm => (true, false, false)
  | COneRegOneImm | COneRegTwoImm | COneRegImmOff | CTwoReg | CTwoRegOneImm | CTwoRegTwoImm => (true, true, false)
  | CTwoRegOneOff => (false, true, true)
  | CThreeReg => (true, true, true)
  end.

(* interp.Registers[f] on the 13-element register array *)
Definition regs_ok (c : cat) (t : N * N * N) : bool :=
  let '(d, s0, s1) := t in
  let '(ud, u0, u1) := cat_uses c in
  (negb ud || (d <? 13)) && (negb u0 || (s0 <? 13)) && (negb u1 || (s1 <? 13)).

(* ---- preDecodeBlocks (block_info.go, shape after C01-01/02/06) ---- *)
(* append growth of Go's runtime (nextslicecap, one element appended to a full slice), before size-class rounding *)
Definition grow (cap : N) : N :=
  if cap =? 0 then 1 else if cap <? 256 then 2 * cap else cap + (cap + 768) / 4.

Definition SZ_INSTR : N := 40.   (* unsafe.Sizeof(InstrMeta{}) *)
Definition SZ_BLOCK : N := 32.   (* unsafe.Sizeof(BlockMeta{}) *)

Record pd := { pd_pc : N; pd_in : bool; pd_len : N; pd_cap : N; pd_nb : N; pd_acct : N; pd_sb : bool; pd_rok : bool }.

Definition pd_append (s : pd) : pd :=
  if pd_len s <? pd_cap s
  then {| pd_pc := pd_pc s; pd_in := pd_in s; pd_len := pd_len s + 1; pd_cap := pd_cap s; pd_nb := pd_nb s;
          pd_acct := pd_acct s; pd_sb := pd_sb s; pd_rok := pd_rok s |}
  else let nc := grow (pd_cap s) in
       {| pd_pc := pd_pc s; pd_in := pd_in s; pd_len := pd_len s + 1; pd_cap := nc; pd_nb := pd_nb s;
          pd_acct := pd_acct s + nc * SZ_INSTR; pd_sb := pd_sb s; pd_rok := pd_rok s |}.

Fixpoint pd_loop (fuel : nat) (ins ze : gslice) (mask : list N) (n : N) (s : pd) : res pd :=
  match fuel with
  | O => OutOfFuel
  | S f =>
    let pc := pd_pc s in
    if negb (pd_in s) then
      if negb (pc <? u32 n) then Ok s
      else if negb (is_start mask pc) then
        pd_loop f ins ze mask n {| pd_pc := u32 (pc + 1); pd_in := false; pd_len := pd_len s; pd_cap := pd_cap s;
                                   pd_nb := pd_nb s; pd_acct := pd_acct s; pd_sb := pd_sb s; pd_rok := pd_rok s |}
      else (* block := &BlockMeta{...} *)
        pd_loop f ins ze mask n {| pd_pc := pc; pd_in := true; pd_len := pd_len s; pd_cap := pd_cap s;
                                   pd_nb := pd_nb s; pd_acct := pd_acct s + SZ_BLOCK; pd_sb := pd_sb s; pd_rok := pd_rok s |}
    else if u32 n <=? pc then
      (* the implicit trap past the end closes the block; the outer loop then ends *)
      let s1 := pd_append s in
      Ok {| pd_pc := pc; pd_in := false; pd_len := pd_len s1; pd_cap := pd_cap s1; pd_nb := pd_nb s1 + 1;
            pd_acct := pd_acct s1; pd_sb := pd_sb s1; pd_rok := pd_rok s1 |}
    else
      idx ins pc (fun op =>
        let l := skip_go mask pc in
        let s1 := pd_append s in
        (* p.InstrIdxAt[pc] = idx  and  p.BlockAt[block.StartPC] = block  index arrays of length n *)
        if negb (pc <? n) then GoPanic else
        bind (decode_operands ze pc l op) (fun t =>
          let closes := term op in
          pd_loop f ins ze mask n
            {| pd_pc := u32 (pc + l + 1); pd_in := negb closes; pd_len := pd_len s1; pd_cap := pd_cap s1;
               pd_nb := if closes then pd_nb s1 + 1 else pd_nb s1; pd_acct := pd_acct s1;
               pd_sb := pd_sb s1 || (op =? 101); pd_rok := pd_rok s1 && regs_ok (cat_of op) t |}))
  end.

(* zeroExtended := make(ProgramCode, n+32); copy(zeroExtended, idata) *)
Definition zero_ext (ins : gslice) : gslice :=
  {| g_arr := gbytes ins ++ repeat 0 32%nat; g_len := g_len ins + 32 |}.

Definition predecode (ins : gslice) (mask : list N) : res pd :=
  let n := g_len ins in
  pd_loop (N.to_nat (2 * n + 60)) ins (zero_ext ins) mask n
    {| pd_pc := 0; pd_in := false; pd_len := 0; pd_cap := n / 4; pd_nb := 0;
       pd_acct := (n + 32) + (n / 4) * SZ_INSTR + 8 * n + 4 * n; pd_sb := false; pd_rok := true |}.

(* ---- DeBlobProgramCode (program_code.go) ---- *)
Record gprog := { gp_ins : gslice; gp_mask : list N; gp_jt : gslice; gp_jl : N; gp_js : N;
                  gp_ni : N; gp_nb : N; gp_sb : bool; gp_rok : bool; gp_alloc : N }.

(* fix_js: |j| >= 2^32 is rejected before the 64-bit product; fix_ic: |c| is checked against the data left *)
Definition deblob_go (fix_js fix_ic : bool) (data : gslice) : res gprog :=
  bind (read_uint_variable data) (fun '(js, used) =>
  slc_from data used (fun data1 =>
  if g_len data1 <? 1 then Rej else
  idx data1 0 (fun jl =>
  slc_from data1 1 (fun data2 =>
  bind (read_uint_variable data2) (fun '(isz, used2) =>
  slc_from data2 used2 (fun data3 =>
  let tl := u64 (jl * js) in
  if (fix_js && (4294967296 <=? js)) || (4294967296 <=? tl) then Rej else
  read_bytes data3 tl (fun jt data4 =>
  if fix_ic && (g_len data4 <? isz) then Rej else
  slc data4 0 isz (fun ins =>
  slc_from data4 isz (fun bm =>
  bind (make_bitmasks ins bm) (fun mask =>
  bind (predecode ins mask) (fun s =>
  Ok {| gp_ins := ins; gp_mask := mask; gp_jt := jt; gp_jl := u32 jl; gp_js := u32 js;
        gp_ni := pd_len s; gp_nb := pd_nb s; gp_sb := pd_sb s; gp_rok := pd_rok s;
        gp_alloc := g_len ins + pd_acct s |}))))))))))).

(* ---- djump (branch.go): the jump-table lookup ---- *)
Inductive jres := JHalt | JPanic | JGo (pc : N).

(* fix_dj = false: ReadUintFixed(Data[index*Length:], Length) and panic(err) as found;
   fix_dj = true : entry := Data[index*Length:][:Length], bytes past the fourth must be zero *)
Definition djump_go (fix_dj : bool) (p : gprog) (a : N) : res jres :=
  if a =? 4294901760 then Ok JHalt
  else if (a =? 0) || (u32 (gp_js p * 2) <? a) || negb (a mod 2 =? 0) then Ok JPanic
  else
    let index := a / 2 - 1 in
    slc_from (gp_jt p) (u32 (index * gp_jl p)) (fun d =>
      let land (dest : N) : res jres := if is_bb (gp_mask p) (u32 dest) then Ok (JGo (u32 dest)) else Ok JPanic in
      if fix_dj then
        slc d 0 (gp_jl p) (fun e =>
          let bs := gbytes e in
          if forallb (fun b => b =? 0) (skipn 4 bs) then land (le_dec (firstn 4 bs)) else Ok JPanic)
      else if gp_jl p =? 0 then land 0
      else if (8 <? gp_jl p) || (g_len d <? gp_jl p) then GoPanic   (* panic(err.Error()) *)
      else land (u64 (le_dec (firstn (N.to_nat (gp_jl p)) (gbytes d))))).

(* ---- DecodeSerializedValues / SingleInitializer (single_initializer.go) ---- *)
Definition zP : N := 4096.
Definition zZ : N := 65536.
Definition zI : N := 16777216.

(* P and Z take an int and compute in uint32 *)
Definition P32 (x : N) : N := u32 (zP * (u32 (u32 x + zP - 1) / zP)).
Definition Z32 (x : N) : N := u32 (zZ * (u32 (u32 x + zZ - 1) / zZ)).

Record sblob := { sb_c : gslice; sb_o : gslice; sb_w : gslice; sb_z : N; sb_s : N }.

Definition decode_serialized_values (p : gslice) : res sblob :=
  read_uint_fixed p 3 (fun olen p1 =>
  read_uint_fixed p1 3 (fun wlen p2 =>
  read_uint_fixed p2 2 (fun z p3 =>
  read_uint_fixed p3 3 (fun s p4 =>
  read_bytes p4 olen (fun o p5 =>
  read_bytes p5 wlen (fun w p6 =>
  read_uint_fixed p6 4 (fun clen p7 =>
  read_bytes p7 clen (fun c p8 =>
  if negb (g_len p8 =? 0) then Rej
  else Ok {| sb_c := c; sb_o := o; sb_w := w; sb_z := z; sb_s := s |})))))))).

(* the key set of mem.Pages as a list of half-open page intervals, and the number of pages made *)
Record macct := { m_iv : list (N * N); m_made : N }.
Definition m_has (m : macct) (p : N) : bool := existsb (fun '(lo, hi) => (lo <=? p) && (p <? hi)) (m_iv m).
Definition m_add (m : macct) (p : N) : macct :=
  {| m_iv := if m_has m p then m_iv m
             else match m_iv m with
                  | (lo, hi) :: t => if p =? hi then (lo, hi + 1) :: t else (p, p + 1) :: m_iv m
                  | [] => [(p, p + 1)]
                  end;
     m_made := m_made m + 1 |}.
Definition m_size (m : macct) : N := fold_right (fun '(lo, hi) a => (hi - lo) + a) 0 (m_iv m).

(* allocateMemorySegment / allocateStack: for addr := start; addr < end; addr += ZP (uint32).
   nilc = the content argument is nil (padding: existing pages are kept) *)
Fixpoint seg_loop (fuel : nat) (addr e : N) (nilc : bool) (m : macct) : res macct :=
  match fuel with
  | O => OutOfFuel
  | S f =>
    if addr <? e then
      let pn := addr / zP in
      seg_loop f (u32 (addr + zP)) e nilc (if nilc && m_has m pn then m else m_add m pn)
    else Ok m
  end.
Definition seg (start e : N) (nilc : bool) (m : macct) : res macct :=
  seg_loop (N.to_nat ((e - start) / zP + 2)) start e nilc m.

Record iout := { io_c : gslice; io_pages : N; io_made : N; io_hp : N; io_hl : N; io_alloc : N; io_iv : list (N * N) }.

Definition SZ_PAGE : N := 4096 + 32.   (* make([]byte, ZP) + &Page{} *)
Definition SZ_MAP : N := 48.           (* make(map[uint32]*Page) *)

(* fix_arg: an argument longer than Z_I is rejected *)
Definition single_initializer_go (fix_arg : bool) (p : gslice) (alen : N) : res iout :=
  bind (decode_serialized_values p) (fun b =>
  if fix_arg && (zI <? alen) then Rej else
  let lo := g_len (sb_o b) in let lw := g_len (sb_w b) in let z := sb_z b in let s := sb_s b in
  if 4294967296 <? 5 * zZ + Z32 lo + Z32 (lw + z * zP + s + zI) then Rej else
  let ro_start := zZ in
  let ro_end := u32 (ro_start + u32 lo) in
  let ro_pad := u32 (ro_start + P32 lo) in
  let rw_start := u32 (2 * zZ + Z32 lo) in
  let rw_end := u32 (rw_start + u32 lw) in
  let rw_pad := u32 (u32 (rw_start + P32 lw) + u32 (u32 z * zP)) in
  let st_end := 4294967296 - 2 * zZ - zI in
  let st_start := u32 (st_end + 4294967296 - P32 s) in
  let ar_start := 4294967296 - zZ - zI in
  let ar_end := u32 (ar_start + u32 alen) in
  let ar_pad := u32 (ar_start + P32 alen) in
  bind (seg ro_start ro_end false {| m_iv := []; m_made := 0 |}) (fun m1 =>
  bind (seg ro_end ro_pad true m1) (fun m2 =>
  bind (seg rw_start rw_end false m2) (fun m3 =>
  bind (seg rw_end rw_pad true m3) (fun m4 =>
  bind (seg st_start st_end false m4) (fun m5 =>
  bind (seg ar_start ar_end false m5) (fun m6 =>
  bind (seg ar_end ar_pad true m6) (fun m7 =>
  Ok {| io_c := sb_c b; io_pages := m_size m7; io_made := m_made m7; io_hp := rw_pad; io_hl := st_start;
        io_alloc := SZ_MAP + m_made m7 * SZ_PAGE; io_iv := m_iv m7 |})))))))).

(* ---- the loading half of Psi_M (argument_invocation.go): Y, then deblob of the code it returns ---- *)
Definition psi_m_load (fx : bool) (p : gslice) (alen : N) : res (iout * gprog) :=
  bind (single_initializer_go fx p alen) (fun io =>
  bind (deblob_go fx fx (io_c io)) (fun g => Ok (io, g))).

(* ---- the cost function: what the loading code requests from the allocator ---- *)
Definition alloc_deblob (data : gslice) : N :=
  match deblob_go true true data with Ok g => gp_alloc g | _ => 0 end.
(* a rejected blob: MakeBitMasks and preDecodeBlocks run last and do not reject, so nothing was made *)

Definition alloc_load (p : gslice) (alen : N) : N :=
  match single_initializer_go true p alen with
  | Ok io => io_alloc io + alloc_deblob (io_c io)
  | _ => 0
  end.

(* the sizes a standard blob declares: z*Z_P + P(s) + P(|o|) + P(|w|), plus P(|a|) for the argument *)
Definition Pn (x : N) : N := zP * ((x + zP - 1) / zP).
Definition declared (p : gslice) (alen : N) : N :=
  match decode_serialized_values p with
  | Ok b => sb_z b * zP + Pn (sb_s b) + Pn (g_len (sb_o b)) + Pn (g_len (sb_w b)) + Pn alen
  | _ => 0
  end.

(* the bound of C03_alloc_bound *)
Definition C_BLOB : N := 512.
Definition K_FIXED : N := 65536.
Definition alloc_bound_of (p : gslice) (alen : N) : N :=
  C_BLOB * g_len p + K_FIXED + declared p alen + declared p alen / 128.
(* the same for a bare program blob (DeBlobProgramCode alone, the machine host call) *)
Definition deblob_bound_of (d : gslice) : N := C_BLOB * g_len d + K_FIXED.

(* ---- isReadable / isWriteable (argument_invocation.go): the guest-range check on raw 64-bit register values ----
   acc p = page p passes the access test of the caller (mapped and not inaccessible, resp. read-write).
   fixr = true : offset > 1<<32 || start > (1<<32)-offset   (the code as it is)
   fixr = false: start+offset > 1<<32 with the sum in uint64  (a tempting simplification: it wraps) *)
(* cnt iterations of the page loop from page p (N.iter: no unary number is built for a range of 2^20 pages) *)
Definition pages_step (acc : N -> bool) (st : bool * N) : bool * N := (fst st && acc (snd st), snd st + 1).
Definition pages_ok (acc : N -> bool) (cnt : N) (p : N) : bool := fst (N.iter cnt (pages_step acc) (true, p)).

Definition range_ok_go (fixr : bool) (acc : N -> bool) (start off : N) : bool :=
  if off =? 0 then true
  else if (if fixr then (4294967296 <? off) || (4294967296 - off <? start) else 4294967296 <? u64 (start + off))
  then false
  else
    let sp := u32 (start / zP) in
    let ep := u32 (u64 (u64 (start + off) + 18446744073709551616 - 1) / zP) in
    (* for p := startPage; p <= endPage; p++ *)
    pages_ok acc (ep + 1 - sp) sp.

(* R (A.41): the length of the output of a halt with registers 7, 8 = (start, len): readRAM makes [len] bytes *)
Definition halt_out_len (fixr : bool) (acc : N -> bool) (start len : N) : N :=
  if range_ok_go fixr acc start len then len else 0.
