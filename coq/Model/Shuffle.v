(* C20 — Gray Paper appendix F (Fisher-Yates shuffle, F.1-F.3) and the guarantor assignment
   (11.19-11.20).  Executable Gallina only, no proofs here.

   S layer: [F] (F.1), [qseq] (F.2, Q_l), [shuffle_F] (F.3), [assign] (11.20, P(e,t)).
   M layer: [fy_go] (the in-place swap-and-truncate recursion of shuffle.go), [shuffle_go],
            [permute_go] (guarantor_assignments.go).  *)
From JamV Require Export Base.Bytes.
Local Open Scope N_scope.

(* ---------------------------------------------------------------------------------------- *)
(* F.1 : F(s, r) = [ s[r0 mod l] ] ++ F( s'[.. l-1], r[1..] ),  s' = s except s'[r0 mod l] = s[l-1] *)
Section FisherYates.
  Context {A : Type}.

  (* s with position i replaced by x (i < length s) *)
  Definition set_nth (i : nat) (x : A) (s : list A) : list A :=
    firstn i s ++ x :: skipn (S i) s.

  (* index drawn by the head of the number sequence *)
  Definition pick (r0 : N) (l : nat) : nat := N.to_nat (r0 mod N.of_nat l).

  (* GP F.1.  Recursion is on the number sequence (F consumes one number per element); when
     the numbers run out before the elements do (|r| < |s|, outside the domain of F.1) the
     result stops. *)
  Fixpoint F (s : list A) (r : list N) : list A :=
    match r with
    | [] => []
    | r0 :: r' =>
      match s with
      | [] => []
      | a :: _ =>
        let l := length s in
        let i := pick r0 l in
        nth i s a :: F (firstn (l - 1) (set_nth i (last s a) s)) r'
      end
    end.

  (* shuffle.go FisherYatesShuffle: selected := s[index]; swap s[index], s[l-1];
     recurse on s[:l-1], r[1:]; result selected :: rest *)
  Fixpoint fy_go (s : list A) (r : list N) : list A :=
    match r with
    | [] => []
    | r0 :: r' =>
      match s with
      | [] => []
      | a :: _ =>
        let l := length s in
        let i := pick r0 l in
        let selected := nth i s a in
        let swapped := set_nth (l - 1) selected (set_nth i (last s a) s) in
        selected :: fy_go (firstn (l - 1) swapped) r'
      end
    end.
End FisherYates.

(* -------------------------------------------------------------------------------------- *)
(* protocol constants V, C, E, R *)
Record Params := { pV : N; pC : N; pE : N; pR : N }.

Definition nseq (n : N) : list N := map N.of_nat (seq 0 (N.to_nat n)).

(* 11.19 : R(c, n) = [ (x + n) mod C | x <- c ] *)
Definition rotate (p : Params) (c : list N) (n : N) : list N :=
  map (fun x => (x + n) mod pC p) c.

(* [ floor(C*i/V) | i <- N_V ] *)
Definition base_cores (p : Params) : list N := map (fun i => (pC p * i) / pV p) (nseq (pV p)).

(* rotation index of slot t inside its epoch *)
Definition sub_epoch (p : Params) (t : N) : N := (t mod pE p) / pR p.


(* ---------------------------------------------------------------------------------------- *)
(* F.2 : Q_l(h) = [ E_4^-1( H(h ++ E_4(floor(i/8)))[4i mod 32 ..+4] ) | i <- N_l ] *)
Section HashSequence.
  Variable H : bytes -> bytes.

  Definition qword (h : bytes) (i : N) : N :=
    le_dec (firstn 4 (skipn (N.to_nat ((4 * i) mod 32)) (H (h ++ le_enc 4 (i / 8))))).

  Definition qseq (h : bytes) (l : nat) : list N :=
    map (fun i => qword h (N.of_nat i)) (seq 0 l).

  (* F.3 *)
  Definition shuffle_F {A} (s : list A) (h : bytes) : list A := F s (qseq h (length s)).
  (* shuffle.go Shuffle *)
  Definition shuffle_go {A} (s : list A) (h : bytes) : list A := fy_go s (qseq h (length s)).

  (* 11.20 : P(e, t) = R( F([floor(C*i/V)], e), floor((t mod E)/R) ) *)
  Definition assign (p : Params) (e : bytes) (t : N) : list N :=
    rotate p (shuffle_F (base_cores p) e) (sub_epoch p t).

  (* guarantor_assignments.go permute *)
  Definition permute_go (p : Params) (e : bytes) (t : N) : list N :=
    rotate p (shuffle_go (base_cores p) e) (sub_epoch p t).
End HashSequence.

Definition tiny_params : Params := {| pV := 6; pC := 2; pE := 12; pR := 4 |}.
Definition full_params : Params := {| pV := 1023; pC := 341; pE := 600; pR := 10 |}.
