(* C10 — accumulation checkpoint / rollback (Gray Paper B.8–B.13): Ψ_A as a state machine over the
   trace of successful host-call mutations, with the regular context x and the exceptional context y.
   Every mutation carries a tag so that the final context says exactly which mutations it contains.
   No proofs here. *)
From JamV Require Export Base.Bytes.
Local Open Scope N_scope.

Inductive aop :=
| OWrite (k : N)        (* storage write of key k *)
| ODelete (k : N)       (* storage removal of key k *)
| OTransfer (k : N)     (* deferred transfer with memo tag k and amount 100 + k *)
| OYield (k : N)        (* yield of hash tag k *)
| OProvide (k : N)      (* provide preimage blob k *)
| OUpgrade (k : N)      (* upgrade to code hash tag k *)
| ONew                  (* create a service (threshold balance moved to it) *)
| OCheckpoint.

(* the accumulation context (x_u, x_t, x_y, x_p) restricted to what the tagged programs touch *)
Record ctx := {
  c_store : list N;            (* tags of storage keys present, ascending *)
  c_raw : list N;              (* tags of storage entries still held as raw (unattributed) key-values, in list order *)
  c_transfers : list N;        (* transfer tags, in order of emission *)
  c_yield : option N;
  c_provided : list N;         (* provided blob tags, ascending *)
  c_code : N;                  (* code-hash tag of the service *)
  c_created : N;               (* services created *)
  c_spent : N                  (* balance moved out of the service *)
}.

Fixpoint insert_tag (k : N) (l : list N) : list N :=
  match l with
  | [] => [k]
  | x :: t => if k <? x then k :: l else if k =? x then l else x :: insert_tag k t
  end.
Definition remove_tag (k : N) (l : list N) : list N := filter (fun x => negb (x =? k)) l.

Definition new_cost : N := 234.   (* threshold of an account with 2 items and 81+53 octets: 100 + 20 + 134 - gratis 20 *)

Definition apply_op (c : ctx) (o : aop) : ctx :=
  match o with
  | OWrite k => {| c_store := insert_tag k (c_store c); c_raw := remove_tag k (c_raw c); c_transfers := c_transfers c; c_yield := c_yield c;
                   c_provided := c_provided c; c_code := c_code c; c_created := c_created c; c_spent := c_spent c |}
  | ODelete k => {| c_store := remove_tag k (c_store c); c_raw := remove_tag k (c_raw c); c_transfers := c_transfers c; c_yield := c_yield c;
                    c_provided := c_provided c; c_code := c_code c; c_created := c_created c; c_spent := c_spent c |}
  | OTransfer k => {| c_store := c_store c; c_raw := c_raw c; c_transfers := c_transfers c ++ [k]; c_yield := c_yield c;
                      c_provided := c_provided c; c_code := c_code c; c_created := c_created c;
                      c_spent := c_spent c + 100 + k |}
  | OYield k => {| c_store := c_store c; c_raw := c_raw c; c_transfers := c_transfers c; c_yield := Some k;
                   c_provided := c_provided c; c_code := c_code c; c_created := c_created c; c_spent := c_spent c |}
  | OProvide k => {| c_store := c_store c; c_raw := c_raw c; c_transfers := c_transfers c; c_yield := c_yield c;
                     c_provided := insert_tag k (c_provided c); c_code := c_code c; c_created := c_created c;
                     c_spent := c_spent c |}
  | OUpgrade k => {| c_store := c_store c; c_raw := c_raw c; c_transfers := c_transfers c; c_yield := c_yield c;
                     c_provided := c_provided c; c_code := k; c_created := c_created c; c_spent := c_spent c |}
  | ONew => {| c_store := c_store c; c_raw := c_raw c; c_transfers := c_transfers c; c_yield := c_yield c;
               c_provided := c_provided c; c_code := c_code c; c_created := c_created c + 1;
               c_spent := c_spent c + new_cost |}
  | OCheckpoint => c
  end.

Record st := { sx : ctx; sy : ctx }.

(* checkpoint: y := x ; every other host call mutates x only *)
Definition step (s : st) (o : aop) : st :=
  match o with
  | OCheckpoint => {| sx := sx s; sy := sx s |}
  | _ => {| sx := apply_op (sx s) o; sy := sy s |}
  end.

Inductive ending :=
| EHalt32 (k : N)     (* halt with a 32-byte output carrying tag k *)
| EHaltEmpty          (* halt with empty output *)
| EHaltOther          (* halt with an output of another length *)
| EPanic
| EOutOfGas.

Definition with_yield (c : ctx) (k : N) : ctx :=
  {| c_store := c_store c; c_raw := c_raw c; c_transfers := c_transfers c; c_yield := Some k; c_provided := c_provided c;
     c_code := c_code c; c_created := c_created c; c_spent := c_spent c |}.

(* B.13 collapse *)
Definition collapse (s : st) (e : ending) : ctx :=
  match e with
  | EHalt32 k => with_yield (sx s) k
  | EHaltEmpty | EHaltOther => sx s
  | EPanic | EOutOfGas => sy s
  end.

Definition run (init : ctx) (ops : list aop) (e : ending) : ctx :=
  collapse (fold_left step ops {| sx := init; sy := init |}) e.

(* the operations up to and including the last checkpoint *)
Fixpoint committed (ops : list aop) : list aop :=
  match ops with
  | [] => []
  | o :: t =>
    match committed t with
    | [] => match o with OCheckpoint => [OCheckpoint] | _ => [] end
    | l => o :: l
    end
  end.

Definition init_ctx : ctx :=
  {| c_store := []; c_raw := [20; 21; 22]; c_transfers := []; c_yield := None; c_provided := []; c_code := 0; c_created := 0; c_spent := 0 |}.
