(* C16 — the per-key leaf-hash cache of the state root (internal/blockchain/key_level_cache.go,
   chain_state.go:merklizeWithKeyCache, merklization.go:merklizeWithCache). Executable model only.
   The cache is an association list  key -> (valueHash, leafHash)  with at most one entry per key
   (the Go map); its length is the Go `Len()`. *)
From JamV Require Export Base.Bytes Model.Trie.
Local Open Scope N_scope.

Definition centry := (bytes * bytes)%type.            (* (valueHash, leafHash) *)
Definition cache := list (bytes * centry).

Fixpoint c_lookup (k : bytes) (c : cache) : option centry :=
  match c with
  | [] => None
  | (k', e) :: t => if bytes_eqb k' k then Some e else c_lookup k t
  end.

Definition c_remove (k : bytes) (c : cache) : cache :=
  filter (fun p => negb (bytes_eqb (fst p) k)) c.

(* PutLeafHash: c.entries[key] = entry *)
Definition c_put (k : bytes) (e : centry) (c : cache) : cache := (k, e) :: c_remove k c.

Section TrieCache.
Variable H : bytes -> bytes.

(* the callback built by merklizeWithKeyCache: GetLeafHash, on a miss the clear-at-capacity rule,
   EncodeLeafNodeHash, PutLeafHash.  A hit is decided by comparing H(value) with the stored valueHash. *)
Definition get_or_compute (cap : nat) (c : cache) (k v : bytes) : bytes * cache :=
  let h := H v in
  let miss :=
    let c1 := if (cap <=? length c)%nat then [] else c in
    let lf := H (leaf H k v) in
    (lf, c_put k (h, lf) c1) in
  match c_lookup k c with
  | Some (vh, lh) => if bytes_eqb vh h then (lh, c) else miss
  | None => miss
  end.

(* merklizeWithCache: same recursion as merklize (left subtree first), single entries go through the cache *)
Fixpoint merklize_c (cap fuel d : nat) (es : list entry) (c : cache) : option bytes * cache :=
  match es with
  | [] => (Some zero_hash, c)
  | [e] => let (h, c') := get_or_compute cap c (fst e) (snd e) in (Some h, c')
  | _ =>
    match fuel with
    | O => (None, c)
    | S f =>
      let (l, r) := go_partition d es in
      let (hl, c1) := merklize_c cap f (S d) l c in
      let (hr, c2) := merklize_c cap f (S d) r c1 in
      (match hl, hr with Some a, Some b => Some (H (branch a b)) | _, _ => None end, c2)
    end
  end.

(* ChainState.ComputeStateRootWithCache with MaxKeyLevelCacheSize = cap *)
Definition root_cached (cap : nat) (es : list entry) (c : cache) : option bytes * cache :=
  merklize_c cap 249 0 es c.

(* histories: root computations (the capacity is a package variable and may change between calls),
   explicit clears (ClearKeyLevelCache) and the removal of an arbitrary entry (any eviction policy;
   the Go code only evicts by clearing, the theorem covers more). *)
Inductive cop :=
| Root (cap : nat) (es : list entry)
| Clear
| Evict (k : bytes).

(* observable of a step: the root and the cache size after the step *)
Definition step (c : cache) (o : cop) : option (option bytes) * cache :=
  match o with
  | Root cap es => let (r, c') := root_cached cap es c in (Some r, c')
  | Clear => (None, [])
  | Evict k => (None, c_remove k c)
  end.

Fixpoint run_cached (ops : list cop) (c : cache) : list (option bytes) * cache :=
  match ops with
  | [] => ([], c)
  | o :: t =>
    let (out, c1) := step c o in
    let (outs, c2) := run_cached t c1 in
    (match out with Some r => r :: outs | None => outs end, c2)
  end.

(* the from-scratch roots of the same history (specification side: Model/Trie.v [root]) *)
Fixpoint roots_of (ops : list cop) : list (option bytes) :=
  match ops with
  | [] => []
  | Root _ es :: t => root H es :: roots_of t
  | _ :: t => roots_of t
  end.

(* driver entry point: one step returning (root, Len()) *)
Definition step_obs (c : cache) (o : cop) : option (option bytes) * nat * cache :=
  let (out, c') := step c o in (out, length c', c').

End TrieCache.
