(* C26 — the block-import bookkeeping of the node (fuzz target: SetState / ImportBlock / GetState).
   Executable Gallina only; proofs are in Proofs/NodeP.v.

   The state-transition function itself is NOT modelled: it is a Section variable
       stf : state -> block -> state + N          (inl post-state | inr protocol-error kind)
   i.e. an arbitrary deterministic function. What is modelled is the protocol around it:
   which state a block is applied to (found by parent hash in the store of committed states),
   what is committed on success, what a refusal leaves behind (nothing), how GetState answers,
   and the node's own admission policy (unknown parent; with ancestry tracking on, a block that
   does not extend the head and is older than the head is refused).

   Two nodes are defined over the same vocabulary:
     - [step]/[run]   : the specification node S. A refused import returns the node unchanged.
     - [gstep]/[grun] : the node shaped like the Go code before the repair (internal/fuzz/service.go
                        ImportBlock + blockchain.ChainState): the block is appended as "latest block"
                        BEFORE the STF runs and stays there when the STF rejects it, the restore of the
                        parent (working state, trimmed ancestry) is not undone. Used only for the
                        refutation witness in Properties/C26.v and as the defect model of the driver. *)
From Coq Require Import List NArith Bool.
Import ListNotations.
Local Open Scope N_scope.

Section Node.
  Variable state : Type.
  Variable block : Type.
  Variable root : Type.
  Variable kvs : Type.
  Variable bhash : block -> N.     (* header hash (an identifier) *)
  Variable bparent : block -> N.   (* parent header hash *)
  Variable bslot : block -> N.     (* time slot *)
  Variable stf : state -> block -> state + N.
  Variable root_of : state -> root.
  Variable kv_of : state -> kvs.

  (* ancestry: (slot, header hash) of the chain from the SetState header to the head; [] = tracking off *)
  Definition ancestry := list (N * N).

  Record node := mkNode {
    store : list (N * state);   (* committed posterior states by header hash, newest first *)
    head : option N;            (* header hash of the head: last SetState / accepted import *)
    anc : ancestry }.

  Definition fresh : node := mkNode [] None [].

  Inductive refusal := RNoParent | RAncestry | RNoHead.

  Inductive op :=
  | SetState (h slot : N) (s : state) (a : ancestry)
  | Import (b : block)
  | GetState (h : N).

  Inductive obs :=
  | OAccepted (r : root) (k : kvs)   (* state root returned, and key-values now served for the block *)
  | ORejected (k : N)                (* STF protocol error of kind k *)
  | ORefused (why : refusal)         (* refused by the node before the STF *)
  | OState (k : kvs) (r : root)      (* GetState: key-values and their root *)
  | ONone.                           (* GetState: unknown header hash *)

  Fixpoint lookup (h : N) (l : list (N * state)) : option state :=
    match l with
    | [] => None
    | (k, s) :: r => if k =? h then Some s else lookup h r
    end.

  (* prefix of the ancestry ending at the last occurrence of p; [] when p is not in it *)
  Fixpoint trim_to (l : ancestry) (p : N) : ancestry :=
    match l with
    | [] => []
    | x :: r => match trim_to r p with
                | [] => if snd x =? p then [x] else []
                | t => x :: t
                end
    end.

  Fixpoint last_item (l : ancestry) : option (N * N) :=
    match l with
    | [] => None
    | [x] => Some x
    | _ :: r => last_item r
    end.

  (* append (slot,h) to a tracked ancestry unless it already ends with it; stays [] when tracking is off *)
  Definition anc_push (a : ancestry) (slot h : N) : ancestry :=
    match last_item a with
    | None => []
    | Some (s, x) => if (s =? slot) && (x =? h) then a else a ++ [(slot, h)]
    end.

  Definition set_state (h slot : N) (s : state) (a : ancestry) : node :=
    mkNode [(h, s)] (Some h) (anc_push a slot h).

  (* Which state the STF is applied to, and the ancestry the import continues from.
     direct: the block extends the head (or IS the head block again): the head's state, ancestry as is.
     otherwise: admission policy, then the parent's committed state, ancestry cut back to the parent. *)
  Definition import_pre (n : node) (b : block) : (state * ancestry) + refusal :=
    match head n with
    | None => inr RNoHead
    | Some hd =>
      if (hd =? bparent b) || (hd =? bhash b) then
        match lookup hd (store n) with
        | Some s => inl (s, anc n)
        | None => inr RNoParent
        end
      else if bslot b <? 1 then inr RAncestry
      else if match last_item (anc n) with Some (s, _) => bslot b <? s | None => false end then inr RAncestry
      else match lookup (bparent b) (store n) with
           | Some s => inl (s, trim_to (anc n) (bparent b))
           | None => inr RNoParent
           end
    end.

  Definition import (n : node) (b : block) : node * obs :=
    match import_pre n b with
    | inr why => (n, ORefused why)
    | inl (s, a) =>
      match stf s b with
      | inl s' => (mkNode ((bhash b, s') :: store n) (Some (bhash b)) (anc_push a (bslot b) (bhash b)),
                   OAccepted (root_of s') (kv_of s'))
      | inr k => (n, ORejected k)
      end
    end.

  Definition get_state (n : node) (h : N) : obs :=
    match lookup h (store n) with
    | Some s => OState (kv_of s) (root_of s)
    | None => ONone
    end.

  Definition step (n : node) (o : op) : node * obs :=
    match o with
    | SetState h slot s a => (set_state h slot s a, OAccepted (root_of s) (kv_of s))
    | Import b => import n b
    | GetState h => (n, get_state n h)
    end.

  Fixpoint run (n : node) (ops : list op) : list obs :=
    match ops with
    | [] => []
    | o :: r => let (n', ob) := step n o in ob :: run n' r
    end.

  Fixpoint final (n : node) (ops : list op) : node :=
    match ops with
    | [] => n
    | o :: r => final (fst (step n o)) r
    end.

  (* ---- deleting operations by a mask (true = delete) ---- *)
  Fixpoint remove_mask {A : Type} (m : list bool) (l : list A) : list A :=
    match m, l with
    | true :: m', _ :: l' => remove_mask m' l'
    | false :: m', x :: l' => x :: remove_mask m' l'
    | _, _ => l
    end.

  Definition is_import (o : op) : bool := match o with Import _ => true | _ => false end.
  Definition is_refusal (ob : obs) : bool :=
    match ob with ORejected _ | ORefused _ => true | _ => false end.

  (* a mask may delete only imports that were refused in the full run *)
  Fixpoint mask_ok (m : list bool) (ops : list op) (obl : list obs) : bool :=
    match m, ops, obl with
    | [], [], [] => true
    | d :: m', o :: ops', ob :: obl' =>
      (if d then is_import o && is_refusal ob else true) && mask_ok m' ops' obl'
    | _, _, _ => false
    end.

  (* the mask deleting every refused import *)
  Fixpoint refused_mask (ops : list op) (obl : list obs) : list bool :=
    match ops, obl with
    | o :: ops', ob :: obl' => (is_import o && is_refusal ob) :: refused_mask ops' obl'
    | _, _ => []
    end.

  (* =====================================================================================
     The node shaped like the Go code before the repair. [glatest] is the last block handed to
     AddBlock (accepted or not), [gwork] the in-memory prior state, [ganc] the ancestry cache. *)
  Record gnode := mkG {
    gstore : list (N * state);
    glatest : option N;
    gwork : option state;
    ganc : ancestry }.

  Definition gfresh : gnode := mkG [] None None [].

  Definition gimport (n : gnode) (b : block) : gnode * obs :=
    match glatest n with
    | None => (n, ORefused RNoHead)
    | Some lt =>
      let direct := (lt =? bparent b) || (lt =? bhash b) in
      let pre : (state * ancestry) + refusal :=
        if direct then match gwork n with Some s => inl (s, ganc n) | None => inr RNoParent end
        else if bslot b <? 1 then inr RAncestry
        else if match last_item (ganc n) with Some (s, _) => bslot b <? s | None => false end then inr RAncestry
        else match lookup (bparent b) (gstore n) with
             | Some s => inl (s, trim_to (ganc n) (bparent b))
             | None => inr RNoParent
             end in
      match pre with
      | inr why => (n, ORefused why)
      | inl (s, a) =>
        match stf s b with
        | inl s' => (mkG ((bhash b, s') :: gstore n) (Some (bhash b)) (Some s') (anc_push a (bslot b) (bhash b)),
                     OAccepted (root_of s') (kv_of s'))
        | inr k => (mkG (gstore n) (Some (bhash b)) (Some s) a, ORejected k)   (* the leak *)
        end
      end
    end.

  Definition gstep (n : gnode) (o : op) : gnode * obs :=
    match o with
    | SetState h slot s a => (mkG [(h, s)] (Some h) (Some s) (anc_push a slot h), OAccepted (root_of s) (kv_of s))
    | Import b => gimport n b
    | GetState h => (n, match lookup h (gstore n) with Some s => OState (kv_of s) (root_of s) | None => ONone end)
    end.

  Fixpoint grun (n : gnode) (ops : list op) : list obs :=
    match ops with
    | [] => []
    | o :: r => let (n', ob) := gstep n o in ob :: grun n' r
    end.
End Node.

Arguments mkNode {state}.
Arguments fresh {state}.
Arguments gfresh {state}.
Arguments SetState {state block}.
Arguments Import {state block}.
Arguments GetState {state block}.
Arguments OAccepted {root kvs}.
Arguments ORejected {root kvs}.
Arguments ORefused {root kvs}.
Arguments OState {root kvs}.
Arguments ONone {root kvs}.
