(* C29 — validator grid (JAMNP-S "grid structure") and the preferred initiator of a connection.
   Executable Gallina only, no proofs here.

   Grid: the V validators of an epoch are laid out by index in rows of width W = floor(sqrt V);
   two validators of the same epoch are linked iff they share a row (index / W) or a column
   (index mod W); validators of adjacent epochs are linked iff they have the same index.
   Initiator: P(a, b) = a when (a[31] > 127) xor (b[31] > 127) xor (a < b), else b.          *)
From JamV Require Export Base.Bytes.
Local Open Scope N_scope.

(* grid.go ComputeWidth on a Go int (n <= 0 gives 1) *)
Definition width (v : N) : N := if v =? 0 then 1 else N.sqrt v.
Definition width_z (z : Z) : N := if (z <=? 0)%Z then 1 else N.sqrt (Z.to_N z).

(* grid.go IsNeighborInEpoch for a current set of v validators (w = the width, computed once) *)
Definition neighbor_w (w v a b : N) : bool :=
  (a <? v) && (b <? v) && negb (a =? b) && ((a / w =? b / w) || (a mod w =? b mod w)).
Definition neighbor (v a b : N) : bool := neighbor_w (width v) v a b.

Definition idx_seq (n : N) : list N := map N.of_nat (seq 0 (N.to_nat n)).

(* grid.go NeighborIndicesInEpoch : ascending indices of the in-epoch neighbours *)
Definition neighbor_indices (v a : N) : list N :=
  let w := width v in filter (neighbor_w w v a) (idx_seq v).

(* Go int front-end: a negative index is not a validator *)
Definition neighbor_z (v : N) (a b : Z) : bool :=
  if ((a <? 0) || (b <? 0))%Z then false else neighbor v (Z.to_N a) (Z.to_N b).
Definition neighbor_indices_z (v : N) (a : Z) : list N :=
  if (a <? 0)%Z then [] else neighbor_indices v (Z.to_N a).
(* IsNeighborInEpoch(a, b) for b = -1, 0, ..., v *)
Definition neighbor_row_z (v : N) (a : Z) : list bool :=
  if (a <? 0)%Z then repeat false (N.to_nat v + 2)
  else let w := width v in false :: map (neighbor_w w v (Z.to_N a)) (idx_seq v) ++ [false].

(* the three validator sets known to a node; K is the key type *)
Section Sets.
  Context {K : Type}.
  Variable keq : K -> K -> bool.

  Record grid := { g_prev : list K; g_cur : list K; g_next : list K }.

  Definition at_index (l : list K) (i : N) : list K :=
    match nth_error l (N.to_nat i) with Some k => [k] | None => [] end.

  Definition vcount (g : grid) : N := N.of_nat (length (g_cur g)).

  (* grid.go AllNeighborValidators *)
  Definition all_neighbors (g : grid) (i : N) : list K :=
    flat_map (at_index (g_cur g)) (neighbor_indices (vcount g) i)
    ++ at_index (g_prev g) i ++ at_index (g_next g) i.

  (* grid.go IsSameIndexCrossEpoch *)
  Definition same_index_cross (g : grid) (i : N) (k : K) : bool :=
    existsb (keq k) (at_index (g_prev g) i) || existsb (keq k) (at_index (g_next g) i).

  (* grid.go FindIndex : first index holding the key *)
  Fixpoint find_index_from (l : list K) (k : K) (i : N) : option N :=
    match l with
    | [] => None
    | x :: t => if keq x k then Some i else find_index_from t k (N.succ i)
    end.
  Definition find_index (g : grid) (k : K) : option N := find_index_from (g_cur g) k 0.

  (* specification of manager.go IsNeighbor: the key belongs to a validator linked to self,
     i.e. to a grid neighbour of the current epoch or to the validator with self's index in the
     previous or next epoch *)
  Definition is_neighbor_key (g : grid) (self : N) (k : K) : bool :=
    existsb (fun j => existsb (keq k) (at_index (g_cur g) j)) (neighbor_indices (vcount g) self)
    || same_index_cross g self k.

  (* the decision procedure of the unpatched manager.go (defect model): only the FIRST current
     index holding the key is consulted, the cross-epoch rule only when the key is absent *)
  Definition is_neighbor_first_only (g : grid) (self : N) (k : K) : bool :=
    match find_index g k with
    | Some j => neighbor (vcount g) self j
    | None => same_index_cross g self k
    end.
End Sets.

Section SetsZ.
  Context {K : Type}.
  Variable keq : K -> K -> bool.
  Definition all_neighbors_z (g : @grid K) (i : Z) : list K :=
    if (i <? 0)%Z then [] else all_neighbors g (Z.to_N i).
  Definition same_index_cross_z (g : @grid K) (i : Z) (k : K) : bool :=
    if (i <? 0)%Z then false else same_index_cross keq g (Z.to_N i) k.
  Definition is_neighbor_key_z (g : @grid K) (i : Z) (k : K) : bool :=
    if (i <? 0)%Z then false else is_neighbor_key keq g (Z.to_N i) k.
  Definition is_neighbor_first_only_z (g : @grid K) (i : Z) (k : K) : bool :=
    if (i <? 0)%Z then false else is_neighbor_first_only keq g (Z.to_N i) k.
End SetsZ.

(* nodes of the three-epoch graph: (epoch, index) with epoch 0 = previous, 1 = current, 2 = next *)
Definition node_linked (v : N) (x y : N * N) : bool :=
  let '(ex, i) := x in let '(ey, j) := y in
  if (ex =? 1) && (ey =? 1) then neighbor v i j
  else ((ex =? 1) && ((ey =? 0) || (ey =? 2)) || (ey =? 1) && ((ex =? 0) || (ex =? 2))) && (i =? j).

(* manager.go PreferredInitiator *)
Definition high_bit (a : bytes) : bool := 127 <? nth 31 a 0.
Definition initiator (a b : bytes) : bytes :=
  if xorb (xorb (high_bit a) (high_bit b)) (bytes_ltb a b) then a else b.
