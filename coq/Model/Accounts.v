(* Service accounts (Gray Paper 9.3-9.8) over unbounded N. Executable Gallina only, no proofs.
   Used by C08 (token conservation) and C09 (storage footprint and threshold accounting). *)
From JamV Require Import Base.Bytes.
Local Open Scope N_scope.

(* Gray Paper constants as they stand in internal/types/const.go *)
Definition B_S : N := 100.  (* BasicMinBalance *)
Definition B_I : N := 10.   (* AdditionalMinBalancePerItem *)
Definition B_L : N := 1.    (* AdditionalMinBalancePerOctet *)
Definition two32 : N := 4294967296.
Definition two64 : N := 18446744073709551616.

(* ---- first-match association lists (the Go maps; keys compared with [eqb]) ---- *)
Section AL.
  Context {K V : Type}.
  Variable eqb : K -> K -> bool.
  Fixpoint al_get (k : K) (l : list (K * V)) : option V :=
    match l with
    | [] => None
    | (k', v) :: t => if eqb k k' then Some v else al_get k t
    end.
  Fixpoint al_set (k : K) (v : V) (l : list (K * V)) : list (K * V) :=
    match l with
    | [] => [(k, v)]
    | (k', v') :: t => if eqb k k' then (k, v) :: t else (k', v') :: al_set k v t
    end.
  Fixpoint al_del (k : K) (l : list (K * V)) : list (K * V) :=
    match l with
    | [] => []
    | (k', v') :: t => if eqb k k' then t else (k', v') :: al_del k t
    end.
End AL.

Definition lkey := (bytes * N)%type.                 (* (hash, length) *)
Definition lk_eqb (a b : lkey) : bool := bytes_eqb (fst a) (fst b) && (snd a =? snd b).

Fixpoint mem_bytes (h : bytes) (l : list bytes) : bool :=
  match l with [] => false | x :: t => bytes_eqb h x || mem_bytes h t end.
Fixpoint del_bytes (h : bytes) (l : list bytes) : list bytes :=
  match l with [] => [] | x :: t => if bytes_eqb h x then t else x :: del_bytes h t end.

Record account := mkAcct {
  a_code : bytes;                          (* a_c *)
  a_bal : N;                               (* a_b *)
  a_g : N;                                 (* a_g  min item gas *)
  a_m : N;                                 (* a_m  min memo gas *)
  a_octets : N;                            (* recorded a_o (ServiceInfo.Bytes) *)
  a_items : N;                             (* recorded a_i (ServiceInfo.Items) *)
  a_gratis : N;                            (* a_f  (ServiceInfo.DepositOffset) *)
  a_created : N;                           (* a_r *)
  a_lastacc : N;                           (* a_a *)
  a_parent : N;                            (* a_p *)
  a_storage : list (bytes * bytes);        (* a_s : key -> value *)
  a_lookups : list (lkey * list N);        (* a_l : (hash,length) -> timeslots *)
  a_preimages : list bytes                 (* keys of a_p *)
}.

Definition set_bal (a : account) (b : N) : account :=
  mkAcct (a_code a) b (a_g a) (a_m a) (a_octets a) (a_items a) (a_gratis a)
         (a_created a) (a_lastacc a) (a_parent a) (a_storage a) (a_lookups a) (a_preimages a).
Definition set_code (a : account) (c : bytes) (g m : N) : account :=
  mkAcct c (a_bal a) g m (a_octets a) (a_items a) (a_gratis a)
         (a_created a) (a_lastacc a) (a_parent a) (a_storage a) (a_lookups a) (a_preimages a).
Definition set_storage (a : account) (items octets : N) (s : list (bytes * bytes)) : account :=
  mkAcct (a_code a) (a_bal a) (a_g a) (a_m a) octets items (a_gratis a)
         (a_created a) (a_lastacc a) (a_parent a) s (a_lookups a) (a_preimages a).
Definition set_lookups (a : account) (items octets : N) (l : list (lkey * list N)) (p : list bytes) : account :=
  mkAcct (a_code a) (a_bal a) (a_g a) (a_m a) octets items (a_gratis a)
         (a_created a) (a_lastacc a) (a_parent a) (a_storage a) l p.

(* ---- derived footprint (GP 9.8): what the recorded counters must equal ---- *)
Definition blen (b : bytes) : N := N.of_nat (length b).
Definition stor_fp (k v : bytes) : N := 34 + blen k + blen v.      (* CalcStorageItemfootprint: 1 item *)
Definition look_fp (z : N) : N := 81 + z.                            (* CalcLookupItemfootprint: 2 items *)
Fixpoint stor_octets (s : list (bytes * bytes)) : N :=
  match s with [] => 0 | (k, v) :: t => stor_fp k v + stor_octets t end.
Fixpoint look_octets (l : list (lkey * list N)) : N :=
  match l with [] => 0 | (k, _) :: t => look_fp (snd k) + look_octets t end.
Definition items_of (a : account) : N :=
  2 * N.of_nat (length (a_lookups a)) + N.of_nat (length (a_storage a)).
Definition octets_of (a : account) : N := look_octets (a_lookups a) + stor_octets (a_storage a).

(* ---- threshold balance a_t = max 0 (B_S + B_I*i + B_L*o - f); N subtraction is floored at 0 ---- *)
Definition threshold_raw (i o f : N) : N := B_S + B_I * i + B_L * o - f.
Definition threshold (a : account) : N := threshold_raw (a_items a) (a_octets a) (a_gratis a).
(* the value a uint64 result can carry: saturated *)
Definition threshold_u64 (i o f : N) : N := N.min (threshold_raw i o f) (two64 - 1).

(* Go-shaped, unchanged tree: U64(B_S) + U64(U32(B_I)*a_i) + U64(B_L)*a_o, all wrapping *)
Definition threshold_go32 (i o f : N) : N :=
  let st := (B_S + (B_I * i) mod two32 + (B_L * o) mod two64) mod two64 in
  if st <? f then 0 else st - f.
(* Go-shaped, repaired: 64-bit product, sum with carry, saturating result *)
Definition threshold_go64 (i o f : N) : N :=
  let base := (B_S + B_I * i) mod two64 in
  let full := base + B_L * o in
  let lo := full mod two64 in
  let carry := full / two64 in
  if carry =? 0 then (if lo <? f then 0 else lo - f)
  else if f <=? lo then two64 - 1 else (lo + two64 - f) mod two64.
