(* C11/C13/C14 — a descriptor language for the JAM wire format and ONE generic strict codec.
   Executable Gallina only; proofs are in Proofs/CodecOrdP.v and Proofs/CodecP.v. *)
From JamV Require Export Base.Bytes Model.NatCodec.
Local Open Scope N_scope.

(* ------------------------------------------------------------------------------------------ *)
(* descriptors and values *)

Inductive desc :=
| DU (w : nat)                       (* w-byte little-endian unsigned integer *)
| DNat (bound : N)                   (* compact natural (C12 codec) whose value is < bound <= 2^64 *)
| DFix (n : nat)                     (* exactly n raw bytes *)
| DBlob                              (* compact length, then that many bytes *)
| DBlob2                             (* compact length written twice, then the bytes (Storage keys) *)
| DBits (n : nat)                    (* n bits packed LSB-first in ceil(n/8) bytes, padding bits zero *)
| DSeq (lim : N) (d : desc)          (* compact length <= lim, then that many d *)
| DVec (n : nat) (d : desc)          (* exactly n times d, no length *)
| DOpt (d : desc)                    (* byte 0 | byte 1 then d; any other byte is invalid *)
| DVar (alts : list (N * desc))      (* tag byte, then the payload of that alternative *)
| DMap (k v : desc)                  (* compact count, then entries k v in strictly ascending key order *)
| DStruct (ds : list desc).          (* concatenation *)

Inductive val :=
| VN (x : N)
| VB (b : bytes)
| VL (l : list val)
| VO (o : option val)
| VT (tag : N) (v : val).

Definition two64 : N := 18446744073709551616.
Definition unlimited : N := 18446744073709551615.

(* ------------------------------------------------------------------------------------------ *)
(* key order of dictionaries: lexicographic order of the flattened key
   (numbers compare numerically, byte strings bytewise, tuples field by field) *)

Fixpoint flat (v : val) : list N :=
  match v with
  | VN x => [x]
  | VB b => b
  | VL l => (fix go (l : list val) : list N := match l with [] => [] | a :: t => flat a ++ go t end) l
  | VO None => []
  | VO (Some a) => flat a
  | VT t a => t :: flat a
  end.

Definition entry_key (e : val) : list N :=
  match e with VL (k :: _) => flat k | _ => [] end.

Fixpoint strict_sorted (ks : list (list N)) : bool :=
  match ks with
  | a :: t => match t with b :: _ => bytes_ltb a b && strict_sorted t | [] => true end
  | [] => true
  end.

(* insertion sort of entries by key: what an encoder does to a Go map before writing it *)
Fixpoint insert_entry (e : val) (l : list val) : list val :=
  match l with
  | [] => [e]
  | a :: t => if bytes_ltb (entry_key a) (entry_key e) then a :: insert_entry e t else e :: a :: t
  end.
Fixpoint sort_entries (l : list val) : list val :=
  match l with [] => [] | e :: t => insert_entry e (sort_entries t) end.

(* ------------------------------------------------------------------------------------------ *)
(* generic combinators; the element codecs are parameters so that enc/dec stay structurally
   recursive on the descriptor *)

Definition decoder := bytes -> option (val * bytes).

Fixpoint rep (f : decoder) (k : nat) (bs : bytes) : option (list val * bytes) :=
  match k with
  | O => Some ([], bs)
  | S k' => match f bs with
            | Some (v, r) => match rep f k' r with Some (vs, r') => Some (v :: vs, r') | None => None end
            | None => None
            end
  end.

Fixpoint seq_all (fs : list decoder) (bs : bytes) : option (list val * bytes) :=
  match fs with
  | [] => Some ([], bs)
  | f :: t => match f bs with
              | Some (v, r) => match seq_all t r with Some (vs, r') => Some (v :: vs, r') | None => None end
              | None => None
              end
  end.

Fixpoint assoc {A} (t : N) (l : list (N * A)) : option A :=
  match l with
  | [] => None
  | (t', a) :: r => if t =? t' then Some a else assoc t r
  end.

Fixpoint enc_all (f : val -> option bytes) (vs : list val) : option bytes :=
  match vs with
  | [] => Some []
  | v :: t => match f v, enc_all f t with Some a, Some b => Some (a ++ b) | _, _ => None end
  end.

Fixpoint enc_zip (fs : list (val -> option bytes)) (vs : list val) : option bytes :=
  match fs, vs with
  | [], [] => Some []
  | f :: ft, v :: vt => match f v, enc_zip ft vt with Some a, Some b => Some (a ++ b) | _, _ => None end
  | _, _ => None
  end.

Definition pair_dec (fk fv : decoder) : decoder := fun bs =>
  match fk bs with
  | Some (a, r) => match fv r with Some (b, r') => Some (VL [a; b], r') | None => None end
  | None => None
  end.

Definition pair_enc (fk fv : val -> option bytes) (e : val) : option bytes :=
  match e with
  | VL [a; b] => match fk a, fv b with Some x, Some y => Some (x ++ y) | _, _ => None end
  | _ => None
  end.

Definition nbytes (n : nat) : nat := ((n + 7) / 8)%nat.

(* a declared element count can never exceed the bytes that remain: every element of every
   sequence occupies at least one byte (wf_desc).  This is the check whose absence is C14's defect. *)
Definition count_fits (n : N) (r : bytes) : bool := n <=? N.of_nat (length r).

Definition dec_counted (f : decoder) (lim : N) (bs : bytes) : option (list val * bytes) :=
  match dec_nat bs with
  | Some (n, r) => if (n <=? lim) && count_fits n r then rep f (N.to_nat n) r else None
  | None => None
  end.

(* ------------------------------------------------------------------------------------------ *)
(* the strict decoder *)

Fixpoint dec (d : desc) (bs : bytes) {struct d} : option (val * bytes) :=
  match d with
  | DU w => if (length bs <? w)%nat then None else Some (VN (le_dec (firstn w bs)), skipn w bs)
  | DNat bound =>
      match dec_nat bs with
      | Some (x, r) => if x <? bound then Some (VN x, r) else None
      | None => None
      end
  | DFix n => if (length bs <? n)%nat then None else Some (VB (firstn n bs), skipn n bs)
  | DBlob =>
      match dec_nat bs with
      | Some (n, r) => if count_fits n r then Some (VB (firstn (N.to_nat n) r), skipn (N.to_nat n) r) else None
      | None => None
      end
  | DBlob2 =>
      match dec_nat bs with
      | Some (n0, r0) =>
          match dec_nat r0 with
          | Some (n, r) => if (n0 =? n) && count_fits n r
                           then Some (VB (firstn (N.to_nat n) r), skipn (N.to_nat n) r) else None
          | None => None
          end
      | None => None
      end
  | DBits n =>
      let w := nbytes n in
      if (length bs <? w)%nat then None
      else let x := le_dec (firstn w bs) in
           if x <? 2 ^ N.of_nat n then Some (VN x, skipn w bs) else None
  | DSeq lim d' =>
      match dec_counted (dec d') lim bs with Some (vs, r) => Some (VL vs, r) | None => None end
  | DVec n d' =>
      match rep (dec d') n bs with Some (vs, r) => Some (VL vs, r) | None => None end
  | DOpt d' =>
      match bs with
      | t :: r => if t =? 0 then Some (VO None, r)
                  else if t =? 1 then match dec d' r with Some (v, r') => Some (VO (Some v), r') | None => None end
                  else None
      | [] => None
      end
  | DVar alts =>
      match bs with
      | t :: r => match assoc t (map (fun a => (fst a, dec (snd a))) alts) with
                  | Some f => match f r with Some (v, r') => Some (VT t v, r') | None => None end
                  | None => None
                  end
      | [] => None
      end
  | DMap k v =>
      match dec_counted (pair_dec (dec k) (dec v)) unlimited bs with
      | Some (es, r) => if strict_sorted (map entry_key es) then Some (VL es, r) else None
      | None => None
      end
  | DStruct ds =>
      match seq_all (map dec ds) bs with Some (vs, r) => Some (VL vs, r) | None => None end
  end.

(* ------------------------------------------------------------------------------------------ *)
(* the encoder: defined exactly on the well-typed values *)

Fixpoint enc (d : desc) (v : val) {struct d} : option bytes :=
  match d with
  | DU w => match v with VN x => if x <? 256 ^ N.of_nat w then Some (le_enc w x) else None | _ => None end
  | DNat bound => match v with VN x => if (x <? bound) && (x <? two64) then Some (enc_nat x) else None | _ => None end
  | DFix n => match v with VB b => if (length b =? n)%nat && wf_bytes b then Some b else None | _ => None end
  | DBlob =>
      match v with
      | VB b => if (N.of_nat (length b) <? two64) && wf_bytes b then Some (enc_nat (N.of_nat (length b)) ++ b) else None
      | _ => None
      end
  | DBlob2 =>
      match v with
      | VB b => if (N.of_nat (length b) <? two64) && wf_bytes b
                then Some (enc_nat (N.of_nat (length b)) ++ enc_nat (N.of_nat (length b)) ++ b) else None
      | _ => None
      end
  | DBits n => match v with VN x => if x <? 2 ^ N.of_nat n then Some (le_enc (nbytes n) x) else None | _ => None end
  | DSeq lim d' =>
      match v with
      | VL vs => if (N.of_nat (length vs) <=? lim) && (N.of_nat (length vs) <? two64)
                 then match enc_all (enc d') vs with
                      | Some b => Some (enc_nat (N.of_nat (length vs)) ++ b)
                      | None => None
                      end
                 else None
      | _ => None
      end
  | DVec n d' =>
      match v with
      | VL vs => if (length vs =? n)%nat then enc_all (enc d') vs else None
      | _ => None
      end
  | DOpt d' =>
      match v with
      | VO None => Some [0]
      | VO (Some a) => match enc d' a with Some b => Some (1 :: b) | None => None end
      | _ => None
      end
  | DVar alts =>
      match v with
      | VT t a => if t <? 256
                  then match assoc t (map (fun a => (fst a, enc (snd a))) alts) with
                       | Some f => match f a with Some b => Some (t :: b) | None => None end
                       | None => None
                       end
                  else None
      | _ => None
      end
  | DMap k v' =>
      match v with
      | VL es => if (N.of_nat (length es) <? two64) && strict_sorted (map entry_key es)
                 then match enc_all (pair_enc (enc k) (enc v')) es with
                      | Some b => Some (enc_nat (N.of_nat (length es)) ++ b)
                      | None => None
                      end
                 else None
      | _ => None
      end
  | DStruct ds =>
      match v with
      | VL vs => enc_zip (map enc ds) vs
      | _ => None
      end
  end.

(* encoding a dictionary given as an unordered list of entries: sort, then encode *)
Definition enc_map (k v : desc) (entries : list val) : option bytes :=
  enc (DMap k v) (VL (sort_entries entries)).

(* ------------------------------------------------------------------------------------------ *)
(* well-typed values (independent of enc; val_ok_enc shows they are exactly the encodable ones) *)

Fixpoint all_ok (f : val -> bool) (vs : list val) : bool :=
  match vs with [] => true | v :: t => f v && all_ok f t end.
Fixpoint zip_ok (fs : list (val -> bool)) (vs : list val) : bool :=
  match fs, vs with
  | [], [] => true
  | f :: ft, v :: vt => f v && zip_ok ft vt
  | _, _ => false
  end.
Definition pair_ok (fk fv : val -> bool) (e : val) : bool :=
  match e with VL [a; b] => fk a && fv b | _ => false end.

Fixpoint val_ok (d : desc) (v : val) {struct d} : bool :=
  match d with
  | DU w => match v with VN x => x <? 256 ^ N.of_nat w | _ => false end
  | DNat bound => match v with VN x => (x <? bound) && (x <? two64) | _ => false end
  | DFix n => match v with VB b => (length b =? n)%nat && wf_bytes b | _ => false end
  | DBlob | DBlob2 => match v with VB b => (N.of_nat (length b) <? two64) && wf_bytes b | _ => false end
  | DBits n => match v with VN x => x <? 2 ^ N.of_nat n | _ => false end
  | DSeq lim d' =>
      match v with
      | VL vs => (N.of_nat (length vs) <=? lim) && (N.of_nat (length vs) <? two64) && all_ok (val_ok d') vs
      | _ => false
      end
  | DVec n d' => match v with VL vs => (length vs =? n)%nat && all_ok (val_ok d') vs | _ => false end
  | DOpt d' => match v with VO None => true | VO (Some a) => val_ok d' a | _ => false end
  | DVar alts =>
      match v with
      | VT t a => (t <? 256) && match assoc t (map (fun a => (fst a, val_ok (snd a))) alts) with
                               | Some f => f a | None => false end
      | _ => false
      end
  | DMap k v' =>
      match v with
      | VL es => (N.of_nat (length es) <? two64) && strict_sorted (map entry_key es)
                 && all_ok (pair_ok (val_ok k) (val_ok v')) es
      | _ => false
      end
  | DStruct ds => match v with VL vs => zip_ok (map val_ok ds) vs | _ => false end
  end.

(* ------------------------------------------------------------------------------------------ *)
(* well-formed descriptors *)

Definition nsum (l : list N) : N := fold_right N.add 0 l.
Definition nmax (l : list N) : N := fold_right N.max 0 l.

Fixpoint min_size (d : desc) : nat :=
  match d with
  | DU w => w
  | DNat _ => 1
  | DFix n => n
  | DBlob => 1
  | DBlob2 => 2
  | DBits n => nbytes n
  | DSeq _ _ => 1
  | DVec n d' => n * min_size d'
  | DOpt _ => 1
  | DVar _ => 1
  | DMap _ _ => 1
  | DStruct ds => list_sum (map min_size ds)
  end%nat.

Fixpoint wf_desc (d : desc) : bool :=
  match d with
  | DU _ | DFix _ | DBlob | DBlob2 | DBits _ => true
  | DNat bound => bound <=? two64
  | DSeq lim d' => (lim <? two64) && (1 <=? min_size d')%nat && wf_desc d'
  | DVec _ d' => wf_desc d'
  | DOpt d' => wf_desc d'
  | DVar alts => forallb (fun a => wf_desc (snd a)) alts
  | DMap k v => (1 <=? min_size k + min_size v)%nat && wf_desc k && wf_desc v
  | DStruct ds => forallb wf_desc ds
  end.

(* ------------------------------------------------------------------------------------------ *)
(* C14: the allocation account of a decoder run.  Every sequence / blob / dictionary header that
   the decoder reaches allocates (declared count) x (in-memory element size) before any element
   is read.  [chk = true] is the decoder above (the count is first compared with the remaining
   input); [chk = false] is a decoder without that comparison. *)

Fixpoint msize (d : desc) : N :=
  match d with
  | DU w => N.of_nat w
  | DNat _ => 8
  | DFix n => N.of_nat n
  | DBlob | DBlob2 => 24
  | DBits n => 24 + N.of_nat n
  | DSeq _ _ => 24
  | DVec _ _ => 24
  | DOpt _ => 8
  | DVar alts => 8 + nmax (map (fun a => msize (snd a)) alts)
  | DMap _ _ => 8
  | DStruct ds => nsum (map msize ds)
  end.

Definition accountant := bytes -> N.

(* allocations made while decoding k consecutive elements; [f] locates the next element *)
Fixpoint rep_alloc (f : decoder) (a : accountant) (k : nat) (bs : bytes) : N :=
  match k with
  | O => 0
  | S k' => a bs + match f bs with Some (_, r) => rep_alloc f a k' r | None => 0 end
  end.

Fixpoint seq_alloc (fs : list (decoder * accountant)) (bs : bytes) : N :=
  match fs with
  | [] => 0
  | (f, a) :: t => a bs + match f bs with Some (_, r) => seq_alloc t r | None => 0 end
  end.

(* elements that an unchecked decoder can still reach: at most one per remaining byte, plus the
   one on which it fails *)
Definition reach (n : N) (r : bytes) : nat := N.to_nat (N.min n (N.of_nat (S (length r)))).

Definition counted_alloc (chk : bool) (f : decoder) (a : accountant) (esz : N) (lim : N) (bs : bytes) : N :=
  match dec_nat bs with
  | Some (n, r) =>
      if chk && negb ((n <=? lim) && count_fits n r) then 0
      else n * esz + rep_alloc f a (reach n r) r
  | None => 0
  end.

Fixpoint alloc (chk : bool) (d : desc) (bs : bytes) {struct d} : N :=
  match d with
  | DU _ | DNat _ | DFix _ | DBits _ => 0
  | DBlob =>
      match dec_nat bs with
      | Some (n, r) => if chk && negb (count_fits n r) then 0 else n
      | None => 0
      end
  | DBlob2 =>
      match dec_nat bs with
      | Some (n0, r0) =>
          match dec_nat r0 with
          | Some (n, r) => if chk && negb ((n0 =? n) && count_fits n r) then 0 else n
          | None => 0
          end
      | None => 0
      end
  | DSeq lim d' => counted_alloc chk (dec d') (alloc chk d') (msize d') lim bs
  | DVec n d' => N.of_nat n * msize d' + rep_alloc (dec d') (alloc chk d') n bs
  | DOpt d' =>
      match bs with
      | t :: r => if t =? 1 then msize d' + alloc chk d' r else 0
      | [] => 0
      end
  | DVar alts =>
      match bs with
      | t :: r => match assoc t (map (fun a => (fst a, alloc chk (snd a))) alts) with
                  | Some a => a r
                  | None => 0
                  end
      | [] => 0
      end
  | DMap k v =>
      counted_alloc chk (pair_dec (dec k) (dec v))
        (fun bs => alloc chk k bs + match dec k bs with Some (_, r) => alloc chk v r | None => 0 end)
        (msize k + msize v + 16) unlimited bs
  | DStruct ds => seq_alloc (map (fun d0 => (dec d0, alloc chk d0)) ds) bs
  end.

(* the constants of the bound  alloc true d bs <= kconst d * |bs| + cfix d :
   [cfix] is what a decoder of d allocates whatever the input is (fixed-length vectors are
   allocated up front), [kconst] the allocated bytes per input byte *)
Fixpoint cfix (d : desc) : N :=
  match d with
  | DU _ | DNat _ | DFix _ | DBits _ | DBlob | DBlob2 | DSeq _ _ | DMap _ _ => 0
  | DVec n d' => N.of_nat n * (msize d' + cfix d')
  | DOpt d' => cfix d'
  | DVar alts => nmax (map (fun a => cfix (snd a)) alts)
  | DStruct ds => nsum (map cfix ds)
  end.

Fixpoint kconst (d : desc) : N :=
  match d with
  | DU _ | DNat _ | DFix _ | DBits _ => 0
  | DBlob | DBlob2 => 1
  | DSeq _ d' => msize d' + cfix d' + kconst d'
  | DVec _ d' => kconst d'
  | DOpt d' => msize d' + kconst d'
  | DVar alts => nmax (map (fun a => kconst (snd a)) alts)
  | DMap k v => (msize k + msize v + 16) + (cfix k + cfix v) + (kconst k + kconst v)
  | DStruct ds => nmax (map kconst ds)
  end.

(* ------------------------------------------------------------------------------------------ *)
(* length-framed messages of the fuzz protocol: u32 LE length L, then L bytes = one value of d
   (for the fuzz protocol d is a DVar: type byte then payload) which must fill the frame *)

Definition two32 : N := 4294967296.

Definition enc_frame (d : desc) (v : val) : option bytes :=
  match enc d v with
  | Some b => if N.of_nat (length b) <? two32 then Some (le_enc 4 (N.of_nat (length b)) ++ b) else None
  | None => None
  end.

Definition dec_frame (d : desc) (bs : bytes) : option (val * bytes) :=
  if (length bs <? 4)%nat then None
  else
    let L := le_dec (firstn 4 bs) in
    let r := skipn 4 bs in
    if count_fits L r then
      match dec d (firstn (N.to_nat L) r) with
      | Some (v, []) => Some (v, skipn (N.to_nat L) r)
      | _ => None
      end
    else None.

(* allocation of the frame reader: the payload buffer, then the payload decoder.
   [chk = false] is the reader that allocates (L - 1) mod 2^32 bytes before reading anything. *)
Definition frame_alloc (chk : bool) (d : desc) (bs : bytes) : N :=
  if (length bs <? 4)%nat then 0
  else
    let L := le_dec (firstn 4 bs) in
    let r := skipn 4 bs in
    if chk then (if count_fits L r then L + alloc true d (firstn (N.to_nat L) r) else 0)
    else (L + two32 - 1) mod two32.

(* ------------------------------------------------------------------------------------------ *)
(* the decoder that is extracted and run against the implementation: the same function as [dec]
   (theorem decf_eq in Proofs/CodecFastP.v), with the length tests written so that they inspect
   only as many bytes as they need instead of measuring the whole remaining input *)

Fixpoint shorter (bs : bytes) (w : nat) : bool :=            (* length bs <? w *)
  match w, bs with
  | O, _ => false
  | S _, [] => true
  | S w', _ :: t => shorter t w'
  end.

Fixpoint fits (n : N) (r : bytes) : bool :=                  (* n <=? length r *)
  match r with
  | [] => n =? 0
  | _ :: t => if n =? 0 then true else fits (N.pred n) t
  end.

Definition dnat (bs : bytes) : option (N * bytes) :=         (* dec_nat *)
  match bs with
  | [] => None
  | b :: t =>
    let l := lead_ones b in
    if shorter t l then None
    else
      let x := (b - pre_base l) * pow256 l + le_dec (firstn l t) in
      if class_lo l <=? x then Some (x, skipn l t) else None
  end.

Definition decf_counted (f : decoder) (lim : N) (bs : bytes) : option (list val * bytes) :=
  match dnat bs with
  | Some (n, r) => if (n <=? lim) && fits n r then rep f (N.to_nat n) r else None
  | None => None
  end.

Fixpoint decf (d : desc) (bs : bytes) {struct d} : option (val * bytes) :=
  match d with
  | DU w => if shorter bs w then None else Some (VN (le_dec (firstn w bs)), skipn w bs)
  | DNat bound =>
      match dnat bs with
      | Some (x, r) => if x <? bound then Some (VN x, r) else None
      | None => None
      end
  | DFix n => if shorter bs n then None else Some (VB (firstn n bs), skipn n bs)
  | DBlob =>
      match dnat bs with
      | Some (n, r) => if fits n r then Some (VB (firstn (N.to_nat n) r), skipn (N.to_nat n) r) else None
      | None => None
      end
  | DBlob2 =>
      match dnat bs with
      | Some (n0, r0) =>
          match dnat r0 with
          | Some (n, r) => if (n0 =? n) && fits n r
                           then Some (VB (firstn (N.to_nat n) r), skipn (N.to_nat n) r) else None
          | None => None
          end
      | None => None
      end
  | DBits n =>
      let w := nbytes n in
      if shorter bs w then None
      else let x := le_dec (firstn w bs) in
           if x <? 2 ^ N.of_nat n then Some (VN x, skipn w bs) else None
  | DSeq lim d' =>
      match decf_counted (decf d') lim bs with Some (vs, r) => Some (VL vs, r) | None => None end
  | DVec n d' =>
      match rep (decf d') n bs with Some (vs, r) => Some (VL vs, r) | None => None end
  | DOpt d' =>
      match bs with
      | t :: r => if t =? 0 then Some (VO None, r)
                  else if t =? 1 then match decf d' r with Some (v, r') => Some (VO (Some v), r') | None => None end
                  else None
      | [] => None
      end
  | DVar alts =>
      match bs with
      | t :: r => match assoc t (map (fun a => (fst a, decf (snd a))) alts) with
                  | Some f => match f r with Some (v, r') => Some (VT t v, r') | None => None end
                  | None => None
                  end
      | [] => None
      end
  | DMap k v =>
      match decf_counted (pair_dec (decf k) (decf v)) unlimited bs with
      | Some (es, r) => if strict_sorted (map entry_key es) then Some (VL es, r) else None
      | None => None
      end
  | DStruct ds =>
      match seq_all (map decf ds) bs with Some (vs, r) => Some (VL vs, r) | None => None end
  end.

Definition decf_frame (d : desc) (bs : bytes) : option (val * bytes) :=
  if shorter bs 4 then None
  else
    let L := le_dec (firstn 4 bs) in
    let r := skipn 4 bs in
    if fits L r then
      match decf d (firstn (N.to_nat L) r) with
      | Some (v, []) => Some (v, skipn (N.to_nat L) r)
      | _ => None
      end
    else None.
