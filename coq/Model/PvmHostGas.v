(* C04 — the gas charge of the transfer host call (Gray Paper B.7: g = 10 + omega_9 on success, 10 otherwise)
   as a host function for the Psi_H loop of Model/PvmRun.v.  No proofs here. *)
From JamV Require Export Model.PvmRun.
Local Open Scope Z_scope.

Inductive xfer_class := XWho | XLow | XCash | XOk.

(* the outcome class of transfer(d, a, l): destination missing -> WHO; l below the destination's minimum
   memo gas -> LOW; the sender would fall below its threshold -> CASH; else OK *)
Definition classify_xfer (dest_exists : bool) (minmemo l balance amount threshold : Z) : xfer_class :=
  if negb dest_exists then XWho
  else if l <? minmemo then XLow
  else if (balance <? amount) || (balance - amount <? threshold) then XCash
  else XOk.

Definition code_of (c : xfer_class) : Z :=
  match c with XWho => W64 - 4 | XLow => W64 - 8 | XCash => W64 - 7 | XOk => 0 end.

(* charge 10 first (out-of-gas if it cannot be paid); an error costs nothing more; a successful transfer also
   pays its gas argument l, and stops out-of-gas with nothing left when l cannot be paid *)
Definition host_transfer (c : xfer_class) (l : Z) (s : st) : hres :=
  let g := gas s - 10 in
  if g <? 0 then HStop OutOfGas (with_gas s g)
  else match c with
       | XOk => if g <? l then HStop OutOfGas (with_gas s 0)
                else HCont {| regs := sreg (regs s) 7 0; gas := g - l; mem := mem s |}
       | _ => HCont {| regs := sreg (regs s) 7 (code_of c); gas := g; mem := mem s |}
       end.

Definition host_tab_xfer (c : xfer_class) (l : Z) (id : Z) (s : st) : hres :=
  if id =? 20 then host_transfer c l s else host_tab 64 id s.
