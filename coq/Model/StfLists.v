(* Shared list vocabulary of the C24 / C25 / C35 models (definitions only; lemmas in Proofs/StfListsP.v). *)
From JamV Require Import Base.Bytes.
Local Open Scope N_scope.

(* the most recent n entries of a sequence (Go: l[len(l)-n:] when len(l) > n) *)
Definition lastn {A} (n : nat) (l : list A) : list A := skipn (length l - n) l.

(* remove the leftmost occurrence of x (types.AuthPool.RemoveLeftMostPairedValue) *)
Fixpoint remove_first (x : N) (l : list N) : list N :=
  match l with
  | [] => []
  | y :: t => if x =? y then t else y :: remove_first x t
  end.

(* apply f to the element at index n, if any *)
Fixpoint upd_nth {A} (n : nat) (f : A -> A) (l : list A) : list A :=
  match l, n with
  | [], _ => []
  | x :: t, O => f x :: t
  | x :: t, S k => x :: upd_nth k f t
  end.

Fixpoint zip_with {A B C} (f : A -> B -> C) (l : list A) (m : list B) : list C :=
  match l, m with
  | x :: l', y :: m' => f x y :: zip_with f l' m'
  | _, _ => []
  end.

(* stable insertion sort by a key compared with bytes_ltb (Go: sort by bytes.Compare(..) < 0) *)
Fixpoint insert_by {A} (key : A -> bytes) (x : A) (l : list A) : list A :=
  match l with
  | [] => [x]
  | y :: t => if bytes_ltb (key y) (key x) then y :: insert_by key x t else x :: y :: t
  end.
Definition sort_by {A} (key : A -> bytes) (l : list A) : list A := fold_right (insert_by key) [] l.

Definition mem_bytes (x : bytes) (l : list bytes) : bool := existsb (bytes_eqb x) l.

(* strictly increasing w.r.t. the lexicographic byte order: sorted and duplicate-free *)
Fixpoint strictly_sortedb (l : list bytes) : bool :=
  match l with
  | [] => true
  | x :: t => match t with [] => true | y :: _ => bytes_ltb x y && strictly_sortedb t end
  end.
