(* Inner PVM machines of a refine invocation — Gray Paper v0.7.2 B.8: the host calls
   machine (8), peek (9), poke (10), pages (11), invoke (12), expunge (13) over
     (outer registers, outer gas, outer RAM, map machine id -> (program, RAM, counter)).
   The outer RAM is touched ONLY through [range_ok], [rd_range] and [wr_range]; the inner machine
   runs on its own [memory] value with [PvmRun.run].  Executable Gallina only, no proofs. *)
From JamV Require Export Model.PvmRun.
Local Open Scope Z_scope.

(* ---- result codes (omega_7) ---- *)
Definition R_OK : Z := 0.
Definition R_OOB : Z := W64 - 3.
Definition R_WHO : Z := W64 - 4.
Definition R_HUH : Z := W64 - 9.
(* exit kinds of invoke *)
Definition I_HALT : Z := 0.
Definition I_PANIC : Z := 1.
Definition I_FAULT : Z := 2.
Definition I_HOST : Z := 3.
Definition I_OOG : Z := 4.

Definition NPAGES : Z := 1048576.          (* 2^32 / Z_P *)

(* ---- address ranges of a RAM ---- *)
(* [ok] at the first address of n consecutive pages starting with page pg *)
Fixpoint pages_all (ok : memory -> Z -> bool) (m : memory) (pg : Z) (n : nat) : bool :=
  match n with
  | O => true
  | S n' => ok m (PAGE * pg) && pages_all ok m (pg + 1) n'
  end.

(* N_{a...+z} is inside 2^32 and [ok] (readable / writable) at every address *)
(* (a range of n pages cannot be all readable when fewer than n pages are mapped: tested first, so
   that a range of a million pages over an almost empty RAM costs nothing) *)
Definition range_ok (ok : memory -> Z -> bool) (m : memory) (a z : Z) : bool :=
  if z <=? 0 then true
  else
    let n := (a + z - 1) / PAGE - a / PAGE + 1 in
    (a + z <=? ADDR) && (n <=? Z.of_nat (length (m_pages m))) && pages_all ok m (a / PAGE) (Z.to_nat n).

Definition rd_range (m : memory) (a : Z) (n : nat) : list Z :=
  map (fun i => rd_byte m (a + Z.of_nat i)) (seq 0 n).

Fixpoint wr_range (m : memory) (a : Z) (bs : list Z) : memory :=
  match bs with
  | [] => m
  | b :: t => wr_range (wr_byte m a b) (a + 1) t
  end.

(* E_8 and its inverse on byte lists *)
Definition enc8 (v : Z) : list Z := map (fun i => (v / 256 ^ Z.of_nat i) mod 256) (seq 0 8).
Definition dec8_at (bs : list Z) (k : nat) : Z := le_val (firstn 8 (skipn (8 * k) bs)).

(* ---- the machines ---- *)
Record machine := { mc_prog : prog; mc_mem : memory; mc_pc : Z }.

Definition empty_mem : memory := {| m_pages := []; m_hp := 0; m_hl := 0 |}.

Fixpoint adel {A} (k : Z) (l : list (Z * A)) : list (Z * A) :=
  match l with
  | [] => []
  | (k', v) :: t => if k' =? k then adel k t else (k', v) :: adel k t
  end.

(* min (N \ K(m)): the first of 0, 1, 2, ... that is not a key; |m| + 1 candidates suffice *)
Fixpoint min_free {A} (l : list (Z * A)) (n : Z) (fuel : nat) : Z :=
  match fuel with
  | O => n
  | S f => match aget n l with None => n | Some _ => min_free l (n + 1) f end
  end.
Definition fresh_id {A} (l : list (Z * A)) : Z := min_free l 0 (length l).

Record istate := { o_regs : list Z; o_gas : Z; o_mem : memory; o_mach : list (Z * machine) }.

Inductive hexit := XCont | XPanic | XOog.

Inductive call := CMachine | CPeek | CPoke | CPages | CInvoke | CExpunge.

(* ---- Psi with enough fuel ----
   [run_pow k] makes up to 2^k steps and stops at the first exit; with 2^k > gas it is
   [run (gas + 1)] (InnerVmP.inner_run_is_run) without ever building a unary number of size gas. *)
Fixpoint run_pow (k : nat) (p : prog) (pc : Z) (s : st) : exit * Z * st :=
  match k with
  | O => step p pc s
  | S k' =>
    let '(e, pc', s') := run_pow k' p pc s in
    match e with
    | Continue => run_pow k' p pc' s'
    | _ => (e, pc', s')
    end
  end.

Definition inner_run_log (p : prog) (pc : Z) (s : st) : option (exit * Z * st) :=
  let '(e, pc', s') := run_pow (S (Z.to_nat (Z.log2 (gas s)))) p pc s in
  match e with
  | Continue => None
  | _ => Some (e, pc', s')
  end.

(* a counter at or past the end of the code (any natural number may be given to `machine`) meets the
   implicit trap: written out so that the counter is never used as a list index *)
Definition past_end_step (pc : Z) (s : st) : exit * Z * st :=
  if gas s <? 1 then (OutOfGas, pc, s)
  else (Panic, 0, {| regs := regs s; gas := gas s - 1; mem := mem s |}).

Definition inner_run (p : prog) (pc : Z) (s : st) : option (exit * Z * st) :=
  if code_len p <=? pc then Some (past_end_step pc s) else inner_run_log p pc s.

(* ---- pages ---- *)
Definition acc_of_mode (r : Z) : access :=
  if r =? 0 then AccNone else if (r =? 1) || (r =? 3) then AccRO else AccRW.

Definition set_page (m : memory) (i : Z) (r : Z) : memory :=
  let dat := if r <? 3 then [] else match get_page m i with Some pg => p_dat pg | None => [] end in
  {| m_pages := aset i {| p_acc := acc_of_mode r; p_dat := dat |} (m_pages m); m_hp := m_hp m; m_hl := m_hl m |}.

Fixpoint set_pages (m : memory) (i : Z) (n : nat) (r : Z) : memory :=
  match n with
  | O => m
  | S n' => set_pages (set_page m i r) (i + 1) n' r
  end.

(* ---- the six calls ---- *)
Definition upd (s : istate) (r : list Z) (g : Z) (m : memory) (ms : list (Z * machine)) : istate :=
  {| o_regs := r; o_gas := g; o_mem := m; o_mach := ms |}.

(* result with only omega_7 changed *)
Definition ret7 (s : istate) (g v : Z) : hexit * istate :=
  (XCont, upd s (sreg (o_regs s) 7 v) g (o_mem s) (o_mach s)).

Definition bytesN (l : list Z) : bytes := map Z.to_N l.

Definition call_machine (s : istate) (g : Z) : hexit * istate :=
  let r := o_regs s in
  let po := greg r 7 in let pz := greg r 8 in let i := greg r 9 in
  if negb (range_ok readable (o_mem s) po pz) then (XPanic, upd s r g (o_mem s) (o_mach s))
  else
    match deblob (bytesN (rd_range (o_mem s) po (Z.to_nat pz))) with
    | None => ret7 s g R_HUH
    | Some p =>
      let n := fresh_id (o_mach s) in
      (XCont, upd s (sreg r 7 n) g (o_mem s)
                  (aset n {| mc_prog := p; mc_mem := empty_mem; mc_pc := i |} (o_mach s)))
    end.

Definition call_peek (s : istate) (g : Z) : hexit * istate :=
  let r := o_regs s in
  let n := greg r 7 in let o := greg r 8 in let a := greg r 9 in let z := greg r 10 in
  if negb (range_ok writable (o_mem s) o z) then (XPanic, upd s r g (o_mem s) (o_mach s))
  else
    match aget n (o_mach s) with
    | None => ret7 s g R_WHO
    | Some mc =>
      if negb (range_ok readable (mc_mem mc) a z) then ret7 s g R_OOB
      else (XCont, upd s (sreg r 7 R_OK) g
                       (wr_range (o_mem s) o (rd_range (mc_mem mc) a (Z.to_nat z))) (o_mach s))
    end.

Definition call_poke (s : istate) (g : Z) : hexit * istate :=
  let r := o_regs s in
  let n := greg r 7 in let a := greg r 8 in let o := greg r 9 in let z := greg r 10 in
  if negb (range_ok readable (o_mem s) a z) then (XPanic, upd s r g (o_mem s) (o_mach s))
  else
    match aget n (o_mach s) with
    | None => ret7 s g R_WHO
    | Some mc =>
      if negb (range_ok writable (mc_mem mc) o z) then ret7 s g R_OOB
      else
        let u := wr_range (mc_mem mc) o (rd_range (o_mem s) a (Z.to_nat z)) in
        (XCont, upd s (sreg r 7 R_OK) g (o_mem s)
                    (aset n {| mc_prog := mc_prog mc; mc_mem := u; mc_pc := mc_pc mc |} (o_mach s)))
    end.

Definition call_pages (s : istate) (g : Z) : hexit * istate :=
  let r := o_regs s in
  let n := greg r 7 in let p := greg r 8 in let c := greg r 9 in let md := greg r 10 in
  match aget n (o_mach s) with
  | None => ret7 s g R_WHO
  | Some mc =>
    if (4 <? md) || (p <? 16) || (NPAGES <=? p + c) then ret7 s g R_HUH
    else if (2 <? md) && negb (pages_all readable (mc_mem mc) p (Z.to_nat c)) then ret7 s g R_HUH
    else
      let u := set_pages (mc_mem mc) p (Z.to_nat c) md in
      (XCont, upd s (sreg r 7 R_OK) g (o_mem s)
                  (aset n {| mc_prog := mc_prog mc; mc_mem := u; mc_pc := mc_pc mc |} (o_mach s)))
  end.

(* omega_7, omega_8 after invoke *)
Definition invoke_regs (r : list Z) (e : exit) : list Z :=
  match e with
  | Halt => sreg r 7 I_HALT
  | Panic => sreg r 7 I_PANIC
  | Fault a => sreg (sreg r 7 I_FAULT) 8 a
  | Host id => sreg (sreg r 7 I_HOST) 8 id
  | OutOfGas => sreg r 7 I_OOG
  | Continue => r
  end.

Definition window (s' : st) : list Z := enc8 (gas s' mod W64) ++ flat_map enc8 (regs s').

Definition call_invoke (s : istate) (g : Z) : option (hexit * istate) :=
  let r := o_regs s in
  let n := greg r 7 in let o := greg r 8 in
  if negb (range_ok writable (o_mem s) o 112) then Some (XPanic, upd s r g (o_mem s) (o_mach s))
  else
    match aget n (o_mach s) with
    | None => Some (ret7 s g R_WHO)
    | Some mc =>
      let bs := rd_range (o_mem s) o 112 in
      let s0 := {| regs := map (fun k => dec8_at bs (S k)) (seq 0 13);
                   gas := gas_in (dec8_at bs 0); mem := mc_mem mc |} in
      match inner_run (mc_prog mc) (mc_pc mc) s0 with
      | None => None
      | Some (e, pc', s') =>
        Some (XCont, upd s (invoke_regs r e) g (wr_range (o_mem s) o (window s'))
                         (aset n {| mc_prog := mc_prog mc; mc_mem := mem s'; mc_pc := pc' |} (o_mach s)))
      end
    end.

Definition call_expunge (s : istate) (g : Z) : hexit * istate :=
  let r := o_regs s in
  let n := greg r 7 in
  match aget n (o_mach s) with
  | None => ret7 s g R_WHO
  | Some mc => (XCont, upd s (sreg r 7 (mc_pc mc)) g (o_mem s) (adel n (o_mach s)))
  end.

(* every call costs 10 gas; when that cannot be paid the call is not made.
   [None] = the inner machine did not exit within its fuel (shown impossible: InnerVmP.inner_total) *)
Definition hostcall (c : call) (s : istate) : option (hexit * istate) :=
  let g := o_gas s - 10 in
  if g <? 0 then Some (XOog, upd s (o_regs s) g (o_mem s) (o_mach s))
  else
    match c with
    | CMachine => Some (call_machine s g)
    | CPeek => Some (call_peek s g)
    | CPoke => Some (call_poke s g)
    | CPages => Some (call_pages s g)
    | CInvoke => call_invoke s g
    | CExpunge => Some (call_expunge s g)
    end.

(* ---- histories: the caller sets omega_7.. from the arguments, then makes the call; a panic or
   out-of-gas ends the outer machine ---- *)
Fixpoint set_args (r : list Z) (i : nat) (args : list Z) : list Z :=
  match args with
  | [] => r
  | a :: t => set_args (sreg r i a) (S i) t
  end.

Definition with_regs (s : istate) (r : list Z) : istate := upd s r (o_gas s) (o_mem s) (o_mach s).

Fixpoint run_calls (h : list (call * list Z)) (s : istate) : option (hexit * istate) :=
  match h with
  | [] => Some (XCont, s)
  | (c, args) :: t =>
    match hostcall c (with_regs s (set_args (o_regs s) 7 args)) with
    | None => None
    | Some (XCont, s') => run_calls t s'
    | Some (e, s') => Some (e, s')
    end
  end.

(* the guest storing bytes into its own RAM between calls (correspondence driver only) *)
Definition guest_write (s : istate) (a : Z) (bs : list Z) : istate :=
  upd s (o_regs s) (o_gas s) (wr_range (o_mem s) a bs) (o_mach s).
