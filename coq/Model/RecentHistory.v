(* C25 — recent-history transition (GP 7.5 - 7.8, v0.6.7 layout: beta = (history, beefy belt)). Executable model only.
   M follows recent_history_controller.go: History2HistoryDagger, serLastAccOut / lastAccOutRoot / AppendAndCommitMmr,
   MapWorkReportFromEg, NewItem, AddItem2BetaHPrime. Hash functions are Section variables (B = Blake2b-256 for the
   header hash, K = Keccak-256 for the accumulation-output commitment). *)
From JamV Require Import Base.Bytes Model.StfLists.
Local Open Scope N_scope.

Record rpkg := { rp_hash : bytes; rp_exports : bytes }.                 (* reported work package *)
Record entry := { e_hh : bytes; e_beefy : bytes; e_sroot : bytes; e_reported : list rpkg }.
Definition mmr := list (option bytes).                                  (* peaks, None = empty position *)
Record beta := { b_hist : list entry; b_mmr : mmr }.
Definition accout := (N * bytes)%type.                                  (* (service id, accumulation output hash) *)
(* the part of a block this transition reads *)
Record hblock := { hb_header : bytes;          (* E(H): the encoded header *)
                   hb_parent_sroot : bytes;    (* H_r *)
                   hb_guar : list rpkg;        (* ((g_w)s)h, ((g_w)s)e for g in E_G, extrinsic order *)
                   hb_accout : list accout }.  (* theta' *)

Definition zero32 : bytes := zeros 32.
Definition node_prefix : bytes := [110; 111; 100; 101].                 (* "node" *)
Definition peak_prefix : bytes := [112; 101; 97; 107].                  (* "peak" *)

Definition with_sroot (e : entry) (r : bytes) : entry :=
  {| e_hh := e_hh e; e_beefy := e_beefy e; e_sroot := r; e_reported := e_reported e |}.

(* History2HistoryDagger: history[len-1].StateRoot = parent state root *)
Fixpoint set_last_sroot (r : bytes) (h : list entry) : list entry :=
  match h with
  | [] => []
  | e :: t => match t with [] => [with_sroot e r] | _ => e :: set_last_sroot r t end
  end.

(* AddItem2BetaHPrime: n < H -> copy and append; else make(H), copy(dst, dagger[1:]) (copies min(H, n-1)), dst[H-1] = item *)
Definition add_item (H : nat) (h : list entry) (it : entry) : list entry :=
  if Nat.ltb (length h) H then h ++ [it] else firstn (H - 1) (tl h) ++ [it].

(* s = [ E_4(s) ++ E(h) | (s,h) <- theta' ] *)
Definition ser_accout (o : accout) : bytes := le_enc 4 (fst o) ++ snd o.

Section Hashes.
  Variable B : bytes -> bytes.
  Variable K : bytes -> bytes.

  (* E.1 node function N with explicit fuel (None = out of fuel; Proofs/RecentHistoryP.v: S (length v) suffices) *)
  Fixpoint mnode (fuel : nat) (v : list bytes) : option bytes :=
    match fuel with
    | O => None
    | S f =>
      match v with
      | [] => Some zero32
      | x :: t =>
        match t with
        | [] => Some x
        | _ => let mid := Nat.div2 (S (length v)) in
               match mnode f (firstn mid v), mnode f (skipn mid v) with
               | Some a, Some b => Some (K (node_prefix ++ a ++ b))
               | _, _ => None
               end
        end
      end
    end.

  (* M_B(s, H_K): well-balanced tree root of the serialised outputs *)
  Definition acc_root_opt (outs : list accout) : option bytes :=
    let v := map ser_accout outs in
    match v with
    | [x] => Some (K x)
    | _ => mnode (S (length v)) v
    end.
  Definition acc_root_k (outs : list accout) : bytes :=
    match acc_root_opt outs with Some r => r | None => [] end.

  (* E.2 append A (mmr.AppendOne / P) *)
  Fixpoint mmr_append (peaks : mmr) (l : bytes) : mmr :=
    match peaks with
    | [] => [Some l]
    | None :: t => Some l :: t
    | Some p :: t => None :: mmr_append t (K (p ++ l))
    end.

  (* E.10 super-peak M_R *)
  Definition peaks_present (peaks : mmr) : list bytes :=
    flat_map (fun o => match o with Some h => [h] | None => [] end) peaks.
  Definition super_peak (peaks : mmr) : bytes :=
    match peaks_present peaks with
    | [] => zero32
    | h0 :: t => fold_left (fun acc x => K (peak_prefix ++ acc ++ x)) t h0
    end.

  (* the accumulation-output root function is a parameter of the transition (C18 owns its theory);
     the driver instantiates it with acc_root_k *)
  Variable accroot : list accout -> bytes.

  Definition new_mmr (b : beta) (blk : hblock) : mmr := mmr_append (b_mmr b) (accroot (hb_accout blk)).

  Definition new_entry (b : beta) (blk : hblock) : entry :=
    {| e_hh := B (hb_header blk);
       e_beefy := super_peak (new_mmr b blk);
       e_sroot := zero32;
       e_reported := sort_by rp_hash (hb_guar blk) |}.

  Definition rh_step (H : nat) (b : beta) (blk : hblock) : beta :=
    {| b_hist := add_item H (set_last_sroot (hb_parent_sroot blk) (b_hist b)) (new_entry b blk);
       b_mmr := new_mmr b blk |}.

  Definition rh_run (H : nat) (b0 : beta) (blks : list hblock) : beta := fold_left (rh_step H) blks b0.
End Hashes.
