(* C23 — Safrole ticket accumulator and slot-sealer sequence: executable model only (no proofs).
   Follows internal/safrole: extrinsic_tickets.go (VerifyEpochTail, VerifyTicketsAttempt, VerifyTicketsProof,
   VerifyTicketsOrder, VerifyTicketsDuplicate, GetPreviousTicketsAccumulator, CreateNewTicketAccumulator),
   slot_key_sequence.go (OutsideInSequencer, FallbackKeySequence), sealing.go (UpdateSlotKeySequence, UpdateEntropy,
   UpdateEtaPrime0), safrole.go (KeyRotate without offenders, OuterUsedSafrole: order of the steps). *)
From JamV Require Import Base.Bytes.
Local Open Scope N_scope.

(* ---- protocol constants (types.SetTinyMode / SetFullMode) ---- *)
Record params := mkParams {
  pE : nat;   (* E  epoch length in slots *)
  pY : N;     (* Y  slot index at which ticket submission ends *)
  pN : N;     (* N  ticket entries (attempts) per validator *)
  pK : nat;   (* largest extrinsic the Safrole step admits before Y (the Go code uses ValidatorsCount here) *)
  pV : N      (* V  validator count *)
}.

Definition epoch_of (P : params) (t : N) : N := t / N.of_nat (pE P).
Definition slot_of (P : params) (t : N) : N := t mod N.of_nat (pE P).

(* ---- tickets ---- *)
Record ticket := mkT { tid : bytes; tatt : N }.
(* a ticket envelope of the extrinsic: the ring-VRF output (identifier), the attempt, and whether the proof verifies *)
Record envelope := mkEnv { eid : bytes; eatt : N; evalid : bool }.

Definition body (e : envelope) : ticket := mkT (eid e) (eatt e).

Inductive verdict := Accept | RejSlot | RejTail | RejAttempt | RejProof | RejOrder | RejDup.

(* adjacent-pair scan, as the Go loops `for i := 1; i < len; i++` over tickets[i-1], tickets[i] *)
Fixpoint adj_ok (ok : bytes -> bytes -> bool) (l : list ticket) : bool :=
  match l with
  | a :: t => match t with
              | b :: _ => ok (tid a) (tid b) && adj_ok ok t
              | [] => true
              end
  | [] => true
  end.
(* VerifyTicketsOrder: error iff Compare(prev, next) > 0 *)
Definition order_ok (l : list ticket) : bool := adj_ok bytes_leb l.
(* VerifyTicketsDuplicate: error iff prev = next *)
Definition nodup_adj (l : list ticket) : bool := adj_ok (fun a b => negb (bytes_eqb a b)) l.

(* sort by identifier (the observable result of sort.Slice with `<` on identifiers when no two are equal) *)
Fixpoint insert_t (t : ticket) (l : list ticket) : list ticket :=
  match l with
  | [] => [t]
  | h :: r => if bytes_ltb (tid t) (tid h) then t :: h :: r else h :: insert_t t r
  end.
Definition sort_tickets (l : list ticket) : list ticket := fold_right insert_t [] l.

(* VerifyEpochTail (GP 6.30) *)
Definition window_ok (P : params) (tau' : N) (ext : list envelope) : bool :=
  if slot_of P tau' <? pY P then Nat.leb (length ext) (pK P)
  else match ext with [] => true | _ => false end.
Definition attempts_ok (P : params) (ext : list envelope) : bool := forallb (fun e => eatt e <? pN P) ext.
Definition proofs_ok (ext : list envelope) : bool := forallb evalid ext.

(* GetPreviousTicketsAccumulator (GP 6.34): the accumulator is reset at an epoch change *)
Definition carried (P : params) (tau tau' : N) (ga : list ticket) : list ticket :=
  if epoch_of P tau <? epoch_of P tau' then [] else ga.

(* CreateNewTicketAccumulator: checks in the order of the Go code; on acceptance the posterior accumulator *)
Definition acc_step (P : params) (tau tau' : N) (ga : list ticket) (ext : list envelope) : verdict * list ticket :=
  if negb (window_ok P tau' ext) then (RejTail, ga)
  else if negb (attempts_ok P ext) then (RejAttempt, ga)
  else if negb (proofs_ok ext) then (RejProof, ga)
  else
    let news := map body ext in
    if negb (order_ok news) then (RejOrder, ga)
    else if negb (nodup_adj news) then (RejDup, ga)
    else
      let merged := sort_tickets (news ++ carried P tau tau' ga) in
      if negb (nodup_adj merged) then (RejDup, ga)
      else (Accept, firstn (pE P) merged).

(* ---- outside-in sequencer Z (GP 6.25), index form of the Go two-pointer loop:
        even i takes a[left], left = i/2; odd i takes a[right], right = E-1-i/2 ---- *)
Definition oi_index (E i : nat) : nat := if Nat.even i then Nat.div i 2 else (E - 1 - Nat.div i 2)%nat.
Definition outside_in {A : Type} (E : nat) (a : list A) : list A :=
  match a with
  | [] => []
  | d :: _ => map (fun i => nth (oi_index E i) a d) (seq 0 E)
  end.

(* ---- sealer sequence ---- *)
Inductive sealer := STickets (l : list ticket) | SKeys (l : list bytes).

Section WithHash.
Variable H : bytes -> bytes.    (* Blake2b-256 *)

(* fallback key sequence F (GP 6.26): keys[i] = validators[ E4^-1 (H(eta ++ E4(i))[0..4)) mod V ].bandersnatch *)
Definition fallback_index (P : params) (eta : bytes) (i : nat) : nat :=
  N.to_nat (le_dec (firstn 4 (H (eta ++ le_enc 4 (N.of_nat i)))) mod pV P).
Definition fallback (P : params) (eta : bytes) (keys : list bytes) : list bytes :=
  map (fun i => nth (fallback_index P eta i) keys []) (seq 0 (pE P)).

(* UpdateSlotKeySequence (GP 6.24); m is the slot index of the PRIOR timeslot as passed by OuterUsedSafrole *)
Definition next_sealer (P : params) (tau tau' : N) (ga : list ticket) (gs : sealer) (eta2' : bytes) (kappa' : list bytes) : sealer :=
  let e := epoch_of P tau in
  let e' := epoch_of P tau' in
  if (e' =? e + 1) && Nat.eqb (length ga) (pE P) && (pY P <=? slot_of P tau) then STickets (outside_in (pE P) ga)
  else if e' =? e then gs
  else SKeys (fallback P eta2' kappa').

(* ---- the Safrole state this property speaks about ---- *)
Record state := mkState {
  s_tau : N;
  s_eta0 : bytes; s_eta1 : bytes; s_eta2 : bytes; s_eta3 : bytes;
  s_ga : list ticket;
  s_gs : sealer;
  s_gk : list bytes;      (* gamma_k  bandersnatch keys of the next epoch's validators *)
  s_kappa : list bytes;   (* kappa    current validators *)
  s_lambda : list bytes;  (* lambda   previous validators *)
  s_iota : list bytes     (* iota     staging set *)
}.

Record block := mkBlock {
  b_slot : N;                      (* H_t *)
  b_vrf : bytes;                   (* Y(H_v): output of the header's entropy VRF signature *)
  b_ext : list envelope;           (* E_T *)
  b_iota : option (list bytes)     (* staging set seen by this block if it was changed since the last one (outside this model) *)
}.

Definition set_iota (s : state) (o : option (list bytes)) : state :=
  match o with
  | None => s
  | Some i => mkState (s_tau s) (s_eta0 s) (s_eta1 s) (s_eta2 s) (s_eta3 s) (s_ga s) (s_gs s) (s_gk s) (s_kappa s) (s_lambda s) i
  end.

(* OuterUsedSafrole: slot check, entropy rotation, key rotation, sealer sequence, eta0', ticket accumulator.
   A rejected block leaves the state unchanged (the staging-set change, which is not part of the block, stays). *)
Definition step (P : params) (s0 : state) (b : block) : verdict * state :=
  let s := set_iota s0 (b_iota b) in
  let tau := s_tau s in
  let tau' := b_slot b in
  if tau' <=? tau then (RejSlot, s)
  else
    let newep := epoch_of P tau <? epoch_of P tau' in
    let eta0' := H (s_eta0 s ++ b_vrf b) in
    let eta1' := if newep then s_eta0 s else s_eta1 s in
    let eta2' := if newep then s_eta1 s else s_eta2 s in
    let eta3' := if newep then s_eta2 s else s_eta3 s in
    let gk' := if newep then s_iota s else s_gk s in
    let kappa' := if newep then s_gk s else s_kappa s in
    let lambda' := if newep then s_kappa s else s_lambda s in
    let gs' := next_sealer P tau tau' (s_ga s) (s_gs s) eta2' kappa' in
    match acc_step P tau tau' (s_ga s) (b_ext b) with
    | (Accept, ga') => (Accept, mkState tau' eta0' eta1' eta2' eta3' ga' gs' gk' kappa' lambda' (s_iota s))
    | (v, _) => (v, s)
    end.

Fixpoint run (P : params) (s : state) (bs : list block) : state :=
  match bs with
  | [] => s
  | b :: r => run P (snd (step P s b)) r
  end.

End WithHash.

Definition tiny_params : params := mkParams 12 10 3 6 6.
Definition full_params : params := mkParams 600 500 2 1023 1023.
