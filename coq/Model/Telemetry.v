(* C28 — telemetry stream alignment: executable model of the emitter / writer / reconnect protocol of
   /repo/internal/telemetry (tcp.go, writer.go, sequencer.go, dropranges.go) as a transition system,
   and the executable receiver oracle [accepts].  Definitions only; proofs are in Proofs/TelemetryP.v.

   Event id = (epoch, seq)  (Go: uint64 = epoch<<48 | seq; only seq is ever on the wire).
   One [action] = one atomic region of the Go code (a sequencer-lock critical section, one channel
   operation, one frame write, one flag store); an interleaving of emitters, the writer goroutine,
   connectLoop and Close is a list of actions.  An action whose guard is false is a stutter.
   Guards are never stronger than the Go code's (several Go checks of closedFlag are dropped: the
   model then has more behaviours than the program, which only strengthens "for every action list"). *)
From Coq Require Import List NArith Bool.
Import ListNotations.
Local Open Scope N_scope.

Definition eid := (N * N)%type.                       (* (epoch, seq) *)

(* queue element (Go: envelope).  e_par = the parent seq that a follow-up payload starts with *)
Record env := mkenv { e_tag : N; e_ep : N; e_seq : N; e_par : option N }.

(* what a receiver sees on one connection *)
Inductive frame :=
| FNode                                               (* node-information frame *)
| FEvent (tag : N) (par : option N)                   (* event; tag identifies the emit call (payload) *)
| FDropped (count : N).                               (* dropped-events record (discriminator 0) *)

(* what one emit call returned: r_id = None is InvalidID; r_parent = the parent id passed to a follow-up *)
Record emitrec := mkrec { r_tag : N; r_id : option eid; r_parent : option eid }.

(* where connectLoop is *)
Inductive phase :=
| Idle        (* no connection (before dial / in back-off) *)
| Connected   (* dialled, node information written, enabledFlag not yet stored *)
| Running     (* writeLoop runs *)
| Lost1       (* writeLoop returned, enabledFlag still as it was *)
| Lost2       (* enabledFlag=false stored, connection closed *)
| Lost3.      (* bumpEpoch done, drop state / queue not yet reset *)

(* cap: channel capacity. epoch,nxt: sequencer. queue,drops: c.queue, c.drops.ranges (first seq, count).
   expected,pending,claimed: locals of writeLoop / flushReadyDrops (claimed = range popped, not yet written).
   wire: complete frames written to the current connection; past: earlier connections (ghost, = what
   the peer observed).  results: log of emit calls in lock order (ghost, = what emitters observed).
   panicked: dropState.record would have panicked inside an emitter. *)
Record st := mkst {
  cap : nat;
  epoch : N;
  nxt : N;
  queue : list env;
  drops : list (N * N);
  enabled : bool;
  closed : bool;
  ph : phase;
  expected : N;
  pending : option env;
  claimed : option (N * N);
  wire : list frame;
  past : list (list frame);
  results : list emitrec;
  panicked : bool }.

Definition set_epoch (s : st) (v : N) : st :=
  {| cap := cap s; epoch := v; nxt := nxt s; queue := queue s; drops := drops s; enabled := enabled s; closed := closed s; ph := ph s; expected := expected s; pending := pending s; claimed := claimed s; wire := wire s; past := past s; results := results s; panicked := panicked s |}.
Definition set_nxt (s : st) (v : N) : st :=
  {| cap := cap s; epoch := epoch s; nxt := v; queue := queue s; drops := drops s; enabled := enabled s; closed := closed s; ph := ph s; expected := expected s; pending := pending s; claimed := claimed s; wire := wire s; past := past s; results := results s; panicked := panicked s |}.
Definition set_queue (s : st) (v : list env) : st :=
  {| cap := cap s; epoch := epoch s; nxt := nxt s; queue := v; drops := drops s; enabled := enabled s; closed := closed s; ph := ph s; expected := expected s; pending := pending s; claimed := claimed s; wire := wire s; past := past s; results := results s; panicked := panicked s |}.
Definition set_drops (s : st) (v : list (N * N)) : st :=
  {| cap := cap s; epoch := epoch s; nxt := nxt s; queue := queue s; drops := v; enabled := enabled s; closed := closed s; ph := ph s; expected := expected s; pending := pending s; claimed := claimed s; wire := wire s; past := past s; results := results s; panicked := panicked s |}.
Definition set_enabled (s : st) (v : bool) : st :=
  {| cap := cap s; epoch := epoch s; nxt := nxt s; queue := queue s; drops := drops s; enabled := v; closed := closed s; ph := ph s; expected := expected s; pending := pending s; claimed := claimed s; wire := wire s; past := past s; results := results s; panicked := panicked s |}.
Definition set_closed (s : st) (v : bool) : st :=
  {| cap := cap s; epoch := epoch s; nxt := nxt s; queue := queue s; drops := drops s; enabled := enabled s; closed := v; ph := ph s; expected := expected s; pending := pending s; claimed := claimed s; wire := wire s; past := past s; results := results s; panicked := panicked s |}.
Definition set_ph (s : st) (v : phase) : st :=
  {| cap := cap s; epoch := epoch s; nxt := nxt s; queue := queue s; drops := drops s; enabled := enabled s; closed := closed s; ph := v; expected := expected s; pending := pending s; claimed := claimed s; wire := wire s; past := past s; results := results s; panicked := panicked s |}.
Definition set_expected (s : st) (v : N) : st :=
  {| cap := cap s; epoch := epoch s; nxt := nxt s; queue := queue s; drops := drops s; enabled := enabled s; closed := closed s; ph := ph s; expected := v; pending := pending s; claimed := claimed s; wire := wire s; past := past s; results := results s; panicked := panicked s |}.
Definition set_pending (s : st) (v : option env) : st :=
  {| cap := cap s; epoch := epoch s; nxt := nxt s; queue := queue s; drops := drops s; enabled := enabled s; closed := closed s; ph := ph s; expected := expected s; pending := v; claimed := claimed s; wire := wire s; past := past s; results := results s; panicked := panicked s |}.
Definition set_claimed (s : st) (v : option (N * N)) : st :=
  {| cap := cap s; epoch := epoch s; nxt := nxt s; queue := queue s; drops := drops s; enabled := enabled s; closed := closed s; ph := ph s; expected := expected s; pending := pending s; claimed := v; wire := wire s; past := past s; results := results s; panicked := panicked s |}.
Definition set_wire (s : st) (v : list frame) : st :=
  {| cap := cap s; epoch := epoch s; nxt := nxt s; queue := queue s; drops := drops s; enabled := enabled s; closed := closed s; ph := ph s; expected := expected s; pending := pending s; claimed := claimed s; wire := v; past := past s; results := results s; panicked := panicked s |}.
Definition set_past (s : st) (v : list (list frame)) : st :=
  {| cap := cap s; epoch := epoch s; nxt := nxt s; queue := queue s; drops := drops s; enabled := enabled s; closed := closed s; ph := ph s; expected := expected s; pending := pending s; claimed := claimed s; wire := wire s; past := v; results := results s; panicked := panicked s |}.
Definition set_results (s : st) (v : list emitrec) : st :=
  {| cap := cap s; epoch := epoch s; nxt := nxt s; queue := queue s; drops := drops s; enabled := enabled s; closed := closed s; ph := ph s; expected := expected s; pending := pending s; claimed := claimed s; wire := wire s; past := past s; results := v; panicked := panicked s |}.
Definition set_panicked (s : st) (v : bool) : st :=
  {| cap := cap s; epoch := epoch s; nxt := nxt s; queue := queue s; drops := drops s; enabled := enabled s; closed := closed s; ph := ph s; expected := expected s; pending := pending s; claimed := claimed s; wire := wire s; past := past s; results := results s; panicked := v |}.

Definition init (c : nat) : st :=
  {| cap := c; epoch := 1; nxt := 0; queue := []; drops := []; enabled := false; closed := false;
     ph := Idle; expected := 0; pending := None; claimed := None; wire := []; past := [];
     results := []; panicked := false |}.

(* dropState.record: coalesce with the tail range when contiguous, else append *)
Fixpoint record (d : list (N * N)) (id : N) : list (N * N) :=
  match d with
  | [] => [(id, 1)]
  | (f, c) :: r =>
    match r with
    | [] => if id =? f + c then [(f, c + 1)] else [(f, c); (id, 1)]
    | _ :: _ => (f, c) :: record r id
    end
  end.

(* the invariant check in record: false = Go panics ("id < nextValidID") *)
Fixpoint record_ok (d : list (N * N)) (id : N) : bool :=
  match d with
  | [] => true
  | (f, c) :: r => match r with [] => f + c <=? id | _ :: _ => record_ok r id end
  end.

Inductive action :=
| AEmit                                 (* Emit / EmitLazy: the whole sequencer-lock region *)
| AEmitFollowup (parent : option eid)   (* EmitFollowup(Lazy) with any parent id; None = InvalidID *)
| ADial (nodeinfo_ok : bool)            (* dial ok, writeNodeInfo ok / failed *)
| AEnable                               (* enabledFlag.Store(true); writeLoop starts with expectedWireID=0 *)
| AWClaim                               (* flushReadyDrops: peekFirst + popFirst under the lock *)
| AWWriteDropped                        (* writeDropped of the claimed range *)
| AWDequeue                             (* env := <-c.queue *)
| AWWriteEvent                          (* writeEvent(pending) when its seq = expectedWireID *)
| AConnLoss                             (* writeLoop returns (write error, peer closed, alignment error, clean close, panic) *)
| ADisable                              (* enabledFlag.Store(false) + conn.Close *)
| ABump                                 (* sequencer.bumpEpoch *)
| AResetDrain                           (* Lock; drops.reset; drainQueueLocked; Unlock *)
| AClose.                               (* Close(): closedFlag=true, enabledFlag=false  (also: degradedFlag after a writer panic) *)

Definition next_tag (s : st) : N := N.of_nat (length (results s)).

(* the call returns InvalidID *)
Definition reject (s : st) (par : option eid) : st :=
  set_results s (results s ++ [mkrec (next_tag s) None par]).

(* Lock; Enabled? ; nextID ; try-send or drops.record ; Unlock *)
Definition emit_core (s : st) (par : option eid) (parseq : option N) : st :=
  if enabled s && negb (closed s) then
    let e := mkenv (next_tag s) (epoch s) (nxt s) parseq in
    let s1 := if Nat.ltb (length (queue s)) (cap s) then set_queue s (queue s ++ [e])
              else set_panicked (set_drops s (record (drops s) (nxt s)))
                                (panicked s || negb (record_ok (drops s) (nxt s))) in
    set_nxt (set_results s1 (results s ++ [mkrec (next_tag s) (Some (epoch s, nxt s)) par])) (nxt s + 1)
  else reject s par.

Definition step (s : st) (a : action) : st :=
  match a with
  | AEmit => emit_core s None None
  | AEmitFollowup None => reject s None
  | AEmitFollowup (Some (pe, ps)) =>
    if pe =? epoch s then emit_core s (Some (pe, ps)) (Some ps) else reject s (Some (pe, ps))
  | ADial ok =>
    match ph s with
    | Idle => if ok then set_ph (set_wire s [FNode]) Connected else set_past s (past s ++ [[]])
    | _ => s
    end
  | AEnable =>
    match ph s with
    | Connected => set_ph (set_enabled (set_claimed (set_pending (set_expected s 0) None) None) true) Running
    | _ => s
    end
  | AWClaim =>
    match ph s, claimed s, drops s with
    | Running, None, (f, c) :: r => if f =? expected s then set_claimed (set_drops s r) (Some (f, c)) else s
    | _, _, _ => s
    end
  | AWWriteDropped =>
    match ph s, claimed s with
    | Running, Some (f, c) =>
      set_claimed (set_expected (set_wire s (wire s ++ [FDropped c])) (expected s + c)) None
    | _, _ => s
    end
  | AWDequeue =>
    match ph s, pending s, queue s with
    | Running, None, e :: q => set_pending (set_queue s q) (Some e)
    | _, _, _ => s
    end
  | AWWriteEvent =>
    match ph s, claimed s, pending s with
    | Running, None, Some e =>
      if e_seq e =? expected s
      then set_pending (set_expected (set_wire s (wire s ++ [FEvent (e_tag e) (e_par e)])) (expected s + 1)) None
      else s
    | _, _, _ => s
    end
  | AConnLoss => match ph s with Running => set_ph s Lost1 | _ => s end
  | ADisable => match ph s with Lost1 => set_ph (set_enabled s false) Lost2 | _ => s end
  | ABump =>
    match ph s with
    | Lost2 => set_ph (set_wire (set_past (set_nxt (set_epoch s (epoch s + 1)) 0) (past s ++ [wire s])) []) Lost3
    | _ => s
    end
  | AResetDrain =>
    match ph s with
    | Lost3 => set_ph (set_queue (set_drops s []) []) Idle
    | _ => s
    end
  | AClose => set_enabled (set_closed s true) false
  end.

Definition run (acts : list action) (s : st) : st := fold_left step acts s.

Definition is_emit (a : action) : bool :=
  match a with AEmit | AEmitFollowup _ => true | _ => false end.

(* every connection the peer saw, oldest first *)
Definition all_wires (s : st) : list (list frame) := past s ++ [wire s].

(* ---------------------------------------------------------------------------------------------
   Receiver oracle.  A receiver numbers the events of one connection from 0, advancing by the count
   of each dropped-events record; [accepts] checks that every delivered event gets exactly the id
   its emitter received, that each connection starts with the node-information frame, that a
   follow-up's parent is from the same connection, and that ids handed out are pairwise distinct
   (strictly increasing in the order of [res]). *)

Definition lookup (tag : N) (res : list emitrec) : option emitrec :=
  find (fun r => r_tag r =? tag) res.

Definition par_ok (wirepar : option N) (rp : option eid) (e : N) : bool :=
  match wirepar, rp with
  | None, None => true
  | Some ps, Some (pe, ps') => (pe =? e) && (ps =? ps')
  | _, _ => false
  end.

Fixpoint accepts_frames (res : list emitrec) (e ctr : N) (fs : list frame) : bool :=
  match fs with
  | [] => true
  | FNode :: _ => false
  | FDropped n :: r => accepts_frames res e (ctr + n) r
  | FEvent tag par :: r =>
    match lookup tag res with
    | Some rc =>
      match r_id rc with
      | Some (ie, iq) =>
        (ie =? e) && (iq =? ctr) && par_ok par (r_parent rc) e && accepts_frames res e (ctr + 1) r
      | None => false
      end
    | None => false
    end
  end.

Definition is_node (f : frame) : bool := match f with FNode => true | _ => false end.

(* a connection on which not even the node-information frame got through is an empty stream and does
   not consume an epoch; the k-th established connection carries epoch k *)
Fixpoint accepts_conns (res : list emitrec) (e : N) (conns : list (list frame)) : bool :=
  match conns with
  | [] => true
  | [] :: r => accepts_conns res e r
  | (f :: w) :: r => is_node f && accepts_frames res e 0 w && accepts_conns res (e + 1) r
  end.

Definition followups_ok (res : list emitrec) : bool :=
  forallb (fun r => match r_id r, r_parent r with
                    | Some (e, _), Some (pe, _) => pe =? e
                    | _, _ => true
                    end) res.

Definition eid_ltb (a b : eid) : bool :=
  (fst a <? fst b) || ((fst a =? fst b) && (snd a <? snd b)).

(* ids strictly increasing along the list (None entries skipped); [last] = greatest id so far *)
Fixpoint ids_inc (last : option eid) (res : list emitrec) : bool :=
  match res with
  | [] => true
  | r :: t =>
    match r_id r with
    | None => ids_inc last t
    | Some i => match last with None => true | Some l => eid_ltb l i end && ids_inc (Some i) t
    end
  end.

Definition accepts (conns : list (list frame)) (res : list emitrec) : bool :=
  accepts_conns res 1 conns && followups_ok res && ids_inc None res.

(* the numbering a receiver derives: (tag, parent seq on the wire, assigned seq) *)
Fixpoint receive (ctr : N) (fs : list frame) : list (N * option N * N) :=
  match fs with
  | [] => []
  | FNode :: r => receive ctr r
  | FDropped n :: r => receive (ctr + n) r
  | FEvent t p :: r => (t, p, ctr) :: receive (ctr + 1) r
  end.

(* epoch of the connection that follows [conns] when the first one has epoch e *)
Fixpoint conns_epoch (e : N) (conns : list (list frame)) : N :=
  match conns with
  | [] => e
  | [] :: r => conns_epoch e r
  | (_ :: _) :: r => conns_epoch (e + 1) r
  end.
