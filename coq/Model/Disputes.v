(* C35 — dispute records (GP 10). Executable model only.
   M follows extrinsic.Disputes(): VerdictWrapper.VerifySignature, CheckSortUnique, SetDisjoint,
   GenerateVerdictSumSequence, ValidateCulprits / ValidateFaults, culprit / fault CheckSortUnique, ClearWorkReports,
   UpdatePsiGBW (CompareVerdictsWithPsi), VerifyCulpritValidity, VerifyFaultValidity, UpdatePsiO, HeaderOffenders.
   Signature validity enters as data (bits); report hashes and Ed25519 keys are byte strings ordered lexicographically.
   The good / bad / wonky update is "append the new reports, then sort" (the repaired Go code; the original append-only
   update is psi_update_unsorted below, kept to exhibit the defect). *)
From JamV Require Import Base.Bytes Model.StfLists.
Local Open Scope N_scope.

Record vote := { j_vote : bool; j_index : N;
                 j_ok_k : bool;      (* the signature verifies under kappa[index] for this vote and target *)
                 j_ok_l : bool }.    (* ... under lambda[index] *)
Record verdict := { v_target : bytes; v_age : N; v_votes : list vote }.
Record culprit := { c_target : bytes; c_key : bytes; c_ok : bool }.
Record fault := { f_target : bytes; f_vote : bool; f_key : bytes; f_ok : bool }.
Record dext := { d_verdicts : list verdict; d_culprits : list culprit; d_faults : list fault }.

Record dstate := { psi_g : list bytes; psi_b : list bytes; psi_w : list bytes; psi_o : list bytes;
                   rho : list (option bytes) }.     (* rho: hash of the report pending on each core *)
Record denv := { dV : N;                  (* validator count V *)
                 d_epoch : N;             (* floor(tau / E) of the prior state *)
                 d_kappa : list bytes;    (* Ed25519 keys of the current validator set *)
                 d_lambda : list bytes }. (* ... of the previous set *)

Inductive vclass := Good | Bad | Wonky.

(* CompareVerdictsWithPsi: the switch on the positive-vote count, in the order of the Go cases *)
Definition classify (V n : N) : option vclass :=
  if n =? 2 * V / 3 + 1 then Some Good
  else if n =? 0 then Some Bad
  else if n =? V / 3 then Some Wonky
  else None.

Definition positives (v : verdict) : N := N.of_nat (length (filter j_vote (v_votes v))).
Definition vclass_eqb (a b : vclass) : bool :=
  match a, b with Good, Good | Bad, Bad | Wonky, Wonky => true | _, _ => false end.
Definition has_class (V : N) (c : vclass) (v : verdict) : bool :=
  match classify V (positives v) with Some c' => vclass_eqb c c' | None => false end.
Definition targets_of (V : N) (c : vclass) (vs : list verdict) : list bytes :=
  map v_target (filter (has_class V c) vs).

(* --- VerifySignature (10.3): age in {a, a-1}; every index in range; every signature valid under the chosen set --- *)
Definition age_current (e : denv) (v : verdict) : bool := v_age v =? d_epoch e.
Definition age_ok (e : denv) (v : verdict) : bool :=
  age_current e v || (negb (d_epoch e =? 0) && (v_age v =? d_epoch e - 1)).
Definition vote_ok (e : denv) (v : verdict) (j : vote) : bool :=
  if age_current e v then (j_index j <? N.of_nat (length (d_kappa e))) && j_ok_k j
  else (j_index j <? N.of_nat (length (d_lambda e))) && j_ok_l j.
Definition verdict_sigs_ok (e : denv) (v : verdict) : bool := age_ok e v && forallb (vote_ok e v) (v_votes v).

(* --- CheckSortUnique: strictly increasing targets / indices / keys --- *)
Fixpoint strictly_incN (l : list N) : bool :=
  match l with
  | [] => true
  | x :: t => match t with [] => true | y :: _ => (x <? y) && strictly_incN t end
  end.
Definition verdicts_sorted (vs : list verdict) : bool :=
  strictly_sortedb (map v_target vs) && forallb (fun v => strictly_incN (map j_index (v_votes v))) vs.

(* --- SetDisjoint (10.9) --- *)
Definition not_judged (s : dstate) (vs : list verdict) : bool :=
  forallb (fun v => negb (mem_bytes (v_target v) (psi_g s ++ psi_b s ++ psi_w s))) vs.

(* --- ValidateCulprits (10.14) / ValidateFaults (10.13) --- *)
Definition count_target {A} (tg : A -> bytes) (t : bytes) (l : list A) : nat :=
  length (filter (fun x => bytes_eqb (tg x) t) l).
Definition enough_culprits (vs : list verdict) (cs : list culprit) : bool :=
  forallb (fun v => negb (positives v =? 0) || Nat.leb 2 (count_target c_target (v_target v) cs)) vs.
Definition enough_faults (V : N) (vs : list verdict) (fs : list fault) : bool :=
  forallb (fun v => negb (positives v =? 2 * V / 3 + 1) || Nat.leb 1 (count_target f_target (v_target v) fs)) vs.

(* --- ClearWorkReports (10.15): Go clears when the positive count is below floor(2V/3) --- *)
Definition cleared_targets (V : N) (vs : list verdict) : list bytes :=
  map v_target (filter (fun v => positives v <? 2 * V / 3) vs).
Definition clear_rho (cl : list bytes) (r : list (option bytes)) : list (option bytes) :=
  map (fun o => match o with Some h => if mem_bytes h cl then None else Some h | None => None end) r.

(* --- UpdatePsiG/B/W (10.16-18) --- *)
Fixpoint add_new (acc : list bytes) (items : list bytes) : list bytes :=   (* updateListAndMap: append unseen items *)
  match items with
  | [] => acc
  | x :: t => if mem_bytes x acc then add_new acc t else add_new (acc ++ [x]) t
  end.
Definition psi_update_unsorted (prior new : list bytes) : list bytes := add_new prior new.
Definition psi_update (prior new : list bytes) : list bytes := sort_by (fun x => x) (add_new prior new).

(* --- VerifyCulpritValidity (10.5) / VerifyFaultValidity (10.6), as coded --- *)
Definition culprits_valid (e : denv) (s : dstate) (bad' : list bytes) (cs : list culprit) : bool :=
  forallb (fun c => mem_bytes (c_target c) bad'
                    && mem_bytes (c_key c) (d_kappa e ++ d_lambda e)
                    && c_ok c
                    && negb (mem_bytes (c_key c) (psi_o s))) cs.
Definition faults_valid (e : denv) (s : dstate) (good' bad' : list bytes) (fs : list fault) : bool :=
  forallb (fun f => let ing := mem_bytes (f_target f) good' && negb (mem_bytes (f_target f) bad') in
                    let inb := negb (mem_bytes (f_target f) good') && mem_bytes (f_target f) bad' in
                    negb ((f_vote f && ing) || (negb (f_vote f) && inb))
                    && mem_bytes (f_key f) (d_kappa e ++ d_lambda e)
                    && f_ok f
                    && negb (mem_bytes (f_key f) (psi_o s))) fs.

(* --- UpdatePsiO (10.19): prior offenders plus the new keys, sorted --- *)
Definition offender_keys (ext : dext) : list bytes := map c_key (d_culprits ext) ++ map f_key (d_faults ext).
Definition psi_o_update (prior : list bytes) (keys : list bytes) : list bytes :=
  sort_by (fun x => x) (add_new prior keys).

Definition all_classified (V : N) (vs : list verdict) : bool :=
  forallb (fun v => match classify V (positives v) with Some _ => true | None => false end) vs.

(* the whole transition; None = the extrinsic is rejected; Some (posterior, offenders mark) *)
Definition disputes_step (e : denv) (s : dstate) (ext : dext) : option (dstate * list bytes) :=
  let vs := d_verdicts ext in
  let V := dV e in
  if negb (forallb (verdict_sigs_ok e) vs) then None
  else if negb (verdicts_sorted vs) then None
  else if negb (not_judged s vs) then None
  else if negb (enough_culprits vs (d_culprits ext)) then None
  else if negb (enough_faults V vs (d_faults ext)) then None
  else if negb (strictly_sortedb (map c_key (d_culprits ext))) then None
  else if negb (strictly_sortedb (map f_key (d_faults ext))) then None
  else if negb (all_classified V vs) then None
  else
    let g' := psi_update (psi_g s) (targets_of V Good vs) in
    let b' := psi_update (psi_b s) (targets_of V Bad vs) in
    let w' := psi_update (psi_w s) (targets_of V Wonky vs) in
    if negb (culprits_valid e s b' (d_culprits ext)) then None
    else if negb (faults_valid e s g' b' (d_faults ext)) then None
    else Some ({| psi_g := g'; psi_b := b'; psi_w := w';
                  psi_o := psi_o_update (psi_o s) (offender_keys ext);
                  rho := clear_rho (cleared_targets V vs) (rho s) |},
               offender_keys ext).

(* a block of a history: its environment, its disputes extrinsic, and the reports that become pending on empty
   cores afterwards (the rest of the block; arbitrary) *)
Record dblock := { db_env : denv; db_ext : dext; db_fill : list (nat * bytes) }.
Definition fill_rho (fill : list (nat * bytes)) (r : list (option bytes)) : list (option bytes) :=
  fold_left (fun acc cf => upd_nth (fst cf) (fun o => match o with None => Some (snd cf) | Some h => Some h end) acc) fill r.
Definition with_rho (s : dstate) (r : list (option bytes)) : dstate :=
  {| psi_g := psi_g s; psi_b := psi_b s; psi_w := psi_w s; psi_o := psi_o s; rho := r |}.
(* a rejected block leaves the state as it was *)
Definition dblock_step (s : dstate) (b : dblock) : dstate :=
  match disputes_step (db_env b) s (db_ext b) with
  | Some (s', _) => with_rho s' (fill_rho (db_fill b) (rho s'))
  | None => s
  end.
Definition disputes_run (s0 : dstate) (bs : list dblock) : dstate := fold_left dblock_step bs s0.
