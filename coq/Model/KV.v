(* C27 — key-value store model (executable Gallina only; proofs are in Proofs/KVP.v).

   S  : the store is a strictly ascending association list on byte strings with get/put/delete/has,
        write batches are buffered lists of writes applied in order on commit and dropped on close,
        iteration with (prefix, start) is the sub-list of bindings whose key has the prefix and is
        >= prefix ++ start, in the order of the store (ascending byte order).
   The machine runs whole histories; several batches may be alive at once, identified by creation index.
   The step function is generic in the store representation (Section Machine) so that the same batch
   logic drives the sorted list (the model that is extracted and compared with the Go providers), the
   abstract function map and the plain write log used by the refinement theorem. *)
From JamV Require Import Base.Bytes.
Local Open Scope N_scope.

(* a primitive write *)
Inductive wop := WPut (k v : bytes) | WDel (k : bytes).

(* operations of a history *)
Inductive kop :=
| Put (k v : bytes) | Del (k : bytes) | Get (k : bytes) | Has (k : bytes)
| NewBatch
| BPut (b : nat) (k v : bytes) | BDel (b : nat) (k : bytes) | BCommit (b : nat) | BClose (b : nat)
| Iter (prefix start : bytes).

(* results *)
Inductive kout :=
| OUnit                              (* write accepted / buffered / batch committed / batch closed *)
| OVal (v : option bytes)            (* Get *)
| OBool (b : bool)                   (* Has *)
| OBatch (b : nat)                   (* NewBatch: index of the new batch *)
| OList (l : list (bytes * bytes))   (* Iter: bindings in the order produced *)
| OBad.                              (* op addressed to a batch that does not exist or is finished *)

(* life cycle of a batch: buffering, committed (only Close is still allowed), closed *)
Inductive bstate := BNone | BLive (ws : list wop) | BDone | BClosed.

(* ---------------------------------------------------------------------------------------------- *)
(* sorted association list *)
Definition store := list (bytes * bytes).

Fixpoint s_get (s : store) (k : bytes) : option bytes :=
  match s with
  | [] => None
  | (k', v) :: t =>
      if bytes_ltb k k' then None
      else if bytes_eqb k k' then Some v
      else s_get t k
  end.

Fixpoint s_put (s : store) (k v : bytes) : store :=
  match s with
  | [] => [(k, v)]
  | (k', v') :: t =>
      if bytes_ltb k k' then (k, v) :: s
      else if bytes_eqb k k' then (k, v) :: t
      else (k', v') :: s_put t k v
  end.

Fixpoint s_del (s : store) (k : bytes) : store :=
  match s with
  | [] => []
  | (k', v') :: t =>
      if bytes_ltb k k' then s
      else if bytes_eqb k k' then t
      else (k', v') :: s_del t k
  end.

Definition s_has (s : store) (k : bytes) : bool :=
  match s_get s k with Some _ => true | None => false end.

Definition s_apply (s : store) (w : wop) : store :=
  match w with WPut k v => s_put s k v | WDel k => s_del s k end.

(* key k is selected by an iterator (prefix p, start st): p is a prefix of k and k >= p ++ st *)
Definition in_range (p st k : bytes) : bool := is_prefix p k && bytes_leb (p ++ st) k.

Definition s_iter (s : store) (p st : bytes) : list (bytes * bytes) :=
  filter (fun kv => in_range p st (fst kv)) s.

(* ---------------------------------------------------------------------------------------------- *)
(* the history machine, generic in the store *)
Definition upd (f : nat -> bstate) (b : nat) (x : bstate) : nat -> bstate :=
  fun i => if Nat.eqb i b then x else f i.

Section Machine.
  Variable St : Type.
  Variable apply : St -> wop -> St.

  Record mstate := MS { st_store : St ; st_bat : nat -> bstate ; st_nb : nat }.

  Definition m_step (s : mstate) (op : kop) : mstate :=
    match op with
    | Put k v => MS (apply (st_store s) (WPut k v)) (st_bat s) (st_nb s)
    | Del k => MS (apply (st_store s) (WDel k)) (st_bat s) (st_nb s)
    | Get _ | Has _ | Iter _ _ => s
    | NewBatch => MS (st_store s) (upd (st_bat s) (st_nb s) (BLive [])) (S (st_nb s))
    | BPut b k v =>
        match st_bat s b with
        | BLive ws => MS (st_store s) (upd (st_bat s) b (BLive (ws ++ [WPut k v]))) (st_nb s)
        | _ => s
        end
    | BDel b k =>
        match st_bat s b with
        | BLive ws => MS (st_store s) (upd (st_bat s) b (BLive (ws ++ [WDel k]))) (st_nb s)
        | _ => s
        end
    | BCommit b =>
        match st_bat s b with
        | BLive ws => MS (fold_left apply ws (st_store s)) (upd (st_bat s) b BDone) (st_nb s)
        | _ => s
        end
    | BClose b =>
        match st_bat s b with
        | BLive _ | BDone => MS (st_store s) (upd (st_bat s) b BClosed) (st_nb s)
        | _ => s
        end
    end.

  Definition m_init (s0 : St) : mstate := MS s0 (fun _ => BNone) O.
  Definition m_run (s0 : St) (ops : list kop) : mstate := fold_left m_step ops (m_init s0).
End Machine.
Arguments MS {St}.
Arguments st_store {St}.
Arguments st_bat {St}.
Arguments st_nb {St}.
Arguments m_step {St}.
Arguments m_init {St}.
Arguments m_run {St}.

(* ---------------------------------------------------------------------------------------------- *)
(* the concrete machine: sorted list, with outputs *)
Definition kstate := mstate store.
Definition kv_step_state : kstate -> kop -> kstate := m_step s_apply.
Definition kv_init : kstate := m_init [].

Definition kv_out (s : kstate) (op : kop) : kout :=
  match op with
  | Put _ _ | Del _ => OUnit
  | Get k => OVal (s_get (st_store s) k)
  | Has k => OBool (s_has (st_store s) k)
  | NewBatch => OBatch (st_nb s)
  | BPut b _ _ | BDel b _ | BCommit b =>
      match st_bat s b with BLive _ => OUnit | _ => OBad end
  | BClose b =>
      match st_bat s b with BLive _ | BDone => OUnit | _ => OBad end
  | Iter p st => OList (s_iter (st_store s) p st)
  end.

Fixpoint kv_run_from (s : kstate) (ops : list kop) : list kout :=
  match ops with
  | [] => []
  | op :: t => kv_out s op :: kv_run_from (kv_step_state s op) t
  end.

(* results of a whole history, one per operation *)
Definition kv_run (ops : list kop) : list kout := kv_run_from kv_init ops.

(* state after a history *)
Definition kv_state (ops : list kop) : kstate := m_run s_apply [] ops.
Definition store_of (ops : list kop) : store := st_store (kv_state ops).

(* ---------------------------------------------------------------------------------------------- *)
(* the abstract side: a store is a function from keys to optional values; the committed write log *)
Definition amap := bytes -> option bytes.
Definition a_apply (m : amap) (w : wop) : amap :=
  match w with
  | WPut k v => fun x => if bytes_eqb x k then Some v else m x
  | WDel k => fun x => if bytes_eqb x k then None else m x
  end.
Definition a_empty : amap := fun _ => None.
Definition amap_of (ws : list wop) : amap := fold_left a_apply ws a_empty.

Definition log_apply (l : list wop) (w : wop) : list wop := l ++ [w].
(* all primitive writes that have taken effect, in the order they took effect *)
Definition committed (ops : list kop) : list wop := st_store (m_run log_apply [] ops).

Definition wkey (w : wop) : bytes := match w with WPut k _ => k | WDel k => k end.
Definition wval (w : wop) : option bytes := match w with WPut _ v => Some v | WDel _ => None end.
(* the value written by the last write to k in the log; None if that write was a delete or k was never written *)
Definition last_write (k : bytes) (ws : list wop) : option bytes :=
  match find (fun w => bytes_eqb k (wkey w)) (rev ws) with
  | Some w => wval w
  | None => None
  end.

(* history-level vocabulary for the batch theorems *)
Definition is_bwrite (b : nat) (op : kop) : bool :=
  match op with
  | BPut b' _ _ | BDel b' _ => Nat.eqb b' b
  | _ => false
  end.
Definition bwrite_of (b : nat) (op : kop) : list wop :=
  match op with
  | BPut b' k v => if Nat.eqb b' b then [WPut k v] else []
  | BDel b' k => if Nat.eqb b' b then [WDel k] else []
  | _ => []
  end.
(* the writes addressed to batch b in a history fragment, in order *)
Definition bwrites (b : nat) (ops : list kop) : list wop := flat_map (bwrite_of b) ops.
Definition count_new (ops : list kop) : nat :=
  length (filter (fun op => match op with NewBatch => true | _ => false end) ops).
Definition is_finish (b : nat) (op : kop) : bool :=
  match op with BCommit b' | BClose b' => Nat.eqb b' b | _ => false end.
Definition is_commit (b : nat) (op : kop) : bool :=
  match op with BCommit b' => Nat.eqb b' b | _ => false end.
