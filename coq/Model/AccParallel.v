(* C22 — parallelised accumulation ∆* (Gray Paper 12.17) as a function of
     - the single-service results ∆(s) = ∆1(e, t, r, f, s)  (an oracle: each call works on a deep copy),
     - the order in which the hash map delivers the service set s to the collecting loop,
     - the order in which the worker goroutines complete (= the order results enter the result cache).
   Accounts, validator keys, queues and the always-accumulate map are opaque tokens (digests).
   No proofs here. *)
From JamV Require Export Base.Bytes.
Local Open Scope N_scope.

Definition token := bytes.

Record transfer := { t_from : N; t_to : N; t_amt : N; t_memo : bytes; t_gas : N }.

Record single_out := {
  so_gas : N;                          (* ∆(s)_u *)
  so_yield : option bytes;             (* ∆(s)_y *)
  so_transfers : list transfer;        (* ∆(s)_t *)
  so_accounts : list (N * token);      (* ((∆(s)_e)_d : service id -> account digest *)
  so_bless : N; so_assign : list N; so_designate : N; so_createacct : N;
  so_always : token; so_iota : token; so_queues : list token
}.

Definition empty_out : single_out :=
  {| so_gas := 0; so_yield := None; so_transfers := []; so_accounts := []; so_bless := 0; so_assign := [];
     so_designate := 0; so_createacct := 0; so_always := []; so_iota := []; so_queues := [] |}.

(* ---- finite maps as association lists sorted by key ------------------------------------------- *)
Fixpoint upsert {A} (k : N) (v : A) (m : list (N * A)) : list (N * A) :=
  match m with
  | [] => [(k, v)]
  | (k', v') :: t => if k <? k' then (k, v) :: m else if k =? k' then (k, v) :: t else (k', v') :: upsert k v t
  end.

Fixpoint lookup {A} (k : N) (m : list (N * A)) : option A :=
  match m with
  | [] => None
  | (k', v) :: t => if k =? k' then Some v else lookup k t
  end.

Definition has_key {A} (k : N) (m : list (N * A)) : bool :=
  match lookup k m with Some _ => true | None => false end.

Definition remove_key {A} (k : N) (m : list (N * A)) : list (N * A) :=
  filter (fun kv => negb (fst kv =? k)) m.

(* ---- insertion sort of service identifiers ------------------------------------------------------ *)
Fixpoint insertN (x : N) (l : list N) : list N :=
  match l with
  | [] => [x]
  | y :: t => if x <=? y then x :: l else y :: insertN x t
  end.
Definition sortN (l : list N) : list N := fold_right insertN [] l.

Record par_out := {
  po_u : list (N * N);                 (* u: service/gas pairs, in sequence *)
  po_b : list (N * bytes);             (* b: service/hash pairs (a set: kept sorted by service) *)
  po_t : list transfer;                (* t': deferred transfers, in sequence *)
  po_d : list (N * token);             (* d' *)
  po_bless : N; po_assign : list N; po_designate : N; po_createacct : N;
  po_always : token; po_iota : token; po_queues : list token
}.

Definition R_ (o a b : N) : N := if a =? o then b else a.

Section Par.
  Variable D1 : N -> single_out.               (* ∆(s) *)
  Variable d : list (N * token).               (* prior accounts e_d *)
  Variables (m_ v_ r_ : N) (a_ : list N).      (* prior manager, designate, registrar, assigners *)

  (* the result cache filled by the workers in completion order *)
  Definition build_cache (completion : list N) : list (N * single_out) :=
    fold_left (fun c s => upsert s (D1 s) c) completion [].

  (* a service that is not in the cache is computed on demand (runSingleReplaceService) *)
  Definition delta (cache : list (N * single_out)) (s : N) : single_out :=
    match lookup s cache with Some o => o | None => D1 s end.

  (* n = ⋃ ((∆(s)e)d ∖ K(d ∖ {s})) : later services overwrite earlier ones on the same new key *)
  Definition n_step (n : list (N * token)) (so : N * single_out) : list (N * token) :=
    fold_left (fun n kv => if (fst kv =? fst so) || negb (has_key (fst kv) d) then upsert (fst kv) (snd kv) n else n)
              (so_accounts (snd so)) n.

  (* m = ⋃ (K(d) ∖ K((∆(s)e)d)) *)
  Definition m_step (m : list N) (so : N * single_out) : list N :=
    m ++ filter (fun k => negb (has_key k (so_accounts (snd so)))) (map fst d).

  (* the collecting loop over the results [outs] = [(s, ∆(s)) | s <- order], given ∆(m), ∆(v), ∆(r), [∆(a_c)] *)
  Definition collect_data (outs : list (N * single_out)) (em ev er : single_out) (ea : list single_out) : par_out :=
    let u := map (fun so => (fst so, so_gas (snd so))) outs in
    let b := fold_left (fun b so => match so_yield (snd so) with Some h => upsert (fst so) h b | None => b end) outs [] in
    let t := flat_map (fun so => so_transfers (snd so)) outs in
    let n := fold_left n_step outs [] in
    let m := fold_left m_step outs [] in
    let dn := fold_left (fun acc kv => upsert (fst kv) (snd kv) acc) n d in
    let d' := fold_left (fun acc k => remove_key k acc) m dn in
    let cs := combine (seq 0 (length a_)) (combine a_ ea) in
    let a' := map (fun c => R_ (fst (snd c)) (nth (fst c) (so_assign em) 0) (nth (fst c) (so_assign (snd (snd c))) 0)) cs in
    let q' := map (fun c => nth (fst c) (so_queues (snd (snd c))) []) cs in
    {| po_u := u; po_b := b;
       po_t := filter (fun x => has_key (t_from x) d' && has_key (t_to x) d') t;
       po_d := d';
       po_bless := so_bless em; po_assign := a';
       po_designate := R_ v_ (so_designate em) (so_designate ev);
       po_createacct := R_ r_ (so_createacct em) (so_createacct er);
       po_always := so_always em; po_iota := so_iota ev; po_queues := q' |}.

  Definition collect (cache : list (N * single_out)) (order : list N) : par_out :=
    collect_data (map (fun s => (s, delta cache s)) order) (delta cache m_) (delta cache v_) (delta cache r_)
                 (map (delta cache) a_).

  (* the specified ∆*: the service set is traversed in ascending identifier order *)
  Definition par_acc (completion iteration : list N) : par_out :=
    collect (build_cache completion) (sortN iteration).

  (* the deviation found in the code: the collecting loop follows the map iteration order as delivered *)
  Definition par_acc_unsorted (completion iteration : list N) : par_out :=
    collect (build_cache completion) iteration.

  (* reference: no cache, no orders — ∆* as a function of the service SET given in ascending order *)
  Definition par_ref (services : list N) : par_out :=
    collect_data (map (fun s => (s, D1 s)) (sortN services)) (D1 m_) (D1 v_) (D1 r_) (map D1 a_).
End Par.

(* ---- (12.26) the accumulation output log θ′: the set b of (service, hash) pairs of ALL rounds of a block,
   laid out as a sequence ordered by service and then by hash.  The map delivers b in arbitrary order. ---- *)
Definition pair_leb (x y : N * bytes) : bool :=
  (fst x <? fst y) || ((fst x =? fst y) && bytes_leb (snd x) (snd y)).

Fixpoint insertP (leb : N * bytes -> N * bytes -> bool) (x : N * bytes) (l : list (N * bytes)) : list (N * bytes) :=
  match l with
  | [] => [x]
  | y :: t => if leb x y then x :: l else y :: insertP leb x t
  end.
Definition sortP (leb : N * bytes -> N * bytes -> bool) (l : list (N * bytes)) : list (N * bytes) :=
  fold_right (insertP leb) [] l.

Definition theta_of (delivered : list (N * bytes)) : list (N * bytes) := sortP pair_leb delivered.

(* the comparator without the tie-break on the hash: two outputs of one service compare equal *)
Definition service_only_leb (x y : N * bytes) : bool := fst x <=? fst y.
