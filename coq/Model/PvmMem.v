(* PVM RAM — Gray Paper v0.7.2 A.7–A.9: pages of 4096 bytes with an access class each,
   loads / stores of 1, 2, 4, 8 bytes with addresses taken mod 2^32, the panic rule for addresses
   below 2^16, the page-fault address (start of the lowest inaccessible page touched), and sbrk.
   Executable Gallina only. *)
From JamV Require Export Base.Bytes.
Local Open Scope Z_scope.

Definition PAGE : Z := 4096.
Definition LOW : Z := 65536.               (* 2^16 *)
Definition ADDR : Z := 4294967296.         (* 2^32 *)

Inductive access := AccNone | AccRO | AccRW.

(* association lists with in-place update (first match wins) *)
Fixpoint aget {A} (k : Z) (l : list (Z * A)) : option A :=
  match l with
  | [] => None
  | (k', v) :: t => if k' =? k then Some v else aget k t
  end.

Fixpoint aset {A} (k : Z) (v : A) (l : list (Z * A)) : list (Z * A) :=
  match l with
  | [] => [(k, v)]
  | (k', v') :: t => if k' =? k then (k, v) :: t else (k', v') :: aset k v t
  end.

(* a page: access class and contents as offset -> byte (absent = 0) *)
Record page := { p_acc : access; p_dat : list (Z * Z) }.

(* page map, heap pointer, heap limit (the stack boundary of the standard layout) *)
Record memory := { m_pages : list (Z * page); m_hp : Z; m_hl : Z }.

Definition get_page (m : memory) (i : Z) : option page := aget i (m_pages m).

Definition acc_at (m : memory) (a : Z) : access :=
  match get_page m (a / PAGE) with Some pg => p_acc pg | None => AccNone end.

Definition readable (m : memory) (a : Z) : bool :=
  match acc_at m a with AccNone => false | _ => true end.
Definition writable (m : memory) (a : Z) : bool :=
  match acc_at m a with AccRW => true | _ => false end.

Definition byte_of (pg : page) (off : Z) : Z :=
  match aget off (p_dat pg) with Some b => b | None => 0 end.

Definition rd_byte (m : memory) (a : Z) : Z :=
  match get_page m (a / PAGE) with Some pg => byte_of pg (a mod PAGE) | None => 0 end.

(* write one byte; a no-op when the page is not mapped (never used that way) *)
Definition wr_byte (m : memory) (a v : Z) : memory :=
  match get_page m (a / PAGE) with
  | Some pg =>
    {| m_pages := aset (a / PAGE) {| p_acc := p_acc pg; p_dat := aset (a mod PAGE) v (p_dat pg) |} (m_pages m);
       m_hp := m_hp m; m_hl := m_hl m |}
  | None => m
  end.

(* the n addresses touched by an access of width n at a (indices are taken mod 2^32) *)
Definition addrs (a : Z) (n : nat) : list Z :=
  map (fun i => (a + Z.of_nat i) mod ADDR) (seq 0 n).

Inductive mres (A : Type) := MOk (x : A) | MPanic | MFault (a : Z).
Arguments MOk {A} x.
Arguments MPanic {A}.
Arguments MFault {A} a.

Fixpoint list_min (d : Z) (l : list Z) : Z :=
  match l with
  | [] => d
  | x :: t => list_min (Z.min d x) t
  end.

(* A.8/A.9 with the property's reading of the low-address rule: an access that touches any address
   below 2^16 panics; otherwise, if some touched byte lacks the needed access, it is a page fault
   at the start of the page holding the lowest such byte; otherwise it is allowed. *)
Definition check (ok : memory -> Z -> bool) (m : memory) (a : Z) (n : nat) : mres unit :=
  let xs := addrs a n in
  if existsb (fun x => x <? LOW) xs then MPanic
  else
    match filter (fun x => negb (ok m x)) xs with
    | [] => MOk tt
    | x :: t => MFault (PAGE * (list_min x t / PAGE))
    end.

(* the literal Gray Paper rule: panic iff the lowest INACCESSIBLE touched address is below 2^16.
   The two agree whenever nothing below 2^16 is accessible (true of every standard layout);
   see PvmMemP.check_gp_agrees. *)
Definition check_gp (ok : memory -> Z -> bool) (m : memory) (a : Z) (n : nat) : mres unit :=
  match filter (fun x => negb (ok m x)) (addrs a n) with
  | [] => MOk tt
  | x :: t => let lo := list_min x t in if lo <? LOW then MPanic else MFault (PAGE * (lo / PAGE))
  end.

Fixpoint le_val (l : list Z) : Z :=
  match l with
  | [] => 0
  | b :: t => b + 256 * le_val t
  end.

Definition load (m : memory) (a : Z) (n : nat) : mres Z :=
  match check readable m a n with
  | MOk _ => MOk (le_val (map (rd_byte m) (addrs a n)))
  | MPanic => MPanic
  | MFault f => MFault f
  end.

Fixpoint wr_bytes (m : memory) (xs : list Z) (v : Z) : memory :=
  match xs with
  | [] => m
  | x :: t => wr_bytes (wr_byte m x (v mod 256)) t (v / 256)
  end.

Definition store (m : memory) (a : Z) (n : nat) (v : Z) : mres memory :=
  match check writable m a n with
  | MOk _ => MOk (wr_bytes m (addrs a n) v)
  | MPanic => MPanic
  | MFault f => MFault f
  end.

(* ---- sbrk --------------------------------------------------------------------------------
   The Gray Paper only constrains sbrk (the returned range was not accessible and is writable
   afterwards); the model fixes the de-facto behaviour within the clauses of the property:
   a request of 0 returns the heap pointer; a request that would pass the heap limit (or wrap)
   returns 0 and changes nothing; otherwise every page from the one holding the old heap pointer
   up to the page boundary above the new one that is not yet mapped is mapped read-write and
   zero-filled (pages already mapped are left untouched), the heap pointer moves up and the new
   heap pointer is returned. *)
Definition page_up (x : Z) : Z := PAGE * ((x + PAGE - 1) / PAGE).

Definition zero_page : page := {| p_acc := AccRW; p_dat := [] |}.

Fixpoint map_fresh (ps : list (Z * page)) (i : Z) (n : nat) : list (Z * page) :=
  match n with
  | O => ps
  | S n' =>
    let ps' := match aget i ps with Some _ => ps | None => aset i zero_page ps end in
    map_fresh ps' (i + 1) n'
  end.

Definition sbrk (m : memory) (req : Z) : Z * memory :=
  if req =? 0 then (m_hp m, m)
  else
    let nh := m_hp m + req in
    if (18446744073709551616 <=? nh) || (m_hl m <? nh) then (0, m)
    else
      let ps :=
        if page_up (m_hp m) <? nh
        then map_fresh (m_pages m) (m_hp m / PAGE) (Z.to_nat (page_up nh / PAGE - m_hp m / PAGE))
        else m_pages m in
      (nh, {| m_pages := ps; m_hp := nh; m_hl := m_hl m |}).
