(* Shared vocabulary: bytes are lists of N, each < 256 when well-formed. *)
From Coq Require Export List NArith ZArith Bool Lia.
From Coq Require Import ZifyBool ZifyNat ZifyN.
Export ListNotations.
Local Open Scope N_scope.

Definition bytes := list N.
Definition wf_bytes (l : bytes) : bool := forallb (fun b => b <? 256) l.

(* little-endian fixed-width integers, E_l of the Gray Paper *)
Fixpoint le_enc (n : nat) (x : N) : bytes :=
  match n with
  | O => []
  | S n' => (x mod 256) :: le_enc n' (x / 256)
  end.

Fixpoint le_dec (l : bytes) : N :=
  match l with
  | [] => 0
  | b :: t => b + 256 * le_dec t
  end.

Fixpoint bytes_eqb (a b : bytes) : bool :=
  match a, b with
  | [], [] => true
  | x :: a', y :: b' => (x =? y) && bytes_eqb a' b'
  | _, _ => false
  end.

(* lexicographic order on byte strings (Go bytes.Compare) *)
Fixpoint bytes_ltb (a b : bytes) : bool :=
  match a, b with
  | _, [] => false
  | [], _ :: _ => true
  | x :: a', y :: b' => (x <? y) || ((x =? y) && bytes_ltb a' b')
  end.
Definition bytes_leb (a b : bytes) : bool := negb (bytes_ltb b a).

Fixpoint is_prefix (p l : bytes) : bool :=
  match p, l with
  | [], _ => true
  | x :: p', y :: l' => (x =? y) && is_prefix p' l'
  | _ :: _, [] => false
  end.

Definition zeros (n : nat) : bytes := repeat 0 n.
