// Package vrf is a deterministic pure-Go stand-in for the (absent) Rust Bandersnatch VRF
// submodule. It is injected with `go build -overlay` by /verif only; nothing here is
// cryptography. Scheme (all hashes Blake2b-256):
//
//	pk            = H("pk" || sk)
//	IETF sig (96) = out(32) || tag(32) || zero(32),  out = H("out"||pk||context),
//	                tag = H("tag"||pk||context||message)
//	ring sig (784)= id(32) || ... ; valid iff last byte != 0xFF ; output = id
package vrf

import (
	"errors"

	"golang.org/x/crypto/blake2b"
)

type Verifier struct {
	ring []byte
	size uint
}

type Handler struct {
	ring      []byte
	sk        []byte
	size      uint
	proverIdx uint
}

type VerifyItem struct {
	Context   []byte
	Message   []byte
	Signature []byte
}

type VerifyResult struct {
	Output []byte
	Error  error
}

func h(parts ...[]byte) []byte {
	var buf []byte
	for _, p := range parts {
		buf = append(buf, p...)
	}
	s := blake2b.Sum256(buf)
	return s[:]
}

func NewVerifier(ring []byte, ringSize uint) (*Verifier, error) {
	return &Verifier{ring: append([]byte(nil), ring...), size: ringSize}, nil
}

func (v *Verifier) Free() {}

func (v *Verifier) GetCommitment() ([]byte, error) {
	out := make([]byte, 0, 144)
	seed := h([]byte("commit"), v.ring)
	for len(out) < 144 {
		seed = h(seed)
		out = append(out, seed...)
	}
	return out[:144], nil
}

func (v *Verifier) RingVerify(input, aux, proof []byte) ([]byte, error) {
	if len(proof) < 33 {
		return nil, errors.New("vrf stub: short ring proof")
	}
	if proof[len(proof)-1] == 0xFF {
		return nil, errors.New("vrf stub: invalid ring proof")
	}
	return append([]byte(nil), proof[:32]...), nil
}

func (v *Verifier) RingVerifyBatch(items []VerifyItem) ([]VerifyResult, error) {
	res := make([]VerifyResult, len(items))
	for i, it := range items {
		out, err := v.RingVerify(it.Context, it.Message, it.Signature)
		res[i] = VerifyResult{Output: out, Error: err}
	}
	return res, nil
}

func NewHandler(ring, sk []byte, ringSize, proverIdx uint) (*Handler, error) {
	return &Handler{ring: append([]byte(nil), ring...), sk: append([]byte(nil), sk...), size: ringSize, proverIdx: proverIdx}, nil
}

func (hd *Handler) Free() {}

func (hd *Handler) VRFIetfOutput(sig []byte) ([]byte, error) { return VRFIetfOutput(sig) }

func (hd *Handler) IETFSign(context, message []byte) ([]byte, error) {
	return IETFSign(hd.sk, context, message)
}

func (hd *Handler) RingSign(context, message []byte) ([]byte, error) {
	sig := make([]byte, 784)
	copy(sig, h([]byte("ringout"), hd.sk, context))
	return sig, nil
}

func VRFIetfOutput(sig []byte) ([]byte, error) {
	if len(sig) < 32 {
		return nil, errors.New("vrf stub: short signature")
	}
	return append([]byte(nil), sig[:32]...), nil
}

func GetPublicKeyFromSecret(sk []byte) ([]byte, error) {
	return h([]byte("pk"), sk), nil
}

func sigFor(pk, context, message []byte) []byte {
	sig := make([]byte, 96)
	copy(sig[0:32], h([]byte("out"), pk, context))
	copy(sig[32:64], h([]byte("tag"), pk, context, message))
	return sig
}

func IETFSign(sk, context, message []byte) ([]byte, error) {
	pk, _ := GetPublicKeyFromSecret(sk)
	return sigFor(pk, context, message), nil
}

func IETFVerify(context, message, signature, pk []byte) ([]byte, error) {
	if len(signature) != 96 {
		return nil, errors.New("vrf stub: bad signature length")
	}
	want := sigFor(pk, context, message)
	for i := range want {
		if want[i] != signature[i] {
			return nil, errors.New("vrf stub: invalid signature")
		}
	}
	return append([]byte(nil), signature[:32]...), nil
}
