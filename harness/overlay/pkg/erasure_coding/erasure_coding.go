// Overlay stand-in for pkg/erasure_coding (injected by `go build -overlay`, never written to /repo).
//
// The real package links a Rust static library (reed-solomon-ffi) whose dependency is not
// available offline, so every package importing it (work_package, networking/handler/ce, ...)
// fails to link.  This file keeps the three exported signatures so that those packages compile.
// It is NOT Reed-Solomon: shards 0..dataShards-1 are the consecutive chunks of the zero-padded
// input (systematic part) and parity shard p is the XOR of the data shards each rotated by p+1
// bytes.  DecodeShards succeeds only when all data shards are supplied.  No property claims
// anything about erasure coding on the strength of this stand-in.
package erasurecoding

import (
	"errors"
	"fmt"
)

func EncodeDataShards(data []byte, dataShard, parityShard int) ([][]byte, error) {
	flat, err := EncodeData(data, dataShard, parityShard)
	if err != nil {
		return nil, err
	}
	numShards := dataShard + parityShard
	shardSize := len(flat) / numShards
	if len(flat)%numShards != 0 {
		return nil, fmt.Errorf("unexpected output size %d is not divisible by %d shards", len(flat), numShards)
	}
	shards := make([][]byte, numShards)
	for i := 0; i < numShards; i++ {
		shardCopy := make([]byte, shardSize)
		copy(shardCopy, flat[i*shardSize:(i+1)*shardSize])
		shards[i] = shardCopy
	}
	return shards, nil
}

func EncodeData(data []byte, dataShards, parityShards int) ([]byte, error) {
	if len(data) == 0 {
		return nil, errors.New("input data is empty")
	}
	if dataShards <= 0 || parityShards < 0 {
		return nil, errors.New("bad shard counts")
	}
	unit := 2 * dataShards
	padded := (len(data) + unit - 1) / unit * unit
	shardSize := padded / dataShards
	in := make([]byte, padded)
	copy(in, data)
	out := make([]byte, (dataShards+parityShards)*shardSize)
	copy(out, in)
	for p := 0; p < parityShards; p++ {
		dst := out[(dataShards+p)*shardSize : (dataShards+p+1)*shardSize]
		for d := 0; d < dataShards; d++ {
			src := in[d*shardSize : (d+1)*shardSize]
			for k := 0; k < shardSize; k++ {
				dst[k] ^= src[(k+p+1+d)%shardSize]
			}
		}
	}
	return out, nil
}

type Shard struct {
	Index int
	Data  [2]byte
}

func DecodeShards(flatten []byte, indices []int, dataShards, parityShards, shardSize int) ([]byte, error) {
	if len(flatten) == 0 || len(indices) == 0 {
		return nil, errors.New("no shards provided")
	}
	if shardSize <= 0 || len(flatten)%shardSize != 0 {
		return nil, fmt.Errorf("flatten data length %d not divisible by shardSize %d", len(flatten), shardSize)
	}
	if len(flatten)/shardSize != len(indices) {
		return nil, errors.New("shard count does not match indices")
	}
	out := make([]byte, dataShards*shardSize)
	have := make([]bool, dataShards)
	for k, idx := range indices {
		if idx >= 0 && idx < dataShards {
			copy(out[idx*shardSize:], flatten[k*shardSize:(k+1)*shardSize])
			have[idx] = true
		}
	}
	for _, ok := range have {
		if !ok {
			return nil, errors.New("stand-in erasure coding: recovery from parity shards is not available")
		}
	}
	return out, nil
}
