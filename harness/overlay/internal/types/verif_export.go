//go:build verif && vi_types

package types

import "bytes"

// VerifDecodeLength runs the reader-based natural decoder (DecodeLength) on data and reports
// the number of bytes consumed. Overlay only.
func VerifDecodeLength(data []byte) (uint64, int, error) {
	d := NewDecoder()
	r := bytes.NewReader(data)
	d.buf = r
	v, err := d.DecodeInteger()
	if err != nil {
		return 0, 0, err
	}
	return v, len(data) - r.Len(), nil
}
