//go:build verif && !vi_types

package types

// VerifDecodeLength (STUB: built when the Decoder's unexported reader field is gone under that name).
func VerifDecodeLength(data []byte) (uint64, int, error) {
	panic("VERIF-UNAVAILABLE: VerifDecodeLength")
}
