//go:build verif

// Package verifh holds the helpers shared by the /verif harness commands (injected by overlay).
package verifh

import (
	"bufio"
	"encoding/hex"
	"fmt"
	"os"
	"sort"
	"strconv"
	"strings"
	"syscall"
)

// protocolOut is the harness's own output channel: the original stdout. File descriptor 1 itself is
// re-pointed at stderr so that the repository's logger (which prints to stdout) cannot corrupt the
// case protocol.
func ProtocolOut() *os.File {
	fd, err := syscall.Dup(1)
	if err != nil {
		return os.Stdout
	}
	if err := syscall.Dup2(2, 1); err != nil {
		return os.Stdout
	}
	return os.NewFile(uintptr(fd), "protocol-out")
}

// Rng is splitmix64: every random choice of a run derives from one seed.
type Rng struct{ s uint64 }

// NewRng: the seed is passed through the splitmix64 finaliser twice before it becomes the state; with a
// state that is only an affine function of the seed, seed k+1 would replay the stream of seed k shifted by one.
func NewRng(seed uint64) *Rng {
	mix := func(z uint64) uint64 {
		z = (z ^ (z >> 30)) * 0xBF58476D1CE4E5B9
		z = (z ^ (z >> 27)) * 0x94D049BB133111EB
		return z ^ (z >> 31)
	}
	return &Rng{s: mix(mix(seed+0x9E3779B97F4A7C15) ^ 0xD1B54A32D192ED03)}
}

func (r *Rng) U64() uint64 {
	r.s += 0x9E3779B97F4A7C15
	z := r.s
	z = (z ^ (z >> 30)) * 0xBF58476D1CE4E5B9
	z = (z ^ (z >> 27)) * 0x94D049BB133111EB
	return z ^ (z >> 31)
}

func (r *Rng) Intn(n int) int {
	if n <= 0 {
		return 0
	}
	return int(r.U64() % uint64(n))
}

func (r *Rng) Bool() bool { return r.U64()&1 == 1 }

// Chance returns true with probability num/den.
func (r *Rng) Chance(num, den int) bool { return r.Intn(den) < num }

func (r *Rng) Bytes(n int) []byte {
	b := make([]byte, n)
	for i := range b {
		b[i] = byte(r.U64())
	}
	return b
}

// Fork derives an independent generator (for sub-structures), still a function of the seed.
func (r *Rng) Fork() *Rng { return &Rng{s: r.U64()} }

// Hex renders bytes; the empty string is "-" so that tokens never vanish.
func Hex(b []byte) string {
	if len(b) == 0 {
		return "-"
	}
	return hex.EncodeToString(b)
}

func UnHex(s string) []byte {
	if s == "-" || s == "" {
		return []byte{}
	}
	b, err := hex.DecodeString(s)
	if err != nil {
		panic("verifh: bad hex token " + s)
	}
	return b
}

func U(s string) uint64 {
	v, err := strconv.ParseUint(s, 10, 64)
	if err != nil {
		panic("verifh: bad uint token " + s)
	}
	return v
}

func I(s string) int { return int(U(s)) }

// Stats counts the distribution of generated cases; printed as "#STAT k v" lines.
type Stats map[string]int

func (s Stats) Inc(k string) { s[k]++ }

// Main implements the protocol shared by every harness:
//
//	<bin> gen --seed N --tier quick|thorough   prints one case input per line (+ "#STAT" lines)
//	<bin> run                                  reads inputs on stdin, prints "input | output"
//
// A Go runtime panic inside run is reported as output "GOPANIC <kind>".
func Main(gen func(rng *Rng, tier string, emit func(string)), run func(input string) string) {
	if len(os.Args) < 2 {
		fmt.Fprintln(os.Stderr, "usage: gen --seed N --tier T | run")
		os.Exit(2)
	}
	w := bufio.NewWriterSize(ProtocolOut(), 1<<20)
	defer w.Flush()
	switch os.Args[1] {
	case "gen":
		seed := uint64(1)
		tier := "quick"
		for i := 2; i+1 < len(os.Args); i += 2 {
			switch os.Args[i] {
			case "--seed":
				seed = U(os.Args[i+1])
			case "--tier":
				tier = os.Args[i+1]
			}
		}
		gen(NewRng(seed), tier, func(s string) { w.WriteString(s); w.WriteByte('\n') })
	case "run":
		sc := bufio.NewScanner(os.Stdin)
		sc.Buffer(make([]byte, 1<<20), 1<<28)
		for sc.Scan() {
			line := sc.Text()
			if line == "" || line[0] == '#' {
				continue
			}
			if i := strings.Index(line, " | "); i >= 0 {
				line = line[:i]
			}
			out := Guard(func() string { return run(line) })
			w.WriteString(line)
			w.WriteString(" | ")
			w.WriteString(out)
			w.WriteByte('\n')
		}
	default:
		fmt.Fprintln(os.Stderr, "unknown mode", os.Args[1])
		os.Exit(2)
	}
}

// Guard runs f and maps a Go runtime panic to the outcome "GOPANIC <normalised message>".
func Guard(f func() string) (out string) {
	defer func() {
		if r := recover(); r != nil {
			msg := fmt.Sprint(r)
			if strings.HasPrefix(msg, "VERIF-UNAVAILABLE") {
				// a stub of an auxiliary add-only export (build without the tag verifint: the unexported helper it wraps
				// no longer exists under that name); check/lib.py skips such cases of a degraded build
				out = "UNAVAILABLE"
				return
			}
			kind := "other"
			switch {
			case strings.Contains(msg, "slice bounds out of range"):
				kind = "slice-bounds"
			case strings.Contains(msg, "index out of range"):
				kind = "index"
			case strings.Contains(msg, "nil pointer") || strings.Contains(msg, "nil map"):
				kind = "nil"
			case strings.Contains(msg, "makeslice") || strings.Contains(msg, "out of memory"):
				kind = "makeslice"
			case strings.Contains(msg, "divide by zero"):
				kind = "div0"
			case strings.Contains(msg, "verifh:"):
				kind = "harness:" + strings.ReplaceAll(msg, " ", "_")
			}
			out = "GOPANIC " + kind
		}
	}()
	return f()
}

func EmitStats(emit func(string), st Stats) {
	keys := make([]string, 0, len(st))
	for k := range st {
		keys = append(keys, k)
	}
	sort.Strings(keys)
	for _, k := range keys {
		emit(fmt.Sprintf("#STAT %s %d", k, st[k]))
	}
}
