//go:build verif && !vi_merklization_c15

package merklization

import "github.com/New-JAMneration/JAM-Protocol/internal/types"

// Add-only exports for the C15 harness (overlay only; STUB: built when the unexported helper is gone).

func VerifEncodeLeafNode(key types.StateKey, value []byte) [64]byte {
	panic("VERIF-UNAVAILABLE: VerifEncodeLeafNode")
}
func VerifEncodeBranchNode(left, right types.OpaqueHash) [64]byte {
	panic("VERIF-UNAVAILABLE: VerifEncodeBranchNode")
}

func VerifPartitionByBit(entries []types.StateKeyVal, depth int) int {
	panic("VERIF-UNAVAILABLE: VerifPartitionByBit")
}
