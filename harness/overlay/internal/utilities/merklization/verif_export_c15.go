//go:build verif && vi_merklization_c15

package merklization

import "github.com/New-JAMneration/JAM-Protocol/internal/types"

// Add-only exports for the C15 harness (overlay only).

func VerifEncodeLeafNode(key types.StateKey, value []byte) [64]byte { return encodeLeafNode(key, value) }

func VerifEncodeBranchNode(left, right types.OpaqueHash) [64]byte {
	return encodeBranchNode(left, right)
}

func VerifPartitionByBit(entries []types.StateKeyVal, depth int) int {
	return partitionByBit(entries, depth)
}
