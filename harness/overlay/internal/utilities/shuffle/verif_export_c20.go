//go:build verif && vi_shuffle_c20

package shuffle

import "github.com/New-JAMneration/JAM-Protocol/internal/types"

// Add-only export for the /verif C20 harness (injected by `go build -overlay`, tag verif).

// VerifNumericSequenceFromHash exposes numericSequenceFromHash (GP F.2).
func VerifNumericSequenceFromHash(hash types.OpaqueHash, length types.U32) []types.U32 {
	return numericSequenceFromHash(hash, length)
}
