//go:build verif && !vi_serviceaccount_c31

package service_account

import types "github.com/New-JAMneration/JAM-Protocol/internal/types"

// VerifIsValidTime exposes the unexported I(l,t) for the C31 harness (add-only).
func VerifIsValidTime(l types.TimeSlotSet, t types.TimeSlot) bool {
	panic("VERIF-UNAVAILABLE: VerifIsValidTime")
}
