//go:build verif

package telemetry

import (
	"context"
	"net"
)

// Add-only exports for the C28 harness (/verif): the real tcpClient with an injected dialer.

// VerifNewTCPClient is newTCPClient with the package's test hook (dialer) set; start() is not called.
func VerifNewTCPClient(cfg Config, dial func(ctx context.Context, addr string) (net.Conn, error)) (Client, func(), error) {
	c, err := newTCPClient(cfg)
	if err != nil {
		return nil, nil, err
	}
	c.dialer = dial
	return c, c.start, nil
}

// VerifSplitID unpacks an event id into (epoch, seq).
func VerifSplitID(id uint64) (uint16, uint64) { return eventIDEpoch(id), eventIDSeq(id) }

// VerifDiscDropped is the discriminator of the dropped-events record.
const VerifDiscDropped = discriminatorDropped
