//go:build verif

package verifcodec

import (
	"fmt"
	"os"

	"github.com/New-JAMneration/JAM-Protocol/internal/fuzz"
	h "github.com/New-JAMneration/JAM-Protocol/internal/verifh"
	"github.com/New-JAMneration/JAM-Protocol/logger"
)

// types also exercised with the full parameter set (their layout depends on V, C, E)
var fullModeTypes = []string{"Header", "EpochMark", "TicketsMark", "Bitfield", "AvailAssurance", "AssurancesExtrinsic",
	"Verdict", "DisputesExtrinsic", "ServiceIDList", "CoresStatistics", "TicketsOrKeys", "AuthPools",
	"AvailabilityAssignments", "Privileges", "AccumulatedQueue", "Block", "Ancestry"}

const maxCaseBytes = 48 << 10

type sample struct {
	mode, name string
	seed       uint64
	enc        []byte
}

// samples draws valid values of every type and their Go encodings
func samples(rng *h.Rng, per, perBig, perFull int, st h.Stats) []sample {
	var out []sample
	add := func(mode, name string, n int) {
		setMode(mode)
		for i := 0; i < n; i++ {
			var seed uint64
			var b []byte
			var err error
			// keep single cases moderate (the model side is list based): redraw oversized values
			for try := 0; try < 8; try++ {
				seed = rng.U64() >> 1
				b, err = encodePooled(genValue(name, seed))
				if err != nil || len(b) <= maxCaseBytes {
					break
				}
			}
			if err != nil {
				st.Inc("gen-encode-error-" + name)
				continue
			}
			if len(b) > maxCaseBytes {
				st.Inc("gen-oversize-skipped")
				continue
			}
			out = append(out, sample{mode, name, seed, b})
			st.Inc("valid-" + mode)
		}
	}
	for _, ent := range Table {
		n := per
		if ent.Big {
			n = perBig
		}
		add("t", ent.Name, n)
	}
	for _, name := range fullModeTypes {
		add("f", name, perFull)
	}
	setMode("t")
	return out
}

func GenC11(rng *h.Rng, tier string, emit func(string)) {
	logger.Disable()
	st := h.Stats{}
	per, perBig, perFull, nmsg := 100, 10, 6, 300
	if tier == "thorough" {
		per, perBig, perFull, nmsg = 600, 40, 20, 3000
	}
	for _, s := range samples(rng, per, perBig, perFull, st) {
		emit(fmt.Sprintf("rt %s %s %d %s", s.mode, s.name, s.seed, h.Hex(s.enc)))
	}
	for i := 0; i < nmsg; i++ {
		seed := rng.U64() >> 1
		b, err := genMessage(seed).MarshalBinary()
		if err != nil {
			st.Inc("gen-marshal-error")
			continue
		}
		if len(b) > maxCaseBytes {
			i--
			continue
		}
		emit(fmt.Sprintf("frt t %d %s", seed, h.Hex(b)))
		st.Inc("frame-valid")
	}
	h.EmitStats(emit, st)
}

// ---- mutations ----

var bigPrefixes = [][]byte{
	{0xff, 0xff, 0xff, 0xff, 0xff, 0xff, 0xff, 0xff, 0xff}, // 2^64-1
	{0xff, 0, 0, 0, 0, 0, 0, 0, 0x01},                      // 2^56
	{0xff, 0, 0, 0, 0, 0, 0, 0, 0x80},                      // 2^63
	{0xfe, 0, 0, 0, 0, 0, 0, 0x80},                         // 2^55
	{0xf0, 0, 0, 0, 0x40},                                  // 2^30
	{0xf0, 0xff, 0xff, 0xff, 0xff},                         // 2^32-1
	{0xe0, 0, 0, 0x20},                                     // 2^21
	{0xc0, 0, 0x01},                                        // 65536
	{0xbf, 0xff},                                           // 16383
	{0x80, 0xff},                                           // 255
}

func cp(b []byte) []byte { return append([]byte{}, b...) }

func splice(b []byte, i int, repl []byte, drop int) []byte {
	out := append([]byte{}, b[:i]...)
	out = append(out, repl...)
	if i+drop < len(b) {
		out = append(out, b[i+drop:]...)
	}
	return out
}

// positions biased to the front (where headers, flags and length prefixes of small values sit)
func (g *G) pos(n int) int {
	if n <= 1 {
		return 0
	}
	if g.R.Chance(1, 2) && n > 16 {
		return g.R.Intn(16)
	}
	return g.R.Intn(n)
}

// mutate yields malformed / edited variants of one valid encoding, tagged by kind
func mutate(g *G, b []byte, heavy bool, yield func(kind string, m []byte)) {
	n := len(b)
	// truncation
	if n <= 48 {
		for k := 0; k < n; k++ {
			yield("trunc", b[:k])
		}
	} else {
		for _, k := range []int{1, n / 2, n - 1} {
			yield("trunc", b[:k])
		}
		for i := 0; i < 3 && n <= 3000; i++ {
			yield("trunc", b[:g.R.Intn(n)])
		}
	}
	// trailing bytes: accepted, not consumed
	yield("trailing", append(cp(b), g.R.Bytes(1+g.R.Intn(3))...))
	if n == 0 {
		return
	}
	reps := 6
	if heavy {
		reps = 10
	}
	if n > 3000 {
		reps = 2 // large values: a few edits each, the volume goes to the small ones
	}
	for i := 0; i < reps; i++ {
		// byte flip to a boundary value
		p := g.pos(n)
		m := cp(b)
		m[p] = []byte{0, 1, 2, 0x7f, 0x80, 0xc0, 0xff, byte(g.R.U64()), m[p] + 1, m[p] - 1}[g.R.Intn(10)]
		yield("flip", m)
	}
	// discriminator substitution: bytes that are 0/1 become 2, 0xff, or the other one
	cand := []int{}
	for i, x := range b {
		if x <= 1 {
			cand = append(cand, i)
		}
	}
	for i := 0; i < reps && len(cand) > 0; i++ {
		p := cand[g.R.Intn(len(cand))]
		if i < 4 && i < len(cand) {
			p = cand[i] // the first few 0/1 bytes are very often flags
		}
		m := cp(b)
		m[p] = []byte{2, 0xff, 1 - b[p], 3, 0x80}[g.R.Intn(5)]
		yield("discr", m)
	}
	// length-prefix edits
	for i := 0; i < reps; i++ {
		p := g.pos(n)
		switch g.R.Intn(4) {
		case 0: // non-minimal two-byte form of a small value
			if b[p] < 0x80 {
				yield("nonminimal", splice(b, p, []byte{0x80, b[p]}, 1))
			} else {
				yield("nonminimal", splice(b, p, []byte{0xc0, b[p], 0}, 1))
			}
		case 1: // huge declared length in place of one byte, rest kept
			yield("bigprefix", splice(b, p, bigPrefixes[g.R.Intn(len(bigPrefixes))], 1))
		case 2: // huge declared length, then the input ends
			yield("bigprefix-end", splice(b[:p+1], p, bigPrefixes[g.R.Intn(len(bigPrefixes))], 1))
		default: // small change of a count
			m := cp(b)
			m[p] += byte(1 + g.R.Intn(3))
			yield("count", m)
		}
	}
	// swap two aligned chunks (dictionary entries out of order / duplicated)
	if n >= 16 {
		w := []int{4, 12, 8, 32, 36}[g.R.Intn(5)]
		if p := g.pos(n - 2*w + 1); p >= 0 && p+2*w <= n {
			m := cp(b)
			copy(m[p:p+w], b[p+w:p+2*w])
			if g.R.Bool() {
				copy(m[p+w:p+2*w], b[p:p+w])
			}
			yield("swap", m)
		}
	}
}

func genMalformed(rng *h.Rng, tier, verb string, emit func(string), st h.Stats, heavyBig bool) {
	per, perBig, perFull := 10, 2, 1
	if tier == "thorough" {
		per, perBig, perFull = 100, 10, 4
	}
	g := &G{R: rng.Fork()}
	seen := map[string]bool{}
	out := func(mode, name, kind string, m []byte) {
		key := mode + name + string(m)
		if seen[key] {
			return
		}
		seen[key] = true
		emit(fmt.Sprintf("%s %s %s %s", verb, mode, name, h.Hex(m)))
		st.Inc(kind)
	}
	for _, s := range samples(rng, per, perBig, perFull, st) {
		s := s
		if len(s.enc) > 40000 {
			continue // keep lines moderate; large values are covered by the round-trip stream
		}
		out(s.mode, s.name, "valid", s.enc)
		mutate(g, s.enc, heavyBig, func(kind string, m []byte) { out(s.mode, s.name, kind, m) })
	}
	// short arbitrary inputs for every decoder
	nrand := 25
	if tier == "thorough" {
		nrand = 300
	}
	for _, ent := range Table {
		out("t", ent.Name, "empty", []byte{})
		for _, pre := range bigPrefixes {
			out("t", ent.Name, "bigprefix-only", pre)
			out("t", ent.Name, "bigprefix-only", append(cp(pre), 1, 2, 3))
		}
		for i := 0; i < nrand; i++ {
			m := rng.Bytes(1 + rng.Intn(12))
			if rng.Chance(1, 3) {
				for j := range m {
					m[j] &= 1
				}
			}
			out("t", ent.Name, "random-short", m)
		}
		for _, l := range []int{1, 4, 33, 200} {
			z := make([]byte, l)
			out("t", ent.Name, "zeros", z)
			f := make([]byte, l)
			for j := range f {
				f[j] = 0xff
			}
			out("t", ent.Name, "ones", f)
		}
	}
}

func GenC13(rng *h.Rng, tier string, emit func(string)) {
	logger.Disable()
	st := h.Stats{}
	genMalformed(rng, tier, "dec", emit, st, false)
	h.EmitStats(emit, st)
}

func le32(x uint32) []byte { return []byte{byte(x), byte(x >> 8), byte(x >> 16), byte(x >> 24)} }

func GenC14(rng *h.Rng, tier string, emit func(string)) {
	logger.Disable()
	st := h.Stats{}
	genMalformed(rng, tier, "safe", emit, st, true)
	// frames
	nmsg := 120
	if tier == "thorough" {
		nmsg = 1500
	}
	g := &G{R: rng.Fork()}
	frame := func(kind string, m []byte) {
		emit("frame t " + h.Hex(m))
		st.Inc("frame-" + kind)
	}
	lens := []uint32{0, 1, 2, 5, 0xffffffff, 0xfffffffe, 0x7fffffff, 0x80000000, 0x01000000, 0x00100000, 0x00010000}
	for ty := 0; ty < 8; ty++ {
		t := byte(ty)
		if ty == 7 {
			t = 255
		}
		for _, l := range lens {
			frame("crafted-length", append(le32(l), t))
			frame("crafted-length", append(append(le32(l), t), rng.Bytes(3)...))
			frame("crafted-length", le32(l))
		}
		for _, pre := range bigPrefixes {
			body := append([]byte{t}, pre...)
			frame("bigprefix", append(le32(uint32(len(body))), body...))
			body = append(body, rng.Bytes(40)...)
			frame("bigprefix", append(le32(uint32(len(body))), body...))
		}
	}
	frame("empty", []byte{})
	frame("short", []byte{1})
	frame("short", []byte{1, 0, 0})
	for i := 0; i < nmsg; i++ {
		b, err := genMessage(rng.U64() >> 1).MarshalBinary()
		if err != nil || len(b) > 40000 {
			continue
		}
		frame("valid", b)
		// the length field
		for _, l := range lens {
			if rng.Chance(1, 3) {
				frame("length-edit", append(le32(l), b[4:]...))
			}
		}
		frame("length-edit", append(le32(uint32(len(b)-4)+uint32(1+rng.Intn(1000))), b[4:]...))
		frame("length-edit", append(le32(uint32(len(b)-4)-uint32(1+rng.Intn(len(b)-4))), b[4:]...))
		// the payload, keeping the length field consistent
		mutate(g, b[5:], true, func(kind string, m []byte) {
			if rng.Chance(1, 3) {
				body := append([]byte{b[4]}, m...)
				frame("payload-"+kind, append(le32(uint32(len(body))), body...))
			}
		})
		m := cp(b)
		m[4] = byte(rng.Intn(256))
		frame("type-edit", m)
	}
	// PeerInfo.UnmarshalBinary / ErrorMessage.UnmarshalBinary directly
	for i := 0; i < nmsg; i++ {
		p := &fuzz.PeerInfo{FuzzVersion: byte(rng.Intn(256)), FuzzFeatures: fuzz.Features(rng.U64()), AppName: string(rng.Bytes(rng.Intn(30)))}
		b, _ := p.MarshalBinary()
		emit("peer " + h.Hex(b))
		st.Inc("peer-valid")
		for k := 0; k <= len(b) && k < 14; k++ {
			emit("peer " + h.Hex(b[:k]))
			st.Inc("peer-trunc")
		}
		for _, pre := range bigPrefixes {
			emit("peer " + h.Hex(append(cp(b[:11]), pre...)))
			emit("peer " + h.Hex(append(append(cp(b[:11]), pre...), rng.Bytes(5)...)))
			emit("peer " + h.Hex(pre))
			st.Inc("peer-bigprefix")
		}
	}
	h.EmitStats(emit, st)
}

// Main dispatches: `worker` runs cases in this process; `run` streams the cases through a worker
// child (restarted when a case kills it); `gen` is the standard generator protocol.
func Main(gen func(rng *h.Rng, tier string, emit func(string))) {
	if len(os.Args) > 1 && os.Args[1] == "worker" {
		WorkerLoop()
		return
	}
	logger.Disable()
	if len(os.Args) > 1 && os.Args[1] == "run" {
		RunAll()
		return
	}
	h.Main(gen, RunViaWorker)
}
