//go:build verif

package verifcodec

import (
	"bufio"
	"bytes"
	"fmt"
	"io"
	"os"
	"os/exec"
	"reflect"
	"runtime"
	"runtime/debug"
	"strings"
	"sync"
	"syscall"
	"time"

	"github.com/New-JAMneration/JAM-Protocol/internal/fuzz"
	"github.com/New-JAMneration/JAM-Protocol/internal/types"
	h "github.com/New-JAMneration/JAM-Protocol/internal/verifh"
	"github.com/New-JAMneration/JAM-Protocol/logger"
)

// ---------------------------------------------------------------------------------------------
// case formats (input | output)
//
//	rt    <t|f> <Type> <seed> <hex>   value regenerated from seed; hex = encoding computed by gen
//	      | ok used=<n> eq=<0|1> det=<0|1>        or  encerr / err / GOPANIC ...
//	frt   <t|f> <seed> <hex>          fuzz Message regenerated from seed; hex = MarshalBinary at gen time
//	      | ok used=<n> eq=<0|1> det=<0|1>
//	dec   <t|f> <Type> <hex>          | err   or   ok used=<n> reenc=<1|0|E>
//	safe  <t|f> <Type> <hex>          | (as dec) mem=<ok|EXCESS>        GOPANIC / GOFATAL are violations
//	frame <t|f> <hex>                 Message.ReadFrom       | safe   or  mem=EXCESS / GOPANIC / GOFATAL
//	peer  <hex>                       PeerInfo.UnmarshalBinary   | safe ...
func setMode(m string) {
	if m == "f" {
		if types.TEST_MODE != "full" {
			types.SetFullMode()
		}
	} else if types.TEST_MODE != "tiny" {
		types.SetTinyMode()
	}
}

var emptyHSM = types.HashSegmentMap{}

func encodePooled(v any) ([]byte, error) {
	e := types.GetEncoder()
	defer types.PutEncoder(e)
	e.SetHashSegmentMap(emptyHSM)
	return e.Encode(v)
}

func decodeInto(data []byte, v any) (int, error) {
	d := types.NewDecoder()
	d.SetHashSegmentMap(emptyHSM)
	return d.DecodeWithConsumed(data, v)
}

func genValue(name string, seed uint64) any {
	ent, ok := byName[name]
	if !ok {
		panic("verifh: unknown type " + name)
	}
	v := ent.New()
	g := &G{R: h.NewRng(seed)}
	g.Fill(reflect.ValueOf(v).Elem())
	if st, ok := v.(*types.State); ok {
		if name == "StateTheta" {
			st.Theta = types.LastAccOut{{ServiceID: types.ServiceID(seed), Hash: types.OpaqueHash{1, 2, 3}}}
		} else {
			st.Theta = nil
		}
	}
	return v
}

// ---- fuzz messages ----
func genMessage(seed uint64) *fuzz.Message {
	g := &G{R: h.NewRng(seed)}
	m := &fuzz.Message{}
	switch g.R.Intn(7) {
	case 0:
		m.Type = fuzz.MessageType_PeerInfo
		p := &fuzz.PeerInfo{}
		g.Fill(reflect.ValueOf(p).Elem())
		m.PeerInfo = p
	case 1:
		m.Type = fuzz.MessageType_SetState
		s := &fuzz.SetState{}
		g.Fill(reflect.ValueOf(s).Elem())
		m.SetState = s
	case 2:
		m.Type = fuzz.MessageType_StateRoot
		s := &fuzz.StateRoot{}
		g.Fill(reflect.ValueOf(s).Elem())
		m.StateRoot = s
	case 3:
		m.Type = fuzz.MessageType_ImportBlock
		s := &fuzz.ImportBlock{}
		g.Fill(reflect.ValueOf((*types.Block)(s)).Elem())
		m.ImportBlock = s
	case 4:
		m.Type = fuzz.MessageType_GetState
		s := &fuzz.GetState{}
		g.Fill(reflect.ValueOf(s).Elem())
		m.GetState = s
	case 5:
		m.Type = fuzz.MessageType_State
		s := &fuzz.State{}
		g.Fill(reflect.ValueOf((*types.StateKeyVals)(s)).Elem())
		m.State = s
	default:
		m.Type = fuzz.MessageType_ErrorMessage
		m.Error = &fuzz.ErrorMessage{Error: string(g.R.Bytes(g.R.Intn(60)))}
	}
	return m
}

// ---------------------------------------------------------------------------------------------
// runners

// concurrent pooled encoders: the value is encoded by several goroutines at once, interleaved with
// encodings of an unrelated value through the same pool; every result must be the same bytes
func encodeConcurrently(v any, noise any) ([][]byte, error) {
	const n = 4
	out := make([][]byte, n)
	errs := make([]error, n)
	var wg sync.WaitGroup
	for i := 0; i < n; i++ {
		wg.Add(2)
		go func(i int) {
			defer wg.Done()
			out[i], errs[i] = encodePooled(v)
		}(i)
		go func() {
			defer wg.Done()
			_, _ = encodePooled(noise)
		}()
	}
	wg.Wait()
	for _, e := range errs {
		if e != nil {
			return nil, e
		}
	}
	return out, nil
}

func runRT(mode, name string, seed uint64, hx string) string {
	setMode(mode)
	want := h.UnHex(hx)
	v := genValue(name, seed)
	noise := genValue("WorkReport", seed+1)
	encs, err := encodeConcurrently(v, noise)
	if err != nil {
		return "encerr"
	}
	det := 1
	for _, b := range encs {
		if !bytes.Equal(b, want) {
			det = 0
		}
	}
	// the encoder must not have modified the value
	if !Eqv(reflect.ValueOf(v).Elem(), reflect.ValueOf(genValue(name, seed)).Elem()) {
		det = 0
	}
	back := byName[name].New()
	used, err := decodeInto(encs[0], back)
	if err != nil {
		return "err"
	}
	eq := 0
	if Eqv(reflect.ValueOf(v).Elem(), reflect.ValueOf(back).Elem()) {
		eq = 1
	}
	_ = want
	return fmt.Sprintf("ok used=%d eq=%d det=%d", used, eq, det)
}

func runFRT(mode string, seed uint64, hx string) string {
	setMode(mode)
	want := h.UnHex(hx)
	m := genMessage(seed)
	b, err := m.MarshalBinary()
	if err != nil {
		return "encerr"
	}
	det := 0
	if bytes.Equal(b, want) {
		det = 1
	}
	back := &fuzz.Message{}
	rd := bytes.NewReader(append(append([]byte{}, b...), 0xAA, 0xBB)) // the reader must stop at the frame end
	n, err := back.ReadFrom(rd)
	if err != nil {
		return "err"
	}
	eq := 0
	if Eqv(reflect.ValueOf(m).Elem(), reflect.ValueOf(back).Elem()) {
		eq = 1
	}
	return fmt.Sprintf("ok used=%d eq=%d det=%d", n, eq, det)
}

func decodeOutcome(name string, data []byte) string {
	v := byName[name].New()
	used, err := decodeInto(data, v)
	if err != nil {
		return "err"
	}
	re, err := encodePooled(v)
	r := "1"
	if err != nil {
		r = "E"
	} else if used > len(data) || !bytes.Equal(re, data[:used]) {
		r = "0"
	}
	return fmt.Sprintf("ok used=%d reenc=%s", used, r)
}

func runDec(mode, name, hx string) string {
	setMode(mode)
	return decodeOutcome(name, h.UnHex(hx))
}

// measure runs f and returns its result with the bytes allocated meanwhile (all goroutines; the
// harness runs nothing else)
func measure(f func() string) (string, uint64) {
	var a, b runtime.MemStats
	runtime.ReadMemStats(&a)
	out := f()
	runtime.ReadMemStats(&b)
	return out, b.TotalAlloc - a.TotalAlloc
}

// allocation budget: K bytes per input byte plus a constant for the fixed-size part of the types
// (validator sets, queues) and the decoder itself
func budget(mode string, n int) uint64 {
	c := uint64(256 << 10)
	if mode == "f" {
		c = 8 << 20
	}
	return 8192*uint64(n) + c
}

func memTag(mode string, n int, delta uint64) string {
	if delta <= budget(mode, n) {
		return "mem=ok"
	}
	return "mem=EXCESS"
}

func runSafe(mode, name, hx string) string {
	setMode(mode)
	data := h.UnHex(hx)
	v := byName[name].New()
	var used int
	var err error
	_, delta := measure(func() string { used, err = decodeInto(data, v); return "" })
	tag := memTag(mode, len(data), delta)
	if err != nil {
		return "err " + tag
	}
	re, err := encodePooled(v)
	r := "1"
	if err != nil {
		r = "E"
	} else if used > len(data) || !bytes.Equal(re, data[:used]) {
		r = "0"
	}
	return fmt.Sprintf("ok used=%d reenc=%s %s", used, r, tag)
}

func runFrame(mode, hx string) string {
	setMode(mode)
	data := h.UnHex(hx)
	m := &fuzz.Message{}
	_, delta := measure(func() string { _, _ = m.ReadFrom(bytes.NewReader(data)); return "" })
	if tag := memTag(mode, len(data), delta); tag != "mem=ok" {
		return tag
	}
	return "safe"
}

func runPeer(hx string) string {
	data := h.UnHex(hx)
	p := &fuzz.PeerInfo{}
	_, delta := measure(func() string { _ = p.UnmarshalBinary(data); return "" })
	if tag := memTag("t", len(data), delta); tag != "mem=ok" {
		return tag
	}
	e := &fuzz.ErrorMessage{}
	_, delta = measure(func() string { _ = e.UnmarshalBinary(data); return "" })
	if tag := memTag("t", len(data), delta); tag != "mem=ok" {
		return tag
	}
	return "safe"
}

// Run executes one case in this process.
func Run(input string) string {
	f := strings.Fields(input)
	switch f[0] {
	case "rt":
		return runRT(f[1], f[2], h.U(f[3]), f[4])
	case "frt":
		return runFRT(f[1], h.U(f[2]), f[3])
	case "dec":
		return runDec(f[1], f[2], f[3])
	case "safe":
		return runSafe(f[1], f[2], f[3])
	case "frame":
		return runFrame(f[1], f[2])
	case "peer":
		return runPeer(f[1])
	}
	panic("verifh: bad case " + input)
}

// ---------------------------------------------------------------------------------------------
// worker process: decoding attacker-shaped input can exhaust memory, which the Go runtime treats as
// a fatal error that recover() does not see.  Cases therefore run in a child process under an
// address-space limit; when the child dies the case is reported as GOFATAL and a new child starts.

const workerAS = 3 << 30 // bytes of address space for the child

func WorkerLoop() {
	logger.Disable()
	_ = syscall.Setrlimit(syscall.RLIMIT_AS, &syscall.Rlimit{Cur: workerAS, Max: workerAS})
	debug.SetMaxStack(8 << 20) // unbounded recursion dies quickly instead of growing a 1 GB stack
	in := bufio.NewReaderSize(os.Stdin, 1<<20)
	w := bufio.NewWriterSize(os.Stdout, 1<<16)
	for {
		line, err := in.ReadString('\n')
		if len(line) > 0 {
			line = strings.TrimRight(line, "\n")
			out := h.Guard(func() string { return Run(line) })
			w.WriteString(out)
			w.WriteByte('\n')
			w.Flush()
		}
		if err != nil {
			return
		}
	}
}

type worker struct {
	cmd *exec.Cmd
	in  io.WriteCloser
	out *bufio.Reader
}

var cur *worker

func startWorker() *worker {
	exe, err := os.Executable()
	if err != nil {
		panic("verifh: " + err.Error())
	}
	c := exec.Command(exe, "worker")
	c.Stderr = io.Discard
	in, _ := c.StdinPipe()
	out, _ := c.StdoutPipe()
	if err := c.Start(); err != nil {
		panic("verifh: cannot start worker: " + err.Error())
	}
	return &worker{cmd: c, in: in, out: bufio.NewReaderSize(out, 1<<16)}
}

func (w *worker) kill() {
	_ = w.in.Close()
	_ = w.cmd.Process.Kill()
	_ = w.cmd.Wait()
}

// RunViaWorker sends the case to the child and returns its answer.
func RunViaWorker(input string) string {
	if cur == nil {
		cur = startWorker()
	}
	w := cur
	if _, err := io.WriteString(w.in, input+"\n"); err != nil {
		w.kill()
		cur = nil
		return "GOFATAL worker-died"
	}
	type res struct {
		s   string
		err error
	}
	ch := make(chan res, 1)
	go func() {
		s, err := w.out.ReadString('\n')
		ch <- res{s, err}
	}()
	select {
	case r := <-ch:
		if r.err != nil {
			w.kill()
			cur = nil
			return "GOFATAL worker-died"
		}
		return strings.TrimRight(r.s, "\n")
	case <-time.After(240 * time.Second): // wall clock: generous, the machine may be heavily loaded
		w.kill()
		cur = nil
		return "GOFATAL timeout"
	}
}

// RunAll implements `run`: all cases are written to the worker ahead of the answers being read, so
// that the two processes do not wait for each other on every case.  If the worker dies, the case it
// was working on is GOFATAL and a new worker continues with the next one.
func RunAll() {
	var lines []string
	sc := bufio.NewScanner(os.Stdin)
	sc.Buffer(make([]byte, 1<<20), 1<<28)
	for sc.Scan() {
		line := sc.Text()
		if line == "" || line[0] == '#' {
			continue
		}
		if i := strings.Index(line, " | "); i >= 0 {
			line = line[:i]
		}
		lines = append(lines, line)
	}
	out := bufio.NewWriterSize(os.Stdout, 1<<20)
	defer out.Flush()
	emit := func(i int, res string) {
		out.WriteString(lines[i])
		out.WriteString(" | ")
		out.WriteString(res)
		out.WriteByte('\n')
	}
	i := 0
	for i < len(lines) {
		w := startWorker()
		go func(start int) {
			bw := bufio.NewWriterSize(w.in, 1<<16)
			for j := start; j < len(lines); j++ {
				if _, err := bw.WriteString(lines[j]); err != nil {
					return
				}
				if err := bw.WriteByte('\n'); err != nil {
					return
				}
			}
			bw.Flush()
			w.in.Close()
		}(i)
		type res struct {
			s   string
			err error
		}
		ch := make(chan res)
		done := make(chan struct{})
		go func() {
			for {
				s, err := w.out.ReadString('\n')
				select {
				case ch <- res{s, err}:
				case <-done:
					return
				}
				if err != nil {
					return
				}
			}
		}()
		alive := true
		for alive && i < len(lines) {
			select {
			case r := <-ch:
				if r.err != nil {
					emit(i, "GOFATAL worker-died")
					alive = false
				} else {
					emit(i, strings.TrimRight(r.s, "\n"))
				}
			case <-time.After(120 * time.Second): // wall clock: generous, the machine may be heavily loaded
				emit(i, "GOFATAL timeout")
				alive = false
			}
			i++
		}
		close(done)
		w.kill()
	}
}
