//go:build verif

// Package verifcodec is the shared Go side of the C11/C13/C14 checks (overlay only): a table of the
// serialisable types of internal/types, a reflection-driven random value generator that respects
// the fixed-length invariants of the codec, a structural equality that identifies nil and empty
// slices/maps, and the case runners.
package verifcodec

import (
	"reflect"

	"github.com/New-JAMneration/JAM-Protocol/internal/types"
	h "github.com/New-JAMneration/JAM-Protocol/internal/verifh"
)

// Entry is one top-level codec entry point: New returns a pointer to a zero value.
type Entry struct {
	Name string
	New  func() any
	Big  bool // large values: generated less often, never in full mode
}

func e[T any](name string) Entry { return Entry{Name: name, New: func() any { return new(T) }} }
func big[T any](name string) Entry {
	return Entry{Name: name, New: func() any { return new(T) }, Big: true}
}

// Table lists every type of internal/types that has both Encode and Decode.
var Table = []Entry{
	e[types.U8]("U8"), e[types.U16]("U16"), e[types.U32]("U32"), e[types.U64]("U64"),
	e[types.OpaqueHash]("OpaqueHash"), e[types.HeaderHash]("HeaderHash"), e[types.StateRoot]("StateRoot"),
	e[types.BeefyRoot]("BeefyRoot"), e[types.WorkPackageHash]("WorkPackageHash"), e[types.WorkReportHash]("WorkReportHash"),
	e[types.TicketID]("TicketID"), e[types.AuthorizerHash]("AuthorizerHash"),
	e[types.BandersnatchPublic]("BandersnatchPublic"), e[types.Ed25519Public]("Ed25519Public"),
	e[types.BlsPublic]("BlsPublic"), e[types.BandersnatchVrfSignature]("BandersnatchVrfSignature"),
	e[types.BandersnatchRingVrfSignature]("BandersnatchRingVrfSignature"),
	e[types.BandersnatchRingCommitment]("BandersnatchRingCommitment"), e[types.ValidatorMetadata]("ValidatorMetadata"),
	e[types.TimeSlot]("TimeSlot"), e[types.ServiceID]("ServiceID"), e[types.Gas]("Gas"),
	e[types.ValidatorIndex]("ValidatorIndex"), e[types.CoreIndex]("CoreIndex"), e[types.TicketAttempt]("TicketAttempt"),
	e[types.ByteSequence]("ByteSequence"), e[types.TimeSlotSet]("TimeSlotSet"),
	e[types.EpochMarkValidatorKeys]("EpochMarkValidatorKeys"), e[types.EpochMark]("EpochMark"),
	e[types.TicketBody]("TicketBody"), e[types.TicketsMark]("TicketsMark"), e[types.OffendersMark]("OffendersMark"),
	e[types.Header]("Header"),
	e[types.WorkPackageSpec]("WorkPackageSpec"), e[types.RefineContext]("RefineContext"),
	e[types.SegmentRootLookupItem]("SegmentRootLookupItem"), e[types.SegmentRootLookup]("SegmentRootLookup"),
	e[types.WorkExecResult]("WorkExecResult"), e[types.RefineLoad]("RefineLoad"), e[types.WorkResult]("WorkResult"),
	e[types.WorkReport]("WorkReport"),
	e[types.TicketEnvelope]("TicketEnvelope"), e[types.TicketsExtrinsic]("TicketsExtrinsic"),
	e[types.Preimage]("Preimage"), e[types.PreimagesExtrinsic]("PreimagesExtrinsic"),
	e[types.ValidatorSignature]("ValidatorSignature"), e[types.ReportGuarantee]("ReportGuarantee"),
	e[types.GuaranteesExtrinsic]("GuaranteesExtrinsic"), e[types.Bitfield]("Bitfield"),
	e[types.AvailAssurance]("AvailAssurance"), e[types.AssurancesExtrinsic]("AssurancesExtrinsic"),
	e[types.Judgement]("Judgement"), e[types.Verdict]("Verdict"), e[types.Culprit]("Culprit"), e[types.Fault]("Fault"),
	e[types.DisputesExtrinsic]("DisputesExtrinsic"), e[types.Extrinsic]("Extrinsic"), e[types.Block]("Block"),
	e[types.Authorizer]("Authorizer"), e[types.ImportSpec]("ImportSpec"), e[types.WorkItem]("WorkItem"),
	e[types.WorkPackage]("WorkPackage"), e[types.ExtrinsicData]("ExtrinsicData"),
	e[types.ExtrinsicDataList]("ExtrinsicDataList"), e[types.ExportSegment]("ExportSegment"),
	big[types.ExportSegmentMatrix]("ExportSegmentMatrix"), e[types.OpaqueHashMatrix]("OpaqueHashMatrix"),
	big[types.WorkPackageBundle]("WorkPackageBundle"),
	e[types.AuthPool]("AuthPool"), e[types.AuthPools]("AuthPools"), e[types.AuthQueue]("AuthQueue"),
	big[types.AuthQueues]("AuthQueues"), e[types.ReportedWorkPackage]("ReportedWorkPackage"),
	e[types.BlockInfo]("BlockInfo"), e[types.BlocksHistory]("BlocksHistory"), e[types.Mmr]("Mmr"),
	e[types.RecentBlocks]("RecentBlocks"), e[types.Validator]("Validator"), big[types.ValidatorsData]("ValidatorsData"),
	e[types.TicketsOrKeys]("TicketsOrKeys"), e[types.TicketsAccumulator]("TicketsAccumulator"),
	big[types.SafroleState]("SafroleState"), e[types.DisputesRecords]("DisputesRecords"),
	e[types.EntropyBuffer]("EntropyBuffer"), e[types.AvailabilityAssignment]("AvailabilityAssignment"),
	e[types.AvailabilityAssignments]("AvailabilityAssignments"), e[types.ServiceIDList]("ServiceIDList"),
	e[types.AlwaysAccumulateMap]("AlwaysAccumulateMap"), e[types.Privileges]("Privileges"),
	e[types.ValidatorActivityRecord]("ValidatorActivityRecord"), e[types.ValidatorsStatistics]("ValidatorsStatistics"),
	e[types.CoreActivityRecord]("CoreActivityRecord"), e[types.CoresStatistics]("CoresStatistics"),
	e[types.ServiceActivityRecord]("ServiceActivityRecord"), e[types.ServicesStatistics]("ServicesStatistics"),
	e[types.Statistics]("Statistics"), e[types.ReadyRecord]("ReadyRecord"), e[types.ReadyQueueItem]("ReadyQueueItem"),
	big[types.ReadyQueue]("ReadyQueue"), e[types.AccumulatedQueueItem]("AccumulatedQueueItem"),
	e[types.AccumulatedQueue]("AccumulatedQueue"), e[types.AccumulatedServiceHash]("AccumulatedServiceHash"),
	e[types.LastAccOut]("LastAccOut"), e[types.AccumulatedServiceOutput]("AccumulatedServiceOutput"),
	e[types.ServiceInfo]("ServiceInfo"), e[types.PreimagesMapEntry]("PreimagesMapEntry"),
	e[types.LookupMetaMapEntry]("LookupMetaMapEntry"), e[types.Storage]("Storage"),
	e[types.ServiceAccount]("ServiceAccount"), e[types.ServiceAccountState]("ServiceAccountState"),
	big[types.State]("State"),
	// the same type with a non-empty Theta (LastAccOut), which State.Encode does not write
	big[types.State]("StateTheta"),
	e[types.DeferredTransfer]("DeferredTransfer"), e[types.Operand]("Operand"),
	e[types.OperandOrDeferredTransfer]("OperandOrDeferredTransfer"),
	e[types.StateKey]("StateKey"), e[types.StateKeyVal]("StateKeyVal"), e[types.StateKeyVals]("StateKeyVals"),
	e[types.BoundaryNode]("BoundaryNode"), e[types.AncestryItem]("AncestryItem"), e[types.Ancestry]("Ancestry"),
}

var byName = func() map[string]Entry {
	m := map[string]Entry{}
	for _, x := range Table {
		m[x.Name] = x
	}
	return m
}()

// ---------------------------------------------------------------------------------------------
// random values

type G struct {
	R     *h.Rng
	Depth int
}

// count draws a sequence length: mostly 0..3, sometimes across the 1-byte/2-byte length-prefix border
func (g *G) count(small bool) int {
	switch x := g.R.Intn(100); {
	case x < 25:
		return 0
	case x < 90 || small || g.Depth > 3:
		return 1 + g.R.Intn(3)
	case x < 97:
		return 4 + g.R.Intn(12)
	default:
		return 120 + g.R.Intn(20) // 128 = first length that needs two bytes
	}
}

func (g *G) blobLen() int {
	switch x := g.R.Intn(100); {
	case x < 20:
		return 0
	case x < 85:
		return 1 + g.R.Intn(40)
	case x < 95:
		return 120 + g.R.Intn(20)
	case x < 99:
		return 16380 + g.R.Intn(10) // 16384 = first length that needs three bytes
	default:
		return 70000
	}
}

func (g *G) uintBits(bits int) uint64 {
	max := ^uint64(0)
	if bits < 64 {
		max = (uint64(1) << uint(bits)) - 1
	}
	switch g.R.Intn(10) {
	case 0:
		return 0
	case 1:
		return max
	case 2:
		return max - uint64(g.R.Intn(3))
	case 3, 4:
		// around a compact-encoding class border 2^(7k)
		k := 1 + g.R.Intn(9)
		v := (uint64(1) << uint(7*k%64)) + uint64(g.R.Intn(3)) - 1
		return v & max
	case 5:
		return uint64(g.R.Intn(300))
	default:
		return (g.R.U64() >> uint(g.R.Intn(64))) & max
	}
}

var (
	tBitfield      = reflect.TypeOf(types.Bitfield{})
	tTicketsOrKeys = reflect.TypeOf(types.TicketsOrKeys{})
	tWorkExec      = reflect.TypeOf(types.WorkExecResult{})
	tOpOrDt        = reflect.TypeOf(types.OperandOrDeferredTransfer{})
	tEpochMark     = reflect.TypeOf(types.EpochMark{})
	tVerdict       = reflect.TypeOf(types.Verdict{})
	tStorage       = reflect.TypeOf(types.Storage{})
	tAccOut        = reflect.TypeOf(types.AccumulatedServiceOutput{})
	tExportSeg     = reflect.TypeOf(types.ExportSegment{})
)

// fixedLen gives the exact length the codec demands of a slice type (-1: free; -2-n: at most n)
func fixedLen(t reflect.Type) int {
	switch t.Name() {
	case "ValidatorsData", "ValidatorsStatistics":
		return types.ValidatorsCount
	case "TicketsMark", "ReadyQueue", "AccumulatedQueue":
		return types.EpochLength
	case "ServiceIDList", "CoresStatistics", "AuthPools", "AuthQueues", "AvailabilityAssignments":
		return types.CoresCount
	case "AuthQueue":
		return types.AuthQueueSize
	case "AuthPool":
		return -2 - types.AuthPoolMaxSize
	case "BlocksHistory":
		return -2 - types.MaxBlocksHistory
	case "Ancestry":
		return -2 - types.MaxLookupAge
	}
	return -1
}

var execKinds = []types.WorkExecResultType{types.WorkExecResultOk, types.WorkExecResultOutOfGas, types.WorkExecResultPanic,
	types.WorkExecResultBadExports, types.WorkExecResultReportOversize, types.WorkExecResultBadCode, types.WorkExecResultCodeOversize}

// Fill sets v (addressable) to a random value of its type.
func (g *G) Fill(v reflect.Value) {
	g.Depth++
	defer func() { g.Depth-- }()
	t := v.Type()
	switch t {
	case tBitfield:
		bf := make(types.Bitfield, types.CoresCount)
		for i := range bf {
			bf[i] = byte(g.R.Intn(2))
		}
		v.Set(reflect.ValueOf(bf))
		return
	case tTicketsOrKeys:
		var x types.TicketsOrKeys
		if g.R.Bool() {
			x.Tickets = make([]types.TicketBody, types.EpochLength)
			for i := range x.Tickets {
				g.Fill(reflect.ValueOf(&x.Tickets[i]).Elem())
			}
		} else {
			x.Keys = make([]types.BandersnatchPublic, types.EpochLength)
			for i := range x.Keys {
				g.Fill(reflect.ValueOf(&x.Keys[i]).Elem())
			}
		}
		v.Set(reflect.ValueOf(x))
		return
	case tWorkExec:
		var x types.WorkExecResult
		x.Type = execKinds[g.R.Intn(len(execKinds))]
		if g.R.Chance(1, 2) {
			x.Type = types.WorkExecResultOk
		}
		if x.Type == types.WorkExecResultOk {
			if n := g.blobLen(); n > 0 {
				x.Data = g.R.Bytes(n)
			}
		}
		v.Set(reflect.ValueOf(x))
		return
	case tOpOrDt:
		var x types.OperandOrDeferredTransfer
		if g.R.Bool() {
			x.Operand = new(types.Operand)
			g.Fill(reflect.ValueOf(x.Operand).Elem())
		} else {
			x.DeferredTransfer = new(types.DeferredTransfer)
			g.Fill(reflect.ValueOf(x.DeferredTransfer).Elem())
		}
		v.Set(reflect.ValueOf(x))
		return
	case tStorage:
		n := g.count(false)
		if n == 0 {
			return
		}
		m := types.Storage{}
		for i := 0; i < n; i++ {
			kl := g.R.Intn(34)
			if g.R.Chance(1, 3) {
				kl = 31
			}
			var val types.ByteSequence
			if l := g.blobLen(); l > 0 {
				val = g.R.Bytes(l)
			}
			m[string(g.R.Bytes(kl))] = val
		}
		v.Set(reflect.ValueOf(m))
		return
	case tAccOut:
		n := g.count(false)
		if n == 0 {
			return
		}
		m := types.AccumulatedServiceOutput{}
		for i := 0; i < n; i++ {
			var k types.AccumulatedServiceHash
			g.Fill(reflect.ValueOf(&k).Elem())
			if g.R.Chance(1, 3) {
				k.ServiceID = types.ServiceID(g.R.Intn(3))
			}
			m[k] = true
		}
		v.Set(reflect.ValueOf(m))
		return
	}
	switch t.Kind() {
	case reflect.Bool:
		v.SetBool(g.R.Bool())
	case reflect.Uint8, reflect.Uint16, reflect.Uint32, reflect.Uint64:
		v.SetUint(g.uintBits(t.Bits()))
	case reflect.String:
		v.SetString(string(g.R.Bytes(g.R.Intn(20))))
	case reflect.Array:
		if t.Elem().Kind() == reflect.Uint8 {
			b := g.R.Bytes(t.Len())
			if g.R.Chance(1, 8) {
				for i := range b {
					b[i] = 0
				}
			}
			reflect.Copy(v, reflect.ValueOf(b))
			return
		}
		for i := 0; i < t.Len(); i++ {
			g.Fill(v.Index(i))
		}
	case reflect.Slice:
		if t.Elem().Kind() == reflect.Uint8 {
			if n := g.blobLen(); n > 0 {
				v.SetBytes(g.R.Bytes(n))
			}
			return
		}
		n := g.count(t.Elem() == tExportSeg || t.Elem().Kind() == reflect.Slice && t.Elem().Elem() == tExportSeg)
		switch f := fixedLen(t); {
		case f >= 0:
			n = f
		case f <= -2:
			if max := -2 - f; n > max {
				n = max
			}
		}
		if n == 0 {
			return // nil: what every decoder returns for an empty sequence
		}
		s := reflect.MakeSlice(t, n, n)
		for i := 0; i < n; i++ {
			g.Fill(s.Index(i))
		}
		v.Set(s)
	case reflect.Map:
		n := g.count(false)
		if n == 0 {
			return
		}
		m := reflect.MakeMap(t)
		// keys are drawn first and inserted in a random order; small key ranges provoke near collisions
		keys := make([]reflect.Value, 0, n)
		for i := 0; i < n; i++ {
			k := reflect.New(t.Key()).Elem()
			g.Fill(k)
			if t.Key().Kind() == reflect.Uint32 && g.R.Chance(1, 2) {
				k.SetUint(uint64([]uint32{0, 1, 255, 256, 257, 65535, 65536, 1 << 24, 1<<32 - 1}[g.R.Intn(9)]))
			}
			keys = append(keys, k)
		}
		for i := len(keys) - 1; i > 0; i-- {
			j := g.R.Intn(i + 1)
			keys[i], keys[j] = keys[j], keys[i]
		}
		for _, k := range keys {
			val := reflect.New(t.Elem()).Elem()
			g.Fill(val)
			m.SetMapIndex(k, val)
		}
		v.Set(m)
	case reflect.Ptr:
		if g.R.Chance(1, 3) {
			return
		}
		p := reflect.New(t.Elem())
		g.Fill(p.Elem())
		v.Set(p)
	case reflect.Struct:
		for i := 0; i < t.NumField(); i++ {
			if !v.Field(i).CanSet() {
				continue
			}
			g.Fill(v.Field(i))
		}
		switch t {
		case tEpochMark:
			x := v.Addr().Interface().(*types.EpochMark)
			x.Validators = make([]types.EpochMarkValidatorKeys, types.ValidatorsCount)
			for i := range x.Validators {
				g.Fill(reflect.ValueOf(&x.Validators[i]).Elem())
			}
		case tVerdict:
			x := v.Addr().Interface().(*types.Verdict)
			x.Votes = make([]types.Judgement, types.ValidatorsSuperMajority)
			for i := range x.Votes {
				g.Fill(reflect.ValueOf(&x.Votes[i]).Elem())
			}
		}
	default:
		panic("verifh: cannot generate " + t.String())
	}
}

// Eqv is reflect.DeepEqual except that nil and empty slices / maps are the same value.
func Eqv(a, b reflect.Value) bool {
	if a.Type() != b.Type() {
		return false
	}
	switch a.Kind() {
	case reflect.Slice:
		if a.Len() != b.Len() {
			return false
		}
		for i := 0; i < a.Len(); i++ {
			if !Eqv(a.Index(i), b.Index(i)) {
				return false
			}
		}
		return true
	case reflect.Array:
		for i := 0; i < a.Len(); i++ {
			if !Eqv(a.Index(i), b.Index(i)) {
				return false
			}
		}
		return true
	case reflect.Map:
		if a.Len() != b.Len() {
			return false
		}
		it := a.MapRange()
		for it.Next() {
			bv := b.MapIndex(it.Key())
			if !bv.IsValid() || !Eqv(it.Value(), bv) {
				return false
			}
		}
		return true
	case reflect.Ptr:
		if a.IsNil() || b.IsNil() {
			return a.IsNil() == b.IsNil()
		}
		return Eqv(a.Elem(), b.Elem())
	case reflect.Struct:
		for i := 0; i < a.NumField(); i++ {
			if !Eqv(a.Field(i), b.Field(i)) {
				return false
			}
		}
		return true
	default:
		return reflect.DeepEqual(a.Interface(), b.Interface())
	}
}
