//go:build verif && vi_extrinsic_c20

package extrinsic

import "github.com/New-JAMneration/JAM-Protocol/internal/types"

// Add-only exports for the /verif C20 harness (injected by `go build -overlay`, tag verif).

// VerifPermute exposes permute (GP 11.20).
func VerifPermute(e types.Entropy, slot types.TimeSlot) []types.CoreIndex { return permute(e, slot) }

// VerifRotateCores exposes rotateCores (GP 11.19).
func VerifRotateCores(in []types.U32, n types.U32) []types.U32 { return rotateCores(in, n) }
