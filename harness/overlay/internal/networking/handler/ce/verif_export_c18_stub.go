//go:build verif && !vi_ce_c18

package ce

// VerifConstructMerkleCoPath exposes constructMerkleCoPath (CE 140) to the C18 harness.
func VerifConstructMerkleCoPath(segmentShardSequence [][]byte, segmentIndex uint16) ([]byte, error) {
	panic("VERIF-UNAVAILABLE: VerifConstructMerkleCoPath")
}
