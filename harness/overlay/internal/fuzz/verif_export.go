//go:build verif && vi_fuzz

package fuzz

// Exports for the /verif harness (overlay only).
func VerifCompactEncode(x uint64) []byte           { return compactEncode(x) }
func VerifCompactDecode(data []byte) (uint64, int) { return compactDecode(data) }
