//go:build verif && !vi_fuzz

package fuzz

// Exports for the /verif harness (overlay only; STUB: built when the unexported helper is gone).
func VerifCompactEncode(x uint64) []byte           { panic("VERIF-UNAVAILABLE: VerifCompactEncode") }
func VerifCompactDecode(data []byte) (uint64, int) { panic("VERIF-UNAVAILABLE: VerifCompactDecode") }
