//go:build verif && vi_recenthistory_c25

package recent_history

// VerifSetMaxBlocksHistory sets the package's history capacity H (a package variable initialised from
// types.MaxBlocksHistory) so that the C25 harness can exercise other capacities. Overlay only.
func VerifSetMaxBlocksHistory(n int) { maxBlocksHistory = n }

// VerifMaxBlocksHistory reads it back.
func VerifMaxBlocksHistory() int { return maxBlocksHistory }
