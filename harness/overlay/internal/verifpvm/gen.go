//go:build verif

package verifpvm

import (
	"fmt"
	"strconv"
	"strings"

	h "github.com/New-JAMneration/JAM-Protocol/internal/verifh"
)

// ---- blob assembly -------------------------------------------------------------------------

func encNat(x uint64) []byte {
	if x < 128 {
		return []byte{byte(x)}
	}
	for l := 1; l < 8; l++ {
		if x < uint64(1)<<(7*uint(l+1)) {
			b := []byte{byte(256 - (1 << (8 - uint(l))) + int(x>>(8*uint(l))))}
			for i := 0; i < l; i++ {
				b = append(b, byte(x>>(8*uint(i))))
			}
			return b
		}
	}
	b := []byte{0xFF}
	for i := 0; i < 8; i++ {
		b = append(b, byte(x>>(8*uint(i))))
	}
	return b
}

// MkBlob builds E(|j|) E_1(z) E(|c|) E_z(j) c k.
func MkBlob(jt []uint32, z int, code []byte, mask []bool) []byte {
	var b []byte
	b = append(b, encNat(uint64(len(jt)))...)
	b = append(b, byte(z))
	b = append(b, encNat(uint64(len(code)))...)
	for _, e := range jt {
		for i := 0; i < z; i++ {
			b = append(b, byte(e>>(8*uint(i))))
		}
	}
	b = append(b, code...)
	kb := make([]byte, (len(code)+7)/8)
	for i, m := range mask {
		if m {
			kb[i/8] |= 1 << uint(i%8)
		}
	}
	b = append(b, kb...)
	return b
}

// Asm accumulates instructions: code bytes plus the bitmask bit at each instruction start.
type Asm struct {
	Code   []byte
	Mask   []bool
	Starts []int
}

func (a *Asm) Ins(bs ...byte) int {
	pc := len(a.Code)
	a.Starts = append(a.Starts, pc)
	for i, b := range bs {
		a.Code = append(a.Code, b)
		a.Mask = append(a.Mask, i == 0)
	}
	return pc
}

func leBytes(v uint64, n int) []byte {
	b := make([]byte, n)
	for i := range b {
		b[i] = byte(v >> (8 * uint(i)))
	}
	return b
}

// ---- value pools ---------------------------------------------------------------------------

var boundary64 = []uint64{0, 1, 2, 7, 8, 31, 32, 33, 63, 64, 65, 127, 128, 255, 256, 0x7FFF, 0x8000, 0xFFFF, 0x10000,
	0x7FFFFFFF, 0x80000000, 0x80000001, 0xFFFFFFFF, 0x100000000, 0x100000001, 0x7FFFFFFFFFFFFFFF, 0x8000000000000000,
	0x8000000000000001, 0xFFFFFFFFFFFFFFFF, 0xFFFFFFFFFFFFFFFE, 0xFFFFFFFF00000000, 0xFFFFFFFF80000000, 0xFFFFFFFF7FFFFFFF,
	0x0123456789ABCDEF, 0xFEDCBA9876543210, 0xAAAAAAAAAAAAAAAA, 0x5555555555555555, 0xFFFF0000, 0xFFFEFFFE}

// the standard memory map of the sweeps: pages 16 (RW), 17 (RO), 18 (present, inaccessible), 19 absent,
// 20 (RW), 32 (RW); a few non-zero bytes at page edges
const stdPages = "@B"
const stdPagesAcc0 = "@A"

var addrPool = []uint64{0, 1, 0xFFF8, 0xFFFC, 0xFFFF, 0x10000, 0x10001, 0x10FF8, 0x10FF9, 0x10FFC, 0x10FFD, 0x10FFE, 0x10FFF, 0x11000,
	0x11FF9, 0x11FFC, 0x11FFF, 0x12000, 0x12FFC, 0x12FFF, 0x13000, 0x13FFD, 0x14000, 0x14FF8, 0x14FFF, 0x20000, 0x20008,
	0xFFFFFFF8, 0xFFFFFFFC, 0xFFFFFFFF, 0xFFFF0000, 0x100010000, 0xFFFFFFFF00010FFC}

func randReg(r *h.Rng) uint64 {
	switch r.Intn(10) {
	case 0, 1, 2:
		return boundary64[r.Intn(len(boundary64))]
	case 3, 4, 5:
		return addrPool[r.Intn(len(addrPool))]
	case 6:
		return uint64(r.Intn(16))
	case 7:
		return r.U64() >> uint(r.Intn(64))
	default:
		return r.U64()
	}
}

func randRegs(r *h.Rng) string {
	s := make([]string, 13)
	for i := range s {
		s[i] = strconv.FormatUint(randReg(r), 10)
	}
	return strings.Join(s, ",")
}

type Case struct {
	Blob  []byte
	PC    int
	Gas   int64
	Regs  string
	HP    uint64
	HL    uint64
	Pages string
	Tab   int
}

func (c Case) String() string {
	return fmt.Sprintf("run %s %d %d %s %d %d %s %d", h.Hex(c.Blob), c.PC, c.Gas, c.Regs, c.HP, c.HL, c.Pages, c.Tab)
}

var validOps = func() []byte {
	var v []byte
	add := func(lo, hi int) {
		for i := lo; i <= hi; i++ {
			v = append(v, byte(i))
		}
	}
	add(0, 1)
	add(10, 10)
	add(20, 20)
	add(30, 33)
	add(40, 40)
	add(50, 62)
	add(70, 73)
	add(80, 90)
	add(100, 111)
	add(120, 161)
	add(170, 175)
	add(180, 180)
	add(190, 230)
	return v
}()

func isValidOp(b byte) bool {
	for _, v := range validOps {
		if v == b {
			return true
		}
	}
	return false
}

func isTerm(b byte) bool {
	return b == 0 || b == 1 || b == 40 || b == 50 || (b >= 80 && b <= 90) || (b >= 170 && b <= 175) || b == 180
}

// ---- stream 1: exhaustive opcode x skip x position x operand-byte pairs ---------------------

var pairBytes = []byte{0x00, 0x01, 0x07, 0x08, 0x0C, 0x0D, 0x10, 0x21, 0x34, 0x48, 0x7F, 0x80, 0x8C, 0xC7, 0xF4, 0xFF}

// SweepOpts steers the sweep away from behaviours that are known defects of the unchanged tree.
type SweepOpts struct {
	Pairs      [][2]byte
	InvalidOps bool // include undefined opcodes
	OpenEnd    bool // include position "end" for non-terminators (program not ending in a terminator)
}

func genSweep(r *h.Rng, o SweepOpts, emit func(string), st h.Stats) {
	jt := []uint32{0, 1, 2, 3, 5, 40}
	for op := 0; op < 256; op++ {
		valid := isValidOp(byte(op))
		if !valid && !o.InvalidOps {
			continue
		}
		for skip := 0; skip <= 24; skip++ {
			for pos := 0; pos < 3; pos++ {
				if pos == 2 && !o.OpenEnd && !(valid && isTerm(byte(op))) {
					continue
				}
				seen := map[[2]byte]bool{}
				for _, pr := range o.Pairs {
					key := pr
					if skip < 2 {
						key[1] = 0
					}
					if skip < 1 {
						key[0] = 0
					}
					if seen[key] {
						continue
					}
					seen[key] = true
					a := &Asm{}
					if pos >= 1 {
						a.Ins(1)       // fallthrough: the instruction under test starts a block at pc 1
						a.Ins(100, 0x79) // move_reg r9 <- r7 : under test sits mid-block at pc 3
					}
					ins := []byte{byte(op)}
					fill := []byte{0x00, 0xFF, 0x80, 0x7F, 0x01, byte(r.U64())}[r.Intn(6)]
					for i := 0; i < skip; i++ {
						switch i {
						case 0:
							ins = append(ins, key[0])
						case 1:
							ins = append(ins, key[1])
						default:
							if fill == 0x01 {
								ins = append(ins, byte(i))
							} else {
								ins = append(ins, fill)
							}
						}
					}
					pc := a.Ins(ins...)
					if pos < 2 {
						a.Ins(1)
						a.Ins(51, 0x0B, 0x2A) // load_imm r11 = 42 : shows that execution went on
						a.Ins(0)
					}
					start := 0
					if r.Intn(8) == 0 {
						start = pc
					}
					c := Case{Blob: MkBlob(jt, 1, a.Code, a.Mask), PC: start, Gas: 50, Regs: randRegs(r), HP: 0x21000, HL: 0x30000,
						Pages: stdPagesAcc0, Tab: 1024}
					emit(c.String())
					st.Inc(fmt.Sprintf("sweep-pos%d", pos))
				}
			}
		}
	}
}

// ---- stream 2: random instruction streams ----------------------------------------------------

type RandOpts struct {
	InvalidPct   int  // percentage of undefined opcodes
	OpenEndPct   int  // percentage of programs not ending in a terminator
	WildMaskPct  int  // percentage of programs with a fully random bitmask
	SelfJump     bool // allow branch offsets of 0 (jump to self)
	BigEcalli    bool // ecalli immediates over 100
	TwoImmJumpSx bool // load_imm_jump_ind with immediates whose top bit is set
}

func randImm(r *h.Rng, n int) []byte {
	if n == 0 {
		return nil
	}
	var v uint64
	switch r.Intn(6) {
	case 0:
		v = uint64(r.Intn(8))
	case 1:
		v = boundary64[r.Intn(len(boundary64))]
	case 2:
		v = addrPool[r.Intn(len(addrPool))]
	case 3:
		v = ^uint64(r.Intn(8))
	default:
		v = r.U64()
	}
	return leBytes(v, n)
}

// one random instruction; targets are fixed up later (offsets are relative, so we just pick small ones)
func randIns(r *h.Rng, o RandOpts, op byte) []byte {
	reg := func() byte { return byte(r.Intn(13)) }
	reg2 := func() byte {
		if r.Intn(20) == 0 {
			return byte(r.U64())
		}
		return reg() | reg()<<4
	}
	off := func(n int) []byte {
		if n == 0 {
			return nil
		}
		v := int64(r.Intn(24)) - 8
		if !o.SelfJump && v == 0 {
			v = 1
		}
		return leBytes(uint64(v), n)
	}
	ilen := func() int { return r.Intn(5) }
	switch {
	case op == 0 || op == 1:
		return []byte{op}
	case op == 10:
		n := ilen()
		b := randImm(r, n)
		if n > 0 {
			v := uint64(r.Intn(100))
			if o.BigEcalli && r.Intn(3) == 0 {
				v = []uint64{100, 101, 255, 256, 300, 1023, 1024, 0x7FFFFFFF, 0xFFFFFFFF, 0x80}[r.Intn(10)]
			}
			b = leBytes(v, n)
			if !o.BigEcalli && n == 1 && v >= 128 {
				b[0] = byte(v % 100)
			}
		}
		return append([]byte{op}, b...)
	case op == 20:
		return append([]byte{op, reg()}, randImm(r, 8)...)
	case op >= 30 && op <= 33:
		lx := r.Intn(5)
		ly := r.Intn(5)
		b := []byte{op, byte(lx)}
		b = append(b, randImm(r, lx)...)
		return append(b, randImm(r, ly)...)
	case op == 40:
		return append([]byte{op}, off(1+r.Intn(2))...)
	case op >= 50 && op <= 62:
		return append([]byte{op, reg()}, randImm(r, ilen())...)
	case op >= 70 && op <= 73:
		lx := r.Intn(5)
		b := []byte{op, reg() | byte(lx)<<4}
		b = append(b, randImm(r, lx)...)
		return append(b, randImm(r, r.Intn(5))...)
	case op >= 80 && op <= 90:
		lx := r.Intn(5)
		b := []byte{op, reg() | byte(lx)<<4}
		b = append(b, randImm(r, lx)...)
		return append(b, off(r.Intn(3))...)
	case op >= 100 && op <= 111:
		return []byte{op, reg2()}
	case op >= 120 && op <= 161:
		return append([]byte{op, reg2()}, randImm(r, ilen())...)
	case op >= 170 && op <= 175:
		return append([]byte{op, reg2()}, off(r.Intn(3))...)
	case op == 180:
		lx := r.Intn(5)
		b := []byte{op, reg2(), byte(lx)}
		ix := randImm(r, lx)
		iy := randImm(r, r.Intn(5))
		if !o.TwoImmJumpSx {
			if len(ix) > 0 {
				ix[len(ix)-1] &= 0x7F
			}
			if len(iy) > 0 {
				iy[len(iy)-1] &= 0x7F
			}
		}
		b = append(b, ix...)
		return append(b, iy...)
	case op >= 190 && op <= 230:
		d := reg()
		if r.Intn(20) == 0 {
			d = byte(r.U64())
		}
		return []byte{op, reg2(), d}
	default: // undefined opcode with a few operand bytes
		return append([]byte{op}, r.Bytes(r.Intn(4))...)
	}
}

func randMemPages(r *h.Rng, acc0 bool) string {
	if acc0 && r.Intn(2) == 0 {
		return stdPagesAcc0
	}
	return stdPages
}

func genRandomProgram(r *h.Rng, o RandOpts) Case {
	a := &Asm{}
	n := 1 + r.Intn(24)
	for i := 0; i < n; i++ {
		var op byte
		if r.Intn(100) < o.InvalidPct {
			op = byte(r.U64())
		} else {
			op = validOps[r.Intn(len(validOps))]
			// bias towards control flow and memory
			if r.Intn(4) == 0 {
				op = []byte{40, 50, 80, 81, 82, 170, 171, 180, 10, 51, 52, 59, 62, 101, 120, 124, 130, 33, 73, 1, 58, 123}[r.Intn(22)]
			}
		}
		a.Ins(randIns(r, o, op)...)
	}
	if r.Intn(100) >= o.OpenEndPct {
		a.Ins([]byte{0, 1, 0, 0}[r.Intn(4)])
	}
	if r.Intn(100) < o.WildMaskPct {
		for i := range a.Mask {
			a.Mask[i] = r.Intn(3) == 0
		}
		a.Mask[0] = true
	}
	// jump table: mostly instruction starts (even addresses 2,4,.. map to entries 0,1,..)
	nj := r.Intn(6)
	jt := make([]uint32, nj)
	for i := range jt {
		if r.Intn(5) == 0 {
			jt[i] = uint32(r.Intn(len(a.Code) + 3))
		} else {
			jt[i] = uint32(a.Starts[r.Intn(len(a.Starts))])
		}
	}
	z := []int{1, 1, 2, 2, 3, 4, 0}[r.Intn(7)]
	if z == 0 {
		for i := range jt {
			jt[i] = 0
		}
	}
	pc := 0
	if r.Intn(6) == 0 {
		// an instruction start (entering at an address whose bitmask bit is clear is outside the model)
		pc = a.Starts[r.Intn(len(a.Starts))]
		if !a.Mask[pc] {
			pc = 0
		}
	} else if r.Intn(40) == 0 {
		pc = len(a.Code) + r.Intn(3)
	}
	gas := int64(r.Intn(120))
	if r.Intn(10) == 0 {
		gas = int64(r.Intn(4))
	}
	hp := []uint64{0x21000, 0x20000, 0x20800, 0x14000, 0x2FFF0}[r.Intn(5)]
	hl := []uint64{0x30000, 0x21000, 0x22000, 0x40000, 0x2FFFF}[r.Intn(5)]
	if hl < hp {
		hl = hp
	}
	c := Case{Blob: MkBlob(jt, z, a.Code, a.Mask), PC: pc, Gas: gas, Regs: randRegs(r), HP: hp, HL: hl,
		Pages: randMemPages(r, true), Tab: []int{1024, 1024, 64, 101, 300}[r.Intn(5)]}
	return c
}

// ---- stream 3 (C05): loads / stores of every width around page boundaries, sbrk sequences -------

var loadOps = []byte{52, 53, 54, 55, 56, 57, 58}
var storeOps = []byte{59, 60, 61, 62}
var storeImmOps = []byte{30, 31, 32, 33}
var storeImmIndOps = []byte{70, 71, 72, 73}
var storeIndOps = []byte{120, 121, 122, 123}
var loadIndOps = []byte{124, 125, 126, 127, 128, 129, 130}

// MemOpts: Wrap allows accesses that wrap around 2^32; Acc0 allows present-but-inaccessible pages.
type MemOpts struct {
	Wrap bool
	Acc0 bool
}

func memAddr(r *h.Rng, o MemOpts) uint32 {
	edges := []uint32{0x10000, 0x11000, 0x12000, 0x13000, 0x14000, 0x15000, 0x20000, 0x21000}
	e := edges[r.Intn(len(edges))]
	a := e - 9 + uint32(r.Intn(18))
	switch r.Intn(12) {
	case 0:
		a = uint32(r.Intn(0x10000))
	case 1:
		a = 0x10000 - 8 + uint32(r.Intn(10))
	case 2:
		if o.Wrap {
			a = 0xFFFFFFF6 + uint32(r.Intn(10))
		} else {
			a = 0xFFFFF000 - 9 + uint32(r.Intn(9))
		}
	}
	return a
}

func genMemProgram(r *h.Rng, o MemOpts) Case {
	a := &Asm{}
	n := 1 + r.Intn(6)
	regs := make([]uint64, 13)
	for i := range regs {
		regs[i] = randReg(r)
	}
	for i := 0; i < n; i++ {
		addr := memAddr(r, o)
		switch r.Intn(6) {
		case 0: // load rA, [imm]
			a.Ins(append([]byte{loadOps[r.Intn(7)], byte(r.Intn(13))}, leBytes(uint64(addr), 4)...)...)
		case 1: // store [imm], rA
			a.Ins(append([]byte{storeOps[r.Intn(4)], byte(r.Intn(13))}, leBytes(uint64(addr), 4)...)...)
		case 2: // store_imm [imm], imm
			b := append([]byte{storeImmOps[r.Intn(4)], 4}, leBytes(uint64(addr), 4)...)
			a.Ins(append(b, randImm(r, 1+r.Intn(4))...)...)
		case 3: // store_imm_ind [rA + imm], imm   (base register set to addr - d)
			ra := r.Intn(13)
			d := uint32(r.Intn(16))
			regs[ra] = uint64(addr - d)
			if r.Intn(4) == 0 {
				regs[ra] |= r.U64() << 32
			}
			b := append([]byte{storeImmIndOps[r.Intn(4)], byte(ra) | 1<<4, byte(d)}, randImm(r, 1+r.Intn(4))...)
			a.Ins(b...)
		case 4: // store_ind [rB + imm], rA
			rb := r.Intn(13)
			d := uint32(r.Intn(16))
			regs[rb] = uint64(addr - d)
			a.Ins(storeIndOps[r.Intn(4)], byte(r.Intn(13))|byte(rb)<<4, byte(d))
		case 5: // load_ind rA, [rB + imm]
			rb := r.Intn(13)
			d := uint32(r.Intn(16))
			regs[rb] = uint64(addr - d)
			a.Ins(loadIndOps[r.Intn(7)], byte(r.Intn(13))|byte(rb)<<4, byte(d))
		}
		if i > 0 && r.Intn(3) == 0 { // earlier base registers may have been overwritten by loads: fine
			continue
		}
	}
	a.Ins(0)
	rs := make([]string, 13)
	for i := range rs {
		rs[i] = strconv.FormatUint(regs[i], 10)
	}
	pages := stdPages
	if o.Acc0 {
		pages = stdPagesAcc0
	}
	if r.Intn(4) == 0 { // top-of-address-space pages and a low page
		pages = PagePresets[pages]
		pages += ";1048574:2:4088=0102030405060708;1048575:2:4088=1112131415161718"
		if r.Intn(2) == 0 {
			pages = "0:2:0=99;15:2:4094=7777;" + pages
		}
	}
	return Case{Blob: MkBlob(nil, 0, a.Code, a.Mask), PC: 0, Gas: 40, Regs: strings.Join(rs, ","), HP: 0x21000, HL: 0x30000,
		Pages: pages, Tab: 64}
}

func genSbrkProgram(r *h.Rng) Case {
	a := &Asm{}
	hp := []uint64{0x21000, 0x21000, 0x20F00, 0x20FFF, 0x22001, 0x30000}[r.Intn(6)]
	hl := hp + []uint64{0, 1, 4095, 4096, 4097, 3 * 4096, 0x10000, 0x100000}[r.Intn(8)]
	n := 1 + r.Intn(6)
	left := hl - hp
	for i := 0; i < n; i++ {
		var req uint64
		switch r.Intn(8) {
		case 0:
			req = 0
		case 1:
			req = left // exactly to the limit
		case 2:
			req = left + 1 // one past
		case 3:
			req = ^uint64(0) - uint64(r.Intn(4096)) // wraps
		case 4:
			req = 1 + uint64(r.Intn(16))
		case 5:
			req = 4096 - uint64(r.Intn(3))
		default:
			req = uint64(r.Intn(3 * 4096))
		}
		if req <= left {
			left -= req
		}
		ra, rd := byte(2+r.Intn(4)), byte(6+r.Intn(6))
		a.Ins(append([]byte{20, ra}, leBytes(req, 8)...)...) // load_imm_64 rA = req
		a.Ins(101, rd|ra<<4)                                  // sbrk rD, rA
		switch r.Intn(3) {                                    // touch the returned region
		case 0:
			a.Ins(123, 1|rd<<4, 0xF8) // store_ind_u64 [rD - 8] = r1
		case 1:
			a.Ins(124, 12|rd<<4, 0xFF) // load_ind_u8 r12 = [rD - 1]
		}
	}
	a.Ins(0)
	pages := stdPages
	if r.Intn(3) == 0 { // a page already mapped inside the heap range
		pages = PagePresets[pages]
		pages += fmt.Sprintf(";%d:1:5=4242", (hp/4096)+1)
	}
	return Case{Blob: MkBlob(nil, 0, a.Code, a.Mask), PC: 0, Gas: 100, Regs: randRegs(r), HP: hp, HL: hl, Pages: pages, Tab: 64}
}

// ---- stream 2b: structured programs that mostly keep running -----------------------------------
// Two passes: choose opcodes and operand lengths (so every instruction start is known), then fill
// operands: branch targets are basic-block starts, memory operands hit mapped pages, dynamic jumps
// go through the jump table, r0 holds the halt address.

type proto struct {
	op      byte
	regs    []byte // register bytes following the opcode
	immLens []int  // immediates (filled randomly or by role)
	offLen  int    // trailing branch offset length (0 = none)
	size    int
	role    int // 0 plain, 1 abs-address memory op, 2 jump-table index load, 3 halt address
	extra   uint64
}

var aluOps3 = func() []byte {
	var v []byte
	for i := 190; i <= 230; i++ {
		v = append(v, byte(i))
	}
	return v
}()
var aluOps2i = func() []byte {
	var v []byte
	for i := 131; i <= 161; i++ {
		v = append(v, byte(i))
	}
	return v
}()
var aluOps2 = []byte{100, 102, 103, 104, 105, 106, 107, 108, 109, 110, 111}

func rwAddr(r *h.Rng) uint64 {
	base := []uint64{0x10000, 0x10FF0, 0x14000, 0x14FF8, 0x20000, 0x20010}[r.Intn(6)]
	return base + uint64(r.Intn(9))
}

func genStructuredProgram(r *h.Rng, selfJump bool) Case {
	n := 4 + r.Intn(28)
	ps := make([]proto, 0, n+2)
	dst := func() byte { // destination register, mostly outside the base registers
		if r.Intn(8) == 0 {
			return byte(r.Intn(13))
		}
		return byte(4 + r.Intn(9))
	}
	src := func() byte { return byte(r.Intn(13)) }
	for i := 0; i < n; i++ {
		var p proto
		switch k := r.Intn(100); {
		case k < 30:
			p = proto{op: aluOps3[r.Intn(len(aluOps3))], regs: []byte{src() | src()<<4, dst()}}
		case k < 48:
			p = proto{op: aluOps2i[r.Intn(len(aluOps2i))], regs: []byte{dst() | src()<<4}, immLens: []int{r.Intn(5)}}
		case k < 54:
			p = proto{op: aluOps2[r.Intn(len(aluOps2))], regs: []byte{dst() | src()<<4}}
		case k < 60:
			p = proto{op: 51, regs: []byte{dst()}, immLens: []int{r.Intn(5)}}
		case k < 63:
			p = proto{op: 20, regs: []byte{dst()}, immLens: []int{8}}
		case k < 69: // load / store with an absolute address
			op := append(append([]byte{}, loadOps...), storeOps...)[r.Intn(11)]
			p = proto{op: op, regs: []byte{dst()}, immLens: []int{4}, role: 1}
		case k < 75: // indirect through base registers r1..r3
			op := append(append([]byte{}, loadIndOps...), storeIndOps...)[r.Intn(11)]
			p = proto{op: op, regs: []byte{dst() | byte(1+r.Intn(3))<<4}, immLens: []int{1}}
		case k < 78:
			p = proto{op: storeImmOps[r.Intn(4)], regs: []byte{4}, immLens: []int{4, 1 + r.Intn(4)}, role: 1}
		case k < 80:
			p = proto{op: storeImmIndOps[r.Intn(4)], regs: []byte{byte(1+r.Intn(3)) | 1<<4}, immLens: []int{1, 1 + r.Intn(4)}}
		case k < 86:
			p = proto{op: byte(81 + r.Intn(10)), regs: []byte{src() | byte(r.Intn(3))<<4}, offLen: 1 + r.Intn(2)}
			p.immLens = []int{int(p.regs[0] >> 4)}
		case k < 91:
			p = proto{op: byte(170 + r.Intn(6)), regs: []byte{src() | src()<<4}, offLen: 1 + r.Intn(2)}
		case k < 93:
			p = proto{op: 40, offLen: 1 + r.Intn(2)}
		case k < 94:
			p = proto{op: 80, regs: []byte{dst() | 1<<4}, immLens: []int{1}, offLen: 1}
		case k < 96:
			p = proto{op: 10, immLens: []int{1 + r.Intn(2)}}
		case k < 97:
			p = proto{op: 1}
		case k < 98:
			p = proto{op: 101, regs: []byte{dst() | byte(9+r.Intn(4))<<4}}
		default: // dynamic jump through the table: load_imm r12 = 2*(i+1); jump_ind r12
			ps = append(ps, proto{op: 51, regs: []byte{12}, immLens: []int{1}, role: 2})
			p = proto{op: 50, regs: []byte{12}, immLens: []int{r.Intn(2)}}
		}
		ps = append(ps, p)
	}
	switch r.Intn(4) {
	case 0:
		ps = append(ps, proto{op: 0})
	case 1:
		// nothing: open end
		ps = append(ps, proto{op: 1})
	default:
		ps = append(ps, proto{op: 50, regs: []byte{0}, immLens: []int{0}, role: 3}) // jump_ind r0 (halt address)
	}
	// layout
	pcs := make([]int, len(ps))
	pos := 0
	for i := range ps {
		sz := 1 + len(ps[i].regs) + ps[i].offLen
		for _, l := range ps[i].immLens {
			sz += l
		}
		ps[i].size = sz
		pcs[i] = pos
		pos += sz
	}
	var bbs []int
	bbs = append(bbs, 0)
	for i := range ps {
		if isTerm(ps[i].op) && i+1 < len(ps) {
			bbs = append(bbs, pcs[i+1])
		}
	}
	nj := 1 + r.Intn(5)
	jt := make([]uint32, nj)
	for i := range jt {
		if r.Intn(8) == 0 {
			jt[i] = uint32(pcs[r.Intn(len(pcs))])
		} else {
			jt[i] = uint32(bbs[r.Intn(len(bbs))])
		}
	}
	a := &Asm{}
	for i := range ps {
		p := ps[i]
		b := []byte{p.op}
		b = append(b, p.regs...)
		for k, l := range p.immLens {
			switch {
			case p.role == 1 && k == 0:
				b = append(b, leBytes(rwAddr(r), l)...)
			case p.role == 2:
				b = append(b, leBytes(uint64(2*(1+r.Intn(nj))), l)...)
			case p.op == 10:
				b = append(b, leBytes(uint64(r.Intn(40)), l)...)
			case (p.op >= 120 && p.op <= 130) || (p.op >= 70 && p.op <= 73 && k == 0):
				b = append(b, byte(r.Intn(16)))
			default:
				b = append(b, randImm(r, l)...)
			}
		}
		if p.offLen > 0 {
			var tgt int
			switch r.Intn(10) {
			case 0:
				tgt = pcs[r.Intn(len(pcs))]
			case 1:
				tgt = pcs[i] + r.Intn(20) - 6
			default:
				// forward targets preferred so that most programs terminate
				tgt = bbs[r.Intn(len(bbs))]
				if tgt <= pcs[i] && r.Intn(3) != 0 {
					for _, t := range bbs {
						if t > pcs[i] {
							tgt = t
							break
						}
					}
				}
			}
			off := int64(tgt - pcs[i])
			if off == 0 && !selfJump {
				off = int64(p.size)
			}
			b = append(b, leBytes(uint64(off), p.offLen)...)
		}
		a.Ins(b...)
	}
	regs := make([]string, 13)
	for i := range regs {
		v := randReg(r)
		switch {
		case i == 0 && r.Intn(8) != 0:
			v = 0xFFFF0000
		case i >= 1 && i <= 3:
			v = rwAddr(r)
		case i >= 9 && r.Intn(2) == 0:
			v = uint64(r.Intn(5000))
		}
		regs[i] = strconv.FormatUint(v, 10)
	}
	gas := int64(20 + r.Intn(200))
	return Case{Blob: MkBlob(jt, []int{1, 2, 3, 4}[r.Intn(4)], a.Code, a.Mask), PC: 0, Gas: gas, Regs: strings.Join(regs, ","),
		HP: 0x21000, HL: []uint64{0x30000, 0x22000, 0x21800}[r.Intn(3)], Pages: randMemPages(r, true), Tab: []int{1024, 64, 32}[r.Intn(3)]}
}
