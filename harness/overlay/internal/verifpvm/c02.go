//go:build verif

package verifpvm

// C02: the same case lines as C01 ("run <blob> <pc> <gas> <regs> <hp> <hl> <pages> <tab>"), executed in BOTH
// engines of the interpreter:
//
//	B = Interpreter.SingleStepInvokeDecodedBlocks  (pre-decoded block engine, used by Host.HostCall)
//	S = Interpreter.SingleStepInvoke               (decode-at-execute engine, used for inner machines)
//
// Each engine runs on its own program, registers, gas and memory. The Psi_H loop is driven here (Host.HostCall is
// tied to the block engine): after every host-call exit the host function Host.HostCall would select (VerifC02Omega)
// is applied to that engine's state and the engine is resumed from ITS OWN returned counter.
//
// output:  <B-result> || <S-result>
//
//	result = <exit> <pc> <r0,..,r12> <gas> <hp> <trace> <pages>     (or GOPANIC <kind> for that engine alone)
//	trace  = "-" or ','-joined "<id>@<pc>" for every host-call exit: full identifier and the counter the engine returned
//
// For the block engine the real Host.HostCall is run as well on a third copy; if its observables differ from the
// loop driven here the B-result is prefixed "DRIFT:" (guards this file against changes of Host.HostCall).

import (
	"fmt"
	"strconv"
	"strings"

	"github.com/New-JAMneration/JAM-Protocol/PVM"
	h "github.com/New-JAMneration/JAM-Protocol/internal/verifh"
)

type c02Case struct {
	blob   []byte
	pc     PVM.ProgramCounter
	gas    int64
	regs   PVM.Registers
	hp, hl uint64
	pages  []PageSpec
	tab    int
}

func (c *c02Case) memory() *PVM.Memory {
	mem := PVM.VerifC01NewMemory(c.hp, c.hl)
	for _, p := range c.pages {
		val := make([]byte, PVM.ZP)
		for o, b := range p.Data {
			val[o] = b
		}
		mem.Pages[p.Idx] = &PVM.Page{Value: val, Access: PVM.MemoryAccess(p.Acc)}
	}
	return mem
}

const c02MaxCalls = 100000

// c02Engine runs one engine through the Psi_H loop. engine 0 = block engine, 1 = single-step engine.
func c02Engine(c *c02Case, engine int) string {
	prog, ex := PVM.DeBlobProgramCode(c.blob)
	if ex != PVM.ExitContinue {
		return "deblob-panic"
	}
	mem := c.memory()
	before := fmtMem(mem)
	var log []uint64
	host := PVM.NewHost(&prog, c.regs, mem, PVM.Gas(c.gas), PVM.HostCallArgs{}, hostTable(c.tab, &log))
	ip := &host.Interpreter
	pc := c.pc
	var trace []string
	var exit PVM.ExitReason
	var pcOut PVM.ProgramCounter
	for calls := 0; ; calls++ {
		if calls > c02MaxCalls {
			return "NOTERM"
		}
		var e PVM.ExitReason
		var p PVM.ProgramCounter
		if engine == 0 {
			e, p = ip.SingleStepInvokeDecodedBlocks(pc)
		} else {
			e, p = ip.SingleStepInvoke(pc)
		}
		if e.GetReasonType() != PVM.HOST_CALL {
			exit, pcOut = e, p
			break
		}
		trace = append(trace, strconv.FormatUint(e.HostCallIndex(), 10)+"@"+strconv.FormatUint(uint64(p), 10))
		omega, op := PVM.VerifC02Omega(host.HostCalls, e, ip.Gas)
		in := PVM.OmegaInput{Operation: op, Addition: host.Addition, HostCalls: host.HostCalls,
			VM: &PVM.VMState{Registers: &ip.Registers, Memory: ip.Memory, Gas: &ip.Gas}}
		res := omega(in)
		if res.ExitReason != PVM.ExitContinue {
			exit, pcOut = res.ExitReason, p
			break
		}
		host.Addition = res.Addition
		pc = p
	}
	hpo, _ := PVM.VerifC01Heap(ip.Memory)
	after := fmtMem(ip.Memory)
	if after == before {
		after = "="
	}
	tr := "-"
	if len(trace) > 0 {
		tr = strings.Join(trace, ",")
	}
	return fmt.Sprintf("%s %d %s %d %d %s %s", fmtExit(exit), uint32(pcOut), fmtRegs(ip.Registers), int64(ip.Gas), hpo, tr, after)
}

// c02Real runs the real Host.HostCall (block engine); result without the trace.
func c02Real(c *c02Case) string {
	prog, ex := PVM.DeBlobProgramCode(c.blob)
	if ex != PVM.ExitContinue {
		return "deblob-panic"
	}
	mem := c.memory()
	before := fmtMem(mem)
	var log []uint64
	host := PVM.NewHost(&prog, c.regs, mem, PVM.Gas(c.gas), PVM.HostCallArgs{}, hostTable(c.tab, &log))
	res := host.HostCall(c.pc, 0)
	hpo, _ := PVM.VerifC01Heap(res.VM.Memory)
	after := fmtMem(res.VM.Memory)
	if after == before {
		after = "="
	}
	return fmt.Sprintf("%s %d %s %d %d %s", fmtExit(res.ExitReason), res.Counter, fmtRegs(*res.VM.Registers), int64(*res.VM.Gas), hpo, after)
}

func dropTrace(s string) string {
	f := strings.Fields(s)
	if len(f) != 7 {
		return s
	}
	return strings.Join(append(f[:5:5], f[6]), " ")
}

// RunC02 executes one case line in both engines.
func RunC02(input string) string {
	t := strings.Fields(input)
	if len(t) != 9 || t[0] != "run" {
		return "BADCASE"
	}
	gas, err := strconv.ParseInt(t[3], 10, 64)
	if err != nil {
		return "BADCASE"
	}
	c := &c02Case{blob: h.UnHex(t[1]), pc: PVM.ProgramCounter(h.U(t[2])), gas: gas, regs: parseRegs(t[4]),
		hp: h.U(t[5]), hl: h.U(t[6]), pages: parsePages(t[7]), tab: h.I(t[8])}
	b := h.Guard(func() string { return c02Engine(c, 0) })
	s := h.Guard(func() string { return c02Engine(c, 1) })
	real := h.Guard(func() string { return c02Real(c) })
	if real != dropTrace(b) {
		b = "DRIFT:" + b
	}
	return b + " || " + s
}
