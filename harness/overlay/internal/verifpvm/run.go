//go:build verif

// Package verifpvm is the shared Go side of the C01 / C04 / C05 checks: it runs PVM programs through
// the real top-level path (DeBlobProgramCode + Host.HostCall, i.e. the block engine, or Psi_M) and
// prints every observable of the final machine state in a canonical form.
//
// case input
//
//	run  <blob> <pc> <gas> <r0,..,r12> <hp> <hl> <pages> <tab>
//	psim <code-blob> <gaslimit>
//
// <blob>  = program blob (A.2) in hex; <gas> signed decimal; <pages> = "-", a preset "@A"/"@B", or ';'-joined
// "idx:acc[:off=hex]*" (acc 0 = present but inaccessible, 1 = read-only, 2 = read-write);
// <tab> = size of the host-call table (id 0 = the real gas call, 1..tab-1 = logging no-ops).
//
// output of run:  <exit> <pc> <r0,..,r12> <gas> <hp> <hostlog> <pages>
//
//	exit = halt | panic | oog | fault:<addr> | deblob-panic ; <pages> is "=" when memory is exactly as at the start
//
// output of psim: <gas-used> <oog|panic|halt:<hex or "-">>
package verifpvm

import (
	"fmt"
	"runtime/debug"
	"sort"
	"strconv"
	"strings"

	"github.com/New-JAMneration/JAM-Protocol/PVM"
	"github.com/New-JAMneration/JAM-Protocol/internal/types"
	h "github.com/New-JAMneration/JAM-Protocol/internal/verifh"
)

func init() { debug.SetGCPercent(400) }

type PageSpec struct {
	Idx  uint32
	Acc  int
	Data map[int]byte
}

// page-map presets, so that the case lines of the sweeps stay short
var PagePresets = map[string]string{
	"@A": "16:2:0=1122334455667788:4088=8899aabbccddeeff;17:1:0=0102030405060708:4090=a1a2a3a4a5a6;18:0:0=5a5a5a5a:4092=a5a5a5a5;20:2:4095=7f;32:2:8=ff",
	"@B": "16:2:0=1122334455667788:4088=8899aabbccddeeff;17:1:0=0102030405060708:4090=a1a2a3a4a5a6;20:2:4095=7f;32:2:8=ff",
}

func parsePages(s string) []PageSpec {
	if s == "-" || s == "" {
		return nil
	}
	if p, ok := PagePresets[s]; ok {
		s = p
	}
	var out []PageSpec
	for _, ps := range strings.Split(s, ";") {
		f := strings.Split(ps, ":")
		p := PageSpec{Idx: uint32(h.U(f[0])), Acc: h.I(f[1]), Data: map[int]byte{}}
		for _, r := range f[2:] {
			kv := strings.SplitN(r, "=", 2)
			off := h.I(kv[0])
			for i, b := range h.UnHex(kv[1]) {
				p.Data[off+i] = b
			}
		}
		out = append(out, p)
	}
	return out
}

// FmtPage renders one page canonically: idx:acc followed by the maximal runs of non-zero bytes.
func FmtPage(idx uint32, acc int, val []byte) string {
	var sb strings.Builder
	fmt.Fprintf(&sb, "%d:%d", idx, acc)
	i := 0
	for {
		i = nextNonZero(val, i)
		if i >= len(val) {
			break
		}
		j := i
		for j < len(val) && val[j] != 0 {
			j++
		}
		fmt.Fprintf(&sb, ":%d=%s", i, h.Hex(val[i:j]))
		i = j
	}
	return sb.String()
}

func fmtMem(m *PVM.Memory) string {
	if len(m.Pages) == 0 {
		return "-"
	}
	idx := make([]uint32, 0, len(m.Pages))
	for k := range m.Pages {
		idx = append(idx, k)
	}
	sort.Slice(idx, func(i, j int) bool { return idx[i] < idx[j] })
	parts := make([]string, 0, len(idx))
	for _, k := range idx {
		p := m.Pages[k]
		parts = append(parts, FmtPage(k, int(p.Access), p.Value))
	}
	return strings.Join(parts, ";")
}

func fmtRegs(r PVM.Registers) string {
	s := make([]string, 13)
	for i := range r {
		s[i] = strconv.FormatUint(r[i], 10)
	}
	return strings.Join(s, ",")
}

func parseRegs(s string) PVM.Registers {
	var r PVM.Registers
	f := strings.Split(s, ",")
	for i := 0; i < 13 && i < len(f); i++ {
		r[i] = h.U(f[i])
	}
	return r
}

func fmtLog(l []uint64) string {
	if len(l) == 0 {
		return "-"
	}
	s := make([]string, len(l))
	for i, v := range l {
		s[i] = strconv.FormatUint(v, 10)
	}
	return strings.Join(s, ",")
}

// hostTable builds the logging host-call table: entry 0 is the node's real gas host call,
// entries 1..tab-1 record their own index and continue.
func hostTable(tab int, log *[]uint64) PVM.Omegas {
	om := make(PVM.Omegas, tab)
	for i := 0; i < tab; i++ {
		id := uint64(i)
		if i == 0 {
			real := PVM.HostCallFunctions[PVM.GasOp]
			om[i] = func(in PVM.OmegaInput) PVM.OmegaOutput {
				*log = append(*log, id)
				return real(in)
			}
		} else {
			om[i] = func(in PVM.OmegaInput) PVM.OmegaOutput {
				*log = append(*log, id)
				return PVM.OmegaOutput{ExitReason: PVM.ExitContinue, Addition: in.Addition}
			}
		}
	}
	return om
}

func fmtExit(e PVM.ExitReason) string {
	switch e.GetReasonType() {
	case PVM.HALT:
		return "halt"
	case PVM.PANIC:
		return "panic"
	case PVM.OUT_OF_GAS:
		return "oog"
	case PVM.PAGE_FAULT:
		return fmt.Sprintf("fault:%d", e.GetPageFaultAddress())
	case PVM.HOST_CALL:
		return "host"
	default:
		return fmt.Sprintf("unknown:%d", uint64(e))
	}
}

func runCase(t []string) string {
	blob := h.UnHex(t[1])
	pc := PVM.ProgramCounter(h.U(t[2]))
	gas, err := strconv.ParseInt(t[3], 10, 64)
	if err != nil {
		panic("verifh: bad gas " + t[3])
	}
	regs := parseRegs(t[4])
	hp, hl := h.U(t[5]), h.U(t[6])
	pages := parsePages(t[7])
	tab := h.I(t[8])

	prog, ex := PVM.DeBlobProgramCode(blob)
	if ex != PVM.ExitContinue {
		return "deblob-panic"
	}
	mem := PVM.VerifC01NewMemory(hp, hl)
	for _, p := range pages {
		val := make([]byte, PVM.ZP)
		for o, b := range p.Data {
			val[o] = b
		}
		mem.Pages[p.Idx] = &PVM.Page{Value: val, Access: PVM.MemoryAccess(p.Acc)}
	}
	before := fmtMem(mem)
	var log []uint64
	host := PVM.NewHost(&prog, regs, mem, PVM.Gas(gas), PVM.HostCallArgs{}, hostTable(tab, &log))
	res := host.HostCall(pc, 0)
	hpo, _ := PVM.VerifC01Heap(res.VM.Memory)
	after := fmtMem(res.VM.Memory)
	if after == before {
		after = "=" // memory (page set, access classes, every byte) exactly as at the start
	}
	return fmt.Sprintf("%s %d %s %d %d %s %s", fmtExit(res.ExitReason), res.Counter, fmtRegs(*res.VM.Registers),
		int64(*res.VM.Gas), hpo, fmtLog(log), after)
}

// StdBlob wraps a code blob into the standard program format (A.37) used by psim:
// no read-only data, 16 bytes of read-write data 01..10, z = 1 heap page, 4096 bytes of stack.
func StdBlob(code []byte) []byte {
	w := make([]byte, 16)
	for i := range w {
		w[i] = byte(i + 1)
	}
	var b []byte
	le := func(v uint64, n int) {
		for i := 0; i < n; i++ {
			b = append(b, byte(v>>(8*uint(i))))
		}
	}
	le(0, 3)
	le(uint64(len(w)), 3)
	le(1, 2)
	le(4096, 3)
	b = append(b, w...)
	le(uint64(len(code)), 4)
	b = append(b, code...)
	return b
}

func psimCase(t []string) string {
	code := h.UnHex(t[1])
	limit := h.U(t[2])
	var log []uint64
	res := PVM.Psi_M(PVM.StandardCodeFormat(StdBlob(code)), 0, types.Gas(limit), PVM.Argument{}, hostTable(64, &log), PVM.HostCallArgs{})
	kind := ""
	switch v := res.ReasonOrBytes.(type) {
	case PVM.ExitReasonType:
		switch v {
		case PVM.OUT_OF_GAS:
			kind = "oog"
		case PVM.PANIC:
			kind = "panic"
		default:
			kind = fmt.Sprintf("reason:%d", v)
		}
	case PVM.ExitReason:
		kind = fmtExit(v)
	case nil:
		kind = "halt:-"
	case []byte:
		if len(v) > 64 {
			kind = fmt.Sprintf("halt:big%d", len(v))
		} else {
			kind = "halt:" + h.Hex(v)
		}
	case types.ByteSequence:
		if len(v) > 64 {
			kind = fmt.Sprintf("halt:big%d", len(v))
		} else {
			kind = "halt:" + h.Hex(v)
		}
	default:
		kind = fmt.Sprintf("other:%T", v)
	}
	return fmt.Sprintf("%d %s", uint64(res.Gas), kind)
}

// Run executes one case line.
func Run(input string) string {
	t := strings.Fields(input)
	if len(t) == 0 {
		return "BADCASE"
	}
	switch t[0] {
	case "run":
		if len(t) != 9 {
			return "BADCASE"
		}
		return runCase(t)
	case "psim":
		if len(t) != 3 {
			return "BADCASE"
		}
		return psimCase(t)
	case "rng":
		if len(t) != 4 {
			return "BADCASE"
		}
		return rangeCase(t)
	case "xfer":
		if len(t) != 7 {
			return "BADCASE"
		}
		return xferCase(t)
	}
	return "BADCASE"
}
