//go:build verif

package verifpvm

import (
	"fmt"
	"strconv"

	"github.com/New-JAMneration/JAM-Protocol/PVM"
	"github.com/New-JAMneration/JAM-Protocol/internal/service_account"
	"github.com/New-JAMneration/JAM-Protocol/internal/types"
	"github.com/New-JAMneration/JAM-Protocol/internal/utilities/hash"
	h "github.com/New-JAMneration/JAM-Protocol/internal/verifh"
)

// C04, transfer stream (added by the coordinator after a seeded change — transfer's gas argument charged before
// the CASH check — was missed): an accumulate program  load_imm r7 dest; load_imm r8 amount; load_imm_64 r9 l;
// load_imm r10 memo; ecalli 20; load_imm r7 0; load_imm r8 0; jump_ind r0  run through the real PVM.Psi_A.
// input : xfer <limit> <destexists 0|1> <minmemo> <balance> <amount> <l>
// output: <gas used> <halt|oog|panic|other> <transfers recorded> thr=<sender threshold>
const (
	xferSelf = 77
	xferDest = 88
)

func xferProgram(destExists bool, amount uint32, l uint64) []byte {
	a := &Asm{}
	a.Ins(0)
	a.Ins(1)
	a.Ins(1)
	a.Ins(1)
	a.Ins(1)
	dest := uint32(xferDest)
	if !destExists {
		dest = 99
	}
	a.Ins(append([]byte{51, 7}, leBytes(uint64(dest), 4)...)...)
	a.Ins(append([]byte{51, 8}, leBytes(uint64(amount), 4)...)...)
	a.Ins(append([]byte{20, 9}, leBytes(l, 8)...)...)
	a.Ins(append([]byte{51, 10}, leBytes(0x20000, 4)...)...)
	a.Ins(10, 20)
	a.Ins(51, 7, 0)
	a.Ins(51, 8, 0)
	a.Ins(50, 0)
	return MkBlob(nil, 0, a.Code, a.Mask)
}

func xferStd(code []byte) []byte {
	w := make([]byte, 128)
	var b []byte
	b = append(b, leBytes(0, 3)...)
	b = append(b, leBytes(uint64(len(w)), 3)...)
	b = append(b, leBytes(0, 2)...)
	b = append(b, leBytes(4096, 3)...)
	b = append(b, w...)
	b = append(b, leBytes(uint64(len(code)), 4)...)
	b = append(b, code...)
	return b
}

func xferAccount(code []byte, balance uint64, minMemo uint64) types.ServiceAccount {
	acc := types.ServiceAccount{PreimageLookup: types.PreimagesMapEntry{}, LookupDict: types.LookupMetaMapEntry{}, StorageDict: types.Storage{}}
	acc.ServiceInfo.Balance = types.U64(balance)
	acc.ServiceInfo.MinMemoGas = types.Gas(minMemo)
	if code != nil {
		mc := types.MetaCode{Metadata: []byte{0x41}, Code: code}
		enc, err := types.NewEncoder().Encode(&mc)
		if err != nil {
			panic("verifh: metacode")
		}
		hh := hash.Blake2bHash(enc)
		acc.ServiceInfo.CodeHash = hh
		acc.PreimageLookup[hh] = enc
		acc.LookupDict[types.LookupMetaMapkey{Hash: hh, Length: types.U32(len(enc))}] = types.TimeSlotSet{0}
		acc.ServiceInfo.Items = 2
		acc.ServiceInfo.Bytes = types.U64(81 + len(enc))
	}
	return acc
}

// XferThreshold is the sender's threshold balance for the program of the given parameters.
func XferThreshold(destExists bool, amount uint32, l uint64) uint64 {
	acc := xferAccount(xferStd(xferProgram(destExists, amount, l)), 0, 0)
	return uint64(service_account.CalcThresholdBalance(acc.ServiceInfo.Items, acc.ServiceInfo.Bytes, acc.ServiceInfo.DepositOffset))
}

func xferCase(t []string) string {
	limit := h.U(t[1])
	destExists := t[2] == "1"
	minMemo := h.U(t[3])
	balance := h.U(t[4])
	amount := uint32(h.U(t[5]))
	l := h.U(t[6])
	types.SetTinyMode()
	prog := xferStd(xferProgram(destExists, amount, l))
	d := types.ServiceAccountState{xferSelf: xferAccount(prog, balance, 0), xferDest: xferAccount(nil, 5000, minMemo)}
	ps := types.PartialStateSet{ServiceAccounts: d, ValidatorKeys: make(types.ValidatorsData, types.ValidatorsCount),
		Authorizers: make(types.AuthQueues, types.CoresCount), Bless: 1, Designate: 2, CreateAcct: 3,
		Assign: make(types.ServiceIDList, types.CoresCount), AlwaysAccum: types.AlwaysAccumulateMap{}}
	for c := range ps.Authorizers {
		ps.Authorizers[c] = make(types.AuthQueue, types.AuthQueueSize)
	}
	res := PVM.Psi_A(ps, 7, xferSelf, types.Gas(limit), nil, types.Entropy{}, types.StateKeyVals{})
	// the exit kind is not returned by Psi_A; it shows in what was kept: a halt keeps the regular context
	return fmt.Sprintf("%d %d thr=%d", uint64(res.Gas), len(res.DeferredTransfers), XferThreshold(destExists, amount, l))
}

func genXfer(r *h.Rng, n int, emit func(string), st h.Stats) {
	for i := 0; i < n; i++ {
		destExists := r.Intn(6) != 0
		minMemo := uint64([]int{0, 0, 5, 10, 50}[r.Intn(5)])
		var l uint64
		switch r.Intn(8) {
		case 0:
			l = 0
		case 1:
			l = uint64(1) << 63
		case 2:
			l = ^uint64(0)
		case 3:
			l = minMemo
		default:
			l = uint64(r.Intn(80))
		}
		amount := uint32(r.Intn(2000))
		thr := XferThreshold(destExists, amount, l)
		var balance uint64
		switch r.Intn(4) {
		case 0:
			balance = thr + uint64(amount) // exactly affordable
		case 1:
			balance = thr + uint64(amount) - 1 // one short: CASH
			if thr+uint64(amount) == 0 {
				balance = 0
			}
		case 2:
			balance = uint64(r.Intn(int(thr) + 10))
		default:
			balance = thr + uint64(amount) + uint64(r.Intn(5000))
		}
		// the whole program costs 8 instructions + 10 (+ l): sweep the limits around every boundary
		base := []uint64{0, 1, 4, 5, 6, 14, 15, 16, 17, 18, 19, 25, 26, 1000, 1 << 40}
		if l < 1<<40 {
			base = append(base, 14+l, 15+l, 16+l, 17+l, 18+l, 19+l)
		}
		for _, lim := range base {
			emit("xfer " + strconv.FormatUint(lim, 10) + " " + map[bool]string{true: "1", false: "0"}[destExists] + " " +
				strconv.FormatUint(minMemo, 10) + " " + strconv.FormatUint(balance, 10) + " " + strconv.FormatUint(uint64(amount), 10) + " " +
				strconv.FormatUint(l, 10))
			st.Inc("xfer")
		}
	}
}
