//go:build verif

package verifpvm

import (
	"github.com/New-JAMneration/JAM-Protocol/PVM"
	"strconv"
	"strings"

	h "github.com/New-JAMneration/JAM-Protocol/internal/verifh"
)

func allPairs(n int) [][2]byte {
	var ps [][2]byte
	// n x n grid over the boundary bytes, spread evenly (the second byte is rotated so that
	// the diagonal does not pair every byte with itself)
	for i := 0; i < n; i++ {
		for j := 0; j < n; j++ {
			a := i * len(pairBytes) / n
			b := (j*len(pairBytes)/n + a) % len(pairBytes)
			ps = append(ps, [2]byte{pairBytes[a], pairBytes[b]})
		}
	}
	return ps
}

// stepsOf runs the case with a large gas budget and reports how much gas it consumed.
func stepsOf(c Case) int64 {
	c.Gas = 100000
	out := h.Guard(func() string { return Run(c.String()) })
	f := strings.Fields(out)
	if len(f) < 4 {
		return 8
	}
	g, err := strconv.ParseInt(f[3], 10, 64)
	if err != nil {
		return 8
	}
	return 100000 - g
}

// psimSteps reports the gas a code blob consumes under Psi_M with a budget of 100000.
func psimSteps(code []byte) int64 {
	out := h.Guard(func() string { return Run("psim " + h.Hex(code) + " 100000") })
	f := strings.Fields(out)
	if len(f) < 1 {
		return 0
	}
	g, err := strconv.ParseInt(f[0], 10, 64)
	if err != nil {
		return 0
	}
	return g
}

// GenC01: exhaustive single-instruction sweep + random programs + memory / sbrk programs.
func GenC01(r *h.Rng, tier string, emit func(string)) {
	st := h.Stats{}
	np, nrand, nmem, nsbrk := 3, 18000, 8000, 3000
	if tier == "thorough" {
		np, nrand, nmem, nsbrk = 8, 300000, 100000, 30000
	}
	genSweep(r, SweepOpts{Pairs: allPairs(np), InvalidOps: true, OpenEnd: true}, emit, st)
	for i := 0; i < nrand; i++ {
		emit(genRandomProgram(r, RandOpts{InvalidPct: 3, OpenEndPct: 15, WildMaskPct: 3, BigEcalli: true, TwoImmJumpSx: true}).String())
		st.Inc("random-program")
	}
	for i := 0; i < nrand/20; i++ {
		emit(genRandomProgram(r, RandOpts{InvalidPct: 3, OpenEndPct: 15, WildMaskPct: 3, SelfJump: true, BigEcalli: true, TwoImmJumpSx: true}).String())
		st.Inc("random-program-selfjump")
	}
	for i := 0; i < nrand; i++ {
		emit(genStructuredProgram(r, i%10 == 0).String())
		st.Inc("structured-program")
	}
	for i := 0; i < nmem; i++ {
		emit(genMemProgram(r, MemOpts{Wrap: i%16 == 0, Acc0: true}).String())
		st.Inc("mem-program")
	}
	for i := 0; i < nsbrk; i++ {
		emit(genSbrkProgram(r).String())
		st.Inc("sbrk-program")
	}
	for i := 0; i < nsbrk/3; i++ {
		emit(genSkipTargetProgram(r).String())
		st.Inc("skip-target-program")
	}
	h.EmitStats(emit, st)
}

// GenC04: every gas limit 0..steps+1 for random programs; Psi_M with limits up to and over 2^63.
func GenC04(r *h.Rng, tier string, emit func(string)) {
	st := h.Stats{}
	nprog := 4000
	if tier == "thorough" {
		nprog = 60000
	}
	for i := 0; i < nprog; i++ {
		var c Case
		switch i % 4 {
		case 0:
			c = genMemProgram(r, MemOpts{Acc0: true})
		case 1:
			c = genSbrkProgram(r)
		case 2:
			c = genRandomProgram(r, RandOpts{InvalidPct: 2, OpenEndPct: 10, WildMaskPct: 2, BigEcalli: false, TwoImmJumpSx: true})
		default:
			c = genStructuredProgram(r, i%12 == 3)
		}
		steps := stepsOf(c)
		terminates := steps < 5000
		if steps > 40 {
			steps = 40
		}
		for g := int64(0); g <= steps+1; g++ {
			c.Gas = g
			emit(c.String())
			st.Inc("gas-sweep")
		}
		for _, g := range []int64{-1, -9223372036854775808, 9223372036854775807, 1 << 62} {
			if (terminates || g < 0) && r.Intn(8) == 0 {
				c.Gas = g
				emit(c.String())
				st.Inc("gas-extreme")
			}
		}
	}
	// Psi_M: reported gas usage
	for i := 0; i < nprog; i++ {
		c := genRandomProgram(r, RandOpts{InvalidPct: 2, OpenEndPct: 10, WildMaskPct: 2, TwoImmJumpSx: true})
		if i%3 != 0 {
			c = genStructuredProgram(r, i%10 == 1)
		}
		code := c.Blob
		if psimSteps(code) >= 5000 { // a looping program would never finish under a huge limit
			continue
		}
		if hasSbrk(code) {
			// under Psi_M the heap limit is the real stack boundary (~4 GiB): an sbrk of a random register value maps up to
			// a million pages, which the list-based model does page by page (quadratic). sbrk is covered by the run cases.
			st.Inc("psim-skipped-sbrk")
			continue
		}
		lims := []uint64{0, 1, 2, 3, 5, 10, 11, 12, 20, 21, 50, 1000, 1 << 32, 1<<63 - 1, 1 << 63, 1<<63 + 1, ^uint64(0), ^uint64(0) - 1}
		for k := 0; k < 4; k++ {
			lims = append(lims, uint64(r.Intn(40)), r.U64(), r.U64()|1<<63)
		}
		for _, l := range lims {
			emit("psim " + h.Hex(code) + " " + strconv.FormatUint(l, 10))
			st.Inc("psim")
		}
	}
	genXfer(r, nprog/8, emit, st)
	h.EmitStats(emit, st)
}

// GenC05: loads / stores of every width straddling page boundaries; sbrk up to and past the limit.
func GenC05(r *h.Rng, tier string, emit func(string)) {
	st := h.Stats{}
	nmem, nsbrk := 60000, 20000
	if tier == "thorough" {
		nmem, nsbrk = 1500000, 400000
	}
	for i := 0; i < nmem; i++ {
		emit(genMemProgram(r, MemOpts{Wrap: i%16 == 0, Acc0: true}).String())
		st.Inc("mem-program")
	}
	for i := 0; i < nsbrk; i++ {
		emit(genSbrkProgram(r).String())
		st.Inc("sbrk-program")
	}
	genRange(r, 3000, emit, st)
	h.EmitStats(emit, st)
}

// hasSbrk reports whether the program has an sbrk instruction (opcode 101) at an instruction start.
func hasSbrk(blob []byte) bool {
	p, ex := PVM.DeBlobProgramCode(blob)
	if ex != PVM.ExitContinue {
		return false
	}
	for i, b := range p.InstructionData {
		if b == 101 && i < len(p.Bitmasks) && p.Bitmasks[i]&1 != 0 {
			return true
		}
	}
	return false
}
