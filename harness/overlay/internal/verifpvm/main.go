//go:build verif

package verifpvm

import (
	"bufio"
	"bytes"
	"fmt"
	"os"
	"runtime"
	"strings"
	"sync"

	h "github.com/New-JAMneration/JAM-Protocol/internal/verifh"
)

// Main speaks the harness protocol of verifh.Main (gen --seed N --tier T | run) but evaluates the
// cases of "run" on several goroutines, writing the results in input order. Every case builds its
// own program, memory and host-call table, so the cases are independent.
func Main(gen func(*h.Rng, string, func(string)), run func(string) string) {
	if len(os.Args) >= 2 && os.Args[1] == "run" {
		runParallel(run)
		return
	}
	h.Main(gen, run)
}

func runParallel(run func(string) string) {
	w := bufio.NewWriterSize(h.ProtocolOut(), 1<<20)
	defer w.Flush()
	sc := bufio.NewScanner(os.Stdin)
	sc.Buffer(make([]byte, 1<<20), 1<<28)
	workers := runtime.GOMAXPROCS(0)
	if workers > 8 {
		workers = 8
	}
	const batch = 4096
	lines := make([]string, 0, batch)
	flush := func() {
		outs := make([]string, len(lines))
		var wg sync.WaitGroup
		chunk := (len(lines) + workers - 1) / workers
		for k := 0; k < workers; k++ {
			lo, hi := k*chunk, (k+1)*chunk
			if hi > len(lines) {
				hi = len(lines)
			}
			if lo >= hi {
				break
			}
			wg.Add(1)
			go func(lo, hi int) {
				defer wg.Done()
				for i := lo; i < hi; i++ {
					line := lines[i]
					outs[i] = h.Guard(func() string { return run(line) })
				}
			}(lo, hi)
		}
		wg.Wait()
		for i, l := range lines {
			w.WriteString(l)
			w.WriteString(" | ")
			w.WriteString(outs[i])
			w.WriteByte('\n')
		}
		lines = lines[:0]
	}
	for sc.Scan() {
		line := sc.Text()
		if line == "" || line[0] == '#' {
			continue
		}
		if i := strings.Index(line, " | "); i >= 0 {
			line = line[:i]
		}
		lines = append(lines, line)
		if len(lines) == batch {
			flush()
		}
	}
	flush()
}

var zeroChunk [64]byte

// nextNonZero returns the index of the first non-zero byte of v at or after i (len(v) if none).
func nextNonZero(v []byte, i int) int {
	for i+64 <= len(v) && bytes.Equal(v[i:i+64], zeroChunk[:]) {
		i += 64
	}
	for i < len(v) && v[i] == 0 {
		i++
	}
	return i
}

var _ = fmt.Sprintf
