//go:build verif

package verifpvm

import (
	h "github.com/New-JAMneration/JAM-Protocol/internal/verifh"
)

// genSkipTargetProgram: a static jump, a taken branch or a dynamic jump whose target is the instruction right
// behind a terminator with skip length k around the clamp (22..27). For k <= 24 the target is a basic-block
// start (n+1+skip(n)), for k >= 25 it is not and the jump must panic. Added by the coordinator after a seeded
// change (block-start test `i-prev <= 24`) was missed: nothing else jumps to such a target.
func genSkipTargetProgram(r *h.Rng) Case {
	a := &Asm{}
	k := 22 + r.Intn(6)
	term := []byte{1, 0, 40, 50, 170, 180}[r.Intn(6)] // the terminator in front of the target
	kind := r.Intn(3)
	// the jumping instruction is 6 bytes long in every variant so that the layout is fixed
	termPC := 6
	target := termPC + 1 + k
	switch kind {
	case 0: // jump +target (5 bytes + 1 pad byte owned by it)
		a.Ins(append(append([]byte{40}, leBytes(uint64(target), 4)...), 0)...)
	case 1: // branch_eq r3, r3, +target : always taken
		a.Ins(append([]byte{170, 0x33}, leBytes(uint64(target), 4)...)...)
	default: // jump_ind r0 + 2 : dynamic jump through jump-table entry 0
		a.Ins(append([]byte{50, 0x0A}, leBytes(2, 4)...)...)
	}
	pad := make([]byte, k)
	for i := range pad {
		pad[i] = []byte{0, 1, 51, 40, 200, 0xFF}[r.Intn(6)]
	}
	a.Ins(append([]byte{term}, pad...)...)
	a.Ins(51, 7, 42) // load_imm r7, 42
	a.Ins(0)
	regs := randRegs(r)
	c := Case{Blob: MkBlob([]uint32{uint32(target)}, 4, a.Code, a.Mask), PC: 0, Gas: int64(5 + r.Intn(10)), Regs: regs,
		HP: 0x21000, HL: 0x30000, Pages: randMemPages(r, true), Tab: 64}
	if kind == 2 {
		// r10 = 0 so that the dynamic jump address is exactly 2
		c.Regs = zeroReg(regs, 10)
	}
	return c
}

func zeroReg(regs string, i int) string {
	out := []byte{}
	n := 0
	start := 0
	for j := 0; j <= len(regs); j++ {
		if j == len(regs) || regs[j] == ',' {
			if n == i {
				out = append(out, '0')
			} else {
				out = append(out, regs[start:j]...)
			}
			if j < len(regs) {
				out = append(out, ',')
			}
			n++
			start = j + 1
		}
	}
	return string(out)
}
