//go:build verif

package verifpvm

import (
	"strconv"

	"github.com/New-JAMneration/JAM-Protocol/PVM"
	h "github.com/New-JAMneration/JAM-Protocol/internal/verifh"
)

// C05, range stream (added by the coordinator after a seeded change — isWriteable skipping the last page of an
// unaligned range — was caught only by the C07/C33 checks): the range tests host calls apply before touching guest
// memory, on the preset map @A (pages 16 RW, 17 RO, 18 present but inaccessible, 19 absent, 20 RW, 32 RW).
// input : rng <r|w> <start> <len>        output: 1 | 0
func rangeCase(t []string) string {
	mem := PVM.VerifC01NewMemory(0x21000, 0x30000)
	for _, p := range parsePages("@A") {
		mem.Pages[p.Idx] = &PVM.Page{Value: make([]byte, PVM.ZP), Access: PVM.MemoryAccess(p.Acc)}
	}
	start, ln := h.U(t[2]), h.U(t[3])
	ok := false
	if t[1] == "w" {
		ok = PVM.VerifIsWriteable(start, ln, *mem)
	} else {
		ok = PVM.VerifIsReadable(start, ln, *mem)
	}
	if ok {
		return "1"
	}
	return "0"
}

func genRange(r *h.Rng, n int, emit func(string), st h.Stats) {
	pageStarts := []uint64{15, 16, 17, 18, 19, 20, 21, 31, 32, 33}
	one := func(kind string, s, l uint64) {
		emit("rng " + kind + " " + strconv.FormatUint(s, 10) + " " + strconv.FormatUint(l, 10))
		st.Inc("range-" + kind)
	}
	// every start in the last / first bytes of each interesting page x lengths that end just before, at and just
	// after each following page boundary (the last, partial page must count)
	for _, kind := range []string{"r", "w"} {
		for _, p := range pageStarts {
			for _, off := range []uint64{0, 1, 4088, 4092, 4094, 4095} {
				s := p*4096 + off
				for _, l := range []uint64{0, 1, 2, 4, 8, 4096 - off, 4097 - off, 4096, 4097, 8192 - off, 8193 - off, 8192, 12288, 3 * 4096 - off + 1} {
					one(kind, s, l)
				}
			}
		}
		for _, s := range []uint64{0, 65535, 65536, 1<<32 - 4096, 1<<32 - 1, 1 << 32, 1<<32 + 65536, 1 << 63, ^uint64(0)} {
			for _, l := range []uint64{0, 1, 4096, 1 << 32, 1<<32 + 1, 1 << 63, ^uint64(0), ^uint64(0) - s + 1} {
				// in-bounds ranges of more than 64 pages are left out: the model enumerates the pages of a range
				// as a list, and no preset has that many accessible pages in a row anyway
				if l > 1<<18 && l <= 1<<32 && s <= 1<<32-l {
					continue
				}
				one(kind, s, l)
			}
		}
	}
	for i := 0; i < n; i++ {
		p := pageStarts[r.Intn(len(pageStarts))]
		s := p*4096 + uint64(r.Intn(4096))
		l := uint64(r.Intn(3 * 4096))
		one([]string{"r", "w"}[r.Intn(2)], s, l)
	}
}
