//go:build verif

package verifpvm

import (
	"strconv"
	"strings"

	h "github.com/New-JAMneration/JAM-Protocol/internal/verifh"
)

// ---- C02-only streams: places where a pre-decoded table and decode-at-execute can disagree ----

// genGapProgram: an instruction followed by more than 24 bytes whose bitmask bits are clear, so that skip is
// clamped at 24 and execution continues at pc+25, an address the bitmask does not mark. The instruction is a
// terminator (fallthrough, not-taken / taken branch, jump) or an ordinary one.
func genGapProgram(r *h.Rng) Case {
	a := &Asm{}
	for i := r.Intn(3); i > 0; i-- {
		a.Ins(randIns(r, RandOpts{}, []byte{51, 100, 149, 200, 1}[r.Intn(5)])...)
	}
	op := []byte{1, 1, 81, 82, 170, 171, 40, 51, 100, 200, 149, 10, 20, 0, 52, 59}[r.Intn(16)]
	ins := randIns(r, RandOpts{SelfJump: true}, op)
	gap := 25 - (len(ins) - 1) + r.Intn(12) // bytes after the instruction that belong to nobody
	if r.Intn(6) == 0 {
		gap = 24 - (len(ins) - 1) - r.Intn(2) // exactly 24 / 23: not clamped
		if gap < 0 {
			gap = 0
		}
	}
	pad := make([]byte, gap)
	for i := range pad {
		switch r.Intn(4) {
		case 0:
			pad[i] = 0
		case 1:
			pad[i] = []byte{1, 51, 100, 200, 10, 40, 0}[r.Intn(7)]
		default:
			pad[i] = byte(r.U64())
		}
	}
	a.Ins(append(ins, pad...)...)
	n := 1 + r.Intn(4)
	for i := 0; i < n; i++ {
		a.Ins(randIns(r, RandOpts{}, []byte{51, 100, 149, 200, 1, 10, 131}[r.Intn(7)])...)
	}
	if r.Intn(4) != 0 {
		a.Ins([]byte{0, 1}[r.Intn(2)])
	}
	c := Case{Blob: MkBlob([]uint32{0}, 1, a.Code, a.Mask), PC: 0, Gas: int64(r.Intn(30)), Regs: randRegs(r),
		HP: 0x21000, HL: 0x30000, Pages: randMemPages(r, true), Tab: 64}
	return c
}

// genOddEntry: a random program entered at an address whose bitmask bit is clear (the invoker of an inner machine
// chooses any counter; the top-level entry points are fixed numbers whatever the blob's bitmask says).
func genOddEntry(r *h.Rng) Case {
	c := genRandomProgram(r, RandOpts{InvalidPct: 2, OpenEndPct: 10, WildMaskPct: 10, BigEcalli: true, TwoImmJumpSx: true})
	c.PC = 1 + r.Intn(12) // mostly inside the first instructions; may also hit a start or lie past the end
	return c
}

// genResumeProgram: ecalli instructions of every immediate length / skip interleaved with register work, gas
// around the amount the run needs so that the out-of-gas exits inside host calls are hit as well.
func genResumeProgram(r *h.Rng) Case {
	a := &Asm{}
	n := 2 + r.Intn(10)
	for i := 0; i < n; i++ {
		switch r.Intn(3) {
		case 0:
			l := r.Intn(7) // operand bytes: more than 4 leaves bytes the immediate does not use
			v := []uint64{0, 0, 1, 2, 5, 63, 64, 100, 127, 128, 255, 300, 0xFFFF, 0xFFFFFFFF}[r.Intn(14)]
			a.Ins(append([]byte{10}, leBytes(v, l)...)...)
		case 1:
			a.Ins(randIns(r, RandOpts{}, []byte{51, 100, 149, 200, 131, 20}[r.Intn(6)])...)
		default:
			a.Ins(100, byte(4+r.Intn(8))|7<<4) // move_reg rD <- r7 : keeps what the host call returned
		}
	}
	a.Ins([]byte{0, 1}[r.Intn(2)])
	gas := int64(r.Intn(40))
	if r.Intn(3) == 0 {
		gas = int64(60 + r.Intn(100))
	}
	return Case{Blob: MkBlob(nil, 1, a.Code, a.Mask), PC: 0, Gas: gas, Regs: randRegs(r), HP: 0x21000, HL: 0x30000,
		Pages: randMemPages(r, false), Tab: []int{1024, 64, 1, 101}[r.Intn(4)]}
}

// genCutProgram: a random program whose last instruction is cut short by 1..9 bytes, so that its operands lie past
// the end of the code (zero-extended code); the bitmask bytes that follow the code in the blob are mostly non-zero.
func genCutProgram(r *h.Rng) Case {
	a := &Asm{}
	for i := r.Intn(4); i > 0; i-- {
		a.Ins(randIns(r, RandOpts{}, validOps[r.Intn(len(validOps))])...)
	}
	op := validOps[r.Intn(len(validOps))]
	ins := randIns(r, RandOpts{TwoImmJumpSx: true, BigEcalli: true}, op)
	cut := 1 + r.Intn(9)
	if cut >= len(ins) {
		cut = len(ins) - 1
	}
	a.Ins(ins[:len(ins)-cut]...)
	return Case{Blob: MkBlob([]uint32{0, 2}, 1, a.Code, a.Mask), PC: 0, Gas: int64(2 + r.Intn(20)), Regs: randRegs(r),
		HP: 0x21000, HL: 0x30000, Pages: randMemPages(r, true), Tab: 64}
}

// genGapLoop: a loop whose body passes through one or two addresses that the deblob-time scan never visits
// (the address 25 bytes behind a terminator whose skip is clamped at 24; the instruction found there is mostly
// NOT a terminator), so that the block engine's handling of such an address is exercised on the 2nd, 3rd, ... visit
// as well: within one invocation (plain loop) and once per invocation (an ecalli inside the loop: every round is
// resumed behind a host call on the same Program value). Shape:
//
//	[load_imm rc = v; fallthrough]          optional prefix, makes the loop head a block start other than 0
//	H: T <unmarked filler up to H+25>        T = fallthrough | branch never taken; skip(H) clamped at 24
//	H+25: X                                  unmarked; X = the counter increment or some other instruction
//	[second segment T' filler X']            optional
//	[ecalli k] [other marked instructions] [increment if X was not it]
//	branch_lt_u_imm rc, N -> H ; trap | open end
func genGapLoop(r *h.Rng) Case {
	a := &Asm{}
	rc := byte(1 + r.Intn(12)) // loop counter register
	if rc == 7 {
		rc = 8 // r7 receives host-call results
	}
	start := uint64(r.Intn(3))
	rounds := uint64(2 + r.Intn(4))
	regs := strings.Split(randRegs(r), ",")
	regs[rc] = strconv.FormatUint(start, 10)
	if r.Intn(3) == 0 {
		a.Ins(51, rc, byte(start))
		a.Ins(1)
	}
	head := len(a.Code)
	incDone := false
	inc := []byte{149, rc | rc<<4, 1} // add_imm_64 rc, rc, 1
	segment := func() {
		var t []byte
		switch r.Intn(4) {
		case 0, 1:
			t = []byte{1} // fallthrough
		case 2:
			t = []byte{83, rc | 1<<4, 0, byte(r.Intn(8))} // branch_lt_u_imm rc, 0 : never taken
		default:
			t = []byte{171, rc | rc<<4, byte(r.Intn(8))} // branch_ne rc, rc : never taken
		}
		var x []byte
		switch k := r.Intn(10); {
		case k < 4 && !incDone:
			x, incDone = inc, true
		case k < 6:
			x = []byte{100, byte(2+r.Intn(5)) | rc<<4} // move_reg
		case k < 8:
			x = append([]byte{51, byte(2 + r.Intn(5))}, randImm(r, r.Intn(3))...) // load_imm
		case k < 9:
			x = []byte{200, rc | byte(r.Intn(13))<<4, byte(2 + r.Intn(5))} // add_64
		default:
			x = []byte{1} // a terminator at the unscanned address
		}
		ins := append([]byte{}, t...)
		for len(ins) < 25 {
			switch r.Intn(3) {
			case 0:
				ins = append(ins, 0)
			case 1:
				ins = append(ins, []byte{1, 51, 100, 149, 200, 10, 40, 83}[r.Intn(8)])
			default:
				ins = append(ins, byte(r.U64()))
			}
		}
		a.Ins(append(ins, x...)...) // one bitmask bit at T; filler and X unmarked
	}
	segment()
	if r.Intn(4) == 0 {
		a.Ins(1) // terminator with exact skip, so that the second segment starts a block
		segment()
	}
	if r.Intn(2) == 0 {
		a.Ins(append([]byte{10}, leBytes([]uint64{0, 7, 63, 200, 300}[r.Intn(5)], 1+r.Intn(2))...)...)
	}
	for i := r.Intn(3); i > 0; i-- {
		a.Ins(randIns(r, RandOpts{}, []byte{100, 200, 131, 210}[r.Intn(4)])...)
	}
	if !incDone {
		a.Ins(inc...)
	}
	bpc := len(a.Code)
	a.Ins(83, rc|1<<4, byte(start+rounds), byte(head-bpc)) // branch_lt_u_imm rc, start+rounds -> head
	if r.Intn(4) != 0 {
		a.Ins(0)
	}
	gas := int64(60 + r.Intn(200))
	if r.Intn(5) == 0 {
		gas = int64(r.Intn(40))
	}
	return Case{Blob: MkBlob(nil, 1, a.Code, a.Mask), PC: 0, Gas: gas, Regs: strings.Join(regs, ","), HP: 0x21000, HL: 0x30000,
		Pages: randMemPages(r, false), Tab: []int{1024, 64, 1}[r.Intn(3)]}
}

// GenC02: every stream of C01 (the property's quantifier) plus the C02-only streams above.
func GenC02(r *h.Rng, tier string, emit func(string)) {
	st := h.Stats{}
	np, nrand, nmem, nsbrk, nx := 2, 16000, 8000, 3000, 8000
	if tier == "thorough" {
		np, nrand, nmem, nsbrk, nx = 8, 300000, 100000, 30000, 100000
	}
	genSweep(r, SweepOpts{Pairs: allPairs(np), InvalidOps: true, OpenEnd: true}, emit, st)
	for i := 0; i < nrand; i++ {
		emit(genRandomProgram(r, RandOpts{InvalidPct: 3, OpenEndPct: 15, WildMaskPct: 3, BigEcalli: true, TwoImmJumpSx: true}).String())
		st.Inc("random-program")
	}
	for i := 0; i < nrand/20; i++ {
		emit(genRandomProgram(r, RandOpts{InvalidPct: 3, OpenEndPct: 15, WildMaskPct: 3, SelfJump: true, BigEcalli: true, TwoImmJumpSx: true}).String())
		st.Inc("random-program-selfjump")
	}
	for i := 0; i < nrand; i++ {
		emit(genStructuredProgram(r, i%10 == 0).String())
		st.Inc("structured-program")
	}
	for i := 0; i < nmem; i++ {
		emit(genMemProgram(r, MemOpts{Wrap: i%16 == 0, Acc0: true}).String())
		st.Inc("mem-program")
	}
	for i := 0; i < nsbrk; i++ {
		emit(genSbrkProgram(r).String())
		st.Inc("sbrk-program")
	}
	for i := 0; i < nx; i++ {
		emit(genGapProgram(r).String())
		st.Inc("c02-clamped-skip")
		emit(genOddEntry(r).String())
		st.Inc("c02-entry-off-bitmask")
		emit(genResumeProgram(r).String())
		st.Inc("c02-ecalli-resume")
		emit(genCutProgram(r).String())
		st.Inc("c02-cut-last-instruction")
		emit(genGapLoop(r).String())
		st.Inc("c02-unscanned-address-in-loop")
	}
	h.EmitStats(emit, st)
}
